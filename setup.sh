#!/bin/sh
# MANIFEST.setup_cmd: builds the Lean project (theorems + driver) and the harness from files on disk only.
set -e
cd "$(dirname "$0")"
export GOFLAGS=-mod=mod GOPROXY=off GOSUMDB=off GOTOOLCHAIN=local
export DBUS_SESSION_BUS_ADDRESS=${DBUS_SESSION_BUS_ADDRESS:-unix:path=/nonexistent}
mkdir -p .cache evidence replays
cp /repo/go.sum harness/go.sum
(cd harness && go build -tags verif -o ../.cache/vharness ./cmd/vharness && go build -tags verif -o ../.cache/extract ./cmd/extract && go build -race -tags verif -o ../.cache/cacherace ./cmd/cacherace)
if [ -d lean ]; then
  (cd lean && ../.cache/extract -repo /repo -out SettlusModel/Generated 2>/dev/null || true; lake build 2>&1 | tail -5)
fi
echo setup done
