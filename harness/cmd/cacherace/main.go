// cacherace exercises the feeder's block cache from one writer and several readers.
// Built with -race it reports data races; it also checks every answer against what was written.
package main

import (
	"flag"
	"fmt"
	"os"
	"sync"
	"sync/atomic"

	"github.com/settlus/chain/tools/interop-node/subscriber"
)

func main() {
	readers := flag.Int("readers", 4, "reader goroutines")
	puts := flag.Int("puts", 20000, "writes")
	capn := flag.Int("cap", 100, "capacity")
	seed := flag.Uint64("seed", 1, "seed")
	flag.Parse()
	c := subscriber.NewBlockCache(*capn)
	var maxTs atomic.Uint64
	var bad atomic.Int64
	var queries atomic.Int64
	var wg sync.WaitGroup
	stop := make(chan struct{})
	for r := 0; r < *readers; r++ {
		wg.Add(1)
		go func(r int) {
			defer wg.Done()
			defer func() {
				if p := recover(); p != nil {
					fmt.Println("READER-PANIC", p)
					bad.Add(1)
				}
			}()
			x := *seed*977 + uint64(r)*7919 + 1
			for {
				select {
				case <-stop:
					return
				default:
				}
				x = x*6364136223846793005 + 1442695040888963407
				hi := maxTs.Load()
				q := uint64(1)
				if hi > 0 {
					q = 1 + (x>>33)%(hi+3)
				}
				h, n := c.GetOldestBlock(q)
				queries.Add(1)
				if h == "" && n == 0 {
					continue
				}
				// every block written is (hash "h<ts>", number ts): the answer must be one of them and not older than asked
				if h != fmt.Sprintf("h%d", n) || uint64(n) < q {
					fmt.Printf("CORRUPT-ANSWER query=%d hash=%s number=%d\n", q, h, n)
					bad.Add(1)
				}
			}
		}(r)
	}
	func() {
		defer func() {
			if p := recover(); p != nil {
				fmt.Println("WRITER-PANIC", p)
				bad.Add(1)
			}
		}()
		x := *seed
		ts := uint64(10)
		for i := 0; i < *puts; i++ {
			x = x*6364136223846793005 + 1442695040888963407
			switch (x >> 40) % 8 {
			case 0: // out of order
				if ts > 5 {
					t := ts - 1 - (x>>20)%4
					c.PutBlockData(fmt.Sprintf("h%d", t), int64(t), t)
				}
			case 1: // same timestamp again
				c.PutBlockData(fmt.Sprintf("h%d", ts), int64(ts), ts)
			default:
				ts += 1 + (x>>10)%3
				c.PutBlockData(fmt.Sprintf("h%d", ts), int64(ts), ts)
				maxTs.Store(ts)
			}
		}
	}()
	close(stop)
	wg.Wait()
	fmt.Printf("puts=%d queries=%d bad=%d\n", *puts, queries.Load(), bad.Load())
	if bad.Load() > 0 {
		os.Exit(3)
	}
}
