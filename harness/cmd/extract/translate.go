package main

// A tiny translator for the straight-line integer functions the arithmetic theorems are about.
// It handles + - * / %, comparisons, && || !, conversions between int64 and uint64, `x := e`, `if c { return e }`, `return e`.
// uint64 arithmetic wraps (explicit `u64`), int64 arithmetic is translated to unbounded Int (its overflow is outside every theorem's range
// and recorded as an assumption). Anything else is an extractor error.

import (
	"fmt"
	"go/ast"
	"go/token"
	"go/types"
	"strings"
)

type trCtx struct {
	l      *loaded
	rename map[string]string // Go expression text -> Lean variable
	kinds  map[string]string // Lean variable -> "nat" | "int"
}

func (c *trCtx) kindOf(e ast.Expr) string {
	if tv, ok := c.l.info.Types[e]; ok {
		if b, ok := tv.Type.Underlying().(*types.Basic); ok {
			switch b.Kind() {
			case types.Uint64, types.Uint32, types.Uint, types.UntypedInt:
				if b.Kind() == types.UntypedInt {
					return "untyped"
				}
				return "nat"
			case types.Int64, types.Int:
				return "int"
			case types.Bool, types.UntypedBool:
				return "bool"
			}
		}
	}
	return "?"
}

func (c *trCtx) expr(e ast.Expr) string {
	if v, ok := c.rename[exprName(e)]; ok {
		return v
	}
	switch x := e.(type) {
	case *ast.ParenExpr:
		return "(" + c.expr(x.X) + ")"
	case *ast.BasicLit:
		return x.Value
	case *ast.Ident:
		if x.Name == "true" || x.Name == "false" {
			return x.Name
		}
		return x.Name
	case *ast.UnaryExpr:
		if x.Op == token.NOT {
			return "(!" + c.expr(x.X) + ")"
		}
	case *ast.CallExpr:
		fn := exprName(x.Fun)
		if len(x.Args) == 1 {
			inner := c.expr(x.Args[0])
			from := c.kindOf(x.Args[0])
			switch fn {
			case "uint64", "(uint64)":
				if from == "int" {
					return "(toU64 " + inner + ")"
				}
				return inner
			case "int64":
				if from == "nat" {
					return "(toI64 " + inner + ")"
				}
				return inner
			}
		}
	case *ast.BinaryExpr:
		a, b := c.expr(x.X), c.expr(x.Y)
		k := c.kindOf(x.X)
		if k == "untyped" {
			k = c.kindOf(x.Y)
		}
		switch x.Op {
		case token.LAND:
			return "(" + a + " && " + b + ")"
		case token.LOR:
			return "(" + a + " || " + b + ")"
		case token.LSS, token.GTR, token.LEQ, token.GEQ, token.EQL, token.NEQ:
			op := map[token.Token]string{token.LSS: "<", token.GTR: ">", token.LEQ: "≤", token.GEQ: "≥", token.EQL: "=", token.NEQ: "≠"}[x.Op]
			ty := "Nat"
			if k == "int" {
				ty = "Int"
			}
			return fmt.Sprintf("(decide ((%s : %s) %s %s))", a, ty, op, b)
		}
		if k == "nat" {
			switch x.Op {
			case token.ADD:
				return "(u64 (" + a + " + " + b + "))"
			case token.SUB:
				return "(u64 (" + a + " + two64 - " + b + "))"
			case token.MUL:
				return "(u64 (" + a + " * " + b + "))"
			case token.QUO:
				return "(" + a + " / " + b + ")"
			case token.REM:
				return "(" + a + " % " + b + ")"
			}
		}
		if k == "int" {
			switch x.Op {
			case token.ADD:
				return "(" + a + " + " + b + ")"
			case token.SUB:
				return "(" + a + " - " + b + ")"
			case token.MUL:
				return "(" + a + " * " + b + ")"
			case token.QUO:
				return "(Int.tdiv " + a + " " + b + ")"
			case token.REM:
				return "(Int.tmod " + a + " " + b + ")"
			}
		}
	}
	fail("%s: expression outside the translator's fragment: %s", c.l.pos(e), exprName(e))
	return "0"
}

// body translates a statement list into a Lean expression; `result` selects which returned value is wanted.
func (c *trCtx) body(stmts []ast.Stmt, result int) string {
	if len(stmts) == 0 {
		fail("function body falls off the end")
		return "0"
	}
	switch s := stmts[0].(type) {
	case *ast.AssignStmt:
		if len(s.Lhs) == 1 && len(s.Rhs) == 1 {
			name := exprName(s.Lhs[0])
			return "let " + name + " := " + c.expr(s.Rhs[0]) + "\n  " + c.body(stmts[1:], result)
		}
	case *ast.IfStmt:
		if s.Else == nil && s.Init == nil {
			return "if " + c.expr(s.Cond) + " then (" + c.body(s.Body.List, result) + ") else\n  " + c.body(stmts[1:], result)
		}
	case *ast.ReturnStmt:
		if result < len(s.Results) {
			return c.expr(s.Results[result])
		}
	}
	fail("%s: statement outside the translator's fragment", c.l.pos(stmts[0]))
	return "0"
}

func leanParams(fd *ast.FuncDecl, c *trCtx) string {
	var ps []string
	for _, f := range fd.Type.Params.List {
		ty := "Nat"
		if t := exprName(f.Type); t == "int64" || t == "int" {
			ty = "Int"
		}
		for _, n := range f.Names {
			ps = append(ps, fmt.Sprintf("(%s : %s)", n.Name, ty))
		}
	}
	return strings.Join(ps, " ")
}

func resultType(fd *ast.FuncDecl, i int) string {
	t := exprName(fd.Type.Results.List[i].Type)
	switch t {
	case "int64", "int":
		return "Int"
	case "bool":
		return "Bool"
	}
	return "Nat"
}

func translateFunc(l *loaded, goName, leanName string, result int) string {
	fd := l.funcDecl(goName)
	if fd == nil {
		fail("%s: function %s not found", l.path, goName)
		return ""
	}
	c := &trCtx{l: l, rename: map[string]string{}}
	// flatten result list (a, b int64) style
	var resTypes []string
	for i, f := range fd.Type.Results.List {
		n := len(f.Names)
		if n == 0 {
			n = 1
		}
		for j := 0; j < n; j++ {
			resTypes = append(resTypes, resultType(fd, i))
		}
	}
	return fmt.Sprintf("/-- translated from %s (%s) -/\ndef %s %s : %s :=\n  %s\n", goName, l.pos(fd), leanName, leanParams(fd, c), resTypes[result], c.body(fd.Body.List, result))
}

// the maturity test inside settleUTXRs: `payoutBlock := utxr.CreatedAt + period; if <cond> { ...; break }`
func translateMaturity(l *loaded) string {
	fd := l.funcDecl("settleUTXRs")
	if fd == nil {
		fail("x/settlement/keeper/settle.go: settleUTXRs not found")
		return ""
	}
	c := &trCtx{l: l, rename: map[string]string{"utxr.CreatedAt": "createdAt", "uint64(ctx.BlockHeight())": "height", "period": "period"}}
	var assign *ast.AssignStmt
	var cond ast.Expr
	ast.Inspect(fd, func(n ast.Node) bool {
		switch x := n.(type) {
		case *ast.AssignStmt:
			if len(x.Lhs) == 1 && exprName(x.Lhs[0]) == "payoutBlock" {
				assign = x
			}
		case *ast.IfStmt:
			if strings.Contains(exprName(x.Cond), "payoutBlock") {
				hasBreak := false
				for _, s := range x.Body.List {
					if b, ok := s.(*ast.BranchStmt); ok && b.Tok == token.BREAK {
						hasBreak = true
					}
				}
				if hasBreak {
					cond = x.Cond
				}
			}
		}
		return true
	})
	if assign == nil || cond == nil {
		fail("x/settlement/keeper/settle.go: the maturity test (payoutBlock := ...; if ... { break }) was not found in settleUTXRs")
		return ""
	}
	return fmt.Sprintf("/-- the maturity test of settleUTXRs (%s): true means the loop stops at this record -/\ndef immature (createdAt period height : Nat) : Bool :=\n  let payoutBlock := %s\n  %s\n",
		l.pos(assign), c.expr(assign.Rhs[0]), c.expr(cond))
}

// the cut-off used when publishing and filling: both call sites must be guarded against startHeight = 0
func cutoffGuards(l *loaded) string {
	out := "/-- whether the two uses of `startHeight-1` (publishing, filling) are guarded against startHeight = 0 -/\n"
	for _, fn := range []string{"ownershipOracleData", "FillSettlementRecipients"} {
		fd := l.funcDecl(fn)
		guarded := false
		uses := 0
		if fd != nil {
			ast.Inspect(fd, func(n ast.Node) bool {
				if is, ok := n.(*ast.IfStmt); ok {
					c := exprName(is.Cond)
					if c == "startHeight > 0" || c == "startHeight == 0" || c == "startHeight != 0" {
						guarded = true
					}
				}
				if be, ok := n.(*ast.BinaryExpr); ok && exprName(be) == "startHeight - 1" {
					uses++
				}
				return true
			})
		}
		if fd == nil || uses != 1 {
			fail("x/oracle/keeper/keeper.go: %s no longer has exactly one use of startHeight-1", fn)
		}
		out += fmt.Sprintf("def cutoffGuarded_%s : Bool := %v\n", fn, guarded)
	}
	return out
}

func translateAll(pkgs map[string]*loaded) string {
	var b strings.Builder
	b.WriteString("/-\n  GENERATED by harness/cmd/extract from /repo's working tree on every run - do not edit.\n  Straight-line integer functions translated expression for expression.\n-/\nimport SettlusModel.Basic\nnamespace Settlus.Gen\nopen Settlus\n\n")
	b.WriteString("/-- uint64(x) of an int64 -/\ndef toU64 (x : Int) : Nat := (x % (two64 : Int)).toNat\n/-- int64(x) of a uint64 -/\ndef toI64 (n : Nat) : Int := if n < two64 / 2 then (n : Int) else (n : Int) - (two64 : Int)\n\n")
	ot := pkgs["x/oracle/types"]
	if ot != nil {
		b.WriteString(translateFunc(ot, "CalculateRoundStartHeight", "roundStart", 0) + "\n")
		b.WriteString(translateFunc(ot, "CalculateVotePeriod", "prevoteEnd", 0) + "\n")
		b.WriteString(translateFunc(ot, "CalculateVotePeriod", "voteEnd", 1) + "\n")
		b.WriteString(translateFunc(ot, "IsSlashWindowClosing", "slashWindowClosing", 0) + "\n")
	}
	if sk := pkgs["x/settlement/keeper"]; sk != nil {
		b.WriteString(translateMaturity(sk) + "\n")
	}
	if ok := pkgs["x/oracle/keeper"]; ok != nil {
		b.WriteString(cutoffGuards(ok) + "\n")
	}
	b.WriteString("end Settlus.Gen\n")
	return b.String()
}
