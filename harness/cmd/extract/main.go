package main

func main() {}
