// extract regenerates lean/SettlusModel/Generated/*.lean from /repo's current working tree.
//
// Two sources: the typed AST of the anchored packages (go list -export + go/types, standard library only) for facts that are
// shapes of the code, and the packages themselves, linked into this binary from the same working tree, for facts that are values.
// Pattern matching is deliberately strict: an unrecognised shape is an error naming the site, which the check treats as a broken tie.
package main

import (
	"encoding/hex"
	"encoding/json"
	"flag"
	"fmt"
	"go/ast"
	"go/constant"
	"go/importer"
	"go/parser"
	"go/token"
	"go/types"
	"io"
	"os"
	"os/exec"
	"path/filepath"
	"reflect"
	"sort"
	"strings"

	sdk "github.com/cosmos/cosmos-sdk/types"
	authtypes "github.com/cosmos/cosmos-sdk/x/auth/types"
	sdkvesting "github.com/cosmos/cosmos-sdk/x/auth/vesting/types"
	distrtypes "github.com/cosmos/cosmos-sdk/x/distribution/types"
	"github.com/evmos/evmos/v19/encoding"
	evmtypes "github.com/evmos/evmos/v19/x/evm/types"

	"github.com/settlus/chain/app"
	otypes "github.com/settlus/chain/x/oracle/types"
	stypes "github.com/settlus/chain/x/settlement/types"
)

type pkgInfo struct {
	ImportPath string
	Dir        string
	Export     string
	GoFiles    []string
}

type loaded struct {
	path  string
	fset  *token.FileSet
	files []*ast.File
	info  *types.Info
	pkg   *types.Package
}

var problems []string

// repoRoot is the repository the facts are read from; file names in facts are relative to it
var repoRoot = "/repo"

func relPath(f string) string { return strings.TrimPrefix(f, strings.TrimSuffix(repoRoot, "/")+"/") }

func fail(format string, a ...interface{}) { problems = append(problems, fmt.Sprintf(format, a...)) }

func load(repo string, pats []string) map[string]*loaded {
	cmd := exec.Command("go", append([]string{"list", "-export", "-deps", "-json=ImportPath,Dir,Export,GoFiles"}, pats...)...)
	cmd.Dir = repo
	cmd.Stderr = os.Stderr
	out, err := cmd.Output()
	if err != nil {
		fmt.Fprintln(os.Stderr, "go list failed:", err)
		os.Exit(3)
	}
	dec := json.NewDecoder(strings.NewReader(string(out)))
	exports := map[string]string{}
	var targets []pkgInfo
	for {
		var p pkgInfo
		if err := dec.Decode(&p); err == io.EOF {
			break
		} else if err != nil {
			panic(err)
		}
		exports[p.ImportPath] = p.Export
		if strings.HasPrefix(p.ImportPath, "github.com/settlus/chain") {
			targets = append(targets, p)
		}
	}
	fset := token.NewFileSet()
	imp := importer.ForCompiler(fset, "gc", func(path string) (io.ReadCloser, error) {
		f, ok := exports[path]
		if !ok || f == "" {
			return nil, fmt.Errorf("no export data for %s", path)
		}
		return os.Open(f)
	})
	res := map[string]*loaded{}
	want := map[string]bool{}
	for _, p := range pats {
		want["github.com/settlus/chain/"+strings.TrimPrefix(p, "./")] = true
	}
	for _, p := range targets {
		if !want[p.ImportPath] {
			continue
		}
		var files []*ast.File
		for _, f := range p.GoFiles {
			af, err := parser.ParseFile(fset, filepath.Join(p.Dir, f), nil, 0)
			if err != nil {
				panic(err)
			}
			files = append(files, af)
		}
		info := &types.Info{Types: map[ast.Expr]types.TypeAndValue{}, Uses: map[*ast.Ident]types.Object{}, Defs: map[*ast.Ident]types.Object{}}
		conf := types.Config{Importer: imp, Error: func(err error) {}}
		pkg, _ := conf.Check(p.ImportPath, fset, files, info)
		res[strings.TrimPrefix(p.ImportPath, "github.com/settlus/chain/")] = &loaded{p.ImportPath, fset, files, info, pkg}
	}
	return res
}

func (l *loaded) funcDecl(name string) *ast.FuncDecl {
	for _, f := range l.files {
		for _, d := range f.Decls {
			if fd, ok := d.(*ast.FuncDecl); ok && fd.Name.Name == name {
				return fd
			}
		}
	}
	return nil
}

func (l *loaded) pos(n ast.Node) string {
	p := l.fset.Position(n.Pos())
	return fmt.Sprintf("%s:%d", relPath(p.Filename), p.Line)
}

func exprName(e ast.Expr) string { return types.ExprString(e) }

// ---------- Lean rendering ----------

func leanStr(s string) string { return fmt.Sprintf("%q", s) }

func leanChars(s string) string { return fmt.Sprintf("%q.toList", s) }

func leanList(xs []string) string { return "[" + strings.Join(xs, ", ") + "]" }

func mapS(xs []string, f func(string) string) []string {
	var out []string
	for _, x := range xs {
		out = append(out, f(x))
	}
	return out
}

// ---------- facts ----------

// decoratorChain returns the argument names of sdk.ChainAnteDecorators(...) in the named function.
func decoratorChain(l *loaded, fn string) []string {
	fd := l.funcDecl(fn)
	if fd == nil {
		fail("app/ante: function %s not found", fn)
		return nil
	}
	var out []string
	found := false
	ast.Inspect(fd, func(n ast.Node) bool {
		c, ok := n.(*ast.CallExpr)
		if !ok || exprName(c.Fun) != "sdk.ChainAnteDecorators" {
			return true
		}
		found = true
		for _, a := range c.Args {
			switch x := a.(type) {
			case *ast.CompositeLit:
				out = append(out, exprName(x.Type))
			case *ast.CallExpr:
				out = append(out, exprName(x.Fun))
			default:
				fail("%s: unrecognised decorator expression %s", l.pos(a), exprName(a))
			}
		}
		return false
	})
	if !found {
		fail("app/ante: %s no longer builds its chain with sdk.ChainAnteDecorators", fn)
	}
	return out
}

// msgURLs: Go type (package path + "." + name) -> proto type URL, from the application's interface registry.
func msgURLs() map[string]string {
	enc := encoding.MakeConfig(app.ModuleBasics)
	out := map[string]string{}
	for _, url := range enc.InterfaceRegistry.ListImplementations(sdk.MsgInterfaceProtoName) {
		m, err := enc.InterfaceRegistry.Resolve(url)
		if err != nil {
			continue
		}
		t := reflect.TypeOf(m).Elem()
		out[t.PkgPath()+"."+t.Name()] = url
	}
	// message types that no module of this application registers but that the limiter may still name
	for _, m := range []sdk.Msg{&sdkvesting.MsgCreateVestingAccount{}, &evmtypes.MsgEthereumTx{}} {
		t := reflect.TypeOf(m).Elem()
		out[t.PkgPath()+"."+t.Name()] = sdk.MsgTypeURL(m)
	}
	return out
}

// limiterList resolves the sdk.MsgTypeURL(&T{}) arguments of cosmosante.NewAuthzLimiterDecorator.
func limiterList(l *loaded, urls map[string]string) []string {
	fd := l.funcDecl("newCosmosAnteHandler")
	var out []string
	found := false
	if fd == nil {
		return nil
	}
	ast.Inspect(fd, func(n ast.Node) bool {
		c, ok := n.(*ast.CallExpr)
		if !ok || exprName(c.Fun) != "cosmosante.NewAuthzLimiterDecorator" {
			return true
		}
		found = true
		for _, a := range c.Args {
			ca, ok := a.(*ast.CallExpr)
			if !ok || exprName(ca.Fun) != "sdk.MsgTypeURL" || len(ca.Args) != 1 {
				fail("%s: authz limiter argument is not sdk.MsgTypeURL(&T{}): %s", l.pos(a), exprName(a))
				continue
			}
			tv, ok := l.info.Types[ca.Args[0]]
			if !ok {
				fail("%s: untyped limiter argument", l.pos(a))
				continue
			}
			pt, ok := tv.Type.(*types.Pointer)
			if !ok {
				fail("%s: limiter argument is not a pointer to a message type", l.pos(a))
				continue
			}
			nt, ok := pt.Elem().(*types.Named)
			if !ok {
				continue
			}
			key := nt.Obj().Pkg().Path() + "." + nt.Obj().Name()
			// vendored replacements keep the module path of the original in the type's package path
			url, ok := urls[key]
			if !ok {
				fail("%s: no registered message type for %s", l.pos(a), key)
				continue
			}
			out = append(out, url)
		}
		return false
	})
	if !found {
		fail("app/ante/handler_options.go: the generic chain has no cosmosante.NewAuthzLimiterDecorator")
	}
	return out
}

// prefixTests collects string literals X in strings.HasPrefix(sdk.MsgTypeURL(msg), X) and exact comparisons guarded by a height test.
func rejectRules(l *loaded) (prefixes, exact []string) {
	var fd *ast.FuncDecl
	for _, f := range l.files {
		for _, d := range f.Decls {
			if x, ok := d.(*ast.FuncDecl); ok && x.Name.Name == "AnteHandle" && x.Recv != nil && strings.Contains(exprName(x.Recv.List[0].Type), "RejectMessagesDecorator") {
				fd = x
			}
		}
	}
	if fd == nil {
		fail("app/ante/reject_msgs.go: RejectMessagesDecorator.AnteHandle not found")
		return
	}
	ast.Inspect(fd, func(n ast.Node) bool {
		is, ok := n.(*ast.IfStmt)
		if !ok {
			return true
		}
		cond := exprName(is.Cond)
		switch {
		case strings.HasPrefix(cond, "strings.HasPrefix(sdk.MsgTypeURL(msg), "):
			c := is.Cond.(*ast.CallExpr)
			if lit, ok := c.Args[1].(*ast.BasicLit); ok {
				prefixes = append(prefixes, strings.Trim(lit.Value, "\""))
			} else {
				fail("%s: prefix is not a literal", l.pos(is))
			}
		case strings.HasPrefix(cond, "sdk.MsgTypeURL(msg) == ") && strings.HasSuffix(cond, "&& ctx.BlockHeight() != 0"):
			b := is.Cond.(*ast.BinaryExpr).X.(*ast.BinaryExpr)
			if lit, ok := b.Y.(*ast.BasicLit); ok {
				exact = append(exact, strings.Trim(lit.Value, "\""))
			}
		default:
			fail("%s: unrecognised reject rule: %s", l.pos(is), cond)
		}
		// every rule must end in a return of an error
		ret := false
		for _, s := range is.Body.List {
			if _, ok := s.(*ast.ReturnStmt); ok {
				ret = true
			}
		}
		if !ret {
			fail("%s: reject rule does not return", l.pos(is))
		}
		return true
	})
	return
}

func routingPrefix(l *loaded, fn string) string {
	fd := l.funcDecl(fn)
	if fd == nil {
		fail("app/ante/ante.go: %s not found", fn)
		return ""
	}
	res := ""
	n := 0
	ast.Inspect(fd, func(nd ast.Node) bool {
		c, ok := nd.(*ast.CallExpr)
		if ok && exprName(c.Fun) == "strings.HasPrefix" && len(c.Args) == 2 && exprName(c.Args[0]) == "sdk.MsgTypeURL(msg)" {
			if lit, ok := c.Args[1].(*ast.BasicLit); ok {
				res = strings.Trim(lit.Value, "\"")
				n++
			}
		}
		return true
	})
	if n != 1 {
		fail("app/ante/ante.go: %s no longer has exactly one prefix test (found %d)", fn, n)
	}
	// the shape "empty => false; any message without the prefix => false; else true"
	src := nodeSrc(l, fd)
	if !strings.Contains(src, "len(tx.GetMsgs()) == 0") || !strings.Contains(src, "!strings.HasPrefix") {
		fail("app/ante/ante.go: %s lost its emptiness test or the negated prefix test", fn)
	}
	return res
}

func nodeSrc(l *loaded, n ast.Node) string {
	var sb strings.Builder
	ast.Inspect(n, func(x ast.Node) bool {
		if e, ok := x.(ast.Expr); ok {
			sb.WriteString(exprName(e))
			sb.WriteString(";")
		}
		return true
	})
	return sb.String()
}

func constVal(l *loaded, name string) string {
	for id, obj := range l.info.Defs {
		if id.Name == name {
			if c, ok := obj.(*types.Const); ok {
				if v, ok := constant.Uint64Val(constant.ToInt(c.Val())); ok {
					return fmt.Sprint(v)
				}
			}
		}
	}
	fail("constant %s not found in %s", name, l.path)
	return "0"
}

func suffixes(l *loaded) []string {
	fd := l.funcDecl("CalculateGasCost")
	var out []string
	if fd == nil {
		fail("app/ante/settlement_fee_checker.go: CalculateGasCost not found")
		return nil
	}
	ast.Inspect(fd, func(n ast.Node) bool {
		c, ok := n.(*ast.CallExpr)
		if ok && exprName(c.Fun) == "strings.HasSuffix" {
			if lit, ok := c.Args[1].(*ast.BasicLit); ok {
				out = append(out, strings.Trim(lit.Value, "\""))
			}
		}
		return true
	})
	return out
}

func validatorKinds(l *loaded) []string {
	fd := l.funcDecl("getValidatorFromOracleMsg")
	var out []string
	if fd == nil {
		fail("app/ante/fee.go: getValidatorFromOracleMsg not found")
		return nil
	}
	ast.Inspect(fd, func(n ast.Node) bool {
		cc, ok := n.(*ast.CaseClause)
		if ok {
			for _, e := range cc.List {
				s := exprName(e)
				out = append(out, s[strings.LastIndex(s, ".")+1:])
			}
		}
		return true
	})
	return out
}

func postChain(l *loaded) []string {
	fd := l.funcDecl("NewPostHandler")
	var out []string
	if fd == nil {
		fail("app/post/post.go: NewPostHandler not found")
		return nil
	}
	ast.Inspect(fd, func(n ast.Node) bool {
		cl, ok := n.(*ast.CompositeLit)
		if ok && strings.Contains(exprName(cl.Type), "PostDecorator") {
			for _, e := range cl.Elts {
				if c, ok := e.(*ast.CallExpr); ok {
					out = append(out, exprName(c.Fun))
				}
			}
		}
		return true
	})
	return out
}

func endBlockOrder(l *loaded) []string {
	fd := l.funcDecl("orderEndBlockers")
	var out []string
	if fd == nil {
		fail("app/modules.go: orderEndBlockers not found")
		return nil
	}
	ast.Inspect(fd, func(n ast.Node) bool {
		se, ok := n.(*ast.SelectorExpr)
		if ok && se.Sel.Name == "ModuleName" {
			if tv, ok := l.info.Types[se]; ok && tv.Value != nil {
				v := constant.StringVal(tv.Value)
				if v == "oracle" || v == "settlement" {
					out = append(out, v)
				}
			}
		}
		return true
	})
	return out
}

func moduleList(l *loaded) []string {
	// modules that execute messages on behalf of accounts, if imported by app/modules.go
	known := map[string]string{"github.com/cosmos/cosmos-sdk/x/authz": "authz", "github.com/cosmos/cosmos-sdk/x/gov": "gov", "github.com/cosmos/cosmos-sdk/x/group": "group",
		"github.com/cosmos/ibc-go/v7/modules/apps/27-interchain-accounts": "interchain-accounts", "github.com/CosmWasm/wasmd/x/wasm": "wasm"}
	seen := map[string]bool{}
	for _, f := range l.files {
		for _, im := range f.Imports {
			p := strings.Trim(im.Path.Value, "\"")
			for k, v := range known {
				if strings.HasPrefix(p, k) {
					seen[v] = true
				}
			}
		}
	}
	var out []string
	for k := range seen {
		out = append(out, k)
	}
	sort.Strings(out)
	return out
}

// inventory of nondeterminism-prone constructs in the state-machine packages
func inventory(pkgs map[string]*loaded, names []string) (maps, clocks, rands, gos []string) {
	for _, name := range names {
		l := pkgs[name]
		if l == nil {
			continue
		}
		for _, f := range l.files {
			if fn := l.fset.Position(f.Pos()).Filename; strings.HasSuffix(fn, ".pb.go") || strings.HasSuffix(fn, ".pb.gw.go") {
				continue // generated codec / gateway code
			}
			for _, im := range f.Imports {
				if p := strings.Trim(im.Path.Value, "\""); p == "math/rand" || p == "crypto/rand" {
					rands = append(rands, l.pos(im)+":"+p)
				}
			}
			var fn string
			ast.Inspect(f, func(n ast.Node) bool {
				switch x := n.(type) {
				case *ast.FuncDecl:
					fn = x.Name.Name
				case *ast.RangeStmt:
					if tv, ok := l.info.Types[x.X]; ok {
						if _, isMap := tv.Type.Underlying().(*types.Map); isMap {
							p := l.fset.Position(x.Pos())
							maps = append(maps, fmt.Sprintf("%s:%s:%s", relPath(p.Filename), fn, exprName(x.X)))
						}
					}
				case *ast.CallExpr:
					if exprName(x.Fun) == "time.Now" {
						p := l.fset.Position(x.Pos())
						clocks = append(clocks, fmt.Sprintf("%s:%s", relPath(p.Filename), fn))
					}
				case *ast.GoStmt:
					p := l.fset.Position(x.Pos())
					gos = append(gos, fmt.Sprintf("%s:%s", relPath(p.Filename), fn))
				}
				return true
			})
		}
	}
	sort.Strings(maps)
	sort.Strings(clocks)
	return
}

// panicSites lists the constructs of the two modules (and the shared types) that can panic on a data-dependent condition:
// explicit panic calls, range-checked conversions of math.Int (Int64 / Uint64), coin constructors that validate by panicking,
// Must* helpers, and indexing with a literal index.
func panicSites(pkgs map[string]*loaded, names []string) (sites []string) {
	for _, name := range names {
		l := pkgs[name]
		if l == nil {
			continue
		}
		for _, f := range l.files {
			fname := relPath(l.fset.Position(f.Pos()).Filename)
			if strings.HasSuffix(fname, ".pb.go") || strings.HasSuffix(fname, ".pb.gw.go") || strings.HasSuffix(fname, "_test.go") ||
				strings.Contains(fname, "/client/") || strings.Contains(fname, "/simulation/") || strings.HasSuffix(fname, "/module.go") ||
				strings.HasSuffix(fname, "query.go") {
				continue
			}
			var fn string
			ast.Inspect(f, func(n ast.Node) bool {
				switch x := n.(type) {
				case *ast.FuncDecl:
					fn = x.Name.Name
				case *ast.CallExpr:
					name := exprName(x.Fun)
					base := name
					if i := strings.LastIndex(name, "."); i >= 0 {
						base = name[i+1:]
					}
					switch {
					case name == "panic":
						sites = append(sites, fmt.Sprintf("%s:%s:panic", fname, fn))
					case base == "NewCoins" || base == "NewCoin" || base == "NewDecCoin" || base == "NewInt64Coin":
						sites = append(sites, fmt.Sprintf("%s:%s:%s", fname, fn, base))
					case strings.HasPrefix(base, "Must") && !strings.Contains(strings.ToLower(base), "marshal") && base != "MustSortJSON":
						sites = append(sites, fmt.Sprintf("%s:%s:%s", fname, fn, base))
					case base == "Int64" || base == "Uint64":
						if sel, ok := x.Fun.(*ast.SelectorExpr); ok {
							if tv, ok := l.info.Types[sel.X]; ok && strings.HasSuffix(tv.Type.String(), "math.Int") {
								sites = append(sites, fmt.Sprintf("%s:%s:%s", fname, fn, base))
							}
						}
					}
				case *ast.IndexExpr:
					if lit, ok := x.Index.(*ast.BasicLit); ok {
						if tv, ok := l.info.Types[x.X]; ok {
							switch tv.Type.Underlying().(type) {
							case *types.Slice, *types.Basic:
								sites = append(sites, fmt.Sprintf("%s:%s:index[%s]", fname, fn, lit.Value))
							}
						}
					}
				}
				return true
			})
		}
	}
	sort.Strings(sites)
	return
}

// timeNowOnlyTelemetry: every time.Now() is an argument of a telemetry call
func clocksOnlyTelemetry(pkgs map[string]*loaded, names []string) bool {
	ok := true
	for _, name := range names {
		l := pkgs[name]
		if l == nil {
			continue
		}
		for _, f := range l.files {
			var stack []ast.Node
			ast.Inspect(f, func(n ast.Node) bool {
				if n == nil {
					stack = stack[:len(stack)-1]
					return true
				}
				if c, isCall := n.(*ast.CallExpr); isCall && exprName(c.Fun) == "time.Now" {
					good := false
					for i := len(stack) - 1; i >= 0; i-- {
						if pc, isCall := stack[i].(*ast.CallExpr); isCall && strings.HasPrefix(exprName(pc.Fun), "telemetry.") {
							good = true
						}
					}
					if !good {
						ok = false
						fail("%s: time.Now() used outside a telemetry call", l.pos(c))
					}
				}
				stack = append(stack, n)
				return true
			})
		}
	}
	return ok
}

// lock discipline of the feeder's block cache: every method touching `data` takes the mutex first and releases it by defer
func cacheLocks(l *loaded) (methods []string, allLocked bool) {
	allLocked = true
	for _, f := range l.files {
		for _, d := range f.Decls {
			fd, ok := d.(*ast.FuncDecl)
			if !ok || fd.Recv == nil || !strings.Contains(exprName(fd.Recv.List[0].Type), "BlockCache") {
				continue
			}
			touches := false
			ast.Inspect(fd.Body, func(n ast.Node) bool {
				if se, ok := n.(*ast.SelectorExpr); ok && se.Sel.Name == "data" {
					touches = true
				}
				return true
			})
			if !touches {
				continue
			}
			locked := false
			if len(fd.Body.List) >= 2 {
				s0 := nodeSrc(l, fd.Body.List[0])
				s1 := nodeSrc(l, fd.Body.List[1])
				if (strings.Contains(s0, "mu.Lock") || strings.Contains(s0, "mu.RLock")) && (strings.Contains(s1, "mu.Unlock") || strings.Contains(s1, "mu.RUnlock")) {
					if _, isDefer := fd.Body.List[1].(*ast.DeferStmt); isDefer {
						locked = true
					}
				}
			}
			methods = append(methods, fmt.Sprintf("%s:%v", fd.Name.Name, locked))
			if !locked {
				allLocked = false
			}
		}
	}
	sort.Strings(methods)
	return
}

// blockedAll: BlockedModuleAccountAddrs marks every module account of maccPerms as blocked (the only assignment into the map has the
// literal true on its right-hand side).
func blockedAll(l *loaded) bool {
	fd := l.funcDecl("BlockedModuleAccountAddrs")
	if fd == nil || fd.Body == nil {
		fail("app: BlockedModuleAccountAddrs not found")
		return false
	}
	n, ok := 0, true
	ast.Inspect(fd.Body, func(x ast.Node) bool {
		as, is := x.(*ast.AssignStmt)
		if !is || len(as.Lhs) != 1 || len(as.Rhs) != 1 {
			return true
		}
		if _, idx := as.Lhs[0].(*ast.IndexExpr); !idx {
			return true
		}
		n++
		if id, isID := as.Rhs[0].(*ast.Ident); !isID || id.Name != "true" {
			ok = false
		}
		return true
	})
	return ok && n == 1
}

// utf8Guards: what the two ValidateBasic functions do with free-form strings that are not UTF-8, observed by calling them on messages that
// are valid in every other field. One entry per message: "<Msg>.<field>: ascii accepted=<bool> non-utf8 refused=<bool>".
func utf8Guards() []string {
	addr := sdk.AccAddress(make([]byte, 20)).String()
	val := sdk.ValAddress(make([]byte, 20)).String()
	rec := func(id string) error {
		m := stypes.MsgRecord{Sender: addr, TenantId: 1, RequestId: id, Amount: sdk.NewCoin("uusdc", sdk.NewInt(1)), ChainId: "1",
			ContractAddress: "0x00000000000000000000000000000000000000c1", TokenIdHex: "0x1"}
		return m.ValidateBasic()
	}
	pre := func(h string) error {
		m := otypes.MsgPrevote{Feeder: addr, Validator: val, Hash: h, RoundId: 0}
		return m.ValidateBasic()
	}
	return []string{
		fmt.Sprintf("MsgRecord.RequestId: ascii accepted=%v non-utf8 refused=%v", rec("r1") == nil, rec("\xff\xfe") != nil),
		fmt.Sprintf("MsgPrevote.Hash: ascii accepted=%v non-utf8 refused=%v", pre("AB12") == nil, pre("\xc3\x28") != nil),
	}
}

func main() {
	repo := flag.String("repo", "/repo", "repository")
	out := flag.String("out", "", "directory of the generated Lean files")
	flag.Parse()
	repoRoot = *repo
	pats := []string{"./app", "./app/ante", "./app/post", "./x/oracle", "./x/oracle/keeper", "./x/oracle/types", "./x/oracle/voteprocessor", "./x/settlement", "./x/settlement/keeper",
		"./x/settlement/types", "./types", "./tools/interop-node/subscriber"}
	pkgs := load(*repo, pats)
	antePkg := pkgs["app/ante"]
	if antePkg == nil {
		fmt.Fprintln(os.Stderr, "cannot load app/ante")
		os.Exit(3)
	}
	urls := msgURLs()
	cosmos := decoratorChain(antePkg, "newCosmosAnteHandler")
	settlus := decoratorChain(antePkg, "newSettlusAnteHandler")
	post := postChain(pkgs["app/post"])
	disabled := limiterList(antePkg, urls)
	prefixes, exact := rejectRules(antePkg)
	sp := routingPrefix(antePkg, "IsSettlementTx")
	op := routingPrefix(antePkg, "isOracleTx")
	var surls, ourls []string
	for _, u := range urls {
		if strings.HasPrefix(u, "/settlus.settlement") {
			surls = append(surls, u)
		}
		if strings.HasPrefix(u, "/settlus.oracle") {
			ourls = append(ourls, u)
		}
	}
	sort.Strings(surls)
	sort.Strings(ourls)
	gp := stypes.DefaultParams().GasPrices
	var prices []string
	for _, p := range gp {
		prices = append(prices, fmt.Sprintf("(%s, %s)", leanChars(p.Denom), p.Amount.BigInt().String()))
	}
	scan := []string{"x/oracle", "x/oracle/keeper", "x/oracle/types", "x/oracle/voteprocessor", "x/settlement", "x/settlement/keeper", "x/settlement/types", "app/ante", "app/post", "types"}
	maps, clocks, rands, gos := inventory(pkgs, scan)
	telemetryOnly := clocksOnlyTelemetry(pkgs, scan)
	psites := panicSites(pkgs, []string{"x/oracle", "x/oracle/keeper", "x/oracle/types", "x/oracle/voteprocessor", "x/settlement", "x/settlement/keeper", "x/settlement/types", "types"})
	methods, locked := cacheLocks(pkgs["tools/interop-node/subscriber"])
	dp := otypes.DefaultParams()

	var b strings.Builder
	w := func(format string, a ...interface{}) { fmt.Fprintf(&b, format+"\n", a...) }
	w("/-\n  GENERATED by harness/cmd/extract from /repo's working tree on every run - do not edit.\n  Configuration-shaped facts the admission, fee and determinism theorems hinge on.\n-/")
	w("namespace Settlus.Facts\n")
	w("/-- decorators of newCosmosAnteHandler, in order -/\ndef cosmosChain : List String := %s\n", leanList(mapS(cosmos, leanStr)))
	w("/-- decorators of newSettlusAnteHandler, in order -/\ndef settlusChain : List String := %s\n", leanList(mapS(settlus, leanStr)))
	w("/-- post handler chain -/\ndef postChain : List String := %s\n", leanList(mapS(post, leanStr)))
	w("/-- type URLs handed to the authz limiter -/\ndef authzDisabled : List (List Char) := %s\n", leanList(mapS(disabled, leanChars)))
	w("/-- RejectMessagesDecorator: rejected type-URL prefixes, and exact URLs rejected at any height other than 0 -/")
	w("def rejectPrefixes : List (List Char) := %s", leanList(mapS(prefixes, leanChars)))
	w("def rejectAfterGenesis : List (List Char) := %s\n", leanList(mapS(exact, leanChars)))
	w("/-- routing prefixes of IsSettlementTx / isOracleTx -/\ndef settlementPrefix : List Char := %s\ndef oraclePrefix : List Char := %s\n", leanChars(sp), leanChars(op))
	w("/-- message type URLs registered by the two modules -/\ndef settlementUrls : List (List Char) := %s\ndef oracleUrls : List (List Char) := %s\n", leanList(mapS(surls, leanChars)), leanList(mapS(ourls, leanChars)))
	w("/-- fixed gas costs of the settlement fee checker and the URL suffixes that select the higher cost -/")
	w("def settlementBasicGas : Nat := %s\ndef settlementCreateTenantGas : Nat := %s", constVal(antePkg, "SettlementBasicGasCost"), constVal(antePkg, "SettlementCreateTenantGasCost"))
	w("def createTenantSuffixes : List (List Char) := %s\n", leanList(mapS(suffixes(antePkg), leanChars)))
	w("/-- the oracle message types from which the validator check decorator reads the validator -/\ndef validatorCheckKinds : List String := %s\n", leanList(mapS(validatorKinds(antePkg), leanStr)))
	w("/-- default settlement gas prices (denom, numerator over 10^18), in the order the chain stores them -/\ndef defaultGasPrices : List (List Char × Nat) := %s\n", leanList(prices))
	w("/-- store key prefixes -/\ndef utxrPrefix : Nat := %d\ndef utxrRequestIdPrefix : Nat := %d\ndef tenantPrefix : Nat := %d\ndef lastUtxrIdPrefix : Nat := %d\n",
		stypes.UTXRPrefix[0], stypes.UTXRRequestIdPrefix[0], stypes.TenantPrefix[0], stypes.LastUtxrIdPrefix[0])
	w("/-- oracle store key prefixes -/\ndef oraclePrefixes : List Nat := [%d, %d, %d, %d, %d]\n", otypes.FeederDelegationKeyPrefix[0], otypes.MissCountKeyPrefix[0], otypes.AggregatePrevoteKeyPrefix[0], otypes.AggregateVoteKeyPrefix[0], otypes.RoundKeyPrefix[0])
	w("/-- sdk.ConstantReward as set in app.go -/\ndef constantReward : Bool := %v\n", sdk.ConstantReward)
	w("/-- end-blocker order of the two modules -/\ndef endBlockOrder : List String := %s\n", leanList(mapS(endBlockOrder(pkgs["app"]), leanStr)))
	w("/-- default oracle parameters: vote period, threshold, slash fraction (numerators over 10^18), window, max miss -/")
	w("def defaultOracleParams : List Nat := [%d, %s, %s, %d, %d]\n", dp.VotePeriod, dp.VoteThreshold.BigInt().String(), dp.SlashFraction.BigInt().String(), dp.SlashWindow, dp.MaxMissCountPerSlashWindow)
	w("/-- `range` over map-typed operands in x/, app/ante, app/post, types (file:function:operand) -/\ndef mapRanges : List String := %s\n", leanList(mapS(maps, leanStr)))
	w("/-- time.Now() call sites, and whether each is an argument of a telemetry call -/\ndef clockSites : List String := %s\ndef clocksOnlyTelemetry : Bool := %v\n", leanList(mapS(clocks, leanStr)), telemetryOnly)
	w("/-- imports of math/rand or crypto/rand, goroutine starts in the state-machine packages -/\ndef randImports : List String := %s\ndef goStatements : List String := %s\n", leanList(mapS(rands, leanStr)), leanList(mapS(gos, leanStr)))
	w("/-- constructs that can panic on data: explicit panics, math.Int range conversions, panicking coin constructors, Must* helpers, literal indexing (file:function:what) -/\ndef panicSites : List String := %s\n", leanList(mapS(psites, leanStr)))
	w("/-- modules wired into the application that can execute messages on behalf of an account -/\ndef messageExecutingModules : List String := %s\n", leanList(mapS(moduleList(pkgs["app"]), leanStr)))
	w("/-- methods of the feeder's BlockCache that touch the tree map, with whether they take the mutex first and release it by defer -/")
	w("def cacheMethods : List String := %s\ndef cacheAllLocked : Bool := %v\n", leanList(mapS(methods, leanStr)), locked)
	w("/-- every module account is on the bank's blocked list (app.go BlockedModuleAccountAddrs) -/\ndef moduleAccountsBlocked : Bool := %v\n", blockedAll(pkgs["app"]))
	w("/-- free-form strings that reach the JSON genesis document: behaviour of the two ValidateBasic functions, observed -/\ndef utf8Guards : List String := %s\n", leanList(mapS(utf8Guards(), leanStr)))
	var mods []string
	for _, m := range [][2]string{{"mdistr", distrtypes.ModuleName}, {"mpool", otypes.ModuleName}, {"mcollector", authtypes.FeeCollectorName}} {
		mods = append(mods, fmt.Sprintf("(%s, %s)", leanStr(m[0]), leanChars("0x"+hex.EncodeToString(authtypes.NewModuleAddress(m[1])))))
	}
	w("/-- addresses of the module accounts a history can name (protocol token, lower-case hex): distribution, oracle reward pool, fee collector -/\ndef moduleAddrs : List (String × List Char) := %s\n", leanList(mods))
	w("end Settlus.Facts")

	// translated integer functions
	gen := translateAll(pkgs)
	genDec := translateDec(pkgs)

	if len(problems) > 0 {
		for _, p := range problems {
			fmt.Println("EXTRACT-PROBLEM", p)
		}
	}
	if *out != "" {
		os.MkdirAll(*out, 0o755)
		os.Remove(filepath.Join(*out, "Facts.lean"))
		os.Remove(filepath.Join(*out, "Arith.lean"))
		os.Remove(filepath.Join(*out, "Dec.lean"))
		must(os.WriteFile(filepath.Join(*out, "Dec.lean"), []byte(genDec), 0o644))
		must(os.WriteFile(filepath.Join(*out, "Facts.lean"), []byte(b.String()), 0o644))
		must(os.WriteFile(filepath.Join(*out, "Arith.lean"), []byte(gen), 0o644))
		js, _ := json.MarshalIndent(map[string]interface{}{"cosmosChain": cosmos, "settlusChain": settlus, "postChain": post, "authzDisabled": disabled, "rejectPrefixes": prefixes,
			"rejectAfterGenesis": exact, "mapRanges": maps, "clockSites": clocks, "cacheMethods": methods, "problems": problems}, "", " ")
		must(os.WriteFile(filepath.Join(*out, "facts.json"), js, 0o644))
	}
	if len(problems) > 0 {
		os.Exit(4)
	}
}

func must(err error) {
	if err != nil {
		panic(err)
	}
}
