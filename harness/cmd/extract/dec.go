package main

// Translation of the fixed-point expressions of the two modules: method chains over sdk.Dec, math.Int and (per coin) sdk.DecCoins
// become applications of the operations defined in lean/SettlusModel/DecLib.lean. Anything outside the table is an extractor error.

import (
	"fmt"
	"go/ast"
	"strings"
)

type decCtx struct {
	l      *loaded
	rename map[string]string // Go expression text -> Lean variable
}

func (c *decCtx) typeOf(e ast.Expr) string {
	if tv, ok := c.l.info.Types[e]; ok {
		return tv.Type.String()
	}
	return ""
}

func (c *decCtx) expr(e ast.Expr) string {
	if v, ok := c.rename[exprName(e)]; ok {
		return v
	}
	switch x := e.(type) {
	case *ast.ParenExpr:
		return c.expr(x.X)
	case *ast.BasicLit:
		return x.Value
	case *ast.CallExpr:
		fn := exprName(x.Fun)
		switch fn {
		case "sdk.NewDec", "sdk.NewDecFromInt", "sdk.NewDecCoinsFromCoins", "math.LegacyNewDec", "math.LegacyNewDecFromInt":
			if len(x.Args) == 1 {
				return "(decOfInt " + c.expr(x.Args[0]) + ")"
			}
		case "sdk.NewInt", "math.NewInt", "int64", "uint64", "int":
			if len(x.Args) == 1 {
				return c.expr(x.Args[0])
			}
		case "sdk.NewDecCoinFromDec":
			if len(x.Args) == 2 {
				return c.expr(x.Args[1])
			}
		}
		if sel, ok := x.Fun.(*ast.SelectorExpr); ok {
			recvT := c.typeOf(sel.X)
			isInt := strings.HasSuffix(recvT, "math.Int")
			recv := c.expr(sel.X)
			arg := func(i int) string { return c.expr(x.Args[i]) }
			switch sel.Sel.Name {
			case "Mul":
				if isInt {
					return fmt.Sprintf("(intMul %s %s)", recv, arg(0))
				}
				return fmt.Sprintf("(decMul %s %s)", recv, arg(0))
			case "MulDec":
				return fmt.Sprintf("(decMul %s %s)", recv, arg(0))
			case "MulTruncate", "MulDecTruncate":
				return fmt.Sprintf("(decMulTruncate %s %s)", recv, arg(0))
			case "Quo":
				if isInt {
					return fmt.Sprintf("(intQuo %s %s)", recv, arg(0))
				}
				return fmt.Sprintf("(decQuo %s %s)", recv, arg(0))
			case "QuoTruncate":
				return fmt.Sprintf("(decQuoTruncate %s %s)", recv, arg(0))
			case "MulInt64":
				return fmt.Sprintf("(decMulInt64 %s %s)", recv, arg(0))
			case "QuoInt64":
				return fmt.Sprintf("(decQuoInt64 %s %s)", recv, arg(0))
			case "Sub":
				return fmt.Sprintf("(decSub %s %s)", recv, arg(0))
			case "Add":
				return fmt.Sprintf("(decAdd %s %s)", recv, arg(0))
			case "Ceil":
				return "(decCeil " + recv + ")"
			case "TruncateInt", "TruncateDecimal":
				return "(decTruncateInt " + recv + ")"
			case "RoundInt":
				return "(decRoundInt " + recv + ")"
			}
		}
	}
	fail("%s: fixed-point expression outside the translator's table: %s", c.l.pos(e), exprName(e))
	return "0"
}

// findAssign returns the right-hand side of the nth assignment to `lhs` inside the function.
func findAssign(l *loaded, fn, lhs string, nth int) ast.Expr {
	fd := l.funcDecl(fn)
	if fd == nil {
		fail("%s: function %s not found", l.path, fn)
		return nil
	}
	var out ast.Expr
	k := 0
	ast.Inspect(fd, func(n ast.Node) bool {
		if a, ok := n.(*ast.AssignStmt); ok && len(a.Lhs) >= 1 && len(a.Rhs) == 1 && exprName(a.Lhs[0]) == lhs {
			if k == nth {
				out = a.Rhs[0]
			}
			k++
		}
		return true
	})
	if out == nil {
		fail("%s: assignment #%d to %s not found in %s", l.path, nth, lhs, fn)
	}
	return out
}

type decTarget struct {
	pkg, fn, lhs string
	nth          int
	lean         string
	params       []string          // Lean parameter names, in order
	rename       map[string]string // Go expression -> Lean parameter
	doc          string
}

func translateDec(pkgs map[string]*loaded) string {
	targets := []decTarget{
		{"x/oracle", "EndBlocker", "thresholdVotes", 0, "thresholdVotes", []string{"voteThreshold", "totalBondedPower"},
			map[string]string{"voteThreshold": "voteThreshold", "totalBondedPower": "totalBondedPower"}, "the tally threshold (x/oracle/abci.go EndBlocker)"},
		{"app/ante", "CalculateFees", "gasFee", 0, "gasFee", []string{"ofp", "amount"},
			map[string]string{"ofp": "ofp", "fee.Amount": "amount"}, "fee collector part of a settlement fee (app/ante/fee.go CalculateFees)"},
		{"app/ante", "CalculateFees", "oracleFee", 0, "oracleFee", []string{"ofp", "amount"},
			map[string]string{"ofp": "ofp", "fee.Amount": "amount"}, "oracle pool part of a settlement fee (app/ante/fee.go CalculateFees)"},
		{"x/settlement/keeper", "tryPayout", "amount.Amount", 0, "shareEqual", []string{"amount", "n"},
			map[string]string{"utxr.Amount.Amount": "amount", "len(validRecipients)": "n"}, "equal split when the weights sum to 0 (x/settlement/keeper/settle.go tryPayout)"},
		{"x/settlement/keeper", "tryPayout", "amount.Amount", 1, "shareWeighted", []string{"amount", "w", "W"},
			map[string]string{"utxr.Amount.Amount": "amount", "recipient.Weight": "w", "totalWeight": "W"}, "weighted split (x/settlement/keeper/settle.go tryPayout)"},
		{"x/oracle/keeper", "RewardBallotWinners", "rewardCoins", 0, "rewardCoin", []string{"rewards", "weight", "weightSum"},
			map[string]string{"rewards": "rewards", "voter.Weight": "weight", "weightSum": "weightSum"}, "one validator's reward per pool coin (x/oracle/keeper/feeder.go RewardBallotWinners)"},
		{"x/oracle/keeper", "RewardBallotWinners", "probonoContribution", 0, "probonoContribution", []string{"rewardCoins", "probonoRate"},
			map[string]string{"rewardCoins": "rewardCoins", "probonoRate": "probonoRate"}, "a pro-bono validator's contribution to the community pool"},
		{"x/oracle/keeper", "RewardBallotWinners", "finalReward", 0, "finalReward", []string{"rewardCoins", "probonoContribution"},
			map[string]string{"rewardCoins": "rewardCoins", "probonoContribution": "probonoContribution"}, "what the validator is credited"},
	}
	var b strings.Builder
	b.WriteString("/-\n  GENERATED by harness/cmd/extract from /repo's working tree on every run - do not edit.\n  Fixed-point expressions of the two modules, translated operation for operation into the functions of DecLib.lean.\n-/\nimport SettlusModel.DecLib\nnamespace Settlus.GenDec\nopen Settlus.SDK\n\n")
	for _, t := range targets {
		l := pkgs[t.pkg]
		if l == nil {
			fail("package %s not loaded", t.pkg)
			continue
		}
		rhs := findAssign(l, t.fn, t.lhs, t.nth)
		if rhs == nil {
			continue
		}
		c := &decCtx{l: l, rename: t.rename}
		var ps []string
		for _, p := range t.params {
			ps = append(ps, "("+p+" : Int)")
		}
		fmt.Fprintf(&b, "/-- %s; translated from %s -/\ndef %s %s : Int :=\n  %s\n\n", t.doc, l.pos(rhs), t.lean, strings.Join(ps, " "), c.expr(rhs))
	}
	b.WriteString("end Settlus.GenDec\n")
	return b.String()
}
