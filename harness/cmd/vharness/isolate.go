package main

import (
	"fmt"
	"strconv"
	"strings"

	"vharness/internal/monitor"
)

// addressee returns the tenant id a settlement message is addressed to (0: none).
func addressee(op string) int {
	f := strings.Fields(op)
	if len(f) < 3 {
		return 0
	}
	switch f[0] {
	case "tx":
		// a signed transaction all of whose messages are addressed to one tenant
		return monitor.TxAddressee(f)
	case "deposit", "record", "cancel", "addadmin", "rmadmin", "setperiod":
		n, err := strconv.Atoi(f[2])
		if err != nil {
			return 0
		}
		return n
	case "inject":
		n, err := strconv.Atoi(f[1])
		if err != nil {
			return 0
		}
		return n
	}
	return 0
}

// project keeps what tenant k can observe of a dump: its entry, records, index, counter and treasury.
func project(dump []string, k int) []string {
	var out []string
	ks := strconv.Itoa(k)
	for _, l := range dump {
		f := strings.Fields(l)
		if len(f) < 2 {
			continue
		}
		switch f[0] {
		case "T", "U", "I", "L":
			if f[1] == ks {
				out = append(out, l)
			}
		case "B":
			if f[1] == "t"+ks {
				out = append(out, l)
			}
		}
	}
	return out
}

// projectRes keeps of a block's answer the entries of tenant k (settled / dropped / filled lists are "tenant:id[...]" items).
func projectRes(res string, k int) string {
	f := strings.Fields(res)
	if len(f) < 2 || !strings.HasPrefix(f[1], "h=") {
		return res
	}
	ks := strconv.Itoa(k) + ":"
	for i, kv := range f {
		for _, name := range []string{"settled=", "dropped=", "filled="} {
			if strings.HasPrefix(kv, name) {
				var keep []string
				for _, it := range strings.Split(kv[len(name):], ",") {
					if strings.HasPrefix(it, ks) {
						keep = append(keep, it)
					}
				}
				if len(keep) == 0 {
					keep = []string{"-"}
				}
				f[i] = name + strings.Join(keep, ",")
			}
		}
	}
	return strings.Join(f, " ")
}

func cannotPay(detail string) bool {
	return strings.Contains(detail, "insufficient funds") || strings.Contains(detail, "account not found") || strings.Contains(detail, "does not exist")
}

// isolationCheck re-executes the history once per tenant with the messages addressed to the other tenants removed
// and compares, operation by operation, the answers and the tenant's projection of the state (C13).
func isolationCheck(ops []string, full *monitor.Trace, engine string, br map[string]int) []monitor.Violation {
	tenants := map[int]bool{}
	for _, op := range ops {
		if a := addressee(op); a > 0 {
			tenants[a] = true
		}
		if strings.HasPrefix(op, "failat") {
			return nil // injected faults are counted per block across tenants: not comparable
		}
	}
	if len(tenants) < 2 {
		return nil
	}
	for k := 1; k <= 9; k++ {
		if !tenants[k] {
			continue
		}
		var kept []string
		var idx []int
		for i, op := range ops {
			if a := addressee(op); a > 0 && a != k {
				continue
			}
			kept = append(kept, op)
			idx = append(idx, i)
		}
		if len(kept) == len(ops) {
			continue
		}
		br["c13:tenant-projections-compared"]++
		alone, _ := runHistory(kept, nil, engine)
		for j, i := range idx {
			fs, as := full.Steps[i], alone.Steps[j]
			if fs.Res != as.Res && (cannotPay(fs.Detail) || cannotPay(as.Detail)) {
				// what an account can afford - or whether it exists yet - does depend on what else it paid for or was paid (a recipient of
				// one tenant's payout depositing with another tenant): that is the account's affair, not a tenant's view
				break
			}
			if f := strings.Fields(ops[i]); fs.Res != as.Res && len(f) > 0 && f[0] == "tx" && monitor.TxSeveralTenants(f) {
				// a transaction with messages of several tenants is all or nothing: its outcome depends on the other tenants' part of it,
				// which the statement's pair of histories does not take apart
				break
			}
			if projectRes(fs.Res, k) != projectRes(as.Res, k) {
				return []monitor.Violation{{Property: "C13", Key: "isolation", Step: i,
					What: fmt.Sprintf("tenant %d: op %q answers %q with the other tenants active and %q alone", k, ops[i], fs.Res, as.Res)}}
			}
			pf, pa := project(fs.Dump, k), project(as.Dump, k)
			if strings.Join(pf, "\n") != strings.Join(pa, "\n") {
				d := ""
				for x := 0; x < len(pf) || x < len(pa); x++ {
					a, b := "<none>", "<none>"
					if x < len(pf) {
						a = pf[x]
					}
					if x < len(pa) {
						b = pa[x]
					}
					if a != b {
						d = fmt.Sprintf("%q vs %q", a, b)
						break
					}
				}
				return []monitor.Violation{{Property: "C13", Key: "isolation", Step: i,
					What: fmt.Sprintf("tenant %d: after op %d %q its view differs between the full history and the history without the other tenants: %s", k, i, ops[i], d)}}
			}
		}
	}
	return nil
}
