// vharness: runs seeded operation histories against the real settlus application and writes transcripts.
package main

import (
	"bufio"
	"crypto/sha256"
	"encoding/hex"
	"encoding/json"
	"flag"
	"fmt"
	"os"
	"path/filepath"
	"strconv"
	"strings"

	sdk "github.com/cosmos/cosmos-sdk/types"

	"vharness/internal/gen"
	"vharness/internal/monitor"
	"vharness/internal/rng"
	"vharness/internal/world"
)

type Stats struct {
	Engine     string              `json:"engine"`
	Profile    string              `json:"profile"`
	Seed       uint64              `json:"seed"`
	Histories  int                 `json:"histories"`
	Distinct   int                 `json:"distinct_histories"`
	NonTrivial int                 `json:"distinct_nontrivial"`
	Ops        int                 `json:"ops"`
	OpKinds    map[string]int      `json:"op_kinds"`
	Outcomes   map[string]int      `json:"outcomes"`
	Branches   map[string]int      `json:"branches"`
	Violations []monitor.Violation `json:"violations"`
	Sample     []string            `json:"sample"`
}

func main() {
	if len(os.Args) < 2 {
		fmt.Fprintln(os.Stderr, "usage: vharness chain|replay|pure|ante ...")
		os.Exit(2)
	}
	switch os.Args[1] {
	case "chain":
		chainCmd(os.Args[2:], "chain")
	case "ante":
		chainCmd(os.Args[2:], "ante")
	case "replay":
		replayCmd(os.Args[2:])
	default:
		if f, ok := extraCmds[os.Args[1]]; ok {
			f(os.Args[2:])
			return
		}
		fmt.Fprintln(os.Stderr, "unknown engine", os.Args[1])
		os.Exit(2)
	}
}

var extraCmds = map[string]func([]string){}

// runHistory executes the ops on a fresh world and returns the transcript lines.
// twinDigest: in twin runs of the keeper-level engine every block is followed by a digest of the complete stores
var twinDigest bool

func runHistory(ops []string, st *Stats, engine string) (*monitor.Trace, []string) {
	var w *world.World
	if engine == "ante" {
		w = world.NewKeyed()
		w.Real = true
		w.BeginChain()
	} else {
		w = world.New()
	}
	tr := &monitor.Trace{Engine: engine}
	var out []string
	init := w.Exec("dump").Dump
	tr.Init = init
	for _, l := range init {
		out = append(out, "| "+l)
	}
	for _, op := range ops {
		res := w.Exec(op)
		if twinDigest && engine != "ante" && op == "block" {
			res.Hash = w.StoreDigest()
		}
		out = append(out, "> "+op, "< "+res.Line)
		for _, d := range res.Dump {
			out = append(out, "| "+d)
		}
		if res.Hash != "" {
			out = append(out, "# apphash "+res.Hash)
		}
		if res.Detail != "" && res.Line != "ok" {
			out = append(out, "# detail "+strconv.QuoteToASCII(res.Detail))
		}
		tr.Steps = append(tr.Steps, monitor.Step{Op: op, Res: res.Line, Detail: res.Detail, Dump: res.Dump})
		if st != nil {
			kind := strings.Fields(op)[0]
			st.Ops++
			st.OpKinds[kind]++
			st.Outcomes[kind+":"+strings.Fields(res.Line)[0]]++
		}
	}
	return tr, out
}

func chainCmd(args []string, engine string) {
	fs := flag.NewFlagSet(engine, flag.ExitOnError)
	profile := fs.String("profile", "mixed", "generator profile")
	seed := fs.Uint64("seed", 1, "seed")
	n := fs.Int("n", 10, "number of histories")
	dir := fs.String("dir", "", "output directory")
	props := fs.String("props", "", "comma separated property ids whose monitors run (empty: all)")
	twin := fs.Bool("twin", false, "run every history twice on fresh applications and compare (C07)")
	cr := fs.Int("cr", 1, "sdk.ConstantReward for this run (the application sets 1; 0 exercises the modules with the validators' real powers)")
	isolate := fs.Bool("isolate", false, "re-run every history once per tenant without the other tenants' messages and compare the tenant's view (C13)")
	fs.Parse(args)
	sdk.ConstantReward = *cr == 1
	p, ok := gen.Profiles[*profile]
	if !ok && engine != "ante" {
		fmt.Fprintln(os.Stderr, "unknown profile")
		os.Exit(2)
	}
	if engine == "ante" {
		*profile = "ante"
	}
	must(os.MkdirAll(*dir, 0o755))
	twinDigest = *twin
	st := &Stats{Engine: engine, Profile: *profile, Seed: *seed, OpKinds: map[string]int{}, Outcomes: map[string]int{}, Branches: map[string]int{}}
	root := rng.New(*seed)
	seen := map[string]bool{}
	for i := 0; i < *n; i++ {
		var ops []string
		if engine == "ante" {
			ops = gen.GenerateAnte(root.Fork(), 45)
		} else {
			ops = gen.Generate(p, root.Fork())
		}
		base := filepath.Join(*dir, fmt.Sprintf("%s-%d-%d", *profile, *seed, i))
		must(os.WriteFile(base+".ops", []byte(strings.Join(ops, "\n")+"\n"), 0o644))
		tr, out := runHistory(ops, st, engine)
		must(os.WriteFile(base+".impl", []byte(strings.Join(out, "\n")+"\n"), 0o644))
		if *twin {
			_, out2 := runHistory(ops, nil, engine)
			st.Branches["c07:twin-runs"]++
			for k := range out {
				if k >= len(out2) || out[k] != out2[k] {
					o2 := "<missing>"
					if k < len(out2) {
						o2 = out2[k]
					}
					step := 0
					for _, l := range out[:k] {
						if strings.HasPrefix(l, "> ") {
							step++
						}
					}
					st.Violations = append(st.Violations, monitor.Violation{Property: "C07", Key: "twin-divergence", Step: step - 1, History: base + ".ops",
						What: fmt.Sprintf("two executions of the same history differ at transcript line %d: %q vs %q", k, out[k], o2)})
					break
				}
			}
		}
		h := sha256.Sum256([]byte(strings.Join(out, "\n")))
		hs := hex.EncodeToString(h[:8])
		st.Histories++
		vs := monitor.Run(tr, *props, st.Branches)
		if *isolate {
			vs = append(vs, isolationCheck(ops, tr, engine, st.Branches)...)
		}
		for k := range vs {
			vs[k].History = base + ".ops"
		}
		st.Violations = append(st.Violations, vs...)
		if !seen[hs] {
			seen[hs] = true
			st.Distinct++
			if monitor.NonTrivial(tr) {
				st.NonTrivial++
			}
		}
		if i == 0 {
			st.Sample = ops
			if len(st.Sample) > 40 {
				st.Sample = st.Sample[:40]
			}
		}
	}
	b, _ := json.MarshalIndent(st, "", " ")
	must(os.WriteFile(filepath.Join(*dir, fmt.Sprintf("%s-%d.stats.json", *profile, *seed)), b, 0o644))
	fmt.Printf("histories=%d distinct=%d nontrivial=%d ops=%d violations=%d\n", st.Histories, st.Distinct, st.NonTrivial, st.Ops, len(st.Violations))
}

// replayCmd runs one .ops file and prints the transcript and monitor verdicts.
func replayCmd(args []string) {
	fs := flag.NewFlagSet("replay", flag.ExitOnError)
	file := fs.String("ops", "", "ops file")
	out := fs.String("out", "", "transcript output (default stdout)")
	props := fs.String("props", "", "property monitors to run")
	engine := fs.String("engine", "chain", "chain or ante")
	fs.Parse(args)
	f, err := os.Open(*file)
	must(err)
	var ops []string
	sc := bufio.NewScanner(f)
	sc.Buffer(make([]byte, 1<<20), 1<<24)
	for sc.Scan() {
		l := strings.TrimSpace(sc.Text())
		if l == "" || strings.HasPrefix(l, "#") {
			continue
		}
		ops = append(ops, l)
	}
	tr, lines := runHistory(ops, nil, *engine)
	if *out != "" {
		must(os.WriteFile(*out, []byte(strings.Join(lines, "\n")+"\n"), 0o644))
	} else {
		fmt.Println(strings.Join(lines, "\n"))
	}
	vs := monitor.Run(tr, *props, map[string]int{})
	if strings.Contains(*props, "C13") {
		vs = append(vs, isolationCheck(ops, tr, *engine, map[string]int{})...)
	}
	for _, v := range vs {
		fmt.Printf("MONITOR-FAIL property=%s key=%s step=%d %s\n", v.Property, v.Key, v.Step, v.What)
	}
	if len(vs) > 0 {
		os.Exit(1)
	}
}

func must(err error) {
	if err != nil {
		panic(err)
	}
}
