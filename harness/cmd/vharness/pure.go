package main

import (
	"context"
	"encoding/hex"
	"encoding/json"
	"flag"
	"fmt"
	"io"
	"net/http"
	"net/http/httptest"
	"os"
	"path/filepath"
	"strconv"
	"strings"
	"unicode/utf8"

	sdk "github.com/cosmos/cosmos-sdk/types"

	"github.com/settlus/chain/app/ante"
	"github.com/settlus/chain/tools/interop-node/feeder"
	"github.com/settlus/chain/tools/interop-node/subscriber"
	itypes "github.com/settlus/chain/tools/interop-node/types"
	ctypes "github.com/settlus/chain/types"
	otypes "github.com/settlus/chain/x/oracle/types"
	stypes "github.com/settlus/chain/x/settlement/types"

	"vharness/internal/monitor"
	"vharness/internal/rng"
	"vharness/internal/world"
)

func init() { extraCmds["pure"] = pureCmd }

type stubSub struct {
	id    string
	owner string
	fail  bool
}

func (s *stubSub) Id() string                { return s.id }
func (s *stubSub) Start(ctx context.Context) {}
func (s *stubSub) Stop()                     {}
func (s *stubSub) GetOldestBlock(ts uint64) (otypes.BlockData, error) {
	return otypes.BlockData{ChainId: s.id, BlockNumber: 7, BlockHash: "0xabc"}, nil
}
func (s *stubSub) OwnerOf(ctx context.Context, nft, tok, bh string) (string, error) {
	if s.fail {
		return "", fmt.Errorf("no owner")
	}
	return s.owner, nil
}

var cache *subscriber.BlockCache

// the feeder's real Ethereum subscriber, pointed at a local server that records the eth_call it receives
var (
	rpcSrv  *httptest.Server
	rpcSub  *subscriber.EthereumSubscriber
	rpcLast struct {
		Params []json.RawMessage `json:"params"`
	}
)

func ownerOfCall(contract, token string) string {
	if rpcSrv == nil {
		rpcSrv = httptest.NewServer(http.HandlerFunc(func(w http.ResponseWriter, r *http.Request) {
			b, _ := io.ReadAll(r.Body)
			rpcLast.Params = nil
			_ = json.Unmarshal(b, &rpcLast)
			fmt.Fprint(w, `{"jsonrpc":"2.0","id":"1","result":"0x0000000000000000000000000101010101010101010101010101010101010101"}`)
		}))
		var err error
		rpcSub, err = subscriber.NewEthereumSubscriber("1", rpcSrv.URL, nil)
		must(err)
	}
	rpcLast.Params = nil
	if _, err := rpcSub.OwnerOf(context.Background(), contract, token, "abc"); err != nil || len(rpcLast.Params) == 0 {
		return "err"
	}
	var call struct {
		To   string `json:"to"`
		Data string `json:"data"`
	}
	if json.Unmarshal(rpcLast.Params[0], &call) != nil {
		return "err"
	}
	return "ok to=" + world.EncStr(strings.ToLower(call.To)) + " data=" + world.EncStr(strings.ToLower(call.Data))
}

func catchP(f func() string) (out string) {
	defer func() {
		if p := recover(); p != nil {
			out = "panic"
		}
	}()
	return f()
}

func lowerHex(s string) string { return strings.ToLower(s) }

func nftLine(n ctypes.Nft) string {
	return world.EncStr(n.ChainId) + "/" + lowerHex(string(n.ContractAddr)) + "/" + lowerHex(string(n.TokenId))
}

func pureExec(line string) string {
	f := strings.Fields(line)
	S := world.Str
	return catchP(func() string {
		switch f[0] {
		case "normhex":
			return "ok " + lowerHex(string(ctypes.NormalizeHexAddress(S(f[1]))))
		case "hexbytes":
			h := ctypes.HexAddressString(S(f[1]))
			n := 0
			if h.IsNull() {
				n = 1
			}
			return fmt.Sprintf("ok %s null=%d", hex.EncodeToString(h.Bytes()), n)
		case "parsenft":
			n, err := ctypes.ParseNftId(S(f[1]))
			if err != nil {
				return "err"
			}
			return "ok " + nftLine(n)
		case "fmtnft":
			n := ctypes.Nft{ChainId: S(f[1]), ContractAddr: ctypes.NormalizeHexAddress(S(f[2])), TokenId: ctypes.NormalizeHexAddress(S(f[3]))}
			return "ok " + world.EncStr(world.CanonSource(n.FormatString()))
		case "parseentry":
			n, o, err := otypes.StringToOwnershipData(S(f[1]))
			if err != nil {
				return "err"
			}
			return "ok " + nftLine(n) + " " + lowerHex(string(o))
		case "validvd":
			var chains []string
			if f[2] != "-" {
				for _, c := range strings.Split(f[2], ",") {
					chains = append(chains, S(c))
				}
			}
			return fmt.Sprintf("ok %v", otypes.ValidateVoteData(world.ParseVoteData(f[1]), chains))
		case "hash":
			h, err := otypes.GetAggregateVoteHash(world.ParseVoteData(f[2]), S(f[1]))
			if err != nil {
				return "err"
			}
			return "ok " + h
		case "fhash":
			return "ok " + feeder.GeneratePrevoteHash(itypes.VoteDataArr(world.ParseVoteData(f[2])), S(f[1]))
		case "utf8": // utf8.ValidString, and what the string is after the module codec's JSON encoding and decoding
			in := S(f[1])
			bz, err := stypes.ModuleCdc.MarshalJSON(&stypes.MsgCancel{RequestId: in})
			if err != nil {
				return "err"
			}
			var back stypes.MsgCancel
			if err := stypes.ModuleCdc.UnmarshalJSON(bz, &back); err != nil {
				return "err"
			}
			return fmt.Sprintf("ok %t %s", utf8.ValidString(in), world.EncStr(back.RequestId))
		case "trim":
			return "ok " + world.EncStr(itypes.TrimHexZeroes(S(f[1])))
		case "ownerof": // contract token: the eth_call the feeder sends for ownerOf(token)
			return ownerOfCall(S(f[1]), S(f[2]))
		case "fmtentry": // nftid owner
			id := S(f[1])
			subs := map[string]subscriber.Subscriber{}
			if n, err := ctypes.ParseNftId(id); err == nil {
				subs[n.ChainId] = &stubSub{id: n.ChainId, owner: S(f[2])}
			}
			out, err := feeder.VerifGatherNftOwnerData(subs, []string{id}, 1)
			if err != nil {
				return "err"
			}
			return "ok " + world.EncStr(out[0])
		case "fmtentries": // nftid,nftid,... owner,owner,...  : the i-th owner is what the chain of the i-th NFT answers (first mention of a chain wins)
			ids := strings.Split(f[1], ",")
			owners := strings.Split(f[2], ",")
			subs := map[string]subscriber.Subscriber{}
			var raw []string
			for i, t := range ids {
				id := S(t)
				raw = append(raw, id)
				if n, err := ctypes.ParseNftId(id); err == nil {
					if _, have := subs[n.ChainId]; !have {
						subs[n.ChainId] = &stubSub{id: n.ChainId, owner: S(owners[i])}
					}
				}
			}
			out, err := feeder.VerifGatherNftOwnerData(subs, raw, 1)
			if err != nil {
				return "err"
			}
			var enc []string
			for _, o := range out {
				enc = append(enc, world.EncStr(o))
			}
			return "ok " + strings.Join(enc, ",")
		case "calcfees":
			ofp := sdk.MustNewDecFromStr(f[1])
			var fees sdk.Coins
			for _, c := range strings.Split(f[2], ",") {
				ad := strings.SplitN(c, ":", 2)
				a, _ := sdk.NewIntFromString(ad[0])
				fees = fees.Add(sdk.NewCoin(ad[1], a))
			}
			g, o := ante.CalculateFees(ofp, fees)
			return fmt.Sprintf("ok gas=%s oracle=%s", coinsStr(g), coinsStr(o))
		case "roundstart":
			h, _ := strconv.ParseInt(f[1], 10, 64)
			p, _ := strconv.ParseUint(f[2], 10, 64)
			return fmt.Sprintf("ok %d", otypes.CalculateRoundStartHeight(h, p))
		case "voteperiod":
			h, _ := strconv.ParseInt(f[1], 10, 64)
			p, _ := strconv.ParseUint(f[2], 10, 64)
			a, b := otypes.CalculateVotePeriod(h, p)
			return fmt.Sprintf("ok %d %d", a, b)
		case "utxrkey":
			t, _ := strconv.ParseUint(f[1], 10, 64)
			i, _ := strconv.ParseUint(f[2], 10, 64)
			return "ok " + hex.EncodeToString(stypes.UTXRStoreKey(t, i))
		case "reqkey":
			t, _ := strconv.ParseUint(f[1], 10, 64)
			return "ok " + hex.EncodeToString(stypes.UTXRStoreByRequestIdKey(t, S(f[2])))
		case "oparams":
			vp, _ := strconv.ParseUint(f[1], 10, 64)
			w, _ := strconv.ParseUint(f[4], 10, 64)
			m, _ := strconv.ParseUint(f[5], 10, 64)
			p := otypes.Params{VotePeriod: vp, VoteThreshold: sdk.MustNewDecFromStr(f[2]), SlashFraction: sdk.MustNewDecFromStr(f[3]), SlashWindow: w, MaxMissCountPerSlashWindow: m}
			if p.Validate() != nil {
				return "err"
			}
			return "ok"
		case "sparams":
			p := stypes.DefaultParams()
			p.SupportedChains = nil
			if f[1] != "-" {
				for i, c := range strings.Split(f[1], ",") {
					p.SupportedChains = append(p.SupportedChains, &ctypes.Chain{ChainId: S(c), ChainName: fmt.Sprintf("n%d", i), ChainUrl: "u"})
				}
			}
			if p.Validate() != nil {
				return "err"
			}
			return "ok"
		case "cnew":
			n, _ := strconv.Atoi(f[1])
			cache = subscriber.NewBlockCache(n)
			return "ok"
		case "cput":
			n, _ := strconv.ParseInt(f[2], 10, 64)
			ts, _ := strconv.ParseUint(f[3], 10, 64)
			cache.PutBlockData(S(f[1]), n, ts)
			return "ok"
		case "cget":
			ts, _ := strconv.ParseUint(f[1], 10, 64)
			h, n := cache.GetOldestBlock(ts)
			if h == "" && n == 0 {
				return "miss"
			}
			return fmt.Sprintf("ok %s %d", world.EncStr(h), n)
		}
		return "bad-op"
	})
}

func coinsStr(cs sdk.Coins) string {
	if len(cs) == 0 {
		return "-"
	}
	var out []string
	for _, c := range cs {
		out = append(out, c.Amount.String()+":"+c.Denom)
	}
	return strings.Join(out, ",")
}

// ---------- generator ----------

var hexish = []string{"0x1", "0x01", "1", "0X1", "0xABCDEF", "abcdef", "0x", "", "0x0", "0x00", "zz", "0xzz", "0x0000000000000000000000000000000000000000",
	"0x00000000000000000000000000000000000000c1", "0x00000000000000000000000000000000000000C1", "c1", "0xfffffffffffffffffffffffffffffffffffffffffffffffffffffffffffffff0",
	"0x1ffffffffffffffffffffffffffffffffffffffffffffffffffffffffffffff0", "0x0101010101010101010101010101010101010101", "0x123", "0x0123", "0x00000123", "0x1g", "0xa b"}
var chainish = []string{"1", "137", "eth-2", "settlus_5371-1", "", "a/b", "eip155:1", " ", "999"}

// randBytes: byte strings around the edges of UTF-8 well-formedness (overlongs, surrogates, truncated and stray continuation bytes)
func randBytes(r *rng.R) string {
	pieces := []string{"a", "r1", "\x00", "\x7f", "\x80", "\xbf", "\xc0\xaf", "\xc1\xbf", "\xc2\x80", "\xdf\xbf", "\xc2", "\xe0\x80\x80", "\xe0\xa0\x80", "\xe0\x9f\xbf",
		"\xed\x9f\xbf", "\xed\xa0\x80", "\xee\x80\x80", "\xef\xbf\xbd", "\xe2\x82\xac", "\xe2\x82", "\xe2", "\xf0\x90\x80\x80", "\xf0\x8f\xbf\xbf", "\xf4\x8f\xbf\xbf",
		"\xf4\x90\x80\x80", "\xf5\x80\x80\x80", "\xf0\x90\x80", "\xf0\x90", "\xf0", "\xff", "\xfe", "\"", "\\", "<", "\xe2\x80\xa8"}
	n := r.N(5)
	out := ""
	for i := 0; i < n; i++ {
		if r.P(1, 5) {
			out += string([]byte{byte(r.N(256))})
		} else {
			out += rng.Pick(r, pieces)
		}
	}
	return out
}

func randHex(r *rng.R) string {
	if r.P(2, 3) {
		return rng.Pick(r, hexish)
	}
	n := r.N(70)
	b := make([]byte, n)
	for i := range b {
		b[i] = "0123456789abcdefABCDEF"[r.N(22)]
	}
	p := rng.Pick(r, []string{"0x", "", "0X", "0x0", "0x00"})
	return p + string(b)
}

// randHexDigits: well-formed hex only (0x + digits), any length up to 64 digits, any case
func randHexDigits(r *rng.R) string {
	n := 1 + r.N(64)
	if r.P(1, 3) {
		n = 1 + r.N(4)
	}
	b := make([]byte, n)
	for i := range b {
		b[i] = "0123456789abcdefABCDEF"[r.N(22)]
	}
	return "0x" + string(b)
}

func randAddr(r *rng.R) string {
	b := make([]byte, 40)
	for i := range b {
		b[i] = "0123456789abcdefABCDEF"[r.N(22)]
	}
	for i, k := 0, r.N(4); i < k; i++ {
		b[39-i] = '0'
	}
	if r.P(1, 3) {
		for i, k := 0, 1+r.N(24); i < k; i++ {
			b[i] = '0'
		}
	}
	pad := rng.Pick(r, []string{"0x", "0x", "0x000000000000000000000000"}) // eth_call returns a 32-byte word
	return pad + string(b)
}

func randEntry(r *rng.R) string {
	switch r.N(10) {
	case 0:
		return rng.Pick(r, []string{"", ":", "::", "a", "1/0x1/0x1", "1/0x1:0x1", "//:", "1/0x1/0x1:0x2:0x3", "1/0x1/0x1/0x2:0x1"})
	default:
		return rng.Pick(r, chainish) + "/" + randHex(r) + "/" + randHex(r) + ":" + randHex(r)
	}
}

func randVD(r *rng.R) string {
	k := r.N(3)
	if k == 0 {
		return "-"
	}
	var parts []string
	for i := 0; i < k; i++ {
		t := rng.Pick(r, []string{"O", "O", "O", "B", "U"})
		n := r.N(4)
		var es []string
		for j := 0; j < n; j++ {
			es = append(es, world.EncStr(randEntry(r)))
		}
		parts = append(parts, t+":"+strings.Join(es, ","))
	}
	return strings.Join(parts, ";")
}

func genPure(r *rng.R, n int) []string {
	var ops []string
	add := func(format string, a ...interface{}) { ops = append(ops, fmt.Sprintf(format, a...)) }
	E := world.EncStr
	for i := 0; i < n; i++ {
		switch r.N(19) {
		case 18:
			// one round's sources on several chains: every NFT is looked up on its own chain
			k := 2 + r.N(2)
			var ids, owners []string
			// one round in three, the same collection address and token id on every chain (a collection deployed at one address on
			// several chains): still a different NFT, with its own holder, per chain
			same := r.P(1, 3)
			sc, st := string(ctypes.NormalizeHexAddress(randHexDigits(r))), string(ctypes.NormalizeHexAddress(randHexDigits(r)))
			for j := 0; j < k; j++ {
				c := rng.Pick(r, []string{"1", "137", "eth-2"})
				if same {
					c = []string{"1", "137", "eth-2"}[j%3]
					ids = append(ids, E(c+"/"+sc+"/"+st))
					owners = append(owners, E(randAddr(r)))
					continue
				}
				ids = append(ids, E(c+"/"+string(ctypes.NormalizeHexAddress(randHexDigits(r)))+"/"+string(ctypes.NormalizeHexAddress(randHexDigits(r)))))
				owners = append(owners, E(randAddr(r)))
			}
			add("fmtentries %s %s", strings.Join(ids, ","), strings.Join(owners, ","))
		case 17:
			add("utf8 %s", E(randBytes(r)))
		case 16:
			// the lookup the feeder makes for a recorded NFT: normalised contract, token id as the chain stores it (or as submitted)
			tok := randHexDigits(r)
			if r.P(1, 2) {
				tok = string(ctypes.NormalizeHexAddress(tok))
			}
			add("ownerof %s %s", E(string(ctypes.NormalizeHexAddress(randHexDigits(r)))), E(tok))
		case 0:
			add("normhex %s", E(randHex(r)))
		case 1:
			add("hexbytes %s", E(randHex(r)))
		case 2:
			add("parsenft %s", E(rng.Pick(r, chainish)+"/"+randHex(r)+"/"+randHex(r)))
		case 3:
			add("fmtnft %s %s %s", E(rng.Pick(r, chainish)), E(randHex(r)), E(randHex(r)))
		case 4:
			add("parseentry %s", E(randEntry(r)))
		case 5:
			add("validvd %s %s", randVD(r), rng.Pick(r, []string{"=1", "=1,=137", "-", "=137,=eth-2,=eip155:1"}))
		case 6:
			salt := rng.Pick(r, []string{"", "s", "AB12", "1/0x1/0x1:0x1", "x y"})
			vd := randVD(r)
			add("hash %s %s", E(salt), vd)
			add("fhash %s %s", E(salt), vd)
		case 7:
			add("trim %s", E(randHex(r)))
		case 8:
			c := rng.Pick(r, chainish)
			id := c + "/" + string(ctypes.NormalizeHexAddress(randHex(r))) + "/" + string(ctypes.NormalizeHexAddress(randHex(r)))
			if r.P(1, 6) {
				id = rng.Pick(r, chainish) + "/" + randHex(r) + "/" + randHex(r)
			}
			owner := randHex(r)
			if r.P(1, 2) {
				owner = randAddr(r) // what an external chain's ownerOf actually returns: a 20-byte address (zero nibbles at either end included)
			}
			add("parsenft %s", E(id))
			add("fmtentry %s %s", E(id), E(owner))
		case 9:
			ofp := rng.Pick(r, []string{"0", "1", "0.5", "0.333333333333333333", "0.000000000000000001", "0.999999999999999999", "0.1"})
			amt := rng.Pick(r, []string{"0", "1", "2", "3", "9999", "10000", "1000000010000", "18446744073709551615", "340282366920938463463374607431768211456"})
			d := rng.Pick(r, []string{"uusdc", "setl"})
			fees := amt + ":" + d
			if r.P(1, 4) {
				fees += "," + rng.Pick(r, []string{"7", "10001"}) + ":" + "zzz"
			}
			add("calcfees %s %s", ofp, fees)
		case 10:
			p := rng.Pick(r, []uint64{1, 2, 3, 5, 10, 100, 1 << 31, 1<<62 - 1})
			h := int64(r.U64() >> uint(1+r.N(62)))
			add("roundstart %d %d", h, p)
			add("voteperiod %d %d", h, p)
		case 11:
			// two ways of cutting one committed byte string into salt and entries
			c := rng.Pick(r, []string{"1", "137"})
			e1 := c + "/" + randHex(r) + "/" + randHex(r) + ":" + randHex(r)
			e2 := c + "/" + randHex(r) + "/" + randHex(r) + ":" + randHex(r)
			salt := rng.Pick(r, []string{"", "s", "AB12"})
			add("hash %s O:%s,%s", E(salt), E(e1), E(e2))
			add("validvd O:%s,%s =1,=137", E(e1), E(e2))
			switch r.N(6) {
			case 5:
				// the same entries with a blank appended to the last one: another string, hence another commitment
				add("hash %s O:%s,%s", E(salt), E(e1), E(e2+" "))
				add("validvd O:%s,%s =1,=137", E(e1), E(e2+" "))
			case 3:
				// the two entries glued into one string: not an entry, must not be an acceptable opening
				add("hash %s O:%s", E(salt), E(e1+e2))
				add("validvd O:%s =1,=137", E(e1+e2))
			case 4:
				// a reveal that carries more than was committed
				add("hash %s O:%s", E(salt), E(e1))
				add("validvd O:%s =1,=137", E(e1))
				add("hash %s O:%s;O:%s", E(salt), E(e1), E(e2))
				add("validvd O:%s;O:%s =1,=137", E(e1), E(e2))
			case 0:
				add("hash %s O:%s", E(salt+e1), E(e2))
				add("validvd O:%s =1,=137", E(e2))
			case 1:
				add("hash %s O:%s;O:%s", E(salt), E(e1), E(e2))
				add("validvd O:%s;O:%s =1,=137", E(e1), E(e2))
			case 2:
				add("hash %s O:%s,%s", E(salt), E(e2), E(e1))
				add("validvd O:%s,%s =1,=137", E(e2), E(e1))
			}
		case 12:
			add("utxrkey %d %d", r.U64()>>uint(r.N(64)), r.U64()>>uint(r.N(64)))
			add("reqkey %d %s", r.U64()>>uint(r.N(64)), E(rng.Pick(r, []string{"", "r", "r1", "\x00", "\xff\xfe", "abc"})))
		case 13:
			vp := rng.Pick(r, []uint64{0, 1, 2, 3, 5, 10})
			w := rng.Pick(r, []uint64{0, 1, 2, 3, 4, 6, 10, 15, 100000})
			m := rng.Pick(r, []uint64{0, 1, 2, 5, 60, 100000})
			add("oparams %d %s %s %d %d", vp, rng.Pick(r, []string{"0.5", "0.49", "1", "1.01", "0.67"}), rng.Pick(r, []string{"0", "0.01", "1", "1.5", "-0.1"}), w, m)
		case 14:
			k := r.N(3)
			var cs []string
			for j := 0; j < k; j++ {
				cs = append(cs, E(rng.Pick(r, chainish)))
			}
			if k == 0 {
				add("sparams -")
			} else {
				add("sparams %s", strings.Join(cs, ","))
			}
		case 15:
			// a cache episode
			capn := 1 + r.N(4)
			add("cnew %d", capn)
			m := 4 + r.N(12)
			for j := 0; j < m; j++ {
				if r.P(2, 3) {
					ts := 100 + r.N(12)
					add("cput %s %d %d", E(fmt.Sprintf("h%d", r.N(1000))), 1+r.N(1000), ts)
				} else {
					add("cget %d", 98+r.N(16))
				}
			}
		}
	}
	return ops
}

func pureCmd(args []string) {
	fs := flag.NewFlagSet("pure", flag.ExitOnError)
	seed := fs.Uint64("seed", 1, "seed")
	n := fs.Int("n", 2000, "number of op groups")
	dir := fs.String("dir", "", "output directory")
	opsFile := fs.String("ops", "", "replay this ops file instead of generating")
	props := fs.String("props", "", "monitors")
	fs.Parse(args)
	must(os.MkdirAll(*dir, 0o755))
	var ops []string
	base := filepath.Join(*dir, fmt.Sprintf("pure-%d", *seed))
	if *opsFile != "" {
		b, err := os.ReadFile(*opsFile)
		must(err)
		for _, l := range strings.Split(string(b), "\n") {
			if t := strings.TrimSpace(l); t != "" && !strings.HasPrefix(t, "#") {
				ops = append(ops, t)
			}
		}
		base = filepath.Join(*dir, "pure-replay")
	} else {
		ops = genPure(rng.New(*seed), *n)
	}
	st := &Stats{Engine: "pure", Profile: "pure", Seed: *seed, OpKinds: map[string]int{}, Outcomes: map[string]int{}, Branches: map[string]int{}}
	tr := &monitor.Trace{Engine: "pure"}
	var out []string
	distinct := map[string]bool{}
	for i := 0; i < len(ops); i++ {
		op := ops[i]
		res := pureExec(op)
		if *opsFile == "" && strings.HasPrefix(op, "fmtentry ") && strings.HasPrefix(res, "ok ") {
			// derived op: what the feeder formatted is handed to the chain's parser
			ops = append(ops[:i+1], append([]string{"parseentry " + strings.Fields(res)[1]}, ops[i+1:]...)...)
		}
		out = append(out, "> "+op, "< "+res)
		tr.Steps = append(tr.Steps, monitor.Step{Op: op, Res: res})
		k := strings.Fields(op)[0]
		st.Ops++
		st.OpKinds[k]++
		st.Outcomes[k+":"+strings.Fields(res)[0]]++
		distinct[op] = true
	}
	must(os.WriteFile(base+".ops", []byte(strings.Join(ops, "\n")+"\n"), 0o644))
	must(os.WriteFile(base+".impl", []byte(strings.Join(out, "\n")+"\n"), 0o644))
	st.Histories = 1
	st.Distinct = len(distinct)
	st.NonTrivial = len(distinct)
	vs := monitor.RunPure(tr, *props, st.Branches)
	for k := range vs {
		vs[k].History = base + ".ops"
	}
	st.Violations = vs
	st.Sample = ops
	if len(st.Sample) > 40 {
		st.Sample = st.Sample[:40]
	}
	b, _ := json.MarshalIndent(st, "", " ")
	must(os.WriteFile(base+".stats.json", b, 0o644))
	fmt.Printf("ops=%d distinct=%d violations=%d\n", st.Ops, st.Distinct, len(vs))
}
