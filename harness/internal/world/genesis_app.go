package world

import (
	"bytes"
	"encoding/json"
	"fmt"
	"time"

	dbm "github.com/cometbft/cometbft-db"
	abci "github.com/cometbft/cometbft/abci/types"
	"github.com/cometbft/cometbft/libs/log"
	"github.com/cosmos/cosmos-sdk/baseapp"
	simtestutil "github.com/cosmos/cosmos-sdk/testutil/sims"
	sdk "github.com/cosmos/cosmos-sdk/types"
	"github.com/evmos/evmos/v19/encoding"

	"github.com/settlus/chain/app"
	"github.com/settlus/chain/testutil"
	"github.com/settlus/chain/utils"
	"github.com/settlus/chain/x/oracle"
	otypes "github.com/settlus/chain/x/oracle/types"
	"github.com/settlus/chain/x/settlement"
	stypes "github.com/settlus/chain/x/settlement/types"
)

// genesisApp is the round trip at the level of the whole application (app/export.go): ExportAppStateAndValidators of the committed
// state, InitChain of a fresh application with that document, and a second export of the two modules from the new chain. The result
// says whether (a) the application-level document carries what the two modules export and (b) the new chain exports the same again.
func (w *World) genesisApp() (res Result) {
	defer func() {
		if p := recover(); p != nil {
			res = Result{Line: "panic", Detail: fmt.Sprint(p), Panic: true}
		}
	}()
	cdc := w.A.AppCodec()
	ctx := w.at()
	sj := cdc.MustMarshalJSON(settlement.ExportGenesis(ctx, w.SK))
	oj := cdc.MustMarshalJSON(oracle.ExportGenesis(ctx, w.OK))
	exp, err := w.A.ExportAppStateAndValidators(false, nil, nil)
	if err != nil {
		return Result{Line: "err export", Detail: err.Error()}
	}
	var sections map[string]json.RawMessage
	if err := json.Unmarshal(exp.AppState, &sections); err != nil {
		return Result{Line: "err export", Detail: err.Error()}
	}
	compact := func(raw json.RawMessage) string {
		var b bytes.Buffer
		if raw == nil || json.Compact(&b, raw) != nil {
			return "<missing>"
		}
		return b.String()
	}
	same := "same"
	detail := ""
	if compact(sections[stypes.ModuleName]) != string(sj) {
		same = "differs"
		detail += fmt.Sprintf("application export of settlement: %s\nmodule export: %s\n", compact(sections[stypes.ModuleName]), sj)
	}
	if compact(sections[otypes.ModuleName]) != string(oj) {
		same = "differs"
		detail += fmt.Sprintf("application export of oracle: %s\nmodule export: %s\n", compact(sections[otypes.ModuleName]), oj)
	}

	b := app.NewSettlus(log.NewNopLogger(), dbm.NewMemDB(), nil, true, map[int64]bool{}, app.DefaultNodeHome, 5,
		encoding.MakeConfig(app.ModuleBasics), simtestutil.NewAppOptionsWithFlagHome(app.DefaultNodeHome), baseapp.SetChainID(utils.MainnetChainID))
	b.InitChain(abci.RequestInitChain{ChainId: utils.MainnetChainID, Validators: []abci.ValidatorUpdate{}, ConsensusParams: exp.ConsensusParams,
		AppStateBytes: exp.AppState, InitialHeight: exp.Height, Time: time.Unix(1700000000, 0).UTC()})
	header := testutil.NewHeader(exp.Height, time.Unix(1700000000, 0).UTC(), utils.MainnetChainID, sdk.ConsAddress([]byte("aaaaaaaaaaaaaaaaaaaa")), nil, nil)
	bctx := b.BaseApp.NewContext(false, header)
	sj2 := cdc.MustMarshalJSON(settlement.ExportGenesis(bctx, b.SettlementKeeper))
	oj2 := cdc.MustMarshalJSON(oracle.ExportGenesis(bctx, *b.OracleKeeper))
	if string(sj) != string(sj2) {
		same = "differs"
		detail += fmt.Sprintf("settlement export before: %s\nafter: %s\n", sj, sj2)
	}
	if string(oj) != string(oj2) {
		same = "differs"
		detail += fmt.Sprintf("oracle export before: %s\nafter: %s\n", oj, oj2)
	}
	w2 := &World{A: b, Ctx: bctx, Height: w.Height, SK: b.SettlementKeeper, OK: *b.OracleKeeper, Vals: w.Vals, Keyed: w.Keyed, names: w.names, extraDenoms: map[string]bool{}, rcptSeen: map[string]bool{}}
	dump := w2.dumpModules(bctx)
	// the first block of the restarted chain has the height InitChain ran at. Admission there is admission as in any other block:
	// a validator-creating message from an ordinary account, at the top level and inside an authz execution, is refused.
	b.BeginBlock(abci.RequestBeginBlock{Header: header})
	w2.Ctx = b.BaseApp.NewContext(false, header)
	for _, probe := range []string{"createval(a1)", "exec(a1~[createval(a1)])"} {
		r := w2.execTx([]string{"tx", "signers=auto", "payer=-", "fee=10000000000000000:asetl", "gas=500000", "msgs=" + probe})
		if r.Line != "err" {
			same = "restricted-message-admitted-after-restart"
			detail += fmt.Sprintf("first block after the restart (height %d): %s -> %s %s\n", exp.Height, probe, r.Line, r.Detail)
		}
	}
	// the other export mode of the application: for a restart at height zero (app/export.go prepForZeroHeightGenesis). It rewrites
	// staking, distribution and slashing bookkeeping on a branch of the state that is thrown away; the two modules' sections are the
	// same as before, and a fresh application starts from the document.
	if z := w.zeroHeightExport(string(sj), string(oj)); z != "" {
		same = "zero-height-export-fails"
		detail += z
	}
	return Result{Line: "ok " + same, Detail: detail, Dump: dump}
}

func (w *World) zeroHeightExport(sj, oj string) (problem string) {
	defer func() {
		if p := recover(); p != nil {
			problem = fmt.Sprintf("zero-height export or the start from it panics: %v\n", p)
		}
	}()
	exp, err := w.A.ExportAppStateAndValidators(true, nil, nil)
	if err != nil {
		return fmt.Sprintf("zero-height export: %v\n", err)
	}
	var sections map[string]json.RawMessage
	if err := json.Unmarshal(exp.AppState, &sections); err != nil {
		return fmt.Sprintf("zero-height export: %v\n", err)
	}
	for _, m := range [][2]string{{stypes.ModuleName, sj}, {otypes.ModuleName, oj}} {
		var b bytes.Buffer
		if sections[m[0]] == nil || json.Compact(&b, sections[m[0]]) != nil || b.String() != m[1] {
			problem += fmt.Sprintf("zero-height export of %s: %s\nmodule export: %s\n", m[0], b.String(), m[1])
		}
	}
	b := app.NewSettlus(log.NewNopLogger(), dbm.NewMemDB(), nil, true, map[int64]bool{}, app.DefaultNodeHome, 5,
		encoding.MakeConfig(app.ModuleBasics), simtestutil.NewAppOptionsWithFlagHome(app.DefaultNodeHome), baseapp.SetChainID(utils.MainnetChainID))
	b.InitChain(abci.RequestInitChain{ChainId: utils.MainnetChainID, Validators: []abci.ValidatorUpdate{}, ConsensusParams: exp.ConsensusParams,
		AppStateBytes: exp.AppState, InitialHeight: exp.Height, Time: time.Unix(1700000000, 0).UTC()})
	cdc := w.A.AppCodec()
	header := testutil.NewHeader(1, time.Unix(1700000000, 0).UTC(), utils.MainnetChainID, sdk.ConsAddress([]byte("aaaaaaaaaaaaaaaaaaaa")), nil, nil)
	bctx := b.BaseApp.NewContext(false, header)
	if sj2 := string(cdc.MustMarshalJSON(settlement.ExportGenesis(bctx, b.SettlementKeeper))); sj2 != sj {
		problem += fmt.Sprintf("settlement state after a start from the zero-height export: %s\nbefore: %s\n", sj2, sj)
	}
	return problem
}
