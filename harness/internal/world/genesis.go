package world

import (
	"fmt"
	"time"

	sdk "github.com/cosmos/cosmos-sdk/types"

	"github.com/settlus/chain/testutil"
	"github.com/settlus/chain/utils"
	"github.com/settlus/chain/x/oracle"
	otypes "github.com/settlus/chain/x/oracle/types"
	"github.com/settlus/chain/x/settlement"
	stypes "github.com/settlus/chain/x/settlement/types"
)

// genesisRoundTrip exports both modules, pushes the export through JSON, initialises the two modules of a
// fresh application from it, exports again and compares. The result line carries whether the second export
// equals the first; the dump is the imported module state rendered with this world's names.
func (w *World) genesisRoundTrip() (res Result) {
	defer func() {
		if p := recover(); p != nil {
			res = Result{Line: "panic", Detail: fmt.Sprint(p), Panic: true}
		}
	}()
	ctx := w.at()
	cdc := w.A.AppCodec()
	sg := settlement.ExportGenesis(ctx, w.SK)
	og := oracle.ExportGenesis(ctx, w.OK)
	if err := sg.Validate(); err != nil {
		return Result{Line: "err export-invalid", Detail: err.Error()}
	}
	sj := cdc.MustMarshalJSON(sg)
	oj := cdc.MustMarshalJSON(og)

	b := SetupKeyed()
	header := testutil.NewHeader(w.Height, time.Unix(1700000000, 0).UTC(), utils.MainnetChainID, sdk.ConsAddress([]byte("aaaaaaaaaaaaaaaaaaaa")), nil, nil)
	bctx := b.BaseApp.NewContext(false, header)
	// wipe what the fresh application's own genesis put into the two module stores
	for _, key := range []string{stypes.StoreKey, otypes.StoreKey} {
		st := bctx.KVStore(b.GetKey(key))
		it := st.Iterator(nil, nil)
		var keys [][]byte
		for ; it.Valid(); it.Next() {
			keys = append(keys, append([]byte{}, it.Key()...))
		}
		it.Close()
		for _, k := range keys {
			st.Delete(k)
		}
	}
	var sg2 stypes.GenesisState
	var og2 otypes.GenesisState
	cdc.MustUnmarshalJSON(sj, &sg2)
	cdc.MustUnmarshalJSON(oj, &og2)
	settlement.InitGenesis(bctx, b.SettlementKeeper, sg2)
	oracle.InitGenesis(bctx, *b.OracleKeeper, og2)
	sj2 := cdc.MustMarshalJSON(settlement.ExportGenesis(bctx, b.SettlementKeeper))
	oj2 := cdc.MustMarshalJSON(oracle.ExportGenesis(bctx, *b.OracleKeeper))
	same := "same"
	detail := ""
	if string(sj) != string(sj2) {
		same = "differs"
		detail += fmt.Sprintf("settlement export before: %s\nafter: %s\n", sj, sj2)
	}
	if string(oj) != string(oj2) {
		same = "differs"
		detail += fmt.Sprintf("oracle export before: %s\nafter: %s\n", oj, oj2)
	}
	w2 := &World{A: b, Ctx: bctx, Height: w.Height, SK: b.SettlementKeeper, OK: *b.OracleKeeper, Vals: w.Vals, names: w.names, extraDenoms: map[string]bool{}, rcptSeen: map[string]bool{}}
	return Result{Line: "ok " + same, Detail: detail, Dump: w2.dumpModules(bctx)}
}

// reimport restarts the two modules from their own export, in place: export, JSON, wipe the two module stores, InitGenesis of both from
// the document - what a chain restarted from an export does, with every other module's state carried over. The history then continues
// on the imported state.
func (w *World) reimport() (res Result) {
	defer func() {
		if p := recover(); p != nil {
			res = Result{Line: "panic", Detail: fmt.Sprint(p), Panic: true}
		}
	}()
	ctx := w.at()
	cctx, write := ctx.CacheContext()
	cdc := w.A.AppCodec()
	sg := settlement.ExportGenesis(cctx, w.SK)
	og := oracle.ExportGenesis(cctx, w.OK)
	if err := sg.Validate(); err != nil {
		return Result{Line: "err export-invalid", Detail: err.Error()}
	}
	sj := cdc.MustMarshalJSON(sg)
	oj := cdc.MustMarshalJSON(og)
	for _, key := range []string{stypes.StoreKey, otypes.StoreKey} {
		st := cctx.KVStore(w.A.GetKey(key))
		it := st.Iterator(nil, nil)
		var keys [][]byte
		for ; it.Valid(); it.Next() {
			keys = append(keys, append([]byte{}, it.Key()...))
		}
		it.Close()
		for _, k := range keys {
			st.Delete(k)
		}
	}
	var sg2 stypes.GenesisState
	var og2 otypes.GenesisState
	cdc.MustUnmarshalJSON(sj, &sg2)
	cdc.MustUnmarshalJSON(oj, &og2)
	settlement.InitGenesis(cctx, w.SK, sg2)
	oracle.InitGenesis(cctx, w.OK, og2)
	write()
	return Result{Line: "ok"}
}
