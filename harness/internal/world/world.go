// Package world runs operation lines against the real settlus application in process
// (keeper level: real message servers, real end-blockers, real bank/staking/distribution keepers)
// and renders canonical result lines and state dumps.
package world

import (
	"context"
	"encoding/hex"
	"fmt"
	"github.com/cosmos/cosmos-sdk/x/params"
	paramproposal "github.com/cosmos/cosmos-sdk/x/params/types/proposal"
	"math/big"
	"os"
	"runtime/debug"
	"sort"
	"strconv"
	"strings"
	"time"

	"cosmossdk.io/math"
	abci "github.com/cometbft/cometbft/abci/types"
	sdk "github.com/cosmos/cosmos-sdk/types"
	authtypes "github.com/cosmos/cosmos-sdk/x/auth/types"
	distrtypes "github.com/cosmos/cosmos-sdk/x/distribution/types"
	stakingkeeper "github.com/cosmos/cosmos-sdk/x/staking/keeper"
	stakingtypes "github.com/cosmos/cosmos-sdk/x/staking/types"
	"github.com/ethereum/go-ethereum/accounts/abi"
	"github.com/ethereum/go-ethereum/common"
	"github.com/ethereum/go-ethereum/crypto"
	erc20types "github.com/evmos/evmos/v19/x/erc20/types"
	evmtypes "github.com/evmos/evmos/v19/x/evm/types"

	"github.com/settlus/chain/app"
	"github.com/settlus/chain/testutil"
	ctypes "github.com/settlus/chain/types"
	"github.com/settlus/chain/utils"
	"github.com/settlus/chain/x/oracle"
	okeeper "github.com/settlus/chain/x/oracle/keeper"
	otypes "github.com/settlus/chain/x/oracle/types"
	"github.com/settlus/chain/x/settlement"
	skeeper "github.com/settlus/chain/x/settlement/keeper"
	stypes "github.com/settlus/chain/x/settlement/types"
)

const NAcc = 10
const NVal = 5
const ThisChain = utils.MainnetChainID

// TrackedDenoms are the denominations whose balances appear in dumps.
var TrackedDenoms = []string{"uusdc", "asetl", "uerc"}

type World struct {
	A      *app.SettlusApp
	Ctx    sdk.Context
	SK     *skeeper.SettlementKeeper
	OK     okeeper.Keeper
	SMS    stypes.MsgServer
	OMS    otypes.MsgServer
	Height int64
	Vals   []sdk.ValAddress // v0..v4 in a fixed (sorted by address) order
	Bank   *faultBank
	Evm    *stubEvm
	Erc20  *stubErc20
	// names of addresses for canonical output
	names map[string]string
	// extra denoms seen (mint receipts)
	extraDenoms   map[string]bool
	LastEvents    []string
	Keyed         bool
	Real          bool // real block cycle and signed transactions (ante engine)
	rcptSeen      map[string]bool
	unbondingNext bool
	signerData    map[string][2]uint64           // account -> (sequence, number) as its holder knows them (ante engine)
	removed       map[int]stakingtypes.Validator // validators whose staking record was removed (setval ... x)
	txCtx         *sdk.Context                   // set while the messages of an `atomic` transaction run
	named         []string                       // "<tenant> <request id token>", the latest ones the history named
	// PermSeed != 0 perturbs nothing in the implementation (Go randomises map order itself); kept for symmetry
}

// ---------- fault-injecting backends ----------

type faults struct {
	silent bool // the failing call is a token conversion that answers "nothing done, no error" (a token contract that no longer exists)
	armed  bool
	k      int // fail the k-th backend call (0-based) counted since arming
	n      int
	hits   int
}

func (f *faults) hit() bool {
	if !f.armed {
		return false
	}
	i := f.n
	f.n++
	if i == f.k {
		f.hits++
		return true
	}
	return false
}

type faultBank struct {
	inner stypes.BankKeeper
	f     *faults
}

func (b *faultBank) SpendableCoins(ctx sdk.Context, addr sdk.AccAddress) sdk.Coins {
	return b.inner.SpendableCoins(ctx, addr)
}
func (b *faultBank) SendCoins(ctx sdk.Context, from, to sdk.AccAddress, amt sdk.Coins) error {
	if b.f.hit() {
		return fmt.Errorf("injected bank failure")
	}
	return b.inner.SendCoins(ctx, from, to, amt)
}

func (b *faultBank) BlockedAddr(addr sdk.AccAddress) bool { return b.inner.BlockedAddr(addr) }

type stubErc20 struct {
	w *World
	f *faults
}

func (e *stubErc20) IsDenomRegistered(ctx sdk.Context, denom string) bool { return denom == "uerc" }
func (e *stubErc20) GetCoinAddress(ctx sdk.Context, denom string) (common.Address, error) {
	return common.HexToAddress("0x00000000000000000000000000000000000e2c20"), nil
}
func (e *stubErc20) ConvertERC20(goCtx context.Context, msg *erc20types.MsgConvertERC20) (*erc20types.MsgConvertERC20Response, error) {
	ctx := sdk.UnwrapSDKContext(goCtx)
	if e.f.hit() {
		if e.f.silent {
			// what the erc20 module answers when the token's contract has destroyed itself: it drops the pair, converts nothing,
			// and reports no error
			return nil, nil
		}
		return nil, fmt.Errorf("injected erc20 failure")
	}
	from := sdk.AccAddress(common.HexToAddress(msg.Sender).Bytes())
	to, err := sdk.AccAddressFromBech32(msg.Receiver)
	if err != nil {
		return nil, err
	}
	// the stub realises the conversion as a plain bank transfer of the registered denom
	if err := e.w.A.BankKeeper.SendCoins(ctx, from, to, sdk.NewCoins(sdk.NewCoin("uerc", msg.Amount))); err != nil {
		return nil, err
	}
	return &erc20types.MsgConvertERC20Response{}, nil
}

type nftKey struct {
	contract string // lower 40 hex
	token    string // big int decimal
}

type stubEvm struct {
	w      *World
	f      *faults
	owners map[nftKey]common.Address
	hasOwn map[nftKey]bool
}

func (e *stubEvm) CallEVM(ctx sdk.Context, _ abi.ABI, from, contract common.Address, commit bool, method string, args ...interface{}) (*evmtypes.MsgEthereumTxResponse, error) {
	switch method {
	case "ownerOf":
		tok := args[0].(*big.Int)
		k := nftKey{strings.ToLower(contract.Hex()[2:]), tok.String()}
		if !e.hasOwn[k] {
			return nil, fmt.Errorf("execution reverted: ERC721: invalid token ID")
		}
		o := e.owners[k]
		return &evmtypes.MsgEthereumTxResponse{Ret: common.LeftPadBytes(o.Bytes(), 32)}, nil
	case "mint":
		if e.f.hit() {
			return nil, fmt.Errorf("injected evm failure")
		}
		to := args[0].(common.Address)
		amt := args[1].(*big.Int)
		denom := "sbt/" + strings.ToLower(contract.Hex()[2:])
		// a contract the chain deployed itself has an address the model does not compute: name it by its tenant
		for _, t := range e.w.SK.GetAllTenants(ctx) {
			if crypto.CreateAddress(common.BytesToAddress(stypes.GetTenantTreasuryAccount(t.Id)), 0) == contract {
				denom = fmt.Sprintf("sbt/auto.%d", t.Id)
			}
		}
		// a token contract reverts when its total supply would pass 2^256 (checked arithmetic); the bank that stands in for it here
		// would panic instead
		if sup := e.w.A.BankKeeper.GetSupply(ctx, denom).Amount.BigInt(); new(big.Int).Add(sup, amt).BitLen() > 256 {
			return nil, fmt.Errorf("execution reverted: arithmetic overflow")
		}
		coins := sdk.NewCoins(sdk.NewCoin(denom, math.NewIntFromBigInt(amt)))
		if err := e.w.A.BankKeeper.MintCoins(ctx, erc20types.ModuleName, coins); err != nil {
			return nil, err
		}
		if err := e.w.A.BankKeeper.SendCoinsFromModuleToAccount(ctx, erc20types.ModuleName, sdk.AccAddress(to.Bytes()), coins); err != nil {
			return nil, err
		}
		e.w.extraDenoms[denom] = true
		return &evmtypes.MsgEthereumTxResponse{}, nil
	}
	return nil, fmt.Errorf("stub evm: unknown method %s", method)
}

func (e *stubEvm) CallEVMWithData(ctx sdk.Context, from common.Address, contract *common.Address, data []byte, commit bool) (*evmtypes.MsgEthereumTxResponse, error) {
	return &evmtypes.MsgEthereumTxResponse{}, nil
}

// ---------- construction ----------

func patAcc(i int) sdk.AccAddress {
	b := make([]byte, 20)
	for j := range b {
		b[j] = byte(i + 1)
	}
	return sdk.AccAddress(b)
}

// Acc is the address of account a<i>: a byte pattern at keeper level, a real key's address in keyed mode.
func (w *World) Acc(i int) sdk.AccAddress {
	if w.Keyed {
		return KeyAddr(i)
	}
	return patAcc(i)
}

func upper(s string) string { return strings.ToUpper(s) }

func New() *World { return newWorld(false) }

// NewKeyed builds a world whose accounts and validator operators have keys held by the harness.
func NewKeyed() *World { return newWorld(true) }

func newWorld(keyed bool) *World {
	// the keyed setup is used for every engine: its validator set is deterministic
	a := SetupKeyed()
	header := testutil.NewHeader(1, time.Unix(1700000000, 0).UTC(), utils.MainnetChainID, sdk.ConsAddress([]byte("aaaaaaaaaaaaaaaaaaaa")), nil, nil)
	ctx := a.BaseApp.NewContext(false, header)
	w := &World{A: a, Ctx: ctx, Height: 1, Keyed: keyed, names: map[string]string{}, extraDenoms: map[string]bool{}, rcptSeen: map[string]bool{}}
	f := &faults{}
	w.Bank = &faultBank{inner: a.BankKeeper, f: f}
	w.Evm = &stubEvm{w: w, f: f, owners: map[nftKey]common.Address{}, hasOwn: map[nftKey]bool{}}
	w.Erc20 = &stubErc20{w: w, f: f}
	nk := skeeper.NewKeeper(a.AppCodec(), a.GetKey(stypes.StoreKey), a.GetSubspace(stypes.ModuleName), a.AccountKeeper, w.Bank, w.Erc20, w.Evm)
	// replace the keeper in place so that the oracle keeper, the ante handler and the message router all see the wrappers
	*a.SettlementKeeper = *nk
	w.SK = a.SettlementKeeper
	w.OK = *a.OracleKeeper
	w.SMS = skeeper.NewMsgServerImpl(w.SK)
	w.OMS = okeeper.NewMsgServerImpl(w.OK)
	// on a chain, the oracle's and the fee collector's module accounts exist by the time a tenant does (creating one pays a fee, part
	// of which goes there); the keeper-level engine creates tenants without a fee, so it creates the accounts here
	a.AccountKeeper.GetModuleAccount(ctx, otypes.ModuleName)
	a.AccountKeeper.GetModuleAccount(ctx, authtypes.FeeCollectorName)
	vals := a.StakingKeeper.GetAllValidators(ctx)
	for _, v := range vals {
		w.Vals = append(w.Vals, v.GetOperator())
	}
	w.Vals = nil
	for i := 0; i < NVal; i++ {
		w.Vals = append(w.Vals, sdk.ValAddress(KeyAddr(NAcc+i)))
	}
	_ = vals
	for i := 0; i < NAcc; i++ {
		w.names[strings.ToLower(hex.EncodeToString(patAcc(i)))] = fmt.Sprintf("a%d", i)
		if keyed {
			canonAddr[strings.ToLower(hex.EncodeToString(KeyAddr(i)))] = strings.ToLower(hex.EncodeToString(patAcc(i)))
		}
	}
	for i, v := range w.Vals {
		w.names[strings.ToLower(hex.EncodeToString(v))] = fmt.Sprintf("o%d", i)
	}
	return w
}

func (w *World) Faults() *faults { return w.Bank.f }

// ---------- token decoding ----------

// Str decodes a protocol string token: "=raw" or "x<hex>".
func Str(tok string) string {
	if strings.HasPrefix(tok, "=") {
		return tok[1:]
	}
	if strings.HasPrefix(tok, "x") {
		b, err := hex.DecodeString(tok[1:])
		if err != nil {
			panic("bad hex token " + tok)
		}
		return string(b)
	}
	panic("bad string token " + tok)
}

// EncStr encodes a Go string as protocol token.
func EncStr(s string) string {
	safe := true
	for _, c := range []byte(s) {
		if !(c >= 'a' && c <= 'z' || c >= 'A' && c <= 'Z' || c >= '0' && c <= '9' || c == '.' || c == '_' || c == '-' || c == '/' || c == ':') {
			safe = false
			break
		}
	}
	if safe {
		return "=" + s
	}
	return "x" + hex.EncodeToString([]byte(s))
}

// AccStr maps an account token (a3, A3, o1, O1, bad) to the bech32 string put into messages.
func (w *World) AccStr(tok string) string {
	if tok == "bad" {
		return "notbech32"
	}
	if tok == "empty" {
		return ""
	}
	switch tok {
	case "mdistr":
		return authtypes.NewModuleAddress(distrtypes.ModuleName).String()
	case "mpool":
		return authtypes.NewModuleAddress(otypes.ModuleName).String()
	case "mcollector":
		return authtypes.NewModuleAddress(authtypes.FeeCollectorName).String()
	}
	i, _ := strconv.Atoi(tok[1:])
	switch tok[0] {
	case 'a':
		return w.Acc(i).String()
	case 'A':
		return upper(w.Acc(i).String())
	case 'o':
		return sdk.AccAddress(w.Vals[i]).String()
	case 'O':
		return upper(sdk.AccAddress(w.Vals[i]).String())
	case 'p':
		// a well-formed address with white space around it: not an address
		return " " + w.Acc(i).String() + "\n"
	}
	panic("bad account token " + tok)
}

func (w *World) AccAddr(tok string) sdk.AccAddress {
	a, err := sdk.AccAddressFromBech32(w.AccStr(tok))
	if err != nil {
		panic(err)
	}
	return a
}

// ValStr maps v2 / V2 / bad to a valoper string.
func (w *World) ValStr(tok string) string {
	if tok == "bad" {
		return "notvaloper"
	}
	i, _ := strconv.Atoi(tok[1:])
	if tok[0] == 'V' {
		return upper(w.Vals[i].String())
	}
	return w.Vals[i].String()
}

func (w *World) valName(s string) string {
	for i, v := range w.Vals {
		if s == v.String() {
			return fmt.Sprintf("v%d", i)
		}
		if s == upper(v.String()) {
			return fmt.Sprintf("V%d", i)
		}
	}
	return "?" + s
}

func (w *World) accName(bech string) string {
	for i := 0; i < NAcc; i++ {
		if bech == w.Acc(i).String() {
			return fmt.Sprintf("a%d", i)
		}
		if bech == upper(w.Acc(i).String()) {
			return fmt.Sprintf("A%d", i)
		}
	}
	for i, v := range w.Vals {
		if bech == sdk.AccAddress(v).String() {
			return fmt.Sprintf("o%d", i)
		}
		if bech == upper(sdk.AccAddress(v).String()) {
			return fmt.Sprintf("O%d", i)
		}
	}
	return "?" + bech
}

// hexName renders a 20-byte address given as hex string (any case, with or without 0x) canonically:
// lower-case 0x + 40 hex digits.
// isModuleHex: the address of one of the module accounts the dumps already show under their own names (pool, distr, collector)
func isModuleHex(h string) bool {
	for _, m := range []string{distrtypes.ModuleName, otypes.ModuleName, authtypes.FeeCollectorName} {
		if strings.EqualFold(h, "0x"+hex.EncodeToString(authtypes.NewModuleAddress(m))) {
			return true
		}
	}
	return false
}

func hexName(h string) string {
	h = strings.TrimPrefix(strings.ToLower(h), "0x")
	for len(h) < 40 {
		h = "0" + h
	}
	if p, ok := canonAddr[h]; ok {
		return "0x" + p
	}
	return "0x" + h
}

// canonAddr maps the real address of a keyed account to the byte-pattern address the protocol uses for it.
var canonAddr = map[string]string{}

func amountTok(tok string) math.Int {
	if tok == "nil" {
		return math.Int{}
	}
	v, ok := math.NewIntFromString(tok)
	if !ok {
		// math.NewIntFromString rejects > 256 bit; build from big directly
		b, ok2 := new(big.Int).SetString(tok, 10)
		if !ok2 {
			panic("bad amount " + tok)
		}
		return math.NewIntFromBigInt(b)
	}
	return v
}

func (w *World) at() sdk.Context {
	if w.Real {
		return w.A.BaseApp.NewContext(false, w.Ctx.BlockHeader()).WithEventManager(sdk.NewEventManager())
	}
	hd := w.Ctx.BlockHeader()
	hd.Height = w.Height
	return w.Ctx.WithBlockHeader(hd).WithEventManager(sdk.NewEventManager())
}

// ---------- executing ----------

type Result struct {
	Line   string // canonical, compared with the model
	Detail string // not compared (error text etc.)
	Dump   []string
	Panic  bool
	Hash   string // app hash after a real block (twin comparison only)
	Events []sdk.Event
}

func errLine(err error) (string, string) { return "err", err.Error() }

// msgTx executes f in a cache context and writes it only on success, as baseapp does for a message.
func (w *World) msgTx(f func(ctx sdk.Context) (string, error)) (res Result) {
	defer func() {
		if p := recover(); p != nil {
			res = Result{Line: "panic", Detail: fmt.Sprint(p), Panic: true}
		}
	}()
	if w.txCtx != nil {
		// inside an `atomic` transaction: the message runs on the transaction's branch, which is written or discarded as a whole
		line, err := f(*w.txCtx)
		if err != nil {
			l, d := errLine(err)
			return Result{Line: l, Detail: d}
		}
		return Result{Line: line}
	}
	ctx := w.at()
	cctx, write := ctx.CacheContext()
	line, err := f(cctx)
	if err != nil {
		l, d := errLine(err)
		return Result{Line: l, Detail: d}
	}
	write()
	return Result{Line: line, Events: cctx.EventManager().Events()}
}

var atomicKinds = map[string]bool{"createtenant": true, "deposit": true, "record": true, "cancel": true, "addadmin": true, "rmadmin": true,
	"setperiod": true, "prevote": true, "vote": true, "consent": true}

func (w *World) atomic(msgs []string) (res Result) {
	ctx := w.at()
	cctx, write := ctx.CacheContext()
	for _, m := range msgs {
		w.noteNamed(strings.Fields(m)) // every request id the transaction names, whether or not it gets that far
	}
	w.txCtx = &cctx
	defer func() { w.txCtx = nil }()
	for i, m := range msgs {
		f := strings.Fields(m)
		if len(f) == 0 || !atomicKinds[f[0]] {
			return Result{Line: "bad-op"}
		}
		r := w.exec(m)
		if r.Panic {
			return r
		}
		if !strings.HasPrefix(r.Line, "ok") {
			return Result{Line: fmt.Sprintf("err %d", i), Detail: r.Detail}
		}
	}
	write()
	return Result{Line: fmt.Sprintf("ok %d", len(msgs)), Events: cctx.EventManager().Events()}
}

func u64(tok string) uint64 {
	v, err := strconv.ParseUint(tok, 10, 64)
	if err != nil {
		panic("bad u64 " + tok)
	}
	return v
}

func decTok(tok string) sdk.Dec {
	d, err := sdk.NewDecFromStr(tok)
	if err != nil {
		panic("bad dec " + tok)
	}
	return d
}

// Exec executes one protocol line and attaches the state dump after it.
func (w *World) Exec(line string) Result {
	r := w.exec(line)
	if r.Dump == nil {
		if w.Real {
			r.Dump = w.dumpAnte()
		} else {
			r.Dump = w.Dump()
		}
	}
	return r
}

func (w *World) exec(line string) Result {
	f := strings.Fields(line)
	if len(f) == 0 {
		return Result{Line: "bad-op"}
	}
	if w.txCtx == nil {
		w.noteNamed(f)
	}
	switch f[0] {
	case "createtenant": // sender denom period [contract]
		return w.msgTx(func(ctx sdk.Context) (string, error) {
			var r *stypes.MsgCreateTenantResponse
			var err error
			if len(f) >= 5 {
				c := Str(f[4])
				r, err = w.SMS.CreateTenantWithMintableContract(ctx, &stypes.MsgCreateTenantWithMintableContract{Sender: w.AccStr(f[1]), Denom: Str(f[2]), PayoutPeriod: u64(f[3]), ContractAddress: c})
			} else {
				r, err = w.SMS.CreateTenant(ctx, &stypes.MsgCreateTenant{Sender: w.AccStr(f[1]), Denom: Str(f[2]), PayoutPeriod: u64(f[3])})
			}
			if err != nil {
				return "", err
			}
			return fmt.Sprintf("ok tenant=%d", r.TenantId), nil
		})
	case "deposit": // sender tenant amount denom
		return w.msgTx(func(ctx sdk.Context) (string, error) {
			_, err := w.SMS.DepositToTreasury(ctx, &stypes.MsgDepositToTreasury{Sender: w.AccStr(f[1]), TenantId: u64(f[2]), Amount: sdk.Coin{Denom: Str(f[4]), Amount: amountTok(f[3])}})
			if err != nil {
				return "", err
			}
			return "ok", nil
		})
	case "record": // sender tenant req amount denom chain contract token
		return w.msgTx(func(ctx sdk.Context) (string, error) {
			r, err := w.SMS.Record(ctx, &stypes.MsgRecord{Sender: w.AccStr(f[1]), TenantId: u64(f[2]), RequestId: Str(f[3]),
				Amount: sdk.Coin{Denom: Str(f[5]), Amount: amountTok(f[4])}, ChainId: Str(f[6]), ContractAddress: Str(f[7]), TokenIdHex: Str(f[8])})
			if err != nil {
				return "", err
			}
			// event-level observation: the NFT and recipients as emitted
			ev := ""
			for _, e := range ctx.EventManager().Events() {
				if strings.HasSuffix(e.Type, "EventRecord") {
					pe, perr := sdk.ParseTypedEvent(abciEvent(e))
					if perr == nil {
						er := pe.(*stypes.EventRecord)
						ev = fmt.Sprintf(" nft=%s rcpt=%s", nftStr(er.Nft), rcptStr(er.Recipients))
					}
				}
			}
			return fmt.Sprintf("ok id=%d%s", r.UtxrId, ev), nil
		})
	case "cancel": // sender tenant req
		return w.msgTx(func(ctx sdk.Context) (string, error) {
			_, err := w.SMS.Cancel(ctx, &stypes.MsgCancel{Sender: w.AccStr(f[1]), TenantId: u64(f[2]), RequestId: Str(f[3])})
			if err != nil {
				return "", err
			}
			id := "?"
			for _, e := range ctx.EventManager().Events() {
				if strings.HasSuffix(e.Type, "EventCancel") {
					pe, perr := sdk.ParseTypedEvent(abciEvent(e))
					if perr == nil {
						id = fmt.Sprint(pe.(*stypes.EventCancel).UtxrId)
					}
				}
			}
			return "ok id=" + id, nil
		})
	case "addadmin":
		return w.msgTx(func(ctx sdk.Context) (string, error) {
			_, err := w.SMS.AddTenantAdmin(ctx, &stypes.MsgAddTenantAdmin{Sender: w.AccStr(f[1]), TenantId: u64(f[2]), NewAdmin: w.AccStr(f[3])})
			return "ok", err
		})
	case "rmadmin":
		return w.msgTx(func(ctx sdk.Context) (string, error) {
			_, err := w.SMS.RemoveTenantAdmin(ctx, &stypes.MsgRemoveTenantAdmin{Sender: w.AccStr(f[1]), TenantId: u64(f[2]), AdminToRemove: w.AccStr(f[3])})
			return "ok", err
		})
	case "setperiod":
		return w.msgTx(func(ctx sdk.Context) (string, error) {
			_, err := w.SMS.UpdateTenantPayoutPeriod(ctx, &stypes.MsgUpdateTenantPayoutPeriod{Sender: w.AccStr(f[1]), TenantId: u64(f[2]), PayoutPeriod: u64(f[3])})
			return "ok", err
		})
	case "inject": // tenant req amount denom chain contract token created rcpt(addr*w+addr*w|-)  -- direct CreateUTXR, as genesis import does
		return w.msgTx(func(ctx sdk.Context) (string, error) {
			var rs []*stypes.Recipient
			if f[9] != "-" {
				for _, p := range strings.Split(f[9], "+") {
					aw := strings.Split(p, "*")
					wt, _ := strconv.ParseUint(aw[1], 10, 32)
					var addr ctypes.HexAddressString
					if strings.HasPrefix(aw[0], "0x") {
						addr = ctypes.HexAddressString(aw[0])
					} else {
						addr = ctypes.NewHexAddrFromBytes(w.AccAddr(aw[0]))
					}
					rs = append(rs, &stypes.Recipient{Address: addr, Weight: uint32(wt)})
				}
			}
			id, err := w.SK.CreateUTXR(ctx, u64(f[1]), &stypes.UTXR{RequestId: Str(f[2]), Recipients: rs, Amount: sdk.Coin{Denom: Str(f[4]), Amount: amountTok(f[3])},
				Nft: &ctypes.Nft{ChainId: Str(f[5]), ContractAddr: ctypes.NormalizeHexAddress(Str(f[6])), TokenId: ctypes.NormalizeHexAddress(Str(f[7]))}, CreatedAt: u64(f[8])})
			if err != nil {
				return "", err
			}
			return fmt.Sprintf("ok id=%d", id), nil
		})
	case "fund": // acct amount denom  (harness-only: mints); an invalid coin is refused
		if sdk.ValidateDenom(Str(f[3])) != nil || !amountTok(f[2]).IsPositive() {
			return Result{Line: "err"}
		}
		coins := sdk.NewCoins(sdk.NewCoin(Str(f[3]), amountTok(f[2])))
		if err := testutil.FundAccount(w.at(), w.A.BankKeeper, w.AccAddr(f[1]), coins); err != nil {
			panic(err)
		}
		return Result{Line: "ok"}
	case "fundpool": // amount denom
		if sdk.ValidateDenom(Str(f[2])) != nil || !amountTok(f[1]).IsPositive() {
			return Result{Line: "err"}
		}
		coins := sdk.NewCoins(sdk.NewCoin(Str(f[2]), amountTok(f[1])))
		if err := testutil.FundModuleAccount(w.at(), w.A.BankKeeper, otypes.ModuleName, coins); err != nil {
			panic(err)
		}
		return Result{Line: "ok"}
	case "setowner": // contract token owner|none|zero
		c := common.HexToAddress(Str(f[1]))
		t := common.HexToHash(Str(f[2])).Big()
		k := nftKey{strings.ToLower(c.Hex()[2:]), t.String()}
		switch f[3] {
		case "none":
			delete(w.Evm.hasOwn, k)
			delete(w.Evm.owners, k)
		case "zero":
			w.Evm.hasOwn[k] = true
			w.Evm.owners[k] = common.Address{}
		default:
			w.Evm.hasOwn[k] = true
			w.Evm.owners[k] = common.BytesToAddress(w.AccAddr(f[3]))
		}
		return Result{Line: "ok"}
	case "prevote": // feeder validator hash round
		return w.msgTx(func(ctx sdk.Context) (string, error) {
			m := &otypes.MsgPrevote{Feeder: w.AccStr(f[1]), Validator: w.ValStr(f[2]), Hash: Str(f[3]), RoundId: u64(f[4])}
			if err := m.ValidateBasic(); err != nil {
				return "", err
			}
			_, err := w.OMS.Prevote(ctx, m)
			return "ok", err
		})
	case "vote": // feeder validator salt round votedata
		return w.msgTx(func(ctx sdk.Context) (string, error) {
			m := &otypes.MsgVote{Feeder: w.AccStr(f[1]), Validator: w.ValStr(f[2]), Salt: Str(f[3]), RoundId: u64(f[4]), VoteData: ParseVoteData(f[5])}
			if err := m.ValidateBasic(); err != nil {
				return "", err
			}
			_, err := w.OMS.Vote(ctx, m)
			return "ok", err
		})
	case "consent": // validator feeder
		return w.msgTx(func(ctx sdk.Context) (string, error) {
			m := &otypes.MsgFeederDelegationConsent{Validator: w.ValStr(f[1]), FeederAddress: w.AccStr(f[2])}
			if err := m.ValidateBasic(); err != nil {
				return "", err
			}
			_, err := w.OMS.FeederDelegationConsent(ctx, m)
			return "ok", err
		})
	case "hashof": // salt votedata -> the chain's commitment hash (pure)
		h, err := otypes.GetAggregateVoteHash(ParseVoteData(f[2]), Str(f[1]))
		if err != nil {
			return Result{Line: "err"}
		}
		return Result{Line: "ok " + h}
	case "setoparams": // votePeriod threshold slashFraction slashWindow maxMiss
		p := otypes.Params{VotePeriod: u64(f[1]), VoteThreshold: decTok(f[2]), SlashFraction: decTok(f[3]), SlashWindow: u64(f[4]), MaxMissCountPerSlashWindow: u64(f[5])}
		// a governance proposal is checked key by key by the module's own validators, and by nothing else: whatever they let through
		// is stored - also values that are fine one by one and do not fit together (Params.Validate is not run on this path)
		am := w.A.LegacyAmino()
		if err := w.govParams(otypes.ModuleName, map[string]string{
			string(otypes.KeyVotePeriod): string(am.MustMarshalJSON(p.VotePeriod)), string(otypes.KeyVoteThreshold): string(am.MustMarshalJSON(p.VoteThreshold)),
			string(otypes.KeySlashFraction): string(am.MustMarshalJSON(p.SlashFraction)), string(otypes.KeySlashWindow): string(am.MustMarshalJSON(p.SlashWindow)),
			string(otypes.KeyMaxMissCountPerSlashWindow): string(am.MustMarshalJSON(p.MaxMissCountPerSlashWindow))}); err != nil {
			return Result{Line: "err", Detail: err.Error()}
		}
		return Result{Line: "ok"}
	case "setsparams": // oracleFee chain,chain,... (chain ids as string tokens; "-" for none)
		p := w.SK.GetParams(w.at())
		p.OracleFeePercentage = decTok(f[1])
		p.SupportedChains = nil
		if f[2] != "-" {
			for i, c := range strings.Split(f[2], ",") {
				p.SupportedChains = append(p.SupportedChains, &ctypes.Chain{ChainId: Str(c), ChainName: fmt.Sprintf("n%d", i), ChainUrl: "u"})
			}
		}
		if err := p.Validate(); err != nil {
			return Result{Line: "err", Detail: err.Error()}
		}
		am := w.A.LegacyAmino()
		if err := w.govParams(stypes.ModuleName, map[string]string{
			string(stypes.KeyOracleFeePercentage): string(am.MustMarshalJSON(p.OracleFeePercentage)),
			string(stypes.KeySupportedChains):     string(am.MustMarshalJSON(p.SupportedChains))}); err != nil {
			return Result{Line: "err", Detail: err.Error()}
		}
		return Result{Line: "ok"}
	case "setprices": // denom:price,denom:price  (governance sets the settlement gas prices)
		p := w.SK.GetParams(w.at())
		var dcs sdk.DecCoins
		for _, kvp := range strings.Split(f[1], ",") {
			if f[1] == "-" {
				dcs = sdk.DecCoins{} // an empty list, which the parameter's validator accepts
				break
			}
			kv := strings.SplitN(kvp, ":", 2)
			// in the order given: the first configured denomination is the first listed. Built without the constructor's checks: what
			// is fit to be a price is for the parameter's own validator to say
			dcs = append(dcs, sdk.DecCoin{Denom: strings.TrimPrefix(kv[0], "="), Amount: decTok(kv[1])})
		}
		p.GasPrices = dcs
		if err := w.govParams(stypes.ModuleName, map[string]string{string(stypes.KeyGasPrices): string(w.A.LegacyAmino().MustMarshalJSON(p.GasPrices))}); err != nil {
			return Result{Line: "err", Detail: err.Error()}
		}
		return Result{Line: "ok"}
	case "setval": // v power bonded(0/1) jailed(0/1) probonoRate|-
		if f[3] == "x" {
			w.removeVal(f[1])
			return Result{Line: "ok"}
		}
		w.unbondingNext = f[3] == "2" // "2": not bonded, in its unbonding period
		w.setVal(f[1], int64(u64(f[2])), f[3] == "1", f[4] == "1", f[5])
		return Result{Line: "ok"}
	case "jail": // v : the staking module jails the validator (what the slashing module does for downtime or a double sign); it leaves
		// the active set at once. Application-level engine only.
		if !w.Real {
			return Result{Line: "bad-op"}
		}
		i, _ := strconv.Atoi(f[1][1:])
		ctx := w.at()
		val, ok := w.A.StakingKeeper.GetValidator(ctx, w.Vals[i])
		if !ok || val.IsJailed() {
			return Result{Line: "err"}
		}
		cons, err := val.GetConsAddr()
		must(err)
		w.A.StakingKeeper.Jail(ctx, cons)
		w.A.StakingKeeper.BlockValidatorUpdates(ctx)
		return Result{Line: "ok"}
	case "atomic": // msg ;; msg ;; ... : one transaction of several messages, executed the way baseapp does (one branch, all or nothing)
		return w.atomic(strings.Split(strings.TrimPrefix(line, "atomic "), " ;; "))
	case "failat": // k : fail the k-th backend call of the next block
		k, _ := strconv.Atoi(f[1])
		ff := w.Faults()
		ff.armed, ff.k, ff.n, ff.hits = k >= 0, k, 0, 0
		ff.silent = len(f) > 2 && f[2] == "silent"
		return Result{Line: "ok"}
	case "block":
		if w.Real {
			return w.realBlock()
		}
		return w.block()
	case "tx", "sim":
		return w.execTx(f)
	case "dump":
		return Result{Line: "ok"}
	case "reimport":
		return w.reimport()
	case "genesis":
		if w.Real {
			return w.genesisApp()
		}
		return w.genesisRoundTrip()
	}
	return Result{Line: "bad-op"}
}

// govParams changes parameters the way governance does: a parameter-change proposal executed by the params module's proposal handler,
// which writes the module's subspace directly (no keeper method is involved). All changes or none.
func (w *World) govParams(subspace string, kv map[string]string) error {
	var keys []string
	for k := range kv {
		keys = append(keys, k)
	}
	sort.Strings(keys)
	var changes []paramproposal.ParamChange
	for _, k := range keys {
		changes = append(changes, paramproposal.NewParamChange(subspace, k, kv[k]))
	}
	ctx := w.at()
	cctx, write := ctx.CacheContext()
	h := params.NewParamChangeProposalHandler(w.A.ParamsKeeper)
	if err := h(cctx, paramproposal.NewParameterChangeProposal("t", "d", changes)); err != nil {
		return err
	}
	write()
	return nil
}

// removeVal takes a validator out of the staking module's records, as the end of an unbonding with nothing left delegated does: from then
// on the staking keeper does not know the operator address (the oracle may still hold a miss counter or a ballot for it).
func (w *World) removeVal(tok string) {
	w.setVal(tok, 0, false, false, "-")
	ctx := w.at()
	i, _ := strconv.Atoi(tok[1:])
	sk := w.A.StakingKeeper
	val, ok := sk.GetValidator(ctx, w.Vals[i])
	if !ok {
		return
	}
	if w.removed == nil {
		w.removed = map[int]stakingtypes.Validator{}
	}
	w.removed[i] = val
	sk.DeleteValidatorByPowerIndex(ctx, val)
	st := ctx.KVStore(w.A.GetKey(stakingtypes.StoreKey))
	st.Delete(stakingtypes.GetValidatorKey(w.Vals[i]))
}

func (w *World) setVal(tok string, power int64, bonded, jailed bool, probono string) {
	ctx := w.at()
	i, _ := strconv.Atoi(tok[1:])
	sk := w.A.StakingKeeper
	val, ok := sk.GetValidator(ctx, w.Vals[i])
	if !ok {
		// the operator creates its validator again
		old, was := w.removed[i]
		if !was {
			panic("validator missing")
		}
		sk.SetValidator(ctx, old)
		delete(w.removed, i)
		val = old
	}
	sk.DeleteValidatorByPowerIndex(ctx, val)
	newTokens := sdk.TokensFromConsensusPower(power, sk.PowerReduction(ctx))
	oldBonded := val.IsBonded()
	oldTokens := val.Tokens
	val.Tokens = newTokens
	if bonded {
		val.Status = stakingtypes.Bonded
	} else if w.unbondingNext {
		val.Status = stakingtypes.Unbonding // left the active set, its unbonding period still running: not bonded
	} else {
		val.Status = stakingtypes.Unbonded
	}
	w.unbondingNext = false
	val.Jailed = jailed
	if probono == "-" {
		val.Probono = false
		val.Commission = stakingtypes.NewCommission(sdk.ZeroDec(), sdk.ZeroDec(), sdk.ZeroDec())
	} else {
		val.Probono = true
		val.Commission = stakingtypes.NewCommission(decTok(probono), sdk.OneDec(), sdk.ZeroDec())
	}
	sk.SetValidator(ctx, val)
	if !jailed {
		sk.SetValidatorByPowerIndex(ctx, val)
	}
	// keep the bonded pool equal to the sum of bonded validators' tokens
	denom := sk.BondDenom(ctx)
	var was, now math.Int = math.ZeroInt(), math.ZeroInt()
	if oldBonded {
		was = oldTokens
	}
	if bonded {
		now = newTokens
	}
	if now.GT(was) {
		c := sdk.NewCoins(sdk.NewCoin(denom, now.Sub(was)))
		must(w.A.BankKeeper.MintCoins(ctx, "mint", c))
		must(w.A.BankKeeper.SendCoinsFromModuleToModule(ctx, "mint", stakingtypes.BondedPoolName, c))
	} else if was.GT(now) {
		c := sdk.NewCoins(sdk.NewCoin(denom, was.Sub(now)))
		must(w.A.BankKeeper.BurnCoins(ctx, stakingtypes.BondedPoolName, c))
	}
	_ = stakingkeeper.Keeper{}
}

func abciEvent(e sdk.Event) abci.Event { return abci.Event(e) }

func must(err error) {
	if err != nil {
		panic(err)
	}
}

// ParseVoteData decodes "T:e,e;T:e" where T is O (ownership), B (block), U (unknown topic 7); entries are string tokens.
// "-" is the empty list.
func ParseVoteData(tok string) []*otypes.VoteData {
	var out []*otypes.VoteData
	if tok == "-" {
		return out
	}
	for _, part := range strings.Split(tok, ";") {
		topic := otypes.OracleTopic_OWNERSHIP
		switch part[0] {
		case 'B':
			topic = otypes.OracleTopic_BLOCK
		case 'U':
			topic = otypes.OracleTopic(7)
		}
		vd := &otypes.VoteData{Topic: topic}
		rest := part[2:]
		if rest != "" {
			for _, e := range strings.Split(rest, ",") {
				vd.Data = append(vd.Data, Str(e))
			}
		}
		out = append(out, vd)
	}
	return out
}

func EncVoteData(vds []*otypes.VoteData) string {
	if len(vds) == 0 {
		return "-"
	}
	var parts []string
	for _, vd := range vds {
		t := "O"
		switch vd.Topic {
		case otypes.OracleTopic_BLOCK:
			t = "B"
		case otypes.OracleTopic_OWNERSHIP:
		default:
			t = "U"
		}
		var es []string
		for _, d := range vd.Data {
			es = append(es, EncStr(d))
		}
		parts = append(parts, t+":"+strings.Join(es, ","))
	}
	return strings.Join(parts, ";")
}

// block runs the end-blockers of the two modules at the current height in the application's order
// (oracle, then settlement), then advances the height.
func (w *World) block() (res Result) {
	ctx := w.at()
	pre := w.valFlags(ctx)
	defer func() {
		ff := w.Faults()
		ff.armed = false
		if p := recover(); p != nil {
			res = Result{Line: "panic", Detail: fmt.Sprint(p), Panic: true}
			if os.Getenv("VERIF_STACK") != "" {
				res.Detail += "\n" + string(debug.Stack())
			}
			w.Height++
			res.Dump = w.Dump()
		}
	}()
	oracle.EndBlocker(ctx, w.OK)
	settlement.EndBlock(ctx, w.SK)
	var settled, dropped, filled []string
	for _, e := range ctx.EventManager().Events() {
		pe, err := sdk.ParseTypedEvent(abciEvent(e))
		if err != nil {
			continue
		}
		switch v := pe.(type) {
		case *stypes.EventSettled:
			settled = append(settled, fmt.Sprintf("%d:%d", v.Tenant, v.UtxrId))
		case *stypes.EventCancel:
			dropped = append(dropped, fmt.Sprintf("%d:%d", v.Tenant, v.UtxrId))
		case *stypes.EventSetRecipients:
			filled = append(filled, fmt.Sprintf("%d:%d>%s", v.Tenant, v.UtxrId, rcptStr(v.Recipients)))
			// a record filled and paid within one end-block never shows its recipients in a dump: track their balances from here
			for _, rc := range v.Recipients {
				h := hexName(string(rc.Address))
				if _, named := w.names[h[2:]]; !named && !isModuleHex(h) {
					w.rcptSeen[h] = true
				}
			}
		}
	}
	post := w.valFlags(ctx)
	var slashed []string
	for i := range pre {
		if !pre[i] && post[i] {
			slashed = append(slashed, fmt.Sprintf("v%d", i))
		}
	}
	line := fmt.Sprintf("ok h=%d settled=%s dropped=%s filled=%s jailed=%s", w.Height, join(settled), join(dropped), join(filled), join(slashed))
	res = Result{Line: line, Events: ctx.EventManager().Events()}
	w.Height++
	res.Dump = w.Dump()
	return res
}

func join(xs []string) string {
	if len(xs) == 0 {
		return "-"
	}
	return strings.Join(xs, ",")
}

func (w *World) valFlags(ctx sdk.Context) []bool {
	out := make([]bool, len(w.Vals))
	for i, v := range w.Vals {
		val, _ := w.A.StakingKeeper.GetValidator(ctx, v)
		out[i] = val.Jailed
	}
	return out
}

func nftStr(n *ctypes.Nft) string {
	if n == nil {
		return "nil"
	}
	return EncStr(n.ChainId) + "/" + hexName(string(n.ContractAddr)) + "/" + hexName(string(n.TokenId))
}

func rcptStr(rs []*stypes.Recipient) string {
	if len(rs) == 0 {
		return "-"
	}
	var out []string
	for _, r := range rs {
		out = append(out, fmt.Sprintf("%s*%d", hexName(string(r.Address)), r.Weight))
	}
	return strings.Join(out, "+")
}

// Dump renders the canonical state of both modules and the tracked balances.
func (w *World) Dump() []string {
	ctx := w.at()
	cr := 0
	if sdk.ConstantReward {
		cr = 1
	}
	out := []string{fmt.Sprintf("H %d pr=%s cr=%d", w.Height, w.A.StakingKeeper.PowerReduction(ctx).String(), cr)}
	out = append(out, w.dumpModules(ctx)...)
	out = append(out, w.dumpBalances(ctx)...)
	out = append(out, w.dumpQueries(ctx)...)
	return out
}

// tenantLine renders a tenant (without the line prefix).
func (w *World) tenantLine(t *stypes.Tenant) string {
	var admins []string
	for _, a := range t.Admins {
		admins = append(admins, w.accName(a))
	}
	contract := "-"
	if t.ContractAddress != "" {
		contract = hexName(t.ContractAddress)
		auto := crypto.CreateAddress(common.BytesToAddress(stypes.GetTenantTreasuryAccount(t.Id)), 0)
		if strings.EqualFold(auto.Hex(), t.ContractAddress) {
			contract = "auto"
		}
	}
	return fmt.Sprintf("%d admins=%s denom=%s period=%d method=%s contract=%s", t.Id, join(admins), EncStr(t.Denom), t.PayoutPeriod, t.PayoutMethod, contract)
}

// roundLine renders a round description.
func roundLine(ri *otypes.RoundInfo) string {
	var src []string
	for _, od := range ri.OracleData {
		for _, s := range od.Sources {
			src = append(src, fmt.Sprintf("%d:%s", int32(od.Topic), EncStr(CanonSource(s))))
		}
	}
	return fmt.Sprintf("R id=%d pe=%d ve=%d src=%s", ri.Id, ri.PrevoteEnd, ri.VoteEnd, join(src))
}

// dumpModules renders the settlement and oracle module state.
func (w *World) dumpModules(ctx sdk.Context) []string {
	var out []string
	sp := w.SK.GetParams(ctx)
	var chains []string
	for _, c := range sp.SupportedChains {
		chains = append(chains, EncStr(c.ChainId))
	}
	out = append(out, fmt.Sprintf("SP fee=%s chains=%s", decStr(sp.OracleFeePercentage), join(chains)))
	for _, t := range w.SK.GetAllTenants(ctx) {
		t := t
		out = append(out, "T "+w.tenantLine(&t))
	}
	for _, u := range w.SK.GetAllUTXRWithTenantAndID(ctx) {
		out = append(out, fmt.Sprintf("U %d %d req=%s amt=%s denom=%s nft=%s created=%d rcpt=%s", u.TenantId, u.Id, EncStr(u.Utxr.RequestId),
			intStr(u.Utxr.Amount.Amount), EncStr(u.Utxr.Amount.Denom), nftStr(u.Utxr.Nft), u.Utxr.CreatedAt, rcptStr(u.Utxr.Recipients)))
	}
	// raw request-id index and id counters
	store := ctx.KVStore(w.A.GetKey(stypes.StoreKey))
	it := sdk.KVStorePrefixIterator(store, stypes.UTXRRequestIdPrefix)
	for ; it.Valid(); it.Next() {
		k := it.Key()[1:]
		out = append(out, fmt.Sprintf("I %d %s %d", sdk.BigEndianToUint64(k[:8]), EncStr(string(k[8:])), sdk.BigEndianToUint64(it.Value())))
	}
	it.Close()
	it = sdk.KVStorePrefixIterator(store, stypes.LastUtxrIdPrefix)
	for ; it.Valid(); it.Next() {
		out = append(out, fmt.Sprintf("L %d %d", sdk.BigEndianToUint64(it.Key()[1:]), sdk.BigEndianToUint64(it.Value())))
	}
	it.Close()
	op := w.OK.GetParams(ctx)
	out = append(out, fmt.Sprintf("OP period=%d thr=%s frac=%s window=%d max=%d", op.VotePeriod, decStr(op.VoteThreshold), decStr(op.SlashFraction), op.SlashWindow, op.MaxMissCountPerSlashWindow))
	if ri := w.OK.GetCurrentRoundInfo(ctx); ri != nil {
		out = append(out, roundLine(ri))
	} else {
		out = append(out, "R none")
	}
	var ps, vs, ms, fsl []string
	for _, p := range w.OK.GetAggregatePrevotes(ctx) {
		ps = append(ps, fmt.Sprintf("P %s %s", w.valName(p.Voter), EncStr(p.Hash)))
	}
	for _, v := range w.OK.GetAggregateVotes(ctx) {
		vs = append(vs, fmt.Sprintf("V %s %s", w.valName(v.Voter), EncVoteData(v.VoteData)))
	}
	for _, m := range w.OK.GetMissCounts(ctx) {
		ms = append(ms, fmt.Sprintf("M %s %d", w.valName(m.ValidatorAddress), m.MissCount))
	}
	// store order depends on the bech32 text of the operator addresses; the protocol orders by validator name
	sort.Slice(ps, func(i, j int) bool { return valKey(ps[i]) < valKey(ps[j]) })
	sort.Slice(vs, func(i, j int) bool { return valKey(vs[i]) < valKey(vs[j]) })
	sort.Slice(ms, func(i, j int) bool { return valKey(ms[i]) < valKey(ms[j]) })
	out = append(out, ps...)
	out = append(out, vs...)
	out = append(out, ms...)
	// feeder delegations read from the raw store (the export path is observed by the genesis op)
	ostore := ctx.KVStore(w.A.GetKey(otypes.StoreKey))
	it = sdk.KVStorePrefixIterator(ostore, otypes.FeederDelegationKeyPrefix)
	for ; it.Valid(); it.Next() {
		fsl = append(fsl, fmt.Sprintf("F %s %s", w.valName(string(it.Key()[1:])), w.accName(sdk.AccAddress(it.Value()).String())))
	}
	it.Close()
	sort.Slice(fsl, func(i, j int) bool { return valKey(fsl[i]) < valKey(fsl[j]) })
	out = append(out, fsl...)
	return out
}

// CanonSource lower-cases the two hex parts of a formatted NFT id (checksum casing is canonicalised away), not the chain id.
func CanonSource(s string) string {
	p := strings.Split(s, "/")
	if len(p) < 3 {
		return s
	}
	n := len(p)
	p[n-1] = strings.ToLower(p[n-1])
	p[n-2] = strings.ToLower(p[n-2])
	return strings.Join(p, "/")
}

// valKey orders "X v3 ..." lines by validator index, lower-case spelling first.
func valKey(line string) string {
	f := strings.Fields(line)
	if len(f) < 2 || len(f[1]) < 2 {
		return line
	}
	c := "0"
	if f[1][0] == 'V' {
		c = "1"
	}
	return fmt.Sprintf("%06s%s", f[1][1:], c)
}

func (w *World) denoms() []string {
	denoms := append([]string{}, TrackedDenoms...)
	var extra []string
	for d := range w.extraDenoms {
		extra = append(extra, d)
	}
	sort.Strings(extra)
	return append(denoms, extra...)
}

// dumpBalances renders tracked balances, the validator table and the distribution liabilities.
func (w *World) dumpBalances(ctx sdk.Context) []string {
	var out []string
	denoms := w.denoms()
	type holder struct {
		name string
		addr sdk.AccAddress
	}
	var hs []holder
	for i := 0; i < NAcc; i++ {
		hs = append(hs, holder{fmt.Sprintf("a%d", i), w.Acc(i)})
	}
	for _, t := range w.SK.GetAllTenants(ctx) {
		hs = append(hs, holder{fmt.Sprintf("t%d", t.Id), stypes.GetTenantTreasuryAccount(t.Id)})
	}
	for _, u := range w.SK.GetAllUTXRWithTenantAndID(ctx) {
		for _, r := range u.Utxr.Recipients {
			h := hexName(string(r.Address))
			if _, named := w.names[h[2:]]; !named && !isModuleHex(h) {
				w.rcptSeen[h] = true
			}
		}
	}
	var rh []string
	for h := range w.rcptSeen {
		rh = append(rh, h)
	}
	sort.Strings(rh)
	for _, h := range rh {
		b, _ := hex.DecodeString(h[2:])
		hs = append(hs, holder{h, sdk.AccAddress(b)})
	}
	hs = append(hs, holder{"pool", authtypes.NewModuleAddress(otypes.ModuleName)})
	hs = append(hs, holder{"distr", authtypes.NewModuleAddress(distrtypes.ModuleName)})
	for _, h := range hs {
		for _, d := range denoms {
			b := w.A.BankKeeper.GetBalance(ctx, h.addr, d)
			if !b.Amount.IsZero() {
				out = append(out, fmt.Sprintf("B %s %s %s", h.name, EncStr(d), b.Amount.String()))
			}
		}
	}
	for i, v := range w.Vals {
		val, found := w.A.StakingKeeper.GetValidator(ctx, v)
		if !found {
			out = append(out, fmt.Sprintf("S v%d tokens=0 bonded=0 jailed=0 probono=-", i))
		} else {
			b, j := 0, 0
			if val.IsBonded() {
				b = 1
			}
			if val.Jailed {
				j = 1
			}
			rate := "-"
			if val.Probono {
				rate = decStr(val.Commission.Rate)
			}
			out = append(out, fmt.Sprintf("S v%d tokens=%s bonded=%d jailed=%d probono=%s", i, val.Tokens.String(), b, j, rate))
		}
		for _, dc := range w.A.DistrKeeper.GetValidatorOutstandingRewardsCoins(ctx, v) {
			if contains(denoms, dc.Denom) {
				out = append(out, fmt.Sprintf("O v%d %s %s", i, EncStr(dc.Denom), decStr(dc.Amount)))
			}
		}
	}
	for _, dc := range w.A.DistrKeeper.GetFeePoolCommunityCoins(ctx) {
		if contains(denoms, dc.Denom) {
			out = append(out, fmt.Sprintf("C %s %s", EncStr(dc.Denom), decStr(dc.Amount)))
		}
	}
	return out
}

func contains(xs []string, x string) bool {
	for _, y := range xs {
		if x == y {
			return true
		}
	}
	return false
}

func intStr(i math.Int) string {
	if i.IsNil() {
		return "nil"
	}
	return i.String()
}

// decStr renders a Dec as its integer numerator over 10^18.
func decStr(d sdk.Dec) string {
	if d.IsNil() {
		return "nil"
	}
	return d.BigInt().String()
}
