package world

import (
	"fmt"
	"strconv"
	"strings"

	abci "github.com/cometbft/cometbft/abci/types"
	clienttx "github.com/cosmos/cosmos-sdk/client/tx"
	cryptotypes "github.com/cosmos/cosmos-sdk/crypto/types"
	sdk "github.com/cosmos/cosmos-sdk/types"
	"github.com/cosmos/cosmos-sdk/types/tx/signing"
	authsigning "github.com/cosmos/cosmos-sdk/x/auth/signing"
	authtypes "github.com/cosmos/cosmos-sdk/x/auth/types"
	"github.com/cosmos/cosmos-sdk/x/authz"
	banktypes "github.com/cosmos/cosmos-sdk/x/bank/types"
	stakingtypes "github.com/cosmos/cosmos-sdk/x/staking/types"
	"github.com/evmos/evmos/v19/encoding"
	evmtypes "github.com/evmos/evmos/v19/x/evm/types"

	"github.com/cosmos/cosmos-sdk/crypto/keys/ed25519"
	"github.com/settlus/chain/app"
	"github.com/settlus/chain/utils"
	otypes "github.com/settlus/chain/x/oracle/types"
	stypes "github.com/settlus/chain/x/settlement/types"
)

// BeginChain brings a keyed world to the first block in which transactions can be delivered.
func (w *World) BeginChain() {
	// the chain's first block is open: transactions of a history may arrive in block 1
	header := w.Ctx.BlockHeader()
	w.A.BeginBlock(abci.RequestBeginBlock{Header: header})
	ctx := w.A.BaseApp.NewContext(false, header)
	w.Ctx = ctx
	p := w.A.EvmKeeper.GetParams(ctx)
	p.EvmDenom = "asetl"
	must(w.A.EvmKeeper.SetParams(ctx, p))
	w.Height = ctx.BlockHeight()
}

func (w *World) keyOf(tok string) (cryptotypes.PrivKey, bool) {
	if len(tok) < 2 {
		return nil, false
	}
	i, err := strconv.Atoi(tok[1:])
	if err != nil {
		return nil, false
	}
	switch tok[0] {
	case 'a', 'A':
		return Key(i), true
	case 'o', 'O':
		return Key(NAcc + i), true
	}
	return nil, false
}

// ---------- message expressions ----------

type msgParser struct {
	w *World
	s string
	i int
}

func (p *msgParser) peek() byte {
	if p.i < len(p.s) {
		return p.s[p.i]
	}
	return 0
}

func (p *msgParser) msgs() []sdk.Msg {
	var out []sdk.Msg
	for p.i < len(p.s) && p.peek() != ']' {
		out = append(out, p.msg())
		if p.peek() == '|' {
			p.i++
		}
	}
	return out
}

func (p *msgParser) msg() sdk.Msg {
	j := strings.IndexByte(p.s[p.i:], '(')
	name := p.s[p.i : p.i+j]
	p.i += j + 1
	var args []string
	var inner []sdk.Msg
	for p.peek() != ')' {
		if p.peek() == '[' {
			p.i++
			inner = p.msgs()
			p.i++ // ]
		} else {
			k := p.i
			for p.peek() != '~' && p.peek() != ')' {
				p.i++
			}
			args = append(args, p.s[k:p.i])
		}
		if p.peek() == '~' {
			p.i++
		}
	}
	p.i++ // )
	return p.w.buildMsg(name, args, inner)
}

var kindURL = map[string]string{
	"prevote": sdk.MsgTypeURL(&otypes.MsgPrevote{}), "vote": sdk.MsgTypeURL(&otypes.MsgVote{}), "consent": sdk.MsgTypeURL(&otypes.MsgFeederDelegationConsent{}),
	"createtenant": sdk.MsgTypeURL(&stypes.MsgCreateTenant{}), "createtenantmc": sdk.MsgTypeURL(&stypes.MsgCreateTenantWithMintableContract{}),
	"deposit": sdk.MsgTypeURL(&stypes.MsgDepositToTreasury{}), "record": sdk.MsgTypeURL(&stypes.MsgRecord{}), "cancel": sdk.MsgTypeURL(&stypes.MsgCancel{}),
	"addadmin": sdk.MsgTypeURL(&stypes.MsgAddTenantAdmin{}), "rmadmin": sdk.MsgTypeURL(&stypes.MsgRemoveTenantAdmin{}), "setperiod": sdk.MsgTypeURL(&stypes.MsgUpdateTenantPayoutPeriod{}),
	"send": sdk.MsgTypeURL(&banktypes.MsgSend{}), "exec": sdk.MsgTypeURL(&authz.MsgExec{}), "grant": sdk.MsgTypeURL(&authz.MsgGrant{}),
	"createval": sdk.MsgTypeURL(&stakingtypes.MsgCreateValidator{}), "delegate": sdk.MsgTypeURL(&stakingtypes.MsgDelegate{}), "ethtx": sdk.MsgTypeURL(&evmtypes.MsgEthereumTx{}),
	"vesting": "/cosmos.vesting.v1beta1.MsgCreateVestingAccount",
}

func (w *World) buildMsg(name string, a []string, inner []sdk.Msg) sdk.Msg {
	switch name {
	case "prevote":
		return &otypes.MsgPrevote{Feeder: w.AccStr(a[0]), Validator: w.ValStr(a[1]), Hash: Str(a[2]), RoundId: u64(a[3])}
	case "vote":
		return &otypes.MsgVote{Feeder: w.AccStr(a[0]), Validator: w.ValStr(a[1]), Salt: Str(a[2]), RoundId: u64(a[3]), VoteData: ParseVoteData(a[4])}
	case "consent":
		return &otypes.MsgFeederDelegationConsent{Validator: w.ValStr(a[0]), FeederAddress: w.AccStr(a[1])}
	case "createtenant":
		return &stypes.MsgCreateTenant{Sender: w.AccStr(a[0]), Denom: Str(a[1]), PayoutPeriod: u64(a[2])}
	case "createtenantmc":
		return &stypes.MsgCreateTenantWithMintableContract{Sender: w.AccStr(a[0]), Denom: Str(a[1]), PayoutPeriod: u64(a[2]), ContractAddress: Str(a[3])}
	case "deposit":
		return &stypes.MsgDepositToTreasury{Sender: w.AccStr(a[0]), TenantId: u64(a[1]), Amount: sdk.Coin{Denom: Str(a[3]), Amount: amountTok(a[2])}}
	case "record":
		return &stypes.MsgRecord{Sender: w.AccStr(a[0]), TenantId: u64(a[1]), RequestId: Str(a[2]), Amount: sdk.Coin{Denom: Str(a[4]), Amount: amountTok(a[3])},
			ChainId: Str(a[5]), ContractAddress: Str(a[6]), TokenIdHex: Str(a[7])}
	case "cancel":
		return &stypes.MsgCancel{Sender: w.AccStr(a[0]), TenantId: u64(a[1]), RequestId: Str(a[2])}
	case "addadmin":
		return &stypes.MsgAddTenantAdmin{Sender: w.AccStr(a[0]), TenantId: u64(a[1]), NewAdmin: w.AccStr(a[2])}
	case "rmadmin":
		return &stypes.MsgRemoveTenantAdmin{Sender: w.AccStr(a[0]), TenantId: u64(a[1]), AdminToRemove: w.AccStr(a[2])}
	case "setperiod":
		return &stypes.MsgUpdateTenantPayoutPeriod{Sender: w.AccStr(a[0]), TenantId: u64(a[1]), PayoutPeriod: u64(a[2])}
	case "send":
		return &banktypes.MsgSend{FromAddress: w.AccStr(a[0]), ToAddress: w.AccStr(a[1]), Amount: sdk.NewCoins(sdk.NewCoin(Str(a[3]), amountTok(a[2])))}
	case "exec":
		m := authz.NewMsgExec(w.AccAddr(a[0]), inner)
		return &m
	case "grant":
		g, err := authz.NewMsgGrant(w.AccAddr(a[0]), w.AccAddr(a[1]), authz.NewGenericAuthorization(kindURL[a[2]]), nil)
		must(err)
		return g
	case "createval":
		pk := ed25519.GenPrivKeyFromSecret([]byte("newval" + a[0])).PubKey()
		m, err := stakingtypes.NewMsgCreateValidator(sdk.ValAddress(w.AccAddr(a[0])), pk, sdk.NewCoin("asetl", sdk.DefaultPowerReduction),
			stakingtypes.Description{Moniker: "x"}, stakingtypes.NewCommissionRates(sdk.NewDecWithPrec(2, 1), sdk.OneDec(), sdk.NewDecWithPrec(1, 2)), sdk.OneInt(), sdk.ZeroInt(), false)
		must(err)
		return m
	case "delegate":
		i, _ := strconv.Atoi(a[1][1:])
		return stakingtypes.NewMsgDelegate(w.AccAddr(a[0]), w.Vals[i], sdk.NewCoin("asetl", amountTok(a[2])))
	case "ethtx":
		return &evmtypes.MsgEthereumTx{}
	}
	panic("unknown message kind " + name)
}

// tx: signers=a1,a2|auto payer=-|a3 [granter=a4] fee=100:uusdc,5:asetl gas=200000 msgs=<expr>
func (w *World) execTx(f []string) (res Result) {
	defer func() {
		if p := recover(); p != nil {
			res = Result{Line: "panic", Detail: fmt.Sprint(p), Panic: true}
		}
	}()
	kvs := map[string]string{}
	for _, t := range f[1:] {
		i := strings.IndexByte(t, '=')
		kvs[t[:i]] = t[i+1:]
	}
	p := &msgParser{w: w, s: kvs["msgs"]}
	msgs := p.msgs()
	txCfg := encoding.MakeConfig(app.ModuleBasics).TxConfig
	b := txCfg.NewTxBuilder()
	must(b.SetMsgs(msgs...))
	g, _ := strconv.ParseUint(kvs["gas"], 10, 64)
	b.SetGasLimit(g)
	var fees sdk.Coins
	if kvs["fee"] != "-" && kvs["fee"] != "" {
		for _, c := range strings.Split(kvs["fee"], ",") {
			ad := strings.SplitN(c, ":", 2)
			fees = fees.Add(sdk.NewCoin(ad[1], amountTok(ad[0])))
		}
	}
	b.SetFeeAmount(fees)
	if pt := kvs["payer"]; pt != "" && pt != "-" {
		b.SetFeePayer(w.AccAddr(pt))
	}
	if gt := kvs["granter"]; gt != "" && gt != "-" {
		b.SetFeeGranter(w.AccAddr(gt)) // an unsigned field: anybody can name anybody
	}
	// signing
	var keys []cryptotypes.PrivKey
	if kvs["signers"] == "auto" {
		for _, s := range b.GetTx().GetSigners() {
			found := false
			for i := 0; i < NAcc+NVal; i++ {
				if KeyAddr(i).Equals(s) {
					keys = append(keys, Key(i))
					found = true
				}
			}
			if !found {
				keys = append(keys, Key(NAcc+NVal+1)) // a key that is not the required one
			}
		}
	} else {
		for _, t := range strings.Split(kvs["signers"], ",") {
			k, ok := w.keyOf(t)
			if !ok {
				panic("no key for " + t)
			}
			keys = append(keys, k)
		}
	}
	c := w.A.BaseApp.NewContext(false, w.Ctx.BlockHeader())
	mode := txCfg.SignModeHandler().DefaultMode()
	var sigs []signing.SignatureV2
	type sd struct {
		seq, num uint64
	}
	var sds []sd
	for _, k := range keys {
		addr := sdk.AccAddress(k.PubKey().Address().Bytes())
		// the signer signs with the account number and sequence it knows: what the chain said when it first asked, kept up to date by
		// its own transactions. Nobody else's transaction changes them.
		var seq, num uint64
		if known, ok := w.signerData[addr.String()]; ok {
			seq, num = known[0], known[1]
		} else if acc := w.A.AccountKeeper.GetAccount(c, addr); acc != nil {
			seq, num = acc.GetSequence(), acc.GetAccountNumber()
		}
		sds = append(sds, sd{seq, num})
		sigs = append(sigs, signing.SignatureV2{PubKey: k.PubKey(), Data: &signing.SingleSignatureData{SignMode: mode}, Sequence: seq})
	}
	must(b.SetSignatures(sigs...))
	for i, k := range keys {
		sig, err := clienttx.SignWithPrivKey(mode, authsigning.SignerData{ChainID: utils.MainnetChainID, AccountNumber: sds[i].num, Sequence: sds[i].seq}, b, k, txCfg, sds[i].seq)
		must(err)
		sigs[i] = sig
	}
	must(b.SetSignatures(sigs...))
	bz, err := txCfg.TxEncoder()(b.GetTx())
	must(err)
	if f[0] == "sim" {
		// a gas-estimation query: ante handlers and messages run on a branch that is thrown away; signatures are not verified.
		// Whatever it answers, it must leave no trace.
		_, _, _ = w.A.BaseApp.Simulate(bz)
		return Result{Line: "done"}
	}
	r := w.A.DeliverTx(abci.RequestDeliverTx{Tx: bz})
	if w.signerData == nil {
		w.signerData = map[string][2]uint64{}
	}
	after := w.A.BaseApp.NewContext(false, w.Ctx.BlockHeader())
	for _, k := range keys {
		addr := sdk.AccAddress(k.PubKey().Address().Bytes())
		if acc := w.A.AccountKeeper.GetAccount(after, addr); acc != nil {
			w.signerData[addr.String()] = [2]uint64{acc.GetSequence(), acc.GetAccountNumber()}
		}
	}
	line := "ok"
	if r.Code == 111222 && r.Codespace == "undefined" {
		// baseapp recovered an internal panic while running the transaction
		return Result{Line: "panic", Detail: fmt.Sprintf("code=%d codespace=%s log=%.600s", r.Code, r.Codespace, r.Log), Panic: true}
	}
	if r.Code != 0 {
		line = "err"
	} else if isSettlementOnly(msgs) {
		line += fmt.Sprintf(" gas=%d", r.GasUsed)
	}
	return Result{Line: line, Detail: fmt.Sprintf("code=%d codespace=%s gasUsed=%d log=%.300s", r.Code, r.Codespace, r.GasUsed, r.Log)}
}

func isSettlementOnly(msgs []sdk.Msg) bool {
	if len(msgs) == 0 {
		return false
	}
	for _, m := range msgs {
		if !strings.HasPrefix(sdk.MsgTypeURL(m), "/settlus.settlement") {
			return false
		}
	}
	return true
}

// realBlock ends the current block through the application (all modules), commits, and begins the next one.
func (w *World) realBlock() (res Result) {
	defer func() {
		if p := recover(); p != nil {
			res = Result{Line: "panic", Detail: fmt.Sprint(p), Panic: true}
		}
	}()
	h := w.Ctx.BlockHeight()
	eb := w.A.EndBlock(abci.RequestEndBlock{Height: h})
	var settled, dropped, filled []string
	for _, e := range eb.Events {
		pe, err := sdk.ParseTypedEvent(e)
		if err != nil {
			continue
		}
		switch v := pe.(type) {
		case *stypes.EventSettled:
			settled = append(settled, fmt.Sprintf("%d:%d", v.Tenant, v.UtxrId))
		case *stypes.EventCancel:
			dropped = append(dropped, fmt.Sprintf("%d:%d", v.Tenant, v.UtxrId))
		case *stypes.EventSetRecipients:
			filled = append(filled, fmt.Sprintf("%d:%d>%s", v.Tenant, v.UtxrId, rcptStr(v.Recipients)))
		}
	}
	// every registered module invariant, evaluated on the state the block leaves behind
	inv := "ok"
	func() {
		defer func() {
			if p := recover(); p != nil {
				inv = "broken"
				res.Detail = fmt.Sprint(p)
			}
		}()
		w.A.CrisisKeeper.AssertInvariants(w.A.BaseApp.NewContext(false, w.Ctx.BlockHeader()))
	}()
	_ = w.A.Commit()
	header := w.Ctx.BlockHeader()
	header.Height++
	header.Time = header.Time.Add(1e9)
	header.AppHash = w.A.LastCommitID().Hash
	w.A.BeginBlock(abci.RequestBeginBlock{Header: header})
	w.Ctx = w.A.BaseApp.NewContext(false, header)
	w.Height = header.Height
	res.Line = fmt.Sprintf("ok h=%d settled=%s dropped=%s filled=%s inv=%s", h, join(settled), join(dropped), join(filled), inv)
	res.Hash = fmt.Sprintf("%X", header.AppHash)
	return res
}

// dumpAnte renders module state and the balances the admission properties talk about.
func (w *World) dumpAnte() []string {
	ctx := w.A.BaseApp.NewContext(false, w.Ctx.BlockHeader())
	out := []string{fmt.Sprintf("H %d", w.Height)}
	out = append(out, w.dumpModules(ctx)...)
	type holder struct {
		name string
		addr sdk.AccAddress
	}
	var hs []holder
	for i := 0; i < NAcc; i++ {
		hs = append(hs, holder{fmt.Sprintf("a%d", i), w.Acc(i)})
	}
	for i := range w.Vals {
		hs = append(hs, holder{fmt.Sprintf("o%d", i), sdk.AccAddress(w.Vals[i])})
	}
	for _, t := range w.SK.GetAllTenants(ctx) {
		hs = append(hs, holder{fmt.Sprintf("t%d", t.Id), stypes.GetTenantTreasuryAccount(t.Id)})
	}
	hs = append(hs, holder{"pool", authtypes.NewModuleAddress(otypes.ModuleName)})
	hs = append(hs, holder{"collector", authtypes.NewModuleAddress(authtypes.FeeCollectorName)})
	for _, h := range hs {
		for _, d := range []string{"uusdc", "setl"} {
			b := w.A.BankKeeper.GetBalance(ctx, h.addr, d)
			if !b.Amount.IsZero() {
				out = append(out, fmt.Sprintf("B %s %s %s", h.name, EncStr(d), b.Amount.String()))
			}
		}
	}
	out = append(out, fmt.Sprintf("SUP =uusdc %s", w.A.BankKeeper.GetSupply(ctx, "uusdc").Amount.String()))
	out = append(out, fmt.Sprintf("NV %d", len(w.A.StakingKeeper.GetAllValidators(ctx))))
	gs := 0
	w.A.AuthzKeeper.IterateGrants(ctx, func(_, _ sdk.AccAddress, _ authz.Grant) bool { gs++; return false })
	out = append(out, fmt.Sprintf("NG %d", gs))
	return out
}
