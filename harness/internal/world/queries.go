package world

import (
	"crypto/sha256"
	"encoding/binary"
	"fmt"
	"sort"
	"strings"

	sdk "github.com/cosmos/cosmos-sdk/types"
	"github.com/cosmos/cosmos-sdk/types/query"

	otypes "github.com/settlus/chain/x/oracle/types"
	stypes "github.com/settlus/chain/x/settlement/types"
)

// The query layer: what a client of the chain sees through the gRPC query servers of the two modules
// (x/settlement/keeper/grpc_query.go, x/oracle/keeper/query.go). Every list query is paginated with a small
// page size and followed to the end. The lines are part of the transcript that is compared with the model.

const namedMax = 8

// noteNamed remembers the (tenant, request id) pairs the history has named; the by-request-id query is asked for the latest ones.
func (w *World) noteNamed(f []string) {
	if len(f) == 0 {
		return
	}
	var t, req string
	switch f[0] {
	case "record", "cancel":
		if len(f) < 4 {
			return
		}
		t, req = f[2], f[3]
	case "inject":
		if len(f) < 3 {
			return
		}
		t, req = f[1], f[2]
	default:
		return
	}
	k := t + " " + req
	for i, n := range w.named {
		if n == k {
			w.named = append(w.named[:i], w.named[i+1:]...)
			break
		}
	}
	w.named = append(w.named, k)
	if len(w.named) > namedMax {
		w.named = w.named[len(w.named)-namedMax:]
	}
}

func (w *World) tenantView(t *stypes.TenantWithTreasury) string {
	line := w.tenantLine(t.Tenant)
	bal := "-"
	if t.Treasury != nil && t.Treasury.Balance != nil {
		bal = t.Treasury.Balance.Amount.String()
	}
	addr := "wrong"
	if t.Treasury != nil && t.Treasury.Address == stypes.GetTenantTreasuryAccount(t.Tenant.Id).String() {
		addr = "ok"
	}
	return line + " treasury=" + bal + " addr=" + addr
}

func (w *World) dumpQueries(ctx sdk.Context) (out []string) {
	defer func() {
		if p := recover(); p != nil {
			out = append(out, "Q panic")
		}
	}()
	c := sdk.WrapSDKContext(ctx)
	// settlement
	if r, err := w.SK.Params(c, &stypes.QueryParamsRequest{}); err == nil {
		var chains []string
		for _, ch := range r.Params.SupportedChains {
			chains = append(chains, EncStr(ch.ChainId))
		}
		out = append(out, fmt.Sprintf("QSP fee=%s chains=%s", decStr(r.Params.OracleFeePercentage), join(chains)))
	} else {
		out = append(out, "QSP err")
	}
	var maxID uint64
	var next []byte
	for {
		r, err := w.SK.Tenants(c, &stypes.QueryTenantsRequest{Pagination: &query.PageRequest{Key: next, Limit: 2}})
		if err != nil {
			out = append(out, "QT err")
			break
		}
		for i := range r.Tenants {
			out = append(out, "QT "+w.tenantView(&r.Tenants[i]))
			if r.Tenants[i].Tenant.Id > maxID {
				maxID = r.Tenants[i].Tenant.Id
			}
		}
		if r.Pagination == nil || len(r.Pagination.NextKey) == 0 {
			break
		}
		next = r.Pagination.NextKey
	}
	for id := uint64(0); id <= maxID+1; id++ {
		r, err := w.SK.Tenant(c, &stypes.QueryTenantRequest{TenantId: id})
		if err != nil {
			out = append(out, fmt.Sprintf("Qt %d notfound", id))
		} else {
			out = append(out, "Qt "+w.tenantView(&r.Tenant))
		}
	}
	for id := uint64(0); id <= maxID+1; id++ {
		var items []string
		next = nil
		failed := false
		for {
			r, err := w.SK.UTXRs(c, &stypes.QueryUTXRsRequest{TenantId: id, Pagination: &query.PageRequest{Key: next, Limit: 3}})
			if err != nil {
				failed = true
				break
			}
			for _, u := range r.Utxrs {
				items = append(items, EncStr(u.RequestId)+"*"+intStr(u.Amount.Amount)+"*"+nftStr(u.Nft)+"*"+fmt.Sprint(u.CreatedAt)+"*"+strings.ReplaceAll(rcptStr(u.Recipients), "*", "^"))
			}
			if r.Pagination == nil || len(r.Pagination.NextKey) == 0 {
				break
			}
			next = r.Pagination.NextKey
		}
		if failed {
			out = append(out, fmt.Sprintf("QU %d err", id))
		} else {
			out = append(out, fmt.Sprintf("QU %d %s", id, join(items)))
		}
	}
	for _, n := range w.named {
		f := strings.Fields(n)
		r, err := w.SK.UTXR(c, &stypes.QueryUTXRRRequest{TenantId: u64(f[0]), RequestId: Str(f[1])})
		if err != nil {
			out = append(out, fmt.Sprintf("Qu %s %s notfound", f[0], f[1]))
		} else {
			u := r.Utxr
			out = append(out, fmt.Sprintf("Qu %s %s req=%s amt=%s denom=%s nft=%s created=%d rcpt=%s", f[0], f[1], EncStr(u.RequestId), intStr(u.Amount.Amount), EncStr(u.Amount.Denom), nftStr(u.Nft), u.CreatedAt, rcptStr(u.Recipients)))
		}
	}
	// oracle
	if r, err := w.OK.Params(c, &otypes.QueryParamsRequest{}); err == nil {
		op := r.Params
		out = append(out, fmt.Sprintf("QOP period=%d thr=%s frac=%s window=%d max=%d", op.VotePeriod, decStr(op.VoteThreshold), decStr(op.SlashFraction), op.SlashWindow, op.MaxMissCountPerSlashWindow))
	} else {
		out = append(out, "QOP err")
	}
	if r, err := w.OK.CurrentRoundInfo(c, &otypes.QueryCurrentRoundInfoRequest{}); err == nil {
		out = append(out, "Q"+roundLine(r.RoundInfo))
	} else {
		out = append(out, "QR none")
	}
	var ps, vs []string
	next = nil
	for {
		r, err := w.OK.AggregatePrevotes(c, &otypes.QueryAggregatePrevotesRequest{Pagination: &query.PageRequest{Key: next, Limit: 2}})
		if err != nil {
			ps = append(ps, "QP err")
			break
		}
		for _, p := range r.AggregatePrevotes {
			ps = append(ps, fmt.Sprintf("QP %s %s", w.valName(p.Voter), EncStr(p.Hash)))
		}
		if r.Pagination == nil || len(r.Pagination.NextKey) == 0 {
			break
		}
		next = r.Pagination.NextKey
	}
	next = nil
	for {
		r, err := w.OK.AggregateVotes(c, &otypes.QueryAggregateVotesRequest{Pagination: &query.PageRequest{Key: next, Limit: 2}})
		if err != nil {
			vs = append(vs, "QV err")
			break
		}
		for _, v := range r.AggregateVotes {
			vs = append(vs, fmt.Sprintf("QV %s %s", w.valName(v.Voter), EncVoteData(v.VoteData)))
		}
		if r.Pagination == nil || len(r.Pagination.NextKey) == 0 {
			break
		}
		next = r.Pagination.NextKey
	}
	sort.Slice(ps, func(i, j int) bool { return valKey(ps[i]) < valKey(ps[j]) })
	sort.Slice(vs, func(i, j int) bool { return valKey(vs[i]) < valKey(vs[j]) })
	out = append(out, ps...)
	out = append(out, vs...)
	for i := range w.Vals {
		for _, name := range []string{fmt.Sprintf("v%d", i), fmt.Sprintf("V%d", i)} {
			addr := w.ValStr(name)
			p, v, m, fd := "-", "-", "err", "err"
			if r, err := w.OK.AggregatePrevote(c, &otypes.QueryAggregatePrevoteRequest{ValidatorAddress: addr}); err == nil && r.AggregatePrevote != nil {
				p = EncStr(r.AggregatePrevote.Hash)
			}
			if r, err := w.OK.AggregateVote(c, &otypes.QueryAggregateVoteRequest{ValidatorAddress: addr}); err == nil && r.AggregateVote != nil {
				v = EncVoteData(r.AggregateVote.VoteData)
			}
			if r, err := w.OK.MissCount(c, &otypes.QueryMissCountRequest{ValidatorAddress: addr}); err == nil {
				m = fmt.Sprint(r.MissCount)
			}
			if r, err := w.OK.FeederDelegation(c, &otypes.QueryFeederDelegationRequest{ValidatorAddress: addr}); err == nil && r.FeederDelegation != nil {
				fd = w.accName(r.FeederDelegation.FeederAddress)
			}
			out = append(out, fmt.Sprintf("Qv %s p=%s v=%s m=%s f=%s", name, p, v, m, fd))
		}
	}
	if r, err := w.OK.RewardPool(c, &otypes.QueryRewardPoolRequest{}); err == nil {
		var cs []string
		for _, d := range w.denoms() {
			if a := r.Balance.AmountOf(d); !a.IsZero() {
				cs = append(cs, EncStr(d)+"*"+a.String())
			}
		}
		out = append(out, "QRP "+join(cs))
	} else {
		out = append(out, "QRP err")
	}
	return out
}

// digestStores are the stores whose complete contents are hashed in twin runs (C07): everything the state machine writes, including
// what no dump line shows (account numbers, sequences, staking and distribution records, parameters).
var digestStores = []string{"acc", "bank", "authz", "distribution", "staking", "slashing", "mint", "gov", "params", "feegrant", "evm", "feemarket", "erc20",
	stypes.StoreKey, otypes.StoreKey}

// StoreDigest hashes every key and value of the state-machine stores at the current (uncommitted) state.
func (w *World) StoreDigest() string {
	ctx := w.at()
	h := sha256.New()
	for _, name := range digestStores {
		key := w.A.GetKey(name)
		if key == nil {
			continue
		}
		it := ctx.KVStore(key).Iterator(nil, nil)
		n := 0
		for ; it.Valid(); it.Next() {
			var l [8]byte
			binary.BigEndian.PutUint64(l[:], uint64(len(it.Key())))
			h.Write(l[:])
			h.Write(it.Key())
			binary.BigEndian.PutUint64(l[:], uint64(len(it.Value())))
			h.Write(l[:])
			h.Write(it.Value())
			n++
		}
		it.Close()
		fmt.Fprintf(h, "|%s:%d|", name, n)
	}
	return fmt.Sprintf("%X", h.Sum(nil)[:16])
}
