package world

import (
	"crypto/sha256"
	"encoding/json"
	"time"

	dbm "github.com/cometbft/cometbft-db"
	abci "github.com/cometbft/cometbft/abci/types"
	"github.com/cometbft/cometbft/libs/log"
	"github.com/cosmos/cosmos-sdk/baseapp"
	codectypes "github.com/cosmos/cosmos-sdk/codec/types"
	"github.com/cosmos/cosmos-sdk/crypto/keys/ed25519"
	simtestutil "github.com/cosmos/cosmos-sdk/testutil/sims"
	sdk "github.com/cosmos/cosmos-sdk/types"
	authtypes "github.com/cosmos/cosmos-sdk/x/auth/types"
	banktypes "github.com/cosmos/cosmos-sdk/x/bank/types"
	stakingtypes "github.com/cosmos/cosmos-sdk/x/staking/types"
	"github.com/evmos/evmos/v19/crypto/ethsecp256k1"
	"github.com/evmos/evmos/v19/encoding"

	"github.com/settlus/chain/app"
	"github.com/settlus/chain/cmd/settlusd/config"
	"github.com/settlus/chain/utils"
)

// Key returns the deterministic private key number i (0..9 accounts a0..a9, 10..14 operators o0..o4).
func Key(i int) *ethsecp256k1.PrivKey {
	h := sha256.Sum256([]byte{byte(i), 'v', 'e', 'r', 'i', 'f'})
	return &ethsecp256k1.PrivKey{Key: h[:]}
}

func KeyAddr(i int) sdk.AccAddress { return sdk.AccAddress(Key(i).PubKey().Address().Bytes()) }

// SetupKeyed builds the application like app.Setup does, but the five genesis validators are operated by
// accounts whose keys the harness holds, and accounts a0..a9 exist with funds.
func SetupKeyed() *app.SettlusApp {
	db := dbm.NewMemDB()
	a := app.NewSettlus(log.NewNopLogger(), db, nil, true, map[int64]bool{}, app.DefaultNodeHome, 5,
		encoding.MakeConfig(app.ModuleBasics), simtestutil.NewAppOptionsWithFlagHome(app.DefaultNodeHome), baseapp.SetChainID(utils.MainnetChainID))
	genesisState := app.NewDefaultGenesisState()

	var genAccs []authtypes.GenesisAccount
	var balances []banktypes.Balance
	big, _ := sdk.NewIntFromString("1000000000000000000000000")
	totalSupply := sdk.NewCoins()
	for i := 0; i < NAcc+NVal+6; i++ {
		if i >= NAcc+NVal && i != NAcc+NVal+5 {
			continue
		}
		k := Key(i)
		acc := authtypes.NewBaseAccount(KeyAddr(i), k.PubKey(), uint64(i), 0)
		genAccs = append(genAccs, acc)
		coins := sdk.NewCoins(sdk.NewCoin(config.BaseDenom, big), sdk.NewCoin("uusdc", sdk.NewInt(1_000_000_000_000_000)))
		balances = append(balances, banktypes.Balance{Address: acc.GetAddress().String(), Coins: coins})
		totalSupply = totalSupply.Add(coins...)
	}
	genesisState[authtypes.ModuleName] = a.AppCodec().MustMarshalJSON(authtypes.NewGenesisState(authtypes.DefaultParams(), genAccs))

	bondAmt := sdk.DefaultPowerReduction
	var validators []stakingtypes.Validator
	var delegations []stakingtypes.Delegation
	for i := 0; i < NVal; i++ {
		seed := sha256.Sum256([]byte{byte(i), 'c', 'o', 'n', 's'})
		pk := ed25519.GenPrivKeyFromSecret(seed[:]).PubKey()
		pkAny, _ := codectypes.NewAnyWithValue(pk)
		op := sdk.ValAddress(KeyAddr(NAcc + i))
		validators = append(validators, stakingtypes.Validator{
			OperatorAddress: op.String(), ConsensusPubkey: pkAny, Jailed: false, Status: stakingtypes.Bonded, Tokens: bondAmt,
			DelegatorShares: sdk.OneDec(), Description: stakingtypes.Description{}, UnbondingHeight: 0, UnbondingTime: time.Unix(0, 0).UTC(),
			Commission: stakingtypes.NewCommission(sdk.ZeroDec(), sdk.ZeroDec(), sdk.ZeroDec()), MinSelfDelegation: sdk.ZeroInt(), Probono: false,
		})
		// the genesis delegator is an account no history uses, so reward withdrawals never touch a tracked balance
		delegations = append(delegations, stakingtypes.NewDelegation(KeyAddr(NAcc+NVal+5), op, sdk.OneDec()))
		totalSupply = totalSupply.Add(sdk.NewCoin(config.BaseDenom, bondAmt))
	}
	sp := stakingtypes.DefaultParams()
	sp.BondDenom = config.BaseDenom
	genesisState[stakingtypes.ModuleName] = a.AppCodec().MustMarshalJSON(stakingtypes.NewGenesisState(sp, validators, delegations))
	balances = append(balances, banktypes.Balance{Address: authtypes.NewModuleAddress(stakingtypes.BondedPoolName).String(),
		Coins: sdk.Coins{sdk.NewCoin(config.BaseDenom, bondAmt.MulRaw(NVal))}})
	genesisState[banktypes.ModuleName] = a.AppCodec().MustMarshalJSON(banktypes.NewGenesisState(banktypes.DefaultGenesisState().Params, balances, totalSupply, []banktypes.Metadata{}, []banktypes.SendEnabled{}))

	stateBytes, err := json.MarshalIndent(genesisState, "", " ")
	if err != nil {
		panic(err)
	}
	a.InitChain(abci.RequestInitChain{ChainId: utils.MainnetChainID, Validators: []abci.ValidatorUpdate{}, ConsensusParams: app.DefaultConsensusParams, AppStateBytes: stateBytes})
	return a
}
