package monitor

import (
	"crypto/sha256"
	"encoding/hex"
	"fmt"
	"math/big"
	"sort"
	"strconv"
	"strings"
	"unicode/utf8"
)

const thisChain = "settlus_5371-1"

func init() {
	register("C01", monC01)
	register("C02", monC02)
	register("C05", monC05)
	register("C06", monC06)
	register("C08", monC08)
	register("C09", monC09)
	register("C10", monC10)
	register("C11", monC11)
	register("C12", monC12)
	register("C14", monC14)
	register("C15", monC15)
	register("C17", monC17)
	register("C18", monC18)
	register("C19", monC19)
}

// ---------- helpers ----------

func decTok(tok string) string {
	if strings.HasPrefix(tok, "=") {
		return tok[1:]
	}
	if strings.HasPrefix(tok, "x") {
		b, _ := hex.DecodeString(tok[1:])
		return string(b)
	}
	return tok
}

type ctxStep struct {
	i         int
	op        []string
	res       []string
	pre, post *State
	preDump   []string
	postDump  []string
}

func walk(tr *Trace, f func(c *ctxStep)) {
	prevDump := tr.Init
	prev := Parse(tr.Init)
	for i, s := range tr.Steps {
		post := prev
		postDump := prevDump
		if s.Dump != nil && !(len(s.Op) >= 7 && s.Op[:7] == "genesis") {
			post = Parse(s.Dump)
			postDump = s.Dump
		}
		f(&ctxStep{i: i, op: strings.Fields(s.Op), res: strings.Fields(s.Res), pre: prev, post: post, preDump: prevDump, postDump: postDump})
		prev = post
		prevDump = postDump
	}
}

func resKV(res []string, key string) []string {
	for _, t := range res {
		k, v := kv(t)
		if k == key {
			if v == "-" || v == "" {
				return nil
			}
			return strings.Split(v, ",")
		}
	}
	return nil
}

func tid(s string) (uint64, uint64) {
	p := strings.Split(s, ":")
	return pu(p[0]), pu(p[1])
}

// isNullAddr: a recipient nobody can be paid at - the zero address, or one of the module accounts the histories can name (the bank
// keeps module accounts from receiving funds; such a recipient is left out like the zero address)
func isNullAddr(a string) bool {
	if strings.Trim(strings.TrimPrefix(a, "0x"), "0") == "" {
		return true
	}
	for tok := range moduleName {
		if strings.EqualFold(hexOfAcct(tok), a) {
			return true
		}
	}
	return false
}

// shares computes the payout of a record the way the property states it.
func shares(u *Utxr) (map[string]*big.Int, *big.Int, bool) {
	out := map[string]*big.Int{}
	total := big.NewInt(0)
	var valid []Rcpt
	var W uint64
	for _, r := range u.Rcpt {
		if !isNullAddr(r.Addr) {
			valid = append(valid, r)
			W = (W + r.Weight) % 4294967296 // the code sums weights in a uint32
		}
	}
	if len(valid) == 0 {
		return out, total, false
	}
	for _, r := range valid {
		var sh *big.Int
		if W == 0 {
			sh = new(big.Int).Quo(u.Amt, big.NewInt(int64(len(valid))))
		} else {
			sh = new(big.Int).Quo(new(big.Int).Mul(u.Amt, big.NewInt(int64(r.Weight))), big.NewInt(int64(W)))
		}
		if out[r.Addr] == nil {
			out[r.Addr] = big.NewInt(0)
		}
		out[r.Addr].Add(out[r.Addr], sh)
		total.Add(total, sh)
	}
	return out, total, true
}

func viol(p, key string, step int, format string, a ...interface{}) Violation {
	return Violation{Property: p, Key: key, Step: step, What: fmt.Sprintf(format, a...)}
}

func hasAcct(list []string, tok string) bool {
	for _, a := range list {
		if acctOf(a) == acctOf(tok) {
			return true
		}
	}
	return false
}

// an account token names an account unless it is one of the malformed spellings (not bech32, empty, white space around an address)
func validAcctTok(tok string) bool {
	return tok != "bad" && tok != "empty" && !strings.HasPrefix(tok, "p")
}

// ---------- C01 ----------

func monC01(tr *Trace, br map[string]int) (out []Violation) {
	resolved := map[string]string{}
	walk(tr, func(c *ctxStep) {
		kind := c.op[0]
		if len(c.res) > 0 && c.res[0] == "panic" {
			return // a panic is C06's business; the state it leaves behind is not a history the chain would commit
		}
		if kind == "reimport" {
			// a chain restarted from an export: record ids of resolved records may be handed out again (the document carries no counter)
			resolved = map[string]string{}
		}
		preU := map[string]*Utxr{}
		for _, u := range c.pre.Utxrs {
			preU[fmt.Sprintf("%d:%d", u.Tenant, u.Id)] = u
		}
		postU := map[string]*Utxr{}
		for _, u := range c.post.Utxrs {
			postU[fmt.Sprintf("%d:%d", u.Tenant, u.Id)] = u
		}
		explained := map[string]string{}
		switch kind {
		case "block":
			for _, s := range resKV(c.res, "settled") {
				explained[s] = "settled"
			}
			for _, s := range resKV(c.res, "dropped") {
				explained[s] = "dropped"
			}
		case "cancel":
			if c.res[0] == "ok" {
				ids := resKV(c.res, "id")
				if len(ids) == 1 {
					explained[c.op[2]+":"+ids[0]] = "cancelled"
				}
			}
		}
		for k, how := range explained {
			if prev, dup := resolved[k]; dup {
				out = append(out, viol("C01", "resolved-twice", c.i, "record %s %s after it was already %s", k, how, prev))
			}
			if preU[k] == nil {
				out = append(out, viol("C01", "resolve-nonpending", c.i, "record %s reported %s but was not pending", k, how))
			}
			if postU[k] != nil {
				out = append(out, viol("C01", "resolved-still-pending", c.i, "record %s reported %s but is still pending", k, how))
			}
			resolved[k] = how
			br["resolved:"+how]++
		}
		for k := range preU {
			if postU[k] == nil && explained[k] == "" {
				out = append(out, viol("C01", "vanished", c.i, "pending record %s disappeared without being paid, cancelled or dropped (op %s)", k, kind))
			}
		}
		for k := range postU {
			if preU[k] == nil {
				if kind != "record" && kind != "inject" {
					out = append(out, viol("C01", "appeared", c.i, "record %s appeared during %s", k, kind))
				}
				if _, was := resolved[k]; was {
					out = append(out, viol("C01", "id-reused", c.i, "record id %s re-issued after resolution", k))
				}
			}
		}
		// balances
		exp := map[string]*big.Int{}
		add := func(h, d string, x *big.Int) {
			k := h + "|" + d
			if exp[k] == nil {
				exp[k] = big.NewInt(0)
			}
			exp[k].Add(exp[k], x)
		}
		switch kind {
		case "block":
			filledNow := map[string][]Rcpt{}
			for _, f := range resKV(c.res, "filled") {
				p := strings.SplitN(f, ">", 2)
				filledNow[p[0]] = parseRcpt(p[1])
			}
			for _, s := range resKV(c.res, "settled") {
				u := preU[s]
				if u == nil {
					continue
				}
				if r, ok := filledNow[s]; ok && len(u.Rcpt) == 0 {
					uu := *u
					uu.Rcpt = r
					u = &uu
				}
				t := c.pre.Tenants[u.Tenant]
				if t == nil {
					continue
				}
				sh, total, ok := shares(u)
				if !ok {
					out = append(out, viol("C01", "settled-without-recipient", c.i, "record %s settled without a valid recipient", s))
					continue
				}
				var trueW uint64
				for _, rc := range u.Rcpt {
					if !isNullAddr(rc.Addr) {
						trueW += rc.Weight
					}
				}
				// weights whose sum does not fit 32 bits cannot come from a transaction (recipients written by Record and by the
				// oracle have weight 1); the bound "at most the amount" is stated, and proved, for sums that do not wrap
				if total.Cmp(u.Amt) > 0 && trueW < 1<<32 {
					out = append(out, viol("C01", "overpay", c.i, "record %s pays %s of %s", s, total, u.Amt))
				}
				denom := u.Denom
				if t.Method == "mintable_contract" {
					denom = "=sbt/" + strings.TrimPrefix(contractOf(t), "0x")
				} else {
					add(fmt.Sprintf("t%d", t.Id), denom, new(big.Int).Neg(total))
				}
				for a, x := range sh {
					add(holderOfHex(a), denom, x)
				}
			}
		case "deposit":
			if c.res[0] == "ok" {
				amt := bigOf(c.op[3])
				add("t"+c.op[2], c.op[4], amt)
				add(acctOf(c.op[1]), c.op[4], new(big.Int).Neg(amt))
			}
		case "fund":
			add(acctOf(c.op[1]), c.op[3], bigOf(c.op[2]))
		}
		if kind == "genesis" {
			return
		}
		// every tracked treasury / account balance moves exactly by the expected amount
		keys := map[string]bool{}
		for k := range c.pre.Bal {
			keys[k] = true
		}
		for k := range c.post.Bal {
			keys[k] = true
		}
		for k := range exp {
			keys[k] = true
		}
		for k := range keys {
			h := strings.SplitN(k, "|", 2)[0]
			if h == "pool" || h == "distr" || !trackedDenom(k[strings.Index(k, "|")+1:]) {
				continue
			}
			if strings.HasPrefix(k[strings.Index(k, "|")+1:], "=sbt/") && c.pre.Bal[k] == nil && c.post.Bal[k] == nil {
				// mint receipts become visible in dumps only after the first mint; skip until tracked
				continue
			}
			pre, post := big.NewInt(0), big.NewInt(0)
			if b := c.pre.Bal[k]; b != nil {
				pre = b
			}
			if b := c.post.Bal[k]; b != nil {
				post = b
			}
			d := new(big.Int).Sub(post, pre)
			e := big.NewInt(0)
			if exp[k] != nil {
				e = exp[k]
			}
			if strings.HasPrefix(k[strings.Index(k, "|")+1:], "=sbt/") && c.pre.Bal[k] == nil {
				continue
			}
			if d.Cmp(e) != 0 {
				key := "balance-delta"
				if strings.HasPrefix(h, "t") {
					key = "treasury-delta"
				}
				out = append(out, viol("C01", key, c.i, "%s moved by %s, expected %s during %s", k, d, e, strings.Join(c.op, " ")))
			}
		}
	})
	return out
}

func contractOf(t *Tenant) string {
	if t.Contract == "auto" {
		return fmt.Sprintf("auto.%d", t.Id)
	}
	return t.Contract
}

// trackedDenom: balances are dumped only for these denominations
func trackedDenom(tok string) bool {
	return tok == "=uusdc" || tok == "=asetl" || tok == "=uerc" || strings.HasPrefix(tok, "=sbt/")
}

// ---------- C02 ----------

func monC02(tr *Trace, br map[string]int) (out []Violation) {
	walk(tr, func(c *ctxStep) {
		switch c.op[0] {
		case "block":
			h := new(big.Int).SetUint64(c.pre.H)
			for _, s := range resKV(c.res, "settled") {
				t, id := tid(s)
				u := c.pre.Utxr(t, id)
				ten := c.pre.Tenants[t]
				if u == nil || ten == nil {
					continue
				}
				due := new(big.Int).Add(new(big.Int).SetUint64(u.Created), new(big.Int).SetUint64(ten.Period))
				if due.Cmp(h) > 0 {
					out = append(out, viol("C02", "early-payout", c.i, "record %s created %d period %d paid at height %d", s, u.Created, ten.Period, c.pre.H))
				}
				if ten.Period >= 1<<62 {
					br["c02:huge-period-seen"]++
				}
				br["c02:settled"]++
			}
		case "cancel":
			t := pu(c.op[2])
			req := c.op[3]
			var pend *Utxr
			for _, u := range c.pre.Utxrs {
				if u.Tenant == t && u.Req == req {
					pend = u
				}
			}
			ten := c.pre.Tenants[t]
			admin := ten != nil && validAcctTok(c.op[1]) && hasAcct(ten.Admins, c.op[1])
			if c.res[0] == "ok" {
				if pend == nil {
					out = append(out, viol("C02", "cancel-nonpending", c.i, "cancel of tenant %d request %s succeeded but no such record is pending", t, req))
				} else {
					br["c02:cancel-pending"]++
				}
			} else if c.res[0] == "err" {
				if pend != nil && admin {
					out = append(out, viol("C02", "cancel-pending-refused", c.i, "admin cancel of pending tenant %d request %s was refused", t, req))
				}
				if pend == nil {
					br["c02:cancel-refused"]++
				}
			}
		}
	})
	return out
}

// ---------- tally computation shared by C05 / C10 / C15 ----------

type entry struct{ nft, owner string }

func normHex20(s string) string {
	// the chain's address normaliser: hex decode leniently, keep the low 20 bytes
	s = strings.TrimPrefix(strings.TrimPrefix(s, "0x"), "0X")
	if len(s)%2 == 1 {
		s = "0" + s
	}
	b, err := hex.DecodeString(s)
	if err != nil {
		b = nil
	}
	if len(b) > 20 {
		b = b[len(b)-20:]
	}
	out := make([]byte, 20)
	copy(out[20-len(b):], b)
	return "0x" + hex.EncodeToString(out)
}

// parseEntry is the structural reading of "chain/contract/token:owner" the property relies on.
func parseEntry(s string) (entry, string, bool) {
	p := strings.Split(s, ":")
	if len(p) != 2 {
		return entry{}, "", false
	}
	q := strings.Split(p[0], "/")
	if len(q) != 3 {
		return entry{}, "", false
	}
	nft := encTok(q[0]) + "/" + normHex20(q[1]) + "/" + normHex20(q[2])
	return entry{nft, normHex20(p[1])}, q[0], true
}

func encTok(s string) string {
	safe := true
	for _, c := range []byte(s) {
		if !(c >= 'a' && c <= 'z' || c >= 'A' && c <= 'Z' || c >= '0' && c <= '9' || c == '.' || c == '_' || c == '-' || c == '/' || c == ':') {
			safe = false
		}
	}
	if safe {
		return "=" + s
	}
	return "x" + hex.EncodeToString([]byte(s))
}

type voteData struct {
	topic   byte
	entries []string
}

func parseVD(tok string) []voteData {
	if tok == "-" {
		return nil
	}
	var out []voteData
	for _, part := range strings.Split(tok, ";") {
		vd := voteData{topic: part[0]}
		if len(part) > 2 {
			for _, e := range strings.Split(part[2:], ",") {
				vd.entries = append(vd.entries, decTok(e))
			}
		}
		out = append(out, vd)
	}
	return out
}

type tally struct {
	accepted map[string]string              // nft -> owner
	revealed map[int]map[entry]bool         // validator -> entries (active validators only)
	power    map[string]map[string]*big.Int // nft -> owner -> power
	total    *big.Int
	active   map[int]bool
	pw       map[int]*big.Int // power of each active validator
}

func valIndex(tok string) int {
	if len(tok) < 2 || (tok[0] != 'v' && tok[0] != 'V') {
		return -1
	}
	i, err := strconv.Atoi(tok[1:])
	if err != nil {
		return -1
	}
	return i
}

func computeTally(s *State) *tally {
	t := &tally{accepted: map[string]string{}, revealed: map[int]map[entry]bool{}, power: map[string]map[string]*big.Int{}, active: map[int]bool{}}
	// power as the chain defines it: tokens / power reduction, or 1 for every validator that has any under constant reward;
	// total bonded power is the sum over the bonded, unjailed validators
	pw := map[int]*big.Int{}
	t.pw = pw
	t.total = big.NewInt(0)
	for i, v := range s.Vals {
		if v.Bonded && !v.Jailed {
			t.active[i] = true
			pw[i] = new(big.Int).Quo(v.Tokens, s.PR)
			if s.CR && pw[i].Sign() > 0 {
				pw[i] = big.NewInt(1)
			}
			t.total.Add(t.total, pw[i])
		}
	}
	for voter, vd := range s.Votes {
		i := valIndex(voter)
		if i < 0 || !t.active[i] {
			continue
		}
		if t.revealed[i] == nil {
			t.revealed[i] = map[entry]bool{}
		}
		for _, d := range parseVD(vd) {
			for _, es := range d.entries {
				e, _, ok := parseEntry(es)
				if ok {
					t.revealed[i][e] = true
				}
			}
		}
	}
	for i, es := range t.revealed {
		for e := range es {
			if t.power[e.nft] == nil {
				t.power[e.nft] = map[string]*big.Int{}
			}
			if t.power[e.nft][e.owner] == nil {
				t.power[e.nft][e.owner] = big.NewInt(0)
			}
			t.power[e.nft][e.owner].Add(t.power[e.nft][e.owner], pw[i])
		}
	}
	one := new(big.Int).Exp(big.NewInt(10), big.NewInt(18), nil)
	need := new(big.Int).Mul(s.Thr, t.total) // compare power*10^18 >= thr*total
	for nft, owners := range t.power {
		var win []string
		for o, p := range owners {
			if new(big.Int).Mul(p, one).Cmp(need) >= 0 {
				win = append(win, o)
			}
		}
		if len(win) == 1 {
			t.accepted[nft] = win[0]
		}
	}
	return t
}

func isTally(s *State) bool { return s.VP > 0 && s.H%(2*s.VP) == 2*s.VP-1 }

func roundStart(s *State) uint64 { return s.H - s.H%(2*s.VP) }

// ---------- C05 ----------

func monC05(tr *Trace, br map[string]int) (out []Violation) {
	walk(tr, func(c *ctxStep) {
		if c.op[0] != "block" || c.res[0] != "ok" {
			return
		}
		if !isTally(c.pre) {
			return
		}
		t := computeTally(c.pre)
		br["c05:tally"]++
		if t.total.Sign() == 0 {
			// no bonded, unjailed validator at all: a chain in that state produces no blocks; "the threshold fraction of the active
			// power" is then zero of zero and the statement says nothing (the theorems carry 0 < total)
			br["c05:tally-without-active-power"]++
			return
		}
		if len(t.accepted) > 0 {
			br["c05:tally-with-accepted"]++
		}
		if len(t.power) > len(t.accepted) {
			br["c05:tally-with-unaccepted-nft"]++
		}
		rs := roundStart(c.pre)
		settledNow := map[string]bool{}
		for _, s := range append(resKV(c.res, "settled"), resKV(c.res, "dropped")...) {
			settledNow[s] = true
		}
		filled := map[string]string{}
		for _, f := range resKV(c.res, "filled") {
			p := strings.SplitN(f, ">", 2)
			filled[p[0]] = p[1]
		}
		for _, u := range c.pre.Utxrs {
			k := fmt.Sprintf("%d:%d", u.Tenant, u.Id)
			owner, acc := t.accepted[u.Nft]
			eligible := len(u.Rcpt) == 0 && rs > 0 && u.Created <= rs-1
			want := ""
			if acc && eligible {
				want = owner + "*1"
			}
			got := filled[k]
			if want != got {
				key := "fill-mismatch"
				if want == "" {
					key = "fill-without-threshold"
				}
				out = append(out, viol("C05", key, c.i, "record %s nft %s: tally should set %q, chain set %q (powers %v, total %s, thr %s)", k, u.Nft, want, got, t.power[u.Nft], t.total, c.pre.Thr))
			}
			if want != "" {
				br["c05:filled"]++
			}
		}
		// an owner the tally must not accept (none or several at the threshold) also shows in the miss counters: every active
		// validator that voted on such an NFT is charged; one that is not was counted as having voted the accepted value
		h, W, R := c.pre.H, c.pre.Window, 2*c.pre.VP
		closes := W > 0 && ((h >= R && h/W > (h-R)/W) || (h < R && h/W > 0))
		if !closes && W > 0 {
			pre, post := map[int]uint64{}, map[int]uint64{}
			for k, v := range c.pre.Miss {
				pre[valIndex(k)] += v
			}
			for k, v := range c.post.Miss {
				post[valIndex(k)] += v
			}
			for i, es := range t.revealed {
				for e := range es {
					if _, ok := t.accepted[e.nft]; !ok && post[i] == pre[i] {
						n := 0
						for _, p := range t.power[e.nft] {
							if new(big.Int).Mul(p, new(big.Int).Exp(big.NewInt(10), big.NewInt(18), nil)).Cmp(new(big.Int).Mul(c.pre.Thr, t.total)) >= 0 {
								n++
							}
						}
						out = append(out, viol("C05", "accepted-without-unique-threshold", c.i, "validator v%d voted %s on %s, for which %d owners reach the threshold (powers %v, total %s), and was not charged a miss: its value was treated as accepted", i, e.owner, e.nft, n, t.power[e.nft], t.total))
					}
				}
			}
		}
	})
	return out
}

// ---------- C06 ----------

func monC06(tr *Trace, br map[string]int) (out []Violation) {
	walk(tr, func(c *ctxStep) {
		if len(c.res) > 0 && c.res[0] == "panic" {
			key := "panic-" + c.op[0]
			out = append(out, viol("C06", key, c.i, "panic during %s: %s", strings.Join(c.op, " "), tr.Steps[c.i].Detail))
		}
		br["c06:"+c.op[0]]++
	})
	return out
}

// ---------- C08 ----------

func voteHash(salt string, vds []voteData) string {
	var sb strings.Builder
	sb.WriteString(salt)
	for _, vd := range vds {
		for _, e := range vd.entries {
			sb.WriteString(e)
		}
	}
	h := sha256.Sum256([]byte(sb.String()))
	return strings.ToUpper(hex.EncodeToString(h[:]))
}

func monC08(tr *Trace, br map[string]int) (out []Violation) {
	// the statement fixes the vote period; after a parameter change the round grid moves, so monitoring resumes
	// once the next block has republished the round description
	settled := true
	// the prevotes accepted in the running round, by the validator spelling they were submitted under: what the history says a later
	// reveal may open, whatever key the store filed them under
	held := map[string]string{}
	walk(tr, func(c *ctxStep) {
		s := c.pre
		if s.VP == 0 {
			return
		}
		if c.op[0] == "prevote" && len(c.op) >= 5 && c.res[0] == "ok" {
			held[c.op[2]] = c.op[3]
		}
		if c.op[0] == "prevote" || c.op[0] == "consent" {
			// the tally counts the votes revealed in the round: none of them leaves the file before the tally, whatever else its
			// validator sends
			for k, v := range c.pre.Votes {
				if c.post.Votes[k] != v {
					out = append(out, viol("C08", "revealed-vote-lost-before-tally", c.i, "the vote %s revealed by %s is no longer on file after %s (now %q)", v, k, strings.Join(c.op, " "), c.post.Votes[k]))
				}
			}
		}
		if c.op[0] == "vote" && len(c.op) >= 3 && c.res[0] == "ok" {
			delete(held, c.op[2])
		}
		if c.op[0] == "block" && c.res[0] == "ok" && isTally(s) {
			defer func() { held = map[string]string{} }()
		}
		if c.op[0] == "setoparams" {
			settled = false
			return
		}
		if !settled {
			if c.op[0] == "block" {
				settled = true
			}
			return
		}
		switch c.op[0] {
		case "prevote":
			if !validAcctTok(c.op[1]) || valIndex(c.op[2]) < 0 {
				return
			}
			if !utf8.ValidString(decTok(c.op[3])) {
				return // refused by basic validation like a malformed address: not a prevote
			}
			want := pu(c.op[4]) == roundStart(s) && s.H%(2*s.VP) < s.VP
			got := c.res[0] == "ok"
			if got {
				br["c08:prevote-ok"]++
			} else {
				br["c08:prevote-rejected"]++
			}
			if want != got && c.res[0] != "panic" {
				key := "prevote-accept"
				if want {
					key = "prevote-refused-in-window"
				}
				out = append(out, viol("C08", key, c.i, "prevote round %s at height %d (period %d): expected accept=%v got %s", c.op[4], s.H, s.VP, want, c.res[0]))
			}
		case "vote":
			if !validAcctTok(c.op[1]) || valIndex(c.op[2]) < 0 {
				return
			}
			vds := parseVD(c.op[5])
			wf := true
			for _, vd := range vds {
				if vd.topic != 'O' {
					wf = false
				}
				for _, es := range vd.entries {
					_, chain, ok := parseEntry(es)
					if !ok {
						wf = false
						continue
					}
					sup := false
					for _, ch := range s.Chains {
						if decTok(ch) == chain {
							sup = true
						}
					}
					if !sup {
						wf = false
					}
				}
			}
			pv, has := s.Prevotes[c.op[2]]
			if h, ok := held[c.op[2]]; ok && !has {
				pv, has = h, true
			}
			want := pu(c.op[4]) == roundStart(s) && wf && has && decTok(pv) == voteHash(decTok(c.op[3]), vds)
			got := c.res[0] == "ok"
			if got {
				br["c08:vote-ok"]++
			} else {
				br["c08:vote-rejected"]++
			}
			if want != got && c.res[0] != "panic" {
				key := "vote-accept"
				if want {
					key = "vote-refused"
				}
				out = append(out, viol("C08", key, c.i, "vote %s at height %d: expected accept=%v (round ok=%v wellformed=%v prevote=%v) got %s", strings.Join(c.op, " "), s.H, want, pu(c.op[4]) == roundStart(s), wf, has, c.res[0]))
			}
			if got {
				if _, still := c.post.Prevotes[c.op[2]]; still {
					out = append(out, viol("C08", "prevote-not-consumed", c.i, "prevote of %s still present after accepted vote", c.op[2]))
				}
			}
		case "block":
			if c.res[0] != "ok" {
				return
			}
			if isTally(s) {
				br["c08:tally"]++
				if len(c.post.Prevotes) > 0 || len(c.post.Votes) > 0 {
					out = append(out, viol("C08", "ballots-left", c.i, "ballots left after tally at height %d", s.H))
				}
			} else {
				if fmt.Sprint(sortedKV(c.post.Prevotes)) != fmt.Sprint(sortedKV(s.Prevotes)) || fmt.Sprint(sortedKV(c.post.Votes)) != fmt.Sprint(sortedKV(s.Votes)) {
					out = append(out, viol("C08", "ballots-changed-off-tally", c.i, "ballots changed in end-block at non-tally height %d", s.H))
				}
				if f := resKV(c.res, "filled"); len(f) > 0 {
					out = append(out, viol("C08", "fill-off-tally", c.i, "recipients filled at non-tally height %d", s.H))
				}
			}
			// the round description published by this block is the one of the next height
			nh := s.H + 1
			if r := c.post.Round; r == nil {
				out = append(out, viol("C08", "round-missing", c.i, "no round description after block %d", s.H))
			} else {
				st := nh - nh%(2*s.VP)
				if r.Id != st || uint64(r.PE) != st+s.VP-1 || uint64(r.VE) != st+2*s.VP-1 {
					out = append(out, viol("C08", "round-wrong", c.i, "round description after block %d is id=%d pe=%d ve=%d, expected %d %d %d", s.H, r.Id, r.PE, r.VE, st, st+s.VP-1, st+2*s.VP-1))
				}
			}
		}
	})
	return out
}

func sortedKV(m map[string]string) []string {
	var out []string
	for k, v := range m {
		out = append(out, k+"="+v)
	}
	sort.Strings(out)
	return out
}

// ---------- C09 ----------

func moduleLines(d []string) string {
	var out []string
	for _, l := range d {
		if len(l) == 0 {
			continue
		}
		switch l[0] {
		case 'T', 'U', 'I', 'L', 'B':
			out = append(out, l)
		}
	}
	return strings.Join(out, "\n")
}

func monC09(tr *Trace, br map[string]int) (out []Violation) {
	walk(tr, func(c *ctxStep) {
		for _, t := range c.post.Tenants {
			if len(t.Admins) == 0 {
				out = append(out, viol("C09", "admins-empty", c.i, "tenant %d has no admin", t.Id))
			}
			seen := map[string]bool{}
			for _, a := range t.Admins {
				if seen[acctOf(a)] {
					out = append(out, viol("C09", "admins-duplicate", c.i, "tenant %d lists account %s twice (%v)", t.Id, acctOf(a), t.Admins))
				}
				seen[acctOf(a)] = true
			}
		}
		kind := c.op[0]
		switch kind {
		case "record", "cancel", "addadmin", "rmadmin", "setperiod":
			t := c.pre.Tenants[pu(c.op[2])]
			admin := t != nil && validAcctTok(c.op[1]) && hasAcct(t.Admins, c.op[1])
			ok := c.res[0] == "ok"
			if ok && !admin {
				out = append(out, viol("C09", "non-admin-acted", c.i, "%s by %s succeeded for tenant %s whose admins are %v", kind, c.op[1], c.op[2], adminsOf(t)))
			}
			if ok && (kind == "addadmin" || kind == "rmadmin") && t != nil {
				// the stored list is the old list with exactly the named account added at the end / removed
				var want []string
				for _, a := range t.Admins {
					if kind == "rmadmin" && acctOf(a) == acctOf(c.op[3]) {
						continue
					}
					want = append(want, acctOf(a))
				}
				if kind == "addadmin" {
					want = append(want, acctOf(c.op[3]))
				}
				var got []string
				if pt := c.post.Tenants[pu(c.op[2])]; pt != nil {
					for _, a := range pt.Admins {
						got = append(got, acctOf(a))
					}
				}
				sort.Strings(want)
				sort.Strings(got)
				if strings.Join(want, ",") != strings.Join(got, ",") {
					out = append(out, viol("C09", "admin-list-wrong", c.i, "after %s the admins of tenant %s are %v, expected %v", strings.Join(c.op, " "), c.op[2], got, want))
				}
			}
			if ok {
				br["c09:"+kind+"-ok"]++
			} else if !admin {
				br["c09:"+kind+"-nonadmin-refused"]++
			}
			// "exactly": an admin whose request meets the other stated preconditions succeeds
			if admin && c.res[0] == "err" {
				must := false
				switch kind {
				case "setperiod":
					must = pu(c.op[3]) > 0
				case "addadmin":
					must = validAcctTok(c.op[3]) && !hasAcct(t.Admins, c.op[3])
				case "rmadmin":
					must = validAcctTok(c.op[3]) && hasAcct(t.Admins, c.op[3]) && len(t.Admins) > 1
				}
				if must {
					out = append(out, viol("C09", "admin-refused", c.i, "%s by admin %s of tenant %s refused (admins %v)", strings.Join(c.op, " "), c.op[1], c.op[2], t.Admins))
				}
			}
		}
		switch kind {
		case "record", "cancel", "addadmin", "rmadmin", "setperiod", "deposit", "createtenant":
			if c.res[0] == "err" {
				if moduleLines(c.preDump) != moduleLines(c.postDump) {
					out = append(out, viol("C09", "rejected-changed-state", c.i, "rejected %s changed state", strings.Join(c.op, " ")))
				}
				br["c09:rejected-"+kind]++
			}
		}
	})
	return out
}

func adminsOf(t *Tenant) []string {
	if t == nil {
		return nil
	}
	return t.Admins
}

// ---------- C10 ----------

// monC10params: the supported chains are what governance set them to, whatever it does to another parameter
func monC10params(tr *Trace, br map[string]int) (out []Violation) {
	walk(tr, func(c *ctxStep) {
		if c.op[0] == "setprices" {
			br["c10:prices-changed"]++
			if strings.Join(c.pre.Chains, ",") != strings.Join(c.post.Chains, ",") {
				out = append(out, viol("C10", "supported-chains-replaced", c.i, "a change of the gas prices (%s) turned the supported chains %v into %v", strings.Join(c.op, " "), c.pre.Chains, c.post.Chains))
			}
		}
	})
	return out
}

func monC10(tr *Trace, br map[string]int) (out []Violation) {
	owners := map[string]string{} // contract40|tokenValue -> owner token
	walk(tr, func(c *ctxStep) {
		switch c.op[0] {
		case "setowner":
			k := normHex20(decTok(c.op[1])) + "|" + tokenValue(decTok(c.op[2])).String()
			if c.op[3] == "none" {
				delete(owners, k)
			} else {
				owners[k] = c.op[3]
			}
		case "record":
			chain := decTok(c.op[6])
			sup := false
			for _, ch := range c.pre.Chains {
				if decTok(ch) == chain {
					sup = true
				}
			}
			ok := c.res[0] == "ok"
			rc := resKV(c.res, "rcpt")
			switch {
			case chain == thisChain:
				k := normHex20(decTok(c.op[7])) + "|" + tokenValue(decTok(c.op[8])).String()
				o, has := owners[k]
				if ok {
					if !has || o == "zero" {
						out = append(out, viol("C10", "internal-no-owner", c.i, "record for on-chain NFT without owner succeeded"))
					} else if len(rc) != 1 || rc[0] != hexOfAcct(o)+"*1" {
						out = append(out, viol("C10", "internal-wrong-owner", c.i, "record for on-chain NFT owned by %s got recipients %v", o, rc))
					}
					br["c10:internal-ok"]++
				} else {
					br["c10:internal-refused"]++
				}
			case sup:
				if ok && len(rc) != 0 {
					out = append(out, viol("C10", "external-has-recipient", c.i, "external record starts with recipients %v", rc))
				}
				if ok {
					br["c10:external-ok"]++
				}
			default:
				if ok {
					out = append(out, viol("C10", "unsupported-chain-accepted", c.i, "record for chain %q accepted (supported %v)", chain, c.pre.Chains))
				}
				br["c10:other-chain"]++
			}
		case "block":
			if c.res[0] != "ok" {
				return
			}
			rs := roundStart(c.pre)
			for _, f := range resKV(c.res, "filled") {
				p := strings.SplitN(f, ">", 2)
				t, id := tid(p[0])
				u := c.pre.Utxr(t, id)
				if u == nil {
					out = append(out, viol("C10", "fill-unknown", c.i, "filled unknown record %s", p[0]))
					continue
				}
				if len(u.Rcpt) != 0 {
					out = append(out, viol("C10", "fill-overwrite", c.i, "record %s already had recipients", p[0]))
				}
				if rs == 0 || u.Created > rs-1 {
					out = append(out, viol("C10", "fill-created-in-round", c.i, "record %s created at %d filled by the tally of the round starting at %d", p[0], u.Created, rs))
				}
				br["c10:filled"]++
			}
		}
		// recipients once set never change; only a tally block sets them
		for _, u := range c.pre.Utxrs {
			v := c.post.Utxr(u.Tenant, u.Id)
			if v == nil {
				continue
			}
			if len(u.Rcpt) > 0 && fmt.Sprint(u.Rcpt) != fmt.Sprint(v.Rcpt) {
				out = append(out, viol("C10", "recipients-overwritten", c.i, "record %d:%d recipients changed from %v to %v", u.Tenant, u.Id, u.Rcpt, v.Rcpt))
			}
			if len(u.Rcpt) == 0 && len(v.Rcpt) > 0 && c.op[0] != "block" {
				out = append(out, viol("C10", "recipients-set-outside-tally", c.i, "record %d:%d got recipients during %s", u.Tenant, u.Id, c.op[0]))
			}
		}
	})
	return out
}

func tokenValue(s string) *big.Int {
	s = strings.TrimPrefix(strings.TrimPrefix(s, "0x"), "0X")
	b, ok := new(big.Int).SetString(s, 16)
	if !ok {
		return big.NewInt(-1)
	}
	return b
}

// ---------- C11 ----------

func monC11(tr *Trace, br map[string]int) (out []Violation) {
	// "never loses or doubles": a failed payout leaves no partial transfer behind. The balance accounting of C01 sees exactly that:
	// any balance moving in a block by more or less than the payouts the block reports.
	for _, v := range monC01(tr, map[string]int{}) {
		if (v.Key == "balance-delta" || v.Key == "treasury-delta") && strings.Contains(v.What, "during block") {
			out = append(out, viol("C11", "partial-payout-survived", v.Step, "%s", v.What))
		}
	}
	armed := false
	walk(tr, func(c *ctxStep) {
		switch c.op[0] {
		case "failat":
			armed = c.op[1] != "-1"
			return
		case "block":
		default:
			return
		}
		wasArmed := armed
		armed = false
		if c.res[0] != "ok" {
			return
		}
		settled := map[uint64][]uint64{}
		for _, s := range append(resKV(c.res, "settled"), resKV(c.res, "dropped")...) {
			t, id := tid(s)
			settled[t] = append(settled[t], id)
		}
		// what the tally of this block fills is visible to settlement in the same block
		filled := map[string][]Rcpt{}
		for _, f := range resKV(c.res, "filled") {
			p := strings.SplitN(f, ">", 2)
			filled[p[0]] = parseRcpt(p[1])
		}
		for _, t := range c.pre.TenantIx {
			ten := c.pre.Tenants[t]
			var q []*Utxr
			for _, u := range c.pre.Utxrs {
				if u.Tenant == t {
					q = append(q, u)
				}
			}
			sort.Slice(q, func(i, j int) bool { return q[i].Id < q[j].Id })
			got := append([]uint64{}, settled[t]...)
			gs := append([]uint64{}, got...)
			sort.Slice(gs, func(i, j int) bool { return gs[i] < gs[j] })
			// order of resolution inside the block is ascending
			for i := 1; i < len(got); i++ {
				if got[i] <= got[i-1] {
					// settled and dropped are reported in two lists; check each list separately below
				}
			}
			// expected resolution: walk the queue
			bal := map[string]*big.Int{}
			var exp []uint64
			untracked := false
			for _, u := range q {
				if !trackedDenom(u.Denom) {
					untracked = true
				}
			}
			if untracked {
				continue // the treasury balance of an untracked denomination is not observable in the dump
			}
			for _, u := range q {
				due := new(big.Int).Add(new(big.Int).SetUint64(u.Created), new(big.Int).SetUint64(ten.Period))
				if due.Cmp(new(big.Int).SetUint64(c.pre.H)) > 0 {
					break
				}
				uu := *u
				if r, ok := filled[fmt.Sprintf("%d:%d", u.Tenant, u.Id)]; ok && len(u.Rcpt) == 0 {
					uu.Rcpt = r
				}
				_, total, valid := shares(&uu)
				if valid && ten.Method == "native" {
					k := u.Denom
					if bal[k] == nil {
						bal[k] = new(big.Int).Set(c.pre.BalOf(fmt.Sprintf("t%d", t), k))
					}
					if uu.Amt.Sign() < 0 || bal[k].Cmp(total) < 0 {
						break
					}
					bal[k].Sub(bal[k], total)
				}
				exp = append(exp, u.Id)
			}
			if wasArmed {
				br["c11:block-with-fault"]++
				// a fault may stop the queue early, never reorder it or skip inside it
				if len(gs) > len(exp) || fmt.Sprint(gs) != fmt.Sprint(exp[:len(gs)]) {
					out = append(out, viol("C11", "fifo-under-fault", c.i, "tenant %d resolved %v, queue order allows prefix of %v", t, gs, exp))
				}
				if len(gs) < len(exp) {
					br["c11:fault-deferred"]++
				}
			} else {
				if fmt.Sprint(gs) != fmt.Sprint(exp) {
					key := "fifo"
					if len(gs) < len(exp) {
						key = "not-paid-when-eligible"
					}
					out = append(out, viol("C11", key, c.i, "tenant %d resolved %v at height %d, expected %v", t, gs, c.pre.H, exp))
				}
				if len(exp) > 0 {
					br["c11:resolved"]++
				}
				if len(q) > len(exp) {
					br["c11:queue-left"]++
				}
			}
			// records that stay pending are unchanged (except recipients filled by the tally)
			for _, u := range q {
				v := c.post.Utxr(u.Tenant, u.Id)
				if v == nil {
					continue
				}
				if v.Req != u.Req || v.Amt.Cmp(u.Amt) != 0 || v.Denom != u.Denom || v.Nft != u.Nft || v.Created != u.Created {
					out = append(out, viol("C11", "pending-changed", c.i, "pending record %d:%d changed in end-block", u.Tenant, u.Id))
				}
			}
		}
	})
	return out
}

// ---------- C12 ----------

func monC12(tr *Trace, br map[string]int) (out []Violation) {
	maxIssued := map[uint64]int64{}
	walk(tr, func(c *ctxStep) {
		if c.op[0] == "reimport" {
			maxIssued = map[uint64]int64{} // the statement is about one chain lifetime
		}
		if c.op[0] == "record" && c.res[0] == "ok" {
			t := pu(c.op[2])
			req := c.op[3]
			for _, u := range c.pre.Utxrs {
				if u.Tenant == t && u.Req == req {
					out = append(out, viol("C12", "duplicate-pending", c.i, "request id %s recorded while record %d:%d with the same id is pending", req, u.Tenant, u.Id))
				}
			}
			ids := resKV(c.res, "id")
			if len(ids) == 1 {
				id := int64(pu(ids[0]))
				if last, ok := maxIssued[t]; ok && id <= last {
					out = append(out, viol("C12", "id-not-increasing", c.i, "tenant %d issued id %d after %d", t, id, last))
				}
				maxIssued[t] = id
				br["c12:issued"]++
			}
		}
		if c.op[0] == "record" && c.res[0] == "err" {
			t := pu(c.op[2])
			for _, u := range c.pre.Utxrs {
				if u.Tenant == t && u.Req == c.op[3] {
					br["c12:duplicate-refused"]++
				}
			}
		}
		// query-level agreement of lookup and list
		s := c.post
		listed := map[string]uint64{}
		for _, u := range s.Utxrs {
			k := fmt.Sprintf("%d|%s", u.Tenant, u.Req)
			if _, dup := listed[k]; dup {
				out = append(out, viol("C12", "two-pending-same-request", c.i, "two pending records for %s", k))
			}
			listed[k] = u.Id
		}
		for k, id := range s.Index {
			p := strings.SplitN(k, "|", 2)
			u := s.Utxr(pu(p[0]), id)
			if u == nil {
				// the by-request-id index names a record that is not pending: index and list describe different sets
				out = append(out, viol("C12", "index-entry-without-record", c.i, "the request-id index of tenant %s holds %q -> %d, and no such record is pending", p[0], p[1], id))
				continue
			}
			if u.Req != p[1] {
				out = append(out, viol("C12", "lookup-wrong-record", c.i, "lookup of %s returns record %d with request id %s", k, id, u.Req))
			}
		}
		for k, id := range listed {
			if got, ok := s.Index[k]; !ok || got != id {
				out = append(out, viol("C12", "lookup-misses-pending", c.i, "pending record %s (id %d) not found by request id", k, id))
			}
		}
		// the same at the query servers: Query/UTXR answers exactly for pending request ids, with that record; Query/UTXRs lists the pending records
		for k, got := range s.QLookup {
			var want *Utxr
			for _, u := range s.Utxrs {
				if fmt.Sprintf("%d|%s", u.Tenant, u.Req) == k {
					want = u
				}
			}
			br["c12:query-lookups"]++
			switch {
			case want == nil && got != nil:
				out = append(out, viol("C12", "query-answers-nonpending", c.i, "Query/UTXR %s answers with a record (request id %s) although none is pending under that id", k, got.Req))
			case want != nil && got == nil:
				out = append(out, viol("C12", "query-misses-pending", c.i, "Query/UTXR %s finds nothing although record %d is pending", k, want.Id))
			case want != nil && (got.Req != want.Req || got.Amt.Cmp(want.Amt) != 0 || got.Created != want.Created || got.Nft != want.Nft):
				out = append(out, viol("C12", "query-wrong-record", c.i, "Query/UTXR %s returns request id %s amount %s, pending is %s amount %s", k, got.Req, got.Amt, want.Req, want.Amt))
			}
		}
		for t, items := range s.QList {
			var want []string
			for _, u := range s.Utxrs {
				if u.Tenant == t {
					want = append(want, u.Req+"*"+u.Amt.String()+"*"+u.Nft+"*"+fmt.Sprint(u.Created)+"*"+rcptKey(u.Rcpt))
				}
			}
			if strings.Join(want, ",") != strings.Join(items, ",") {
				out = append(out, viol("C12", "query-list-differs", c.i, "Query/UTXRs of tenant %d lists %s, pending are %s", t, strings.Join(items, ","), strings.Join(want, ",")))
			}
		}
	})
	return out
}

// ---------- C18 (chain engine) ----------

// commitment is the monitor's own reading of the statement: SHA-256 over the salt followed by the revealed entries, exactly as revealed.
func commitment(salt string, vdTok string) string {
	var sb strings.Builder
	sb.WriteString(salt)
	if vdTok != "-" {
		for _, part := range strings.Split(vdTok, ";") {
			if len(part) <= 2 {
				continue
			}
			for _, e := range strings.Split(part[2:], ",") {
				sb.WriteString(decTok(e))
			}
		}
	}
	h := sha256.Sum256([]byte(sb.String()))
	return strings.ToUpper(hex.EncodeToString(h[:]))
}

// every accepted reveal opens the prevote the same validator holds: same round, and the prevote is the commitment to (salt, entries)
func monC18(tr *Trace, br map[string]int) (out []Violation) {
	walk(tr, func(c *ctxStep) {
		if c.op[0] != "vote" || len(c.op) < 6 || c.res[0] != "ok" {
			return
		}
		br["c18:accepted-reveal"]++
		held, ok := c.pre.Prevotes[c.op[2]]
		if !ok {
			out = append(out, viol("C18", "reveal-without-prevote", c.i, "vote of %s accepted although it holds no prevote", c.op[2]))
			return
		}
		want := commitment(decTok(c.op[3]), c.op[5])
		if !strings.EqualFold(decTok(held), want) {
			out = append(out, viol("C18", "reveal-does-not-open-prevote", c.i, "vote of %s (salt %s, data %s) accepted against prevote %s; its commitment is %s", c.op[2], c.op[3], c.op[5], held, want))
		}
	})
	return out
}

func rcptKey(rs []Rcpt) string {
	if len(rs) == 0 {
		return "-"
	}
	var out []string
	for _, r := range rs {
		out = append(out, fmt.Sprintf("%s^%d", r.Addr, r.Weight))
	}
	return strings.Join(out, "+")
}

// ---------- C14 ----------

func monC14(tr *Trace, br map[string]int) (out []Violation) {
	one := new(big.Int).Exp(big.NewInt(10), big.NewInt(18), nil)
	walk(tr, func(c *ctxStep) {
		if c.op[0] != "block" || c.res[0] != "ok" {
			return
		}
		// the distribution account holds exactly what the module owes: whatever reaches it in a block is matched by new liabilities
		// (outstanding rewards, community pool) of the same amount
		dden := map[string]bool{}
		for _, st := range []*State{c.pre, c.post} {
			for k := range st.Bal {
				if strings.HasPrefix(k, "distr|") {
					dden[k[6:]] = true
				}
			}
		}
		for d := range dden {
			dd := new(big.Int).Sub(c.post.BalOf("distr", d), c.pre.BalOf("distr", d))
			dl := big.NewInt(0)
			for i := range c.pre.Vals {
				k := fmt.Sprintf("v%d|%s", i, d)
				for sign, m := range map[int]map[string]*big.Int{1: c.post.Outst, -1: c.pre.Outst} {
					if v := m[k]; v != nil {
						dl.Add(dl, new(big.Int).Mul(v, big.NewInt(int64(sign))))
					}
				}
			}
			if v := c.post.Comm[d]; v != nil {
				dl.Add(dl, v)
			}
			if v := c.pre.Comm[d]; v != nil {
				dl.Sub(dl, v)
			}
			if new(big.Int).Mul(dd, one).Cmp(dl) != 0 {
				out = append(out, viol("C14", "distribution-account-unbacked-change", c.i, "the distribution account moved by %s %s in this block, its liabilities by %s/10^18", dd, d, dl))
			}
		}
		denoms := map[string]bool{}
		for k := range c.pre.Bal {
			if strings.HasPrefix(k, "pool|") {
				denoms[k[5:]] = true
			}
		}
		for d := range denoms {
			dp := new(big.Int).Sub(c.post.BalOf("pool", d), c.pre.BalOf("pool", d))
			dd := new(big.Int).Sub(c.post.BalOf("distr", d), c.pre.BalOf("distr", d))
			if dp.Sign() > 0 {
				out = append(out, viol("C14", "pool-grew", c.i, "reward pool grew by %s %s in end-block", dp, d))
			}
			if new(big.Int).Add(dp, dd).Sign() != 0 {
				out = append(out, viol("C14", "transfer-mismatch", c.i, "pool moved %s but distribution account moved %s (%s)", dp, dd, d))
			}
			credited := big.NewInt(0)
			for i := range c.pre.Vals {
				k := fmt.Sprintf("v%d|%s", i, d)
				a, b := c.pre.Outst[k], c.post.Outst[k]
				if a == nil {
					a = big.NewInt(0)
				}
				if b == nil {
					b = big.NewInt(0)
				}
				credited.Add(credited, new(big.Int).Sub(b, a))
			}
			a, b := c.pre.Comm[d], c.post.Comm[d]
			if a == nil {
				a = big.NewInt(0)
			}
			if b == nil {
				b = big.NewInt(0)
			}
			credited.Add(credited, new(big.Int).Sub(b, a))
			if new(big.Int).Mul(dd, one).Cmp(credited) != 0 {
				out = append(out, viol("C14", "credit-mismatch", c.i, "distribution account received %s %s but was credited liabilities of %s/10^18", dd, d, credited))
			}
			// "in proportion to their voting power, rounded down": a rewarded validator that is not pro bono is never credited more
			// than its exact share pool * w / W of what the pool held
			if dd.Sign() > 0 && isTally(c.pre) {
				t := computeTally(c.pre)
				charged := map[int]bool{}
				for i, es := range t.revealed {
					for e := range es {
						if acc, ok := t.accepted[e.nft]; !ok || acc != e.owner {
							charged[i] = true
						}
					}
				}
				W := big.NewInt(0)
				for i := range c.pre.Vals {
					if t.active[i] && !charged[i] {
						W.Add(W, t.pw[i])
					}
				}
				pool := c.pre.BalOf("pool", d)
				for i, v := range c.pre.Vals {
					if !t.active[i] || charged[i] || (v.Probono != "" && v.Probono != "-") || W.Sign() == 0 {
						continue
					}
					k := fmt.Sprintf("v%d|%s", i, d)
					a, b := c.pre.Outst[k], c.post.Outst[k]
					if a == nil {
						a = big.NewInt(0)
					}
					if b == nil {
						b = big.NewInt(0)
					}
					got := new(big.Int).Sub(b, a) // in 10^-18 units
					lhs := new(big.Int).Mul(got, W)
					rhs := new(big.Int).Mul(new(big.Int).Mul(pool, t.pw[i]), one)
					br["c14:share-checked"]++
					if lhs.Cmp(rhs) > 0 {
						out = append(out, viol("C14", "share-above-proportion", c.i, "validator v%d (power %s of %s) credited %s/10^18 %s from a pool of %s: more than its proportional share", i, t.pw[i], W, got, d, pool))
					}
				}
			}
			if dd.Sign() > 0 {
				br["c14:reward-paid"]++
				if new(big.Int).Mod(credited, one).Sign() != 0 {
					br["c14:fractional"]++
				}
			}
		}
	})
	return out
}

// ---------- C15 ----------

func monC15(tr *Trace, br map[string]int) (out []Violation) {
	walk(tr, func(c *ctxStep) {
		if c.op[0] != "block" || c.res[0] != "ok" {
			return
		}
		s := c.pre
		if s.VP == 0 || s.Window == 0 {
			return
		}
		jailedNow := resKV(c.res, "jailed")
		if !isTally(s) {
			if len(jailedNow) > 0 {
				out = append(out, viol("C15", "jail-off-tally", c.i, "validators %v jailed at non-tally height %d", jailedNow, s.H))
			}
			if fmt.Sprint(sortedU(c.post.Miss)) != fmt.Sprint(sortedU(s.Miss)) {
				out = append(out, viol("C15", "miss-changed-off-tally", c.i, "miss counters changed at non-tally height %d", s.H))
			}
			return
		}
		t := computeTally(s)
		charged := map[int]bool{}
		for i, es := range t.revealed {
			for e := range es {
				if acc, ok := t.accepted[e.nft]; !ok || acc != e.owner {
					charged[i] = true
				}
			}
		}
		h, W, R := s.H, s.Window, 2*s.VP
		closes := false
		if h >= R {
			closes = h/W > (h-R)/W
		} else {
			closes = h/W > 0
		}
		// miss counters keyed by the voter string: fold to validator index
		preMiss := map[int]uint64{}
		for k, v := range s.Miss {
			preMiss[valIndex(k)] += v
		}
		postMiss := map[int]uint64{}
		for k, v := range c.post.Miss {
			postMiss[valIndex(k)] += v
		}
		if closes {
			br["c15:window-closed"]++
			if len(c.post.Miss) != 0 {
				out = append(out, viol("C15", "window-not-closed", c.i, "tally at height %d closes a slash window (period %d, window %d) but miss counters remain: %v", h, s.VP, W, c.post.Miss))
			}
			var want []string
			for i, v := range s.Vals {
				m := preMiss[i]
				if charged[i] {
					m++
				}
				if m > s.MaxMiss && v.Bonded && !v.Jailed {
					want = append(want, fmt.Sprintf("v%d", i))
				}
			}
			sort.Strings(want)
			got := append([]string{}, jailedNow...)
			sort.Strings(got)
			if fmt.Sprint(want) != fmt.Sprint(got) {
				out = append(out, viol("C15", "slash-set", c.i, "window closing at %d: expected %v slashed and jailed, got %v", h, want, got))
			}
			if len(want) > 0 {
				br["c15:slashed"]++
			}
		} else {
			br["c15:tally-inside-window"]++
			if len(jailedNow) > 0 {
				out = append(out, viol("C15", "jail-inside-window", c.i, "validators %v jailed at height %d although no window closes", jailedNow, h))
			}
			for i := range s.Vals {
				want := preMiss[i]
				if charged[i] {
					want++
				}
				if postMiss[i] != want {
					out = append(out, viol("C15", "miss-count", c.i, "validator v%d miss counter %d -> %d at height %d, expected %d (charged=%v)", i, preMiss[i], postMiss[i], h, want, charged[i]))
				}
			}
			if len(charged) > 0 {
				br["c15:miss-charged"]++
			}
		}
	})
	return out
}

func sortedU(m map[string]uint64) []string {
	var out []string
	for k, v := range m {
		out = append(out, fmt.Sprintf("%s=%d", k, v))
	}
	sort.Strings(out)
	return out
}

// ---------- C17 ----------

func genesisLines(d []string) []string {
	var out []string
	for _, l := range d {
		if len(l) < 2 {
			continue
		}
		switch {
		case strings.HasPrefix(l, "SP "), strings.HasPrefix(l, "OP "), strings.HasPrefix(l, "T "), strings.HasPrefix(l, "U "),
			strings.HasPrefix(l, "P "), strings.HasPrefix(l, "V "), strings.HasPrefix(l, "M "), strings.HasPrefix(l, "F "):
			out = append(out, l)
		}
	}
	return out
}

// importPanicKey names the one cause of a refused import that is recorded as a known finding - oracle parameters that governance
// stored and that do not fit together - apart from every other one
func importPanicKey(dump []string) string {
	st := Parse(dump)
	if st.VP != 0 && st.Window != 0 && (st.VP > st.Window || st.Window%st.VP != 0 || st.MaxMiss >= st.Window) {
		return "import-panics-inconsistent-oracle-params"
	}
	return "import-panics"
}

func monC17(tr *Trace, br map[string]int) (out []Violation) {
	var last []string = tr.Init
	for i, s := range tr.Steps {
		if strings.HasPrefix(s.Op, "genesis") {
			br["c17:roundtrip"]++
			f := strings.Fields(s.Res)
			if f[0] == "panic" {
				out = append(out, viol("C17", importPanicKey(last), i, "import of the exported genesis panics: %s", s.Detail))
				continue
			}
			if f[0] != "ok" || len(f) < 2 || (f[1] != "same" && f[1] != "restricted-message-admitted-after-restart") {
				out = append(out, viol("C17", "re-export-differs", i, "second export differs: %s %.400s", s.Res, s.Detail))
			}
			a, b := genesisLines(last), genesisLines(s.Dump)
			// the id counter may legitimately be absent for tenants without records; compare the rest exactly
			if strings.Join(a, "\n") != strings.Join(b, "\n") {
				out = append(out, viol("C17", "state-differs", i, "imported state differs from exported state:\n- %s\n+ %s", strings.Join(diffLines(a, b), "\n- "), strings.Join(diffLines(b, a), "\n+ ")))
			}
			st := Parse(last)
			if len(st.Utxrs) > 0 {
				br["c17:with-records"]++
			}
			if len(st.Feeders) > 0 {
				br["c17:with-delegations"]++
			}
			continue
		}
		if strings.HasPrefix(s.Op, "reimport") {
			br["c17:restart"]++
			if strings.HasPrefix(s.Res, "panic") {
				out = append(out, viol("C17", importPanicKey(last), i, "import of the exported genesis panics: %s", s.Detail))
			} else if s.Dump != nil {
				a, b := genesisLines(last), genesisLines(s.Dump)
				if strings.Join(a, "\n") != strings.Join(b, "\n") {
					out = append(out, viol("C17", "state-differs", i, "state after a restart from the export differs:\n- %s\n+ %s", strings.Join(diffLines(a, b), "\n- "), strings.Join(diffLines(b, a), "\n+ ")))
				}
			}
		}
		if s.Dump != nil {
			last = s.Dump
		}
	}
	return out
}

func diffLines(a, b []string) []string {
	in := map[string]bool{}
	for _, l := range b {
		in[l] = true
	}
	var out []string
	for _, l := range a {
		if !in[l] {
			out = append(out, l)
		}
	}
	return out
}

// ---------- C19 ----------

func monC19(tr *Trace, br map[string]int) (out []Violation) {
	stored := map[string]string{} // stored token identity -> submitted numeric value
	walk(tr, func(c *ctxStep) {
		// the NFTs presented to the feeders are the NFTs recorded: a record that has waited for its owner for a whole round is among
		// the published sources under its own identity (chain, contract and token)
		if r := c.post.Round; c.op[0] == "block" && r != nil && r.VE >= int64(r.Id) {
			period := uint64(r.VE) - r.Id + 1
			src := map[string]bool{}
			for _, it := range r.Src {
				if k := strings.IndexByte(it, ':'); k >= 0 {
					src[decTok(it[k+1:])] = true
				}
			}
			// the description is made at the end of block H-1 from the records created before the start of that block's round
			last := c.post.H - 1
			start := last - last%period
			for _, u := range c.post.Utxrs {
				if len(u.Rcpt) == 0 && start > 0 && u.Created <= start-1 && len(c.res) > 0 && c.res[0] == "ok" {
					br["c19:waiting-record-in-sources"]++
					if !src[decTok(u.Nft)] {
						out = append(out, viol("C19", "waiting-nft-not-presented", c.i, "record %d:%d waits for the owner of %s since block %d; the description published for round %d lists %v", u.Tenant, u.Id, decTok(u.Nft), u.Created, r.Id, r.Src))
					}
				}
			}
		}
		if c.op[0] != "record" || c.res[0] != "ok" {
			return
		}
		chain, contract, token := decTok(c.op[6]), decTok(c.op[7]), decTok(c.op[8])
		wantContract := normHex20(contract)
		tv := tokenValue(token)
		nfts := resKV(c.res, "nft")
		if len(nfts) != 1 {
			return
		}
		p := strings.Split(nfts[0], "/")
		if len(p) != 3 {
			return
		}
		br["c19:record"]++
		if decTok(p[0]) != chain {
			out = append(out, viol("C19", "chain-changed", c.i, "chain id %q recorded as %q", chain, decTok(p[0])))
		}
		if p[1] != wantContract {
			out = append(out, viol("C19", "contract-changed", c.i, "contract %q recorded as %s", contract, p[1]))
		}
		sv := tokenValue(p[2])
		if sv.Cmp(tv) != 0 {
			key := "token-changed"
			if tv.BitLen() > 160 {
				key = "token-truncated-160"
			}
			out = append(out, viol("C19", key, c.i, "token id %s (value %s) recorded as %s", token, tv.Text(16), p[2]))
		}
		if prev, ok := stored[p[1]+"/"+p[2]]; ok && prev != tv.String() {
			key := "token-collapse"
			if tv.BitLen() > 160 || bigOf(prev).BitLen() > 160 {
				key = "token-truncated-160"
			}
			out = append(out, viol("C19", key, c.i, "two different token ids (%s, %s) share stored identity %s", prev, tv, p[2]))
		}
		stored[p[1]+"/"+p[2]] = tv.String()
		if tv.BitLen() > 160 {
			br["c19:wide-token"]++
		}
		// the record as listed and the NFT later published carry the same identity
		ids := resKV(c.res, "id")
		if len(ids) == 1 {
			if u := c.post.Utxr(pu(c.op[2]), pu(ids[0])); u != nil && u.Nft != nfts[0] {
				out = append(out, viol("C19", "stored-differs-from-event", c.i, "event shows %s, store has %s", nfts[0], u.Nft))
			}
		}
	})
	return out
}
