package monitor

import (
	"fmt"
	"math/big"
	"sort"
	"strings"
)

// RunPure evaluates the monitors of the pure engine.
func RunPure(tr *Trace, props string, br map[string]int) []Violation {
	want := map[string]bool{}
	for _, p := range strings.Split(props, ",") {
		if p != "" {
			want[p] = true
		}
	}
	var out []Violation
	on := func(id string) bool { return len(want) == 0 || want[id] }
	if on("C18") {
		out = append(out, pureC18(tr, br)...)
	}
	if on("C19") {
		out = append(out, pureC19(tr, br)...)
	}
	if on("C20") {
		out = append(out, pureC20(tr, br)...)
	}
	if on("C06") {
		for i, s := range tr.Steps {
			if s.Res == "panic" {
				out = append(out, viol("C06", "panic-"+strings.Fields(s.Op)[0], i, "panic in %s", s.Op))
			}
		}
	}
	return out
}

func pureC18(tr *Trace, br map[string]int) (out []Violation) {
	type opening struct {
		salt, vd string
		step     int
	}
	valid := map[string]bool{}
	for _, s := range tr.Steps {
		f := strings.Fields(s.Op)
		if f[0] == "validvd" && s.Res == "ok true" && f[2] == "=1,=137" {
			valid[f[1]] = true
		}
	}
	byHash := map[string][]opening{}
	for i, s := range tr.Steps {
		f := strings.Fields(s.Op)
		if f[0] != "hash" || !strings.HasPrefix(s.Res, "ok ") {
			continue
		}
		if !valid[f[2]] {
			continue
		}
		br["c18:accepted-opening"]++
		h := strings.Fields(s.Res)[1]
		for _, o := range byHash[h] {
			if o.salt != f[1] || o.vd != f[2] {
				// what the commitment is documented to cover: the salt followed by every entry
				committed := func(salt, vd string) (string, bool) {
					b := decTok(salt)
					wellFormed := true
					for _, d := range parseVD(vd) {
						for _, e := range d.entries {
							b += e
							if _, _, ok := parseEntry(e); !ok || strings.Count(e, ":") != 1 {
								wellFormed = false
							}
						}
					}
					return b, wellFormed
				}
				b1, w1 := committed(o.salt, o.vd)
				b2, w2 := committed(f[1], f[2])
				key := "concat-ambiguity" // the same byte string cut differently into salt and well-formed entries (known finding)
				if b1 != b2 {
					key = "hash-ignores-data" // different committed byte strings, same hash: part of the vote is not covered
				} else if !w1 || !w2 {
					key = "opening-with-malformed-entry" // one of the openings is only acceptable because a malformed entry passes validation
				}
				out = append(out, viol("C18", key, i, "two different acceptable openings share commitment %s: (salt %s, data %s) and (salt %s, data %s)", h, o.salt, o.vd, f[1], f[2]))
			}
		}
		byHash[h] = append(byHash[h], opening{f[1], f[2], i})
	}
	return out
}

func hexVal(s string) (*big.Int, bool) {
	t := strings.TrimPrefix(strings.TrimPrefix(s, "0x"), "0X")
	if t == "" {
		return big.NewInt(0), true
	}
	b, ok := new(big.Int).SetString(t, 16)
	if !ok || strings.ContainsAny(t, "+-_ ") {
		return nil, false
	}
	return b, true
}

// multiChainRound: one round's sources on several chains - each entry carries its own source and the answer of the chain its NFT is on
func multiChainRound(prop string, i int, f []string, res string, br map[string]int) (out []Violation) {
	ids, owners := strings.Split(f[1], ","), strings.Split(f[2], ",")
	byChain := map[string]string{}
	for k, t := range ids {
		p := strings.SplitN(decTok(t), "/", 2)
		if _, have := byChain[p[0]]; !have && k < len(owners) {
			byChain[p[0]] = decTok(owners[k])
		}
	}
	if !strings.HasPrefix(res, "ok ") {
		return nil
	}
	br[strings.ToLower(prop)+":multi-chain-round"]++
	got := strings.Split(strings.Fields(res)[1], ",")
	for k, t := range ids {
		if k >= len(got) {
			break
		}
		id := decTok(t)
		chain := strings.SplitN(id, "/", 2)[0]
		e := decTok(got[k])
		if !strings.HasPrefix(e, id+":") {
			out = append(out, viol(prop, "entry-names-other-nft", i, "entry %d of the round is %q, its source is %q", k, e, id))
			continue
		}
		ov, ok1 := hexVal(byChain[chain])
		gv, ok2 := hexVal(strings.TrimPrefix(e, id+":"))
		if ok1 && ok2 && ov.Cmp(gv) != 0 {
			out = append(out, viol(prop, "owner-from-other-chain", i, "entry %q carries owner %s, chain %s answered %s: the NFT was looked up on another chain", e, strings.TrimPrefix(e, id+":"), chain, byChain[chain]))
		}
	}
	return out
}

func pureC19(tr *Trace, br map[string]int) (out []Violation) {
	for i, st := range tr.Steps {
		if f := strings.Fields(st.Op); len(f) >= 3 && f[0] == "fmtentries" {
			out = append(out, multiChainRound("C19", i, f, st.Res, br)...)
		}
	}
	two160 := new(big.Int).Lsh(big.NewInt(1), 160)
	seen := map[string]*big.Int{}
	for i, s := range tr.Steps {
		f := strings.Fields(s.Op)
		if f[0] == "ownerof" && strings.HasPrefix(s.Res, "ok ") {
			// the feeder's lookup must name the NFT it was asked about: same contract, the token id's value as a 32-byte word
			tok := decTok(f[2])
			v, ok := hexVal(tok)
			if !ok || v.BitLen() > 256 {
				continue
			}
			br["c19:owner-lookup"]++
			wantData := "0x6352211e" + fmt.Sprintf("%064x", v)
			wantTo := strings.ToLower(decTok(f[1]))
			if !strings.HasPrefix(wantTo, "0x") {
				wantTo = "0x" + wantTo
			}
			got := strings.Fields(s.Res)
			if len(got) != 3 || decTok(strings.TrimPrefix(got[1], "to=")) != wantTo || decTok(strings.TrimPrefix(got[2], "data=")) != wantData {
				out = append(out, viol("C19", "lookup-names-other-nft", i, "owner lookup for contract %s token %s sends %s, expected to=%s data=%s", decTok(f[1]), tok, s.Res, wantTo, wantData))
			}
			continue
		}
		if f[0] != "normhex" || !strings.HasPrefix(s.Res, "ok ") {
			continue
		}
		in := decTok(f[1])
		v, ok := hexVal(in)
		if !ok || len(strings.TrimPrefix(strings.TrimPrefix(in, "0x"), "0X")) > 64 {
			continue
		}
		br["c19:normalised"]++
		o, _ := hexVal(strings.Fields(s.Res)[1])
		if v.Cmp(two160) < 0 {
			if o.Cmp(v) != 0 {
				out = append(out, viol("C19", "value-changed", i, "hex value %s normalised to %s", in, strings.Fields(s.Res)[1]))
			}
		} else {
			br["c19:wide"]++
			if o.Cmp(v) != 0 {
				out = append(out, viol("C19", "token-truncated-160", i, "%d-bit value %s normalised to %s", v.BitLen(), in, strings.Fields(s.Res)[1]))
			}
		}
		if prev, ok := seen[strings.Fields(s.Res)[1]]; ok && prev.Cmp(v) != 0 && prev.Cmp(two160) < 0 && v.Cmp(two160) < 0 {
			out = append(out, viol("C19", "collapse", i, "distinct values %s and %s share identity %s", prev.Text(16), v.Text(16), strings.Fields(s.Res)[1]))
		}
		seen[strings.Fields(s.Res)[1]] = v
	}
	return out
}

func pureC20(tr *Trace, br map[string]int) (out []Violation) {
	two160 := new(big.Int).Lsh(big.NewInt(1), 160)
	for i, s := range tr.Steps {
		f := strings.Fields(s.Op)
		switch f[0] {
		case "fhash":
			if i > 0 && strings.HasPrefix(tr.Steps[i-1].Op, "hash ") && strings.Fields(tr.Steps[i-1].Op)[1] == f[1] && strings.Fields(tr.Steps[i-1].Op)[2] == f[2] {
				br["c20:hash-compared"]++
				if tr.Steps[i-1].Res != s.Res {
					out = append(out, viol("C20", "hash-mismatch", i, "feeder hash %s differs from chain hash %s for salt %s data %s", s.Res, tr.Steps[i-1].Res, f[1], f[2]))
				}
			}
		case "fmtentries":
			out = append(out, multiChainRound("C20", i, f, s.Res, br)...)
		case "parseentry":
			if i < 2 || !strings.HasPrefix(tr.Steps[i-1].Op, "fmtentry ") || !strings.HasPrefix(tr.Steps[i-2].Op, "parsenft ") {
				continue
			}
			fe := strings.Fields(tr.Steps[i-1].Op)
			id, owner := decTok(fe[1]), decTok(fe[2])
			ov, okHex := hexVal(owner)
			pn := tr.Steps[i-2].Res
			if !strings.HasPrefix(pn, "ok ") || !okHex || ov.Cmp(two160) >= 0 || strings.HasPrefix(owner, "0X") {
				continue // not an NFT source the chain publishes / not an address an external chain returns
			}
			// a chain id with a separator cannot be configured (checked on sparams below), so it is never published
			if strings.Count(id, "/") != 2 || strings.Contains(id, ":") {
				continue
			}
			publishable := true
			br["c20:entry-roundtrip"]++
			wantNft := strings.Fields(pn)[1]
			wantOwner := fmt.Sprintf("0x%040x", ov)
			got := strings.Fields(s.Res)
			if s.Res == "panic" || got[0] != "ok" || got[1] != wantNft || got[2] != wantOwner {
				key := "entry-roundtrip"
				if !publishable {
					key = "entry-roundtrip-chainid-separator"
				}
				out = append(out, viol("C20", key, i, "feeder entry for %q owner %q parses on chain as %q, expected %s %s", id, owner, s.Res, wantNft, wantOwner))
			}
		}
	}
	for i, s := range tr.Steps {
		f := strings.Fields(s.Op)
		if f[0] == "sparams" && f[1] != "-" {
			sep := false
			for _, c := range strings.Split(f[1], ",") {
				if strings.ContainsAny(decTok(c), "/:") {
					sep = true
				}
			}
			if sep {
				br["c20:separator-chainid"]++
				if s.Res == "ok" {
					out = append(out, viol("C20", "separator-chainid-accepted", i, "parameter validation accepts a chain id containing '/' or ':' (%s); the feeder's entries for it do not parse on the chain", f[1]))
				}
			}
		}
	}
	out = append(out, cacheMonitor(tr, br)...)
	return out
}

type centry struct {
	ts   uint64
	hash string
	num  string
}

func cacheMonitor(tr *Trace, br map[string]int) (out []Violation) {
	var capn int
	var ents []centry
	for i, s := range tr.Steps {
		f := strings.Fields(s.Op)
		switch f[0] {
		case "cnew":
			capn = int(pu(f[1]))
			ents = nil
		case "cput":
			ts := pu(f[3])
			replaced := false
			for k := range ents {
				if ents[k].ts == ts {
					ents[k] = centry{ts, f[1], f[2]}
					replaced = true
				}
			}
			if !replaced {
				ents = append(ents, centry{ts, f[1], f[2]})
			}
			sort.Slice(ents, func(a, b int) bool { return ents[a].ts < ents[b].ts })
			for len(ents) > capn {
				ents = ents[1:]
				br["c20:cache-evict"]++
			}
		case "cget":
			q := pu(f[1])
			want := "miss"
			for _, e := range ents {
				if e.ts >= q {
					want = "ok " + e.hash + " " + e.num
					break
				}
			}
			br["c20:cache-query"]++
			if want == "miss" {
				br["c20:cache-miss"]++
			}
			if s.Res != want {
				out = append(out, viol("C20", "cache-answer", i, "cache query %d answered %q, retained blocks %v require %q", q, s.Res, ents, want))
			}
		}
	}
	return out
}
