package monitor

import (
	"crypto/sha256"
	"encoding/hex"
	"math/big"
	"strconv"
	"strings"
)

type Rcpt struct {
	Addr   string
	Weight uint64
}

type Utxr struct {
	Tenant, Id uint64
	Req        string
	Amt        *big.Int
	AmtNil     bool
	Denom      string
	Nft        string // chain/contract40/token40
	Created    uint64
	Rcpt       []Rcpt
}

type Tenant struct {
	Id       uint64
	Admins   []string
	Denom    string
	Period   uint64
	Method   string
	Contract string
}

type Val struct {
	Tokens  *big.Int
	Bonded  bool
	Jailed  bool
	Probono string
}

type State struct {
	H        uint64
	PR       *big.Int
	CR       bool // constant power: every validator with tokens >= PR counts 1
	Fee      *big.Int
	Chains   []string
	Tenants  map[uint64]*Tenant
	TenantIx []uint64
	Utxrs    []*Utxr
	Index    map[string]uint64 // "tenant|req" -> id
	Last     map[uint64]uint64
	Bal      map[string]*big.Int // "holder|denom"
	VP       uint64
	Thr      *big.Int
	Frac     *big.Int
	Window   uint64
	MaxMiss  uint64
	Round    *RoundInfo
	Prevotes map[string]string
	Votes    map[string]string
	Miss     map[string]uint64
	Feeders  map[string]string
	Vals     []Val
	Outst    map[string]*big.Int // "v|denom"
	Comm     map[string]*big.Int
	QLookup  map[string]*Utxr    // by-request-id query: "tenant|request-id token" -> answer (nil: not found)
	QList    map[uint64][]string // list query per tenant: "request-id token*amount" in the order returned; absent: refused
}

type RoundInfo struct {
	Id     uint64
	PE, VE int64
	Src    []string
}

func kv(tok string) (string, string) {
	i := strings.IndexByte(tok, '=')
	if i < 0 {
		return tok, ""
	}
	return tok[:i], tok[i+1:]
}

func bigOf(s string) *big.Int {
	b, ok := new(big.Int).SetString(s, 10)
	if !ok {
		return big.NewInt(0)
	}
	return b
}

func pu(s string) uint64 {
	v, _ := strconv.ParseUint(s, 10, 64)
	return v
}

func parseRcpt(s string) []Rcpt {
	if s == "-" || s == "" {
		return nil
	}
	var out []Rcpt
	for _, p := range strings.Split(s, "+") {
		aw := strings.Split(p, "*")
		out = append(out, Rcpt{aw[0], pu(aw[1])})
	}
	return out
}

// Parse turns dump lines into a State.
func Parse(lines []string) *State {
	s := &State{Tenants: map[uint64]*Tenant{}, Index: map[string]uint64{}, Last: map[uint64]uint64{}, Bal: map[string]*big.Int{},
		Prevotes: map[string]string{}, Votes: map[string]string{}, Miss: map[string]uint64{}, Feeders: map[string]string{}, Outst: map[string]*big.Int{}, Comm: map[string]*big.Int{}, QLookup: map[string]*Utxr{}, QList: map[uint64][]string{}}
	for _, l := range lines {
		f := strings.Fields(l)
		if len(f) == 0 {
			continue
		}
		switch f[0] {
		case "Qu":
			if len(f) >= 4 {
				k := f[1] + "|" + f[2]
				if f[3] == "notfound" {
					s.QLookup[k] = nil
				} else {
					u := &Utxr{Tenant: pu(f[1]), Amt: big.NewInt(0)}
					for _, t := range f[3:] {
						a, b := kv(t)
						switch a {
						case "req":
							u.Req = b
						case "amt":
							u.Amt = bigOf(b)
						case "created":
							u.Created = pu(b)
						case "nft":
							u.Nft = b
						case "rcpt":
							u.Rcpt = parseRcpt(b)
						}
					}
					s.QLookup[k] = u
				}
			}
		case "QU":
			if len(f) >= 3 && f[2] != "err" {
				if f[2] == "-" {
					s.QList[pu(f[1])] = []string{}
				} else {
					s.QList[pu(f[1])] = strings.Split(f[2], ",")
				}
			}
		case "H":
			s.H = pu(f[1])
			for _, tok := range f[2:] {
				k, v := kv(tok)
				if k == "pr" {
					s.PR = bigOf(v)
				}
				if k == "cr" {
					s.CR = v == "1"
				}
			}
		case "SP":
			_, v := kv(f[1])
			s.Fee = bigOf(v)
			_, c := kv(f[2])
			if c != "-" {
				s.Chains = strings.Split(c, ",")
			}
		case "T":
			t := &Tenant{Id: pu(f[1])}
			for _, tok := range f[2:] {
				k, v := kv(tok)
				switch k {
				case "admins":
					if v != "-" {
						t.Admins = strings.Split(v, ",")
					}
				case "denom":
					t.Denom = v
				case "period":
					t.Period = pu(v)
				case "method":
					t.Method = v
				case "contract":
					t.Contract = v
				}
			}
			s.Tenants[t.Id] = t
			s.TenantIx = append(s.TenantIx, t.Id)
		case "U":
			u := &Utxr{Tenant: pu(f[1]), Id: pu(f[2])}
			for _, tok := range f[3:] {
				k, v := kv(tok)
				switch k {
				case "req":
					u.Req = v
				case "amt":
					if v == "nil" {
						u.AmtNil = true
						u.Amt = big.NewInt(0)
					} else {
						u.Amt = bigOf(v)
					}
				case "denom":
					u.Denom = v
				case "nft":
					u.Nft = v
				case "created":
					u.Created = pu(v)
				case "rcpt":
					u.Rcpt = parseRcpt(v)
				}
			}
			s.Utxrs = append(s.Utxrs, u)
		case "I":
			s.Index[f[1]+"|"+f[2]] = pu(f[3])
		case "L":
			s.Last[pu(f[1])] = pu(f[2])
		case "B":
			s.Bal[f[1]+"|"+f[2]] = bigOf(f[3])
		case "OP":
			for _, tok := range f[1:] {
				k, v := kv(tok)
				switch k {
				case "period":
					s.VP = pu(v)
				case "thr":
					s.Thr = bigOf(v)
				case "frac":
					s.Frac = bigOf(v)
				case "window":
					s.Window = pu(v)
				case "max":
					s.MaxMiss = pu(v)
				}
			}
		case "R":
			if f[1] == "none" {
				continue
			}
			r := &RoundInfo{}
			for _, tok := range f[1:] {
				k, v := kv(tok)
				switch k {
				case "id":
					r.Id = pu(v)
				case "pe":
					x, _ := strconv.ParseInt(v, 10, 64)
					r.PE = x
				case "ve":
					x, _ := strconv.ParseInt(v, 10, 64)
					r.VE = x
				case "src":
					if v != "-" {
						r.Src = strings.Split(v, ",")
					}
				}
			}
			s.Round = r
		case "P":
			s.Prevotes[f[1]] = f[2]
		case "V":
			s.Votes[f[1]] = f[2]
		case "M":
			s.Miss[f[1]] = pu(f[2])
		case "F":
			s.Feeders[f[1]] = f[2]
		case "S":
			v := Val{}
			for _, tok := range f[2:] {
				k, x := kv(tok)
				switch k {
				case "tokens":
					v.Tokens = bigOf(x)
				case "bonded":
					v.Bonded = x == "1"
				case "jailed":
					v.Jailed = x == "1"
				case "probono":
					v.Probono = x
				}
			}
			s.Vals = append(s.Vals, v)
		case "O":
			s.Outst[f[1]+"|"+f[2]] = bigOf(f[3])
		case "C":
			s.Comm[f[1]] = bigOf(f[2])
		}
	}
	return s
}

func (s *State) Utxr(t, id uint64) *Utxr {
	for _, u := range s.Utxrs {
		if u.Tenant == t && u.Id == id {
			return u
		}
	}
	return nil
}

func (s *State) BalOf(holder, denom string) *big.Int {
	if b, ok := s.Bal[holder+"|"+denom]; ok {
		return b
	}
	return big.NewInt(0)
}

// acctOf maps an account token to its account identity (spelling-insensitive).
func acctOf(tok string) string { return strings.ToLower(tok) }

// hexOfAcct gives the 0x-40-hex address of account tokens a0..a9 (byte i+1 repeated).
// moduleName: the module account behind the tokens mdistr / mpool / mcollector
var moduleName = map[string]string{"mdistr": "distribution", "mpool": "oracle", "mcollector": "fee_collector"}

func hexOfAcct(tok string) string {
	t := strings.ToLower(tok)
	if m, ok := moduleName[t]; ok {
		// a module account's address is the first 20 bytes of the SHA-256 of its name
		h := sha256.Sum256([]byte(m))
		return "0x" + hex.EncodeToString(h[:20])
	}
	if len(t) < 2 || t[0] != 'a' {
		return ""
	}
	i, err := strconv.Atoi(t[1:])
	if err != nil {
		return ""
	}
	b := []byte("0123456789abcdef")
	x := byte(i + 1)
	return "0x" + strings.Repeat(string([]byte{b[x>>4], b[x&15]}), 20)
}

// holderOfHex maps a 0x-40-hex address back to the dump's holder name when it is one of a0..a9.
func holderOfHex(h string) string {
	for i := 0; i < 10; i++ {
		n := "a" + strconv.Itoa(i)
		if hexOfAcct(n) == h {
			return n
		}
	}
	return h
}
