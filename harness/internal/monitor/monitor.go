// Package monitor holds the property monitors evaluated on the implementation's observed history.
// They are the search oracle for concrete failing inputs; they are not part of any proof.
package monitor

import "strings"

type Step struct {
	Op     string
	Res    string
	Detail string
	Dump   []string
}

type Trace struct {
	Engine string
	Init   []string
	Steps  []Step
}

type Violation struct {
	Property string `json:"property"`
	Key      string `json:"key"`
	Step     int    `json:"step"`
	What     string `json:"what"`
	History  string `json:"history"`
}

type monitorFn func(tr *Trace, br map[string]int) []Violation

var registry = map[string][]monitorFn{}

var anteRegistry = map[string][]monitorFn{}

func register(id string, f monitorFn)     { registry[id] = append(registry[id], f) }
func registerAnte(id string, f monitorFn) { anteRegistry[id] = append(anteRegistry[id], f) }

// Run evaluates the monitors of the given properties (all when props is empty).
func Run(tr *Trace, props string, br map[string]int) []Violation {
	var out []Violation
	want := map[string]bool{}
	for _, p := range strings.Split(props, ",") {
		if p != "" {
			want[p] = true
		}
	}
	reg := registry
	if tr.Engine == "ante" {
		reg = anteRegistry
	}
	for id, fs := range reg {
		if len(want) > 0 && !want[id] {
			continue
		}
		for _, f := range fs {
			out = append(out, f(tr, br)...)
		}
	}
	return out
}

// NonTrivial: the history contains at least one accepted state-changing message and at least one block.
func NonTrivial(tr *Trace) bool {
	okMsg, blk := false, false
	for _, s := range tr.Steps {
		k := strings.Fields(s.Op)[0]
		if k == "block" {
			blk = true
		}
		switch k {
		case "record", "cancel", "deposit", "createtenant", "prevote", "vote", "addadmin", "rmadmin", "setperiod", "consent", "tx":
			if strings.HasPrefix(s.Res, "ok") {
				okMsg = true
			}
		}
	}
	return okMsg && blk
}
