package monitor

import (
	"fmt"
	"math/big"
	"sort"
	"strings"
)

func init() {
	registerAnte("C03", monC03)
	registerAnte("C04", monC04)
	registerAnte("C16", monC16)
	registerAnte("C17", monC17)
	registerAnte("C14", monC14ante)
	registerAnte("C06", monC06)
	registerAnte("C10", monC10params)
}

// ---------- message expressions ----------

type mexpr struct {
	kind  string
	args  []string
	inner []*mexpr
}

type mparser struct {
	s string
	i int
}

func (p *mparser) peek() byte {
	if p.i < len(p.s) {
		return p.s[p.i]
	}
	return 0
}

func (p *mparser) msgs() []*mexpr {
	var out []*mexpr
	for p.i < len(p.s) && p.peek() != ']' {
		out = append(out, p.msg())
		if p.peek() == '|' {
			p.i++
		}
	}
	return out
}

func (p *mparser) msg() *mexpr {
	j := strings.IndexByte(p.s[p.i:], '(')
	m := &mexpr{kind: p.s[p.i : p.i+j]}
	p.i += j + 1
	for p.peek() != ')' {
		if p.peek() == '[' {
			p.i++
			m.inner = p.msgs()
			p.i++
		} else {
			k := p.i
			for p.peek() != '~' && p.peek() != ')' {
				p.i++
			}
			m.args = append(m.args, p.s[k:p.i])
		}
		if p.peek() == '~' {
			p.i++
		}
	}
	p.i++
	return m
}

func parseMsgs(s string) []*mexpr { return (&mparser{s: s}).msgs() }

func isSettlementKind(k string) bool {
	switch k {
	case "createtenant", "createtenantmc", "deposit", "record", "cancel", "addadmin", "rmadmin", "setperiod":
		return true
	}
	return false
}

func isOracleKind(k string) bool { return k == "prevote" || k == "vote" || k == "consent" }

// signerOf is the account the message itself names as its signer.
func signerOf(m *mexpr) string {
	switch m.kind {
	case "consent":
		return "o" + m.args[0][1:]
	case "ethtx":
		return ""
	}
	if len(m.args) == 0 {
		return ""
	}
	return m.args[0]
}

type txOp struct {
	signers []string
	payer   string
	fee     map[string]*big.Int
	gas     uint64
	msgs    []*mexpr
}

func parseTx(f []string) *txOp {
	t := &txOp{fee: map[string]*big.Int{}}
	var signers string
	for _, tok := range f[1:] {
		k, v := kv(tok)
		switch k {
		case "signers":
			signers = v
		case "payer":
			t.payer = v
		case "fee":
			if v != "-" && v != "" {
				for _, c := range strings.Split(v, ",") {
					ad := strings.SplitN(c, ":", 2)
					t.fee[ad[1]] = bigOf(ad[0])
				}
			}
		case "gas":
			t.gas = pu(v)
		case "msgs":
			t.msgs = parseMsgs(v)
		}
	}
	if signers == "auto" {
		seen := map[string]bool{}
		for _, m := range t.msgs {
			s := acctOf(signerOf(m))
			if s != "" && !seen[s] {
				seen[s] = true
				t.signers = append(t.signers, s)
			}
		}
		if t.payer != "-" && t.payer != "" && !seen[acctOf(t.payer)] {
			t.signers = append(t.signers, acctOf(t.payer))
		}
	} else {
		for _, s := range strings.Split(signers, ",") {
			t.signers = append(t.signers, acctOf(s))
		}
	}
	return t
}

func (t *txOp) signedBy(acct string) bool {
	for _, s := range t.signers {
		if s == acctOf(acct) {
			return true
		}
	}
	return false
}

func linesWith(d []string, prefixes ...string) []string {
	var out []string
	for _, l := range d {
		for _, p := range prefixes {
			if strings.HasPrefix(l, p) {
				out = append(out, l)
			}
		}
	}
	sort.Strings(out)
	return out
}

// TxAddressee: the one tenant every message of a transaction is addressed to (0: none, several, or a message that is not a
// settlement message addressed to a tenant).
func TxAddressee(f []string) int {
	t := parseTx(f)
	if len(t.msgs) == 0 {
		return 0
	}
	ten := 0
	for _, m := range t.msgs {
		switch m.kind {
		case "deposit", "record", "cancel", "addadmin", "rmadmin", "setperiod":
			if len(m.args) < 2 {
				return 0
			}
			k := int(pu(m.args[1]))
			if k == 0 || (ten != 0 && ten != k) {
				return 0
			}
			ten = k
		default:
			return 0
		}
	}
	return ten
}

// TxSeveralTenants: the transaction carries messages addressed to two or more tenants (it is all or nothing, so what becomes of one
// tenant's message in it depends, by construction, on the other's)
func TxSeveralTenants(f []string) bool {
	t := parseTx(f)
	seen := map[uint64]bool{}
	walkLeaves(t.msgs, 0, func(m *mexpr, _ int) {
		switch m.kind {
		case "deposit", "record", "cancel", "addadmin", "rmadmin", "setperiod":
			if len(m.args) >= 2 {
				seen[pu(m.args[1])] = true
			}
		}
	})
	return len(seen) >= 2
}

// ---------- C03 ----------

func monC03(tr *Trace, br map[string]int) (out []Violation) {
	// the delegation in force per validator spelling, as the history of accepted consents says (not as the store says)
	ref := map[string]string{}
	walk(tr, func(c *ctxStep) {
		if c.op[0] != "tx" {
			return
		}
		t := parseTx(c.op)
		if c.res[0] == "ok" {
			for _, m := range t.msgs {
				if m.kind == "consent" && len(m.args) >= 2 {
					v, f := m.args[0], strings.ToLower(m.args[1])
					ref[v] = f
					if got := c.post.Feeders[v]; got != f {
						out = append(out, viol("C03", "consent-not-in-force", c.i, "accepted consent of %s names feeder %s, the delegation in force afterwards is %q", v, f, got))
					}
				}
			}
		}
		for v := 0; v < 5; v++ {
			vt := fmt.Sprintf("v%d", v)
			VT := fmt.Sprintf("V%d", v)
			op := fmt.Sprintf("o%d", v)
			changedBallot := c.pre.Prevotes[vt] != c.post.Prevotes[vt] || c.pre.Votes[vt] != c.post.Votes[vt] || c.pre.Prevotes[VT] != c.post.Prevotes[VT] || c.pre.Votes[VT] != c.post.Votes[VT]
			changedDeleg := c.pre.Feeders[vt] != c.post.Feeders[vt] || c.pre.Feeders[VT] != c.post.Feeders[VT]
			feeder := op
			if f, ok := c.pre.Feeders[vt]; ok {
				feeder = f
			}
			if f, ok := ref[vt]; ok {
				feeder = f // the last accepted consent decides, whatever the store holds
			}
			if changedDeleg {
				br["c03:delegation-changed"]++
				if !t.signedBy(op) {
					out = append(out, viol("C03", "delegation-by-non-operator", c.i, "feeder delegation of %s changed by a transaction signed by %v", vt, t.signers))
				}
			}
			if changedBallot {
				br["c03:ballot-changed"]++
				if t.signedBy(op) {
					br["c03:ballot-by-operator"]++
				} else if t.signedBy(feeder) {
					br["c03:ballot-by-feeder"]++
				} else {
					shape := "plain"
					for _, m := range t.msgs {
						if m.kind == "exec" {
							shape = "exec"
						}
					}
					if len(t.msgs) > 1 && shape == "plain" {
						shape = "mixed"
					}
					out = append(out, viol("C03", "ballot-by-stranger-"+shape, c.i, "ballot of %s (operator %s, feeder %s) changed by a transaction signed by %v: %s", vt, op, feeder, t.signers, strings.Join(c.op, " ")))
				}
			}
		}
		if c.res[0] != "ok" {
			for _, m := range t.msgs {
				if isOracleKind(m.kind) {
					br["c03:oracle-tx-rejected"]++
					break
				}
			}
		}
	})
	return out
}

// ---------- C04 ----------

func walkLeaves(ms []*mexpr, depth int, f func(m *mexpr, depth int)) {
	for _, m := range ms {
		if m.kind == "exec" {
			walkLeaves(m.inner, depth+1, f)
		} else {
			f(m, depth)
		}
	}
}

func monC04(tr *Trace, br map[string]int) (out []Violation) {
	var gasPrices []gasPrice
	for _, gp := range defaultGasPrices {
		gasPrices = append(gasPrices, gasPrice{gp.denom, gp.num})
	}
	walk(tr, func(c *ctxStep) {
		gasPrices = pricesAfter(gasPrices, c)
		if c.op[0] == "genesis" {
			br["c04:first-block-after-restart"]++
			if strings.Contains(strings.Join(c.res, " "), "restricted-message-admitted-after-restart") {
				out = append(out, viol("C04", "restricted-admitted-after-restart", c.i, "%s", tr.Steps[c.i].Detail))
			}
		}
		if c.op[0] != "tx" {
			return
		}
		t := parseTx(c.op)
		nvPre, nvPost := lineVal(c.preDump, "NV "), lineVal(c.postDump, "NV ")
		if nvPost != nvPre {
			out = append(out, viol("C04", "validator-created", c.i, "number of validators went from %s to %s by transaction %s", nvPre, nvPost, strings.Join(c.op, " ")))
		}
		allSettlement := len(t.msgs) > 0
		for _, m := range t.msgs {
			if !isSettlementKind(m.kind) {
				allSettlement = false
			}
		}
		wrapped := false
		walkLeaves(t.msgs, 0, func(m *mexpr, d int) {
			if d > 0 && (isSettlementKind(m.kind) || m.kind == "createval") {
				wrapped = true
			}
		})
		if wrapped {
			br["c04:restricted-kind-wrapped"]++
		}
		pre := strings.Join(linesWith(c.preDump, "T ", "U ", "I ", "L ", "B t"), "\n")
		post := strings.Join(linesWith(c.postDump, "T ", "U ", "I ", "L ", "B t"), "\n")
		if pre != post && allSettlement {
			// a settlement message that takes effect was admitted under the fixed-fee rules: its offer covers the fixed fee in a
			// configured denomination
			var gas uint64
			for _, m := range t.msgs {
				gas += gasOf(m)
			}
			if _, fee := coveredDenom(gasPrices, t, gas); fee == nil {
				out = append(out, viol("C04", "settlement-effect-without-fixed-fee", c.i, "settlement transaction took effect although its offer %v covers the fixed fee (gas %d) in no configured denomination: %s", t.fee, gas, strings.Join(c.op, " ")))
			}
		}
		if pre != post {
			br["c04:settlement-state-changed"]++
			if !allSettlement {
				key := "settlement-effect-outside-settlement-tx"
				if wrapped {
					key = "settlement-effect-through-exec"
				}
				out = append(out, viol("C04", key, c.i, "settlement state changed by a transaction that is not made only of top-level settlement messages: %s", strings.Join(c.op, " ")))
			}
		}
		// grants for restricted kinds
		if c.res[0] == "ok" {
			for _, m := range t.msgs {
				if m.kind == "grant" && (isSettlementKind(m.args[2]) || m.args[2] == "createval") {
					br["c04:grant-for-restricted-kind"]++
				}
			}
		}
	})
	return out
}

func lineVal(d []string, prefix string) string {
	for _, l := range d {
		if strings.HasPrefix(l, prefix) {
			return strings.TrimPrefix(l, prefix)
		}
	}
	return ""
}

// ---------- C16 ----------

var fixedGas = map[string]uint64{"createtenant": 1000000010000, "createtenantmc": 1000000010000}

func gasOf(m *mexpr) uint64 {
	if g, ok := fixedGas[m.kind]; ok {
		return g
	}
	return 10000
}

var one18 = new(big.Int).Exp(big.NewInt(10), big.NewInt(18), nil)

// gas prices of the default parameters, sorted by denom as the chain stores them: setl 0.0001, uusdc 1.
var defaultGasPrices = []struct {
	denom string
	num   *big.Int // price * 10^18
}{{"setl", new(big.Int).Exp(big.NewInt(10), big.NewInt(14), nil)}, {"uusdc", new(big.Int).Set(one18)}}

type gasPrice struct {
	denom string
	num   *big.Int // price * 10^18
}

// dec18 reads a decimal with at most 18 fractional digits as its numerator over 10^18.
func dec18(s string) *big.Int {
	ip, fp := s, ""
	if i := strings.IndexByte(s, '.'); i >= 0 {
		ip, fp = s[:i], s[i+1:]
	}
	for len(fp) < 18 {
		fp += "0"
	}
	n, _ := new(big.Int).SetString(ip+fp[:18], 10)
	if n == nil {
		n = big.NewInt(0)
	}
	return n
}

// coveredDenom: the first configured denomination in which the offered fee covers price x fixed gas, and that fee (nil: none)
func coveredDenom(gasPrices []gasPrice, t *txOp, gas uint64) (denom string, fee *big.Int) {
	for _, gp := range gasPrices {
		req := new(big.Int).Quo(new(big.Int).Mul(gp.num, new(big.Int).SetUint64(gas)), one18)
		off := t.fee[gp.denom]
		if off == nil {
			off = big.NewInt(0)
		}
		if off.Cmp(req) >= 0 {
			return gp.denom, req
		}
	}
	return "", nil
}

// pricesAfter keeps track of the settlement gas prices across governance changes
func pricesAfter(gasPrices []gasPrice, c *ctxStep) []gasPrice {
	if c.op[0] == "setprices" && len(c.op) > 1 && c.res[0] == "ok" {
		gasPrices = nil
		if c.op[1] == "-" {
			// an empty list: the default prices apply
			for _, gp := range defaultGasPrices {
				gasPrices = append(gasPrices, gasPrice{gp.denom, gp.num})
			}
			return gasPrices
		}
		for _, kvp := range strings.Split(c.op[1], ",") {
			kv := strings.SplitN(kvp, ":", 2)
			gasPrices = append(gasPrices, gasPrice{strings.TrimPrefix(kv[0], "="), dec18(kv[1])})
		}
	}
	return gasPrices
}

func monC16(tr *Trace, br map[string]int) (out []Violation) {
	var gasPrices []gasPrice
	for _, gp := range defaultGasPrices {
		gasPrices = append(gasPrices, gasPrice{gp.denom, gp.num})
	}
	walk(tr, func(c *ctxStep) {
		if c.op[0] == "setprices" && len(c.op) > 1 && c.res[0] == "ok" {
			// governance changed the settlement gas prices: the list is kept as given
			gasPrices = pricesAfter(gasPrices, c)
			br["c16:prices-changed"]++
			if c.pre.Fee != nil && c.post.Fee != nil && c.pre.Fee.Cmp(c.post.Fee) != 0 {
				out = append(out, viol("C16", "oracle-percentage-replaced", c.i, "a change of the gas prices (%s) turned the configured oracle percentage %s into %s", strings.Join(c.op, " "), c.pre.Fee, c.post.Fee))
			}
			return
		}
		if c.op[0] != "tx" {
			return
		}
		t := parseTx(c.op)
		if len(t.msgs) == 0 {
			return
		}
		for _, m := range t.msgs {
			if !isSettlementKind(m.kind) {
				return
			}
		}
		br["c16:settlement-tx"]++
		var gas uint64
		for _, m := range t.msgs {
			gas += gasOf(m)
		}
		denom, fee := coveredDenom(gasPrices, t, gas)
		payer := acctOf(signerOf(t.msgs[0]))
		if t.payer != "-" && t.payer != "" {
			payer = acctOf(t.payer)
		}
		q := c.pre.Fee
		delta := func(h, d string) *big.Int {
			return new(big.Int).Sub(c.post.BalOf(h, "="+d), c.pre.BalOf(h, "="+d))
		}
		if fee == nil {
			br["c16:offer-too-low"]++
			if c.res[0] == "ok" {
				out = append(out, viol("C16", "accepted-underpaid", c.i, "settlement transaction accepted although its offer %v covers no configured denomination (gas %d)", t.fee, gas))
			}
			if moduleLines(c.preDump) != moduleLines(c.postDump) {
				out = append(out, viol("C16", "underpaid-changed-state", c.i, "underpaid settlement transaction changed state"))
			}
			return
		}
		// message effects on the payer: its own deposits (only when the transaction succeeded)
		own := big.NewInt(0)
		if c.res[0] == "ok" {
			for _, m := range t.msgs {
				if m.kind == "deposit" && acctOf(m.args[0]) == payer && strings.TrimPrefix(m.args[3], "=") == denom {
					own.Add(own, bigOf(m.args[2]))
				}
			}
		}
		// nothing is charged in any other denomination, to anybody's benefit
		for _, od := range []string{"uusdc", "setl"} {
			if od == denom {
				continue
			}
			ownOther := big.NewInt(0)
			if c.res[0] == "ok" {
				for _, m := range t.msgs {
					if m.kind == "deposit" && acctOf(m.args[0]) == payer && strings.TrimPrefix(m.args[3], "=") == od {
						ownOther.Add(ownOther, bigOf(m.args[2]))
					}
				}
			}
			if paid := new(big.Int).Neg(new(big.Int).Add(delta(payer, od), ownOther)); paid.Sign() != 0 || delta("pool", od).Sign() != 0 {
				out = append(out, viol("C16", "charged-in-other-denomination", c.i, "first covered denomination is %s (fee %s), yet payer %s paid %s %s and the oracle pool received %s %s (gas %d, offered %v)",
					denom, fee, payer, paid, od, delta("pool", od), od, gas, t.fee))
			}
		}
		if c.res[0] != "ok" && strings.Contains(tr.Steps[c.i].Detail, "insufficient fee") {
			out = append(out, viol("C16", "covered-offer-refused", c.i, "offer %v covers %s %s (gas %d) and is refused as insufficient: %.200s", t.fee, fee, denom, gas, tr.Steps[c.i].Detail))
		}
		oraclePart := new(big.Int).Quo(new(big.Int).Mul(fee, q), one18)
		collPart := new(big.Int).Quo(new(big.Int).Mul(fee, new(big.Int).Sub(one18, q)), one18)
		charged := new(big.Int).Add(oraclePart, collPart)
		gotPayer := new(big.Int).Neg(new(big.Int).Add(delta(payer, denom), own))
		gotPool := delta("pool", denom)
		if c.res[0] == "ok" {
			br["c16:charged-ok"]++
			if gotPayer.Cmp(charged) != 0 {
				out = append(out, viol("C16", "payer-charge", c.i, "payer %s charged %s %s, fixed rule says %s (gas %d, offered %v)", payer, gotPayer, denom, charged, gas, t.fee))
			}
			if gotPool.Cmp(oraclePart) != 0 {
				out = append(out, viol("C16", "oracle-share", c.i, "oracle pool received %s %s, split says %s of fee %s at rate %s", gotPool, denom, oraclePart, fee, q))
			}
			gs := resKV(c.res, "gas")
			if len(gs) == 1 && pu(gs[0]) != gas {
				out = append(out, viol("C16", "gas-used", c.i, "gas used %s, fixed cost %d", gs[0], gas))
			}
			// nothing created: supply falls by what the fee collector burns, never rises
			if denom == "uusdc" {
				ds := new(big.Int).Sub(bigOf(lineVal(c.postDump, "SUP =uusdc ")), bigOf(lineVal(c.preDump, "SUP =uusdc ")))
				dc := delta("collector", denom)
				if new(big.Int).Add(new(big.Int).Neg(ds), dc).Cmp(collPart) != 0 {
					out = append(out, viol("C16", "collector-share", c.i, "collector share %s not accounted for: supply moved %s, collector balance moved %s", collPart, ds, dc))
				}
			}
		} else {
			// rejected in ante (nothing charged) or failed in execution (charged exactly the same)
			if gotPayer.Sign() != 0 {
				br["c16:charged-failed-msgs"]++
				if gotPayer.Cmp(charged) != 0 || gotPool.Cmp(oraclePart) != 0 {
					out = append(out, viol("C16", "failed-tx-charge", c.i, "failed settlement transaction charged %s (pool %s), fixed rule says %s (pool %s)", gotPayer, gotPool, charged, oraclePart))
				}
			} else {
				br["c16:rejected-uncharged"]++
			}
		}
		if new(big.Int).Sub(fee, charged).Cmp(big.NewInt(1)) > 0 {
			out = append(out, viol("C16", "truncation", c.i, "split loses more than one unit: fee %s, parts %s + %s", fee, collPart, oraclePart))
		}
	})
	return out
}

// ---------- C14 (real blocks) ----------

func monC14ante(tr *Trace, br map[string]int) (out []Violation) {
	walk(tr, func(c *ctxStep) {
		if c.op[0] != "block" {
			return
		}
		br["c14:real-block"]++
		for _, t := range c.res {
			if t == "inv=broken" {
				out = append(out, viol("C14", "module-invariant-broken", c.i, "a registered module invariant is broken after block: %s", tr.Steps[c.i].Detail))
			}
		}
	})
	return out
}
