// Package rng is a splitmix64 generator: every random choice of the harness derives from one seed.
package rng

type R struct{ s uint64 }

func New(seed uint64) *R { return &R{s: seed*0x9E3779B97F4A7C15 + 0x1234567} }

func (r *R) U64() uint64 {
	r.s += 0x9E3779B97F4A7C15
	z := r.s
	z = (z ^ (z >> 30)) * 0xBF58476D1CE4E5B9
	z = (z ^ (z >> 27)) * 0x94D049BB133111EB
	return z ^ (z >> 31)
}

// N returns a value in [0,n).
func (r *R) N(n int) int {
	if n <= 0 {
		return 0
	}
	return int(r.U64() % uint64(n))
}

// P returns true with probability num/den.
func (r *R) P(num, den int) bool { return r.N(den) < num }

func Pick[T any](r *R, xs []T) T { return xs[r.N(len(xs))] }

// Weighted picks an index according to weights.
func (r *R) Weighted(ws []int) int {
	t := 0
	for _, w := range ws {
		t += w
	}
	x := r.N(t)
	for i, w := range ws {
		if x < w {
			return i
		}
		x -= w
	}
	return len(ws) - 1
}

// Fork derives an independent stream.
func (r *R) Fork() *R { return New(r.U64()) }
