package gen

import (
	"fmt"
	"strings"

	"vharness/internal/rng"
	"vharness/internal/world"
)

// AnteProfile generates signed-transaction histories for the ante engine.
type anteG struct {
	jailed    map[int]bool
	r         *rng.R
	ops       []string
	height    int64
	vp        uint64
	tenants   []*tenant
	feeder    map[int]string // current feeder per validator
	former    map[int]string
	grants    [][3]string
	prev      map[int]*commit
	fee       string
	delegated map[string]bool
}

const genericFee = "10000000000000000:asetl"

func (g *anteG) emit(format string, a ...interface{}) {
	g.ops = append(g.ops, fmt.Sprintf(format, a...))
}

func GenerateAnte(r *rng.R, steps int) []string {
	g := &anteG{r: r, height: 1, vp: 2, feeder: map[int]string{}, former: map[int]string{}, prev: map[int]*commit{}}
	g.vp = rng.Pick(r, []uint64{2, 3, 5})
	g.emit("setoparams %d %s 0.01 %d %d", g.vp, rng.Pick(r, []string{"0.5", "0.67"}), g.vp*1000, g.vp*1000-1)
	g.fee = rng.Pick(r, []string{"1", "0.5", "0", "0.333333333333333333", "0.000000000000000001"})
	g.emit("setsparams %s =1,=137", g.fee)
	for _, c := range contracts[:2] {
		for _, t := range tokens[:3] {
			// mostly accounts that sign transactions of their own later on (tenant admins, depositors)
			o := rng.Pick(r, accs[:6])
			if r.P(1, 4) {
				o = rng.Pick(r, accs)
			}
			g.emit("setowner %s %s %s", e(c), e(t), o)
		}
	}
	// the first configured fee denomination ("setl") in some hands, so that an offer can cover more than one configured denomination
	for _, a := range accs[:6] {
		if r.P(2, 3) {
			g.emit("fund %s %d =setl", a, 50+r.N(100000))
		}
	}
	// one tenant to start with, created by a proper settlement transaction
	g.tx("auto", "-", "2000000000000:uusdc", 1000000100000, fmt.Sprintf("createtenant(a1~=uusdc~%d)", 1+r.N(3)))
	g.tenants = append(g.tenants, &tenant{id: 1, admins: []string{"a1"}, denom: "uusdc", method: "native"})
	g.tx("auto", "-", "20000:uusdc", 100000, "deposit(a1~1~5000~=uusdc)")
	if r.P(1, 2) {
		// still in the chain's first block: a validator may be created only by a genesis transaction (height 0) or by governance
		g.tx("auto", "-", genericFee, 500000, fmt.Sprintf("createval(%s)", rng.Pick(r, accs)))
	}
	for i := 0; i < steps; i++ {
		g.step()
	}
	for i := 0; i < int(2*g.vp)+2; i++ {
		g.block()
	}
	if r.P(1, 3) {
		// a price list in an order of governance's choosing is part of the state an export must carry as it is
		g.emit("setprices %s", rng.Pick(r, []string{"uusdc:1,setl:0.0003", "uusdc:2,setl:0.0001", "uusdc:0.5,setl:0.00005"}))
		g.block()
	}
	// the whole application exported and a fresh one started from the document (committed state: right after a block)
	g.emit("genesis")
	return g.ops
}

func (g *anteG) block() {
	g.emit("block")
	g.height++
}

func (g *anteG) tx(signers, payer, fee string, gas uint64, msgs string) {
	if g.r.P(1, 12) {
		// a fee granter, which is a field nobody signs for: the validator's operator, the payer itself, or anybody
		gr := rng.Pick(g.r, append(append([]string{}, accs[:6]...), "o0", "o1", "o2", "o3", "o4"))
		if payer != "-" && g.r.P(1, 3) {
			gr = payer
		}
		g.emit("tx signers=%s payer=%s granter=%s fee=%s gas=%d msgs=%s", signers, payer, gr, fee, gas, msgs)
		return
	}
	g.emit("tx signers=%s payer=%s fee=%s gas=%d msgs=%s", signers, payer, fee, gas, msgs)
}

func (g *anteG) roundStart() uint64 { return uint64(g.height) - uint64(g.height)%(2*g.vp) }

func (g *anteG) step() {
	r := g.r
	if r.P(1, 30) {
		g.block()
		g.emit("genesis")
	}
	if r.P(1, 50) {
		// a proposal with something that is no price: refused by the parameter's own validator, the prices stay
		g.emit("setprices %s", rng.Pick(r, []string{"=!:1", "uusdc:-1", "setl:0.0001,=1abc:2", "uusdc:1,setl:-0.5"}))
		g.tx("auto", "-", "10000:uusdc", 10000, fmt.Sprintf("deposit(a1~1~%d~=uusdc)", 1+r.N(9)))
	}
	if r.P(1, 60) {
		// governance empties the price list: the default prices apply again, and nothing else about the parameters changes - the
		// supported chains stay the supported chains
		g.emit("setprices -")
		g.tx("auto", "-", "10000:uusdc", 10000, fmt.Sprintf("record(a1~1~%s~3~=uusdc~=137~%s~%s)", e(fmt.Sprintf("ep%d", g.height)), e(contracts[0]), e(tokens[0])))
		g.tx("auto", "-", "10000:uusdc", 10000, fmt.Sprintf("record(a1~1~%s~3~=uusdc~=999~%s~%s)", e(fmt.Sprintf("eq%d", g.height)), e(contracts[0]), e(tokens[0])))
	}
	if r.P(1, 25) {
		// governance changes the settlement gas prices in mid-history: later transactions pay the new price
		g.emit("setprices %s", rng.Pick(r, []string{"setl:0.0003,uusdc:1", "setl:0.00015,uusdc:2", "setl:0.0001,uusdc:1", "setl:0.00025,uusdc:0.5", "uusdc:1,setl:0.0003", "uusdc:2,setl:0.0001", "setl:0.00005,uusdc:1", "setl:0.00001,uusdc:0.00005"}))
	}
	if r.P(1, 20) {
		g.ownerOfAnotherTenant()
	}
	switch r.Weighted([]int{8, 8, 5, 7, 3, 3, 5}) {
	case 0:
		g.settlementTx()
	case 1:
		g.oracleTx()
	case 2:
		g.mixedTx()
	case 3:
		g.execTx()
	case 4:
		g.grantTx()
	case 5:
		g.otherTx()
	case 6:
		g.block()
	}
}

func (g *anteG) settleMsg() (string, uint64) {
	r := g.r
	t := rng.Pick(r, g.tenants)
	admin := rng.Pick(r, t.admins)
	if r.P(1, 8) {
		admin = rng.Pick(r, accs)
	}
	if r.P(1, 12) {
		admin = strings.ToUpper(admin)
	}
	switch r.N(9) {
	case 0:
		if len(g.tenants) < 3 {
			who := rng.Pick(r, accs[:5])
			g.tenants = append(g.tenants, &tenant{id: len(g.tenants) + 1, admins: []string{who}, denom: "uusdc", method: "native"})
			return fmt.Sprintf("createtenant(%s~=uusdc~%d)", who, 1+r.N(3)), 1000000010000
		}
		fallthrough
	case 1, 2:
		return fmt.Sprintf("deposit(%s~%d~%d~=uusdc)", rng.Pick(r, accs[:6]), t.id, 1+r.N(500)), 10000
	case 3, 4, 5:
		req := fmt.Sprintf("q%d", t.nreq)
		t.nreq++
		chain := rng.Pick(r, []string{"1", "137", world.ThisChain, world.ThisChain, "999"})
		t.pending = append(t.pending, req)
		return fmt.Sprintf("record(%s~%d~%s~%d~=uusdc~%s~%s~%s)", admin, t.id, e(req), 1+r.N(40), e(chain), e(rng.Pick(r, contracts[:2])), e(rng.Pick(r, tokens[:3]))), 10000
	case 6:
		req := "q0"
		if len(t.pending) > 0 {
			req = rng.Pick(r, t.pending)
		}
		return fmt.Sprintf("cancel(%s~%d~%s)", admin, t.id, e(req)), 10000
	case 7:
		na := rng.Pick(r, accs)
		if r.P(1, 10) {
			na = fmt.Sprintf("p%d", r.N(10)) // an address with white space around it
		}
		return fmt.Sprintf("addadmin(%s~%d~%s)", admin, t.id, na), 10000
	}
	return fmt.Sprintf("setperiod(%s~%d~%d)", admin, t.id, r.N(4)), 10000
}

// ownerOfAnotherTenant: tenant 1 records a payment for a local NFT that belongs to the admin account of another tenant, between two
// transactions of that account for its own tenant. What the first tenant records is no business of the second one's transactions.
func (g *anteG) ownerOfAnotherTenant() {
	r := g.r
	if len(g.tenants) < 2 {
		who := rng.Pick(r, []string{"a2", "a3", "a4"})
		g.tenants = append(g.tenants, &tenant{id: len(g.tenants) + 1, admins: []string{who}, denom: "uusdc", method: "native"})
		g.tx("auto", "-", "2000000000000:uusdc", 1000000100000, fmt.Sprintf("createtenant(%s~=uusdc~%d)", who, 1+r.N(3)))
	}
	a, b := g.tenants[0], g.tenants[1]
	if r.P(1, 2) {
		a, b = b, a
	}
	x := b.admins[0]
	c, t := rng.Pick(r, contracts[:2]), rng.Pick(r, tokens[:3])
	g.emit("setowner %s %s %s", e(c), e(t), x)
	g.tx("auto", "-", "10000:uusdc", 10000, fmt.Sprintf("deposit(%s~%d~%d~=uusdc)", x, b.id, 1+r.N(50)))
	req := fmt.Sprintf("q%d", a.nreq)
	a.nreq++
	a.pending = append(a.pending, req)
	g.tx("auto", "-", "10000:uusdc", 10000, fmt.Sprintf("record(%s~%d~%s~%d~=uusdc~%s~%s~%s)", a.admins[0], a.id, e(req), 1+r.N(40), e(world.ThisChain), e(c), e(t)))
	g.tx("auto", "-", "10000:uusdc", 10000, fmt.Sprintf("deposit(%s~%d~%d~=uusdc)", x, b.id, 1+r.N(50)))
}

// settlementTx: one to three settlement messages under varied offered fees and gas limits.
func (g *anteG) settlementTx() {
	r := g.r
	n := 1 + r.N(3)
	if r.P(1, 2) {
		n = 1
	}
	var ms []string
	var gasNeed uint64
	for i := 0; i < n; i++ {
		m, c := g.settleMsg()
		ms = append(ms, m)
		gasNeed += c
	}
	need := gasNeed // price of uusdc is 1
	var fee string
	needSetl := gasNeed / 10000 // price of setl is 0.0001
	switch r.N(13) {
	case 9:
		fee = fmt.Sprintf("%d:setl,%d:uusdc", needSetl+uint64(r.N(3)), need+uint64(r.N(50000))) // both configured denominations covered
	case 10:
		fee = fmt.Sprintf("%d:setl", needSetl+uint64(r.N(3)))
	case 11:
		if needSetl > 0 {
			fee = fmt.Sprintf("%d:setl,%d:uusdc", needSetl-1, need) // the first is short, the second covers
		}
	case 12:
		if need > 0 {
			fee = fmt.Sprintf("%d:setl,%d:uusdc", needSetl, need-1)
		}
	case 0:
		fee = fmt.Sprintf("%d:uusdc", need)
	case 1:
		fee = fmt.Sprintf("%d:uusdc", need+uint64(1+r.N(100000)))
	case 2:
		if need > 0 {
			fee = fmt.Sprintf("%d:uusdc", need-1)
		}
	case 3:
		fee = fmt.Sprintf("%d:uusdc,5:asetl", need+7)
	case 4:
		fee = "-"
	case 5:
		fee = fmt.Sprintf("%d:asetl", need*2)
	case 6:
		fee = fmt.Sprintf("%d:uusdc", need*3)
	default:
		fee = fmt.Sprintf("%d:uusdc", need+uint64(r.N(3)))
	}
	if fee == "" {
		fee = "-"
	}
	gas := gasNeed
	switch r.N(5) {
	case 0:
		gas = gasNeed / 2
	case 1:
		gas = gasNeed * 3
	case 2:
		gas = 1
	}
	if gas == 0 {
		gas = 1
	}
	payer := "-"
	if r.P(1, 10) {
		payer = rng.Pick(r, accs[:5])
	}
	g.tx("auto", payer, fee, gas, strings.Join(ms, "|"))
}

func (g *anteG) oracleMsg(v int, feeder string) string {
	r := g.r
	rs := g.roundStart()
	if r.P(1, 10) {
		feeder = strings.ToUpper(feeder) // the same account under the upper-case spelling of its address
	}
	vt := fmt.Sprintf("v%d", v)
	if r.P(1, 6) {
		vt = fmt.Sprintf("V%d", v) // the upper-case bech32 spelling of the operator address: legal, and a different string
	}
	switch r.N(5) {
	case 0, 1:
		salt := fmt.Sprintf("s%d", r.N(100))
		vd := "O:" + e(fmt.Sprintf("1/%s/%s:%s", contracts[0], rng.Pick(r, tokens[:3]), rng.Pick(r, ownerStrs)))
		if r.P(1, 4) {
			vd = "-"
		}
		g.prev[v] = &commit{round: rs, salt: salt, vd: vd}
		return fmt.Sprintf("prevote(%s~%s~%s~%d)", feeder, vt, e(VoteHash(salt, vd)), rs)
	case 2, 3:
		c := g.prev[v]
		if c == nil {
			c = &commit{round: rs, salt: "s", vd: "-"}
		}
		return fmt.Sprintf("vote(%s~%s~%s~%d~%s)", feeder, vt, e(c.salt), c.round, c.vd)
	}
	nf := rng.Pick(r, accs)
	if _, delegated := g.feeder[v]; delegated && r.P(1, 3) {
		nf = fmt.Sprintf("o%d", v) // the validator takes the delegation back
	}
	return fmt.Sprintf("consent(%s~%s)", vt, nf)
}

func (g *anteG) who(v int) string {
	r := g.r
	switch r.N(8) {
	case 0, 1, 2:
		return fmt.Sprintf("o%d", v)
	case 3, 4:
		if f, ok := g.feeder[v]; ok {
			return f
		}
		return fmt.Sprintf("o%d", v)
	case 5:
		if f, ok := g.former[v]; ok {
			return f
		}
		return rng.Pick(r, accs)
	}
	return rng.Pick(r, accs) // stranger (or by chance the feeder)
}

func (g *anteG) noteConsent(m string, v int) {
	if strings.HasPrefix(m, "consent(") {
		parts := strings.Split(strings.TrimSuffix(strings.TrimPrefix(m, "consent("), ")"), "~")
		if old, ok := g.feeder[v]; ok {
			g.former[v] = old
		}
		g.feeder[v] = parts[1]
	}
}

func (g *anteG) oracleTx() {
	r := g.r
	if r.P(1, 10) {
		// a stranger asks for a gas estimate of a consent naming itself (nobody checks signatures there), then tries to vote for the validator
		v := r.N(world.NVal)
		st := rng.Pick(r, accs[6:])
		g.emit("sim signers=%s payer=- fee=- gas=200000 msgs=consent(v%d~%s)", st, v, st)
		rs := g.roundStart()
		g.tx("auto", "-", "-", 200000, fmt.Sprintf("prevote(%s~v%d~%s~%d)", st, v, e(VoteHash("sim", "-")), rs))
		return
	}
	if r.P(1, 14) && len(g.jailed) < 2 {
		// a validator is jailed by the staking module and leaves the active set; nobody may send oracle messages for it while it is
		// out - not a stranger, not its former feeder, and the rules for its operator and feeder are the rules for everybody
		v := r.N(world.NVal)
		if g.jailed == nil {
			g.jailed = map[int]bool{}
		}
		if !g.jailed[v] {
			g.jailed[v] = true
			g.emit("jail v%d", v)
			g.block()
		}
		rs := g.roundStart()
		for _, who := range []string{rng.Pick(r, accs[5:]), g.who(v), fmt.Sprintf("o%d", v)} {
			g.tx("auto", "-", "-", 200000, fmt.Sprintf("prevote(%s~v%d~%s~%d)", who, v, e(VoteHash("j", "-")), rs))
		}
		return
	}
	if r.P(1, 12) {
		// a delegation given under the upper-case spelling of the validator's address, replaced by an ordinary one; the superseded account
		// then votes for the validator under either spelling
		v := r.N(world.NVal)
		f1, f2 := rng.Pick(r, accs[:5]), rng.Pick(r, accs[5:])
		g.tx("auto", "-", "-", 200000, fmt.Sprintf("consent(V%d~%s)", v, f1))
		g.tx("auto", "-", "-", 200000, fmt.Sprintf("consent(v%d~%s)", v, f2))
		g.former[v], g.feeder[v] = f1, f2
		rs := g.roundStart()
		for _, vt := range []string{fmt.Sprintf("V%d", v), fmt.Sprintf("v%d", v)} {
			g.tx("auto", "-", "-", 200000, fmt.Sprintf("prevote(%s~%s~%s~%d)", f1, vt, e(VoteHash("sp", "-")), rs))
		}
		return
	}
	v := r.N(world.NVal)
	feeder := g.who(v)
	m := g.oracleMsg(v, feeder)
	signers := "auto"
	payer := "-"
	if strings.HasPrefix(m, "consent(") {
		// the message is signed by the operator account; try other signers too
		if r.P(1, 3) {
			signers = rng.Pick(r, accs)
		} else {
			g.noteConsent(m, v)
		}
	}
	if r.P(1, 8) {
		// two oracle messages in one transaction
		m2 := g.oracleMsg(r.N(world.NVal), feeder)
		if r.P(1, 2) {
			m = m + "|" + m2
		} else {
			m = m2 + "|" + m // the message the signer is entitled to send comes last
		}
	}
	if r.P(1, 10) {
		payer = rng.Pick(r, []string{fmt.Sprintf("o%d", v), rng.Pick(r, accs)})
	}
	g.tx(signers, payer, rng.Pick(r, []string{"-", "-", genericFee}), 200000, m)
}

func (g *anteG) sendMsg() string {
	r := g.r
	to := rng.Pick(r, accs)
	if r.P(1, 6) {
		to = rng.Pick(r, []string{"mdistr", "mdistr", "mpool", "mcollector"}) // module accounts may not receive funds
	}
	return fmt.Sprintf("send(%s~%s~%d~=uusdc)", rng.Pick(r, accs[:6]), to, 1+r.N(50))
}

func (g *anteG) mixedTx() {
	r := g.r
	var ms []string
	switch r.N(7) {
	case 4: // a restricted message behind an unrestricted one: the filter must look at every message, not only the first
		a := rng.Pick(r, accs)
		ms = []string{fmt.Sprintf("send(%s~%s~%d~=uusdc)", a, rng.Pick(r, accs), 1+r.N(50)), fmt.Sprintf("createval(%s)", a)}
	case 5: // bank + settlement (other order)
		m, _ := g.settleMsg()
		ms = []string{g.sendMsg(), m}
	case 6: // three messages, the restricted one in the middle
		a := rng.Pick(r, accs)
		ms = []string{g.sendMsg(), fmt.Sprintf("createval(%s)", a), g.sendMsg()}
	case 0: // oracle + bank
		v := r.N(world.NVal)
		ms = []string{g.oracleMsg(v, g.who(v)), g.sendMsg()}
	case 1: // settlement + bank
		m, _ := g.settleMsg()
		ms = []string{m, g.sendMsg()}
	case 2: // settlement + oracle
		m, _ := g.settleMsg()
		v := r.N(world.NVal)
		ms = []string{m, g.oracleMsg(v, g.who(v))}
	case 3: // bank + oracle (other order)
		v := r.N(world.NVal)
		ms = []string{g.sendMsg(), g.oracleMsg(v, g.who(v))}
	}
	fee := rng.Pick(r, []string{genericFee, "2000000000000:uusdc", genericFee + ",2000000000000:uusdc"})
	g.tx("auto", "-", fee, 600000, strings.Join(ms, "|"))
}

func (g *anteG) innerMsg(grantee string) string {
	r := g.r
	switch r.N(6) {
	case 0, 1:
		v := r.N(world.NVal)
		return g.oracleMsg(v, g.who(v))
	case 2, 3:
		m, _ := g.settleMsg()
		return m
	case 4:
		return g.sendMsg()
	}
	if r.P(1, 2) {
		return fmt.Sprintf("createval(%s)", grantee) // the executing account's own message needs no grant
	}
	return fmt.Sprintf("createval(%s)", rng.Pick(r, accs))
}

func (g *anteG) execTx() {
	r := g.r
	grantee := rng.Pick(r, accs)
	depth := 1 + r.N(3)
	if r.P(1, 15) {
		depth = 7
	}
	var inner []string
	k := 1 + r.N(2)
	for i := 0; i < k; i++ {
		inner = append(inner, g.innerMsg(grantee))
	}
	expr := strings.Join(inner, "|")
	for d := 0; d < depth; d++ {
		expr = fmt.Sprintf("exec(%s~[%s])", grantee, expr)
	}
	if r.P(1, 5) {
		expr = expr + "|" + g.sendMsg()
	}
	g.tx("auto", "-", genericFee, 3000000, expr)
}

var grantKinds = []string{"send", "prevote", "vote", "consent", "record", "createtenant", "deposit", "cancel", "createval", "ethtx", "vesting", "delegate"}

func (g *anteG) grantTx() {
	r := g.r
	granter := rng.Pick(r, append(append([]string{}, accs[:6]...), "o0", "o1"))
	grantee := rng.Pick(r, accs)
	if granter == grantee {
		return
	}
	kind := rng.Pick(r, grantKinds)
	g.grants = append(g.grants, [3]string{granter, grantee, kind})
	g.tx("auto", "-", genericFee, 300000, fmt.Sprintf("grant(%s~%s~%s)", granter, grantee, kind))
}

func (g *anteG) otherTx() {
	r := g.r
	if r.P(1, 8) && len(g.tenants) > 0 {
		// a gas estimate of a settlement transaction that changes the payout period: no trace, the period stays
		t := g.tenants[0]
		g.emit("sim signers=%s payer=- fee=- gas=100000 msgs=setperiod(%s~%d~1)", t.admins[0], t.admins[0], t.id)
		return
	}
	switch r.N(5) {
	case 0:
		g.tx("auto", "-", genericFee, 300000, g.sendMsg())
	case 1:
		g.tx("auto", "-", genericFee, 500000, fmt.Sprintf("createval(%s)", rng.Pick(r, accs)))
	case 2:
		g.tx("auto", "-", genericFee, 300000, fmt.Sprintf("grant(%s~%s~ethtx)", rng.Pick(r, accs[:4]), rng.Pick(r, accs[4:])))
	case 3:
		// one delegation per (delegator, validator): a second one withdraws the first one's staking rewards, which is the SDK's F1
		// distribution at work and outside the model
		d, v := rng.Pick(r, accs[:5]), r.N(world.NVal)
		k := fmt.Sprintf("%s/%d", d, v)
		if g.delegated == nil {
			g.delegated = map[string]bool{}
		}
		if g.delegated[k] {
			g.tx("auto", "-", genericFee, 300000, g.sendMsg())
			return
		}
		g.delegated[k] = true
		g.tx("auto", "-", genericFee, 400000, fmt.Sprintf("delegate(%s~v%d~1000)", d, v))
	case 4:
		// wrong signer on an otherwise fine transaction
		g.tx(rng.Pick(r, accs), "-", genericFee, 300000, g.sendMsg())
	}
}
