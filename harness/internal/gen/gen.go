// Package gen produces seeded, structured, mostly valid operation histories for the chain engine,
// plus a malformed stream. Generation is open loop: it never looks at results, so an .ops file replays exactly.
package gen

import (
	"fmt"
	"strings"

	otypes "github.com/settlus/chain/x/oracle/types"

	"vharness/internal/rng"
	"vharness/internal/world"
)

type Profile struct {
	Name        string
	Steps       int
	Oracle      int // weight of oracle activity
	Settle      int // weight of settlement activity
	Admin       int
	Malformed   int
	Faults      bool
	Genesis     bool
	ParamGrid   bool // vary oracle params (vote period, window, threshold)
	Powers      bool // vary validator powers / status
	Rewards     bool
	BigPeriods  bool
	MultiTenant bool
	Isolate     bool // tenants with disjoint admins, NFTs and recipients (C13)
}

var Profiles = map[string]Profile{
	"settle":    {Name: "settle", Steps: 60, Oracle: 3, Settle: 10, Admin: 3, MultiTenant: true, BigPeriods: true},
	"admin":     {Name: "admin", Steps: 50, Oracle: 0, Settle: 5, Admin: 10, MultiTenant: true},
	"oracle":    {Name: "oracle", Steps: 70, Oracle: 10, Settle: 3, Admin: 0, ParamGrid: true, Powers: true, Rewards: true},
	"fault":     {Name: "fault", Steps: 60, Oracle: 2, Settle: 10, Admin: 1, Faults: true, MultiTenant: true},
	"malformed": {Name: "malformed", Steps: 50, Oracle: 5, Settle: 6, Admin: 1, Malformed: 8, Powers: true},
	"genesis":   {Name: "genesis", Steps: 40, Oracle: 5, Settle: 8, Admin: 2, Genesis: true, MultiTenant: true},
	"isolate":   {Name: "isolate", Steps: 70, Oracle: 4, Settle: 12, Admin: 3, MultiTenant: true, Isolate: true},
	"mixed":     {Name: "mixed", Steps: 80, Oracle: 6, Settle: 8, Admin: 2, Malformed: 1, ParamGrid: true, Powers: true, Rewards: true, MultiTenant: true, BigPeriods: true},
}

type tenant struct {
	id      int
	admins  []string
	denom   string
	method  string
	pending []string // request ids believed pending
	nreq    int
}

type G struct {
	r       *rng.R
	p       Profile
	ops     []string
	height  int64
	vp      uint64 // vote period
	tenants []*tenant
	chains  []string
	ext     []extNft // external NFTs recorded
	prev    map[int]*commit
	funded  map[string]bool
	win     uint64 // slash window
	maxMiss uint64
	frac    string
}

type extNft struct {
	chain, contract, token string
}

type commit struct {
	round uint64
	salt  string
	vd    string
}

var contracts = []string{"0x00000000000000000000000000000000000000c1", "0x00000000000000000000000000000000000000C2", "0xc3"}
var tokens = []string{"0x1", "0x2", "0x03", "0x0A", "0xff"}
var accs = []string{"a0", "a1", "a2", "a3", "a4", "a5", "a6", "a7"}

func (g *G) emit(format string, a ...interface{}) { g.ops = append(g.ops, fmt.Sprintf(format, a...)) }

func e(s string) string { return world.EncStr(s) }

// Generate returns one history for the profile.
func Generate(p Profile, r *rng.R) []string {
	g := &G{r: r, p: p, height: 1, vp: 10, chains: []string{"1"}, prev: map[int]*commit{}, funded: map[string]bool{}}
	g.setup()
	for i := 0; i < p.Steps; i++ {
		g.step()
	}
	// let consequences play out: enough blocks for maturity, a tally and a window
	n := int(2*g.vp) + 3
	if n > 30 {
		n = 30
	}
	for i := 0; i < n; i++ {
		g.block()
	}
	if p.Genesis {
		g.emit("genesis")
	}
	return g.ops
}

func (g *G) setup() {
	r := g.r
	if g.p.ParamGrid || r.P(1, 2) {
		vps := []uint64{1, 2, 3, 5}
		g.vp = rng.Pick(r, vps)
		mult := []uint64{1, 2, 3, 4, 5, 7}
		w := g.vp * rng.Pick(r, mult)
		maxMiss := uint64(1)
		if w > 2 {
			maxMiss = 1 + uint64(r.N(int(w-1)))
			if maxMiss >= w {
				maxMiss = w - 1
			}
		}
		if w < 2 {
			// max miss must be >=1 and < window: impossible for w=1; use w=2*vp
			w = 2 * g.vp
			if w < 2 {
				w = 2
			}
			maxMiss = 1
		}
		thr := rng.Pick(r, []string{"0.5", "0.5", "0.500000000000000001", "0.67", "0.6", "1"})
		g.frac = rng.Pick(r, []string{"0.01", "0", "0.5", "1"})
		g.win, g.maxMiss = w, maxMiss
		g.emit("setoparams %d %s %s %d %d", g.vp, thr, g.frac, w, maxMiss)
	} else {
		// default params: period 10 — keep but shrink the window so it can be observed
		g.emit("setoparams 10 0.5 0.01 20 3")
		g.win, g.maxMiss, g.frac = 20, 3, "0.01"
	}
	// supported chains
	switch r.N(6) {
	case 5:
		g.chains = []string{"1", "Base"} // a chain id with letters: "base" is another chain id
	case 4:
		g.chains = []string{"1", world.ThisChain} // the chain's own id listed as a supported external chain
	case 0:
		g.chains = []string{"1"}
	case 1:
		g.chains = []string{"1", "137"}
	case 2:
		g.chains = []string{"137"}
	case 3:
		g.chains = []string{"1", "137", "eth-2"}
	}
	var cs []string
	for _, c := range g.chains {
		cs = append(cs, e(c))
	}
	fee := rng.Pick(r, []string{"1", "0.5", "0", "0.333333333333333333"})
	g.emit("setsparams %s %s", fee, strings.Join(cs, ","))
	for _, a := range accs[:5] {
		g.emit("fund %s %d =uusdc", a, 100000+r.N(1000))
		g.emit("fund %s %d =uerc", a, 50000)
		g.funded[a] = true
	}
	// owners of some internal NFTs
	for _, c := range contracts[:2] {
		for _, t := range tokens[:3] {
			if r.P(3, 4) {
				if g.p.Isolate {
					g.emit("setowner %s %s %s", e(c), e(t), rng.Pick(r, accs[5:]))
				} else {
					g.emit("setowner %s %s %s", e(c), e(t), rng.Pick(r, accs))
				}
			}
		}
	}
	if r.P(1, 6) {
		g.emit("setowner %s %s zero", e(contracts[0]), e(tokens[3]))
	}
	if g.p.Powers {
		g.randPowers()
	}
	if g.p.Rewards && r.P(2, 3) {
		g.emit("fundpool %s =uusdc", rng.Pick(r, []string{"5", "7", "100", "1001", "99999", "3000000", "2000003", "6000000000000000000", "7000000000000000001", "30000000000000000000"}))
	}
	nt := 1
	if g.p.MultiTenant {
		nt = 1 + r.N(3)
	}
	if g.p.Isolate {
		nt = 2 + r.N(2)
	}
	for i := 0; i < nt; i++ {
		g.createTenant()
	}
}

func (g *G) randPowers() {
	r := g.r
	for i := 0; i < world.NVal; i++ {
		if r.P(2, 3) {
			power := rng.Pick(r, []int{1, 1, 2, 3, 5, 10, 0})
			bonded := 1
			if r.P(1, 8) {
				bonded = rng.Pick(r, []int{0, 2}) // unbonded, or still in its unbonding period (2): not bonded either way
			}
			jailed := 0
			if r.P(1, 10) {
				jailed = 1
			}
			pb := "-"
			if r.P(1, 3) {
				pb = rng.Pick(r, []string{"0", "0.2", "0.5", "0.333333333333333333", "1"})
			}
			g.emit("setval v%d %d %d %d %s", i, power, bonded, jailed, pb)
		}
	}
}

func (g *G) createTenant() {
	r := g.r
	admin := rng.Pick(r, accs[:5])
	if g.p.Isolate {
		admin = accs[(len(g.tenants)+1)%5]
	}
	denom := "uusdc"
	if r.P(1, 6) {
		denom = "uerc"
	}
	period := uint64(1 + r.N(4))
	if g.p.BigPeriods && r.P(1, 6) {
		period = rng.Pick(r, []uint64{1 << 63, 1<<63 - 1, ^uint64(0), ^uint64(0) - 1, ^uint64(0) - uint64(g.height), ^uint64(0) - uint64(g.height) - 1, 100})
	}
	t := &tenant{id: len(g.tenants) + 1, admins: []string{admin}, denom: denom, method: "native"}
	if r.P(1, 7) {
		t.method = "mint"
		c := rng.Pick(r, []string{"0x00000000000000000000000000000000000000e1", ""})
		g.emit("createtenant %s %s %d %s", admin, e(denom), period, e(c))
	} else {
		g.emit("createtenant %s %s %d", admin, e(denom), period)
	}
	g.tenants = append(g.tenants, t)
	if t.method == "native" {
		amt := 200 + r.N(2000)
		if g.p.Isolate && r.P(1, 3) {
			amt = 1 + r.N(30) // a tenant that runs out of funds
		}
		g.emit("deposit %s %d %d %s", admin, t.id, amt, e(denom))
	}
}

func (g *G) roundStart() uint64 { return uint64(g.height) - uint64(g.height)%(2*g.vp) }

func (g *G) inPrevote() bool { return uint64(g.height)%(2*g.vp) < g.vp }

func (g *G) block() {
	g.emit("block")
	g.height++
}

func (g *G) step() {
	r := g.r
	p := g.p
	if (p.Genesis && r.P(1, 10)) || r.P(1, 60) {
		// the chain is restarted from its own export and goes on
		g.emit("reimport")
	}
	if p.Genesis && r.P(1, 6) {
		// the round trip is also tried in mid-history, while records are pending and ballots are open
		g.emit("genesis")
	}
	ws := []int{p.Settle, p.Admin, p.Oracle, p.Malformed, 6}
	switch r.Weighted(ws) {
	case 0:
		if p.MultiTenant && r.P(1, 25) {
			g.fillScript()
			return
		}
		g.settleOp()
	case 1:
		g.adminOp()
	case 2:
		g.oracleOp()
	case 3:
		g.malformedOp()
	case 4:
		if p.Faults && r.P(1, 12) {
			g.mintFaultScript()
			return
		}
		if p.Faults && r.P(1, 3) {
			if r.P(1, 4) {
				// if the failing call is the conversion of a registered token, it fails without saying so
				g.emit("failat %d silent", r.N(3))
			} else {
				g.emit("failat %d", r.N(5))
			}
		}
		g.block()
	}
}

// mintFaultScript: a tenant that pays by minting its own token; the mint of the first record that comes due fails once. The record and
// the one behind it stay pending and are paid, in order, once the contract works again.
func (g *G) mintFaultScript() {
	r := g.r
	admin := rng.Pick(r, accs[:5])
	t := &tenant{id: len(g.tenants) + 1, admins: []string{admin}, denom: "uusdc", method: "mint"}
	g.emit("createtenant %s %s 2 %s", admin, e("uusdc"), e("0x00000000000000000000000000000000000000e1"))
	g.tenants = append(g.tenants, t)
	g.emit("setowner %s %s %s", e(contracts[0]), e(tokens[0]), accs[6])
	for i := 0; i < 2; i++ {
		req := fmt.Sprintf("mf%d", t.nreq)
		t.nreq++
		g.emit("record %s %d %s %d %s %s %s %s", admin, t.id, e(req), 3+r.N(9), e("uusdc"), e(world.ThisChain), e(contracts[0]), e(tokens[0]))
		t.pending = append(t.pending, req)
	}
	g.block()
	g.emit("failat 0")
	g.block()
	for i := 0; i < 3; i++ {
		g.block()
	}
}

func (g *G) pickTenant() *tenant {
	if len(g.tenants) == 0 {
		g.createTenant()
	}
	return rng.Pick(g.r, g.tenants)
}

func (g *G) sender(t *tenant) string {
	r := g.r
	switch r.N(12) {
	case 0:
		return rng.Pick(r, accs) // possibly a stranger
	case 1:
		// admin of another tenant
		o := g.pickTenant()
		return rng.Pick(r, o.admins)
	case 2:
		// upper-case spelling of an admin
		return strings.ToUpper(rng.Pick(r, t.admins))
	}
	return rng.Pick(r, t.admins)
}

func (g *G) settleOp() {
	r := g.r
	t := g.pickTenant()
	mintable := t.method != "native"
	k := r.N(11)
	if mintable && k == 10 {
		k = 0
	}
	switch k {
	case 10:
		g.inject(t)
	case 0:
		if len(g.tenants) < 4 && g.p.MultiTenant && !g.p.Isolate {
			g.createTenant()
			return
		}
		fallthrough
	case 1:
		who := rng.Pick(r, accs[:6])
		if g.p.Isolate {
			who = t.admins[0]
		}
		amt := rng.Pick(r, []int{1, 10, 100, 1000, 5000})
		tid := t.id
		if r.P(1, 10) {
			tid = 9
		}
		g.emit("deposit %s %d %d %s", who, tid, amt, e(t.denom))
	case 2, 3, 4, 5, 6:
		g.record(t)
	case 7, 8:
		// cancel: pending, already gone, or unknown
		req := fmt.Sprintf("r%d", r.N(t.nreq+1))
		if len(t.pending) > 0 && r.P(2, 3) {
			i := r.N(len(t.pending))
			req = t.pending[i]
			if r.P(3, 4) {
				t.pending = append(t.pending[:i], t.pending[i+1:]...)
			}
		}
		tid := t.id
		if r.P(1, 12) {
			tid = 9
		}
		g.emit("cancel %s %d %s", g.sender(t), tid, e(req))
	case 9:
		g.block()
	}
}

// inject stores a record directly, as a genesis import does: this is how records with several weighted recipients arise.
func (g *G) inject(t *tenant) {
	r := g.r
	if t.denom != "uusdc" && t.denom != "uerc" {
		return // a direct store write bypasses validation; histories of transactions never hold an invalid coin
	}
	req := fmt.Sprintf("j%d", t.nreq)
	t.nreq++
	amt := rng.Pick(r, []int{1, 2, 3, 7, 10, 11, 50, 99, 100, 401, 3001})
	n := 1 + r.N(3)
	var rs []string
	for i := 0; i < n; i++ {
		var a string
		switch {
		case g.p.Isolate:
			a = rng.Pick(r, accs[5:])
		case r.P(1, 6):
			a = rng.Pick(r, []string{ownerStrs[0], ownerStrs[1], ownerStrs[2], "0x0000000000000000000000000000000000000000"})
		default:
			a = rng.Pick(r, accs)
		}
		w := rng.Pick(r, []int{1, 1, 2, 3, 0, 5, 7})
		if r.P(1, 40) {
			w = 4294967295
		}
		rs = append(rs, fmt.Sprintf("%s*%d", a, w))
	}
	rc := strings.Join(rs, "+")
	if r.P(1, 10) {
		rc = "-"
	}
	created := g.height
	if r.P(1, 4) && g.height > 1 {
		created = g.height - int64(r.N(int(g.height)))
	}
	contract := rng.Pick(r, contracts[:2])
	if g.p.Isolate {
		contract = contracts[(t.id-1)%2]
	}
	g.emit("inject %d %s %d %s %s %s %s %d %s", t.id, e(req), amt, e(t.denom), e(rng.Pick(r, []string{"1", world.ThisChain})), e(contract), e(rng.Pick(r, tokens)), created, rc)
	t.pending = append(t.pending, req)
}

func (g *G) record(t *tenant) {
	r := g.r
	req := fmt.Sprintf("r%d", t.nreq)
	t.nreq++
	switch r.N(12) {
	case 0:
		if len(t.pending) > 0 {
			req = rng.Pick(r, t.pending) // duplicate
		}
	case 1:
		req = rng.Pick(r, []string{"", "r", "r1\x00", "\xff\xfe", "r10", "shared", "\xe2\x82\xac", "\xf0\x90\x80", "\xc0\xaf", " r", "r ", "\tr1", "r1\n", strings.Repeat("k", 64) + "A", strings.Repeat("k", 64) + "B", strings.Repeat("k", 64)})
	}
	amt := rng.Pick(r, []int{1, 2, 3, 7, 10, 50, 99, 400, 3000})
	denom := t.denom
	if r.P(1, 15) {
		denom = "asetl"
	}
	var chain, contract, token string
	switch r.N(10) {
	case 0, 1, 2, 3:
		chain = world.ThisChain
		contract = rng.Pick(r, contracts[:2])
		token = rng.Pick(r, tokens[:4])
		if !g.p.Isolate && r.P(1, 8) {
			// a token id above 160 bits whose low 160 bits are the id of another token: the owner asked for is this token's, not that one's
			token = "0x1" + strings.Repeat("0", 40-len(token)+2) + token[2:]
		}
	case 4, 5, 6, 7, 8:
		chain = rng.Pick(r, []string{"1", "137", "1", "eth-2", "Base", "base"})
		contract = rng.Pick(r, contracts)
		token = rng.Pick(r, tokens)
		g.ext = append(g.ext, extNft{chain, contract, token})
	case 9:
		chain = rng.Pick(r, []string{"999", "", "2"})
		contract = rng.Pick(r, contracts)
		token = rng.Pick(r, tokens)
	}
	if !g.p.Isolate && r.P(1, 14) {
		// a token id written with a sign, or with something else that is no hex digit: not a token id
		token = rng.Pick(r, []string{"0x+1", "0x-1", "0x+2", "0x+a", "0x-0", "0x1_0", "0x 1", "0x+"})
		if r.P(1, 2) {
			// ... on a supported external chain, for a proper contract, twice
			for _, c := range g.chains {
				if c != world.ThisChain {
					chain, contract = c, contracts[0]
					req2 := fmt.Sprintf("sg%d", t.nreq)
					t.nreq++
					g.emit("record %s %d %s 1 %s %s %s %s", t.admins[0], t.id, e(req2), e(t.denom), e(chain), e(contract), e(rng.Pick(r, []string{"0x+1", "0x-2", "0x+f"})))
					break
				}
			}
		}
	}
	tid := t.id
	if r.P(1, 15) {
		tid = 9
	}
	if g.p.Isolate {
		// tenants reference different NFTs: the token id carries the tenant
		token = tokens[(t.id-1)%len(tokens)]
		if chain != world.ThisChain && len(g.ext) > 0 {
			g.ext[len(g.ext)-1].token = token
		}
	}
	g.emit("record %s %d %s %d %s %s %s %s", g.sender(t), tid, e(req), amt, e(denom), e(chain), e(contract), e(token))
	t.pending = append(t.pending, req)
	if (req == "" || req == "shared") && r.P(2, 3) {
		// the same request id again, at once: the empty string is a request id like any other
		g.emit("record %s %d %s %d %s %s %s %s", t.admins[0], t.id, e(req), amt, e(denom), e(chain), e(contract), e(token))
		if r.P(1, 2) {
			g.emit("cancel %s %d %s", t.admins[0], t.id, e(req))
		}
	}
}

// rejectedTx emits a transaction of several messages whose last message is refused (a cancel for a request id that never existed),
// so the whole transaction must leave no trace; then lets the accounts concerned act, which shows any residue.
func (g *G) rejectedTx(t *tenant) {
	r := g.r
	admin := rng.Pick(r, t.admins)
	fail := fmt.Sprintf("cancel %s %d %s", admin, t.id, e("nosuch"))
	switch r.N(5) {
	case 0:
		// a shorter payout period that must not take effect
		g.emit("atomic setperiod %s %d 1 ;; %s", admin, t.id, fail)
		g.recordNow(t, admin)
		g.block()
		g.block()
	case 1:
		// an added admin that must stay locked out
		x := rng.Pick(r, accs)
		g.emit("atomic addadmin %s %d %s ;; %s", admin, t.id, x, fail)
		g.emit("setperiod %s %d %d", x, t.id, 2+r.N(3))
	case 2:
		// a removed admin that must keep its rights
		if len(t.admins) > 1 {
			b := t.admins[len(t.admins)-1]
			g.emit("atomic rmadmin %s %d %s ;; %s", t.admins[0], t.id, b, fail)
			g.emit("setperiod %s %d %d", b, t.id, 2+r.N(3))
		} else {
			g.emit("atomic deposit %s %d 5 %s ;; %s", admin, t.id, e(t.denom), fail)
		}
	case 3:
		// a deposit and a record that must not stay
		g.emit("atomic deposit %s %d 7 %s ;; record %s %d %s 3 %s %s %s %s ;; %s", admin, t.id, e(t.denom), admin, t.id, e(fmt.Sprintf("x%d", t.nreq)), e(t.denom),
			e(world.ThisChain), e(contracts[0]), e(tokens[0]), fail)
		t.nreq++
	case 4:
		// a cancel that must be undone: the record stays pending and is paid later
		if len(t.pending) > 0 {
			g.emit("atomic cancel %s %d %s ;; %s", admin, t.id, e(rng.Pick(r, t.pending)), fail)
		} else {
			g.emit("atomic setperiod %s %d 0 ;; %s", admin, t.id, fail)
		}
	}
}

// recordNow records a payment for an NFT of this chain that has an owner (set here), so that it is payable at maturity.
func (g *G) recordNow(t *tenant, admin string) {
	g.emit("setowner %s %s %s", e(contracts[0]), e(tokens[0]), accs[7])
	g.emit("fund %s 1000 %s", admin, e(t.denom))
	g.emit("deposit %s %d 500 %s", admin, t.id, e(t.denom))
	req := fmt.Sprintf("y%d", t.nreq)
	t.nreq++
	g.emit("record %s %d %s 5 %s %s %s %s", admin, t.id, e(req), e(t.denom), e(world.ThisChain), e(contracts[0]), e(tokens[0]))
	t.pending = append(t.pending, req)
}

// chainsChange: governance changes the list of supported chains in mid-history; records are then accepted or refused by the new list
func (g *G) chainsChange() {
	r := g.r
	g.chains = rng.Pick(r, [][]string{{"1"}, {"137"}, {"1", "137"}, {"1", "eth-2"}, {"1", "Base"}, {"137", "eth-2"}})
	var cs []string
	for _, c := range g.chains {
		cs = append(cs, e(c))
	}
	g.emit("setsparams %s %s", rng.Pick(r, []string{"1", "0.5", "0", "0.333333333333333333"}), strings.Join(cs, ","))
	// a record on each side of the change
	t := g.pickTenant()
	for _, c := range []string{"1", "137", "eth-2", "Base"} {
		req := fmt.Sprintf("g%d", t.nreq)
		t.nreq++
		g.emit("record %s %d %s 2 %s %s %s %s", t.admins[0], t.id, e(req), e(t.denom), e(c), e(contracts[0]), e(tokens[1]))
		for _, s := range g.chains {
			if s == c {
				t.pending = append(t.pending, req)
				g.ext = append(g.ext, extNft{c, contracts[0], tokens[1]})
			}
		}
	}
}

// emptyIdScript: the empty string is a request id like any other - recorded, paid, and then free to be recorded and cancelled again
func (g *G) emptyIdScript(t *tenant) {
	if t.method != "native" {
		return
	}
	admin := t.admins[0]
	g.emit("setperiod %s %d 1", admin, t.id)
	g.emit("setowner %s %s %s", e(contracts[0]), e(tokens[0]), accs[6])
	g.emit("fund %s 1000 %s", admin, e(t.denom))
	g.emit("deposit %s %d 500 %s", admin, t.id, e(t.denom))
	id := rng.Pick(g.r, []string{"", "", "again"})
	g.emit("record %s %d %s 4 %s %s %s %s", admin, t.id, e(id), e(t.denom), e(world.ThisChain), e(contracts[0]), e(tokens[0]))
	g.block()
	g.block()
	g.emit("record %s %d %s 6 %s %s %s %s", admin, t.id, e(id), e(t.denom), e(world.ThisChain), e(contracts[0]), e(tokens[0]))
	if g.r.P(1, 2) {
		g.emit("cancel %s %d %s", admin, t.id, e(id))
	} else {
		t.pending = append(t.pending, id)
	}
}

// moduleOwnerScript: an NFT that belongs to a module account (anybody can transfer an NFT there). A payout must not put coins into a
// module account behind the module's accounting, and must not get stuck on it either.
func (g *G) moduleOwnerScript(t *tenant) {
	if t.method != "native" {
		return
	}
	admin := t.admins[0]
	mod := rng.Pick(g.r, []string{"mdistr", "mdistr", "mpool", "mcollector"})
	g.emit("setowner %s %s %s", e(contracts[1]), e(tokens[2]), mod)
	g.emit("fund %s 1000 %s", admin, e(t.denom))
	g.emit("deposit %s %d 300 %s", admin, t.id, e(t.denom))
	req := fmt.Sprintf("m%d", t.nreq)
	t.nreq++
	g.emit("record %s %d %s 9 %s %s %s %s", admin, t.id, e(req), e(t.denom), e(world.ThisChain), e(contracts[1]), e(tokens[2]))
	t.pending = append(t.pending, req)
	// a second record behind it, for an ordinary owner: it must not be held up
	g.emit("setowner %s %s %s", e(contracts[0]), e(tokens[0]), accs[7])
	req2 := fmt.Sprintf("m%d", t.nreq)
	t.nreq++
	g.emit("record %s %d %s 5 %s %s %s %s", admin, t.id, e(req2), e(t.denom), e(world.ThisChain), e(contracts[0]), e(tokens[0]))
	t.pending = append(t.pending, req2)
}

func (g *G) adminOp() {
	r := g.r
	t := g.pickTenant()
	if !g.p.Isolate && r.P(1, 16) {
		g.moduleOwnerScript(t)
		return
	}
	if !g.p.Isolate && r.P(1, 8) {
		g.rejectedTx(t)
		return
	}
	if !g.p.Isolate && r.P(1, 14) {
		g.chainsChange()
		return
	}
	if !g.p.Isolate && r.P(1, 14) {
		g.emptyIdScript(t)
		return
	}
	switch r.N(6) {
	case 0, 1:
		na := rng.Pick(r, accs)
		if r.P(1, 5) {
			na = strings.ToUpper(na)
		}
		if r.P(1, 12) {
			na = "bad"
		}
		if r.P(1, 12) {
			// a proper address with white space around it is not an address: refused, and the list keeps its length - which the
			// last-admin guard then shows
			who := g.sender(t)
			g.emit("addadmin %s %d p%d", who, t.id, r.N(10))
			if len(t.admins) == 1 {
				g.emit("rmadmin %s %d %s", t.admins[0], t.id, t.admins[0])
			}
			return
		}
		g.emit("addadmin %s %d %s", g.sender(t), t.id, na)
		if !containsFold(t.admins, na) && na != "bad" {
			t.admins = append(t.admins, strings.ToLower(na))
		}
	case 2, 3:
		var who string
		if r.P(3, 4) {
			who = rng.Pick(r, t.admins)
		} else {
			who = rng.Pick(r, accs)
		}
		if r.P(1, 6) {
			who = strings.ToUpper(who)
		}
		g.emit("rmadmin %s %d %s", g.sender(t), t.id, who)
		if len(t.admins) > 1 {
			for i, a := range t.admins {
				if a == strings.ToLower(who) {
					t.admins = append(t.admins[:i], t.admins[i+1:]...)
					break
				}
			}
		}
	case 4:
		per := uint64(r.N(5))
		if g.p.BigPeriods && r.P(1, 4) {
			per = rng.Pick(r, []uint64{^uint64(0), 1 << 63, ^uint64(0) - uint64(g.height)})
		}
		g.emit("setperiod %s %d %d", g.sender(t), t.id, per)
	case 5:
		o := rng.Pick(r, accs)
		g.emit("setowner %s %s %s", e(rng.Pick(r, contracts[:2])), e(rng.Pick(r, tokens[:4])), rng.Pick(r, []string{o, o, "none"}))
	}
}

// blankTail appends a blank to the last entry of a vote-data token ("T:e,e;T:e"); entries are string tokens, so the entry is re-encoded.
func blankTail(vd string) string {
	if vd == "-" {
		return vd
	}
	parts := strings.Split(vd, ";")
	lp := parts[len(parts)-1]
	if len(lp) <= 2 {
		return vd
	}
	es := strings.Split(lp[2:], ",")
	last := es[len(es)-1]
	if last == "" || (last[0] != '=' && last[0] != 'x') {
		return vd
	}
	es[len(es)-1] = e(world.Str(last) + " ")
	parts[len(parts)-1] = lp[:2] + strings.Join(es, ",")
	return strings.Join(parts, ";")
}

func containsFold(xs []string, x string) bool {
	for _, y := range xs {
		if strings.EqualFold(x, y) {
			return true
		}
	}
	return false
}

// VoteHash is the chain's own commitment function (used so that generated votes open their prevotes).
func VoteHash(salt, vdTok string) string {
	h, _ := otypes.GetAggregateVoteHash(world.ParseVoteData(vdTok), salt)
	return h
}

func (g *G) entry(n extNft, owner string) string {
	c, t, o := n.contract, n.token, owner
	// the same NFT and owner in another letter case (lower case, upper case digits, as recorded): one value, whoever spells it
	switch g.r.N(5) {
	case 0:
		c, t, o = strings.ToLower(c), strings.ToLower(t), strings.ToLower(o)
	case 1:
		up := func(h string) string {
			if strings.HasPrefix(h, "0x") {
				return "0x" + strings.ToUpper(h[2:])
			}
			return h
		}
		c, t, o = up(c), up(t), up(o)
	}
	return fmt.Sprintf("%s/%s/%s:%s", n.chain, c, t, o)
}

var ownerStrs = []string{"0x0101010101010101010101010101010101010101", "0x0202020202020202020202020202020202020202", "0x0303030303030303030303030303030303030303", "0x0", "0xABCDEF"}

// owners spelled with letters, for the common votes of roundScript (letter case must not matter)
var letterOwner = "0xaAbBcCdDeEfF0011223344556677889900AaBbCc"

func (g *G) voteData(v int) string {
	r := g.r
	if len(g.ext) == 0 || r.P(1, 12) {
		if r.P(1, 2) {
			return "-"
		}
		return "O:"
	}
	var es []string
	k := 1 + r.N(3)
	for i := 0; i < k; i++ {
		n := rng.Pick(r, g.ext)
		// most validators agree on owner 0; some dissent
		o := ownerStrs[0]
		if r.P(1, 4) {
			o = rng.Pick(r, ownerStrs)
		}
		en := g.entry(n, o)
		es = append(es, e(en))
		if r.P(1, 8) {
			es = append(es, e(en)) // repeat
		}
	}
	vd := "O:" + strings.Join(es, ",")
	if r.P(1, 10) {
		n := rng.Pick(r, g.ext)
		vd += ";O:" + e(g.entry(n, rng.Pick(r, ownerStrs)))
	}
	return vd
}

func (g *G) oracleOp() {
	r := g.r
	v := r.N(world.NVal)
	vt := fmt.Sprintf("v%d", v)
	if r.P(1, 25) {
		vt = fmt.Sprintf("V%d", v)
	}
	feeder := fmt.Sprintf("o%d", v)
	rs := g.roundStart()
	if r.P(1, 5) {
		g.roundScript()
		return
	}
	if r.P(1, 30) {
		g.tieScript()
		return
	}
	switch r.N(12) {
	case 0, 1, 2, 3, 4:
		// prevote (in or out of window), fresh commitment
		salt := rng.Pick(r, []string{"s", "salt", "", "AB12", "x:y"})
		vd := g.voteData(v)
		round := rs
		if r.P(1, 12) {
			round = rs + 2*g.vp
		}
		if r.P(1, 20) && rs >= 2*g.vp {
			round = rs - 2*g.vp
		}
		hash := VoteHash(salt, vd)
		if r.P(1, 16) {
			// the hash is an unvalidated string: not hex, empty, not UTF-8 (stored and exported as given)
			hash = rng.Pick(r, []string{"\xff\xfe", "", "nothex", "\xc3\x28", "ok\xe2\x82\xac", "\xed\xa0\x80"})
		}
		g.emit("prevote %s %s %s %d", feeder, vt, e(hash), round)
		g.prev[v] = &commit{round: round, salt: salt, vd: vd}
	case 5, 6, 7, 8, 9:
		c := g.prev[v]
		if c == nil {
			g.emit("vote %s %s %s %d %s", feeder, vt, e("s"), rs, g.voteData(v))
			return
		}
		salt, vd, round := c.salt, c.vd, c.round
		switch r.N(16) {
		case 0:
			salt = salt + "!" // wrong opening
		case 1:
			vd = g.voteData(v)
		case 2:
			round = rs + 2*g.vp
		case 3:
			vd = "-" // reveals nothing: not an opening of a commitment to something
		case 4:
			vd = blankTail(vd) // the last entry with a blank appended: a different string, not what was committed
		}
		g.emit("vote %s %s %s %d %s", feeder, vt, e(salt), round, vd)
		if r.P(5, 6) {
			delete(g.prev, v)
		}
		if g.inPrevote() && r.P(1, 3) {
			// a second commitment in the same prevote window, after the first was revealed: vote and prevote of one validator coexist
			salt2 := "again"
			vd2 := g.voteData(v)
			g.emit("prevote %s %s %s %d", feeder, vt, e(VoteHash(salt2, vd2)), rs)
			g.prev[v] = &commit{round: rs, salt: salt2, vd: vd2}
		}
	case 10:
		nf := rng.Pick(r, accs)
		if r.P(1, 3) {
			nf = feeder // back to the validator's own account
		}
		cv := vt
		if r.P(1, 4) {
			cv = strings.ToUpper(vt[:1]) + vt[1:] // the upper-case spelling of the operator address: stored under that spelling
		}
		g.emit("consent %s %s", cv, nf)
	case 11:
		if g.p.Powers && g.p.ParamGrid && r.P(1, 6) {
			g.removedScript()
			return
		}
		if g.p.Powers && r.P(1, 5) {
			// a validator leaves the staking module altogether (its unbonding ended with nothing delegated); the oracle may still hold a
			// miss counter or a ballot under its address
			g.emit("setval v%d 0 x 0 -", r.N(world.NVal))
			return
		}
		if g.p.Powers && r.P(1, 2) {
			g.randPowers()
		} else if g.p.Rewards {
			g.emit("fundpool %s =uusdc", rng.Pick(r, []string{"1", "3", "5", "10", "333", "6000000000000000000", "11000000000000000000"}))
		} else {
			g.block()
		}
	}
}

// removedScript: a validator collects more misses than the window allows and then leaves the staking module before the window closes.
// Closing the window must still complete, slash nobody for it, and reset its counter.
func (g *G) removedScript() {
	r := g.r
	var ext []string
	for _, c := range g.chains {
		if c != world.ThisChain {
			ext = append(ext, c)
		}
	}
	if len(ext) == 0 {
		return
	}
	g.vp, g.win, g.maxMiss = 1, 8, 1
	g.emit("setoparams 1 0.5 %s 8 1", g.frac)
	g.block()
	x := r.N(world.NVal)
	g.emit("setval v%d 1 1 0 -", x)
	vd := "O:" + e(g.entry(extNft{ext[0], contracts[0], tokens[0]}, ownerStrs[1]))
	for i := 0; i < 2+r.N(2); i++ {
		for !g.inPrevote() {
			g.block()
		}
		rs := g.roundStart()
		salt := fmt.Sprintf("x%d", i)
		// alone with its answer: no owner is accepted, the voter is charged a miss
		g.emit("prevote o%d v%d %s %d", x, x, e(VoteHash(salt, vd)), rs)
		g.block()
		g.emit("vote o%d v%d %s %d %s", x, x, e(salt), rs, vd)
		g.block()
	}
	switch r.N(3) {
	case 0:
		// ... or it has only left the active set: its unbonding period runs, it is not bonded and must not be punished at the close
		g.emit("setval v%d 1 2 0 -", x)
	case 1:
		g.emit("setval v%d 1 0 0 -", x)
	default:
		g.emit("setval v%d 0 x 0 -", x)
	}
	for i := 0; i < 9; i++ {
		g.block()
	}
}

// fillScript plays the cut-off scenario of the oracle fill across two tenants: the higher tenant id holds a record from before the
// round, the lower tenant id records a different NFT in the first block of the round (and the higher one records the old NFT again);
// every validator then reports an owner for all of them. Only the record from before the round may be filled.
func (g *G) fillScript() {
	r := g.r
	if len(g.tenants) < 2 {
		return
	}
	var ext []string
	for _, c := range g.chains {
		if c != world.ThisChain {
			ext = append(ext, c)
		}
	}
	if len(ext) == 0 {
		return
	}
	chain := rng.Pick(r, ext)
	lo, hi := g.tenants[0], g.tenants[len(g.tenants)-1]
	if lo.method != "native" || hi.method != "native" {
		return
	}
	cY, cX := contracts[0], contracts[1]
	tokY, tokX := tokens[(hi.id-1)%len(tokens)], tokens[(lo.id+1)%len(tokens)]
	for g.inPrevote() && uint64(g.height)%(2*g.vp) == 0 {
		g.block() // not in the first block of a round: the old record must predate the round
	}
	rec := func(t *tenant, c, tok string) {
		req := fmt.Sprintf("f%d", t.nreq)
		t.nreq++
		g.emit("record %s %d %s %d %s %s %s %s", t.admins[0], t.id, e(req), 1+r.N(5), e(t.denom), e(chain), e(c), e(tok))
		t.pending = append(t.pending, req)
	}
	if !g.p.Isolate && r.P(1, 2) {
		// several waiting records of one NFT stored ahead of another NFT's record: one tally fills them all
		rec(lo, cY, tokY)
		rec(lo, cY, tokY)
		rec(hi, cX, tokX)
	}
	rec(hi, cY, tokY)
	for uint64(g.height)%(2*g.vp) != 0 {
		g.block()
	}
	rec(lo, cX, tokX)
	rec(hi, cY, tokY)
	rs := g.roundStart()
	owner := ownerStrs[r.N(3)]
	vd := "O:" + e(g.entry(extNft{chain, cY, tokY}, owner)) + "," + e(g.entry(extNft{chain, cX, tokX}, owner))
	for v := 0; v < world.NVal; v++ {
		g.emit("prevote o%d v%d %s %d", v, v, e(VoteHash("fs", vd)), rs)
	}
	for g.inPrevote() {
		g.block()
	}
	for v := 0; v < world.NVal; v++ {
		g.emit("vote o%d v%d %s %d %s", v, v, e("fs"), rs, vd)
	}
	for !g.inPrevote() {
		g.block()
	}
	g.block()
}

// tieScript plays a tally in which two owners of one NFT both reach the threshold exactly (four equal validators, threshold one half,
// two votes each): no owner may be accepted, whichever the tally meets first.
func (g *G) tieScript() {
	r := g.r
	var ext []string
	for _, c := range g.chains {
		if c != world.ThisChain {
			ext = append(ext, c)
		}
	}
	if len(ext) == 0 || len(g.tenants) == 0 {
		return
	}
	t := g.tenants[0]
	chain := rng.Pick(r, ext)
	c, tok := contracts[r.N(2)], rng.Pick(r, tokens)
	g.emit("setoparams %d 0.5 %s %d %d", g.vp, g.frac, g.win, g.maxMiss)
	for v := 0; v < 4; v++ {
		g.emit("setval v%d 1 1 0 -", v)
	}
	g.emit("setval v4 1 0 0 -")
	if uint64(g.height)%(2*g.vp) == 0 {
		g.block()
	}
	req := fmt.Sprintf("t%d", t.nreq)
	t.nreq++
	g.emit("record %s %d %s %d %s %s %s %s", t.admins[0], t.id, e(req), 1+r.N(5), e(t.denom), e(chain), e(c), e(tok))
	t.pending = append(t.pending, req)
	for uint64(g.height)%(2*g.vp) != 0 {
		g.block()
	}
	rs := g.roundStart()
	vdA := "O:" + e(g.entry(extNft{chain, c, tok}, ownerStrs[0]))
	vdB := "O:" + e(g.entry(extNft{chain, c, tok}, ownerStrs[1]))
	pick := func(v int) string {
		if v%2 == 0 {
			return vdA
		}
		return vdB
	}
	for v := 0; v < 4; v++ {
		g.emit("prevote o%d v%d %s %d", v, v, e(VoteHash("tie", pick(v))), rs)
	}
	for g.inPrevote() {
		g.block()
	}
	for v := 0; v < 4; v++ {
		g.emit("vote o%d v%d %s %d %s", v, v, e("tie"), rs, pick(v))
	}
	for !g.inPrevote() {
		g.block()
	}
	g.block()
}

// roundScript plays one complete, well-timed commit-reveal round for several validators.
func (g *G) roundScript() {
	r := g.r
	if r.P(1, 2) && len(g.tenants) > 0 && !g.p.Isolate {
		// two waiting records for different NFTs of a supported chain, recorded before the round that will decide them
		var ext []string
		for _, c := range g.chains {
			if c != world.ThisChain {
				ext = append(ext, c)
			}
		}
		t := g.tenants[0]
		if len(ext) > 0 && t.method == "native" {
			chain := rng.Pick(r, ext)
			k := r.N(len(tokens))
			for i := 0; i < 2; i++ {
				tok := tokens[(k+i)%len(tokens)]
				req := fmt.Sprintf("w%d", t.nreq)
				t.nreq++
				g.emit("record %s %d %s %d %s %s %s %s", t.admins[0], t.id, e(req), 1+r.N(9), e(t.denom), e(chain), e(contracts[0]), e(tok))
				t.pending = append(t.pending, req)
				g.ext = append(g.ext, extNft{chain, contracts[0], tok})
			}
			for g.inPrevote() {
				g.block()
			}
		}
	}
	for !g.inPrevote() {
		g.block()
	}
	rs := g.roundStart()
	type cm struct {
		v        int
		salt, vd string
	}
	var cms []cm
	// one round in three, everybody reports the same owner for every external NFT of the history: one tally decides them all
	common := ""
	var commonN []extNft
	var commonO []string
	if r.P(1, 3) && len(g.ext) > 0 {
		seen := map[extNft]bool{}
		fresh := r.P(1, 2) // owners that hold no account yet, a different one per NFT
		for _, n := range g.ext {
			if !seen[n] && len(commonN) < 6 {
				seen[n] = true
				o := ownerStrs[0]
				if fresh {
					o = "0x" + strings.Repeat(string("123456789abc"[(len(commonN)+int(g.height))%12]), 40)
				} else if r.P(1, 3) {
					o = letterOwner
				}
				commonN = append(commonN, n)
				commonO = append(commonO, o)
			}
		}
		common = "O:"
	}
	commonVD := func() string {
		var es []string
		for i, n := range commonN {
			es = append(es, e(g.entry(n, commonO[i]))) // every validator spells it its own way
		}
		if len(es) > 1 && r.P(1, 3) {
			// the same answer as two groups of entries of the one topic: a legal ballot, every group counts
			k := 1 + r.N(len(es)-1)
			return "O:" + strings.Join(es[:k], ",") + ";O:" + strings.Join(es[k:], ",")
		}
		return "O:" + strings.Join(es, ",")
	}
	for v := 0; v < world.NVal; v++ {
		if r.P(4, 5) {
			salt := fmt.Sprintf("s%d", r.N(1000))
			vd := g.voteData(v)
			if common != "" && r.P(9, 10) {
				vd = commonVD()
			}
			g.emit("prevote o%d v%d %s %d", v, v, e(VoteHash(salt, vd)), rs)
			cms = append(cms, cm{v, salt, vd})
			if r.P(1, 6) {
				// the same validator under the upper-case bech32 spelling of its operator address: one voice, not two
				g.emit("prevote o%d V%d %s %d", v, v, e(VoteHash(salt, vd)), rs)
				cms = append(cms, cm{-v - 1, salt, vd})
			}
			if r.P(1, 6) && g.inPrevote() && uint64(g.height+1)%(2*g.vp) < g.vp {
				g.block()
			}
		}
	}
	for g.inPrevote() {
		g.block()
	}
	for _, c := range cms {
		if c.v < 0 {
			g.emit("vote o%d V%d %s %d %s", -c.v-1, -c.v-1, e(c.salt), rs, c.vd)
			continue
		}
		if r.P(9, 10) {
			g.emit("vote o%d v%d %s %d %s", c.v, c.v, e(c.salt), rs, c.vd)
		}
		if r.P(1, 8) && !g.inPrevote() && uint64(g.height+1)%(2*g.vp) >= g.vp {
			g.block()
		}
	}
	for !g.inPrevote() {
		g.block()
	}
}

func (g *G) malformedOp() {
	r := g.r
	t := g.pickTenant()
	admin := rng.Pick(r, t.admins)
	mintable := t.method != "native"
	k := r.N(11)
	if mintable && k == 10 {
		k = 0
	}
	switch k {
	case 10:
		// a small record and one of the largest amount there is, recorded in one block for an NFT with a known owner: they come due
		// together, the first is paid, the second cannot be - and sums over both must not be formed carelessly
		g.emit("setowner %s %s %s", e(contracts[0]), e(tokens[0]), accs[6])
		g.emit("deposit %s %d 50 %s", admin, t.id, e(t.denom))
		for i, amt := range []string{"7", "115792089237316195423570985008687907853269984665640564039457584007913129639935", "115792089237316195423570985008687907853269984665640564039457584007913129639930"} {
			g.emit("record %s %d %s %s %s %s %s %s", admin, t.id, e(fmt.Sprintf("big%d-%d", g.height, i)), amt, e(t.denom), e(world.ThisChain), e(contracts[0]), e(tokens[0]))
		}
		for i := 0; i < 4; i++ {
			g.block()
		}
	case 0:
		amt := rng.Pick(r, []string{"-5", "0", "-1", "9223372036854775808", "10000000000000000000", "115792089237316195423570985008687907853269984665640564039457584007913129639935", "nil"})
		if mintable && len(amt) > 40 {
			// what a tenant's token contract does when its total supply would pass 2^256 is the contract's arithmetic, not the
			// chain's: no history mints that much
			amt = "10000000000000000000"
		}
		g.emit("record %s %d %s %s %s %s %s %s", admin, t.id, e(fmt.Sprintf("m%d", r.N(100))), amt, e(t.denom), e("1"), e(contracts[0]), e(tokens[0]))
		g.ext = append(g.ext, extNft{"1", contracts[0], tokens[0]})
	case 1:
		den := rng.Pick(r, []string{"!", "", "a", "1abc", strings.Repeat("d", 200), "uusdc ", "UUSDC", "ibc/ABC"})
		g.emit("createtenant %s %s %d", admin, e(den), 1+r.N(3))
		nt := &tenant{id: len(g.tenants) + 1, admins: []string{admin}, denom: den, method: "native"}
		// only count it if validation is expected to accept (the open-loop prediction may be off; harmless)
		if den != "" {
			g.tenants = append(g.tenants, nt)
			g.emit("record %s %d %s 5 %s %s %s %s", admin, nt.id, e("q"), e(den), e("1"), e(contracts[0]), e(tokens[1]))
			g.ext = append(g.ext, extNft{"1", contracts[0], tokens[1]})
		}
	case 2:
		amt := rng.Pick(r, []string{"10000000000000000000", "9223372036854775808", "18446744073709551616", "18446744073709551615", "1180591620717411303424", "-3", "0", "nil"})
		g.emit("fund %s 2000000000000000000000 %s", admin, e(t.denom))
		g.emit("deposit %s %d %s %s", admin, t.id, amt, e(t.denom))
	case 3, 4, 5:
		// malformed vote entries: prevote then vote
		v := r.N(world.NVal)
		ent := rng.Pick(r, []string{"1:0x777", "1/0x1/0x1", "1/0x1:0x1", "nocolon", ":", "::", "1/0x1/0x1:0x2:0x3", "1/zz/0x1:0x1", "/0x1/0x1:0x1", "1/0x1/0x1/0x2:0x1", "", "1/0x1/0x1:", "999/0x1/0x1:0x1", strings.Repeat("9", 300) + "/0x1/0x1:0x1"})
		topic := rng.Pick(r, []string{"O", "O", "B", "U"})
		vd := topic + ":" + e(ent)
		if r.P(1, 3) {
			vd = "O:" + e("1/"+contracts[0]+"/"+tokens[0]+":"+ownerStrs[0]) + ";" + vd
		}
		salt := "m"
		rs := g.roundStart()
		g.emit("prevote o%d v%d %s %d", v, v, e(VoteHash(salt, vd)), rs)
		// move into the vote window
		for g.inPrevote() {
			g.block()
		}
		g.emit("vote o%d v%d %s %d %s", v, v, e(salt), rs, vd)
	case 6:
		g.emit("record %s %d %s 5 %s %s %s %s", admin, t.id, e("tok"), e(t.denom), e("1"), e(rng.Pick(r, []string{"0x0", "", "0xzz", "c1", strings.Repeat("f", 40), "0x0000000000000000000000000000000000000000"})),
			e(rng.Pick(r, []string{"0x", "1", "0xg", "", "0x" + strings.Repeat("f", 64), "0x" + strings.Repeat("f", 65), "0X1"})))
	case 7:
		// governance proposals with a value that is out of range on its own: refused, nothing changes
		g.emit("setoparams %d 0.5 %s %d %d", g.vp, rng.Pick(r, []string{"-0.01", "1.5", "-1"}), g.win, g.maxMiss)
		g.emit("setoparams %d %s %s %d %d", g.vp, rng.Pick(r, []string{"0.49", "1.01", "0"}), g.frac, g.win, g.maxMiss)
		g.emit("setperiod %s %d 0", admin, t.id)
		g.emit("createtenant %s %s 0", admin, e("uusdc"))
	case 8:
		g.emit("addadmin %s %d %s", admin, t.id, rng.Pick(r, []string{"bad", "empty"}))
		g.emit("cancel bad %d %s", t.id, e("r0"))
	case 9:
		g.emit("prevote bad v0 %s 0", e("AA"))
		g.emit("vote a1 bad %s 0 -", e("s"))
		g.emit("consent v1 bad")
	}
}
