#!/usr/bin/env python3
"""mkfix.py "<commit message>" file:hunk,hunk file:hunk ...   -- applies selected hunks of the candidate patch to /repo and commits."""
import re, subprocess, sys
s = open('/verif/notes/candidate-fixes.patch').read() + open('/verif/notes/candidate-fix-F8.patch').read()
files = {}
for f in re.split(r'(?m)^diff --git ', s)[1:]:
    lines = f.split('\n')
    name = lines[0].split(' b/')[1]
    hdr = []
    hunks = []
    cur = None
    for l in lines[1:]:
        if l.startswith('@@'):
            cur = [l]
            hunks.append(cur)
        elif cur is None:
            hdr.append(l)
        else:
            cur.append(l)
    files[name] = (hdr, hunks)
msg = sys.argv[1]
patch = ''
for spec in sys.argv[2:]:
    name, idx = spec.split(':')
    hdr, hunks = files[name]
    patch += 'diff --git a/%s b/%s\n' % (name, name) + '\n'.join(h for h in hdr if h.startswith('---') or h.startswith('+++')) + '\n'
    for i in idx.split(','):
        h = hunks[int(i)]
        while h and h[-1] == '':
            h = h[:-1]
        patch += '\n'.join(h) + '\n'
open('/tmp/sub.patch', 'w').write(patch)
r = subprocess.run(['git', '-C', '/repo', 'apply', '--recount', '/tmp/sub.patch'], capture_output=True, text=True)
print(r.stdout, r.stderr)
if r.returncode != 0:
    sys.exit(1)
subprocess.run('cd /repo && gofmt -l app x types tools | head', shell=True)
subprocess.run(['git', '-C', '/repo', 'commit', '-qam', msg])
print(subprocess.run(['git', '-C', '/repo', 'log', '--oneline', '-1'], capture_output=True, text=True).stdout)
