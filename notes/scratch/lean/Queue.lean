/-! scratch: per-tenant queue, resolved-at-most-once + index bijection -/
structure Rec where
  req : String
  amt : Nat
  created : Nat
deriving Repr, DecidableEq

inductive Ev where
  | recorded (id : Nat)
  | settled (id : Nat) (h : Nat)
  | cancelled (id : Nat)
deriving Repr, DecidableEq

structure St where
  pend : List (Nat × Rec)        -- ascending id
  idx  : List (String × Nat)     -- request id -> id
  next : Nat
  bal  : Nat                     -- treasury
  paid : Nat                     -- total paid out (ghost)
  dep  : Nat                     -- total deposited (ghost)
  period : Nat
  log  : List Ev                 -- newest first

def St.init (period : Nat) : St := ⟨[], [], 0, 0, 0, 0, period, []⟩

inductive Op where
  | record (req : String) (amt created : Nat)
  | cancel (req : String)
  | deposit (amt : Nat)
  | endBlock (h : Nat)

def lookup (idx : List (String × Nat)) (r : String) : Option Nat :=
  (idx.find? (·.1 = r)).map (·.2)

structure SR where
  q : List (Nat × Rec)
  bal : Nat
  done : List (Nat × Rec)

def settleQ (period h : Nat) : List (Nat × Rec) → Nat → SR
  | [], bal => ⟨[], bal, []⟩
  | (id, u) :: rest, bal =>
    if u.created + period > h then ⟨(id, u) :: rest, bal, []⟩
    else if bal < u.amt then ⟨(id, u) :: rest, bal, []⟩
    else
      let r := settleQ period h rest (bal - u.amt)
      ⟨r.q, r.bal, (id, u) :: r.done⟩

def step (s : St) : Op → St
  | .record r a c =>
    match lookup s.idx r with
    | some _ => s
    | none => { s with pend := s.pend ++ [(s.next, ⟨r, a, c⟩)], idx := (r, s.next) :: s.idx,
                       next := s.next + 1, log := .recorded s.next :: s.log }
  | .cancel r =>
    match lookup s.idx r with
    | none => s
    | some id => { s with pend := s.pend.filter (·.1 ≠ id), idx := s.idx.filter (·.1 ≠ r),
                          log := .cancelled id :: s.log }
  | .deposit a => { s with bal := s.bal + a, dep := s.dep + a }
  | .endBlock h =>
    let r := settleQ s.period h s.pend s.bal
    { s with pend := r.q, bal := r.bal, paid := s.paid + (r.done.map (·.2.amt)).sum,
             idx := s.idx.filter (fun e => !(r.done.any (·.1 = e.2))),
             log := (r.done.map (fun d => Ev.settled d.1 h)).reverse ++ s.log }

def run (s : St) (ops : List Op) : St := ops.foldl step s

def resolvedIds (log : List Ev) : List Nat :=
  log.filterMap fun | .settled id _ => some id | .cancelled id => some id | _ => none

/-- the invariant -/
structure SInv (s : St) : Prop where
  pend_lt : ∀ e ∈ s.pend, e.1 < s.next
  pend_nodup : (s.pend.map (·.1)).Nodup
  res_lt : ∀ id ∈ resolvedIds s.log, id < s.next
  res_nodup : (resolvedIds s.log).Nodup
  disjoint : ∀ id ∈ resolvedIds s.log, id ∉ s.pend.map (·.1)
  conserve : s.bal + s.paid = s.dep

theorem settleQ_spec (period h : Nat) : ∀ (q : List (Nat × Rec)) (bal : Nat),
    q = (settleQ period h q bal).done ++ (settleQ period h q bal).q ∧
    (settleQ period h q bal).bal + ((settleQ period h q bal).done.map (·.2.amt)).sum = bal
  | [], bal => by simp [settleQ]
  | (id, u) :: rest, bal => by
    have ih := settleQ_spec period h rest (bal - u.amt)
    unfold settleQ
    by_cases h1 : u.created + period > h
    · simp [h1]
    · by_cases h2 : bal < u.amt
      · simp [h1, h2]
      · simp only [h1, h2, if_false]
        obtain ⟨e1, e2⟩ := ih
        refine ⟨by simp [← e1], ?_⟩
        simp only [List.map_cons, List.sum_cons]
        omega
#print axioms settleQ_spec

theorem resolvedIds_cons_recorded (id : Nat) (l : List Ev) :
    resolvedIds (.recorded id :: l) = resolvedIds l := by simp [resolvedIds]
theorem resolvedIds_cons_cancelled (id : Nat) (l : List Ev) :
    resolvedIds (.cancelled id :: l) = id :: resolvedIds l := by simp [resolvedIds]
theorem resolvedIds_settled_append (ds : List (Nat × Rec)) (h : Nat) (l : List Ev) :
    resolvedIds ((ds.map (fun d => Ev.settled d.1 h)).reverse ++ l)
      = (ds.map (·.1)).reverse ++ resolvedIds l := by
  simp [resolvedIds, List.filterMap_append, List.filterMap_reverse, List.filterMap_map]
  congr 1
  induction ds with
  | nil => rfl
  | cons d ds ih => simp [List.filterMap_cons, ih]

theorem lookup_some_mem {idx : List (String × Nat)} {r : String} {id : Nat}
    (h : lookup idx r = some id) : (r, id) ∈ idx := by
  unfold lookup at h
  cases hf : idx.find? (·.1 = r) with
  | none => simp [hf] at h
  | some e =>
    simp [hf] at h
    have := List.find?_some hf
    have hm := List.mem_of_find?_eq_some hf
    simp at this
    cases e; simp_all

theorem step_inv (s : St) (op : Op) (hI : SInv s)
    (hidx : ∀ e ∈ s.idx, e.2 ∈ s.pend.map (·.1)) : SInv (step s op) := by
  cases op with
  | deposit a =>
    exact { hI with conserve := by simp [step]; have := hI.conserve; omega }
  | record r a c =>
    simp only [step]
    split
    · exact hI
    · refine ⟨?_, ?_, ?_, ?_, ?_, hI.conserve⟩
      · intro e he
        simp at he
        rcases he with he | he
        · have := hI.pend_lt e he; omega
        · subst he; simp
      · simp [List.nodup_append]
        refine ⟨hI.pend_nodup, ?_⟩
        intro a b hab heq
        have := hI.pend_lt _ hab
        simp at this; omega
      · intro id hid
        rw [resolvedIds_cons_recorded] at hid
        have := hI.res_lt id hid; simp; omega
      · rw [resolvedIds_cons_recorded]; exact hI.res_nodup
      · intro id hid
        rw [resolvedIds_cons_recorded] at hid
        simp
        refine ⟨by simpa using hI.disjoint id hid, ?_⟩
        have := hI.res_lt id hid; omega
  | cancel r =>
    simp only [step]
    split
    · exact hI
    · rename_i id hl
      have hmem := hidx _ (lookup_some_mem hl)
      refine ⟨?_, ?_, ?_, ?_, ?_, hI.conserve⟩
      · intro e he
        exact hI.pend_lt e (List.mem_filter.mp he).1
      · exact (hI.pend_nodup.sublist ((List.filter_sublist).map _))
      · intro i hi
        rw [resolvedIds_cons_cancelled] at hi
        simp at hi
        rcases hi with rfl | hi
        · simp at hmem
          obtain ⟨b, hb⟩ := hmem
          exact hI.pend_lt _ hb
        · exact hI.res_lt i hi
      · rw [resolvedIds_cons_cancelled]
        refine List.nodup_cons.mpr ⟨?_, hI.res_nodup⟩
        intro hc
        exact hI.disjoint _ hc hmem
      · intro i hi
        rw [resolvedIds_cons_cancelled] at hi
        simp at hi
        rcases hi with rfl | hi
        · simp [List.mem_filter]
        · intro hc
          simp [List.mem_filter] at hc
          obtain ⟨b, hb, _⟩ := hc
          exact hI.disjoint i hi (by simp; exact ⟨b, hb⟩)
  | endBlock h =>
    simp only [step]
    have hs := settleQ_spec s.period h s.pend s.bal
    obtain ⟨e1, e2⟩ := hs
    generalize settleQ s.period h s.pend s.bal = r at *
    have hnd := hI.pend_nodup
    rw [e1] at hnd
    simp [List.nodup_append] at hnd
    refine ⟨?_, ?_, ?_, ?_, ?_, ?_⟩
    · intro e he
      exact hI.pend_lt e (by rw [e1]; simp [he])
    · simpa using hnd.2.1
    · intro i hi
      rw [resolvedIds_settled_append] at hi
      simp at hi
      rcases hi with ⟨b, hb⟩ | hi
      · exact hI.pend_lt _ (by rw [e1]; simp [hb])
      · exact hI.res_lt i hi
    · rw [resolvedIds_settled_append]
      simp [List.nodup_append]
      refine ⟨by simpa using hnd.1, hI.res_nodup, ?_⟩
      intro a b hab heq hres
      have := hI.disjoint _ hres
      apply this
      rw [e1]; simp
      exact Or.inl ⟨_, by subst heq; exact hab⟩
    · intro i hi
      rw [resolvedIds_settled_append] at hi
      simp at hi
      rcases hi with ⟨b, hb⟩ | hi
      · intro hc
        simp at hc
        obtain ⟨b', hb'⟩ := hc
        exact hnd.2.2 _ _ hb _ hb' rfl
      · intro hc
        apply hI.disjoint i hi
        rw [e1]; simp at hc ⊢
        obtain ⟨b', hb'⟩ := hc
        exact Or.inr ⟨b', hb'⟩
    · simp; have := hI.conserve; omega
#print axioms step_inv
