/-! scratch prototype: nested message trees + limiter theorem -/
inductive Msg where
  | leaf (url : String) (signer : Nat) : Msg
  | exec (grantee : Nat) (inner : List Msg) : Msg
  | grant (granter : Nat) (url : String) : Msg

namespace Msg

mutual
def leaves : Msg → List (String × Nat)
  | .leaf u s => [(u, s)]
  | .exec _ ms => leavesL ms
  | .grant _ _ => []
def leavesL : List Msg → List (String × Nat)
  | [] => []
  | m :: ms => leaves m ++ leavesL ms
end

/-- inner leaves: leaves that sit under at least one exec -/
def innerLeaves : Msg → List (String × Nat)
  | .exec _ ms => leavesL ms
  | _ => []

mutual
/-- Evmos limiter, simplified (no depth bound here): inner = are we inside an exec -/
def limOk (dis : List String) (inner : Bool) : Msg → Bool
  | .leaf u _ => !(inner && dis.contains u)
  | .exec _ ms => limOkL dis ms
  | .grant _ u => !dis.contains u
def limOkL (dis : List String) : List Msg → Bool
  | [] => true
  | m :: ms => limOk dis true m && limOkL dis ms
end

mutual
theorem lim_sound (dis : List String) : ∀ (m : Msg), limOk dis true m = true →
    ∀ p ∈ leaves m, dis.contains p.1 = false
  | .leaf u s, h => by
      intro p hp
      simp [leaves] at hp
      subst hp
      simpa [limOk] using h
  | .exec g ms, h => by
      intro p hp
      simp [leaves] at hp
      exact lim_soundL dis ms (by simpa [limOk] using h) p hp
  | .grant _ _, _ => by intro p hp; simp [leaves] at hp
theorem lim_soundL (dis : List String) : ∀ (ms : List Msg), limOkL dis ms = true →
    ∀ p ∈ leavesL ms, dis.contains p.1 = false
  | [], _ => by intro p hp; simp [leavesL] at hp
  | m :: ms, h => by
      intro p hp
      simp [limOkL] at h
      simp [leavesL] at hp
      rcases hp with hp | hp
      · exact lim_sound dis m h.1 p hp
      · exact lim_soundL dis ms h.2 p hp
end

theorem top_sound (dis : List String) (m : Msg) (h : limOk dis false m = true) :
    ∀ p ∈ innerLeaves m, dis.contains p.1 = false := by
  cases m with
  | leaf u s => intro p hp; simp [innerLeaves] at hp
  | grant g u => intro p hp; simp [innerLeaves] at hp
  | exec g ms =>
    intro p hp
    simp [innerLeaves] at hp
    exact lim_soundL dis ms (by simpa [limOk] using h) p hp

end Msg
#print axioms Msg.top_sound
