/-! scratch: slash-window arithmetic -/
def isTally (p h : Nat) : Prop := h % (2*p) = 2*p - 1

/-- current code: closes iff tally ∧ h % W = 0 -/
theorem current_never_closes (p W h : Nat) (hp : 0 < p) (hdiv : p ∣ W) (hW : 0 < W)
    (ht : isTally p h) (hc : h % W = 0) : p = 1 := by
  obtain ⟨k, rfl⟩ := hdiv
  have h1 : (p * k) ∣ h := Nat.dvd_of_mod_eq_zero hc
  have h2 : p ∣ h := Nat.dvd_trans (Nat.dvd_mul_right p k) h1
  unfold isTally at ht
  -- h = 2p*q + (2p-1)
  have h3 := Nat.div_add_mod h (2*p)
  rw [ht] at h3
  -- p ∣ 2p*q, so p ∣ 2p-1
  have h4 : p ∣ 2 * p * (h / (2*p)) := by
    rw [Nat.mul_assoc, Nat.mul_comm 2, Nat.mul_assoc]; exact Nat.dvd_mul_right p _
  have h5 : p ∣ 2*p - 1 := by
    have : p ∣ 2 * p * (h / (2*p)) + (2*p - 1) := by rw [h3]; exact h2
    exact (Nat.dvd_add_right h4).mp this
  -- p ∣ 2p - 1 and p ∣ 2p ⇒ p ∣ 1
  have h6 : p ∣ 2*p := Nat.dvd_mul_left p 2
  have h7 : p ∣ 2*p - (2*p - 1) := Nat.dvd_sub h6 h5
  have h8 : 2*p - (2*p - 1) = 1 := by omega
  rw [h8] at h7
  exact Nat.dvd_one.mp h7

/-- window index crossing characterisation -/
theorem div_lt_div_iff_crossing (a b W : Nat) (hW : 0 < W) :
    a / W < b / W ↔ ∃ i, a < i * W ∧ i * W ≤ b := by
  constructor
  · intro h
    refine ⟨b / W, ?_, Nat.div_mul_le_self b W⟩
    exact (Nat.div_lt_iff_lt_mul hW).mp h
  · rintro ⟨i, h1, h2⟩
    have : a / W < i := (Nat.div_lt_iff_lt_mul hW).mpr h1
    have : i ≤ b / W := (Nat.le_div_iff_mul_le hW).mpr h2
    omega
#print axioms current_never_closes
#print axioms div_lt_div_iff_crossing
