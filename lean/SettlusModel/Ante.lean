/-
  Admission and transaction execution: models of app/ante (routing, the settlus and the generic decorator chains as far as
  the properties depend on them, the fixed-fee checker, the fee split), app/post (fixed gas, fee burn), baseapp's
  ante / message / post atomicity, and authz dispatch of nested messages.
-/
import SettlusModel.Chain
import SettlusModel.Generated.Facts
namespace Settlus

inductive Kind
  | prevote | vote | consent
  | createTenant | createTenantMc | deposit | record | cancel | addAdmin | removeAdmin | setPeriod
  | send | exec | grant | createVal | delegate | ethTx | vesting
deriving DecidableEq, Repr

def urlOf : Kind → Str
  | .prevote => "/settlus.oracle.v1alpha1.MsgPrevote".toList
  | .vote => "/settlus.oracle.v1alpha1.MsgVote".toList
  | .consent => "/settlus.oracle.v1alpha1.MsgFeederDelegationConsent".toList
  | .createTenant => "/settlus.settlement.v1alpha1.MsgCreateTenant".toList
  | .createTenantMc => "/settlus.settlement.v1alpha1.MsgCreateTenantWithMintableContract".toList
  | .deposit => "/settlus.settlement.v1alpha1.MsgDepositToTreasury".toList
  | .record => "/settlus.settlement.v1alpha1.MsgRecord".toList
  | .cancel => "/settlus.settlement.v1alpha1.MsgCancel".toList
  | .addAdmin => "/settlus.settlement.v1alpha1.MsgAddTenantAdmin".toList
  | .removeAdmin => "/settlus.settlement.v1alpha1.MsgRemoveTenantAdmin".toList
  | .setPeriod => "/settlus.settlement.v1alpha1.MsgUpdateTenantPayoutPeriod".toList
  | .send => "/cosmos.bank.v1beta1.MsgSend".toList
  | .exec => "/cosmos.authz.v1beta1.MsgExec".toList
  | .grant => "/cosmos.authz.v1beta1.MsgGrant".toList
  | .createVal => "/cosmos.staking.v1beta1.MsgCreateValidator".toList
  | .delegate => "/cosmos.staking.v1beta1.MsgDelegate".toList
  | .ethTx => "/ethermint.evm.v1.MsgEthereumTx".toList
  | .vesting => "/cosmos.vesting.v1beta1.MsgCreateVestingAccount".toList

/-- message trees: settlement / oracle messages carry the operation of the chain model -/
inductive Msg
  | op (k : Kind) (o : Op)
  | send (src dst : String) (amt : Int) (denom : Str)
  | createVal (acct : String)
  | delegate (acct : String) (v : Nat) (amt : Int)
  | exec (grantee : String) (msgs : List Msg)
  | grant (granter grantee : String) (k : Kind)

def Msg.kind : Msg → Kind
  | .op k _ => k
  | .send .. => .send
  | .createVal _ => .createVal
  | .delegate .. => .delegate
  | .exec .. => .exec
  | .grant .. => .grant

def Msg.url (m : Msg) : Str := urlOf m.kind

def isSettlementUrl (u : Str) : Bool := Facts.settlementPrefix.isPrefixOf u
def isOracleUrl (u : Str) : Bool := Facts.oraclePrefix.isPrefixOf u

/-- `IsSettlementTx` / `isOracleTx`: non-empty and every top-level message has the prefix -/
def isSettlementTx (ms : List Msg) : Bool := !ms.isEmpty && ms.all (fun m => isSettlementUrl m.url)
def isOracleTx (ms : List Msg) : Bool := !ms.isEmpty && ms.all (fun m => isOracleUrl m.url)

/-- the account a message names as its signer (`GetSigners`), canonical; none when it does not decode -/
def Msg.signer : Msg → Option Acct
  | .op _ (.prevote f _ _ _) => decodeAcc f
  | .op _ (.vote f _ _ _ _) => decodeAcc f
  | .op _ (.consent v _) => (decodeVal v).map opAcc
  | .op _ (.createTenant a _ _ _) => decodeAcc a
  | .op _ (.deposit a _ _ _) => decodeAcc a
  | .op _ (.record a _ _ _ _ _ _ _) => decodeAcc a
  | .op _ (.cancel a _ _) => decodeAcc a
  | .op _ (.addAdmin a _ _) => decodeAcc a
  | .op _ (.removeAdmin a _ _) => decodeAcc a
  | .op _ (.setPeriod a _ _) => decodeAcc a
  | .op _ _ => none
  | .send a _ _ _ => decodeAcc a
  | .createVal a => decodeAcc a
  | .delegate a _ _ => decodeAcc a
  | .exec g _ => decodeAcc g
  | .grant g _ _ => decodeAcc g

/-! ### the authz limiter (Evmos `AuthzLimiterDecorator.checkDisabledMsgs`, with its level counting) -/

def isDisabled (u : Str) : Bool := Facts.authzDisabled.contains u

mutual
  /-- `checkDisabledMsgs msgs isAuthzInner lvl`: the level is bumped once per MsgExec met in the same list -/
  def limiterOk (inner : Bool) : Nat → List Msg → Bool
    | lvl, ms => if lvl ≥ 7 then false else limiterList inner lvl ms
  def limiterList (inner : Bool) : Nat → List Msg → Bool
    | _, [] => true
    | lvl, .exec _ ms :: rest => (if lvl + 1 ≥ 7 then false else limiterList true (lvl + 1) ms) && limiterList inner (lvl + 1) rest
    | lvl, .grant _ _ k :: rest => !isDisabled (urlOf k) && limiterList inner lvl rest
    | lvl, m :: rest => !(inner && isDisabled m.url) && limiterList inner lvl rest
end

/-! ### fees -/

/-- `CalculateGasCost` -/
def kindGas (k : Kind) : Nat :=
  Facts.settlementBasicGas + (if Facts.createTenantSuffixes.any (fun sfx => sfx.isSuffixOf (urlOf k)) then Facts.settlementCreateTenantGas else 0)

def msgGas (m : Msg) : Nat := kindGas m.kind

def fixedGas (ms : List Msg) : Nat := (ms.map msgGas).sum

def feeOffered (fee : List (Str × Nat)) (d : Str) : Nat := (alGet fee d).getD 0

/-- the settlement fee checker: the first configured denomination whose required amount the offer covers -/
def requiredFee (prices : List (Str × Nat)) (fee : List (Str × Nat)) (gas : Nat) : Option (Str × Nat) :=
  match prices.find? (fun p => feeOffered fee p.1 ≥ p.2 * gas / one18) with
  | some p => some (p.1, p.2 * gas / one18)
  | none => none

/-- `CalculateFees`: (fee collector part, oracle pool part) -/
def collectorPart (q f : Nat) : Nat := f * (one18 - q) / one18
def oraclePart (q f : Nat) : Nat := f * q / one18

structure AState where
  s : State
  grants : List (Acct × Acct × Str)         -- granter, grantee, type URL
  supply : Str → Nat
  prices : List (Str × Nat)

/-! ### message execution -/

/-- whether the operation is one a transaction can carry for this kind -/
def opMatches : Kind → Op → Bool
  | .prevote, .prevote .. => true
  | .vote, .vote .. => true
  | .consent, .consent .. => true
  | .createTenant, .createTenant _ _ _ none => true
  | .createTenantMc, .createTenant _ _ _ (some _) => true
  | .deposit, .deposit .. => true
  | .record, .record .. => true
  | .cancel, .cancel .. => true
  | .addAdmin, .addAdmin .. => true
  | .removeAdmin, .removeAdmin .. => true
  | .setPeriod, .setPeriod .. => true
  | _, _ => false

/-- the module accounts a history may name as the receiver of a bank send (distribution, oracle reward pool, fee collector): every
module account is on the bank's blocked list (app.go `BlockedModuleAccountAddrs`), so such a send passes basic validation and fails in the
handler -/
def isModuleTok (t : String) : Bool := t == "mdistr" || t == "mpool" || t == "mcollector"

mutual
  /-- the message handler behind the router; none = the message fails -/
  def execMsg (H : Str → Str) (a : AState) : Msg → Option AState
    | .op k o =>
      if opMatches k o = true ∧ isOk (step H a.s o).out = true then some { a with s := (step H a.s o).st } else none
    | .send src dst amt d =>
      match decodeAcc src, decodeAcc dst with
      | some x, some y =>
        if !validDenom d || amt ≤ 0 then none
        else match a.s.bank.send (.acct x) (.acct y) d amt.toNat with
          | some b => some { a with s := { a.s with bank := b } }
          | none => none
      | _, _ => none
    | .createVal _ => none      -- never admitted after genesis; creating a validator is outside the model
    | .delegate _ _ _ => some a
    | .grant g e k =>
      match decodeAcc g, decodeAcc e with
      | some x, some y => if x == y then none else
          some { a with grants := (a.grants.filter (fun t => !(t.1 == x && t.2.1 == y && t.2.2 == urlOf k))) ++ [(x, y, urlOf k)] }
      | _, _ => none
    | .exec grantee ms =>
      match decodeAcc grantee with
      | some g => dispatch H g a ms
      | none => none
  /-- authz `DispatchActions`: each inner message runs when its signer is the grantee or has granted its type to the grantee -/
  def dispatch (H : Str → Str) (grantee : Acct) (a : AState) : List Msg → Option AState
    | [] => some a
    | m :: rest =>
      match m.signer with
      | none => none
      | some granter =>
        if granter != grantee && !a.grants.contains (granter, grantee, m.url) then none
        else match execMsg H a m with
          | some a' => dispatch H grantee a' rest
          | none => none
end

def runMsgs (H : Str → Str) (a : AState) : List Msg → Option AState
  | [] => some a
  | m :: rest => match execMsg H a m with
    | some a' => runMsgs H a' rest
    | none => none

/-! ### ValidateBasic -/

mutual
  def basicOk : Msg → Bool
    | .op k o => opMatches k o && (match o with
        | .prevote f v _ _ => (decodeAcc f).isSome && (decodeVal v).isSome
        | .vote f v _ _ _ => (decodeAcc f).isSome && (decodeVal v).isSome
        | .consent v f => (decodeAcc f).isSome && (decodeVal v).isSome
        | .createTenant a d p mc => (decodeAcc a).isSome && !d.isEmpty && validDenom d && p != 0 &&
            (match mc with | some c => c.isEmpty || isHexAddress c | none => true)
        | .deposit a _ amt d => (decodeAcc a).isSome && (match amt with | some x => validDenom d && 0 < x | none => false)
        | .record a _ _ amt d _ c t => (decodeAcc a).isSome && recordBasic amt d c t
        | .cancel a _ _ => (decodeAcc a).isSome
        | .addAdmin a _ n => (decodeAcc a).isSome && (decodeAcc n).isSome
        | .removeAdmin a _ n => (decodeAcc a).isSome && (decodeAcc n).isSome
        | .setPeriod a _ p => (decodeAcc a).isSome && p != 0
        | _ => false)
    | .send src dst amt d => (decodeAcc src).isSome && ((decodeAcc dst).isSome || isModuleTok dst) && validDenom d && 0 < amt
    | .createVal a => (decodeAcc a).isSome
    | .delegate a _ amt => (decodeAcc a).isSome && 0 < amt
    | .exec g ms => (decodeAcc g).isSome && !ms.isEmpty && basicAll ms
    | .grant g e _ => (decodeAcc g).isSome && (decodeAcc e).isSome && decodeAcc g != decodeAcc e
  def basicAll : List Msg → Bool
    | [] => true
    | m :: r => basicOk m && basicAll r
end

/-! ### transactions -/

structure Tx where
  msgs : List Msg
  signers : List Acct            -- the accounts whose keys signed, in order
  payer : Option String
  fee : List (Str × Nat)
  gas : Nat
  granter : Option String := none   -- fee granter: an unsigned field of the transaction

def dedupS : List Acct → List Acct → List Acct
  | [], acc => acc.reverse
  | x :: r, acc => if acc.contains x then dedupS r acc else dedupS r (x :: acc)

/-- the signers the transaction requires: its messages' signers in order without repetition, then an explicit fee payer -/
def requiredSigners (tx : Tx) : Option (List Acct) :=
  if tx.msgs.any (fun m => m.signer.isNone) then none
  else
    let base := dedupS (tx.msgs.filterMap (·.signer)) []
    match tx.payer with
    | some p => match decodeAcc p with
      | some pa => some (if base.contains pa then base else base ++ [pa])
      | none => none
    | none => some base

def feePayer (tx : Tx) : Option Acct :=
  match tx.payer with
  | some p => decodeAcc p
  | none => match tx.msgs.head? with
    | some m => m.signer
    | none => none

/-- a fee granter other than the fee payer needs a fee allowance; no history grants one, so such a transaction is refused wherever
fees are deducted (the settlement route and the generic route) - and is of no consequence where they are not (oracle transactions) -/
def granterOk (tx : Tx) : Bool :=
  match tx.granter with
  | none => true
  | some g => (decodeAcc g).isSome && decodeAcc g == feePayer tx

/-- `ValidateFeeder` as the admission check calls it: with the validator's address decoded and written out again, that is under the
canonical (lower-case) spelling whatever the message spells. The validator exists and is bonded; the feeder is its operator or the
delegate stored under the canonical spelling. (A consent sent under the upper-case spelling is stored under that spelling and is
never looked at here.) -/
def validateFeeder (s : State) (feeder : Acct) (validator : String) : Bool :=
  match decodeVal validator with
  | none => false
  | some i => match getVal s.vals i with
    | none => false
    | some v => v.bonded && (feeder == opAcc i || (alGet s.os.feeders (valName i)).getD (opAcc i) == feeder)

/-- `validateGasPrices`: every entry is a valid denomination with a price that is not negative; the order is free, and so are
repetitions (the first entry an offer covers decides) -/
def pricesValid (ps : List (Str × Int)) : Bool := ps.all (fun p => validDenom p.1 && decide (0 ≤ p.2))

def validatorOfOracleMsg : Msg → Option String
  | .op _ (.prevote _ v _ _) => some v
  | .op _ (.vote _ v _ _ _) => some v
  | .op _ (.consent v _) => some v
  | _ => none

inductive Route | settlus | generic
deriving DecidableEq, Repr

def route (tx : Tx) : Route := if isOracleTx tx.msgs || isSettlementTx tx.msgs then .settlus else .generic

/-- the settlus RejectMessagesDecorator on the generic chain -/
def rejectTopLevel (h : Nat) (ms : List Msg) : Bool :=
  ms.any (fun m => Facts.rejectPrefixes.any (fun p => p.isPrefixOf m.url) || (h != 0 && Facts.rejectAfterGenesis.contains m.url) || m.kind == .ethTx)

structure TxRes where
  a : AState
  ok : Bool
  gasUsed : Option Nat := none
  charged : Option (Str × Nat) := none     -- fee taken by the settlement fee rule
  route : Route := .generic
  anteOk : Bool := false

def sigsOk (tx : Tx) : Bool := requiredSigners tx == some tx.signers

/-- burn decorator: after a successful transaction min(collector balance, offered fee) of each offered denom is burned -/
def burn (a : AState) (fee : List (Str × Nat)) : AState :=
  fee.foldl (fun acc f =>
    let bal := acc.s.bank .collector f.1
    let amt := min f.2 bal
    { acc with s := { acc.s with bank := acc.s.bank.debit .collector f.1 amt }, supply := fupd acc.supply f.1 (acc.supply f.1 - amt) }) a

def addPoolDenom (ds : List Str) (d : Str) (amt : Nat) : List Str :=
  if amt > 0 && !ds.contains d then ds ++ [d] else ds

/-- fee deduction of the settlus chain for a settlement transaction: the state after the two module transfers and what was
charged; none when the transaction is refused (zero gas limit, no covered denomination, payer unknown or short) -/
def feeStep (a : AState) (tx : Tx) : Option (AState × (Str × Nat)) :=
  if tx.gas == 0 || !granterOk tx then none
  else match requiredFee a.prices tx.fee (fixedGas tx.msgs), feePayer tx with
    | some (d, f), some p =>
      match a.s.bank.send (.acct p) .collector d (collectorPart a.s.st.params.oracleFee f) with
      | none => none
      | some b1 => match Bank.send b1 (.acct p) .pool d (oraclePart a.s.st.params.oracleFee f) with
        | none => none
        | some b2 =>
          some ({ a with s := { a.s with bank := b2, poolDenoms := addPoolDenom a.s.poolDenoms d (oraclePart a.s.st.params.oracleFee f) } }, (d, f))
    | _, _ => none

/-- the validator check of the settlus chain for an oracle transaction: exactly one message, and the fee payer may act for
the validator it names -/
def oracleValOk (a : AState) (tx : Tx) : Bool :=
  match tx.msgs, feePayer tx with
  | [m], some p => (match validatorOfOracleMsg m with
      | some v => validateFeeder a.s p v
      | none => false)
  | _, _ => false

def rejected (a : AState) (r : Route) : TxRes := { a := a, ok := false, route := r }

/-- messages and post handlers: atomic together on top of the ante state `a1` -/
def finishSettlus (H : Str → Str) (a1 : AState) (charged : Option (Str × Nat)) (oracle : Bool) (tx : Tx) : TxRes :=
  match runMsgs H a1 tx.msgs with
  | none => { a := a1, ok := false, charged := charged, route := .settlus, anteOk := true }
  | some a2 =>
    if !oracle && tx.gas < fixedGas tx.msgs then { a := a1, ok := false, charged := charged, route := .settlus, anteOk := true }
    else { a := burn a2 tx.fee, ok := true, gasUsed := if oracle then none else some (fixedGas tx.msgs), charged := charged, route := .settlus, anteOk := true }

def deliverSettlus (H : Str → Str) (a : AState) (tx : Tx) : TxRes :=
  if isOracleTx tx.msgs then
    if oracleValOk a tx && sigsOk tx then finishSettlus H a none true tx else rejected a .settlus
  else match feeStep a tx with
    | none => rejected a .settlus
    | some (a1, ch) => if sigsOk tx then finishSettlus H a1 (some ch) false tx else rejected a .settlus

def deliverGeneric (H : Str → Str) (a : AState) (tx : Tx) : TxRes :=
  if rejectTopLevel a.s.h tx.msgs || !limiterOk false 1 tx.msgs || !sigsOk tx || !granterOk tx then rejected a .generic
  else match runMsgs H a tx.msgs with
    | none => { a := a, ok := false, anteOk := true }
    | some a2 => { a := a2, ok := true, anteOk := true }

/-- `DeliverTx` -/
def deliverTx (H : Str → Str) (a : AState) (tx : Tx) : TxRes :=
  if tx.msgs.isEmpty || !basicAll tx.msgs then rejected a .generic
  else match route tx with
  | .settlus => deliverSettlus H a tx
  | .generic => deliverGeneric H a tx

end Settlus
