/-
  Invariant of the per-tenant record store: ascending ids below the counter, the request-id index mirrors the records,
  request ids are unique - and its preservation by every operation.
-/
import SettlusModel.Proofs.Frame
namespace Settlus

def entryOf (r : Rec) : Str × Nat := (r.req, r.id)

structure QInv (recs : List Rec) (index : List (Str × Nat)) (last : Option Nat) : Prop where
  asc : (recs.map (·.id)).Pairwise (· < ·)
  below : ∀ r ∈ recs, ∃ l, last = some l ∧ r.id ≤ l
  idx : index = recs.map entryOf
  reqs : (recs.map (·.req)).Nodup

def SInv (st : SState) : Prop := ∀ t, QInv (st.recs t) (st.index t) (st.last t)

/-! ### association-list facts about an index that mirrors the records -/

theorem alGet_map_entry (l : List Rec) (req : Str) :
    alGet (l.map entryOf) req = (l.find? (fun r => r.req == req)).map (·.id) := by
  induction l with
  | nil => rfl
  | cons r rest ih =>
    simp only [List.map_cons, alGet, entryOf, List.find?_cons]
    by_cases h : r.req = req
    · simp [h]
    · simp only [h, if_false]
      have : (r.req == req) = false := by simp [h]
      rw [this]
      exact ih

theorem alHas_map_entry (l : List Rec) (req : Str) : alHas (l.map entryOf) req = true ↔ ∃ r ∈ l, r.req = req := by
  unfold alHas
  rw [alGet_map_entry]
  simp only [Option.isSome_map, List.find?_isSome, beq_iff_eq]

theorem alErase_entry_cons (r : Rec) (l : List (Str × Nat)) (a : Str) :
    alErase (entryOf r :: l) a = if r.req = a then alErase l a else entryOf r :: alErase l a := rfl

theorem alGet_entry_cons (r : Rec) (l : List (Str × Nat)) (a : Str) :
    alGet (entryOf r :: l) a = if r.req = a then some r.id else alGet l a := rfl

theorem alErase_map_entry_notin (l : List Rec) (req : Str) (h : req ∉ l.map (·.req)) : alErase (l.map entryOf) req = l.map entryOf := by
  induction l with
  | nil => rfl
  | cons r rest ih =>
    simp only [List.map_cons, List.mem_cons, not_or] at h
    have : ¬ r.req = req := fun e => h.1 e.symm
    rw [List.map_cons, alErase_entry_cons]
    simp only [this, if_false]
    rw [ih h.2]

/-- erasing a request id from the index is removing the record with the id it maps to -/
theorem alErase_map_entry (l : List Rec) (req : Str) (id : Nat)
    (hn : (l.map (·.req)).Nodup) (hi : (l.map (·.id)).Nodup) (hg : alGet (l.map entryOf) req = some id) :
    alErase (l.map entryOf) req = (l.filter (fun r => r.id != id)).map entryOf := by
  induction l with
  | nil => simp [alGet] at hg
  | cons r rest ih =>
    simp only [List.map_cons, List.nodup_cons] at hn hi
    rw [List.map_cons, alGet_entry_cons] at hg
    rw [List.map_cons, alErase_entry_cons]
    by_cases h : r.req = req
    · simp only [h, if_true] at hg ⊢
      simp only [Option.some.injEq] at hg
      subst hg
      have hreq : req ∉ rest.map (·.req) := h ▸ hn.1
      rw [alErase_map_entry_notin rest req hreq]
      have : List.filter (fun x => x.id != r.id) (r :: rest) = rest := by
        simp only [List.filter_cons, bne_self_eq_false, Bool.false_eq_true, if_false]
        apply List.filter_eq_self.mpr
        intro x hx
        have : x.id ≠ r.id := fun e => hi.1 (List.mem_map.mpr ⟨x, hx, e⟩)
        simp [this]
      rw [this]
    · simp only [h, if_false] at hg ⊢
      have hne : r.id ≠ id := by
        intro e
        rw [alGet_map_entry] at hg
        simp only [Option.map_eq_some_iff] at hg
        obtain ⟨x, hx, hxid⟩ := hg
        have hxm := List.mem_of_find?_eq_some hx
        exact hi.1 (List.mem_map.mpr ⟨x, hxm, by omega⟩)
      have : List.filter (fun x => x.id != id) (r :: rest) = r :: rest.filter (fun x => x.id != id) := by
        simp [List.filter_cons, hne]
      rw [this, List.map_cons, ih hn.2 hi.2 hg]

theorem pairwise_lt_nodup (l : List Nat) (h : l.Pairwise (· < ·)) : l.Nodup := by
  induction l with
  | nil => exact List.nodup_nil
  | cons x r ih =>
    rw [List.pairwise_cons] at h
    rw [List.nodup_cons]
    refine ⟨fun hm => ?_, ih h.2⟩
    have := h.1 x hm
    omega

/-! ### preservation -/

theorem qinv_empty : QInv [] [] none := ⟨List.Pairwise.nil, by simp, rfl, List.nodup_nil⟩

/-- appending a record with the next id and an unused request id -/
theorem qinv_append (recs : List Rec) (last : Option Nat) (r : Rec) (h : QInv recs (recs.map entryOf) last)
    (hid : ∀ l, last = some l → l < r.id) (hreq : alHas (recs.map entryOf) r.req = false) :
    QInv (recs ++ [r]) (recs.map entryOf ++ [(r.req, r.id)]) (some r.id) := by
  refine ⟨?_, ?_, by simp [entryOf], ?_⟩
  · rw [List.map_append, List.pairwise_append]
    refine ⟨h.asc, by simp, ?_⟩
    intro a ha b hb
    simp only [List.map_cons, List.map_nil, List.mem_singleton] at hb
    subst hb
    obtain ⟨x, hx, rfl⟩ := List.mem_map.mp ha
    obtain ⟨l, hl, hle⟩ := h.below x hx
    have := hid l hl
    omega
  · intro x hx
    rcases List.mem_append.mp hx with hx | hx
    · obtain ⟨l, hl, hle⟩ := h.below x hx
      refine ⟨r.id, rfl, ?_⟩
      have := hid l hl
      omega
    · simp only [List.mem_singleton] at hx
      subst hx
      exact ⟨_, rfl, Nat.le_refl _⟩
  · rw [List.map_append, List.nodup_append]
    refine ⟨h.reqs, by simp, ?_⟩
    intro a ha b hb
    simp only [List.map_cons, List.map_nil, List.mem_singleton] at hb
    subst hb
    intro e
    have : alHas (recs.map entryOf) r.req = true := by
      rw [alHas_map_entry]
      obtain ⟨x, hx, hxe⟩ := List.mem_map.mp ha
      exact ⟨x, hx, by rw [hxe, e]⟩
    rw [this] at hreq
    cases hreq

theorem createUtxr_sinv (st : SState) (t : Nat) (req : Str) (amt : Int) (d : Str) (nft : Nft) (c : Nat) (rc : List Recipient)
    (h : SInv st) : SInv (createUtxr st t req amt d nft c rc).st := by
  unfold createUtxr
  split
  · exact h
  · rename_i hnh
    intro t'
    by_cases ht : t' = t
    · subst ht
      simp only [fupd_same]
      have ht' := h t'
      have hidx := ht'.idx
      rw [hidx] at hnh ⊢
      have := qinv_append (st.recs t') (st.last t')
        { id := nextId st t', req := req, amount := amt, denom := d, nft := nft, created := c, rcpt := rc }
        (by rw [← hidx]; exact ht') (by intro l hl; simp [nextId, hl]) (by simpa using hnh)
      exact this
    · simp only [fupd_other _ _ _ _ ht]
      exact h t'

/-- removing by request id (cancel) -/
theorem qinv_cancel (recs : List Rec) (last : Option Nat) (req : Str) (id : Nat) (h : QInv recs (recs.map entryOf) last)
    (hg : alGet (recs.map entryOf) req = some id) :
    QInv (recs.filter (fun r => r.id != id)) (alErase (recs.map entryOf) req) last := by
  have hidn := pairwise_lt_nodup _ h.asc
  refine ⟨?_, ?_, alErase_map_entry recs req id h.reqs hidn hg, ?_⟩
  · exact (h.asc.sublist ((List.filter_sublist).map _))
  · intro r hr; exact h.below r (List.mem_filter.mp hr).1
  · exact h.reqs.sublist ((List.filter_sublist).map _)

/-- dropping the head record together with its index entry (settlement) -/
theorem qinv_pop (r : Rec) (rest : List Rec) (last : Option Nat) (h : QInv (r :: rest) ((r :: rest).map entryOf) last) :
    QInv rest (alErase ((r :: rest).map entryOf) r.req) last ∧ alErase ((r :: rest).map entryOf) r.req = rest.map entryOf := by
  have hr : r.req ∉ rest.map (·.req) := by
    have := h.reqs
    simp only [List.map_cons, List.nodup_cons] at this
    exact this.1
  have e : alErase ((r :: rest).map entryOf) r.req = rest.map entryOf := by
    rw [List.map_cons, alErase_entry_cons]
    simp only [if_true]
    exact alErase_map_entry_notin rest r.req hr
  refine ⟨⟨?_, ?_, e, ?_⟩, e⟩
  · have := h.asc; simp only [List.map_cons, List.pairwise_cons] at this; exact this.2
  · intro x hx; exact h.below x (by simp [hx])
  · have := h.reqs; simp only [List.map_cons, List.nodup_cons] at this; exact this.2

/-- changing only recipients (the tally fill) -/
theorem qinv_fill (recs : List Rec) (last : Option Nat) (f : Rec → Rec) (hf : ∀ r, (f r).id = r.id ∧ (f r).req = r.req)
    (h : QInv recs (recs.map entryOf) last) : QInv (recs.map f) (recs.map entryOf) last := by
  have e1 : (recs.map f).map (·.id) = recs.map (·.id) := by simp [List.map_map, Function.comp_def, (hf _).1]
  have e2 : (recs.map f).map (·.req) = recs.map (·.req) := by simp [List.map_map, Function.comp_def, (hf _).2]
  have e3 : (recs.map f).map entryOf = recs.map entryOf := by simp [List.map_map, Function.comp_def, entryOf, (hf _).1, (hf _).2]
  refine ⟨by rw [e1]; exact h.asc, ?_, e3.symm, by rw [e2]; exact h.reqs⟩
  intro r hr
  obtain ⟨x, hx, rfl⟩ := List.mem_map.mp hr
  rw [(hf x).1]
  exact h.below x hx

theorem fillRec_ids (acc : List (Nft × Str)) (u : Nat) (r : Rec) : (fillRec acc u r).id = r.id ∧ (fillRec acc u r).req = r.req := by
  unfold fillRec
  split
  · split <;> simp
  · simp

end Settlus
