/-
  The store invariant `SInv` holds in every reachable state.
-/
import SettlusModel.Proofs.Queue
namespace Settlus

theorem qinv_idx {recs : List Rec} {index : List (Str × Nat)} {last : Option Nat} (h : QInv recs index last) :
    QInv recs (recs.map entryOf) last := by rw [← h.idx]; exact h

/-- the settle loop pops a prefix of the queue and keeps the invariant -/
theorem settleQ_qinv (h : Nat) (t : Tenant) (f : Option Nat) (last : Option Nat) :
    ∀ (l : List Rec) (b : Bank) (c : Nat), QInv l (l.map entryOf) last →
      QInv (settleQ h t f l b c (l.map entryOf)).remaining (settleQ h t f l b c (l.map entryOf)).index last ∧
      (settleQ h t f l b c (l.map entryOf)).index = (settleQ h t f l b c (l.map entryOf)).remaining.map entryOf ∧
      ∃ pre, l = pre ++ (settleQ h t f l b c (l.map entryOf)).remaining ∧
        (∀ id, (id ∈ (settleQ h t f l b c (l.map entryOf)).settled ∨ id ∈ (settleQ h t f l b c (l.map entryOf)).droppedIds) ↔ id ∈ pre.map (·.id)) := by
  intro l
  induction l with
  | nil => intro b c hq; simp [settleQ]; exact hq
  | cons r rest ih =>
    intro b c hq
    obtain ⟨hpop, hpe⟩ := qinv_pop r rest last hq
    unfold settleQ
    split
    · exact ⟨hq, rfl, [], rfl, by simp⟩
    · split
      · exact ⟨hq, rfl, [], rfl, by simp⟩
      · exact ⟨hq, rfl, [], rfl, by simp⟩
      · rw [hpe]
        rw [hpe] at hpop
        obtain ⟨i1, i2, pre, i3, i4⟩ := ih b c hpop
        refine ⟨i1, i2, r :: pre, by simp [← i3], ?_⟩
        intro id
        simp only [List.mem_cons, List.map_cons]
        rw [← i4 id]
        constructor
        · rintro (h | h | h)
          · exact Or.inr (Or.inl h)
          · exact Or.inl h
          · exact Or.inr (Or.inr h)
        · rintro (h | h | h)
          · exact Or.inr (Or.inl h)
          · exact Or.inl h
          · exact Or.inr (Or.inr h)
      · rename_i b' c' ev _
        rw [hpe]
        rw [hpe] at hpop
        obtain ⟨i1, i2, pre, i3, i4⟩ := ih b' c' hpop
        refine ⟨i1, i2, r :: pre, by simp [← i3], ?_⟩
        intro id
        simp only [List.mem_cons, List.map_cons]
        rw [← i4 id]
        constructor
        · rintro ((h | h) | h)
          · exact Or.inl h
          · exact Or.inr (Or.inl h)
          · exact Or.inr (Or.inr h)
        · rintro (h | h | h)
          · exact Or.inl (Or.inl h)
          · exact Or.inl (Or.inr h)
          · exact Or.inr h

end Settlus

namespace Settlus

theorem settleAll_sinv (h : Nat) (f : Option Nat) (ts : List Tenant) :
    ∀ (s : State) (c : Nat), SInv s.st → SInv (settleAll h f ts s c).st.st := by
  induction ts with
  | nil => intro s c hs; simpa [settleAll] using hs
  | cons t r ih =>
    intro s c hs
    have hq := qinv_idx (hs t.id)
    have e : s.st.index t.id = (s.st.recs t.id).map entryOf := (hs t.id).idx
    obtain ⟨q1, _, _⟩ := settleQ_qinv h t f (s.st.last t.id) (s.st.recs t.id) s.bank c hq
    rw [← e] at q1
    have hs' : SInv ({ s with
        bank := (settleQ h t f (s.st.recs t.id) s.bank c (s.st.index t.id)).bank,
        st := { s.st with recs := fupd s.st.recs t.id (settleQ h t f (s.st.recs t.id) s.bank c (s.st.index t.id)).remaining,
                          index := fupd s.st.index t.id (settleQ h t f (s.st.recs t.id) s.bank c (s.st.index t.id)).index },
        log := s.log ++ (settleQ h t f (s.st.recs t.id) s.bank c (s.st.index t.id)).events } : State).st := by
      intro t'
      by_cases ht : t' = t.id
      · subst ht; simpa using q1
      · simp only [fupd_other _ _ _ _ ht]; exact hs t'
    unfold settleAll
    simp only
    split
    · exact hs'
    · exact ih _ _ hs'

theorem setRecipients_sinv (st : SState) (acc : List (Nft × Str)) (u : Nat) (h : SInv st) : SInv (setRecipients st acc u) := by
  intro t
  unfold setRecipients
  simp only
  have := qinv_fill (st.recs t) (st.last t) (fillRec acc u) (fillRec_ids acc u) (qinv_idx (h t))
  rw [← (h t).idx] at this
  exact this

theorem oracleEndBlock_sinv (s : State) (h : SInv s.st) : SInv (oracleEndBlock s).st.st := by
  unfold oracleEndBlock
  by_cases ht : (s.h : Int) = voteEnd s.h s.os.params.votePeriod
  · by_cases hc : slashWindowClosing s.h s.os.params.votePeriod s.os.params.slashWindow = true
    · by_cases h0 : roundStart s.h s.os.params.votePeriod = 0
      · simpa [ht, hc, h0] using h
      · simp only [ht, hc, h0]; simp; exact setRecipients_sinv _ _ _ h
    · by_cases h0 : roundStart s.h s.os.params.votePeriod = 0
      · simpa [ht, hc, h0] using h
      · simp only [ht, hc, h0]; simp; exact setRecipients_sinv _ _ _ h
  · simpa [ht] using h

theorem cancel_sinv (s : State) (a : String) (t : Nat) (r : Str) (h : SInv s.st) : SInv (cancel s a t r).st.st := by
  unfold cancel
  split
  · rename_i id hp
    obtain ⟨_, hg⟩ := cancelPlan_some hp
    intro t'
    by_cases ht : t' = t
    · subst ht
      simp only [fupd_same]
      have hq := qinv_idx (h t')
      have e := (h t').idx
      rw [e] at hg ⊢
      exact qinv_cancel _ _ r id hq hg
    · simp only [fupd_other _ _ _ _ ht]; exact h t'
  · exact h

/-- every operation keeps the store invariant -/
theorem step_sinv (H : Str → Str) (s : State) (op : Op) (h : SInv s.st) : SInv (step H s op).st.st := by
  cases op
  case createTenant a d p mc => simp only [step, ofS, createTenant]; split <;> exact h
  case deposit a t amt d => simp only [step, ofS, deposit]; split <;> exact h
  case record a t r amt d ch c tok =>
    simp only [step, ofS, record]
    split
    · rename_i p hp
      obtain ⟨_, amount, _, _, _, _, _, _, _, _, _, _, _, hst⟩ := recordPlan_some hp
      simp only [hst]
      exact createUtxr_sinv _ _ _ _ _ _ _ _ h
    · exact h
  case cancel a t r => exact cancel_sinv s a t r h
  case addAdmin a t n => simp only [step, ofS, addAdmin]; split <;> exact h
  case removeAdmin a t n => simp only [step, ofS, removeAdmin]; split <;> exact h
  case setPeriod a t p => simp only [step, ofS, setPeriod]; split <;> exact h
  case inject t req amt d nft created rc =>
    simp only [step]
    split
    · exact createUtxr_sinv _ _ _ _ _ _ _ _ h
    · exact h
  case fund a amt d =>
    simp only [step]
    split
    · exact h
    · split <;> exact h
  case fundPool amt d => simp only [step]; split <;> exact h
  case setOwner c t o => exact h
  case prevote f v hh r =>
    simp only [step, ofS, prevote]
    repeat' split
    all_goals exact h
  case vote f v salt r vds =>
    simp only [step, ofS, vote]
    repeat' split
    all_goals exact h
  case consent v f =>
    simp only [step, ofS, consent]
    repeat' split
    all_goals exact h
  case setOParams vp thr frac w m => simp only [step]; split <;> exact h
  case setSParams fee chains => simp only [step]; split <;> exact h
  case setVal i power b j pb => simp only [step]; split <;> exact h
  case failAt k => exact h
  case block =>
    simp only [step, blockStep]
    exact settleAll_sinv _ _ _ _ _ (oracleEndBlock_sinv s h)
  case dump => exact h

theorem run_sinv (H : Str → Str) (ops : List Op) : ∀ s : State, SInv s.st → SInv (run H s ops).st := by
  induction ops with
  | nil => intro s h; exact h
  | cons op r ih => intro s h; exact ih _ (step_sinv H s op h)

theorem init_sinv (pr : Nat) (c : Bool) : SInv (initState pr c).st := by
  intro t
  simp only [initState]
  exact qinv_empty

/-- the store invariant holds in every state reachable from genesis -/
theorem reachable_sinv (H : Str → Str) (pr : Nat) (c : Bool) (ops : List Op) : SInv (run H (initState pr c) ops).st :=
  run_sinv H ops _ (init_sinv pr c)

end Settlus
