/-
  Which transactions can change a validator's ballot or feeder delegation.
-/
import SettlusModel.Proofs.AnteLemmas
namespace Settlus

/-- settlement messages never touch the oracle state -/
theorem step_settlement_keeps_os (H : Str → Str) (s : State) (k : Kind) (o : Op) (hm : opMatches k o = true) (hk : isSettlementUrl (urlOf k) = true) :
    (step H s o).st.os = s.os ∧ (step H s o).st.vals = s.vals := by
  have hkinds := (settlement_kinds k).mp hk
  cases o <;> cases k <;> simp [opMatches] at hm <;> simp at hkinds
  case createTenant.createTenant a d p mc => simp only [step, ofS, createTenant]; split <;> exact ⟨rfl, rfl⟩
  case createTenant.createTenantMc a d p mc => simp only [step, ofS, createTenant]; split <;> exact ⟨rfl, rfl⟩
  case deposit.deposit a t amt d => simp only [step, ofS, deposit]; split <;> exact ⟨rfl, rfl⟩
  case record.record a t r amt d ch c tok => simp only [step, ofS, record]; split <;> exact ⟨rfl, rfl⟩
  case cancel.cancel a t r => simp only [step, ofS, cancel]; split <;> exact ⟨rfl, rfl⟩
  case addAdmin.addAdmin a t n => simp only [step, ofS, addAdmin]; split <;> exact ⟨rfl, rfl⟩
  case removeAdmin.removeAdmin a t n => simp only [step, ofS, removeAdmin]; split <;> exact ⟨rfl, rfl⟩
  case setPeriod.setPeriod a t p => simp only [step, ofS, setPeriod]; split <;> exact ⟨rfl, rfl⟩

/-- a top-level message with a settlement URL is a settlement operation -/
theorem settlementUrl_is_op (m : Msg) (h : isSettlementUrl m.url = true) : ∃ k o, m = .op k o ∧ isSettlementUrl (urlOf k) = true := by
  cases m
  case op k o => exact ⟨k, o, rfl, h⟩
  all_goals (exfalso; revert h; simp only [Msg.url, Msg.kind]; decide)

theorem runMsgs_settlement_keeps_os (H : Str → Str) : ∀ (ms : List Msg) (a a' : AState), (∀ m ∈ ms, isSettlementUrl m.url = true) →
    runMsgs H a ms = some a' → a'.s.os = a.s.os ∧ a'.s.vals = a.s.vals := by
  intro ms
  induction ms with
  | nil => intro a a' _ he; simp only [runMsgs, Option.some.injEq] at he; subst he; exact ⟨rfl, rfl⟩
  | cons m rest ih =>
    intro a a' hs he
    obtain ⟨k, o, hmo, hk⟩ := settlementUrl_is_op m (hs m (by simp))
    subst hmo
    unfold runMsgs at he
    split at he
    · rename_i a1 h1
      unfold execMsg at h1
      split at h1
      · rename_i hm
        simp only [Option.some.injEq] at h1
        subst h1
        have hr := ih _ a' (fun x hx => hs x (by simp [hx])) he
        have hst := step_settlement_keeps_os H a.s k o hm.1 hk
        exact ⟨hr.1.trans hst.1, hr.2.trans hst.2⟩
      · cases h1
    · cases he

/-- the keys of the ballot stores an oracle message can write: only the validator string it names -/
theorem prevote_only_its_key (s : State) (f v : String) (hh : Str) (r : Nat) (k : String) (hk : k ≠ v) :
    alGet (prevote s f v hh r).st.os.prevotes k = alGet s.os.prevotes k ∧ (prevote s f v hh r).st.os.votes = s.os.votes ∧
    (prevote s f v hh r).st.os.feeders = s.os.feeders := by
  unfold prevote
  repeat' split
  all_goals first | exact ⟨rfl, rfl, rfl⟩ | skip
  all_goals (refine ⟨?_, rfl, rfl⟩)
  all_goals (simp only; exact alGet_alSet_ne _ _ _ _ hk)

end Settlus

namespace Settlus

/-- burning the collector's fees touches balances and supply only -/
theorem burn_keeps (a : AState) (fee : List (Str × Nat)) :
    (burn a fee).s.st = a.s.st ∧ (burn a fee).s.os = a.s.os ∧ (burn a fee).s.vals = a.s.vals := by
  unfold burn
  induction fee generalizing a with
  | nil => exact ⟨rfl, rfl, rfl⟩
  | cons f r ih =>
    simp only [List.foldl_cons]
    have := ih { a with s := { a.s with bank := a.s.bank.debit .collector f.1 (min f.2 (a.s.bank .collector f.1)) },
                        supply := fupd a.supply f.1 (a.supply f.1 - min f.2 (a.s.bank .collector f.1)) }
    exact this

theorem burn_keeps_st (a : AState) (fee : List (Str × Nat)) : (burn a fee).s.st = a.s.st := (burn_keeps a fee).1

def ballotOf (s : State) (k : String) : Option Str × Option (List VoteData) := (alGet s.os.prevotes k, alGet s.os.votes k)
def delegationOf (s : State) (k : String) : Option Acct := alGet s.os.feeders k

/-- an oracle message writes only under the validator string it names, and only a consent writes a delegation -/
theorem oracle_msg_effect (H : Str → Str) (a a' : AState) (m : Msg) (v : String) (hv : validatorOfOracleMsg m = some v)
    (he : execMsg H a m = some a') :
    (∀ k, k ≠ v → ballotOf a'.s k = ballotOf a.s k ∧ delegationOf a'.s k = delegationOf a.s k) ∧
    ((∀ f, m ≠ .op .consent (.consent v f)) → a'.s.os.feeders = a.s.os.feeders) := by
  match m, hv with
  | .op k (.prevote f v' hh r), hv =>
    simp only [validatorOfOracleMsg, Option.some.injEq] at hv
    subst hv
    unfold execMsg at he
    split at he
    · simp only [Option.some.injEq] at he
      subst he
      simp only [step, ofS]
      refine ⟨fun k hk => ?_, fun _ => ?_⟩
      · have := prevote_only_its_key a.s f v' hh r k hk
        unfold ballotOf delegationOf
        rw [this.1, this.2.1, this.2.2]; exact ⟨rfl, rfl⟩
      · unfold prevote; repeat' split
        all_goals rfl
    · cases he
  | .op k (.vote f v' salt r vds), hv =>
    simp only [validatorOfOracleMsg, Option.some.injEq] at hv
    subst hv
    unfold execMsg at he
    split at he
    · simp only [Option.some.injEq] at he
      subst he
      simp only [step, ofS]
      have key : ∀ k, k ≠ v' → alGet (vote H a.s f v' salt r vds).st.os.prevotes k = alGet a.s.os.prevotes k ∧
            alGet (vote H a.s f v' salt r vds).st.os.votes k = alGet a.s.os.votes k ∧ (vote H a.s f v' salt r vds).st.os.feeders = a.s.os.feeders := by
        intro k hk
        unfold vote
        repeat' split
        all_goals first | exact ⟨rfl, rfl, rfl⟩ | skip
        all_goals exact ⟨alGet_alErase_ne _ _ _ hk, alGet_alSet_ne _ _ _ _ hk, rfl⟩
      refine ⟨fun k hk => ?_, fun _ => ?_⟩
      · unfold ballotOf delegationOf
        rw [(key k hk).1, (key k hk).2.1, (key k hk).2.2]; exact ⟨rfl, rfl⟩
      · unfold vote; repeat' split
        all_goals rfl
    · cases he
  | .op k (.consent v' f), hv =>
    simp only [validatorOfOracleMsg, Option.some.injEq] at hv
    subst hv
    unfold execMsg at he
    split at he
    · rename_i hm
      have hk : k = .consent := by
        have := hm.1
        cases k <;> simp [opMatches] at this <;> rfl
      subst hk
      simp only [Option.some.injEq] at he
      subst he
      simp only [step, ofS]
      refine ⟨fun k hk => ?_, fun hne => absurd rfl (hne f)⟩
      unfold ballotOf delegationOf consent
      repeat' split
      all_goals first | exact ⟨rfl, rfl⟩ | skip
      all_goals exact ⟨rfl, alGet_alSet_ne _ _ _ _ hk⟩
    · cases he

theorem mem_dedupS : ∀ (l acc : List Acct) (x : Acct), x ∈ dedupS l acc ↔ x ∈ acc ∨ x ∈ l
  | [], acc, x => by simp [dedupS]
  | y :: r, acc, x => by
    unfold dedupS
    by_cases c : acc.contains y = true
    · simp only [c, if_true]
      rw [mem_dedupS r acc x]
      have : y ∈ acc := List.contains_iff_mem.mp c
      constructor
      · rintro (h | h); exact Or.inl h; exact Or.inr (by simp [h])
      · rintro (h | h)
        · exact Or.inl h
        · rcases List.mem_cons.mp h with rfl | h
          · exact Or.inl this
          · exact Or.inr h
    · simp only [c, if_false, Bool.false_eq_true]
      rw [mem_dedupS r (y :: acc) x]
      simp only [List.mem_cons]
      constructor
      · rintro ((h | h) | h)
        · exact Or.inr (Or.inl h)
        · exact Or.inl h
        · exact Or.inr (Or.inr h)
      · rintro (h | h | h)
        · exact Or.inl (Or.inr h)
        · exact Or.inl (Or.inl h)
        · exact Or.inr h

/-- every message's signer and the fee payer are among the signers a transaction requires -/
theorem required_contains (tx : Tx) (l : List Acct) (h : requiredSigners tx = some l) :
    (∀ m ∈ tx.msgs, ∀ x, m.signer = some x → x ∈ l) ∧ (∀ p, feePayer tx = some p → p ∈ l) := by
  unfold requiredSigners at h
  split at h
  · cases h
  · have base : ∀ m ∈ tx.msgs, ∀ x, m.signer = some x → x ∈ dedupS (tx.msgs.filterMap (·.signer)) [] := by
      intro m hm x hx
      rw [mem_dedupS]
      exact Or.inr (List.mem_filterMap.mpr ⟨m, hm, hx⟩)
    cases hp : tx.payer with
    | none =>
      simp only [hp, Option.some.injEq] at h
      subst h
      refine ⟨base, ?_⟩
      intro p hfp
      unfold feePayer at hfp
      simp only [hp] at hfp
      cases hh : tx.msgs.head? with
      | none => simp [hh] at hfp
      | some m =>
        simp only [hh] at hfp
        exact base m (List.mem_of_mem_head? hh) p hfp
    | some pt =>
      simp only [hp] at h
      cases hd : decodeAcc pt with
      | none => simp [hd] at h
      | some pa =>
        simp only [hd, Option.some.injEq] at h
        subst h
        constructor
        · intro m hm x hx
          have := base m hm x hx
          split
          · exact this
          · exact List.mem_append_left _ this
        · intro p hfp
          unfold feePayer at hfp
          simp only [hp, hd, Option.some.injEq] at hfp
          subst hfp
          split
          · rename_i hc; exact List.contains_iff_mem.mp hc
          · simp

end Settlus

namespace Settlus

theorem runMsgs_oracle_keeps_st (H : Str → Str) : ∀ (ms : List Msg) (a a' : AState), (∀ m ∈ ms, isOracleUrl m.url = true) →
    runMsgs H a ms = some a' → a'.s.st = a.s.st := by
  intro ms
  induction ms with
  | nil => intro a a' _ he; simp only [runMsgs, Option.some.injEq] at he; subst he; rfl
  | cons m rest ih =>
    intro a a' hall hm
    unfold runMsgs at hm
    split at hm
    · rename_i a1 h1
      have hk := hall m (by simp)
      have hrest := ih a1 a' (fun x hx => hall x (by simp [hx])) hm
      rw [hrest]
      cases m
      case op k o =>
        unfold execMsg at h1
        split at h1
        · rename_i hmm
          simp only [Option.some.injEq] at h1
          subst h1
          have hkk := (oracle_kinds k).mp hk
          have hmm1 := hmm.1
          rcases hkk with rfl | rfl | rfl <;> cases o <;> simp [opMatches] at hmm1
          · simp only [step, ofS, prevote]; repeat' split
            all_goals rfl
          · simp only [step, ofS, vote]; repeat' split
            all_goals rfl
          · simp only [step, ofS, consent]; repeat' split
            all_goals rfl
        · cases h1
      all_goals (exfalso; revert hk; simp only [Msg.url, Msg.kind]; decide)
    · cases hm

theorem finishSettlus_oracle_keeps_st (H : Str → Str) (a : AState) (ch : Option (Str × Nat)) (tx : Tx)
    (hall : ∀ m ∈ tx.msgs, isOracleUrl m.url = true) : (finishSettlus H a ch true tx).a.s.st = a.s.st := by
  unfold finishSettlus
  cases hm : runMsgs H a tx.msgs with
  | none => rfl
  | some a2 =>
    simp only [Bool.not_true, Bool.false_and, Bool.false_eq_true, if_false]
    rw [burn_keeps_st]
    exact runMsgs_oracle_keeps_st H tx.msgs a a2 hall hm

/-- an oracle-only transaction cannot touch the settlement store -/
theorem oracle_tx_keeps_st (H : Str → Str) (a : AState) (tx : Tx) (ho : isOracleTx tx.msgs = true) : (deliverTx H a tx).a.s.st = a.s.st := by
  have hr : route tx = .settlus := by unfold route; simp [ho]
  have hall : ∀ m ∈ tx.msgs, isOracleUrl m.url = true := by
    unfold isOracleTx at ho
    simp only [Bool.and_eq_true, List.all_eq_true] at ho
    exact ho.2
  unfold deliverTx
  by_cases hb : (tx.msgs.isEmpty || !basicAll tx.msgs) = true
  · simp [hb, rejected]
  · simp only [hb, hr, Bool.false_eq_true, if_false]
    unfold deliverSettlus
    simp only [ho, if_true]
    by_cases hc : (oracleValOk a tx && sigsOk tx) = true
    · simp only [hc, if_true]; exact finishSettlus_oracle_keeps_st H a none tx hall
    · simp [hc, rejected]

end Settlus
