/-
  Frame conditions: which parts of the state each operation can touch.
-/
import SettlusModel.Proofs.Settle
namespace Settlus

theorem createUtxr_frame (st : SState) (t : Nat) (req : Str) (amt : Int) (d : Str) (nft : Nft) (c : Nat) (rc : List Recipient) :
    (createUtxr st t req amt d nft c rc).st.tenants = st.tenants ∧ (createUtxr st t req amt d nft c rc).st.params = st.params := by
  unfold createUtxr
  split <;> simp

theorem settleAll_tenants (h : Nat) (f : Option Nat) (ts : List Tenant) (s : State) (calls : Nat) :
    (settleAll h f ts s calls).st.st.tenants = s.st.tenants ∧ (settleAll h f ts s calls).st.os = s.os ∧
    (settleAll h f ts s calls).st.vals = s.vals ∧ (settleAll h f ts s calls).st.st.params = s.st.params ∧
    (settleAll h f ts s calls).st.st.last = s.st.last := by
  induction ts generalizing s calls with
  | nil => simp [settleAll]
  | cons t r ih =>
    unfold settleAll
    simp only
    split
    · simp
    · have := ih { s with bank := (settleQ h t f (s.st.recs t.id) s.bank calls (s.st.index t.id)).bank,
                          st := { s.st with recs := fupd s.st.recs t.id (settleQ h t f (s.st.recs t.id) s.bank calls (s.st.index t.id)).remaining,
                                            index := fupd s.st.index t.id (settleQ h t f (s.st.recs t.id) s.bank calls (s.st.index t.id)).index },
                          log := s.log ++ (settleQ h t f (s.st.recs t.id) s.bank calls (s.st.index t.id)).events }
                    (settleQ h t f (s.st.recs t.id) s.bank calls (s.st.index t.id)).calls
      simpa using this

theorem oracleEndBlock_tenants (s : State) :
    (oracleEndBlock s).st.st.tenants = s.st.tenants ∧ (oracleEndBlock s).st.st.params = s.st.params ∧
    (oracleEndBlock s).st.st.last = s.st.last ∧ (oracleEndBlock s).st.st.index = s.st.index := by
  unfold oracleEndBlock
  by_cases ht : (s.h : Int) = voteEnd s.h s.os.params.votePeriod
  · by_cases hc : slashWindowClosing s.h s.os.params.votePeriod s.os.params.slashWindow = true
    · by_cases h0 : roundStart s.h s.os.params.votePeriod = 0 <;> simp [ht, hc, h0, setRecipients]
    · by_cases h0 : roundStart s.h s.os.params.votePeriod = 0 <;> simp [ht, hc, h0, setRecipients]
  · simp [ht]

theorem blockStep_tenants (s : State) : (blockStep s).st.st.tenants = s.st.tenants := by
  unfold blockStep
  simp only
  rw [(settleAll_tenants _ _ _ _ _).1, (oracleEndBlock_tenants s).1]

/-- operations other than the four tenant-changing messages leave the tenant list alone -/
theorem step_tenants (H : Str → Str) (s : State) (op : Op)
    (h : match op with
      | .createTenant .. => False | .addAdmin .. => False | .removeAdmin .. => False | .setPeriod .. => False | _ => True) :
    (step H s op).st.st.tenants = s.st.tenants := by
  cases op <;> simp only at h
  case deposit a t amt d => simp only [step, ofS, deposit]; split <;> rfl
  case record a t r amt d ch c tok =>
    simp only [step, ofS, record]
    split
    · rename_i p hp
      obtain ⟨_, amount, _, _, _, _, _, _, _, _, _, _, _, hst⟩ := recordPlan_some hp
      simp only [hst, (createUtxr_frame _ _ _ _ _ _ _ _).1]
    · rfl
  case cancel a t r => simp only [step, ofS, cancel]; split <;> rfl
  case inject t req amt d nft created rc =>
    simp only [step]
    split <;> simp [(createUtxr_frame _ _ _ _ _ _ _ _).1]
  case fund a amt d =>
    simp only [step]
    split
    · rfl
    · split <;> rfl
  case fundPool amt d => simp only [step]; split <;> rfl
  case setOwner c t o => rfl
  case prevote f v hh r =>
    simp only [step, ofS, prevote]
    repeat' split
    all_goals rfl
  case vote f v salt r vds =>
    simp only [step, ofS, vote]
    repeat' split
    all_goals rfl
  case consent v f =>
    simp only [step, ofS, consent]
    repeat' split
    all_goals rfl
  case setOParams vp thr frac w m => simp only [step]; split <;> rfl
  case setSParams fee chains => simp only [step]; split <;> rfl
  case setVal i power b j pb => simp only [step]; split <;> rfl
  case failAt k => rfl
  case block => exact blockStep_tenants s
  case dump => rfl

end Settlus
