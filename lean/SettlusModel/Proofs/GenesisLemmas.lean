/-
  Lemmas for the genesis round trip: the list of tenants with records, and importing an exported record list.
-/
import SettlusModel.Genesis
import SettlusModel.Proofs.Inv
namespace Settlus

/-! ### the tenant list of the record store -/

def Covers (st : SState) : Prop := st.recTenants.Pairwise (· < ·) ∧ ∀ t, st.recs t ≠ [] → t ∈ st.recTenants

theorem insertSorted_mem (n x : Nat) (l : List Nat) : x ∈ insertSorted n l ↔ x = n ∨ x ∈ l := by
  induction l with
  | nil => simp [insertSorted]
  | cons y r ih =>
    unfold insertSorted
    split
    · simp
    · split
      · rename_i _ heq; subst heq; simp
      · simp only [List.mem_cons, ih]
        constructor
        · rintro (h | h | h)
          · exact Or.inr (Or.inl h)
          · exact Or.inl h
          · exact Or.inr (Or.inr h)
        · rintro (h | h | h)
          · exact Or.inr (Or.inl h)
          · exact Or.inl h
          · exact Or.inr (Or.inr h)

theorem insertSorted_sorted (n : Nat) (l : List Nat) (h : l.Pairwise (· < ·)) : (insertSorted n l).Pairwise (· < ·) := by
  induction l with
  | nil => simp [insertSorted]
  | cons y r ih =>
    rw [List.pairwise_cons] at h
    unfold insertSorted
    split
    · rename_i hlt
      rw [List.pairwise_cons]
      refine ⟨?_, List.pairwise_cons.mpr h⟩
      intro a ha
      rcases List.mem_cons.mp ha with rfl | ha
      · exact hlt
      · have := h.1 a ha; omega
    · split
      · exact List.pairwise_cons.mpr h
      · rename_i hnlt hne
        rw [List.pairwise_cons]
        refine ⟨?_, ih h.2⟩
        intro a ha
        rcases (insertSorted_mem n a r).mp ha with rfl | ha
        · omega
        · exact h.1 a ha

theorem createUtxr_covers (st : SState) (t : Nat) (req : Str) (amt : Int) (d : Str) (nft : Nft) (c : Nat) (rc : List Recipient)
    (h : Covers st) : Covers (createUtxr st t req amt d nft c rc).st := by
  unfold createUtxr
  split
  · exact h
  · refine ⟨insertSorted_sorted t _ h.1, ?_⟩
    intro t' hne
    simp only at hne ⊢
    rw [insertSorted_mem]
    by_cases e : t' = t
    · exact Or.inl e
    · right
      simp only [fupd_other _ _ _ _ e] at hne
      exact h.2 t' hne

/-- shrinking record lists (cancel, settlement) or rewriting them in place (fill) keeps the cover -/
theorem covers_of_subset (st st' : SState) (h : Covers st) (hr : st'.recTenants = st.recTenants)
    (hs : ∀ t, st'.recs t ≠ [] → st.recs t ≠ []) : Covers st' := by
  refine ⟨by rw [hr]; exact h.1, ?_⟩
  intro t hne
  rw [hr]
  exact h.2 t (hs t hne)

/-! ### importing -/

/-- importing a list of records for one tenant on top of a well-formed store appends them, provided ids and request ids are fresh -/
theorem importUtxr_some (st : SState) (t : Nat) (r : Rec) (hidx : st.index t = (st.recs t).map entryOf)
    (hreq : r.req ∉ (st.recs t).map (·.req)) (hid : r.id ∉ (st.recs t).map (·.id)) :
    ∃ st', importUtxr st t r = some st' ∧ st'.recs t = st.recs t ++ [r] ∧ st'.index t = (st'.recs t).map entryOf ∧
      (∀ t', t' ≠ t → st'.recs t' = st.recs t' ∧ st'.index t' = st.index t') ∧ st'.params = st.params ∧ st'.tenants = st.tenants := by
  unfold importUtxr
  have h1 : alHas (st.index t) r.req = false := by
    cases hh : alHas (st.index t) r.req
    · rfl
    · rw [hidx, alHas_map_entry] at hh
      obtain ⟨x, hx, hxe⟩ := hh
      exact absurd (List.mem_map.mpr ⟨x, hx, hxe⟩) hreq
  have h2 : (st.recs t).any (fun x => x.id == r.id) = false := by
    cases hh : (st.recs t).any (fun x => x.id == r.id)
    · rfl
    · simp only [List.any_eq_true, beq_iff_eq] at hh
      obtain ⟨x, hx, hxe⟩ := hh
      exact absurd (List.mem_map.mpr ⟨x, hx, hxe⟩) hid
  simp only [h1, h2, Bool.or_self, Bool.false_eq_true, if_false]
  refine ⟨_, rfl, by simp, by simp [hidx, entryOf], ?_, rfl, rfl⟩
  intro t' hne
  simp [fupd_other _ _ _ _ hne]

end Settlus

namespace Settlus

theorem insertSorted_max (n : Nat) (l : List Nat) (h : ∀ x ∈ l, x < n) : insertSorted n l = l ++ [n] := by
  induction l with
  | nil => rfl
  | cons y r ih =>
    have hy := h y (by simp)
    unfold insertSorted
    have h1 : ¬ n < y := by omega
    have h2 : ¬ n = y := by omega
    simp only [h1, h2, if_false]
    rw [ih (fun x hx => h x (by simp [hx]))]
    rfl

theorem insertSorted_idem (n : Nat) (l : List Nat) (h : l.Pairwise (· < ·)) (hm : n ∈ l) : insertSorted n l = l := by
  induction l with
  | nil => cases hm
  | cons y r ih =>
    rw [List.pairwise_cons] at h
    unfold insertSorted
    rcases List.mem_cons.mp hm with rfl | hm
    · simp
    · have := h.1 n hm
      have h1 : ¬ n < y := by omega
      have h2 : ¬ n = y := by omega
      simp only [h1, h2, if_false]
      rw [ih h.2 hm]

theorem insertSorted_twice (t : Nat) : ∀ l : List Nat, insertSorted t (insertSorted t l) = insertSorted t l
  | [] => by simp [insertSorted]
  | y :: r => by
    by_cases h1 : t < y
    · have e : insertSorted t (y :: r) = t :: y :: r := by simp [insertSorted, h1]
      rw [e]; simp [insertSorted]
    · by_cases h2 : t = y
      · subst h2
        have e : insertSorted t (t :: r) = t :: r := by simp [insertSorted]
        rw [e, e]
      · have e : insertSorted t (y :: r) = y :: insertSorted t r := by simp [insertSorted, h1, h2]
        rw [e]
        have e2 : insertSorted t (y :: insertSorted t r) = y :: insertSorted t (insertSorted t r) := by simp [insertSorted, h1, h2]
        rw [e2, insertSorted_twice t r]

/-- importing the records of one tenant, one after the other -/
theorem importUtxrs_block (t : Nat) : ∀ (l : List Rec) (st : SState) (rest : List (Nat × Rec)),
    st.index t = (st.recs t).map entryOf → ((st.recs t ++ l).map (·.req)).Nodup → ((st.recs t ++ l).map (·.id)).Nodup →
    ∃ st', importUtxrs (l.map (fun r => (t, r)) ++ rest) st = importUtxrs rest st' ∧ st'.recs t = st.recs t ++ l ∧
      st'.index t = (st'.recs t).map entryOf ∧ (∀ t', t' ≠ t → st'.recs t' = st.recs t' ∧ st'.index t' = st.index t') ∧
      st'.params = st.params ∧ st'.tenants = st.tenants ∧
      st'.recTenants = (if l = [] then st.recTenants else insertSorted t st.recTenants) := by
  intro l
  induction l with
  | nil => intro st rest hidx _ _; exact ⟨st, rfl, by simp, hidx, fun _ _ => ⟨rfl, rfl⟩, rfl, rfl, by simp⟩
  | cons r l ih =>
    intro st rest hidx hreq hid
    have hreq1 : r.req ∉ (st.recs t).map (·.req) := by
      rw [List.map_append, List.map_cons] at hreq
      have := (List.nodup_append.mp hreq).2.2
      intro hm
      exact this r.req hm r.req (by simp) rfl
    have hid1 : r.id ∉ (st.recs t).map (·.id) := by
      rw [List.map_append, List.map_cons] at hid
      have := (List.nodup_append.mp hid).2.2
      intro hm
      exact this r.id hm r.id (by simp) rfl
    obtain ⟨st1, h1, h2, h3, h4, h5, h6⟩ := importUtxr_some st t r hidx hreq1 hid1
    have hrt : st1.recTenants = insertSorted t st.recTenants := by
      unfold importUtxr at h1
      split at h1
      · cases h1
      · simp only [Option.some.injEq] at h1; rw [← h1]
    obtain ⟨st2, i1, i2, i3, i4, i5, i6, i7⟩ := ih st1 rest h3 (by rw [h2]; simpa using hreq) (by rw [h2]; simpa using hid)
    refine ⟨st2, ?_, by rw [i2, h2]; simp, i3, ?_, by rw [i5, h5], by rw [i6, h6], ?_⟩
    · simp only [List.map_cons, List.cons_append, importUtxrs, h1]
      exact i1
    · intro t' hne
      exact ⟨(i4 t' hne).1.trans (h4 t' hne).1, (i4 t' hne).2.trans (h4 t' hne).2⟩
    · rw [i7, hrt]
      simp only [reduceCtorEq, if_false]
      split
      · rfl
      · exact insertSorted_twice t _

end Settlus

namespace Settlus

def blocks (src : Nat → List Rec) (ts : List Nat) : List (Nat × Rec) := ts.flatMap (fun t => (src t).map (fun r => (t, r)))

theorem flatMap_filter_nonempty (src : Nat → List Rec) (ts : List Nat) :
    blocks src (ts.filter (fun t => !(src t).isEmpty)) = blocks src ts := by
  unfold blocks
  induction ts with
  | nil => rfl
  | cons t r ih =>
    by_cases h : (src t).isEmpty = true
    · have : src t = [] := List.isEmpty_iff.mp h
      simp [List.filter_cons, h, this, ih]
    · simp [List.filter_cons, h, ih]

/-- importing the exported record list tenant by tenant reproduces every tenant's records and index -/
theorem importUtxrs_all (src : Nat → List Rec)
    (hreq : ∀ t, ((src t).map (·.req)).Nodup) (hid : ∀ t, ((src t).map (·.id)).Nodup) :
    ∀ (ts : List Nat), ts.Pairwise (· < ·) → ∀ (st : SState),
      (∀ t ∈ ts, st.recs t = [] ∧ st.index t = []) → (∀ x ∈ st.recTenants, ∀ t ∈ ts, x < t) →
      ∃ st', importUtxrs (blocks src ts) st = some st' ∧
        (∀ t ∈ ts, st'.recs t = src t ∧ st'.index t = (src t).map entryOf) ∧
        (∀ t, t ∉ ts → st'.recs t = st.recs t ∧ st'.index t = st.index t) ∧
        st'.params = st.params ∧ st'.tenants = st.tenants ∧
        st'.recTenants = st.recTenants ++ ts.filter (fun t => !(src t).isEmpty) := by
  intro ts
  induction ts with
  | nil => intro _ st _ _; exact ⟨st, by simp [blocks, importUtxrs], by simp, fun _ _ => ⟨rfl, rfl⟩, rfl, rfl, by simp⟩
  | cons t r ih =>
    intro hs st hempty hlt
    rw [List.pairwise_cons] at hs
    have he := hempty t (by simp)
    obtain ⟨st1, b1, b2, b3, b4, b5, b6, b7⟩ := importUtxrs_block t (src t) st (blocks src r)
      (by rw [he.1, he.2]; rfl) (by rw [he.1]; simpa using hreq t) (by rw [he.1]; simpa using hid t)
    have hempty1 : ∀ t' ∈ r, st1.recs t' = [] ∧ st1.index t' = [] := by
      intro t' ht'
      have hne : t' ≠ t := by have := hs.1 t' ht'; omega
      rw [(b4 t' hne).1, (b4 t' hne).2]
      exact hempty t' (by simp [ht'])
    have hrt1 : st1.recTenants = st.recTenants ++ (if (src t).isEmpty then [] else [t]) := by
      rw [b7]
      by_cases hemp : src t = []
      · simp [hemp]
      · have : (src t).isEmpty = false := by cases hh : src t <;> simp_all
        simp only [hemp, if_false, this, Bool.false_eq_true]
        exact insertSorted_max t _ (fun x hx => hlt x hx t (by simp))
    have hlt1 : ∀ x ∈ st1.recTenants, ∀ t' ∈ r, x < t' := by
      intro x hx t' ht'
      rw [hrt1] at hx
      rcases List.mem_append.mp hx with hx | hx
      · exact hlt x hx t' (by simp [ht'])
      · split at hx
        · cases hx
        · simp only [List.mem_singleton] at hx; subst hx; exact hs.1 t' ht'
    obtain ⟨st2, c1, c2, c3, c4, c5, c6⟩ := ih hs.2 st1 hempty1 hlt1
    refine ⟨st2, ?_, ?_, ?_, by rw [c4, b5], by rw [c5, b6], ?_⟩
    · have : blocks src (t :: r) = (src t).map (fun x => (t, x)) ++ blocks src r := by simp [blocks]
      rw [this, b1]; exact c1
    · intro t' ht'
      rcases List.mem_cons.mp ht' with rfl | ht'
      · have hnot : t' ∉ r := fun hm => by have := hs.1 t' hm; omega
        rw [(c3 t' hnot).1, (c3 t' hnot).2, b2, b3, b2, he.1]
        simp
      · exact c2 t' ht'
    · intro t' hnot
      simp only [List.mem_cons, not_or] at hnot
      rw [(c3 t' hnot.2).1, (c3 t' hnot.2).2]
      exact b4 t' hnot.1
    · rw [c6, hrt1]
      by_cases hemp : (src t).isEmpty = true
      · simp [List.filter_cons, hemp]
      · simp [List.filter_cons, hemp]

end Settlus

namespace Settlus

theorem settleAll_covers (h : Nat) (f : Option Nat) (ts : List Tenant) :
    ∀ (s : State) (c : Nat), SInv s.st → Covers s.st → Covers (settleAll h f ts s c).st.st := by
  induction ts with
  | nil => intro s c _ hc; simpa [settleAll] using hc
  | cons t r ih =>
    intro s c hs hc
    have hq := qinv_idx (hs t.id)
    have e : s.st.index t.id = (s.st.recs t.id).map entryOf := (hs t.id).idx
    obtain ⟨q1, _, pre, hsplit, _⟩ := settleQ_qinv h t f (s.st.last t.id) (s.st.recs t.id) s.bank c hq
    rw [← e] at q1 hsplit
    let s' : State := { s with
        bank := (settleQ h t f (s.st.recs t.id) s.bank c (s.st.index t.id)).bank,
        st := { s.st with recs := fupd s.st.recs t.id (settleQ h t f (s.st.recs t.id) s.bank c (s.st.index t.id)).remaining,
                          index := fupd s.st.index t.id (settleQ h t f (s.st.recs t.id) s.bank c (s.st.index t.id)).index },
        log := s.log ++ (settleQ h t f (s.st.recs t.id) s.bank c (s.st.index t.id)).events }
    have hs' : SInv s'.st := by
      intro t'
      by_cases ht : t' = t.id
      · subst ht; simpa [s'] using q1
      · simp only [s', fupd_other _ _ _ _ ht]; exact hs t'
    have hc' : Covers s'.st := by
      apply covers_of_subset s.st s'.st hc rfl
      intro t' hne
      by_cases ht : t' = t.id
      · subst ht
        simp only [s', fupd_same] at hne
        intro hnil
        have hl := congrArg List.length hsplit
        rw [List.length_append] at hl
        have h0 : (s.st.recs t.id).length = 0 := by rw [hnil]; rfl
        exact hne (List.eq_nil_of_length_eq_zero (by omega))
      · simpa [s', fupd_other _ _ _ _ ht] using hne
    unfold settleAll
    simp only
    split
    · exact hc'
    · exact ih _ _ hs' hc'

theorem setRecipients_covers (st : SState) (acc : List (Nft × Str)) (u : Nat) (h : Covers st) : Covers (setRecipients st acc u) := by
  apply covers_of_subset st (setRecipients st acc u) h rfl
  intro t hne
  unfold setRecipients at hne
  simp only at hne
  intro hnil
  rw [hnil] at hne
  exact hne rfl

theorem oracleEndBlock_covers (s : State) (h : Covers s.st) : Covers (oracleEndBlock s).st.st := by
  unfold oracleEndBlock
  by_cases ht : (s.h : Int) = voteEnd s.h s.os.params.votePeriod
  · by_cases hc : slashWindowClosing s.h s.os.params.votePeriod s.os.params.slashWindow = true
    · by_cases h0 : roundStart s.h s.os.params.votePeriod = 0
      · simpa [ht, hc, h0] using h
      · simp only [ht, hc, h0]; simp; exact setRecipients_covers _ _ _ h
    · by_cases h0 : roundStart s.h s.os.params.votePeriod = 0
      · simpa [ht, hc, h0] using h
      · simp only [ht, hc, h0]; simp; exact setRecipients_covers _ _ _ h
  · simpa [ht] using h

theorem step_covers (H : Str → Str) (s : State) (op : Op) (hs : SInv s.st) (h : Covers s.st) : Covers (step H s op).st.st := by
  cases op
  case createTenant a d p mc => simp only [step, ofS, createTenant]; split <;> exact h
  case deposit a t amt d => simp only [step, ofS, deposit]; split <;> exact h
  case record a t r amt d ch c tok =>
    simp only [step, ofS, record]
    split
    · rename_i p hp
      obtain ⟨_, amount, _, _, _, _, _, _, _, _, _, _, _, hst⟩ := recordPlan_some hp
      simp only [hst]
      exact createUtxr_covers _ _ _ _ _ _ _ _ h
    · exact h
  case cancel a t r =>
    simp only [step, ofS, cancel]
    split
    · rename_i id _
      apply covers_of_subset s.st { s.st with
          recs := fupd s.st.recs t ((s.st.recs t).filter (fun r => r.id != id)),
          index := fupd s.st.index t (alErase (s.st.index t) r) } h rfl
      intro t' hne
      by_cases e : t' = t
      · subst e
        simp only [fupd_same] at hne
        intro hnil; rw [hnil] at hne; exact hne rfl
      · simpa [fupd_other _ _ _ _ e] using hne
    · exact h
  case addAdmin a t n => simp only [step, ofS, addAdmin]; split <;> exact h
  case removeAdmin a t n => simp only [step, ofS, removeAdmin]; split <;> exact h
  case setPeriod a t p => simp only [step, ofS, setPeriod]; split <;> exact h
  case inject t req amt d nft created rc =>
    simp only [step]
    split
    · exact createUtxr_covers _ _ _ _ _ _ _ _ h
    · exact h
  case fund a amt d =>
    simp only [step]
    split
    · exact h
    · split <;> exact h
  case fundPool amt d => simp only [step]; split <;> exact h
  case setOwner c t o => exact h
  case prevote f v hh r =>
    simp only [step, ofS, prevote]
    repeat' split
    all_goals exact h
  case vote f v salt r vds =>
    simp only [step, ofS, vote]
    repeat' split
    all_goals exact h
  case consent v f =>
    simp only [step, ofS, consent]
    repeat' split
    all_goals exact h
  case setOParams vp thr frac w m => simp only [step]; split <;> exact h
  case setSParams fee chains => simp only [step]; split <;> exact h
  case setVal i power b j pb => simp only [step]; split <;> exact h
  case failAt k => exact h
  case block =>
    simp only [step, blockStep]
    exact settleAll_covers _ _ _ _ _ (oracleEndBlock_sinv s hs) (oracleEndBlock_covers s h)
  case dump => exact h

theorem reachable_covers (H : Str → Str) (pr : Nat) (c : Bool) (ops : List Op) :
    SInv (run H (initState pr c) ops).st ∧ Covers (run H (initState pr c) ops).st := by
  have gen : ∀ (s : State), SInv s.st → Covers s.st → SInv (run H s ops).st ∧ Covers (run H s ops).st := by
    induction ops with
    | nil => intro s h1 h2; exact ⟨h1, h2⟩
    | cons op r ih => intro s h1 h2; exact ih _ (step_sinv H s op h1) (step_covers H s op h1 h2)
  apply gen _ (init_sinv pr c)
  refine ⟨by simp [initState], ?_⟩
  intro t hne
  simp [initState] at hne

/-- the stored oracle parameters always pass `Params.Validate` -/
def OParamsOk (s : State) : Prop :=
  oparamsValid s.os.params.votePeriod s.os.params.threshold s.os.params.slashFraction s.os.params.slashWindow s.os.params.maxMiss = true

theorem settleAll_os (h : Nat) (f : Option Nat) (ts : List Tenant) (s : State) (c : Nat) : (settleAll h f ts s c).st.os = s.os :=
  (settleAll_tenants h f ts s c).2.1

theorem oracleEndBlock_params (s : State) : (oracleEndBlock s).st.os.params = s.os.params := by
  unfold oracleEndBlock
  by_cases ht : (s.h : Int) = voteEnd s.h s.os.params.votePeriod
  · by_cases hc : slashWindowClosing s.h s.os.params.votePeriod s.os.params.slashWindow = true <;> simp [ht, hc]
  · simp [ht]

/-- a parameter change whose values also fit together (what `Params.Validate` demands; a governance proposal is held to less) -/
def opParamsOk : Op → Prop
  | .setOParams vp thr frac w m => oparamsKeyValid vp thr frac w m = true → oparamsValid vp thr frac w m = true
  | _ => True

theorem step_oparams (H : Str → Str) (s : State) (op : Op) (hop : opParamsOk op) (h : OParamsOk s) : OParamsOk (step H s op).st := by
  unfold OParamsOk at *
  cases op
  case setOParams vp thr frac w m =>
    simp only [step]
    split
    · rename_i hk
      have hv := hop hk
      simp only
      unfold oparamsValid at hv ⊢
      simp only [Bool.and_eq_true, bne_iff_ne, ne_eq, decide_eq_true_eq, beq_iff_eq] at hv ⊢
      have h1 : ((thr.toNat : Nat) : Int) = thr := Int.toNat_of_nonneg (by unfold one18 at hv; omega)
      have h2 : ((frac.toNat : Nat) : Int) = frac := Int.toNat_of_nonneg (by omega)
      rw [h1, h2]
      exact hv
    · exact h
  case block =>
    simp only [step, blockStep]
    rw [settleAll_os, oracleEndBlock_params]
    exact h
  case createTenant a d p mc => simp only [step, ofS, createTenant]; split <;> exact h
  case deposit a t amt d => simp only [step, ofS, deposit]; split <;> exact h
  case record a t r amt d ch c tok => simp only [step, ofS, record]; split <;> exact h
  case cancel a t r => simp only [step, ofS, cancel]; split <;> exact h
  case addAdmin a t n => simp only [step, ofS, addAdmin]; split <;> exact h
  case removeAdmin a t n => simp only [step, ofS, removeAdmin]; split <;> exact h
  case setPeriod a t p => simp only [step, ofS, setPeriod]; split <;> exact h
  case inject t req amt d nft created rc => simp only [step]; split <;> exact h
  case fund a amt d =>
    simp only [step]
    split
    · exact h
    · split <;> exact h
  case fundPool amt d => simp only [step]; split <;> exact h
  case setOwner c t o => exact h
  case prevote f v hh r =>
    simp only [step, ofS, prevote]
    repeat' split
    all_goals exact h
  case vote f v salt r vds =>
    simp only [step, ofS, vote]
    repeat' split
    all_goals exact h
  case consent v f =>
    simp only [step, ofS, consent]
    repeat' split
    all_goals exact h
  case setSParams fee chains => simp only [step]; split <;> exact h
  case setVal i power b j pb => simp only [step]; split <;> exact h
  case failAt k => exact h
  case dump => exact h

end Settlus
