/-
  Lemmas about admission: what the authz limiter guarantees about nested messages, and which messages can touch the
  oracle's ballots.
-/
import SettlusModel.Ante
import SettlusModel.Proofs.Settle
namespace Settlus

/-- kinds the chain restricts at admission: settlement and oracle messages, and validator creation -/
def restricted (k : Kind) : Bool := isSettlementUrl (urlOf k) || isOracleUrl (urlOf k) || k == .createVal

/-- **the tie to the source**: every restricted kind is on the authz limiter list extracted from handler_options.go -/
theorem restricted_kinds_disabled : ∀ k : Kind, restricted k = true → isDisabled (urlOf k) = true := by
  intro k; cases k <;> decide

/-- every restricted kind is refused at the top level of the generic chain after genesis (reject rules extracted from reject_msgs.go) -/
theorem restricted_kinds_rejected_top_level : ∀ k : Kind, restricted k = true →
    (Facts.rejectPrefixes.any (fun p => p.isPrefixOf (urlOf k)) || Facts.rejectAfterGenesis.contains (urlOf k)) = true := by
  intro k; cases k <;> decide

/-- the routing prefixes select exactly the registered settlement / oracle message kinds -/
theorem settlement_kinds : ∀ k : Kind, isSettlementUrl (urlOf k) = true ↔
    k = .createTenant ∨ k = .createTenantMc ∨ k = .deposit ∨ k = .record ∨ k = .cancel ∨ k = .addAdmin ∨ k = .removeAdmin ∨ k = .setPeriod := by
  intro k; cases k <;> decide

theorem oracle_kinds : ∀ k : Kind, isOracleUrl (urlOf k) = true ↔ k = .prevote ∨ k = .vote ∨ k = .consent := by
  intro k; cases k <;> decide

/-! ### leaves of a message tree -/

mutual
  def leavesOf : Msg → List Msg
    | .exec _ ms => leavesOfList ms
    | m => [m]
  def leavesOfList : List Msg → List Msg
    | [] => []
    | m :: r => leavesOf m ++ leavesOfList r
end

/-- whether a leaf is acceptable inside an authz wrapper -/
def innerOk (m : Msg) : Prop :=
  match m with
  | .grant _ _ k => isDisabled (urlOf k) = false
  | m => isDisabled m.url = false

mutual
  theorem limiter_inner_leaf (m : Msg) : ∀ (lvl : Nat) (rest : List Msg), limiterList true lvl (m :: rest) = true →
      (∀ x ∈ leavesOf m, innerOk x) ∧ ∃ lvl', limiterList true lvl' rest = true := by
    intro lvl rest h
    match m with
    | .exec g ms =>
      simp only [limiterList, Bool.and_eq_true] at h
      obtain ⟨h1, h2⟩ := h
      split at h1
      · cases h1
      · refine ⟨?_, lvl + 1, h2⟩
        simp only [leavesOf]
        exact limiter_inner_list ms (lvl + 1) h1
    | .grant a b k =>
      simp only [limiterList, Bool.and_eq_true, Bool.not_eq_true'] at h
      refine ⟨?_, lvl, h.2⟩
      intro x hx
      simp only [leavesOf, List.mem_singleton] at hx
      subst hx
      exact h.1
    | .op k o =>
      simp only [limiterList, Bool.and_eq_true, Bool.not_eq_true', Bool.true_and] at h
      refine ⟨?_, lvl, h.2⟩
      intro x hx
      simp only [leavesOf, List.mem_singleton] at hx
      subst hx
      exact h.1
    | .send a b c d =>
      simp only [limiterList, Bool.and_eq_true, Bool.not_eq_true', Bool.true_and] at h
      refine ⟨?_, lvl, h.2⟩
      intro x hx
      simp only [leavesOf, List.mem_singleton] at hx
      subst hx
      exact h.1
    | .createVal a =>
      simp only [limiterList, Bool.and_eq_true, Bool.not_eq_true', Bool.true_and] at h
      refine ⟨?_, lvl, h.2⟩
      intro x hx
      simp only [leavesOf, List.mem_singleton] at hx
      subst hx
      exact h.1
    | .delegate a b c =>
      simp only [limiterList, Bool.and_eq_true, Bool.not_eq_true', Bool.true_and] at h
      refine ⟨?_, lvl, h.2⟩
      intro x hx
      simp only [leavesOf, List.mem_singleton] at hx
      subst hx
      exact h.1
  theorem limiter_inner_list (ms : List Msg) : ∀ (lvl : Nat), limiterList true lvl ms = true → ∀ x ∈ leavesOfList ms, innerOk x := by
    intro lvl h
    match ms with
    | [] => intro x hx; simp [leavesOfList] at hx
    | m :: rest =>
      obtain ⟨h1, lvl', h2⟩ := limiter_inner_leaf m lvl rest h
      intro x hx
      simp only [leavesOfList, List.mem_append] at hx
      rcases hx with hx | hx
      · exact h1 x hx
      · exact limiter_inner_list rest lvl' h2 x hx
end

end Settlus

namespace Settlus

/-- a leaf that neither is a restricted kind nor grants one -/
def leafAllowed (m : Msg) : Prop :=
  match m with
  | .grant _ _ k => restricted k = false
  | m => restricted m.kind = false

theorem innerOk_allowed (m : Msg) (h : innerOk m) : leafAllowed m := by
  have key : ∀ k, isDisabled (urlOf k) = false → restricted k = false := by
    intro k hk
    cases hr : restricted k
    · rfl
    · have := restricted_kinds_disabled k hr; rw [hk] at this; cases this
  cases m <;> simp only [innerOk, leafAllowed, Msg.url] at * <;> exact key _ h

/-- **admission binds every leaf**: in a transaction the generic chain admits after genesis, no message at any nesting depth
is a settlement message, an oracle message or MsgCreateValidator, and no grant is for such a kind -/
theorem generic_admits_no_restricted_leaf (h : Nat) (hh : h ≠ 0) :
    ∀ (ms : List Msg) (lvl : Nat), rejectTopLevel h ms = false → limiterList false lvl ms = true → ∀ x ∈ leavesOfList ms, leafAllowed x := by
  intro ms
  induction ms with
  | nil => intro lvl _ _ x hx; simp [leavesOfList] at hx
  | cons m rest ih =>
    intro lvl hrej hlim x hx
    have hrej' : rejectTopLevel h rest = false := by
      unfold rejectTopLevel at hrej ⊢
      simp only [List.any_cons, Bool.or_eq_false_iff] at hrej
      exact hrej.2
    have hm : (Facts.rejectPrefixes.any (fun p => p.isPrefixOf m.url) || (h != 0 && Facts.rejectAfterGenesis.contains m.url) || m.kind == .ethTx) = false := by
      unfold rejectTopLevel at hrej
      simp only [List.any_cons, Bool.or_eq_false_iff] at hrej
      simpa using hrej.1
    have hh' : (h != 0) = true := by simp [hh]
    have top : ∀ k, m.kind = k → m.url = urlOf k → restricted k = false := by
      intro k _ hu
      cases hr : restricted k
      · rfl
      · have := restricted_kinds_rejected_top_level k hr
        rw [hu, hh'] at hm
        simp only [Bool.true_and, Bool.or_eq_false_iff] at hm
        rw [Bool.or_eq_true] at this
        rcases this with t | t
        · rw [hm.1.1] at t; cases t
        · rw [hm.1.2] at t; cases t
    simp only [leavesOfList, List.mem_append] at hx
    match m, hlim, top with
    | .exec g inner, hlim, _ =>
      simp only [limiterList, Bool.and_eq_true] at hlim
      rcases hx with hx | hx
      · simp only [leavesOf] at hx
        split at hlim
        · cases hlim.1
        · exact innerOk_allowed x (limiter_inner_list inner (lvl + 1) hlim.1 x hx)
      · exact ih (lvl + 1) hrej' hlim.2 x hx
    | .grant a b k, hlim, _ =>
      simp only [limiterList, Bool.and_eq_true, Bool.not_eq_true'] at hlim
      rcases hx with hx | hx
      · simp only [leavesOf, List.mem_singleton] at hx
        subst hx
        exact innerOk_allowed _ hlim.1
      · exact ih lvl hrej' hlim.2 x hx
    | .op k o, hlim, top =>
      simp only [limiterList, Bool.false_and, Bool.not_false, Bool.true_and] at hlim
      rcases hx with hx | hx
      · simp only [leavesOf, List.mem_singleton] at hx
        subst hx
        exact top k rfl rfl
      · exact ih lvl hrej' hlim x hx
    | .send a b c d, hlim, top =>
      simp only [limiterList, Bool.false_and, Bool.not_false, Bool.true_and] at hlim
      rcases hx with hx | hx
      · simp only [leavesOf, List.mem_singleton] at hx
        subst hx
        exact top .send rfl rfl
      · exact ih lvl hrej' hlim x hx
    | .createVal a, hlim, top =>
      simp only [limiterList, Bool.false_and, Bool.not_false, Bool.true_and] at hlim
      rcases hx with hx | hx
      · simp only [leavesOf, List.mem_singleton] at hx
        subst hx
        exact top .createVal rfl rfl
      · exact ih lvl hrej' hlim x hx
    | .delegate a b c, hlim, top =>
      simp only [limiterList, Bool.false_and, Bool.not_false, Bool.true_and] at hlim
      rcases hx with hx | hx
      · simp only [leavesOf, List.mem_singleton] at hx
        subst hx
        exact top .delegate rfl rfl
      · exact ih lvl hrej' hlim x hx

end Settlus

namespace Settlus

theorem opMatches_restricted (k : Kind) (o : Op) (h : opMatches k o = true) : restricted k = true := by
  cases k <;> first | decide | (cases o <;> simp [opMatches] at h)

mutual
  /-- executing a message whose leaves are all allowed touches neither module's state nor the validator set -/
  theorem execMsg_allowed (H : Str → Str) (m : Msg) : ∀ (a a' : AState), (∀ x ∈ leavesOf m, leafAllowed x) → execMsg H a m = some a' →
      a'.s.os = a.s.os ∧ a'.s.st = a.s.st ∧ a'.s.vals = a.s.vals ∧ a'.s.h = a.s.h := by
    intro a a' hl he
    match m with
    | .op k o =>
      exfalso
      have hk : restricted k = false := by
        have := hl (.op k o) (by simp [leavesOf])
        simpa [leafAllowed, Msg.kind] using this
      unfold execMsg at he
      split at he
      · rename_i hm
        have := opMatches_restricted k o hm.1
        rw [hk] at this; cases this
      · cases he
    | .send src dst amt d =>
      unfold execMsg at he
      repeat' split at he
      all_goals cases he
      all_goals simp
    | .createVal x => unfold execMsg at he; cases he
    | .delegate x v amt => unfold execMsg at he; simp only [Option.some.injEq] at he; subst he; exact ⟨rfl, rfl, rfl, rfl⟩
    | .grant g e k =>
      unfold execMsg at he
      repeat' split at he
      all_goals cases he
      all_goals simp
    | .exec g ms =>
      unfold execMsg at he
      split at he
      · exact dispatch_allowed H _ ms a a' (by simpa [leavesOf] using hl) he
      · cases he
  theorem dispatch_allowed (H : Str → Str) (g : Acct) (ms : List Msg) : ∀ (a a' : AState), (∀ x ∈ leavesOfList ms, leafAllowed x) →
      dispatch H g a ms = some a' → a'.s.os = a.s.os ∧ a'.s.st = a.s.st ∧ a'.s.vals = a.s.vals ∧ a'.s.h = a.s.h := by
    intro a a' hl he
    match ms with
    | [] => unfold dispatch at he; simp only [Option.some.injEq] at he; subst he; exact ⟨rfl, rfl, rfl, rfl⟩
    | m :: rest =>
      unfold dispatch at he
      split at he
      · cases he
      · split at he
        · cases he
        · split at he
          · rename_i a1 h1
            have hm := execMsg_allowed H m a a1 (fun x hx => hl x (by simp [leavesOfList, hx])) h1
            have hr := dispatch_allowed H g rest a1 a' (fun x hx => hl x (by simp [leavesOfList, hx])) he
            exact ⟨hr.1.trans hm.1, hr.2.1.trans hm.2.1, hr.2.2.1.trans hm.2.2.1, hr.2.2.2.trans hm.2.2.2⟩
          · cases he
end

theorem runMsgs_allowed (H : Str → Str) : ∀ (ms : List Msg) (a a' : AState), (∀ x ∈ leavesOfList ms, leafAllowed x) →
    runMsgs H a ms = some a' → a'.s.os = a.s.os ∧ a'.s.st = a.s.st ∧ a'.s.vals = a.s.vals ∧ a'.s.h = a.s.h := by
  intro ms
  induction ms with
  | nil => intro a a' _ he; simp only [runMsgs, Option.some.injEq] at he; subst he; exact ⟨rfl, rfl, rfl, rfl⟩
  | cons m rest ih =>
    intro a a' hl he
    unfold runMsgs at he
    split at he
    · rename_i a1 h1
      have hm := execMsg_allowed H m a a1 (fun x hx => hl x (by simp [leavesOfList, hx])) h1
      have hr := ih a1 a' (fun x hx => hl x (by simp [leavesOfList, hx])) he
      exact ⟨hr.1.trans hm.1, hr.2.1.trans hm.2.1, hr.2.2.1.trans hm.2.2.1, hr.2.2.2.trans hm.2.2.2⟩
    · cases he

/-- **the generic route can change neither module**: whatever a transaction admitted by the generic chain after genesis
contains, however nested, the settlement store, the oracle state and the validator set come out as they went in -/
theorem generic_route_leaves_modules_alone (H : Str → Str) (a : AState) (tx : Tx) (hr : route tx = .generic) (hh : a.s.h ≠ 0) :
    (deliverTx H a tx).a.s.os = a.s.os ∧ (deliverTx H a tx).a.s.st = a.s.st ∧ (deliverTx H a tx).a.s.vals = a.s.vals := by
  unfold deliverTx
  by_cases hb : (tx.msgs.isEmpty || !basicAll tx.msgs) = true
  · simp [hb, rejected]
  · simp only [hb, hr, Bool.false_eq_true, if_false]
    unfold deliverGeneric
    by_cases hc : (rejectTopLevel a.s.h tx.msgs || !limiterOk false 1 tx.msgs || !sigsOk tx || !granterOk tx) = true
    · simp [hc, rejected]
    · simp only [hc, Bool.false_eq_true, if_false]
      simp only [Bool.or_eq_true, not_or, Bool.not_eq_true', Bool.not_eq_false] at hc
      obtain ⟨⟨⟨hrej, hlim⟩, _⟩, _⟩ := hc
      have hlim' : limiterList false 1 tx.msgs = true := by
        unfold limiterOk at hlim
        simpa using hlim
      have hrej' : rejectTopLevel a.s.h tx.msgs = false := by simpa using hrej
      have hl := generic_admits_no_restricted_leaf a.s.h hh tx.msgs 1 hrej' hlim'
      cases hm : runMsgs H a tx.msgs with
      | none => simp
      | some a2 =>
        have := runMsgs_allowed H tx.msgs a a2 hl hm
        simp [this.1, this.2.1, this.2.2.1]

end Settlus
