/-
  The settle loop and the payout: what is resolved, when, and what happens to balances.
-/
import SettlusModel.Proofs.Inv
import SettlusModel.Proofs.Arith
namespace Settlus

/-! ### what the loop resolves -/

theorem payRcpts_ne_dropped (t : Tenant) (r : Rec) (f : Option Nat) (n W : Nat) :
    ∀ (vs : List Recipient) (b : Bank) (c : Nat) (ev : List Event), payRcpts t r f n W vs b c ev ≠ PayOutcome.dropped := by
  intro vs
  induction vs with
  | nil => intro b c ev; simp [payRcpts]
  | cons x xs ih =>
    intro b c ev
    unfold payRcpts
    simp only
    repeat' split
    all_goals first | (intro hh; cases hh) | exact ih _ _ _

theorem tryPayout_dropped_iff (t : Tenant) (r : Rec) (f : Option Nat) (b : Bank) (c : Nat) :
    tryPayout t r f b c = .dropped ↔ validRcpts r = [] := by
  by_cases he : (validRcpts r).isEmpty = true
  · simp [tryPayout, he, List.isEmpty_iff.mp he]
  · have hne : validRcpts r ≠ [] := fun e => he (by simp [e])
    simp only [tryPayout, he, Bool.false_eq_true, if_false, hne, iff_false]
    exact payRcpts_ne_dropped _ _ _ _ _ _ _ _ _

/-- every record the loop pays is mature at this height, and every record it drops is mature and has no valid recipient -/
theorem settleQ_resolved_mature (h : Nat) (t : Tenant) (f : Option Nat) :
    ∀ (l : List Rec) (b : Bank) (c : Nat) (idx : List (Str × Nat)),
      (∀ id ∈ (settleQ h t f l b c idx).settled, ∃ r ∈ l, r.id = id ∧ mature r.created t.period h = true ∧ validRcpts r ≠ []) ∧
      (∀ id ∈ (settleQ h t f l b c idx).droppedIds, ∃ r ∈ l, r.id = id ∧ mature r.created t.period h = true ∧ validRcpts r = []) := by
  intro l
  induction l with
  | nil => intro b c idx; simp [settleQ]
  | cons r rest ih =>
    intro b c idx
    unfold settleQ
    split
    · simp
    · rename_i hm
      have hm' : mature r.created t.period h = true := by simpa using hm
      split
      · simp
      · simp
      · rename_i hdrop
        have hv : validRcpts r = [] := (tryPayout_dropped_iff t r f b c).mp hdrop
        obtain ⟨i1, i2⟩ := ih b c (alErase idx r.req)
        constructor
        · intro id hid
          obtain ⟨x, hx, hxi⟩ := i1 id hid
          exact ⟨x, by simp [hx], hxi⟩
        · intro id hid
          simp only [List.mem_cons] at hid
          rcases hid with rfl | hid
          · exact ⟨r, by simp, rfl, hm', hv⟩
          · obtain ⟨x, hx, hxi⟩ := i2 id hid
            exact ⟨x, by simp [hx], hxi⟩
      · rename_i b' c' ev hpaid
        have hv : validRcpts r ≠ [] := by
          intro he
          rw [(tryPayout_dropped_iff t r f b c).mpr he] at hpaid
          cases hpaid
        obtain ⟨i1, i2⟩ := ih b' c' (alErase idx r.req)
        constructor
        · intro id hid
          simp only [List.mem_cons] at hid
          rcases hid with rfl | hid
          · exact ⟨r, by simp, rfl, hm', hv⟩
          · obtain ⟨x, hx, hxi⟩ := i1 id hid
            exact ⟨x, by simp [hx], hxi⟩
        · intro id hid
          obtain ⟨x, hx, hxi⟩ := i2 id hid
          exact ⟨x, by simp [hx], hxi⟩

/-- a failed or immature head stops the loop with the queue, the index and every balance exactly as they were -/
theorem settleQ_stop (h : Nat) (t : Tenant) (f : Option Nat) (r : Rec) (rest : List Rec) (b : Bank) (c : Nat) (idx : List (Str × Nat))
    (hstop : mature r.created t.period h = false ∨ (∃ c', tryPayout t r f b c = .failed c')) :
    (settleQ h t f (r :: rest) b c idx).remaining = r :: rest ∧ (settleQ h t f (r :: rest) b c idx).bank = b ∧
    (settleQ h t f (r :: rest) b c idx).index = idx ∧ (settleQ h t f (r :: rest) b c idx).settled = [] ∧
    (settleQ h t f (r :: rest) b c idx).droppedIds = [] ∧ (settleQ h t f (r :: rest) b c idx).events = [] ∧
    (settleQ h t f (r :: rest) b c idx).panic = false := by
  unfold settleQ
  rcases hstop with hm | ⟨c', hf⟩
  · simp [hm]
  · by_cases hm : mature r.created t.period h = true
    · simp [hm, hf]
    · simp [hm]

/-- the head of the queue is paid in this block when it is mature and its payout goes through -/
theorem settleQ_head_paid (h : Nat) (t : Tenant) (f : Option Nat) (r : Rec) (rest : List Rec) (b b' : Bank) (c c' : Nat) (ev : List Event)
    (idx : List (Str × Nat)) (hm : mature r.created t.period h = true) (hp : tryPayout t r f b c = .paid b' c' ev) :
    r.id ∈ (settleQ h t f (r :: rest) b c idx).settled ∧ r ∉ (settleQ h t f (r :: rest) b c idx).remaining ∨
    r.id ∈ (settleQ h t f (r :: rest) b c idx).settled := by
  right
  unfold settleQ
  simp [hm, hp]

/-! ### shares -/

theorem share_nonneg (amount : Int) (n W w : Nat) (ha : 0 ≤ amount) : 0 ≤ share amount n W w := by
  unfold share
  split
  · exact Int.tdiv_nonneg ha (by omega)
  · exact Int.tdiv_nonneg (Int.mul_nonneg ha (by omega)) (by omega)

/-- share as natural-number arithmetic for a non-negative amount -/
theorem share_toNat (amount n W w : Nat) :
    (share (amount : Int) n W w).toNat = if W = 0 then amount / n else amount * w / W := by
  unfold share
  split
  · rw [Int.tdiv_eq_ediv_of_nonneg (by omega)]
    norm_cast
  · rw [Int.tdiv_eq_ediv_of_nonneg (Int.mul_nonneg (by omega) (by omega))]
    norm_cast

/-- with positive total weight the shares add up to at most the amount -/
theorem weighted_shares_le (amount W : Nat) (ws : List Nat) (hW : 0 < W) (hs : ws.sum ≤ W) :
    (ws.map (fun w => amount * w / W)).sum ≤ amount := by
  have key : ∀ (l : List Nat), (l.map (fun w => amount * w / W)).sum ≤ amount * l.sum / W := by
    intro l
    induction l with
    | nil => simp
    | cons x xs ih =>
      simp only [List.map_cons, List.sum_cons]
      have : amount * x / W + amount * xs.sum / W ≤ (amount * x + amount * xs.sum) / W := by
        rw [Nat.le_div_iff_mul_le hW, Nat.add_mul]
        have := Nat.div_mul_le_self (amount * x) W
        have := Nat.div_mul_le_self (amount * xs.sum) W
        omega
      rw [Nat.mul_add]
      omega
  have h1 := key ws
  have h2 : amount * ws.sum / W ≤ amount * W / W := Nat.div_le_div_right (Nat.mul_le_mul_left _ hs)
  rw [Nat.mul_div_cancel _ hW] at h2
  omega

/-- an equal split never exceeds the amount -/
theorem equal_shares_le (amount n : Nat) : n * (amount / n) ≤ amount := Nat.mul_div_le amount n

end Settlus
