/-
  Tenant isolation: what one tenant's operations and settle loop read and write.
-/
import SettlusModel.Proofs.RecWf
namespace Settlus

/-! ### tenant list facts -/

theorem setTenant_ids (ts : List Tenant) (tn : Tenant) : (setTenant ts tn).map (·.id) = ts.map (·.id) := by
  unfold setTenant
  rw [List.map_map]
  apply List.map_congr_left
  intro x _
  simp only [Function.comp]
  split
  · rename_i h; simp at h; exact h.symm
  · rfl

theorem findTenant_setTenant (ts : List Tenant) (tn : Tenant) (k : Nat) :
    findTenant (setTenant ts tn) k = if k = tn.id then (findTenant ts k).map (fun _ => tn) else findTenant ts k := by
  unfold findTenant setTenant
  induction ts with
  | nil => simp
  | cons x r ih =>
    simp only [List.map_cons, List.find?_cons]
    by_cases hx : x.id = tn.id
    · simp only [hx, beq_self_eq_true, if_true]
      by_cases hk : k = tn.id
      · subst hk; simp
      · have : (tn.id == k) = false := by simp; exact fun e => hk e.symm
        simp only [this, hk, if_false]
        simpa [hk] using ih
    · have hb : (x.id == tn.id) = false := by simp [hx]
      simp only [hb, Bool.false_eq_true, if_false]
      by_cases hxk : x.id = k
      · subst hxk
        simp [hx]
      · have : (x.id == k) = false := by simp [hxk]
        simp only [this]
        exact ih

theorem largestTenantId_ids (a b : List Tenant) (h : a.map (·.id) = b.map (·.id)) : largestTenantId a = largestTenantId b := by
  unfold largestTenantId
  have : (a.map (·.id)).getLast? = (b.map (·.id)).getLast? := by rw [h]
  simp only [List.getLast?_map] at this
  cases ha : a.getLast? <;> cases hb : b.getLast? <;> simp_all

theorem findTenant_append (ts : List Tenant) (tn : Tenant) (k : Nat) :
    findTenant (ts ++ [tn]) k = match findTenant ts k with
      | some x => some x
      | none => if tn.id = k then some tn else none := by
  unfold findTenant
  rw [List.find?_append]
  cases h : List.find? (fun t => t.id == k) ts with
  | some x => simp
  | none =>
    simp only [Option.none_or, List.find?_cons, List.find?_nil]
    by_cases hk : tn.id = k
    · simp [hk]
    · have : (tn.id == k) = false := by simp [hk]
      simp [this, hk]

/-! ### the settle loop reads the bank only at its own treasury -/

theorem send_congr_some (b₁ b₂ b₁' : Bank) (k : Nat) (who : Holder) (d : Str) (a : Nat) (hw : ∀ j, who ≠ .treasury j)
    (hb : ∀ d', b₁ (.treasury k) d' = b₂ (.treasury k) d') (h : b₁.send (.treasury k) who d a = some b₁') :
    ∃ b₂', b₂.send (.treasury k) who d a = some b₂' ∧ (∀ d', b₁' (.treasury k) d' = b₂' (.treasury k) d') ∧
      (∀ w d', b₁ w d' = b₂ w d' → b₁' w d' = b₂' w d') := by
  unfold Bank.send at h ⊢
  rw [← hb d]
  split at h
  · cases h
  · rename_i hlt
    cases h
    simp only [hlt, if_false]
    refine ⟨_, rfl, ?_, ?_⟩
    · intro d'
      have e1 : (Holder.treasury k = who) = False := by simp; exact fun e => hw k e.symm
      simp only [Bank.credit, Bank.debit, e1, false_and, if_false, true_and, hb d']
    · intro w d' hwd
      simp only [Bank.credit, Bank.debit, hwd]

theorem send_congr_none (b₁ b₂ : Bank) (k : Nat) (who : Holder) (d : Str) (a : Nat)
    (hb : ∀ d', b₁ (.treasury k) d' = b₂ (.treasury k) d') (h : b₁.send (.treasury k) who d a = none) :
    b₂.send (.treasury k) who d a = none := by
  unfold Bank.send at h ⊢
  rw [← hb d]
  split at h
  · rename_i hlt; simp [hlt]
  · cases h

/-- two banks that agree on the treasury of tenant `t`: a payout that goes through on one (no injected fault) goes through on the
other with the same events, the two treasuries agree afterwards, and wherever the banks agreed before they agree afterwards -/
theorem payRcpts_congr_paid (t : Tenant) (r : Rec) (n W : Nat) :
    ∀ (vs : List Recipient) (b₁ b₂ : Bank) (c₁ c₂ : Nat) (ev : List Event) (b₁' : Bank) (c₁' : Nat) (e : List Event),
      (∀ d, b₁ (.treasury t.id) d = b₂ (.treasury t.id) d) →
      payRcpts t r none n W vs b₁ c₁ ev = .paid b₁' c₁' e →
      ∃ b₂' c₂', payRcpts t r none n W vs b₂ c₂ ev = .paid b₂' c₂' e ∧ (∀ d, b₁' (.treasury t.id) d = b₂' (.treasury t.id) d) ∧
        (∀ w d, b₁ w d = b₂ w d → b₁' w d = b₂' w d) := by
  intro vs
  induction vs with
  | nil =>
    intro b₁ b₂ c₁ c₂ ev b₁' c₁' e hb h
    simp only [payRcpts, PayOutcome.paid.injEq] at h ⊢
    obtain ⟨rfl, _, rfl⟩ := h
    exact ⟨b₂, c₂, ⟨rfl, rfl, rfl⟩, hb, fun _ _ h => h⟩
  | cons x xs ih =>
    intro b₁ b₂ c₁ c₂ ev b₁' c₁' e hb h
    have hw : ∀ j, holderOfHex x.addr ≠ .treasury j := fun j => holderOfHex_ne_treasury _ j
    unfold payRcpts at h ⊢
    simp only [beq_iff_eq, reduceCtorEq, if_false] at h ⊢
    by_cases hm : t.mint = true
    · simp only [hm, if_true] at h ⊢
      split at h
      · cases h
      · rename_i hneg
        simp only [hneg, if_false]
        have hb' : ∀ d, (b₁.credit (holderOfHex x.addr) (mintDenom t) (share r.amount n W x.weight).toNat) (.treasury t.id) d =
            (b₂.credit (holderOfHex x.addr) (mintDenom t) (share r.amount n W x.weight).toNat) (.treasury t.id) d := by
          intro d; rw [credit_treasury _ _ _ _ hw, credit_treasury _ _ _ _ hw]; exact hb d
        obtain ⟨b₂', c₂', h1, h2, h3⟩ := ih _ _ _ (c₂ + 1) _ _ _ _ hb' h
        refine ⟨b₂', c₂', h1, h2, ?_⟩
        intro w d hwd
        apply h3
        simp only [Bank.credit, hwd]
    · simp only [hm, Bool.false_eq_true, if_false] at h ⊢
      by_cases hu : r.denom = "uerc".toList
      · simp only [hu, if_true] at h ⊢
        by_cases hneg : share r.amount n W x.weight < 0
        · simp only [hneg, if_true] at h; cases h
        · simp only [hneg, if_false] at h ⊢
          split at h
          · cases h
          · rename_i bb hs
            simp only [treasuryName] at hs
            rw [← hu] at hs
            obtain ⟨bb₂, hs2, s1, s2⟩ := send_congr_some _ b₂ _ _ _ _ _ hw hb hs
            rw [hu] at hs2
            simp only [treasuryName, hs2]
            obtain ⟨b₂', c₂', h1, h2, h3⟩ := ih _ _ _ (c₂ + 1) _ _ _ _ s1 h
            exact ⟨b₂', c₂', h1, h2, fun w d hwd => h3 w d (s2 w d hwd)⟩
      · simp only [hu, if_false] at h ⊢
        by_cases hbad : (!validDenom r.denom || decide (share r.amount n W x.weight < 0)) = true
        · simp only [hbad, if_true] at h; cases h
        · simp only [hbad, Bool.false_eq_true, if_false] at h ⊢
          split at h
          · cases h
          · rename_i bb hs
            simp only [treasuryName] at hs
            obtain ⟨bb₂, hs2, s1, s2⟩ := send_congr_some _ b₂ _ _ _ _ _ hw hb hs
            simp only [treasuryName, hs2]
            obtain ⟨b₂', c₂', h1, h2, h3⟩ := ih _ _ _ (c₂ + 1) _ _ _ _ s1 h
            exact ⟨b₂', c₂', h1, h2, fun w d hwd => h3 w d (s2 w d hwd)⟩

theorem payRcpts_congr_panicked (t : Tenant) (r : Rec) (n W : Nat) :
    ∀ (vs : List Recipient) (b₁ b₂ : Bank) (c₁ c₂ : Nat) (ev : List Event),
      (∀ d, b₁ (.treasury t.id) d = b₂ (.treasury t.id) d) →
      payRcpts t r none n W vs b₁ c₁ ev = .panicked → payRcpts t r none n W vs b₂ c₂ ev = .panicked := by
  intro vs
  induction vs with
  | nil => intro b₁ b₂ c₁ c₂ ev _ h; simp [payRcpts] at h
  | cons x xs ih =>
    intro b₁ b₂ c₁ c₂ ev hb h
    have hw : ∀ j, holderOfHex x.addr ≠ .treasury j := fun j => holderOfHex_ne_treasury _ j
    unfold payRcpts at h ⊢
    simp only [beq_iff_eq, reduceCtorEq, if_false] at h ⊢
    by_cases hm : t.mint = true
    · simp only [hm, if_true] at h ⊢
      by_cases hneg : share r.amount n W x.weight < 0
      · simp only [hneg, if_true]
      · simp only [hneg, if_false] at h ⊢
        have hb' : ∀ d, (b₁.credit (holderOfHex x.addr) (mintDenom t) (share r.amount n W x.weight).toNat) (.treasury t.id) d =
            (b₂.credit (holderOfHex x.addr) (mintDenom t) (share r.amount n W x.weight).toNat) (.treasury t.id) d := by
          intro d; rw [credit_treasury _ _ _ _ hw, credit_treasury _ _ _ _ hw]; exact hb d
        exact ih _ _ _ _ _ hb' h
    · simp only [hm, Bool.false_eq_true, if_false] at h ⊢
      by_cases hu : r.denom = "uerc".toList
      · simp only [hu, if_true] at h ⊢
        by_cases hneg : share r.amount n W x.weight < 0
        · simp only [hneg, if_true]
        · simp only [hneg, if_false] at h ⊢
          split at h
          · cases h
          · rename_i bb hs
            simp only [treasuryName] at hs
            rw [← hu] at hs
            obtain ⟨bb₂, hs2, s1, _⟩ := send_congr_some _ b₂ _ _ _ _ _ hw hb hs
            rw [hu] at hs2
            simp only [treasuryName, hs2]
            exact ih _ _ _ _ _ s1 h
      · simp only [hu, if_false] at h ⊢
        by_cases hbad : (!validDenom r.denom || decide (share r.amount n W x.weight < 0)) = true
        · simp only [hbad, if_true]
        · simp only [hbad, Bool.false_eq_true, if_false] at h ⊢
          split at h
          · cases h
          · rename_i bb hs
            simp only [treasuryName] at hs
            obtain ⟨bb₂, hs2, s1, _⟩ := send_congr_some _ b₂ _ _ _ _ _ hw hb hs
            simp only [treasuryName, hs2]
            exact ih _ _ _ _ _ s1 h

/-- the outcome of `tryPayout` without injected faults, as far as the rest of the loop can see it -/
inductive SameOutcome : PayOutcome → PayOutcome → Prop
  | paid (b₁ b₂ : Bank) (c₁ c₂ : Nat) (e : List Event) : SameOutcome (.paid b₁ c₁ e) (.paid b₂ c₂ e)
  | dropped : SameOutcome .dropped .dropped
  | failed (c₁ c₂ : Nat) : SameOutcome (.failed c₁) (.failed c₂)
  | panicked : SameOutcome .panicked .panicked

theorem SameOutcome.of_panicked {y : PayOutcome} (h : SameOutcome .panicked y) : y = .panicked := by cases h; rfl
theorem SameOutcome.of_dropped {y : PayOutcome} (h : SameOutcome .dropped y) : y = .dropped := by cases h; rfl
theorem SameOutcome.of_failed {c : Nat} {y : PayOutcome} (h : SameOutcome (.failed c) y) : ∃ c', y = .failed c' := by cases h; exact ⟨_, rfl⟩

theorem tryPayout_congr (t : Tenant) (r : Rec) (b₁ b₂ : Bank) (c₁ c₂ : Nat) (hb : ∀ d, b₁ (.treasury t.id) d = b₂ (.treasury t.id) d) :
    SameOutcome (tryPayout t r none b₁ c₁) (tryPayout t r none b₂ c₂) ∧
    (∀ b₁' c₁' e, tryPayout t r none b₁ c₁ = .paid b₁' c₁' e → ∃ b₂' c₂', tryPayout t r none b₂ c₂ = .paid b₂' c₂' e ∧
      (∀ d, b₁' (.treasury t.id) d = b₂' (.treasury t.id) d) ∧ (∀ w d, b₁ w d = b₂ w d → b₁' w d = b₂' w d)) := by
  unfold tryPayout
  split
  · exact ⟨.dropped, by intro _ _ _ h; cases h⟩
  · refine ⟨?_, fun b₁' c₁' e h => payRcpts_congr_paid t r _ _ _ b₁ b₂ c₁ c₂ [] b₁' c₁' e hb h⟩
    cases h1 : payRcpts t r none (validRcpts r).length (weightSum (validRcpts r)) (validRcpts r) b₁ c₁ [] with
    | paid b₁' c₁' e =>
      obtain ⟨b₂', c₂', h2, _⟩ := payRcpts_congr_paid t r _ _ _ b₁ b₂ c₁ c₂ [] b₁' c₁' e hb h1
      rw [h2]; exact .paid _ _ _ _ _
    | dropped => exact absurd h1 (payRcpts_ne_dropped _ _ _ _ _ _ _ _ _)
    | panicked => rw [payRcpts_congr_panicked t r _ _ _ b₁ b₂ c₁ c₂ [] hb h1]; exact .panicked
    | failed c =>
      cases h2 : payRcpts t r none (validRcpts r).length (weightSum (validRcpts r)) (validRcpts r) b₂ c₂ [] with
      | failed c' => exact .failed _ _
      | dropped => exact absurd h2 (payRcpts_ne_dropped _ _ _ _ _ _ _ _ _)
      | panicked =>
        have := payRcpts_congr_panicked t r _ _ _ b₂ b₁ c₂ c₁ [] (fun d => (hb d).symm) h2
        rw [h1] at this; cases this
      | paid b₂' c₂' e =>
        obtain ⟨_, _, h3, _⟩ := payRcpts_congr_paid t r _ _ _ b₂ b₁ c₂ c₁ [] b₂' c₂' e (fun d => (hb d).symm) h2
        rw [h1] at h3; cases h3

/-- **the settle loop of a tenant reads the bank only at that tenant's treasury**: on two banks that agree there (and with no
injected fault) it resolves the same records with the same events, leaves the same queue and index, panics on both or on
neither; afterwards the treasuries still agree, and so does every balance that agreed before -/
theorem settleQ_congr (h : Nat) (t : Tenant) :
    ∀ (l : List Rec) (b₁ b₂ : Bank) (c₁ c₂ : Nat) (idx : List (Str × Nat)), (∀ d, b₁ (.treasury t.id) d = b₂ (.treasury t.id) d) →
      (settleQ h t none l b₁ c₁ idx).remaining = (settleQ h t none l b₂ c₂ idx).remaining ∧
      (settleQ h t none l b₁ c₁ idx).index = (settleQ h t none l b₂ c₂ idx).index ∧
      (settleQ h t none l b₁ c₁ idx).events = (settleQ h t none l b₂ c₂ idx).events ∧
      (settleQ h t none l b₁ c₁ idx).settled = (settleQ h t none l b₂ c₂ idx).settled ∧
      (settleQ h t none l b₁ c₁ idx).droppedIds = (settleQ h t none l b₂ c₂ idx).droppedIds ∧
      (settleQ h t none l b₁ c₁ idx).panic = (settleQ h t none l b₂ c₂ idx).panic ∧
      (∀ d, (settleQ h t none l b₁ c₁ idx).bank (.treasury t.id) d = (settleQ h t none l b₂ c₂ idx).bank (.treasury t.id) d) ∧
      (∀ w d, b₁ w d = b₂ w d → (settleQ h t none l b₁ c₁ idx).bank w d = (settleQ h t none l b₂ c₂ idx).bank w d) := by
  intro l
  induction l with
  | nil => intro b₁ b₂ c₁ c₂ idx hb; exact ⟨rfl, rfl, rfl, rfl, rfl, rfl, hb, fun _ _ h => h⟩
  | cons r rest ih =>
    intro b₁ b₂ c₁ c₂ idx hb
    obtain ⟨hsame, hpaid⟩ := tryPayout_congr t r b₁ b₂ c₁ c₂ hb
    unfold settleQ
    by_cases hm : (!mature r.created t.period h) = true
    · simp only [if_pos hm]; exact ⟨trivial, trivial, trivial, trivial, trivial, trivial, hb, fun _ _ h => h⟩
    · simp only [if_neg hm]
      cases h1 : tryPayout t r none b₁ c₁ with
      | panicked =>
        rw [h1] at hsame
        simp only [hsame.of_panicked]
        exact ⟨trivial, trivial, trivial, trivial, trivial, trivial, hb, fun _ _ h => h⟩
      | failed c =>
        rw [h1] at hsame
        obtain ⟨c', h2⟩ := hsame.of_failed
        simp only [h2]
        exact ⟨trivial, trivial, trivial, trivial, trivial, trivial, hb, fun _ _ h => h⟩
      | dropped =>
        rw [h1] at hsame
        simp only [hsame.of_dropped]
        obtain ⟨i1, i2, i3, i4, i5, i6, i7, i8⟩ := ih b₁ b₂ c₁ c₂ (alErase idx r.req) hb
        exact ⟨i1, i2, by rw [i3], i4, by rw [i5], i6, i7, i8⟩
      | paid b₁' c₁' e =>
        obtain ⟨b₂', c₂', h2, hb', hpres⟩ := hpaid b₁' c₁' e h1
        simp only [h2]
        obtain ⟨i1, i2, i3, i4, i5, i6, i7, i8⟩ := ih b₁' b₂' c₁' c₂' (alErase idx r.req) hb'
        exact ⟨i1, i2, by rw [i3], by rw [i4], i5, i6, i7, fun w d hwd => i8 w d (hpres w d hwd)⟩

/-! ### the settle loop writes the bank only at its own treasury and at its recipients -/

theorem debits_payBatch_other (t : Tenant) (r : Rec) (j : Nat) (d : Str) (hj : j ≠ t.id) : debits (payBatch t r) j d = 0 := by
  unfold payBatch debits
  generalize validRcpts r = vs
  generalize List.length vs = n
  generalize weightSum vs = W
  induction vs with
  | nil => rfl
  | cons x xs ih =>
    simp only [List.map_cons, List.sum_cons, ih, Nat.add_zero]
    unfold payEv
    split
    · rfl
    · simp [debitOf, Ne.symm hj]

theorem credits_payBatch_none (t : Tenant) (r : Rec) (w : Holder) (d : Str) (hn : ∀ x ∈ validRcpts r, holderOfHex x.addr ≠ w) :
    credits (payBatch t r) w d = 0 := by
  unfold payBatch credits
  generalize (validRcpts r).length = n
  generalize weightSum (validRcpts r) = W
  revert hn
  generalize validRcpts r = vs
  intro hn
  induction vs with
  | nil => rfl
  | cons x xs ih =>
    simp only [List.map_cons, List.sum_cons, ih (fun y hy => hn y (by simp [hy])), Nat.add_zero]
    have := hn x (by simp)
    unfold payEv
    split <;> simp [creditOf, this]

/-- a tenant's loop - with or without failing backends - leaves every balance alone except its own treasury and the holders its
records pay -/
theorem settleQ_bank_frame (h : Nat) (t : Tenant) (f : Option Nat) (w : Holder) (hw : w ≠ .treasury t.id) :
    ∀ (l : List Rec) (b : Bank) (c : Nat) (idx : List (Str × Nat)), (∀ r ∈ l, ∀ x ∈ validRcpts r, holderOfHex x.addr ≠ w) →
      ∀ d, (settleQ h t f l b c idx).bank w d = b w d := by
  intro l
  induction l with
  | nil => intro b c idx _ d; rfl
  | cons r rest ih =>
    intro b c idx hn d
    unfold settleQ
    split
    · rfl
    · split
      · rfl
      · rfl
      · exact ih b c _ (fun x hx => hn x (by simp [hx])) d
      · rename_i b' c' ev hp
        rw [ih b' c' _ (fun x hx => hn x (by simp [hx])) d]
        by_cases hj : ∃ j, w = .treasury j
        · obtain ⟨j, rfl⟩ := hj
          have hjt : j ≠ t.id := fun e => hw (by rw [e])
          have := (tryPayout_paid _ _ _ _ _ _ _ _ hp).2 j d
          rw [debits_payBatch_other t r j d hjt] at this
          omega
        · have hnt : ∀ j, w ≠ .treasury j := fun j e => hj ⟨j, e⟩
          rw [tryPayout_credits _ _ _ _ _ _ _ _ hp w d hnt, credits_payBatch_none t r w d (hn r (by simp))]
          omega

end Settlus
