/-
  Tenant isolation over runs: the simulation relation between a run and the same run with other tenants' operations left out.
-/
import SettlusModel.Proofs.Isolation
import SettlusModel.Properties.C11
namespace Settlus

def timing (r : RoundInfo) : Nat × Int × Int := (r.id, r.prevoteEnd, r.voteEnd)

/-- `a` and `b` look the same to tenant `t`: everything the tenant's operations and its settle loop read agrees. `F` marks the bank
holders that only other tenants move (their treasuries, their depositors, their recipients); balances of those may differ. -/
structure Sim (t : Nat) (F : Holder → Prop) (a b : State) : Prop where
  h : a.h = b.h
  pr : a.powerReduction = b.powerReduction
  cp : a.constantPower = b.constantPower
  oparams : a.os.params = b.os.params
  prevotes : a.os.prevotes = b.os.prevotes
  votes : a.os.votes = b.os.votes
  miss : a.os.miss = b.os.miss
  feeders : a.os.feeders = b.os.feeders
  round : a.os.round.map timing = b.os.round.map timing
  vals : a.vals = b.vals
  distr : a.distr = b.distr
  owners : a.owners = b.owners
  pd : a.poolDenoms = b.poolDenoms
  fa : a.faultAt = none
  fb : b.faultAt = none
  sp : a.st.params = b.st.params
  ids : a.st.tenants.map (·.id) = b.st.tenants.map (·.id)
  ten : findTenant a.st.tenants t = findTenant b.st.tenants t
  recs : a.st.recs t = b.st.recs t
  index : a.st.index t = b.st.index t
  last : a.st.last t = b.st.last t
  bank : ∀ w d, ¬ F w → a.bank w d = b.bank w d

/-- closes `Sim` goals whose fields are the old ones, possibly after rewriting with them -/
macro "sim_auto" hs:ident : tactic => `(tactic|
  (refine ⟨?_, ?_, ?_, ?_, ?_, ?_, ?_, ?_, ?_, ?_, ?_, ?_, ?_, ?_, ?_, ?_, ?_, ?_, ?_, ?_, ?_, ?_⟩ <;>
   first
   | rfl
   | (have hh := Sim.h $hs; exact hh)
   | (have hh := Sim.pr $hs; exact hh)
   | (have hh := Sim.cp $hs; exact hh)
   | (have hh := Sim.oparams $hs; exact hh)
   | (have hh := Sim.prevotes $hs; exact hh)
   | (have hh := Sim.votes $hs; exact hh)
   | (have hh := Sim.miss $hs; exact hh)
   | (have hh := Sim.feeders $hs; exact hh)
   | (have hh := Sim.round $hs; exact hh)
   | (have hh := Sim.vals $hs; exact hh)
   | (have hh := Sim.distr $hs; exact hh)
   | (have hh := Sim.owners $hs; exact hh)
   | (have hh := Sim.pd $hs; exact hh)
   | (have hh := Sim.fa $hs; exact hh)
   | (have hh := Sim.fb $hs; exact hh)
   | (have hh := Sim.sp $hs; exact hh)
   | (have hh := Sim.ids $hs; exact hh)
   | (have hh := Sim.ten $hs; exact hh)
   | (have hh := Sim.recs $hs; exact hh)
   | (have hh := Sim.index $hs; exact hh)
   | (have hh := Sim.last $hs; exact hh)
   | (have hh := Sim.bank $hs; exact hh)
   | (simp only [Sim.prevotes $hs, Sim.votes $hs, Sim.feeders $hs, Sim.owners $hs, Sim.pd $hs, Sim.vals $hs, Sim.pr $hs, Sim.h $hs, Sim.miss $hs]; done)
   | (simp only [Option.map_some, timing, Prod.mk.injEq]; simp only [*, and_self]; done)
   | (simp only [Option.map_some, Option.some.injEq]; assumption)
   | assumption))

theorem isAdmin_congr (ts₁ ts₂ : List Tenant) (t : Nat) (a : String) (h : findTenant ts₁ t = findTenant ts₂ t) :
    isAdmin ts₁ t a = isAdmin ts₂ t a := by unfold isAdmin; rw [h]

/-- a deposit into `t` from an account no other tenant moves -/
theorem deposit_sim (t : Nat) (F : Holder → Prop) (hFt : ¬ F (.treasury t)) (a b : State) (hs : Sim t F a b) (sender : String) (amt : Option Int) (d : Str)
    (hsender : ∀ acc, decodeAcc sender = some acc → ¬ F (.acct acc)) :
    (deposit a sender t amt d).out = (deposit b sender t amt d).out ∧ Sim t F (deposit a sender t amt d).st (deposit b sender t amt d).st := by
  unfold deposit depositPlan
  cases hacc : decodeAcc sender with
  | none => exact ⟨rfl, hs⟩
  | some acc =>
    cases amt with
    | none => exact ⟨rfl, hs⟩
    | some x =>
      simp only [bind, Option.bind, ← hs.ten]
      by_cases hc : (validDenom d && decide (0 < x)) = true
      · simp only [hc, check, if_true]
        cases hten : findTenant a.st.tenants t with
        | none => exact ⟨rfl, hs⟩
        | some tn =>
          simp only
          by_cases hm : (!tn.mint) = true
          · simp only [hm, if_true]
            have hbal : a.bank (.acct acc) d = b.bank (.acct acc) d := hs.bank _ _ (hsender acc hacc)
            unfold Bank.send treasuryName
            rw [hbal]
            by_cases hlt : b.bank (.acct acc) d < x.toNat
            · simp only [hlt, if_true]; exact ⟨trivial, hs⟩
            · simp only [hlt, if_false, pure]
              refine ⟨trivial, ⟨hs.h, hs.pr, hs.cp, hs.oparams, hs.prevotes, hs.votes, hs.miss, hs.feeders, hs.round, hs.vals, hs.distr, hs.owners, hs.pd, hs.fa, hs.fb,
                hs.sp, hs.ids, hs.ten, hs.recs, hs.index, hs.last, ?_⟩⟩
              intro w d' hw
              simp only [Bank.credit, Bank.debit, hs.bank w d' hw]
          · simp only [hm, Bool.false_eq_true, if_false]; exact ⟨trivial, hs⟩
      · simp only [hc, check, Bool.false_eq_true, if_false]; exact ⟨trivial, hs⟩

theorem getRecipients_congr (a b : State) (hp : a.st.params = b.st.params) (ho : a.owners = b.owners) (ch c tok : Str) :
    getRecipients a ch c tok = getRecipients b ch c tok := by
  unfold getRecipients; rw [hp, ho]

theorem createUtxr_congr (sa sb : SState) (t : Nat) (req : Str) (amt : Int) (d : Str) (nft : Nft) (c : Nat) (rc : List Recipient)
    (hr : sa.recs t = sb.recs t) (hi : sa.index t = sb.index t) (hl : sa.last t = sb.last t) :
    (createUtxr sa t req amt d nft c rc).id = (createUtxr sb t req amt d nft c rc).id ∧
    (createUtxr sa t req amt d nft c rc).st.recs t = (createUtxr sb t req amt d nft c rc).st.recs t ∧
    (createUtxr sa t req amt d nft c rc).st.index t = (createUtxr sb t req amt d nft c rc).st.index t ∧
    (createUtxr sa t req amt d nft c rc).st.last t = (createUtxr sb t req amt d nft c rc).st.last t := by
  unfold createUtxr nextId
  rw [hi, hl, hr]
  split <;> simp [hr, hi, hl]

/-- a `Record` for `t` -/
theorem record_sim (t : Nat) (F : Holder → Prop) (a b : State) (hs : Sim t F a b) (sender : String) (req : Str) (amt : Option Int) (d ch c tok : Str) :
    (record a sender t req amt d ch c tok).out = (record b sender t req amt d ch c tok).out ∧
    Sim t F (record a sender t req amt d ch c tok).st (record b sender t req amt d ch c tok).st := by
  unfold record recordPlan
  cases hacc : decodeAcc sender with
  | none => exact ⟨rfl, hs⟩
  | some acc =>
    cases amt with
    | none => exact ⟨rfl, hs⟩
    | some x =>
      simp only [bind, Option.bind, ← hs.ten, ← isAdmin_congr _ _ t sender hs.ten, ← getRecipients_congr a b hs.sp hs.owners, ← hs.h]
      by_cases hb : (recordBasic (some x) d c tok && validUtf8 req) = true
      · simp only [hb, check, if_true]
        by_cases hadm : isAdmin a.st.tenants t sender = true
        · simp only [hadm, if_true]
          cases hten : findTenant a.st.tenants t with
          | none => exact ⟨rfl, hs⟩
          | some tn =>
            simp only
            by_cases hd : (tn.denom == d && tn.period != 0) = true
            · simp only [hd, if_true]
              cases hrc : getRecipients a ch c tok with
              | none => exact ⟨rfl, hs⟩
              | some rc =>
                simp only
                obtain ⟨e1, e2, e3, e4⟩ := createUtxr_congr a.st b.st t req x d { chain := ch, contract := normalizeHex c, token := normalizeHex tok } a.h rc hs.recs hs.index hs.last
                rw [← e1]
                cases hid : (createUtxr a.st t req x d { chain := ch, contract := normalizeHex c, token := normalizeHex tok } a.h rc).id with
                | none => exact ⟨rfl, hs⟩
                | some id =>
                  simp only [pure]
                  refine ⟨trivial, ⟨rfl, hs.pr, hs.cp, hs.oparams, hs.prevotes, hs.votes, hs.miss, hs.feeders, hs.round, hs.vals, hs.distr, hs.owners, hs.pd, hs.fa, hs.fb,
                    ?_, ?_, ?_, e2, e3, e4, hs.bank⟩⟩
                  · simp only [(createUtxr_frame _ _ _ _ _ _ _ _).2]; exact hs.sp
                  · simp only [(createUtxr_frame _ _ _ _ _ _ _ _).1]; exact hs.ids
                  · simp only [(createUtxr_frame _ _ _ _ _ _ _ _).1]; exact hs.ten
            · simp only [hd, Bool.false_eq_true, if_false]; exact ⟨trivial, hs⟩
        · simp only [hadm, Bool.false_eq_true, if_false]; exact ⟨trivial, hs⟩
      · simp only [hb, check, Bool.false_eq_true, if_false]; exact ⟨trivial, hs⟩

theorem Sim.withTenants {t : Nat} {F : Holder → Prop} {a b : State} (hs : Sim t F a b) (ta tb : List Tenant)
    (hids : ta.map (·.id) = tb.map (·.id)) (hten : findTenant ta t = findTenant tb t) :
    Sim t F { a with st := { a.st with tenants := ta } } { b with st := { b.st with tenants := tb } } :=
  ⟨hs.h, hs.pr, hs.cp, hs.oparams, hs.prevotes, hs.votes, hs.miss, hs.feeders, hs.round, hs.vals, hs.distr, hs.owners, hs.pd, hs.fa, hs.fb,
    hs.sp, hids, hten, hs.recs, hs.index, hs.last, hs.bank⟩

theorem cancel_sim (t : Nat) (F : Holder → Prop) (a b : State) (hs : Sim t F a b) (sender : String) (req : Str) :
    (cancel a sender t req).out = (cancel b sender t req).out ∧ Sim t F (cancel a sender t req).st (cancel b sender t req).st := by
  have hp : cancelPlan a sender t req = cancelPlan b sender t req := by
    unfold cancelPlan; rw [hs.ten, isAdmin_congr _ _ t sender hs.ten, hs.index]
  unfold cancel
  rw [← hp]
  cases cancelPlan a sender t req with
  | none => exact ⟨rfl, hs⟩
  | some id =>
    simp only [← hs.h]
    refine ⟨trivial, ⟨rfl, hs.pr, hs.cp, hs.oparams, hs.prevotes, hs.votes, hs.miss, hs.feeders, hs.round, hs.vals, hs.distr, hs.owners, hs.pd, hs.fa, hs.fb,
      hs.sp, hs.ids, hs.ten, ?_, ?_, hs.last, hs.bank⟩⟩
    · simp only [fupd_same, hs.recs]
    · simp only [fupd_same, hs.index]

theorem setTenant_sim (t : Nat) (F : Holder → Prop) (a b : State) (hs : Sim t F a b) (tn : Tenant) :
    Sim t F { a with st := { a.st with tenants := setTenant a.st.tenants tn } } { b with st := { b.st with tenants := setTenant b.st.tenants tn } } := by
  apply hs.withTenants
  · rw [setTenant_ids, setTenant_ids]; exact hs.ids
  · rw [findTenant_setTenant, findTenant_setTenant, hs.ten]

theorem addAdmin_sim (t : Nat) (F : Holder → Prop) (a b : State) (hs : Sim t F a b) (sender n : String) :
    (addAdmin a sender t n).out = (addAdmin b sender t n).out ∧ Sim t F (addAdmin a sender t n).st (addAdmin b sender t n).st := by
  have hp : addAdminPlan a sender t n = addAdminPlan b sender t n := by
    unfold addAdminPlan; rw [hs.ten, isAdmin_congr _ _ t sender hs.ten]
  unfold addAdmin
  rw [← hp]
  cases addAdminPlan a sender t n with
  | none => exact ⟨rfl, hs⟩
  | some tn => exact ⟨rfl, setTenant_sim t F a b hs tn⟩

theorem removeAdmin_sim (t : Nat) (F : Holder → Prop) (a b : State) (hs : Sim t F a b) (sender n : String) :
    (removeAdmin a sender t n).out = (removeAdmin b sender t n).out ∧ Sim t F (removeAdmin a sender t n).st (removeAdmin b sender t n).st := by
  have hp : removeAdminPlan a sender t n = removeAdminPlan b sender t n := by
    unfold removeAdminPlan; rw [hs.ten, isAdmin_congr _ _ t sender hs.ten]
  unfold removeAdmin
  rw [← hp]
  cases removeAdminPlan a sender t n with
  | none => exact ⟨rfl, hs⟩
  | some tn => exact ⟨rfl, setTenant_sim t F a b hs tn⟩

theorem setPeriod_sim (t : Nat) (F : Holder → Prop) (a b : State) (hs : Sim t F a b) (sender : String) (p : Nat) :
    (setPeriod a sender t p).out = (setPeriod b sender t p).out ∧ Sim t F (setPeriod a sender t p).st (setPeriod b sender t p).st := by
  have hp : setPeriodPlan a sender t p = setPeriodPlan b sender t p := by
    unfold setPeriodPlan; rw [hs.ten, isAdmin_congr _ _ t sender hs.ten]
  unfold setPeriod
  rw [← hp]
  cases setPeriodPlan a sender t p with
  | none => exact ⟨rfl, hs⟩
  | some tn => exact ⟨rfl, setTenant_sim t F a b hs tn⟩

theorem createTenant_sim (t : Nat) (F : Holder → Prop) (a b : State) (hs : Sim t F a b) (sender : String) (d : Str) (p : Nat) (mc : Option Str) :
    (createTenant a sender d p mc).out = (createTenant b sender d p mc).out ∧ Sim t F (createTenant a sender d p mc).st (createTenant b sender d p mc).st := by
  have hp : createTenantPlan a sender d p mc = createTenantPlan b sender d p mc := by
    unfold createTenantPlan; rw [largestTenantId_ids _ _ hs.ids]
  unfold createTenant
  rw [← hp]
  cases createTenantPlan a sender d p mc with
  | none => exact ⟨rfl, hs⟩
  | some tn =>
    refine ⟨rfl, ?_⟩
    apply hs.withTenants
    · simp only [List.map_append, hs.ids]
    · rw [findTenant_append, findTenant_append, hs.ten]

/-! ### operations addressed to another tenant -/

/-- the tenant a settlement message is addressed to -/
def addressee : Op → Option Nat
  | .deposit _ t _ _ => some t
  | .record _ t _ _ _ _ _ _ => some t
  | .cancel _ t _ => some t
  | .addAdmin _ t _ => some t
  | .removeAdmin _ t _ => some t
  | .setPeriod _ t _ => some t
  | _ => none

theorem Sim.left {t : Nat} {F : Holder → Prop} {a b : State} (hs : Sim t F a b) (a' : State)
    (h1 : a'.h = a.h) (h2 : a'.powerReduction = a.powerReduction) (h3 : a'.constantPower = a.constantPower) (h4 : a'.os = a.os)
    (h5 : a'.vals = a.vals) (h6 : a'.distr = a.distr) (h7 : a'.owners = a.owners) (h8 : a'.poolDenoms = a.poolDenoms) (h9 : a'.faultAt = a.faultAt)
    (h10 : a'.st.params = a.st.params) (h11 : a'.st.tenants.map (·.id) = a.st.tenants.map (·.id)) (h12 : findTenant a'.st.tenants t = findTenant a.st.tenants t)
    (h13 : a'.st.recs t = a.st.recs t) (h14 : a'.st.index t = a.st.index t) (h15 : a'.st.last t = a.st.last t)
    (h16 : ∀ w d, ¬ F w → a'.bank w d = a.bank w d) : Sim t F a' b :=
  ⟨h1.trans hs.h, h2.trans hs.pr, h3.trans hs.cp, by rw [h4]; exact hs.oparams, by rw [h4]; exact hs.prevotes, by rw [h4]; exact hs.votes,
    by rw [h4]; exact hs.miss, by rw [h4]; exact hs.feeders, by rw [h4]; exact hs.round, h5.trans hs.vals, h6.trans hs.distr, h7.trans hs.owners,
    h8.trans hs.pd, h9.trans hs.fa, hs.fb, h10.trans hs.sp, h11.trans hs.ids, h12.trans hs.ten, h13.trans hs.recs, h14.trans hs.index, h15.trans hs.last,
    fun w d hw => (h16 w d hw).trans (hs.bank w d hw)⟩

theorem setTenant_foreign (ts : List Tenant) (tn old : Tenant) (t t' : Nat) (hne : t' ≠ t) (hold : findTenant ts t' = some old) (hid : tn.id = old.id) :
    (setTenant ts tn).map (·.id) = ts.map (·.id) ∧ findTenant (setTenant ts tn) t = findTenant ts t := by
  refine ⟨setTenant_ids ts tn, ?_⟩
  rw [findTenant_setTenant]
  have : tn.id = t' := by rw [hid]; exact (findTenant_some_mem hold).2
  have hne' : ¬ t = tn.id := by rw [this]; exact fun e => hne e.symm
  simp [hne']

theorem send_frame (b b' : Bank) (src dst : Holder) (d : Str) (n : Nat) (h : b.send src dst d n = some b') (w : Holder) (h1 : w ≠ src) (h2 : w ≠ dst) (d' : Str) :
    b' w d' = b w d' := by
  unfold Bank.send at h
  split at h
  · cases h
  · have := Option.some.inj h
    rw [← this]
    simp [Bank.credit, Bank.debit, h1, h2]

/-- **a message addressed to another tenant changes nothing this tenant can see** (its sender, if it is a deposit, being an account
only the other tenants use) -/
theorem foreign_sim (H : Str → Str) (t : Nat) (F : Holder → Prop) (hF3 : ∀ t', t' ≠ t → F (.treasury t')) (a b : State) (hs : Sim t F a b)
    (op : Op) (t' : Nat) (hne : t' ≠ t) (haddr : addressee op = some t')
    (hdep : ∀ sender amt d, op = .deposit sender t' amt d → ∀ acc, decodeAcc sender = some acc → F (.acct acc)) :
    Sim t F (step H a op).st b := by
  have hne' : t ≠ t' := fun e => hne e.symm
  cases op <;> simp only [addressee, Option.some.injEq, reduceCtorEq] at haddr
  case deposit sender t'' amt d =>
    subst haddr
    simp only [step, ofS, deposit]
    split
    · rename_i p hp
      obtain ⟨acc, x, tn, hacc, _, _, _, _, _, hsend, _⟩ := depositPlan_some hp
      apply hs.left <;> try rfl
      intro w d' hw
      have h1 : w ≠ .acct acc := fun e => hw (e ▸ hdep sender amt d rfl acc hacc)
      have h2 : w ≠ treasuryName t'' := fun e => hw (e ▸ hF3 t'' hne)
      exact send_frame _ _ _ _ _ _ hsend w h1 h2 d'
    · exact hs
  case record sender t'' req amt d ch c tok =>
    subst haddr
    simp only [step, ofS, record]
    split
    · rename_i p hp
      obtain ⟨_, amount, _, _, _, _, _, _, _, _, _, _, hid, hst⟩ := recordPlan_some hp
      have hfr := createUtxr_frame a.st t'' req amount d p.nft a.h p.rcpt
      by_cases hh : alHas (a.st.index t'') req = true
      · simp [createUtxr, hh] at hid
      · apply hs.left <;> first | rfl | (intro _ _ _; rfl) | skip
        · simp only [hst]; exact hfr.2
        · simp only [hst, hfr.1]
        · simp only [hst, hfr.1]
        · simp only [hst, createUtxr, hh, Bool.false_eq_true, if_false, fupd_other _ _ _ _ hne']
        · simp only [hst, createUtxr, hh, Bool.false_eq_true, if_false, fupd_other _ _ _ _ hne']
        · simp only [hst, createUtxr, hh, Bool.false_eq_true, if_false, fupd_other _ _ _ _ hne']
    · exact hs
  case cancel sender t'' req =>
    subst haddr
    simp only [step, ofS, cancel]
    split
    · apply hs.left <;> first | rfl | (intro _ _ _; rfl) | skip
      · simp only [fupd_other _ _ _ _ hne']
      · simp only [fupd_other _ _ _ _ hne']
    · exact hs
  case addAdmin sender t'' n =>
    subst haddr
    simp only [step, ofS, addAdmin]
    split
    · rename_i tn hp
      obtain ⟨na, old, _, _, hold, _, htn⟩ := addAdminPlan_some hp
      obtain ⟨e1, e2⟩ := setTenant_foreign a.st.tenants tn old t t'' hne hold (by rw [htn])
      apply hs.left <;> first | rfl | exact e1 | exact e2 | (intro _ _ _; rfl)
    · exact hs
  case removeAdmin sender t'' n =>
    subst haddr
    simp only [step, ofS, removeAdmin]
    split
    · rename_i tn hp
      obtain ⟨ta, old, _, _, hold, _, _, htn⟩ := removeAdminPlan_some hp
      obtain ⟨e1, e2⟩ := setTenant_foreign a.st.tenants tn old t t'' hne hold (by rw [htn])
      apply hs.left <;> first | rfl | exact e1 | exact e2 | (intro _ _ _; rfl)
    · exact hs
  case setPeriod sender t'' p =>
    subst haddr
    simp only [step, ofS, setPeriod]
    split
    · rename_i tn hp
      obtain ⟨old, _, _, hold, htn⟩ := setPeriodPlan_some hp
      obtain ⟨e1, e2⟩ := setTenant_foreign a.st.tenants tn old t t'' hne hold (by rw [htn])
      apply hs.left <;> first | rfl | exact e1 | exact e2 | (intro _ _ _; rfl)
    · exact hs

/-! ### operations both runs execute -/

theorem Sim.withOs {t : Nat} {F : Holder → Prop} {a b : State} (hs : Sim t F a b) (oa ob : OState)
    (h1 : oa.params = ob.params) (h2 : oa.prevotes = ob.prevotes) (h3 : oa.votes = ob.votes) (h4 : oa.miss = ob.miss) (h5 : oa.feeders = ob.feeders)
    (h6 : oa.round.map timing = ob.round.map timing) : Sim t F { a with os := oa } { b with os := ob } :=
  ⟨hs.h, hs.pr, hs.cp, h1, h2, h3, h4, h5, h6, hs.vals, hs.distr, hs.owners, hs.pd, hs.fa, hs.fb, hs.sp, hs.ids, hs.ten, hs.recs, hs.index, hs.last, hs.bank⟩

theorem Sim.withBank {t : Nat} {F : Holder → Prop} {a b : State} (hs : Sim t F a b) (ba bb : Bank) (h : ∀ w d, ¬ F w → ba w d = bb w d) :
    Sim t F { a with bank := ba } { b with bank := bb } :=
  ⟨hs.h, hs.pr, hs.cp, hs.oparams, hs.prevotes, hs.votes, hs.miss, hs.feeders, hs.round, hs.vals, hs.distr, hs.owners, hs.pd, hs.fa, hs.fb, hs.sp, hs.ids, hs.ten,
    hs.recs, hs.index, hs.last, h⟩

theorem round_cases {a b : State} (h : a.os.round.map timing = b.os.round.map timing) :
    (a.os.round = none ∧ b.os.round = none) ∨ ∃ ra rb, a.os.round = some ra ∧ b.os.round = some rb ∧ ra.id = rb.id ∧ ra.prevoteEnd = rb.prevoteEnd ∧ ra.voteEnd = rb.voteEnd := by
  cases ha : a.os.round <;> cases hb : b.os.round <;> simp only [ha, hb, Option.map_none, Option.map_some, reduceCtorEq, Option.some.injEq] at h
  · exact Or.inl ⟨rfl, rfl⟩
  · rename_i ra rb
    simp only [timing, Prod.mk.injEq] at h
    exact Or.inr ⟨ra, rb, rfl, rfl, h.1, h.2.1, h.2.2⟩

theorem prevote_sim (t : Nat) (F : Holder → Prop) (a b : State) (hs : Sim t F a b) (f v : String) (hh : Str) (r : Nat) :
    (prevote a f v hh r).out = (prevote b f v hh r).out ∧ Sim t F (prevote a f v hh r).st (prevote b f v hh r).st := by
  unfold prevote
  cases decodeAcc f with
  | none => exact ⟨rfl, hs⟩
  | some _ =>
    cases decodeVal v with
    | none => exact ⟨rfl, hs⟩
    | some _ =>
      simp only
      rcases round_cases hs.round with ⟨ha, hb⟩ | ⟨ra, rb, ha, hb, e1, e2, _⟩
      · rw [ha, hb]; exact ⟨rfl, hs⟩
      · rw [ha, hb]
        simp only [e1, e2, hs.h]
        split
        · refine ⟨rfl, ?_⟩
          sim_auto hs
        · exact ⟨rfl, hs⟩

theorem vote_sim (H : Str → Str) (t : Nat) (F : Holder → Prop) (a b : State) (hs : Sim t F a b) (f v : String) (salt : Str) (r : Nat) (vds : List VoteData) :
    (vote H a f v salt r vds).out = (vote H b f v salt r vds).out ∧ Sim t F (vote H a f v salt r vds).st (vote H b f v salt r vds).st := by
  unfold vote
  cases decodeAcc f with
  | none => exact ⟨rfl, hs⟩
  | some _ =>
    cases decodeVal v with
    | none => exact ⟨rfl, hs⟩
    | some _ =>
      simp only
      rcases round_cases hs.round with ⟨ha, hb⟩ | ⟨ra, rb, ha, hb, e1, _, e3⟩
      · rw [ha, hb]; exact ⟨rfl, hs⟩
      · rw [ha, hb]
        simp only [e1, e3, hs.h, hs.sp, hs.prevotes]
        split
        · refine ⟨rfl, ?_⟩
          sim_auto hs
        · exact ⟨rfl, hs⟩

theorem consent_sim (t : Nat) (F : Holder → Prop) (a b : State) (hs : Sim t F a b) (v f : String) :
    (consent a v f).out = (consent b v f).out ∧ Sim t F (consent a v f).st (consent b v f).st := by
  unfold consent
  rw [hs.vals]
  repeat' split
  all_goals first | exact ⟨rfl, hs⟩ | skip
  refine ⟨rfl, ?_⟩
  sim_auto hs

/-- the operations a history may contain besides messages addressed to a tenant and block boundaries -/
def isSetup : Op → Bool
  | .createTenant .. | .fund .. | .fundPool .. | .setOwner .. | .prevote .. | .vote .. | .consent .. | .setOParams .. | .setSParams .. | .setVal .. | .dump => true
  | .failAt none => true
  | _ => false

theorem setup_sim (H : Str → Str) (t : Nat) (F : Holder → Prop) (a b : State) (hs : Sim t F a b) (op : Op) (hop : isSetup op = true) :
    (step H a op).out = (step H b op).out ∧ Sim t F (step H a op).st (step H b op).st := by
  cases op <;> simp only [isSetup, Bool.false_eq_true] at hop
  case createTenant s d p mc => exact createTenant_sim t F a b hs s d p mc
  case fund acct amt d =>
    simp only [step]
    split
    · exact ⟨rfl, hs⟩
    · split
      · refine ⟨rfl, hs.withBank _ _ ?_⟩
        intro w d' hw; simp only [Bank.credit, hs.bank w d' hw]
      · exact ⟨rfl, hs⟩
  case fundPool amt d =>
    simp only [step]
    split
    · exact ⟨rfl, hs⟩
    · refine ⟨rfl, ⟨hs.h, hs.pr, hs.cp, hs.oparams, hs.prevotes, hs.votes, hs.miss, hs.feeders, hs.round, hs.vals, hs.distr, hs.owners, ?_, hs.fa, hs.fb, hs.sp, hs.ids, hs.ten,
        hs.recs, hs.index, hs.last, ?_⟩⟩
      · simp only [hs.pd]
      · intro w d' hw; simp only [Bank.credit, hs.bank w d' hw]
  case setOwner c tk o =>
    simp only [step]
    refine ⟨trivial, ?_⟩
    sim_auto hs
  case prevote f v hh r => exact prevote_sim t F a b hs f v hh r
  case vote f v salt r vds => exact vote_sim H t F a b hs f v salt r vds
  case consent v f => exact consent_sim t F a b hs v f
  case setOParams vp thr frac w m =>
    simp only [step]
    split
    · refine ⟨rfl, ?_⟩
      sim_auto hs
    · exact ⟨rfl, hs⟩
  case setSParams fee chains =>
    simp only [step]
    split
    · refine ⟨rfl, ?_⟩
      sim_auto hs
    · exact ⟨rfl, hs⟩
  case setVal i power bd j pb =>
    simp only [step]
    rw [hs.vals, hs.pr]
    split
    · refine ⟨rfl, ?_⟩
      sim_auto hs
    · exact ⟨rfl, hs⟩
  case failAt k =>
    cases k with
    | none =>
      refine ⟨rfl, ?_⟩
      sim_auto hs
    | some _ => simp at hop
  case dump => exact ⟨rfl, hs⟩

/-! ### the oracle end-blocker under the relation -/

theorem claims_congr {t : Nat} {F : Holder → Prop} {a b : State} (hs : Sim t F a b) : claims a = claims b := by
  unfold claims; rw [hs.vals, hs.pr, hs.cp]

theorem tallyAccepted_congr {t : Nat} {F : Holder → Prop} {a b : State} (hs : Sim t F a b) : tallyAccepted a = tallyAccepted b := by
  unfold tallyAccepted; rw [claims_congr hs, hs.votes, hs.oparams]

theorem rewardOne_congr (cl : List (Nat × Nat)) (vals : List Val) (W : Nat) (d : Str) (pool : Nat) (x y : RewardRes × Nat) (c : Nat × Nat)
    (h1 : x.1.distr = y.1.distr) (h2 : x.2 = y.2) :
    (rewardOne cl vals W d pool x c).1.distr = (rewardOne cl vals W d pool y c).1.distr ∧ (rewardOne cl vals W d pool x c).2 = (rewardOne cl vals W d pool y c).2 := by
  unfold rewardOne
  simp only
  split
  · exact ⟨h1, h2⟩
  · simp only [h1, h2, and_self]

theorem rewardFold_congr (cl : List (Nat × Nat)) (vals : List Val) (W : Nat) (d : Str) (pool : Nat) (ws : List (Nat × Nat)) :
    ∀ (x y : RewardRes × Nat), x.1.distr = y.1.distr → x.2 = y.2 →
      (ws.foldl (rewardOne cl vals W d pool) x).1.distr = (ws.foldl (rewardOne cl vals W d pool) y).1.distr ∧
      (ws.foldl (rewardOne cl vals W d pool) x).2 = (ws.foldl (rewardOne cl vals W d pool) y).2 := by
  induction ws with
  | nil => intro x y h1 h2; exact ⟨h1, h2⟩
  | cons c r ih =>
    intro x y h1 h2
    simp only [List.foldl_cons]
    obtain ⟨e1, e2⟩ := rewardOne_congr cl vals W d pool x y c h1 h2
    exact ih _ _ e1 e2

theorem rewardDenom_congr (F : Holder → Prop) (hp : ¬ F .pool) (winners : List (Nat × Nat)) (vals : List Val) (W : Nat) (x y : RewardRes) (d : Str)
    (hd : x.distr = y.distr) (hb : ∀ w d', ¬ F w → x.bank w d' = y.bank w d') :
    (rewardDenom winners vals W x d).distr = (rewardDenom winners vals W y d).distr ∧
    (∀ w d', ¬ F w → (rewardDenom winners vals W x d).bank w d' = (rewardDenom winners vals W y d).bank w d') := by
  unfold rewardDenom
  simp only
  rw [hb .pool d hp]
  split
  · exact ⟨hd, hb⟩
  · obtain ⟨e1, e2⟩ := rewardFold_congr winners vals W d (y.bank .pool d) winners (x, 0) (y, 0) hd rfl
    unfold Bank.send
    simp only [rewardFold_bank, hb .pool d hp, e2]
    by_cases hlt : y.bank .pool d < (List.foldl (rewardOne winners vals W d (y.bank Holder.pool d)) (y, 0) winners).2
    · simp only [hlt, if_true, rewardFold_bank]
      exact ⟨e1, hb⟩
    · simp only [hlt, if_false]
      refine ⟨e1, ?_⟩
      intro w d' hw
      simp only [Bank.credit, Bank.debit, hb w d' hw]

theorem rewardWinners_congr {t : Nat} {F : Holder → Prop} (hp : ¬ F .pool) {a b : State} (hs : Sim t F a b) (cl : List (Nat × Nat)) (ms : List Nat) :
    (rewardWinners a cl ms).distr = (rewardWinners b cl ms).distr ∧
    (∀ w d, ¬ F w → (rewardWinners a cl ms).bank w d = (rewardWinners b cl ms).bank w d) := by
  unfold rewardWinners
  simp only
  rw [hs.pd, hs.vals]
  split
  · exact ⟨hs.distr, hs.bank⟩
  · have : ∀ (ds : List Str) (x y : RewardRes), x.distr = y.distr → (∀ w d', ¬ F w → x.bank w d' = y.bank w d') →
        (ds.foldl (rewardDenom (cl.filter (fun c => !ms.contains c.1)) b.vals (totalPower (cl.filter (fun c => !ms.contains c.1)))) x).distr =
        (ds.foldl (rewardDenom (cl.filter (fun c => !ms.contains c.1)) b.vals (totalPower (cl.filter (fun c => !ms.contains c.1)))) y).distr ∧
        (∀ w d', ¬ F w → (ds.foldl (rewardDenom (cl.filter (fun c => !ms.contains c.1)) b.vals (totalPower (cl.filter (fun c => !ms.contains c.1)))) x).bank w d' =
          (ds.foldl (rewardDenom (cl.filter (fun c => !ms.contains c.1)) b.vals (totalPower (cl.filter (fun c => !ms.contains c.1)))) y).bank w d') := by
      intro ds
      induction ds with
      | nil => intro x y h1 h2; exact ⟨h1, h2⟩
      | cons d r ih =>
        intro x y h1 h2
        simp only [List.foldl_cons]
        obtain ⟨e1, e2⟩ := rewardDenom_congr F hp _ b.vals _ x y d h1 h2
        exact ih _ _ e1 e2
    exact this b.poolDenoms ⟨a.bank, a.distr⟩ ⟨b.bank, b.distr⟩ hs.distr hs.bank

theorem slashAll_congr (x y : State) (miss : List (String × Nat)) (h1 : x.os.params = y.os.params) (h2 : x.powerReduction = y.powerReduction)
    (h3 : x.constantPower = y.constantPower) (h4 : x.vals = y.vals) : slashAll x miss = slashAll y miss := by
  unfold slashAll; rw [h1, h2, h3, h4]

theorem nextRoundInfo_timing {t : Nat} {F : Holder → Prop} {a b : State} (hs : Sim t F a b) : timing (nextRoundInfo a) = timing (nextRoundInfo b) := by
  simp only [nextRoundInfo, timing, hs.h, hs.oparams]

def tallyNow (s : State) : Prop := (s.h : Int) = voteEnd s.h s.os.params.votePeriod
instance (s : State) : Decidable (tallyNow s) := by unfold tallyNow; infer_instance

def missedNow (s : State) : List Nat := ((claims s).map (·.1)).filter (missed (claims s) (ballots s.os.votes) (tallyAccepted s))
def miss2 (s : State) : List (String × Nat) := (missedNow s).foldl bumpMiss s.os.miss
def closingNow (s : State) : Bool := slashWindowClosing s.h s.os.params.votePeriod s.os.params.slashWindow

/-- proves one field equation of the state after the oracle end-blocker -/
macro "oeb_tac" s:ident : tactic => `(tactic|
  (unfold oracleEndBlock
   try unfold tallyNow
   try unfold closingNow
   try unfold miss2
   try unfold missedNow
   by_cases ht : (($s).h : Int) = voteEnd ($s).h ($s).os.params.votePeriod
   · by_cases hc : slashWindowClosing ($s).h ($s).os.params.votePeriod ($s).os.params.slashWindow = true
     · by_cases h0 : roundStart ($s).h ($s).os.params.votePeriod = 0
       · simp only [ht, hc, h0, bne_self_eq_false, Bool.false_eq_true, if_false, if_true, and_self, ne_eq, not_true_eq_false, and_false, true_and, and_true, not_false_eq_true]
         try (first | rfl | (intro _; rfl) | (intro _; trivial) | (unfold slashAll; rfl) | (unfold rewardWinners; rfl))
       · simp only [ht, hc, h0, bne_self_eq_false, Bool.false_eq_true, if_false, if_true, and_self, ne_eq, not_true_eq_false, and_false, true_and, and_true, not_false_eq_true]
         try (first | rfl | (intro _; rfl) | (intro _; trivial) | (unfold slashAll; rfl) | (unfold rewardWinners; rfl))
     · by_cases h0 : roundStart ($s).h ($s).os.params.votePeriod = 0
       · simp only [ht, hc, h0, bne_self_eq_false, Bool.false_eq_true, if_false, if_true, and_self, ne_eq, not_true_eq_false, and_false, true_and, and_true, not_false_eq_true]
         try (first | rfl | (intro _; rfl) | (intro _; trivial) | (unfold slashAll; rfl) | (unfold rewardWinners; rfl))
       · simp only [ht, hc, h0, bne_self_eq_false, Bool.false_eq_true, if_false, if_true, and_self, ne_eq, not_true_eq_false, and_false, true_and, and_true, not_false_eq_true]
         try (first | rfl | (intro _; rfl) | (intro _; trivial) | (unfold slashAll; rfl) | (unfold rewardWinners; rfl))
   · have hne : ((($s).h : Int) != voteEnd ($s).h ($s).os.params.votePeriod) = true := by simpa using ht
     simp only [hne, if_true, ht, if_false, false_and]
     try (first | rfl | (intro _; rfl) | (intro _; trivial))))

theorem oeb_h (s : State) : (oracleEndBlock s).st.h = s.h := by
  oeb_tac s

theorem oeb_pr (s : State) : (oracleEndBlock s).st.powerReduction = s.powerReduction := by
  oeb_tac s

theorem oeb_cp (s : State) : (oracleEndBlock s).st.constantPower = s.constantPower := by
  oeb_tac s

theorem oeb_owners (s : State) : (oracleEndBlock s).st.owners = s.owners := by
  oeb_tac s

theorem oeb_pd (s : State) : (oracleEndBlock s).st.poolDenoms = s.poolDenoms := by
  oeb_tac s

theorem oeb_fa (s : State) : (oracleEndBlock s).st.faultAt = s.faultAt := by
  oeb_tac s

theorem oeb_oparams (s : State) : (oracleEndBlock s).st.os.params = s.os.params := by
  oeb_tac s

theorem oeb_feeders (s : State) : (oracleEndBlock s).st.os.feeders = s.os.feeders := by
  oeb_tac s

theorem oeb_round (s : State) : (oracleEndBlock s).st.os.round = some (nextRoundInfo s) := by
  oeb_tac s

theorem oeb_prevotes (s : State) : (oracleEndBlock s).st.os.prevotes = (if tallyNow s then [] else s.os.prevotes) := by
  oeb_tac s

theorem oeb_votes (s : State) : (oracleEndBlock s).st.os.votes = (if tallyNow s then [] else s.os.votes) := by
  oeb_tac s

theorem oeb_miss (s : State) : (oracleEndBlock s).st.os.miss = (if tallyNow s then (if closingNow s = true then [] else miss2 s) else s.os.miss) := by
  oeb_tac s

theorem oeb_vals (s : State) : (oracleEndBlock s).st.vals = (if tallyNow s ∧ closingNow s = true then slashAll s (miss2 s) else s.vals) := by
  oeb_tac s

theorem oeb_distr (s : State) : (oracleEndBlock s).st.distr = (if tallyNow s then (rewardWinners s (claims s) (missedNow s)).distr else s.distr) := by
  oeb_tac s

theorem oeb_bank (s : State) : (oracleEndBlock s).st.bank = (if tallyNow s then (rewardWinners s (claims s) (missedNow s)).bank else s.bank) := by
  oeb_tac s

theorem oeb_recs (s : State) : ∀ t, (oracleEndBlock s).st.st.recs t = (if tallyNow s ∧ roundStart s.h s.os.params.votePeriod ≠ 0 then (s.st.recs t).map (fillRec (tallyAccepted s) (roundStart s.h s.os.params.votePeriod - 1)) else s.st.recs t) := by
  oeb_tac s

/-- the oracle end-blocker keeps the relation: the tally, the miss counters, rewards and slashing read nothing of the settlement
store, and the fill writes this tenant's records from the same accepted owners in both runs -/
theorem oracleEndBlock_sim {t : Nat} {F : Holder → Prop} (hp : ¬ F .pool) {a b : State} (hs : Sim t F a b) :
    Sim t F (oracleEndBlock a).st (oracleEndBlock b).st := by
  have hcl := claims_congr hs
  have hacc := tallyAccepted_congr hs
  have htn : tallyNow a ↔ tallyNow b := by unfold tallyNow; rw [hs.h, hs.oparams]
  have hcn : closingNow a = closingNow b := by unfold closingNow; rw [hs.h, hs.oparams]
  have hmn : missedNow a = missedNow b := by unfold missedNow; rw [hcl, hacc, hs.votes]
  have hm2 : miss2 a = miss2 b := by unfold miss2; rw [hmn, hs.miss]
  obtain ⟨hrd, hrb⟩ := rewardWinners_congr hp hs (claims a) (missedNow a)
  rw [hcl, hmn] at hrd hrb
  have hten := oracleEndBlock_tenants a
  have hten' := oracleEndBlock_tenants b
  refine ⟨?_, ?_, ?_, ?_, ?_, ?_, ?_, ?_, ?_, ?_, ?_, ?_, ?_, ?_, ?_, ?_, ?_, ?_, ?_, ?_, ?_, ?_⟩
  · rw [oeb_h, oeb_h]; exact hs.h
  · rw [oeb_pr, oeb_pr]; exact hs.pr
  · rw [oeb_cp, oeb_cp]; exact hs.cp
  · rw [oeb_oparams, oeb_oparams]; exact hs.oparams
  · rw [oeb_prevotes, oeb_prevotes, hs.prevotes]; simp only [htn]
  · rw [oeb_votes, oeb_votes, hs.votes]; simp only [htn]
  · rw [oeb_miss, oeb_miss, hs.miss, hm2, hcn]; simp only [htn]
  · rw [oeb_feeders, oeb_feeders]; exact hs.feeders
  · rw [oeb_round, oeb_round]; simp only [Option.map_some, nextRoundInfo_timing hs]
  · rw [oeb_vals, oeb_vals, hs.vals, hm2, hcn, slashAll_congr a b _ hs.oparams hs.pr hs.cp hs.vals]; simp only [htn]
  · rw [oeb_distr, oeb_distr, hs.distr, hcl, hmn, hrd]; simp only [htn]
  · rw [oeb_owners, oeb_owners]; exact hs.owners
  · rw [oeb_pd, oeb_pd]; exact hs.pd
  · rw [oeb_fa]; exact hs.fa
  · rw [oeb_fa]; exact hs.fb
  · rw [hten.2.1, hten'.2.1]; exact hs.sp
  · rw [hten.1, hten'.1]; exact hs.ids
  · rw [hten.1, hten'.1]; exact hs.ten
  · rw [oeb_recs, oeb_recs, hs.recs, hacc, hs.h, hs.oparams]; simp only [htn]
  · rw [hten.2.2.2, hten'.2.2.2]; exact hs.index
  · rw [hten.2.2.1, hten'.2.2.1]; exact hs.last
  · intro w d hw
    rw [oeb_bank, oeb_bank]
    by_cases h : tallyNow a
    · simp only [h, htn.mp h, if_true]; rw [hcl, hmn]; exact hrb w d hw
    · have h' : ¬ tallyNow b := fun x => h (htn.mpr x)
      simp only [h, h', if_false]; exact hs.bank w d hw

/-! ### the settlement end-blocker under the relation -/

/-- every recipient of another tenant's pending records is a holder only other tenants move -/
def ForeignRcpts (t : Nat) (F : Holder → Prop) (s : State) : Prop :=
  ∀ k, k ≠ t → ∀ r ∈ s.st.recs k, ∀ x ∈ validRcpts r, F (holderOfHex x.addr)

def CoinsOk (s : State) : Prop := ∀ k, ∀ r ∈ s.st.recs k, C11.CoinOk r

theorem afterQ_recs_subset (h : Nat) (f : Option Nat) (tn : Tenant) (s : State) (c : Nat) (k : Nat) (r : Rec)
    (hr : r ∈ (afterQ s tn (settleQ h tn f (s.st.recs tn.id) s.bank c (s.st.index tn.id))).st.recs k) : r ∈ s.st.recs k := by
  obtain ⟨pre, p1, _⟩ := settleQ_ledger h tn f (s.st.recs tn.id) s.bank c (s.st.index tn.id)
  simp only [afterQ] at hr
  by_cases hk : k = tn.id
  · subst hk
    simp only [fupd_same] at hr
    rw [p1]; simp [hr]
  · simpa [fupd_other _ _ _ _ hk] using hr

theorem Sim.right {t : Nat} {F : Holder → Prop} {a b : State} (hs : Sim t F a b) (b' : State)
    (h1 : b'.h = b.h) (h2 : b'.powerReduction = b.powerReduction) (h3 : b'.constantPower = b.constantPower) (h4 : b'.os = b.os)
    (h5 : b'.vals = b.vals) (h6 : b'.distr = b.distr) (h7 : b'.owners = b.owners) (h8 : b'.poolDenoms = b.poolDenoms) (h9 : b'.faultAt = b.faultAt)
    (h10 : b'.st.params = b.st.params) (h11 : b'.st.tenants.map (·.id) = b.st.tenants.map (·.id)) (h12 : findTenant b'.st.tenants t = findTenant b.st.tenants t)
    (h13 : b'.st.recs t = b.st.recs t) (h14 : b'.st.index t = b.st.index t) (h15 : b'.st.last t = b.st.last t)
    (h16 : ∀ w d, ¬ F w → b'.bank w d = b.bank w d) : Sim t F a b' :=
  ⟨hs.h.trans h1.symm, hs.pr.trans h2.symm, hs.cp.trans h3.symm, by rw [h4]; exact hs.oparams, by rw [h4]; exact hs.prevotes, by rw [h4]; exact hs.votes,
    by rw [h4]; exact hs.miss, by rw [h4]; exact hs.feeders, by rw [h4]; exact hs.round, hs.vals.trans h5.symm, hs.distr.trans h6.symm, hs.owners.trans h7.symm,
    hs.pd.trans h8.symm, hs.fa, h9.trans hs.fb, hs.sp.trans h10.symm, hs.ids.trans h11.symm, hs.ten.trans h12.symm, hs.recs.trans h13.symm, hs.index.trans h14.symm,
    hs.last.trans h15.symm, fun w d hw => (hs.bank w d hw).trans (h16 w d hw).symm⟩

/-- another tenant's settle loop changes nothing this tenant can see -/
theorem afterQ_foreign_frame (t : Nat) (F : Holder → Prop) (hF3 : ∀ t', t' ≠ t → F (.treasury t')) (h : Nat) (f : Option Nat) (tn : Tenant) (hk : tn.id ≠ t)
    (s : State) (c : Nat) (hfr : ForeignRcpts t F s) :
    let s' := afterQ s tn (settleQ h tn f (s.st.recs tn.id) s.bank c (s.st.index tn.id))
    s'.h = s.h ∧ s'.powerReduction = s.powerReduction ∧ s'.constantPower = s.constantPower ∧ s'.os = s.os ∧ s'.vals = s.vals ∧ s'.distr = s.distr ∧
    s'.owners = s.owners ∧ s'.poolDenoms = s.poolDenoms ∧ s'.faultAt = s.faultAt ∧ s'.st.params = s.st.params ∧ s'.st.tenants = s.st.tenants ∧
    s'.st.recs t = s.st.recs t ∧ s'.st.index t = s.st.index t ∧ s'.st.last t = s.st.last t ∧ (∀ w d, ¬ F w → s'.bank w d = s.bank w d) := by
  have hk' : t ≠ tn.id := fun e => hk e.symm
  refine ⟨rfl, rfl, rfl, rfl, rfl, rfl, rfl, rfl, rfl, rfl, rfl, ?_, ?_, rfl, ?_⟩
  · simp only [afterQ, fupd_other _ _ _ _ hk']
  · simp only [afterQ, fupd_other _ _ _ _ hk']
  · intro w d hw
    simp only [afterQ]
    apply settleQ_bank_frame h tn f w (fun e => hw (e ▸ hF3 tn.id hk))
    intro r hr x hx e
    exact hw (e ▸ hfr tn.id hk r hr x hx)

theorem settleAll_sim (t : Nat) (F : Holder → Prop) (hF1 : ¬ F (.treasury t)) (hF3 : ∀ t', t' ≠ t → F (.treasury t')) (h : Nat) :
    ∀ (tsa tsb : List Tenant), tsa.map (·.id) = tsb.map (·.id) →
      (∀ x ∈ tsa, ∀ y ∈ tsb, x.id = t → y.id = t → x = y) →
      ∀ (a b : State) (ca cb : Nat), Sim t F a b → CoinsOk a → CoinsOk b → ForeignRcpts t F a → ForeignRcpts t F b →
        Sim t F (settleAll h none tsa a ca).st (settleAll h none tsb b cb).st ∧
        (settleAll h none tsa a ca).panic = false ∧ (settleAll h none tsb b cb).panic = false := by
  intro tsa
  induction tsa with
  | nil =>
    intro tsb hids _ a b ca cb hs _ _ _ _
    cases tsb with
    | nil => exact ⟨by simpa [settleAll] using hs, rfl, rfl⟩
    | cons y r => simp at hids
  | cons xa ra ih =>
    intro tsb hids huniq a b ca cb hs hca hcb hfa hfb
    cases tsb with
    | nil => simp at hids
    | cons xb rb =>
      simp only [List.map_cons, List.cons.injEq] at hids
      obtain ⟨hid, hrest⟩ := hids
      have hpa := C11.block_completes h xa none (a.st.recs xa.id) a.bank ca (a.st.index xa.id) (hca xa.id)
      have hpb := C11.block_completes h xb none (b.st.recs xb.id) b.bank cb (b.st.index xb.id) (hcb xb.id)
      rw [settleAll_cons, settleAll_cons]
      simp only [hpa, hpb, Bool.false_eq_true, if_false]
      have huniq' : ∀ x ∈ ra, ∀ y ∈ rb, x.id = t → y.id = t → x = y :=
        fun x hx y hy => huniq x (by simp [hx]) y (by simp [hy])
      have hca' : CoinsOk (afterQ a xa (settleQ h xa none (a.st.recs xa.id) a.bank ca (a.st.index xa.id))) :=
        fun k r hr => hca k r (afterQ_recs_subset h none xa a ca k r hr)
      have hcb' : CoinsOk (afterQ b xb (settleQ h xb none (b.st.recs xb.id) b.bank cb (b.st.index xb.id))) :=
        fun k r hr => hcb k r (afterQ_recs_subset h none xb b cb k r hr)
      have hfa' : ForeignRcpts t F (afterQ a xa (settleQ h xa none (a.st.recs xa.id) a.bank ca (a.st.index xa.id))) :=
        fun k hk r hr => hfa k hk r (afterQ_recs_subset h none xa a ca k r hr)
      have hfb' : ForeignRcpts t F (afterQ b xb (settleQ h xb none (b.st.recs xb.id) b.bank cb (b.st.index xb.id))) :=
        fun k hk r hr => hfb k hk r (afterQ_recs_subset h none xb b cb k r hr)
      have hsim' : Sim t F (afterQ a xa (settleQ h xa none (a.st.recs xa.id) a.bank ca (a.st.index xa.id)))
          (afterQ b xb (settleQ h xb none (b.st.recs xb.id) b.bank cb (b.st.index xb.id))) := by
        by_cases hk : xa.id = t
        · have hkb : xb.id = t := by rw [← hid]; exact hk
          have hxe : xa = xb := huniq xa (by simp) xb (by simp) hk hkb
          subst hxe
          rw [hk]
          have hbt : ∀ d, a.bank (.treasury xa.id) d = b.bank (.treasury xa.id) d := by
            intro d; rw [hk]; exact hs.bank _ _ hF1
          have := settleQ_congr h xa (a.st.recs t) a.bank b.bank ca cb (a.st.index t) hbt
          rw [hs.recs, hs.index] at this ⊢
          obtain ⟨i1, i2, _, _, _, _, _, i8⟩ := this
          refine ⟨hs.h, hs.pr, hs.cp, hs.oparams, hs.prevotes, hs.votes, hs.miss, hs.feeders, hs.round, hs.vals, hs.distr, hs.owners, hs.pd, hs.fa, hs.fb,
            hs.sp, hs.ids, hs.ten, ?_, ?_, hs.last, ?_⟩
          · simp only [afterQ, hk, fupd_same]; exact i1
          · simp only [afterQ, hk, fupd_same]; exact i2
          · intro w d hw
            simp only [afterQ]
            exact i8 w d (hs.bank w d hw)
        · have hkb : xb.id ≠ t := by rw [← hid]; exact hk
          obtain ⟨a1, a2, a3, a4, a5, a6, a7, a8, a9, a10, a11, a12, a13, a14, a15⟩ := afterQ_foreign_frame t F hF3 h none xa hk a ca hfa
          obtain ⟨b1, b2, b3, b4, b5, b6, b7, b8, b9, b10, b11, b12, b13, b14, b15⟩ := afterQ_foreign_frame t F hF3 h none xb hkb b cb hfb
          exact (hs.left _ a1 a2 a3 a4 a5 a6 a7 a8 a9 a10 (by rw [a11]) (by rw [a11]) a12 a13 a14 a15).right _ b1 b2 b3 b4 b5 b6 b7 b8 b9 b10 (by rw [b11]) (by rw [b11]) b12 b13 b14 b15
      exact ih rb hrest huniq' _ _ _ _ hsim' hca' hcb' hfa' hfb'

theorem findTenant_of_mem_nodup (ts : List Tenant) (hn : (ts.map (·.id)).Nodup) (x : Tenant) (hx : x ∈ ts) : findTenant ts x.id = some x := by
  unfold findTenant
  induction ts with
  | nil => cases hx
  | cons y r ih =>
    simp only [List.map_cons, List.nodup_cons] at hn
    simp only [List.find?_cons]
    rcases List.mem_cons.mp hx with rfl | hx'
    · simp
    · have hne : y.id ≠ x.id := fun e => hn.1 (e ▸ List.mem_map.mpr ⟨x, hx', rfl⟩)
      have : (y.id == x.id) = false := by simp [hne]
      simp only [this]
      exact ih hn.2 hx'

/-- **a block boundary keeps the relation**: with no injected fault, well-formed coins and other tenants' recipients among the
holders only they move, tenant `t` sees the same end-block in both runs -/
theorem blockStep_sim (t : Nat) (F : Holder → Prop) (hF1 : ¬ F (.treasury t)) (hF3 : ∀ t', t' ≠ t → F (.treasury t')) (hp : ¬ F .pool)
    (a b : State) (hs : Sim t F a b) (hna : (a.st.tenants.map (·.id)).Nodup) (hnb : (b.st.tenants.map (·.id)).Nodup)
    (hca : CoinsOk (oracleEndBlock a).st) (hcb : CoinsOk (oracleEndBlock b).st)
    (hfa : ForeignRcpts t F (oracleEndBlock a).st) (hfb : ForeignRcpts t F (oracleEndBlock b).st) :
    (blockStep a).out = (blockStep b).out ∧ Sim t F (blockStep a).st (blockStep b).st := by
  have hso := oracleEndBlock_sim hp hs
  have hta := (oracleEndBlock_tenants a).1
  have htb := (oracleEndBlock_tenants b).1
  have huniq : ∀ x ∈ (oracleEndBlock a).st.st.tenants, ∀ y ∈ (oracleEndBlock b).st.st.tenants, x.id = t → y.id = t → x = y := by
    intro x hx y hy hxt hyt
    rw [hta] at hx; rw [htb] at hy
    have h1 := findTenant_of_mem_nodup _ hna x hx
    have h2 := findTenant_of_mem_nodup _ hnb y hy
    rw [hxt] at h1; rw [hyt] at h2
    have := hs.ten
    rw [h1, h2] at this
    exact Option.some.inj this
  obtain ⟨hsim, pa, pb⟩ := settleAll_sim t F hF1 hF3 a.h (oracleEndBlock a).st.st.tenants (oracleEndBlock b).st.st.tenants hso.ids huniq
    (oracleEndBlock a).st (oracleEndBlock b).st 0 0 hso hca hcb hfa hfb
  unfold blockStep
  simp only
  rw [hs.fa, hs.fb, ← hs.h]
  simp only [pa, pb, Bool.false_eq_true, if_false, true_and]
  exact ⟨rfl, hsim.pr, hsim.cp, hsim.oparams, hsim.prevotes, hsim.votes, hsim.miss, hsim.feeders, hsim.round, hsim.vals, hsim.distr, hsim.owners, hsim.pd, rfl, rfl,
    hsim.sp, hsim.ids, hsim.ten, hsim.recs, hsim.index, hsim.last, hsim.bank⟩

/-! ### tenant ids are strictly increasing -/

def TenantsAsc (s : State) : Prop := (s.st.tenants.map (·.id)).Pairwise (· < ·)

theorem pairwise_lt_le_last (l : List Nat) (h : l.Pairwise (· < ·)) : ∀ x ∈ l, ∀ y, l.getLast? = some y → x ≤ y := by
  induction l with
  | nil => intro x hx; cases hx
  | cons a r ih =>
    intro x hx y hy
    simp only [List.pairwise_cons] at h
    cases r with
    | nil => simp at hy hx; omega
    | cons b r' =>
      have hy' : (b :: r').getLast? = some y := by simpa [List.getLast?_cons_cons] using hy
      rcases List.mem_cons.mp hx with rfl | hx'
      · have hyin : y ∈ b :: r' := List.mem_of_getLast? hy'
        have := h.1 y hyin
        omega
      · exact ih h.2 x hx' y hy'

theorem step_tenantsAsc (H : Str → Str) (s : State) (op : Op) (h : TenantsAsc s) : TenantsAsc (step H s op).st := by
  unfold TenantsAsc at *
  by_cases hop : (match op with
      | .createTenant .. => False | .addAdmin .. => False | .removeAdmin .. => False | .setPeriod .. => False | _ => True)
  · rw [step_tenants H s op hop]; exact h
  · cases op <;> simp only [not_true_eq_false, not_false_eq_true] at hop
    case createTenant a d p mc =>
      simp only [step, ofS, createTenant]
      split
      · rename_i tn hp
        obtain ⟨_, _, _, _, htn, _⟩ := createTenantPlan_some hp
        simp only [List.map_append, List.map_cons, List.map_nil]
        rw [List.pairwise_append]
        refine ⟨h, by simp, ?_⟩
        intro x hx y hy
        simp only [List.mem_singleton] at hy
        subst hy
        rw [htn]
        simp only [largestTenantId]
        cases hl : s.st.tenants.getLast? with
        | none =>
          have : s.st.tenants = [] := List.getLast?_eq_none_iff.mp hl
          rw [this] at hx; cases hx
        | some lt =>
          have hl' : (s.st.tenants.map (·.id)).getLast? = some lt.id := by rw [List.getLast?_map, hl]; rfl
          have := pairwise_lt_le_last _ h x hx lt.id hl'
          simp only
          omega
      · exact h
    case addAdmin a t n =>
      simp only [step, ofS, addAdmin]
      split
      · simp only [setTenant_ids]; exact h
      · exact h
    case removeAdmin a t n =>
      simp only [step, ofS, removeAdmin]
      split
      · simp only [setTenant_ids]; exact h
      · exact h
    case setPeriod a t p =>
      simp only [step, ofS, setPeriod]
      split
      · simp only [setTenant_ids]; exact h
      · exact h

theorem reachable_tenantsAsc (H : Str → Str) (pr : Nat) (c : Bool) (ops : List Op) : TenantsAsc (run H (initState pr c) ops) := by
  have gen : ∀ s, TenantsAsc s → TenantsAsc (run H s ops) := by
    induction ops with
    | nil => intro s h; exact h
    | cons op r ih => intro s h; exact ih _ (step_tenantsAsc H s op h)
  apply gen
  simp [TenantsAsc, initState]

end Settlus
