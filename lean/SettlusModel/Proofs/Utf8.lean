/-
  Free-form strings that reach the genesis document (request ids of pending records, prevote hashes) are valid UTF-8 in every
  state reachable by transactions: `MsgRecord` and `MsgPrevote` refuse anything else. This is what lets the JSON step of the
  export/import round trip (`jsonG`) be the identity.
-/
import SettlusModel.Proofs.GenesisLemmas
import SettlusModel.Proofs.IsolationRun
namespace Settlus

/-- every pending request id and every stored prevote hash is valid UTF-8 -/
structure Utf8Ok (s : State) : Prop where
  reqs : ∀ t, ∀ r ∈ s.st.recs t, validUtf8 r.req = true
  hashes : ∀ p ∈ s.os.prevotes, validUtf8 p.2 = true

/-- `inject` stands for a record written by a genesis import; the document it came from was JSON, hence UTF-8 -/
def opUtf8 : Op → Prop
  | .inject _ req _ _ _ _ _ => validUtf8 req = true
  | _ => True

theorem alSet_mem {α β} [DecidableEq α] (l : List (α × β)) (a : α) (b : β) (p : α × β) (h : p ∈ alSet l a b) : p ∈ l ∨ p.2 = b := by
  induction l with
  | nil => simp [alSet] at h; right; rw [h]
  | cons x r ih =>
    obtain ⟨k, v⟩ := x
    unfold alSet at h
    split at h
    · rcases List.mem_cons.mp h with h | h
      · right; rw [h]
      · left; exact List.mem_cons_of_mem _ h
    · rcases List.mem_cons.mp h with h | h
      · left; rw [h]; exact List.mem_cons_self
      · rcases ih h with h | h
        · left; exact List.mem_cons_of_mem _ h
        · right; exact h

theorem alErase_mem {α β} [DecidableEq α] (l : List (α × β)) (a : α) (p : α × β) (h : p ∈ alErase l a) : p ∈ l := by
  induction l with
  | nil => simp [alErase] at h
  | cons x r ih =>
    obtain ⟨k, v⟩ := x
    unfold alErase at h
    split at h
    · exact List.mem_cons_of_mem _ (ih h)
    · rcases List.mem_cons.mp h with h | h
      · rw [h]; exact List.mem_cons_self
      · exact List.mem_cons_of_mem _ (ih h)

theorem createUtxr_reqs (st : SState) (t : Nat) (req : Str) (amt : Int) (d : Str) (nft : Nft) (c : Nat) (rc : List Recipient)
    (hreq : validUtf8 req = true) (h : ∀ t, ∀ r ∈ st.recs t, validUtf8 r.req = true) :
    ∀ t', ∀ r ∈ (createUtxr st t req amt d nft c rc).st.recs t', validUtf8 r.req = true := by
  intro t' r hr
  unfold createUtxr at hr
  split at hr
  · exact h t' r hr
  · simp only at hr
    by_cases e : t' = t
    · subst e
      simp only [fupd_same, List.mem_append, List.mem_singleton] at hr
      rcases hr with hr | hr
      · exact h _ r hr
      · rw [hr]; exact hreq
    · rw [fupd_other _ _ _ _ e] at hr; exact h t' r hr

theorem recordPlan_utf8 {s : State} {a : String} {t : Nat} {r : Str} {amt : Option Int} {d ch c tok : Str} {p : RecordPlan}
    (h : recordPlan s a t r amt d ch c tok = some p) : validUtf8 r = true := by
  simp only [recordPlan, bind, Option.bind_eq_some_iff, check_eq_some, Bool.and_eq_true, bne_iff_ne, ne_eq, beq_iff_eq, pure, Option.pure_def, Option.some.injEq] at h
  obtain ⟨_, _, _, _, _, ⟨_, hu⟩, _⟩ := h
  exact hu

theorem fillRec_req (acc : List (Nft × Str)) (u : Nat) (r : Rec) : (fillRec acc u r).req = r.req := by
  unfold fillRec; split
  · split <;> rfl
  · rfl

end Settlus

namespace Settlus

theorem settleQ_remaining_sub (h : Nat) (t : Tenant) (f : Option Nat) :
    ∀ (l : List Rec) (b : Bank) (c : Nat) (idx : List (Str × Nat)), ∀ r ∈ (settleQ h t f l b c idx).remaining, r ∈ l := by
  intro l
  induction l with
  | nil => intro b c idx r hr; simp [settleQ] at hr
  | cons x rest ih =>
    intro b c idx r hr
    unfold settleQ at hr
    split at hr
    · exact hr
    · split at hr
      · exact hr
      · exact hr
      · exact List.mem_cons_of_mem _ (ih _ _ _ r hr)
      · exact List.mem_cons_of_mem _ (ih _ _ _ r hr)

theorem settleAll_utf8 (h : Nat) (f : Option Nat) (ts : List Tenant) :
    ∀ (s : State) (c : Nat), Utf8Ok s → Utf8Ok (settleAll h f ts s c).st := by
  induction ts with
  | nil => intro s c hs; simpa [settleAll] using hs
  | cons t r ih =>
    intro s c hs
    have hs' : Utf8Ok { s with
        bank := (settleQ h t f (s.st.recs t.id) s.bank c (s.st.index t.id)).bank,
        st := { s.st with recs := fupd s.st.recs t.id (settleQ h t f (s.st.recs t.id) s.bank c (s.st.index t.id)).remaining,
                          index := fupd s.st.index t.id (settleQ h t f (s.st.recs t.id) s.bank c (s.st.index t.id)).index },
        log := s.log ++ (settleQ h t f (s.st.recs t.id) s.bank c (s.st.index t.id)).events } := by
      refine ⟨?_, hs.hashes⟩
      intro t' x hx
      by_cases e : t' = t.id
      · subst e
        simp only [fupd_same] at hx
        exact hs.reqs _ x (settleQ_remaining_sub _ _ _ _ _ _ _ x hx)
      · simp only [fupd_other _ _ _ _ e] at hx
        exact hs.reqs t' x hx
    unfold settleAll
    simp only
    split
    · exact hs'
    · exact ih _ _ hs'

theorem oracleEndBlock_utf8 (s : State) (h : Utf8Ok s) : Utf8Ok (oracleEndBlock s).st := by
  refine ⟨?_, ?_⟩
  · intro t r hr
    rw [oeb_recs] at hr
    split at hr
    · simp only [List.mem_map] at hr
      obtain ⟨x, hx, e⟩ := hr
      rw [← e, fillRec_req]; exact h.reqs t x hx
    · exact h.reqs t r hr
  · intro p hp
    rw [oeb_prevotes] at hp
    split at hp
    · simp at hp
    · exact h.hashes p hp

theorem step_utf8 (H : Str → Str) (s : State) (op : Op) (ho : opUtf8 op) (h : Utf8Ok s) : Utf8Ok (step H s op).st := by
  cases op
  case createTenant a d p mc => simp only [step, ofS, createTenant]; split <;> exact ⟨h.reqs, h.hashes⟩
  case deposit a t amt d => simp only [step, ofS, deposit]; split <;> exact ⟨h.reqs, h.hashes⟩
  case record a t r amt d ch c tok =>
    simp only [step, ofS, record]
    split
    · rename_i p hp
      have hu := recordPlan_utf8 hp
      obtain ⟨_, amount, _, _, _, _, _, _, _, _, _, _, _, hst⟩ := recordPlan_some hp
      refine ⟨?_, h.hashes⟩
      simp only [hst]
      exact createUtxr_reqs _ _ _ _ _ _ _ _ hu h.reqs
    · exact h
  case cancel a t r =>
    simp only [step, ofS, cancel]
    split
    · refine ⟨?_, h.hashes⟩
      intro t' x hx
      simp only at hx
      by_cases e : t' = t
      · subst e
        simp only [fupd_same] at hx
        exact h.reqs _ x (List.mem_filter.mp hx).1
      · rw [fupd_other _ _ _ _ e] at hx; exact h.reqs t' x hx
    · exact h
  case addAdmin a t n => simp only [step, ofS, addAdmin]; split <;> exact ⟨h.reqs, h.hashes⟩
  case removeAdmin a t n => simp only [step, ofS, removeAdmin]; split <;> exact ⟨h.reqs, h.hashes⟩
  case setPeriod a t p => simp only [step, ofS, setPeriod]; split <;> exact ⟨h.reqs, h.hashes⟩
  case inject t req amt d nft created rc =>
    simp only [step]
    split
    · exact ⟨createUtxr_reqs _ _ _ _ _ _ _ _ ho h.reqs, h.hashes⟩
    · exact h
  case fund a amt d =>
    simp only [step]
    split
    · exact h
    · split <;> exact ⟨h.reqs, h.hashes⟩
  case fundPool amt d => simp only [step]; split <;> exact ⟨h.reqs, h.hashes⟩
  case setOwner c t o => exact ⟨h.reqs, h.hashes⟩
  case prevote f v hh r =>
    simp only [step, ofS, prevote]
    repeat' split
    all_goals first
      | exact h
      | (rename_i hc
         refine ⟨h.reqs, ?_⟩
         intro p hp
         rcases alSet_mem _ _ _ p hp with hp | hp
         · exact h.hashes p hp
         · rw [hp]; exact hc.2.2)
  case vote f v salt r vds =>
    simp only [step, ofS, vote]
    repeat' split
    all_goals first
      | exact h
      | exact ⟨h.reqs, fun p hp => h.hashes p (alErase_mem _ _ p hp)⟩
  case consent v f =>
    simp only [step, ofS, consent]
    repeat' split
    all_goals first
      | exact h
      | exact ⟨h.reqs, h.hashes⟩
  case setOParams vp thr frac w m => simp only [step]; split <;> exact ⟨h.reqs, h.hashes⟩
  case setSParams fee chains => simp only [step]; split <;> exact ⟨h.reqs, h.hashes⟩
  case setVal i power b j pb => simp only [step]; split <;> exact ⟨h.reqs, h.hashes⟩
  case failAt k => exact ⟨h.reqs, h.hashes⟩
  case block =>
    simp only [step, blockStep]
    have := settleAll_utf8 s.h s.faultAt (oracleEndBlock s).st.st.tenants _ 0 (oracleEndBlock_utf8 s h)
    exact ⟨this.reqs, this.hashes⟩
  case dump => exact h

theorem reachable_utf8 (H : Str → Str) (pr : Nat) (c : Bool) (ops : List Op) (hops : ∀ o ∈ ops, opUtf8 o) :
    Utf8Ok (run H (initState pr c) ops) := by
  have gen : ∀ (s : State), Utf8Ok s → Utf8Ok (run H s ops) := by
    induction ops with
    | nil => intro s h; exact h
    | cons op r ih =>
      intro s h
      exact ih (fun o ho => hops o (List.mem_cons_of_mem _ ho)) _ (step_utf8 H s op (hops op List.mem_cons_self) h)
  apply gen
  exact ⟨by simp [initState], by simp [initState]⟩

end Settlus
