/-
  Reward distribution of `RewardBallotWinners`: per-denomination conservation lemmas (used by Proofs/DistrInv and Properties/C14).
-/
import SettlusModel.Proofs.Pay
import SettlusModel.Proofs.Dec
namespace Settlus.C14
open Settlus

/-- what the distribution module owes in one denomination: outstanding rewards of validators 0..n-1 plus the community pool
(numerators over 10^18) -/
def liabilities (dd : Distr) (d : Str) (n : Nat) : Nat := ((List.range n).map (fun i => dd.outstanding i d)).sum + dd.community d

theorem sum_range_point (f g : Nat → Nat) (n k delta : Nat) (hk : k < n) (hg : ∀ i, g i = if i = k then f i + delta else f i) :
    ((List.range n).map g).sum = ((List.range n).map f).sum + delta := by
  induction n with
  | zero => omega
  | succ m ih =>
    rw [List.range_succ, List.map_append, List.map_append, List.sum_append, List.sum_append]
    simp only [List.map_cons, List.map_nil, List.sum_cons, List.sum_nil, Nat.add_zero]
    by_cases hm : k = m
    · subst hm
      have hlow : ((List.range k).map g) = ((List.range k).map f) := by
        apply List.map_congr_left
        intro i hi
        have : i < k := List.mem_range.mp hi
        rw [hg i]; simp; omega
      rw [hlow, hg k]; simp; omega
    · have := ih (by omega)
      rw [this, hg m]
      have : ¬ m = k := fun e => hm e.symm
      simp [this]; omega

/-- one rewarded validator: the liabilities grow by exactly its integer reward (times 10^18), nothing moves in the bank yet -/
theorem rewardOne_credit (cl : List (Nat × Nat)) (vals : List Val) (W : Nat) (d : Str) (pool n : Nat) (acc : RewardRes × Nat) (c : Nat × Nat)
    (hc : c.1 < n) (hrate : rateOf vals c.1 ≤ one18) :
    liabilities (rewardOne cl vals W d pool acc c).1.distr d n = liabilities acc.1.distr d n + rewardOf pool c.2 W * one18 ∧
    (rewardOne cl vals W d pool acc c).1.bank = acc.1.bank ∧ (rewardOne cl vals W d pool acc c).2 = acc.2 + rewardOf pool c.2 W := by
  unfold rewardOne
  by_cases hz : rewardOf pool c.2 W = 0
  · simp [hz]
  · simp only [hz, if_false]
    refine ⟨?_, trivial, trivial⟩
    generalize rateOf vals c.1 = rate at hrate
    generalize rewardOf pool c.2 W = r
    have hle : r * rate ≤ r * one18 := Nat.mul_le_mul_left r hrate
    unfold liabilities
    simp only
    have hs := sum_range_point (fun i => acc.1.distr.outstanding i d)
      (fun i => if i = c.1 ∧ True then acc.1.distr.outstanding i d + (r * one18 - r * rate) else acc.1.distr.outstanding i d)
      n c.1 (r * one18 - r * rate) hc (by intro i; simp)
    rw [hs]
    simp only [if_true]
    omega

/-- all rewarded validators of one denomination: liabilities grow by 10^18 times the sum of the integer rewards -/
theorem rewards_credit (cl : List (Nat × Nat)) (vals : List Val) (W : Nat) (d : Str) (pool n : Nat)
    (hrate : ∀ i, rateOf vals i ≤ one18) :
    ∀ (ws : List (Nat × Nat)) (acc : RewardRes × Nat), (∀ c ∈ ws, c.1 < n) →
      liabilities (ws.foldl (rewardOne cl vals W d pool) acc).1.distr d n = liabilities acc.1.distr d n + ((ws.map (fun c => rewardOf pool c.2 W)).sum) * one18 ∧
      (ws.foldl (rewardOne cl vals W d pool) acc).1.bank = acc.1.bank ∧
      (ws.foldl (rewardOne cl vals W d pool) acc).2 = acc.2 + (ws.map (fun c => rewardOf pool c.2 W)).sum := by
  intro ws
  induction ws with
  | nil => intro acc _; simp
  | cons c r ih =>
    intro acc hn
    obtain ⟨a1, a2, a3⟩ := rewardOne_credit cl vals W d pool n acc c (hn c (by simp)) (hrate c.1)
    obtain ⟨b1, b2, b3⟩ := ih (rewardOne cl vals W d pool acc c) (fun x hx => hn x (by simp [hx]))
    simp only [List.foldl_cons, List.map_cons, List.sum_cons]
    refine ⟨?_, by rw [b2, a2], by rw [b3, a3]; omega⟩
    rw [b1, a1, Nat.add_mul]
    omega

/-- **never more than the pool holds**: the integer rewards of validators whose weights sum to W add up to at most the pool -/
theorem rewards_le_pool (pool W : Nat) (ws : List Nat) (hW : 0 < W) (hs : ws.sum ≤ W) :
    (ws.map (fun w => rewardOf pool w W)).sum ≤ pool := by
  unfold rewardOf
  have h1 : (ws.map (fun w => w * one18 / W)).sum ≤ one18 := by
    have := weighted_shares_le one18 W ws hW hs
    simpa [Nat.mul_comm] using this
  have := weighted_shares_le pool one18 (ws.map (fun w => w * one18 / W)) one18_pos h1
  simpa [List.map_map, Function.comp_def] using this

/-- **in proportion to voting power, rounded down**: the reward is at most the exact proportional share and grows with the weight -/
theorem reward_proportional (pool w W : Nat) (hW : 0 < W) : rewardOf pool w W * W ≤ pool * w := by
  unfold rewardOf
  have h1 : w * one18 / W * W ≤ w * one18 := Nat.div_mul_le_self _ _
  have h2 : pool * (w * one18 / W) / one18 * one18 ≤ pool * (w * one18 / W) := Nat.div_mul_le_self _ _
  have h3 : pool * (w * one18 / W) * W ≤ pool * (w * one18) := by
    rw [Nat.mul_assoc]; exact Nat.mul_le_mul_left _ h1
  have h4 : pool * (w * one18 / W) / one18 * W * one18 ≤ pool * w * one18 := by
    calc pool * (w * one18 / W) / one18 * W * one18 = pool * (w * one18 / W) / one18 * one18 * W := by rw [Nat.mul_assoc, Nat.mul_comm W, ← Nat.mul_assoc]
      _ ≤ pool * (w * one18 / W) * W := Nat.mul_le_mul_right _ h2
      _ ≤ pool * (w * one18) := h3
      _ = pool * w * one18 := by rw [Nat.mul_assoc]
  exact Nat.le_of_mul_le_mul_right h4 one18_pos

theorem reward_monotone (pool w₁ w₂ W : Nat) (h : w₁ ≤ w₂) : rewardOf pool w₁ W ≤ rewardOf pool w₂ W := by
  unfold rewardOf
  apply Nat.div_le_div_right
  apply Nat.mul_le_mul_left
  apply Nat.div_le_div_right
  exact Nat.mul_le_mul_right _ h

/-- **the pool gives exactly what is credited**: for one denomination, what leaves the reward pool is what arrives at the
distribution account, it is at most the pool, and the distribution module's liabilities grow by exactly that amount -/
theorem transfer_equals_credit (winners : List (Nat × Nat)) (vals : List Val) (d : Str) (rr : RewardRes) (n : Nat)
    (hW : 0 < totalPower winners) (hn : ∀ c ∈ winners, c.1 < n)
    (hrate : ∀ i, rateOf vals i ≤ one18) :
    let res := rewardDenom winners vals (totalPower winners) rr d
    let moved := rr.bank .pool d - res.bank .pool d
    moved ≤ rr.bank .pool d ∧ res.bank .distr d = rr.bank .distr d + moved ∧ res.bank .pool d = rr.bank .pool d - moved ∧
    liabilities res.distr d n = liabilities rr.distr d n + moved * one18 := by
  simp only
  unfold rewardDenom
  by_cases hp : rr.bank .pool d = 0
  · simp [hp]
  · simp only [hp, if_false]
    obtain ⟨c1, c2, c3⟩ := rewards_credit winners vals (totalPower winners) d (rr.bank .pool d) n hrate winners (rr, 0) hn
    have hle : (winners.map (fun c => rewardOf (rr.bank .pool d) c.2 (totalPower winners))).sum ≤ rr.bank .pool d := by
      have := rewards_le_pool (rr.bank .pool d) (totalPower winners) (winners.map (·.2)) hW (by unfold totalPower; omega)
      simpa [List.map_map, Function.comp_def] using this
    simp only [Nat.zero_add] at c3
    rw [c3]
    generalize (winners.map (fun c => rewardOf (rr.bank .pool d) c.2 (totalPower winners))).sum = x at *
    simp only at c2
    have hsend : (winners.foldl (rewardOne winners vals (totalPower winners) d (rr.bank .pool d)) (rr, 0)).1.bank.send .pool .distr d x =
        some (((winners.foldl (rewardOne winners vals (totalPower winners) d (rr.bank .pool d)) (rr, 0)).1.bank.debit .pool d x).credit .distr d x) := by
      unfold Bank.send
      rw [c2]
      have : ¬ rr.bank .pool d < x := by omega
      simp [this]
    rw [hsend]
    simp only [Bank.credit, Bank.debit, c2]
    simp
    refine ⟨by omega, by omega, ?_⟩
    rw [c1]
    have : rr.bank Holder.pool d - (rr.bank Holder.pool d - x) = x := by omega
    rw [this]

/-- non-vacuity and the repaired F12: pool 5, one pro-bono validator at rate 0.5: credited 2.5 + 2.5, moved 5 -/
example :
    let rr : RewardRes := ⟨fun h d => if h = Holder.pool ∧ d = "u".toList then 5 else 0, ⟨fun _ _ => 0, fun _ => 0⟩⟩
    let vals : List Val := [{ tokens := 1, bonded := true, jailed := false, probono := some (one18 / 2) }]
    let res := rewardDenom [(0, 1)] vals 1 rr "u".toList
    res.bank .pool "u".toList = 0 ∧ res.bank .distr "u".toList = 5 ∧
    res.distr.outstanding 0 "u".toList = 2500000000000000000 ∧ res.distr.community "u".toList = 2500000000000000000 := by decide


end Settlus.C14
