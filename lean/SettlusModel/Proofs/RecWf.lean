/-
  Well-formedness of pending records in histories of transactions (no direct store injection): positive amount, valid
  denomination, at most one recipient, of weight 1.
-/
import SettlusModel.Proofs.Ledger
namespace Settlus

def RecOk (r : Rec) : Prop := 0 < r.amount ∧ validDenom r.denom = true ∧ (r.rcpt = [] ∨ ∃ o, r.rcpt = [{ addr := o, weight := 1 }])

def AllRecOk (s : State) : Prop := ∀ t, ∀ r ∈ s.st.recs t, RecOk r

theorem fillRec_ok (acc : List (Nft × Str)) (u : Nat) (r : Rec) (h : RecOk r) : RecOk (fillRec acc u r) := by
  unfold fillRec
  split
  · split
    · exact ⟨h.1, h.2.1, Or.inr ⟨_, rfl⟩⟩
    · exact h
  · exact h

theorem getRecipients_shape (s : State) (ch c tok : Str) (rc : List Recipient) (h : getRecipients s ch c tok = some rc) :
    rc = [] ∨ ∃ o, rc = [{ addr := o, weight := 1 }] := by
  unfold getRecipients at h
  split at h
  · cases h; exact Or.inl rfl
  · split at h
    · cases h
    · split at h
      · cases h; exact Or.inr ⟨_, rfl⟩
      · cases h

theorem settleAll_recs_subset (h : Nat) (f : Option Nat) (ts : List Tenant) :
    ∀ (s : State) (c : Nat) (t : Nat) (r : Rec), r ∈ (settleAll h f ts s c).st.st.recs t → r ∈ s.st.recs t := by
  induction ts with
  | nil => intro s c t r hr; simpa [settleAll] using hr
  | cons tn rest ih =>
    intro s c t r hr
    obtain ⟨pre, p1, _⟩ := settleQ_ledger h tn f (s.st.recs tn.id) s.bank c (s.st.index tn.id)
    have sub : ∀ x, x ∈ (afterQ s tn (settleQ h tn f (s.st.recs tn.id) s.bank c (s.st.index tn.id))).st.recs t → x ∈ s.st.recs t := by
      intro x hx
      simp only [afterQ] at hx
      by_cases ht : t = tn.id
      · subst ht
        simp only [fupd_same] at hx
        rw [p1]; simp [hx]
      · simpa [fupd_other _ _ _ _ ht] using hx
    rw [settleAll_cons] at hr
    split at hr
    · exact sub r hr
    · exact sub r (ih _ _ t r hr)

theorem oracleEndBlock_recs (s : State) (t : Nat) :
    (oracleEndBlock s).st.st.recs t = s.st.recs t ∨ ∃ acc u, (oracleEndBlock s).st.st.recs t = (s.st.recs t).map (fillRec acc u) := by
  unfold oracleEndBlock
  by_cases ht : (s.h : Int) = voteEnd s.h s.os.params.votePeriod
  · by_cases hc : slashWindowClosing s.h s.os.params.votePeriod s.os.params.slashWindow = true
    · by_cases h0 : roundStart s.h s.os.params.votePeriod = 0
      · left; simp [ht, hc, h0]
      · right; exact ⟨tallyAccepted s, roundStart s.h s.os.params.votePeriod - 1, by simp [ht, hc, h0, setRecipients]⟩
    · by_cases h0 : roundStart s.h s.os.params.votePeriod = 0
      · left; simp [ht, hc, h0]
      · right; exact ⟨tallyAccepted s, roundStart s.h s.os.params.votePeriod - 1, by simp [ht, hc, h0, setRecipients]⟩
  · left; simp [ht]

def IsTx : Op → Prop
  | .inject .. => False
  | _ => True

theorem step_allRecOk (H : Str → Str) (s : State) (op : Op) (htx : IsTx op) (h : AllRecOk s) : AllRecOk (step H s op).st := by
  cases op <;> simp only [IsTx] at htx
  case createTenant a d p mc => simp only [step, ofS, createTenant]; split <;> exact h
  case deposit a t amt d => simp only [step, ofS, deposit]; split <;> exact h
  case record a t r amt d ch c tok =>
    simp only [step, ofS, record]
    split
    · rename_i p hp
      obtain ⟨_, amount, _, _, ham, hb, _, _, _, _, hrc, _, hid, hst⟩ := recordPlan_some hp
      simp only [hst]
      intro t' x hx
      by_cases hh : alHas (s.st.index t) r = true
      · simp [createUtxr, hh] at hid
      · simp only [createUtxr, hh, Bool.false_eq_true, if_false] at hx
        by_cases ht : t' = t
        · subst ht
          simp only [fupd_same, List.mem_append, List.mem_singleton] at hx
          rcases hx with hx | hx
          · exact h _ x hx
          · subst hx
            subst ham
            simp only [recordBasic, Bool.and_eq_true, decide_eq_true_eq] at hb
            exact ⟨hb.1.1.1.2, hb.1.1.1.1, getRecipients_shape s ch c tok _ hrc⟩
        · simp only [fupd_other _ _ _ _ ht] at hx
          exact h _ x hx
    · exact h
  case cancel a t r =>
    simp only [step, ofS, cancel]
    split
    · intro t' x hx
      simp only at hx
      by_cases ht : t' = t
      · subst ht
        simp only [fupd_same, List.mem_filter] at hx
        exact h _ x hx.1
      · simp only [fupd_other _ _ _ _ ht] at hx
        exact h _ x hx
    · exact h
  case addAdmin a t n => simp only [step, ofS, addAdmin]; split <;> exact h
  case removeAdmin a t n => simp only [step, ofS, removeAdmin]; split <;> exact h
  case setPeriod a t p => simp only [step, ofS, setPeriod]; split <;> exact h
  case fund a amt d =>
    simp only [step]
    split
    · exact h
    · split <;> exact h
  case fundPool amt d => simp only [step]; split <;> exact h
  case setOwner c t o => exact h
  case prevote f v hh r =>
    simp only [step, ofS, prevote]
    repeat' split
    all_goals exact h
  case vote f v salt r vds =>
    simp only [step, ofS, vote]
    repeat' split
    all_goals exact h
  case consent v f =>
    simp only [step, ofS, consent]
    repeat' split
    all_goals exact h
  case setOParams vp thr frac w m => simp only [step]; split <;> exact h
  case setSParams fee chains => simp only [step]; split <;> exact h
  case setVal i power b j pb => simp only [step]; split <;> exact h
  case failAt k => exact h
  case block =>
    simp only [step, blockStep]
    intro t x hx
    have hx' := settleAll_recs_subset _ _ _ _ _ t x hx
    rcases oracleEndBlock_recs s t with e | ⟨acc, u, e⟩
    · rw [e] at hx'; exact h t x hx'
    · rw [e] at hx'
      obtain ⟨r0, hr0, rfl⟩ := List.mem_map.mp hx'
      exact fillRec_ok acc u r0 (h t r0 hr0)
  case dump => exact h

theorem reachable_allRecOk (H : Str → Str) (pr : Nat) (c : Bool) (ops : List Op) (htx : ∀ op ∈ ops, IsTx op) :
    AllRecOk (run H (initState pr c) ops) := by
  have gen : ∀ (s : State), AllRecOk s → AllRecOk (run H s ops) := by
    induction ops with
    | nil => intro s h; exact h
    | cons op r ih =>
      intro s h
      exact ih (fun o ho => htx o (by simp [ho])) _ (step_allRecOk H s op (htx op (by simp)) h)
  apply gen
  intro t r hr
  simp [initState] at hr

end Settlus
