/-
  The distribution account covers what the distribution module owes from oracle rewards, in every reachable state.
-/
import SettlusModel.Proofs.Rewards
import SettlusModel.Proofs.IsolationRun
namespace Settlus
open Settlus.C14

/-- validators' pro-bono rates are at most 1 (staking validates this) -/
def RatesOk (s : State) : Prop := ∀ i, rateOf s.vals i ≤ one18

/-- for every denomination the distribution account holds exactly the outstanding rewards plus the community pool -/
def DistrInv (s : State) : Prop := ∀ d, s.bank .distr d * one18 = liabilities s.distr d s.vals.length

def DenomInv (rr : RewardRes) (n : Nat) : Prop := ∀ d, rr.bank .distr d * one18 = liabilities rr.distr d n

theorem rewardOne_other (cl : List (Nat × Nat)) (vals : List Val) (W : Nat) (d : Str) (pool n : Nat) (acc : RewardRes × Nat) (c : Nat × Nat)
    (d' : Str) (hd : d' ≠ d) : liabilities (rewardOne cl vals W d pool acc c).1.distr d' n = liabilities acc.1.distr d' n := by
  unfold rewardOne
  simp only
  split
  · rfl
  · unfold liabilities
    simp only [hd, and_false, if_false]

theorem rewardFold_other (cl : List (Nat × Nat)) (vals : List Val) (W : Nat) (d : Str) (pool n : Nat) (d' : Str) (hd : d' ≠ d) (ws : List (Nat × Nat)) :
    ∀ acc : RewardRes × Nat, liabilities (ws.foldl (rewardOne cl vals W d pool) acc).1.distr d' n = liabilities acc.1.distr d' n := by
  induction ws with
  | nil => intro acc; rfl
  | cons c r ih => intro acc; simp only [List.foldl_cons]; rw [ih, rewardOne_other _ _ _ _ _ _ _ _ _ hd]

theorem rewardDenom_other (winners : List (Nat × Nat)) (vals : List Val) (W : Nat) (rr : RewardRes) (d d' : Str) (n : Nat) (hd : d' ≠ d) :
    (rewardDenom winners vals W rr d).bank .distr d' = rr.bank .distr d' ∧
    liabilities (rewardDenom winners vals W rr d).distr d' n = liabilities rr.distr d' n := by
  unfold rewardDenom
  simp only
  split
  · exact ⟨rfl, rfl⟩
  · split
    · rename_i b hb
      unfold Bank.send at hb
      split at hb
      · cases hb
      · have := Option.some.inj hb
        rw [← this]
        refine ⟨?_, rewardFold_other _ _ _ _ _ _ _ hd _ _⟩
        simp [Bank.credit, Bank.debit, hd, rewardFold_bank]
    · exact ⟨by rw [rewardFold_bank], rewardFold_other _ _ _ _ _ _ _ hd _ _⟩

theorem rewardDenom_inv (winners : List (Nat × Nat)) (vals : List Val) (rr : RewardRes) (d : Str) (n : Nat)
    (hW : 0 < totalPower winners) (hn : ∀ c ∈ winners, c.1 < n) (hrate : ∀ i, rateOf vals i ≤ one18) (h : DenomInv rr n) :
    DenomInv (rewardDenom winners vals (totalPower winners) rr d) n := by
  intro d'
  by_cases hd : d' = d
  · subst hd
    have t := transfer_equals_credit winners vals d' rr n hW hn hrate
    dsimp only at t
    obtain ⟨_, h2, _, h4⟩ := t
    rw [h2, h4, Nat.add_mul, h d']
  · obtain ⟨h1, h2⟩ := rewardDenom_other winners vals (totalPower winners) rr d d' n hd
    rw [h1, h2]; exact h d'

theorem rewardWinners_inv (s : State) (cl : List (Nat × Nat)) (ms : List Nat) (hn : ∀ c ∈ cl, c.1 < s.vals.length) (hr : RatesOk s)
    (h : DistrInv s) : DenomInv (rewardWinners s cl ms) s.vals.length := by
  unfold rewardWinners
  simp only
  split
  · exact h
  · rename_i hW
    have hW' : 0 < totalPower (cl.filter (fun c => !ms.contains c.1)) := Nat.pos_of_ne_zero hW
    have hn' : ∀ c ∈ cl.filter (fun c => !ms.contains c.1), c.1 < s.vals.length := fun c hc => hn c (List.mem_filter.mp hc).1
    have : ∀ (ds : List Str) (rr : RewardRes), DenomInv rr s.vals.length →
        DenomInv (ds.foldl (rewardDenom (cl.filter (fun c => !ms.contains c.1)) s.vals (totalPower (cl.filter (fun c => !ms.contains c.1)))) rr) s.vals.length := by
      intro ds
      induction ds with
      | nil => intro rr h; exact h
      | cons d r ih =>
        intro rr h
        simp only [List.foldl_cons]
        exact ih _ (rewardDenom_inv _ _ rr d _ hW' hn' hr h)
    exact this s.poolDenoms ⟨s.bank, s.distr⟩ h

theorem claims_idx_lt (s : State) : ∀ c ∈ claims s, c.1 < s.vals.length := by
  intro c hc
  unfold claims at hc
  obtain ⟨i, hi, hic⟩ := List.mem_filterMap.mp hc
  have hlt := List.mem_range.mp hi
  split at hic
  · split at hic
    · cases hic; exact hlt
    · cases hic
  · cases hic

theorem slashAll_length (s : State) (miss : List (String × Nat)) : (slashAll s miss).length = s.vals.length := by
  unfold slashAll
  have : ∀ (m : List (String × Nat)) (vs : List Val), (m.foldl (fun vals p =>
      if p.2 > s.os.params.maxMiss then
        match decodeVal p.1 with
        | some i => match getVal vals i with
          | some v => if v.bonded && !v.jailed then vals.set i (slashVal s.powerReduction s.constantPower s.os.params.slashFraction v) else vals
          | none => vals
        | none => vals
      else vals) vs).length = vs.length := by
    intro m
    induction m with
    | nil => intro vs; rfl
    | cons p r ih =>
      intro vs
      simp only [List.foldl_cons]
      rw [ih]
      repeat' split
      all_goals simp
  exact this miss s.vals

theorem set_slash_rate (pr : Nat) (cp : Bool) (frac : Nat) (vs : List Val) (k : Nat) (v : Val) (hv : getVal vs k = some v)
    (h : ∀ j, rateOf vs j ≤ one18) (j : Nat) : rateOf (vs.set k (slashVal pr cp frac v)) j ≤ one18 := by
  unfold rateOf getVal
  by_cases hjk : j = k
  · subst hjk
    have hlt : j < vs.length := by
      unfold getVal at hv
      exact (List.getElem?_eq_some_iff.mp hv).1
    simp only [List.getElem?_set_self hlt, slashVal]
    have := h j
    unfold rateOf at this
    rw [hv] at this
    exact this
  · rw [List.getElem?_set_ne (fun e => hjk e.symm)]
    exact h j

theorem slashAll_rates (s : State) (miss : List (String × Nat)) (hr : RatesOk s) (i : Nat) : rateOf (slashAll s miss) i ≤ one18 := by
  unfold slashAll
  have : ∀ (m : List (String × Nat)) (vs : List Val), (∀ j, rateOf vs j ≤ one18) → rateOf (m.foldl (fun vals p =>
      if p.2 > s.os.params.maxMiss then
        match decodeVal p.1 with
        | some i => match getVal vals i with
          | some v => if v.bonded && !v.jailed then vals.set i (slashVal s.powerReduction s.constantPower s.os.params.slashFraction v) else vals
          | none => vals
        | none => vals
      else vals) vs) i ≤ one18 := by
    intro m
    induction m with
    | nil => intro vs h; exact h i
    | cons p r ih =>
      intro vs h
      simp only [List.foldl_cons]
      apply ih
      intro j
      split
      · split
        · rename_i k _
          split
          · rename_i v hv
            split
            · exact set_slash_rate _ _ _ vs k v hv h j
            · exact h j
          · exact h j
        · exact h j
      · exact h j
  exact this miss s.vals hr

/-! ### the end-blockers -/

theorem oracleEndBlock_vals_length (s : State) : (oracleEndBlock s).st.vals.length = s.vals.length := by
  rw [oeb_vals]
  split
  · exact slashAll_length s _
  · rfl

theorem oracleEndBlock_distrInv (s : State) (hr : RatesOk s) (h : DistrInv s) :
    DistrInv (oracleEndBlock s).st ∧ RatesOk (oracleEndBlock s).st := by
  constructor
  · intro d
    rw [oracleEndBlock_vals_length, oeb_bank, oeb_distr]
    by_cases ht : tallyNow s
    · simp only [ht, if_true]
      exact rewardWinners_inv s (claims s) (missedNow s) (claims_idx_lt s) hr h d
    · simp only [ht, if_false]; exact h d
  · intro i
    rw [oeb_vals]
    split
    · exact slashAll_rates s _ hr i
    · exact hr i

/-- a recipient that is paid is never the distribution account: module accounts are left out of the payable recipients -/
theorem validRcpt_ne_distr (r : Rec) (x : Recipient) (hx : x ∈ validRcpts r) : holderOfHex x.addr ≠ .distr := by
  unfold validRcpts at hx
  exact (holderOfHex_payable x.addr (List.mem_filter.mp hx).2).1

theorem settleAll_distr_frame (h : Nat) (f : Option Nat) (ts : List Tenant) :
    ∀ (s : State) (c : Nat), (∀ d, (settleAll h f ts s c).st.bank .distr d = s.bank .distr d) ∧ (settleAll h f ts s c).st.distr = s.distr := by
  induction ts with
  | nil => intro s c; exact ⟨fun _ => rfl, rfl⟩
  | cons t r ih =>
    intro s c
    have hq : ∀ d, (afterQ s t (settleQ h t f (s.st.recs t.id) s.bank c (s.st.index t.id))).bank .distr d = s.bank .distr d := by
      intro d
      simp only [afterQ]
      exact settleQ_bank_frame h t f .distr (by simp) _ _ _ _ (fun r _ x hx => validRcpt_ne_distr r x hx) d
    rw [settleAll_cons]
    split
    · exact ⟨hq, rfl⟩
    · obtain ⟨i1, i2⟩ := ih (afterQ s t (settleQ h t f (s.st.recs t.id) s.bank c (s.st.index t.id))) (settleQ h t f (s.st.recs t.id) s.bank c (s.st.index t.id)).calls
      exact ⟨fun d => (i1 d).trans (hq d), i2⟩

theorem blockStep_distrInv (s : State) (hr : RatesOk s) (h : DistrInv s) : DistrInv (blockStep s).st ∧ RatesOk (blockStep s).st := by
  obtain ⟨h1, h2⟩ := oracleEndBlock_distrInv s hr h
  obtain ⟨f1, f2⟩ := settleAll_distr_frame s.h s.faultAt (oracleEndBlock s).st.st.tenants (oracleEndBlock s).st 0
  have hv := (settleAll_tenants s.h s.faultAt (oracleEndBlock s).st.st.tenants (oracleEndBlock s).st 0).2.2.1
  unfold blockStep
  constructor
  · intro d
    show (settleAll _ _ _ _ _).st.bank .distr d * one18 = liabilities (settleAll _ _ _ _ _).st.distr d (settleAll _ _ _ _ _).st.vals.length
    rw [f1 d, f2, hv]; exact h1 d
  · intro i
    show rateOf (settleAll _ _ _ _ _).st.vals i ≤ one18
    rw [hv]; exact h2 i

/-! ### all operations -/

/-- a set-up action that gives a validator a pro-bono rate gives one of at most 1 -/
def RateOp : Op → Prop
  | .setVal _ _ _ _ (some r) => r ≤ one18
  | _ => True

theorem keep_inv (s s' : State) (hr : RatesOk s) (h : DistrInv s) (hb : ∀ d, s'.bank .distr d = s.bank .distr d) (hd : s'.distr = s.distr) (hv : s'.vals = s.vals) :
    DistrInv s' ∧ RatesOk s' := by
  constructor
  · intro d; rw [hb, hd, hv]; exact h d
  · intro i; rw [hv]; exact hr i

theorem step_distrInv (H : Str → Str) (s : State) (op : Op) (hop : RateOp op) (hr : RatesOk s) (h : DistrInv s) :
    DistrInv (step H s op).st ∧ RatesOk (step H s op).st := by
  cases op
  case createTenant a d p mc => simp only [step, ofS, createTenant]; split <;> first | exact ⟨h, hr⟩ | exact keep_inv s _ hr h (fun _ => rfl) rfl rfl
  case deposit a t amt d =>
    simp only [step, ofS, deposit]
    split
    · rename_i p hp
      obtain ⟨acc, x, tn, _, _, _, _, _, _, hsend, _⟩ := depositPlan_some hp
      exact keep_inv s _ hr h (fun d' => send_frame _ _ _ _ _ _ hsend .distr (by simp) (by simp [treasuryName]) d') rfl rfl
    · exact ⟨h, hr⟩
  case record a t r amt d ch c tok => simp only [step, ofS, record]; split <;> first | exact ⟨h, hr⟩ | exact keep_inv s _ hr h (fun _ => rfl) rfl rfl
  case cancel a t r => simp only [step, ofS, cancel]; split <;> first | exact ⟨h, hr⟩ | exact keep_inv s _ hr h (fun _ => rfl) rfl rfl
  case addAdmin a t n => simp only [step, ofS, addAdmin]; split <;> first | exact ⟨h, hr⟩ | exact keep_inv s _ hr h (fun _ => rfl) rfl rfl
  case removeAdmin a t n => simp only [step, ofS, removeAdmin]; split <;> first | exact ⟨h, hr⟩ | exact keep_inv s _ hr h (fun _ => rfl) rfl rfl
  case setPeriod a t p => simp only [step, ofS, setPeriod]; split <;> first | exact ⟨h, hr⟩ | exact keep_inv s _ hr h (fun _ => rfl) rfl rfl
  case inject t req amt d nft created rc => simp only [step]; split <;> first | exact ⟨h, hr⟩ | exact keep_inv s _ hr h (fun _ => rfl) rfl rfl
  case fund a amt d =>
    simp only [step]
    split
    · exact ⟨h, hr⟩
    · split
      · exact keep_inv s _ hr h (fun d' => by simp [Bank.credit]) rfl rfl
      · exact ⟨h, hr⟩
  case fundPool amt d =>
    simp only [step]
    split
    · exact ⟨h, hr⟩
    · exact keep_inv s _ hr h (fun d' => by simp [Bank.credit]) rfl rfl
  case setOwner c t o => exact keep_inv s _ hr h (fun _ => rfl) rfl rfl
  case prevote f v hh r =>
    simp only [step, ofS, prevote]
    repeat' split
    all_goals first | exact ⟨h, hr⟩ | exact keep_inv s _ hr h (fun _ => rfl) rfl rfl
  case vote f v salt r vds =>
    simp only [step, ofS, vote]
    repeat' split
    all_goals first | exact ⟨h, hr⟩ | exact keep_inv s _ hr h (fun _ => rfl) rfl rfl
  case consent v f =>
    simp only [step, ofS, consent]
    repeat' split
    all_goals first | exact ⟨h, hr⟩ | exact keep_inv s _ hr h (fun _ => rfl) rfl rfl
  case setOParams vp thr frac w m => simp only [step]; split <;> first | exact ⟨h, hr⟩ | exact keep_inv s _ hr h (fun _ => rfl) rfl rfl
  case setSParams fee chains => simp only [step]; split <;> first | exact ⟨h, hr⟩ | exact keep_inv s _ hr h (fun _ => rfl) rfl rfl
  case setVal i power b j pb =>
    simp only [step]
    split
    · rename_i v hv
      have hlt : i < s.vals.length := by unfold getVal at hv; exact (List.getElem?_eq_some_iff.mp hv).1
      constructor
      · intro d
        simp only [List.length_set]
        exact h d
      · intro k
        unfold rateOf getVal
        by_cases hk : k = i
        · subst hk
          simp only [List.getElem?_set_self hlt]
          cases pb with
          | none => simp
          | some r => simpa [RateOp] using hop
        · rw [List.getElem?_set_ne (fun e => hk e.symm)]
          exact hr k
    · exact ⟨h, hr⟩
  case failAt k => exact keep_inv s _ hr h (fun _ => rfl) rfl rfl
  case block => exact blockStep_distrInv s hr h
  case dump => exact ⟨h, hr⟩

theorem reachable_distrInv (H : Str → Str) (pr : Nat) (c : Bool) (ops : List Op) (hops : ∀ op ∈ ops, RateOp op) :
    DistrInv (run H (initState pr c) ops) := by
  have gen : ∀ (ops : List Op) (s : State), (∀ op ∈ ops, RateOp op) → RatesOk s → DistrInv s → DistrInv (run H s ops) := by
    intro ops
    induction ops with
    | nil => intro s _ _ h; exact h
    | cons op r ih =>
      intro s hops hr h
      obtain ⟨h1, h2⟩ := step_distrInv H s op (hops op (by simp)) hr h
      exact ih _ (fun o ho => hops o (by simp [ho])) h2 h1
  apply gen ops _ hops
  · intro i
    unfold rateOf getVal
    simp only [initState]
    cases hg : (List.replicate 5 ({ tokens := pr, bonded := true, jailed := false, probono := none } : Val))[i]? with
    | none => simp
    | some v =>
      have := List.mem_of_getElem? hg
      simp only [List.mem_replicate] at this
      rw [this.2]; simp
  · intro d
    simp only [initState, liabilities, List.length_replicate]
    decide

end Settlus
