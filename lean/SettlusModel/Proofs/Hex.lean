/-
  Lemmas about hex decoding and the address normaliser: the normal form of `normalizeHex` in terms of the numeric value
  of the digit string, and lemmas about `splitOn`.
-/
import SettlusModel.Nft
namespace Settlus

/-! ### big-endian values -/

theorem foldl_bytes_acc (bs : List Nat) (a : Nat) :
    bs.foldl (fun acc b => acc * 256 + b) a = a * 256 ^ bs.length + bs.foldl (fun acc b => acc * 256 + b) 0 := by
  induction bs generalizing a with
  | nil => simp
  | cons x xs ih =>
    simp only [List.foldl_cons, List.length_cons]
    rw [ih (a * 256 + x), ih (0 * 256 + x)]
    simp [Nat.pow_succ, Nat.add_mul, Nat.mul_assoc, Nat.add_assoc, Nat.mul_comm 256]

theorem bytesVal_cons (x : Nat) (xs : List Nat) : bytesVal (x :: xs) = x * 256 ^ xs.length + bytesVal xs := by
  unfold bytesVal
  simp only [List.foldl_cons]
  rw [foldl_bytes_acc]
  simp

theorem bytesVal_append (a b : List Nat) : bytesVal (a ++ b) = bytesVal a * 256 ^ b.length + bytesVal b := by
  induction a with
  | nil => simp [bytesVal]
  | cons x xs ih =>
    simp only [List.cons_append, bytesVal_cons, ih, List.length_append]
    rw [Nat.pow_add, Nat.add_mul, Nat.mul_assoc, Nat.add_assoc]

def allBytes (bs : List Nat) : Prop := ∀ b ∈ bs, b < 256

theorem bytesVal_lt (bs : List Nat) (h : allBytes bs) : bytesVal bs < 256 ^ bs.length := by
  induction bs with
  | nil => simp [bytesVal]
  | cons x xs ih =>
    rw [bytesVal_cons]
    have hx : x < 256 := h x (by simp)
    have hxs : bytesVal xs < 256 ^ xs.length := ih (fun b hb => h b (by simp [hb]))
    simp only [List.length_cons, Nat.pow_succ]
    have : x * 256 ^ xs.length ≤ 255 * 256 ^ xs.length := Nat.mul_le_mul_right _ (by omega)
    omega

theorem bytesVal_replicate_zero (n : Nat) : bytesVal (List.replicate n 0) = 0 := by
  induction n with
  | zero => simp [bytesVal]
  | succ k ih => rw [List.replicate_succ, bytesVal_cons, ih]; simp

/-- `fixBytes n` keeps the value modulo 256^n -/
theorem fixBytes_val (n : Nat) (bs : List Nat) (h : allBytes bs) : bytesVal (fixBytes n bs) = bytesVal bs % 256 ^ n := by
  unfold fixBytes
  by_cases c : bs.length ≥ n
  · simp only [c, if_true]
    have hsplit : bs = bs.take (bs.length - n) ++ bs.drop (bs.length - n) := (List.take_append_drop _ _).symm
    have hlen : (bs.drop (bs.length - n)).length = n := by simp; omega
    have hd : allBytes (bs.drop (bs.length - n)) := fun b hb => h b (List.mem_of_mem_drop hb)
    have hlt := bytesVal_lt _ hd
    rw [hlen] at hlt
    conv => rhs; rw [hsplit, bytesVal_append, hlen]
    rw [Nat.mul_add_mod_self_right, Nat.mod_eq_of_lt hlt]
  · simp only [c, if_false]
    rw [bytesVal_append, bytesVal_replicate_zero]
    have hlt := bytesVal_lt bs h
    have : 256 ^ bs.length ≤ 256 ^ n := Nat.pow_le_pow_right (by omega) (by omega)
    rw [Nat.mod_eq_of_lt (by omega)]
    simp

theorem fixBytes_length (n : Nat) (bs : List Nat) : (fixBytes n bs).length = n := by
  unfold fixBytes
  by_cases c : bs.length ≥ n
  · simp [c]; omega
  · simp [c]; omega

theorem fixBytes_allBytes (n : Nat) (bs : List Nat) (h : allBytes bs) : allBytes (fixBytes n bs) := by
  unfold fixBytes
  by_cases c : bs.length ≥ n
  · simp only [c, if_true]
    exact fun b hb => h b (List.mem_of_mem_drop hb)
  · simp only [c, if_false]
    intro b hb
    rcases List.mem_append.mp hb with hb | hb
    · have := List.eq_of_mem_replicate hb; omega
    · exact h b hb

/-- byte lists of the same length with the same value are equal -/
theorem bytesVal_inj : ∀ (a b : List Nat), a.length = b.length → allBytes a → allBytes b → bytesVal a = bytesVal b → a = b
  | [], [], _, _, _, _ => rfl
  | [], _ :: _, hl, _, _, _ => by simp at hl
  | _ :: _, [], hl, _, _, _ => by simp at hl
  | x :: xs, y :: ys, hl, ha, hb, hv => by
    have hl' : xs.length = ys.length := by simpa using hl
    rw [bytesVal_cons, bytesVal_cons, hl'] at hv
    have hxs := bytesVal_lt xs (fun b hb' => ha b (by simp [hb']))
    have hys := bytesVal_lt ys (fun b hb' => hb b (by simp [hb']))
    rw [hl'] at hxs
    have hp : 0 < 256 ^ ys.length := Nat.pow_pos (by omega)
    have hxy : x = y := by
      have h1 : (x * 256 ^ ys.length + bytesVal xs) / 256 ^ ys.length = x := by
        rw [Nat.mul_comm, Nat.mul_add_div hp, Nat.div_eq_of_lt hxs]; simp
      have h2 : (y * 256 ^ ys.length + bytesVal ys) / 256 ^ ys.length = y := by
        rw [Nat.mul_comm, Nat.mul_add_div hp, Nat.div_eq_of_lt hys]; simp
      rw [hv] at h1
      omega
    subst hxy
    have : bytesVal xs = bytesVal ys := by omega
    rw [bytesVal_inj xs ys hl' (fun b hb' => ha b (by simp [hb'])) (fun b hb' => hb b (by simp [hb'])) this]

/-! ### hex digit strings -/

def allHex (s : Str) : Prop := ∀ c ∈ s, isHexChar c = true

theorem allHex_of_all (s : Str) (h : s.all isHexChar = true) : allHex s := by
  intro c hc
  exact List.all_eq_true.mp h c hc

theorem foldl_hex_acc (s : Str) (a : Nat) :
    s.foldl (fun acc c => acc * 16 + hexVal c) a = a * 16 ^ s.length + s.foldl (fun acc c => acc * 16 + hexVal c) 0 := by
  induction s generalizing a with
  | nil => simp
  | cons x xs ih =>
    simp only [List.foldl_cons, List.length_cons]
    rw [ih (a * 16 + hexVal x), ih (0 * 16 + hexVal x)]
    simp [Nat.pow_succ, Nat.add_mul, Nat.mul_assoc, Nat.add_assoc, Nat.mul_comm 16]

theorem hexStrVal_cons (c : Char) (s : Str) : hexStrVal (c :: s) = hexVal c * 16 ^ s.length + hexStrVal s := by
  unfold hexStrVal
  simp only [List.foldl_cons]
  rw [foldl_hex_acc]
  simp

theorem hexVal_lt (c : Char) : hexVal c < 16 := by
  unfold hexVal
  split
  · rename_i h; simp only [Bool.and_eq_true, decide_eq_true_eq] at h
    have h1 : '0'.toNat ≤ c.toNat := h.1
    have h2 : c.toNat ≤ '9'.toNat := h.2
    have : '0'.toNat = 48 := rfl
    have : '9'.toNat = 57 := rfl
    omega
  · split
    · rename_i h; simp only [Bool.and_eq_true, decide_eq_true_eq] at h
      have h1 : 'a'.toNat ≤ c.toNat := h.1
      have h2 : c.toNat ≤ 'f'.toNat := h.2
      have : 'a'.toNat = 97 := rfl
      have : 'f'.toNat = 102 := rfl
      omega
    · split
      · rename_i h; simp only [Bool.and_eq_true, decide_eq_true_eq] at h
        have h1 : 'A'.toNat ≤ c.toNat := h.1
        have h2 : c.toNat ≤ 'F'.toNat := h.2
        have : 'A'.toNat = 65 := rfl
        have : 'F'.toNat = 70 := rfl
        omega
      · omega

/-- decoding an even-length all-hex string: the bytes have the value of the digit string -/
theorem decodePairs_val : ∀ (s : Str), allHex s → s.length % 2 = 0 →
    bytesVal (decodePairs s) = hexStrVal s ∧ allBytes (decodePairs s) ∧ (decodePairs s).length = s.length / 2
  | [], _, _ => by simp [decodePairs, bytesVal, hexStrVal, allBytes]
  | [_], _, h => by simp at h
  | a :: b :: r, hh, hl => by
    have ha : isHexChar a = true := hh a (by simp)
    have hb : isHexChar b = true := hh b (by simp)
    have hr : allHex r := fun c hc => hh c (by simp [hc])
    have hlr : r.length % 2 = 0 := by simp only [List.length_cons] at hl; omega
    obtain ⟨iv, ib, il⟩ := decodePairs_val r hr hlr
    simp only [decodePairs, ha, hb, Bool.and_self, if_true]
    refine ⟨?_, ?_, ?_⟩
    · rw [bytesVal_cons, iv, il, hexStrVal_cons, hexStrVal_cons]
      simp only [List.length_cons]
      have e : 256 ^ (r.length / 2) = 16 ^ r.length := by
        have : r.length = 2 * (r.length / 2) := by omega
        conv => rhs; rw [this, Nat.pow_mul]
      rw [e, Nat.pow_succ]
      generalize 16 ^ r.length = P
      rw [Nat.add_mul, Nat.mul_assoc, Nat.mul_comm 16 P]
      omega
    · intro x hx
      rcases List.mem_cons.mp hx with rfl | hx
      · have := hexVal_lt a; have := hexVal_lt b; omega
      · exact ib x hx
    · simp only [List.length_cons, il]; omega

theorem hexStrVal_zero_cons (s : Str) : hexStrVal ('0' :: s) = hexStrVal s := by
  rw [hexStrVal_cons]
  have : hexVal '0' = 0 := by decide
  simp [this]

/-- `fromHex` of "0x" + digits (or bare digits): bytes whose value is the value of the digit string -/
theorem fromHex_digits (t : Str) (ht : allHex t) (hp : has0x t = false) :
    bytesVal (fromHex t) = hexStrVal t ∧ allBytes (fromHex t) := by
  unfold fromHex strip0x
  simp only [hp, Bool.false_eq_true, if_false]
  by_cases c : t.length % 2 = 1
  · simp only [c, if_true]
    have h0 : allHex ('0' :: t) := fun x hx => by
      rcases List.mem_cons.mp hx with rfl | hx
      · decide
      · exact ht x hx
    obtain ⟨v, b, _⟩ := decodePairs_val ('0' :: t) h0 (by simp only [List.length_cons]; omega)
    exact ⟨by rw [v, hexStrVal_zero_cons], b⟩
  · simp only [c, if_false]
    obtain ⟨v, b, _⟩ := decodePairs_val t ht (by omega)
    exact ⟨v, b⟩

theorem allHex_not0x (t : Str) (ht : allHex t) : has0x t = false := by
  unfold has0x
  split
  · have h := ht 'x' (by simp)
    have : isHexChar 'x' = false := by decide
    rw [this] at h; cases h
  · have h := ht 'X' (by simp)
    have : isHexChar 'X' = false := by decide
    rw [this] at h; cases h
  · rfl

theorem fromHex_prefixed (t : Str) (ht : allHex t) :
    bytesVal (fromHex ('0' :: 'x' :: t)) = hexStrVal t ∧ allBytes (fromHex ('0' :: 'x' :: t)) := by
  have := fromHex_digits t ht (allHex_not0x t ht)
  unfold fromHex strip0x at *
  simp only [has0x, List.drop, if_true]
  simp only [allHex_not0x t ht, Bool.false_eq_true, if_false] at this
  exact this

/-! ### rendering bytes as hex -/

theorem hexVal_hexDigit (n : Nat) (h : n < 16) : hexVal (hexDigit n) = n := by
  have : n = 0 ∨ n = 1 ∨ n = 2 ∨ n = 3 ∨ n = 4 ∨ n = 5 ∨ n = 6 ∨ n = 7 ∨ n = 8 ∨ n = 9 ∨ n = 10 ∨ n = 11 ∨ n = 12 ∨ n = 13 ∨ n = 14 ∨ n = 15 := by omega
  rcases this with h | h | h | h | h | h | h | h | h | h | h | h | h | h | h | h <;> subst h <;> decide

theorem isHex_hexDigit (n : Nat) (h : n < 16) : isHexChar (hexDigit n) = true := by
  have : n = 0 ∨ n = 1 ∨ n = 2 ∨ n = 3 ∨ n = 4 ∨ n = 5 ∨ n = 6 ∨ n = 7 ∨ n = 8 ∨ n = 9 ∨ n = 10 ∨ n = 11 ∨ n = 12 ∨ n = 13 ∨ n = 14 ∨ n = 15 := by omega
  rcases this with h | h | h | h | h | h | h | h | h | h | h | h | h | h | h | h <;> subst h <;> decide

theorem bytesHex_val : ∀ (bs : List Nat), allBytes bs → hexStrVal (bytesHex bs) = bytesVal bs ∧ (bytesHex bs).length = 2 * bs.length ∧ allHex (bytesHex bs)
  | [], _ => by simp [bytesHex, hexStrVal, bytesVal, allHex]
  | b :: r, h => by
    have hb : b < 256 := h b (by simp)
    obtain ⟨iv, il, ih⟩ := bytesHex_val r (fun x hx => h x (by simp [hx]))
    have e : bytesHex (b :: r) = hexDigit (b / 16) :: hexDigit (b % 16) :: bytesHex r := by
      simp [bytesHex, byteHex]
    rw [e]
    refine ⟨?_, ?_, ?_⟩
    · rw [hexStrVal_cons, hexStrVal_cons, iv, bytesVal_cons, hexVal_hexDigit _ (by omega), hexVal_hexDigit _ (by omega)]
      simp only [List.length_cons, il]
      have e2 : 16 ^ (2 * r.length) = 256 ^ r.length := by rw [Nat.pow_mul]
      rw [Nat.pow_succ, e2]
      have : b = b / 16 * 16 + b % 16 := by omega
      generalize 256 ^ r.length = P at *
      have h1 : b / 16 * (P * 16) = (b / 16 * 16) * P := by rw [Nat.mul_comm P 16, Nat.mul_assoc]
      rw [h1]
      conv => rhs; rw [this, Nat.add_mul]
      omega
    · simp only [List.length_cons, il]; omega
    · intro c hc
      rcases List.mem_cons.mp hc with rfl | hc
      · exact isHex_hexDigit _ (by omega)
      · rcases List.mem_cons.mp hc with rfl | hc
        · exact isHex_hexDigit _ (by omega)
        · exact ih c hc

/-- **normal form of the address normaliser**: for a digit string `t` (with or without the 0x prefix) the 40 digits it
produces have the value of `t` modulo 2^160 -/
theorem normalizeHex_val (t : Str) (ht : allHex t) :
    hexStrVal ((normalizeHex ('0' :: 'x' :: t)).drop 2) = hexStrVal t % 2 ^ 160 ∧
    hexStrVal ((normalizeHex t).drop 2) = hexStrVal t % 2 ^ 160 := by
  have e : (256 : Nat) ^ 20 = 2 ^ 160 := by decide
  constructor
  · obtain ⟨v, b⟩ := fromHex_prefixed t ht
    unfold normalizeHex
    simp only [List.drop]
    rw [(bytesHex_val _ (fixBytes_allBytes 20 _ b)).1, fixBytes_val 20 _ b, v, e]
  · obtain ⟨v, b⟩ := fromHex_digits t ht (allHex_not0x t ht)
    unfold normalizeHex
    simp only [List.drop]
    rw [(bytesHex_val _ (fixBytes_allBytes 20 _ b)).1, fixBytes_val 20 _ b, v, e]

/-- two digit strings with the same value modulo 2^160 have the same normal form, and conversely -/
theorem normalizeHex_eq_iff (s t : Str) (hs : allHex s) (ht : allHex t) :
    normalizeHex ('0' :: 'x' :: s) = normalizeHex ('0' :: 'x' :: t) ↔ hexStrVal s % 2 ^ 160 = hexStrVal t % 2 ^ 160 := by
  constructor
  · intro h
    have a := (normalizeHex_val s hs).1
    have b := (normalizeHex_val t ht).1
    rw [h] at a
    omega
  · intro h
    obtain ⟨vs, bs⟩ := fromHex_prefixed s hs
    obtain ⟨vt, bt⟩ := fromHex_prefixed t ht
    unfold normalizeHex
    have e : (256 : Nat) ^ 20 = 2 ^ 160 := by decide
    have : fixBytes 20 (fromHex ('0' :: 'x' :: s)) = fixBytes 20 (fromHex ('0' :: 'x' :: t)) := by
      apply bytesVal_inj _ _ (by rw [fixBytes_length, fixBytes_length]) (fixBytes_allBytes _ _ bs) (fixBytes_allBytes _ _ bt)
      rw [fixBytes_val _ _ bs, fixBytes_val _ _ bt, vs, vt, e, h]
    rw [this]

/-! ### splitting -/

theorem splitOn_ne_nil (sep : Char) (s : Str) : splitOn sep s ≠ [] := by
  induction s with
  | nil => simp [splitOn]
  | cons c r ih =>
    unfold splitOn
    split
    · simp
    · split <;> simp

theorem splitOn_cons_ne (sep c : Char) (r : Str) (hc : c ≠ sep) :
    splitOn sep (c :: r) = match splitOn sep r with
      | [] => [[c]]
      | h :: t => (c :: h) :: t := by
  conv => lhs; unfold splitOn
  simp only [hc, if_false]
  split <;> simp_all

theorem splitOn_cons_eq (sep : Char) (r : Str) : splitOn sep (sep :: r) = [] :: splitOn sep r := by
  conv => lhs; unfold splitOn
  simp

theorem splitOn_no_sep (sep : Char) (s : Str) (h : sep ∉ s) : splitOn sep s = [s] := by
  induction s with
  | nil => rfl
  | cons c r ih =>
    have hc : c ≠ sep := fun e => h (by simp [e])
    have hr : sep ∉ r := fun m => h (by simp [m])
    rw [splitOn_cons_ne sep c r hc, ih hr]

theorem splitOn_append_sep (sep : Char) (a b : Str) (h : sep ∉ a) : splitOn sep (a ++ sep :: b) = a :: splitOn sep b := by
  induction a with
  | nil => simp [splitOn_cons_eq]
  | cons c r ih =>
    have hc : c ≠ sep := fun e => h (by simp [e])
    have hr : sep ∉ r := fun m => h (by simp [m])
    simp only [List.cons_append]
    rw [splitOn_cons_ne sep c _ hc, ih hr]

end Settlus
