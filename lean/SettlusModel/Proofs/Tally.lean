/-
  Lemmas about the tally: de-duplication, the accepted-owner lookup, the ceiling threshold.
-/
import SettlusModel.Oracle
namespace Settlus

/-! ### de-duplication -/

theorem nodup_reverse' {α} (l : List α) (h : l.Nodup) : l.reverse.Nodup := by
  unfold List.Nodup at *
  rw [List.pairwise_reverse]
  exact h.imp (fun hne => Ne.symm hne)

theorem dedupBallots_spec : ∀ (l acc : List Ballot), acc.Nodup →
    (dedupBallots l acc).Nodup ∧ (∀ b, b ∈ dedupBallots l acc ↔ b ∈ acc ∨ b ∈ l)
  | [], acc, h => by simp [dedupBallots, nodup_reverse' _ h]
  | x :: r, acc, h => by
    unfold dedupBallots
    by_cases c : acc.contains x = true
    · simp only [c, if_true]
      obtain ⟨i1, i2⟩ := dedupBallots_spec r acc h
      refine ⟨i1, fun b => ?_⟩
      rw [i2 b]
      have : x ∈ acc := List.contains_iff_mem.mp c
      constructor
      · rintro (h | h)
        · exact Or.inl h
        · exact Or.inr (by simp [h])
      · rintro (h | h)
        · exact Or.inl h
        · rcases List.mem_cons.mp h with rfl | h
          · exact Or.inl this
          · exact Or.inr h
    · simp only [c, if_false, Bool.false_eq_true]
      have hx : x ∉ acc := fun m => c (List.contains_iff_mem.mpr m)
      obtain ⟨i1, i2⟩ := dedupBallots_spec r (x :: acc) (List.nodup_cons.mpr ⟨hx, h⟩)
      refine ⟨i1, fun b => ?_⟩
      rw [i2 b]
      simp only [List.mem_cons]
      constructor
      · rintro ((h | h) | h)
        · exact Or.inr (Or.inl h)
        · exact Or.inl h
        · exact Or.inr (Or.inr h)
      · rintro (h | h | h)
        · exact Or.inl (Or.inr h)
        · exact Or.inl (Or.inl h)
        · exact Or.inr h

theorem ballots_nodup (votes : List (String × List VoteData)) : (ballots votes).Nodup :=
  (dedupBallots_spec _ [] List.nodup_nil).1

theorem mem_ballots (votes : List (String × List VoteData)) (b : Ballot) : b ∈ ballots votes ↔ b ∈ rawBallots votes := by
  have := (dedupBallots_spec (rawBallots votes) [] List.nodup_nil).2 b
  unfold ballots
  simpa using this

/-- a repeated occurrence of a ballot that was already seen changes nothing -/
theorem dedupBallots_repeat : ∀ (xs ys acc : List Ballot) (b : Ballot), (b ∈ xs ∨ b ∈ acc) →
    dedupBallots (xs ++ b :: ys) acc = dedupBallots (xs ++ ys) acc
  | [], ys, acc, b, h => by
    have hb : b ∈ acc := by rcases h with h | h; cases h; exact h
    have hc : acc.contains b = true := List.contains_iff_mem.mpr hb
    simp only [List.nil_append]
    conv => lhs; unfold dedupBallots
    simp only [hc, if_true]
  | x :: r, ys, acc, b, h => by
    simp only [List.cons_append]
    unfold dedupBallots
    by_cases c : acc.contains x = true
    · simp only [c, if_true]
      apply dedupBallots_repeat r ys acc b
      rcases h with h | h
      · rcases List.mem_cons.mp h with rfl | h
        · exact Or.inr (List.contains_iff_mem.mp c)
        · exact Or.inl h
      · exact Or.inr h
    · simp only [c, if_false, Bool.false_eq_true]
      apply dedupBallots_repeat r ys (x :: acc) b
      rcases h with h | h
      · rcases List.mem_cons.mp h with rfl | h
        · exact Or.inr (by simp)
        · exact Or.inl h
      · exact Or.inr (by simp [h])

theorem dedupStr_spec : ∀ (l acc : List Str), acc.Nodup → (dedupStr l acc).Nodup ∧ (∀ b, b ∈ dedupStr l acc ↔ b ∈ acc ∨ b ∈ l)
  | [], acc, h => by simp [dedupStr, nodup_reverse' _ h]
  | x :: r, acc, h => by
    unfold dedupStr
    by_cases c : acc.contains x = true
    · simp only [c, if_true]
      obtain ⟨i1, i2⟩ := dedupStr_spec r acc h
      refine ⟨i1, fun b => ?_⟩
      rw [i2 b]
      have : x ∈ acc := List.contains_iff_mem.mp c
      constructor
      · rintro (h | h)
        · exact Or.inl h
        · exact Or.inr (by simp [h])
      · rintro (h | h)
        · exact Or.inl h
        · rcases List.mem_cons.mp h with rfl | h
          · exact Or.inl this
          · exact Or.inr h
    · simp only [c, if_false, Bool.false_eq_true]
      have hx : x ∉ acc := fun m => c (List.contains_iff_mem.mpr m)
      obtain ⟨i1, i2⟩ := dedupStr_spec r (x :: acc) (List.nodup_cons.mpr ⟨hx, h⟩)
      refine ⟨i1, fun b => ?_⟩
      rw [i2 b]
      simp only [List.mem_cons]
      constructor
      · rintro ((h | h) | h)
        · exact Or.inr (Or.inl h)
        · exact Or.inl h
        · exact Or.inr (Or.inr h)
      · rintro (h | h | h)
        · exact Or.inl (Or.inr h)
        · exact Or.inl (Or.inl h)
        · exact Or.inr h

theorem ownersOf_nodup (bs : List Ballot) (n : Nft) : (ownersOf bs n).Nodup := (dedupStr_spec _ [] List.nodup_nil).1

theorem mem_ownersOf (bs : List Ballot) (n : Nft) (o : Str) : o ∈ ownersOf bs n ↔ ∃ b ∈ bs, b.nft = n ∧ b.owner = o := by
  have := (dedupStr_spec ((bs.filter (fun b => b.nft == n)).map (·.owner)) [] List.nodup_nil).2 o
  unfold ownersOf
  rw [this]
  simp only [List.not_mem_nil, false_or, List.mem_map, List.mem_filter, beq_iff_eq]
  constructor
  · rintro ⟨b, ⟨hb, hn⟩, ho⟩; exact ⟨b, hb, hn, ho⟩
  · rintro ⟨b, hb, hn, ho⟩; exact ⟨b, ⟨hb, hn⟩, ho⟩

/-! ### picking -/

theorem filter_eq_singleton_iff {α} [DecidableEq α] (p : α → Bool) : ∀ (l : List α), l.Nodup → ∀ (o : α),
    (l.filter p = [o] ↔ o ∈ l ∧ p o = true ∧ ∀ x ∈ l, x ≠ o → p x = false)
  | [], _, o => by simp
  | x :: r, hn, o => by
    rw [List.nodup_cons] at hn
    have ih := filter_eq_singleton_iff p r hn.2
    by_cases hx : p x = true
    · simp only [List.filter_cons, hx, if_true, List.cons.injEq, List.mem_cons]
      constructor
      · rintro ⟨rfl, hr⟩
        refine ⟨Or.inl rfl, hx, ?_⟩
        intro y hy hne
        rcases hy with rfl | hy
        · exact absurd rfl hne
        · have : y ∉ r.filter p := by rw [hr]; simp
          cases hp : p y
          · rfl
          · exact absurd (List.mem_filter.mpr ⟨hy, hp⟩) this
      · rintro ⟨ho, hpo, hall⟩
        have hxo : x = o := by
          by_cases hne : x = o
          · exact hne
          · have := hall x (Or.inl rfl) hne
            rw [hx] at this; cases this
        refine ⟨hxo, ?_⟩
        apply List.filter_eq_nil_iff.mpr
        intro y hy
        have : y ≠ o := fun e => hn.1 (hxo ▸ e ▸ hy)
        simp [hall y (Or.inr hy) this]
    · have hx' : p x = false := by cases h : p x <;> simp_all
      simp only [List.filter_cons, hx', Bool.false_eq_true, if_false, List.mem_cons]
      rw [ih o]
      constructor
      · rintro ⟨ho, hpo, hall⟩
        refine ⟨Or.inr ho, hpo, ?_⟩
        intro y hy hne
        rcases hy with rfl | hy
        · exact hx'
        · exact hall y hy hne
      · rintro ⟨ho, hpo, hall⟩
        refine ⟨?_, hpo, fun y hy hne => hall y (Or.inr hy) hne⟩
        rcases ho with rfl | ho
        · rw [hx'] at hpo; cases hpo
        · exact ho

/-- the lookup in the accepted list is `pickOwner` -/
theorem alGet_accepted (cl : List (Nat × Nat)) (bs : List Ballot) (thr : Nat) (n0 : Nft) :
    ∀ (l : List Nft), alGet (l.filterMap (acceptedEntry cl bs thr)) n0 = if n0 ∈ l then pickOwner cl bs thr n0 else none
  | [] => by simp [alGet]
  | n :: r => by
    have ih := alGet_accepted cl bs thr n0 r
    simp only [List.filterMap_cons, acceptedEntry]
    cases hp : pickOwner cl bs thr n with
    | none =>
      simp only [hp, Option.map_none]
      change alGet (r.filterMap (acceptedEntry cl bs thr)) n0 = _
      rw [ih]
      by_cases e : n0 = n
      · subst e; simp [hp]
      · have : ¬ n = n0 := fun h => e h.symm
        simp [e]
    | some o =>
      simp only [hp, Option.map_some, alGet]
      change (if n = n0 then some o else alGet (r.filterMap (acceptedEntry cl bs thr)) n0) = _
      by_cases e : n = n0
      · subst e; simp [hp]
      · have : ¬ n0 = n := fun h => e h.symm
        simp only [e, if_false]
        rw [ih]
        simp [this]

/-! ### threshold -/

/-- ceil(thr * total / 10^18) ≤ p  iff  thr * total ≤ p * 10^18 -/
theorem threshold_le_iff (thr total p : Nat) : thresholdVotes thr total ≤ p ↔ thr * total ≤ p * one18 := by
  unfold thresholdVotes one18
  constructor
  · intro h
    have := Nat.div_add_mod (thr * total + 1000000000000000000 - 1) 1000000000000000000
    have := Nat.mod_lt (thr * total + 1000000000000000000 - 1) (show 0 < 1000000000000000000 by omega)
    generalize (thr * total + 1000000000000000000 - 1) / 1000000000000000000 = q at *
    generalize thr * total = x at *
    omega
  · intro h
    generalize thr * total = x at *
    omega

end Settlus
