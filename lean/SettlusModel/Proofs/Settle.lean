/-
  Lemmas about the settlement handlers: what a successful plan implies, that a refused message returns its input state,
  and frame conditions (what each handler leaves untouched).
-/
import SettlusModel.Chain
namespace Settlus

/-! ### plans -/

theorem createTenantPlan_some {s : State} {a : String} {d : Str} {p : Nat} {mc : Option Str} {t : Tenant}
    (h : createTenantPlan s a d p mc = some t) :
    ∃ acc, decodeAcc a = some acc ∧ validDenom d = true ∧ p ≠ 0 ∧ t.id = largestTenantId s.st.tenants + 1 ∧ t.admins = [acc] ∧
      t.denom = d ∧ t.period = p ∧ t.mint = mc.isSome := by
  simp only [createTenantPlan, bind, Option.bind_eq_some_iff, check_eq_some, Bool.and_eq_true, bne_iff_ne, ne_eq, pure, Option.pure_def, Option.some.injEq] at h
  obtain ⟨acc, hacc, _, ⟨⟨_, hv⟩, hp⟩, _, _, ht⟩ := h
  subst ht
  exact ⟨acc, hacc, hv, hp, rfl, rfl, rfl, rfl, rfl⟩

theorem recordPlan_some {s : State} {a : String} {t : Nat} {r : Str} {amt : Option Int} {d ch c tok : Str} {p : RecordPlan}
    (h : recordPlan s a t r amt d ch c tok = some p) :
    ∃ acc amount tn, decodeAcc a = some acc ∧ amt = some amount ∧ recordBasic amt d c tok = true ∧ isAdmin s.st.tenants t a = true ∧
      findTenant s.st.tenants t = some tn ∧ tn.denom = d ∧ tn.period ≠ 0 ∧ getRecipients s ch c tok = some p.rcpt ∧
      p.nft = { chain := ch, contract := normalizeHex c, token := normalizeHex tok } ∧
      (createUtxr s.st t r amount d p.nft s.h p.rcpt).id = some p.id ∧ p.st = (createUtxr s.st t r amount d p.nft s.h p.rcpt).st := by
  simp only [recordPlan, bind, Option.bind_eq_some_iff, check_eq_some, Bool.and_eq_true, bne_iff_ne, ne_eq, beq_iff_eq, pure, Option.pure_def, Option.some.injEq] at h
  obtain ⟨acc, hacc, amount, hamt, _, ⟨hb, _⟩, _, hadm, tn, htn, _, ⟨hd, hp⟩, rc, hrc, id, hid, hpl⟩ := h
  subst hpl
  exact ⟨acc, amount, tn, hacc, hamt, hb, hadm, htn, hd, hp, hrc, rfl, hid, rfl⟩

theorem cancelPlan_some {s : State} {a : String} {t : Nat} {r : Str} {id : Nat} (h : cancelPlan s a t r = some id) :
    isAdmin s.st.tenants t a = true ∧ alGet (s.st.index t) r = some id := by
  simp only [cancelPlan, bind, Option.bind_eq_some_iff, check_eq_some] at h
  obtain ⟨_, _, _, _, _, hadm, hid⟩ := h
  exact ⟨hadm, hid⟩

theorem addAdminPlan_some {s : State} {a : String} {t : Nat} {n : String} {tn : Tenant} (h : addAdminPlan s a t n = some tn) :
    ∃ na old, decodeAcc n = some na ∧ isAdmin s.st.tenants t a = true ∧ findTenant s.st.tenants t = some old ∧
      old.admins.contains na = false ∧ tn = { old with admins := old.admins ++ [na] } := by
  simp only [addAdminPlan, bind, Option.bind_eq_some_iff, check_eq_some, Bool.not_eq_true', pure, Option.pure_def, Option.some.injEq] at h
  obtain ⟨_, _, na, hna, _, hadm, old, hold, _, hc, ht⟩ := h
  exact ⟨na, old, hna, hadm, hold, hc, ht.symm⟩

theorem removeAdminPlan_some {s : State} {a : String} {t : Nat} {n : String} {tn : Tenant} (h : removeAdminPlan s a t n = some tn) :
    ∃ ta old, decodeAcc n = some ta ∧ isAdmin s.st.tenants t a = true ∧ findTenant s.st.tenants t = some old ∧
      old.admins.contains ta = true ∧ old.admins.length ≠ 1 ∧ tn = { old with admins := old.admins.erase ta } := by
  simp only [removeAdminPlan, bind, Option.bind_eq_some_iff, check_eq_some, Bool.and_eq_true, bne_iff_ne, ne_eq, pure, Option.pure_def, Option.some.injEq] at h
  obtain ⟨_, _, ta, hta, _, hadm, old, hold, _, ⟨hc, hl⟩, ht⟩ := h
  exact ⟨ta, old, hta, hadm, hold, hc, hl, ht.symm⟩

theorem setPeriodPlan_some {s : State} {a : String} {t p : Nat} {tn : Tenant} (h : setPeriodPlan s a t p = some tn) :
    ∃ old, p ≠ 0 ∧ isAdmin s.st.tenants t a = true ∧ findTenant s.st.tenants t = some old ∧ tn = { old with period := p } := by
  simp only [setPeriodPlan, bind, Option.bind_eq_some_iff, check_eq_some, Bool.and_eq_true, bne_iff_ne, ne_eq, pure, Option.pure_def, Option.some.injEq] at h
  obtain ⟨_, _, _, ⟨hp, hadm⟩, old, hold, ht⟩ := h
  exact ⟨old, hp, hadm, hold, ht.symm⟩

theorem depositPlan_some {s : State} {a : String} {t : Nat} {amt : Option Int} {d : Str} {p : Nat × Bank} (h : depositPlan s a t amt d = some p) :
    ∃ acc x tn, decodeAcc a = some acc ∧ amt = some x ∧ 0 < x ∧ validDenom d = true ∧ findTenant s.st.tenants t = some tn ∧ tn.mint = false ∧
      s.bank.send (.acct acc) (treasuryName t) d x.toNat = some p.2 ∧ p.1 = x.toNat := by
  simp only [depositPlan, bind, Option.bind_eq_some_iff, check_eq_some, Bool.and_eq_true, decide_eq_true_eq, Bool.not_eq_true', pure, Option.pure_def, Option.some.injEq] at h
  obtain ⟨acc, hacc, x, hx, _, ⟨hv, hpos⟩, tn, htn, _, hm, b, hb, hp⟩ := h
  subst hp
  exact ⟨acc, x, tn, hacc, hx, hpos, hv, htn, hm, hb, rfl⟩

/-! ### a refused message returns the state it was given -/

theorem createTenant_err (s : State) (a : String) (d : Str) (p : Nat) (mc : Option Str) (h : isOk (createTenant s a d p mc).out = false) :
    (createTenant s a d p mc).st = s := by unfold createTenant at h ⊢; split <;> simp_all [isOk]
theorem deposit_err (s : State) (a : String) (t : Nat) (amt : Option Int) (d : Str) (h : isOk (deposit s a t amt d).out = false) :
    (deposit s a t amt d).st = s := by unfold deposit at h ⊢; split <;> simp_all [isOk]
theorem record_err (s : State) (a : String) (t : Nat) (r : Str) (amt : Option Int) (d ch c tok : Str)
    (h : isOk (record s a t r amt d ch c tok).out = false) : (record s a t r amt d ch c tok).st = s := by
  unfold record at h ⊢; split <;> simp_all [isOk]
theorem cancel_err (s : State) (a : String) (t : Nat) (r : Str) (h : isOk (cancel s a t r).out = false) : (cancel s a t r).st = s := by
  unfold cancel at h ⊢; split <;> simp_all [isOk]
theorem addAdmin_err (s : State) (a : String) (t : Nat) (n : String) (h : isOk (addAdmin s a t n).out = false) : (addAdmin s a t n).st = s := by
  unfold addAdmin at h ⊢; split <;> simp_all [isOk]
theorem removeAdmin_err (s : State) (a : String) (t : Nat) (n : String) (h : isOk (removeAdmin s a t n).out = false) : (removeAdmin s a t n).st = s := by
  unfold removeAdmin at h ⊢; split <;> simp_all [isOk]
theorem setPeriod_err (s : State) (a : String) (t p : Nat) (h : isOk (setPeriod s a t p).out = false) : (setPeriod s a t p).st = s := by
  unfold setPeriod at h ⊢; split <;> simp_all [isOk]

/-! ### tenants list helpers -/

theorem findTenant_some_mem {ts : List Tenant} {id : Nat} {t : Tenant} (h : findTenant ts id = some t) : t ∈ ts ∧ t.id = id := by
  unfold findTenant at h
  have := List.find?_some h
  exact ⟨List.mem_of_find?_eq_some h, by simpa using this⟩

theorem isAdmin_iff (ts : List Tenant) (t : Nat) (a : String) :
    isAdmin ts t a = true ↔ ∃ tn acc, findTenant ts t = some tn ∧ decodeAcc a = some acc ∧ acc ∈ tn.admins := by
  unfold isAdmin
  cases h1 : findTenant ts t <;> cases h2 : decodeAcc a <;> simp [h1, h2]

end Settlus
