/-
  The ghost ledger: which events each operation appends to the log, and what they say about the record store and
  the treasury balances.
-/
import SettlusModel.Proofs.Pay
namespace Settlus

/-! ### projections of the log -/

/-- the record a resolution event of tenant `t` resolves -/
def resOf (t : Nat) : Event → Option Nat
  | .settled t' id _ => if t' = t then some id else none
  | .cancelled t' id _ => if t' = t then some id else none
  | .dropped t' id _ => if t' = t then some id else none
  | _ => none

/-- ids of tenant `t` with a resolution event (paid out, cancelled, dropped), one entry per event -/
def resolvedIds (log : List Event) (t : Nat) : List Nat := log.filterMap (resOf t)

/-- what an event takes out of the treasury of tenant `k` in denomination `d` -/
def debitOf (k : Nat) (d : Str) : Event → Nat
  | .paid t _ _ d' amt => if t = k ∧ d' = d then amt else 0
  | _ => 0

def depositOf (k : Nat) (d : Str) : Event → Nat
  | .deposited t d' amt => if t = k ∧ d' = d then amt else 0
  | _ => 0

def debits (log : List Event) (k : Nat) (d : Str) : Nat := (log.map (debitOf k d)).sum
def deposits (log : List Event) (k : Nat) (d : Str) : Nat := (log.map (depositOf k d)).sum

/-- the payment events (transfers and mints) of record `id` of tenant `k` -/
def isPayFor (k id : Nat) : Event → Bool
  | .paid t i _ _ _ => t == k && i == id
  | .minted t i _ _ _ => t == k && i == id
  | _ => false

def paysFor (log : List Event) (k id : Nat) : List Event := log.filter (isPayFor k id)

@[simp] theorem resolvedIds_append (a b : List Event) (t : Nat) : resolvedIds (a ++ b) t = resolvedIds a t ++ resolvedIds b t := by
  simp [resolvedIds, List.filterMap_append]
@[simp] theorem debits_append (a b : List Event) (k : Nat) (d : Str) : debits (a ++ b) k d = debits a k d + debits b k d := by
  simp [debits]
@[simp] theorem deposits_append (a b : List Event) (k : Nat) (d : Str) : deposits (a ++ b) k d = deposits a k d + deposits b k d := by
  simp [deposits]
@[simp] theorem paysFor_append (a b : List Event) (k id : Nat) : paysFor (a ++ b) k id = paysFor a k id ++ paysFor b k id := by
  simp [paysFor]
@[simp] theorem resolvedIds_nil (t : Nat) : resolvedIds [] t = [] := rfl
@[simp] theorem debits_nil (k : Nat) (d : Str) : debits [] k d = 0 := rfl
@[simp] theorem deposits_nil (k : Nat) (d : Str) : deposits [] k d = 0 := rfl
@[simp] theorem paysFor_nil (k id : Nat) : paysFor [] k id = [] := rfl

/-! ### recipients are never treasuries -/

theorem moduleOfHex_cases (h : Str) (m : Holder) (hm : moduleOfHex h = some m) : m = .distr ∨ m = .pool ∨ m = .collector := by
  unfold moduleOfHex at hm
  split at hm
  · split at hm
    · cases hm; exact Or.inl rfl
    · split at hm
      · cases hm; exact Or.inr (Or.inl rfl)
      · split at hm
        · cases hm; exact Or.inr (Or.inr rfl)
        · cases hm
  · cases hm

theorem holderOfHex_ne_treasury (h : Str) (k : Nat) : holderOfHex h ≠ .treasury k := by
  unfold holderOfHex
  split
  · rename_i m hm
    rcases moduleOfHex_cases h m hm with e | e | e <;> subst e <;> simp
  · split <;> simp

/-- a payable address is no module account: its holder is an ordinary account or address -/
theorem holderOfHex_payable (h : Str) (hp : payable h = true) : holderOfHex h ≠ .distr ∧ holderOfHex h ≠ .pool ∧ holderOfHex h ≠ .collector := by
  unfold payable at hp
  simp only [Bool.and_eq_true, Option.isNone_iff_eq_none] at hp
  unfold holderOfHex
  rw [hp.2]
  simp only
  split <;> simp

/-! ### one payout -/

/-- the event the payout of one recipient appends -/
def payEv (t : Tenant) (r : Rec) (n W : Nat) (x : Recipient) : Event :=
  if t.mint then .minted t.id r.id (holderOfHex x.addr) (mintDenom t) (share r.amount n W x.weight).toNat
  else .paid t.id r.id (holderOfHex x.addr) r.denom (share r.amount n W x.weight).toNat

theorem send_treasury (b b' : Bank) (k : Nat) (who : Holder) (d : Str) (amt : Nat) (hw : ∀ j, who ≠ .treasury j)
    (h : b.send (.treasury k) who d amt = some b') :
    b' (.treasury k) d + amt = b (.treasury k) d ∧ (∀ j d', (j ≠ k ∨ d' ≠ d) → b' (.treasury j) d' = b (.treasury j) d') := by
  unfold Bank.send at h
  split at h
  · cases h
  · rename_i hlt
    cases h
    constructor
    · have : (Holder.treasury k = who) = False := by simp; exact fun e => hw k e.symm
      simp [Bank.credit, Bank.debit, this]
      omega
    · intro j d' hne
      have e1 : (Holder.treasury j = who) = False := by simp; exact fun e => hw j e.symm
      simp only [Bank.credit, Bank.debit, e1, false_and, if_false]
      rcases hne with hj | hd
      · simp [hj]
      · simp [hd]

theorem credit_treasury (b : Bank) (who : Holder) (d : Str) (amt : Nat) (hw : ∀ j, who ≠ .treasury j) (j : Nat) (d' : Str) :
    (b.credit who d amt) (.treasury j) d' = b (.treasury j) d' := by
  have e1 : (Holder.treasury j = who) = False := by simp; exact fun e => hw j e.symm
  simp [Bank.credit, e1]

/-- a payout that goes through appends exactly one event per valid recipient, in order; a native tenant's treasury is debited by
exactly the amounts of those events and no other treasury balance moves; a minting tenant's payout moves no treasury balance -/
theorem payRcpts_paid (t : Tenant) (r : Rec) (f : Option Nat) (n W : Nat) :
    ∀ (vs : List Recipient) (b : Bank) (c : Nat) (ev : List Event) (b' : Bank) (c' : Nat) (ev' : List Event),
      payRcpts t r f n W vs b c ev = .paid b' c' ev' →
      ev' = ev ++ vs.map (payEv t r n W) ∧
      (∀ j d, b' (.treasury j) d + debits (vs.map (payEv t r n W)) j d = b (.treasury j) d) := by
  intro vs
  induction vs with
  | nil =>
    intro b c ev b' c' ev' h
    simp only [payRcpts, PayOutcome.paid.injEq] at h
    obtain ⟨rfl, _, rfl⟩ := h
    simp
  | cons x xs ih =>
    intro b c ev b' c' ev' h
    unfold payRcpts at h
    simp only at h
    have hw : ∀ j, holderOfHex x.addr ≠ .treasury j := fun j => holderOfHex_ne_treasury _ j
    by_cases hm : t.mint = true
    · simp only [hm, if_true] at h
      split at h
      · cases h
      · split at h
        · cases h
        · obtain ⟨i1, i2⟩ := ih _ _ _ _ _ _ h
          refine ⟨by simp [i1, payEv, hm], ?_⟩
          intro j d
          have := i2 j d
          rw [credit_treasury _ _ _ _ hw] at this
          simp only [List.map_cons, debits, List.sum_cons] at this ⊢
          simp only [payEv, hm, if_true, debitOf] at this ⊢
          omega
    · simp only [hm, Bool.false_eq_true, if_false] at h
      split at h
      · split at h
        · cases h
        · split at h
          · cases h
          · split at h
            · cases h
            · rename_i bb hs
              obtain ⟨i1, i2⟩ := ih _ _ _ _ _ _ h
              obtain ⟨s1, s2⟩ := send_treasury _ _ _ _ _ _ hw hs
              refine ⟨by simp [i1, payEv, hm], ?_⟩
              intro j d
              have := i2 j d
              simp only [List.map_cons, debits, List.sum_cons] at this ⊢
              by_cases hjd : j = t.id ∧ d = r.denom
              · obtain ⟨rfl, rfl⟩ := hjd
                simp only [payEv, hm, Bool.false_eq_true, if_false, debitOf, and_self, if_true] at this ⊢
                omega
              · have hne : j ≠ t.id ∨ d ≠ r.denom := by
                  by_cases hj : j = t.id
                  · right; intro hd; exact hjd ⟨hj, hd⟩
                  · left; exact hj
                rw [s2 j d hne] at this
                have e0 : debitOf j d (payEv t r n W x) = 0 := by
                  simp only [payEv, hm, Bool.false_eq_true, if_false, debitOf]
                  rcases hne with hj | hd
                  · simp [Ne.symm hj]
                  · simp [Ne.symm hd]
                simp only [payEv, hm, Bool.false_eq_true, if_false] at this e0 ⊢
                omega
      · split at h
        · cases h
        · split at h
          · cases h
          · split at h
            · cases h
            · rename_i bb hs
              obtain ⟨i1, i2⟩ := ih _ _ _ _ _ _ h
              obtain ⟨s1, s2⟩ := send_treasury _ _ _ _ _ _ hw hs
              refine ⟨by simp [i1, payEv, hm], ?_⟩
              intro j d
              have := i2 j d
              simp only [List.map_cons, debits, List.sum_cons] at this ⊢
              by_cases hjd : j = t.id ∧ d = r.denom
              · obtain ⟨rfl, rfl⟩ := hjd
                simp only [payEv, hm, Bool.false_eq_true, if_false, debitOf, and_self, if_true] at this ⊢
                omega
              · have hne : j ≠ t.id ∨ d ≠ r.denom := by
                  by_cases hj : j = t.id
                  · right; intro hd; exact hjd ⟨hj, hd⟩
                  · left; exact hj
                rw [s2 j d hne] at this
                have e0 : debitOf j d (payEv t r n W x) = 0 := by
                  simp only [payEv, hm, Bool.false_eq_true, if_false, debitOf]
                  rcases hne with hj | hd
                  · simp [Ne.symm hj]
                  · simp [Ne.symm hd]
                simp only [payEv, hm, Bool.false_eq_true, if_false] at this e0 ⊢
                omega

/-- the events a paid record appends, one per valid recipient -/
def payBatch (t : Tenant) (r : Rec) : List Event :=
  (validRcpts r).map (payEv t r (validRcpts r).length (weightSum (validRcpts r)))

theorem tryPayout_paid (t : Tenant) (r : Rec) (f : Option Nat) (b b' : Bank) (c c' : Nat) (ev : List Event)
    (h : tryPayout t r f b c = .paid b' c' ev) :
    ev = payBatch t r ∧ ∀ j d, b' (.treasury j) d + debits (payBatch t r) j d = b (.treasury j) d := by
  unfold tryPayout at h
  split at h
  · cases h
  · obtain ⟨i1, i2⟩ := payRcpts_paid _ _ _ _ _ _ _ _ _ _ _ _ h
    exact ⟨by simpa [payBatch] using i1, i2⟩

theorem resOf_payEv (t : Tenant) (r : Rec) (n W : Nat) (x : Recipient) (k : Nat) : resOf k (payEv t r n W x) = none := by
  unfold payEv; split <;> rfl

theorem depositOf_payEv (t : Tenant) (r : Rec) (n W : Nat) (x : Recipient) (k : Nat) (d : Str) : depositOf k d (payEv t r n W x) = 0 := by
  unfold payEv; split <;> rfl

theorem resolvedIds_map_payEv (t : Tenant) (r : Rec) (n W : Nat) (vs : List Recipient) (k : Nat) :
    resolvedIds (vs.map (payEv t r n W)) k = [] := by
  induction vs with
  | nil => rfl
  | cons x xs ih =>
    simp only [resolvedIds, List.map_cons, List.filterMap_cons, resOf_payEv] at ih ⊢
    exact ih

theorem deposits_map_payEv (t : Tenant) (r : Rec) (n W : Nat) (vs : List Recipient) (k : Nat) (d : Str) :
    deposits (vs.map (payEv t r n W)) k d = 0 := by
  induction vs with
  | nil => rfl
  | cons x xs ih =>
    simp only [deposits, List.map_cons, List.sum_cons, depositOf_payEv] at ih ⊢
    omega

theorem paysFor_map_payEv (t : Tenant) (r : Rec) (n W : Nat) (vs : List Recipient) (k id : Nat) :
    paysFor (vs.map (payEv t r n W)) k id = if t.id = k ∧ r.id = id then vs.map (payEv t r n W) else [] := by
  induction vs with
  | nil => simp [paysFor]
  | cons x xs ih =>
    simp only [paysFor, List.map_cons, List.filter_cons] at ih ⊢
    by_cases hk : t.id = k ∧ r.id = id
    · simp only [hk, and_self, if_true] at ih ⊢
      rw [ih]
      have : isPayFor k id (payEv t r n W x) = true := by
        unfold payEv; split <;> simp [isPayFor, hk.1, hk.2]
      simp [this]
    · simp only [hk, if_false] at ih ⊢
      rw [ih]
      have : isPayFor k id (payEv t r n W x) = false := by
        unfold payEv
        split
        · simp only [isPayFor, Bool.and_eq_false_imp, beq_iff_eq]; intro h1; simp; intro h2; exact hk ⟨h1, h2⟩
        · simp only [isPayFor, Bool.and_eq_false_imp, beq_iff_eq]; intro h1; simp; intro h2; exact hk ⟨h1, h2⟩
      simp [this]

/-- what one tenant's settle loop writes to the ledger: it resolves a prefix of the queue, one resolution event per record, in order;
every treasury balance moves by exactly the debits it logs; it logs no deposit; and the payment events of a record id, when there
are any, are the one batch of a record of the prefix, accompanied by its `settled` event -/
theorem settleQ_ledger (h : Nat) (t : Tenant) (f : Option Nat) :
    ∀ (l : List Rec) (b : Bank) (c : Nat) (idx : List (Str × Nat)),
      ∃ pre, l = pre ++ (settleQ h t f l b c idx).remaining ∧
        resolvedIds (settleQ h t f l b c idx).events t.id = pre.map (·.id) ∧
        (∀ k, k ≠ t.id → resolvedIds (settleQ h t f l b c idx).events k = []) ∧
        (∀ j d, (settleQ h t f l b c idx).bank (.treasury j) d + debits (settleQ h t f l b c idx).events j d = b (.treasury j) d) ∧
        (∀ j d, deposits (settleQ h t f l b c idx).events j d = 0) ∧
        ((l.map (·.id)).Nodup → ∀ k id, paysFor (settleQ h t f l b c idx).events k id = [] ∨
          (k = t.id ∧ ∃ r ∈ pre, r.id = id ∧ paysFor (settleQ h t f l b c idx).events k id = payBatch t r ∧
            Event.settled t.id id h ∈ (settleQ h t f l b c idx).events)) := by
  intro l
  induction l with
  | nil => intro b c idx; exact ⟨[], by simp [settleQ]⟩
  | cons r rest ih =>
    intro b c idx
    unfold settleQ
    split
    · exact ⟨[], by simp⟩
    · split
      · exact ⟨[], by simp⟩
      · exact ⟨[], by simp⟩
      · obtain ⟨pre, i1, i2, i3, i4, i5, i6⟩ := ih b c (alErase idx r.req)
        refine ⟨r :: pre, by simp [← i1], ?_, ?_, ?_, ?_, ?_⟩
        · simp only [resolvedIds, List.filterMap_cons, resOf, if_true, List.map_cons] at i2 ⊢
          rw [i2]
        · intro k hk
          have := i3 k hk
          simp only [resolvedIds, List.filterMap_cons, resOf] at this ⊢
          simp [Ne.symm hk, this]
        · intro j d
          have := i4 j d
          simpa [debits, debitOf] using this
        · intro j d
          have := i5 j d
          simpa [deposits, depositOf] using this
        · intro hnd k id
          have hnd' : (rest.map (·.id)).Nodup := by
            simp only [List.map_cons, List.nodup_cons] at hnd; exact hnd.2
          rcases i6 hnd' k id with e | ⟨hk, x, hx, hxi, hp, hs⟩
          · left; simpa [paysFor, isPayFor] using e
          · right
            refine ⟨hk, x, by simp [hx], hxi, ?_, by simp [hs]⟩
            simpa [paysFor, isPayFor] using hp
      · rename_i b' c' ev hpaid
        obtain ⟨hev, hbank⟩ := tryPayout_paid _ _ _ _ _ _ _ _ hpaid
        obtain ⟨pre, i1, i2, i3, i4, i5, i6⟩ := ih b' c' (alErase idx r.req)
        refine ⟨r :: pre, by simp [← i1], ?_, ?_, ?_, ?_, ?_⟩
        · simp only [resolvedIds_append, hev, payBatch, resolvedIds_map_payEv, List.nil_append]
          simp only [resolvedIds, List.filterMap_cons, resOf, if_true, List.map_cons] at i2 ⊢
          rw [i2]
        · intro k hk
          have := i3 k hk
          simp only [resolvedIds_append, hev, payBatch, resolvedIds_map_payEv, List.nil_append]
          simp only [resolvedIds, List.filterMap_cons, resOf] at this ⊢
          simp [Ne.symm hk, this]
        · intro j d
          have h1 := i4 j d
          have h2 := hbank j d
          simp only [debits_append, hev]
          have e : debits (Event.settled t.id r.id h :: (settleQ h t f rest b' c' (alErase idx r.req)).events) j d =
              debits (settleQ h t f rest b' c' (alErase idx r.req)).events j d := by simp [debits, debitOf]
          rw [e]
          omega
        · intro j d
          have := i5 j d
          simp only [deposits_append, hev, payBatch, deposits_map_payEv, Nat.zero_add]
          simpa [deposits, depositOf] using this
        · intro hnd k id
          have hnd' : (rest.map (·.id)).Nodup := by
            simp only [List.map_cons, List.nodup_cons] at hnd; exact hnd.2
          have hnotin : ∀ x ∈ rest, x.id ≠ r.id := by
            simp only [List.map_cons, List.nodup_cons, List.mem_map, not_exists, not_and] at hnd
            intro x hx e; exact hnd.1 x hx e
          have hpre : ∀ x ∈ pre, x ∈ rest := by
            intro x hx; rw [i1]; simp [hx]
          have e : paysFor (Event.settled t.id r.id h :: (settleQ h t f rest b' c' (alErase idx r.req)).events) k id =
              paysFor (settleQ h t f rest b' c' (alErase idx r.req)).events k id := by simp [paysFor, isPayFor]
          simp only [paysFor_append, e, hev]
          have hb : paysFor (payBatch t r) k id = if t.id = k ∧ r.id = id then payBatch t r else [] := paysFor_map_payEv _ _ _ _ _ _ _
          rw [hb]
          by_cases hk : t.id = k ∧ r.id = id
          · obtain ⟨hk1, hk2⟩ := hk
            subst hk1 hk2
            rw [if_pos ⟨rfl, rfl⟩]
            rcases i6 hnd' t.id r.id with e2 | ⟨_, x, hx, hxi, _, _⟩
            · rw [e2, List.append_nil]
              by_cases hem : payBatch t r = []
              · left; exact hem
              · right
                exact ⟨rfl, r, by simp, rfl, rfl, by simp⟩
            · exact absurd hxi (hnotin x (hpre x hx))
          · simp only [hk, if_false, List.nil_append]
            rcases i6 hnd' k id with e2 | ⟨hk2, x, hx, hxi, hp, hs⟩
            · left; exact e2
            · right
              exact ⟨hk2, x, by simp [hx], hxi, hp, by simp [hs]⟩

/-! ### the ledger invariant -/

/-- what the log says about the store and the bank, in every reachable state -/
structure LInv (s : State) : Prop where
  /-- at most one resolution event per record -/
  nodup : ∀ t, (resolvedIds s.log t).Nodup
  /-- a resolved record is not pending -/
  gone : ∀ t id, id ∈ resolvedIds s.log t → ∀ r ∈ s.st.recs t, r.id ≠ id
  /-- a resolved id is at or below the id counter, so it is never handed out again -/
  below : ∀ t id, id ∈ resolvedIds s.log t → ∃ l, s.st.last t = some l ∧ id ≤ l
  /-- treasury balance = deposits - payouts -/
  treasury : ∀ k d, s.bank (.treasury k) d + debits s.log k d = deposits s.log k d
  /-- the payment events of a record are one batch, and its `settled` event is in the log -/
  pays : ∀ k id, paysFor s.log k id = [] ∨
    ∃ tn r h, tn.id = k ∧ r.id = id ∧ paysFor s.log k id = payBatch tn r ∧ Event.settled k id h ∈ s.log

theorem settled_mem_resolved (log : List Event) (k id h : Nat) (hm : Event.settled k id h ∈ log) : id ∈ resolvedIds log k := by
  unfold resolvedIds
  rw [List.mem_filterMap]
  exact ⟨_, hm, by simp [resOf]⟩

/-- the state after one tenant's settle loop -/
def afterQ (s : State) (t : Tenant) (r : SettleRes) : State :=
  { s with bank := r.bank,
           st := { s.st with recs := fupd s.st.recs t.id r.remaining, index := fupd s.st.index t.id r.index },
           log := s.log ++ r.events }

theorem settleAll_cons (h : Nat) (f : Option Nat) (t : Tenant) (ts : List Tenant) (s : State) (c : Nat) :
    settleAll h f (t :: ts) s c =
      (if (settleQ h t f (s.st.recs t.id) s.bank c (s.st.index t.id)).panic then
        ⟨afterQ s t (settleQ h t f (s.st.recs t.id) s.bank c (s.st.index t.id)), (settleQ h t f (s.st.recs t.id) s.bank c (s.st.index t.id)).calls,
          (settleQ h t f (s.st.recs t.id) s.bank c (s.st.index t.id)).settled.map (fun i => (t.id, i)),
          (settleQ h t f (s.st.recs t.id) s.bank c (s.st.index t.id)).droppedIds.map (fun i => (t.id, i)), true⟩
      else
        { settleAll h f ts (afterQ s t (settleQ h t f (s.st.recs t.id) s.bank c (s.st.index t.id))) (settleQ h t f (s.st.recs t.id) s.bank c (s.st.index t.id)).calls with
          settled := (settleQ h t f (s.st.recs t.id) s.bank c (s.st.index t.id)).settled.map (fun i => (t.id, i)) ++
            (settleAll h f ts (afterQ s t (settleQ h t f (s.st.recs t.id) s.bank c (s.st.index t.id))) (settleQ h t f (s.st.recs t.id) s.bank c (s.st.index t.id)).calls).settled,
          dropped := (settleQ h t f (s.st.recs t.id) s.bank c (s.st.index t.id)).droppedIds.map (fun i => (t.id, i)) ++
            (settleAll h f ts (afterQ s t (settleQ h t f (s.st.recs t.id) s.bank c (s.st.index t.id))) (settleQ h t f (s.st.recs t.id) s.bank c (s.st.index t.id)).calls).dropped }) := by
  rfl

theorem afterQ_sinv (h : Nat) (f : Option Nat) (t : Tenant) (s : State) (c : Nat) (hs : SInv s.st) :
    SInv (afterQ s t (settleQ h t f (s.st.recs t.id) s.bank c (s.st.index t.id))).st := by
  have hq := qinv_idx (hs t.id)
  have e : s.st.index t.id = (s.st.recs t.id).map entryOf := (hs t.id).idx
  obtain ⟨q1, _, _⟩ := settleQ_qinv h t f (s.st.last t.id) (s.st.recs t.id) s.bank c hq
  rw [← e] at q1
  intro t'
  unfold afterQ
  by_cases ht : t' = t.id
  · subst ht; simpa using q1
  · simp only [fupd_other _ _ _ _ ht]; exact hs t'

/-- one tenant's settle loop keeps the ledger invariant -/
theorem afterQ_linv (h : Nat) (f : Option Nat) (t : Tenant) (s : State) (c : Nat) (hs : SInv s.st) (hl : LInv s) :
    LInv (afterQ s t (settleQ h t f (s.st.recs t.id) s.bank c (s.st.index t.id))) := by
  obtain ⟨pre, p1, p2, p3, p4, p5, p6⟩ := settleQ_ledger h t f (s.st.recs t.id) s.bank c (s.st.index t.id)
  have hasc := (hs t.id).asc
  have hnd : ((s.st.recs t.id).map (·.id)).Nodup := pairwise_lt_nodup _ hasc
  have hnd2 := hnd
  rw [p1, List.map_append] at hnd2
  have hpre_nd : (pre.map (·.id)).Nodup := (List.nodup_append.mp hnd2).1
  have hdisj : ∀ a ∈ pre.map (·.id), ∀ b ∈ (settleQ h t f (s.st.recs t.id) s.bank c (s.st.index t.id)).remaining.map (·.id), a ≠ b :=
    (List.nodup_append.mp hnd2).2.2
  have hpre_mem : ∀ x ∈ pre, x ∈ s.st.recs t.id := by intro x hx; rw [p1]; simp [hx]
  have hrem_mem : ∀ x ∈ (settleQ h t f (s.st.recs t.id) s.bank c (s.st.index t.id)).remaining, x ∈ s.st.recs t.id := by
    intro x hx; rw [p1]; simp [hx]
  refine ⟨?_, ?_, ?_, ?_, ?_⟩
  · intro k
    simp only [afterQ, resolvedIds_append]
    by_cases hk : k = t.id
    · subst hk
      rw [p2, List.nodup_append]
      refine ⟨hl.nodup _, hpre_nd, ?_⟩
      intro a ha b hb hab
      subst hab
      obtain ⟨x, hx, hxi⟩ := List.mem_map.mp hb
      exact hl.gone _ _ ha x (hpre_mem x hx) hxi
    · rw [p3 k hk, List.append_nil]; exact hl.nodup k
  · intro k id hid r hr
    simp only [afterQ, resolvedIds_append] at hid hr
    by_cases hk : k = t.id
    · subst hk
      simp only [fupd_same] at hr
      rw [p2] at hid
      rcases List.mem_append.mp hid with h1 | h1
      · exact hl.gone _ _ h1 r (hrem_mem r hr)
      · intro e
        exact hdisj id h1 r.id (List.mem_map.mpr ⟨r, hr, rfl⟩) e.symm
    · rw [p3 k hk, List.append_nil] at hid
      simp only [fupd_other _ _ _ _ hk] at hr
      exact hl.gone _ _ hid r hr
  · intro k id hid
    simp only [afterQ, resolvedIds_append] at hid ⊢
    by_cases hk : k = t.id
    · subst hk
      rw [p2] at hid
      rcases List.mem_append.mp hid with h1 | h1
      · exact hl.below _ _ h1
      · obtain ⟨x, hx, hxi⟩ := List.mem_map.mp h1
        subst hxi
        exact (hs _).below x (hpre_mem x hx)
    · rw [p3 k hk, List.append_nil] at hid
      exact hl.below _ _ hid
  · intro k d
    simp only [afterQ, debits_append, deposits_append, p5, Nat.add_zero]
    have := p4 k d
    have := hl.treasury k d
    omega
  · intro k id
    simp only [afterQ, paysFor_append]
    rcases p6 hnd k id with e | ⟨hk, x, hx, hxi, hp, hsm⟩
    · rw [e, List.append_nil]
      rcases hl.pays k id with e0 | ⟨tn, r, hh, a1, a2, a3, a4⟩
      · left; exact e0
      · right; exact ⟨tn, r, hh, a1, a2, a3, by simp [a4]⟩
    · subst hk
      have hold : paysFor s.log t.id id = [] := by
        rcases hl.pays t.id id with e0 | ⟨tn, r, hh, a1, a2, a3, a4⟩
        · exact e0
        · exact absurd hxi (hl.gone _ _ (settled_mem_resolved _ _ _ _ a4) x (hpre_mem x hx))
      rw [hold, List.nil_append]
      by_cases hem : paysFor (settleQ h t f (s.st.recs t.id) s.bank c (s.st.index t.id)).events t.id id = []
      · left; exact hem
      · right; exact ⟨t, x, h, rfl, hxi, hp, by simp [hsm]⟩

theorem settleAll_inv (h : Nat) (f : Option Nat) (ts : List Tenant) :
    ∀ (s : State) (c : Nat), SInv s.st → LInv s → LInv (settleAll h f ts s c).st := by
  induction ts with
  | nil => intro s c _ hl; simpa [settleAll] using hl
  | cons t r ih =>
    intro s c hs hl
    rw [settleAll_cons]
    split
    · exact afterQ_linv h f t s c hs hl
    · exact ih _ _ (afterQ_sinv h f t s c hs) (afterQ_linv h f t s c hs hl)

/-! ### events that resolve nothing and move nothing -/

def isNeutral : Event → Bool
  | .filled .. => true
  | .recorded .. => true
  | _ => false

theorem neutral_projections (evs : List Event) (hn : ∀ e ∈ evs, isNeutral e = true) :
    (∀ t, resolvedIds evs t = []) ∧ (∀ k d, debits evs k d = 0) ∧ (∀ k d, deposits evs k d = 0) ∧ (∀ k id, paysFor evs k id = []) := by
  induction evs with
  | nil => simp
  | cons e r ih =>
    obtain ⟨i1, i2, i3, i4⟩ := ih (fun x hx => hn x (by simp [hx]))
    have he := hn e (by simp)
    cases e <;> simp only [isNeutral, Bool.false_eq_true] at he
    · refine ⟨fun t => ?_, fun k d => ?_, fun k d => ?_, fun k id => ?_⟩
      · have := i1 t; simpa [resolvedIds, resOf] using this
      · have := i2 k d; simpa [debits, debitOf] using this
      · have := i3 k d; simpa [deposits, depositOf] using this
      · have := i4 k id; simpa [paysFor, isPayFor] using this
    · refine ⟨fun t => ?_, fun k d => ?_, fun k d => ?_, fun k id => ?_⟩
      · have := i1 t; simpa [resolvedIds, resOf] using this
      · have := i2 k d; simpa [debits, debitOf] using this
      · have := i3 k d; simpa [deposits, depositOf] using this
      · have := i4 k id; simpa [paysFor, isPayFor] using this

theorem fillEvents_neutral (acc : List (Nft × Str)) (u h t : Nat) (rs : List Rec) : ∀ e ∈ fillEvents acc u h t rs, isNeutral e = true := by
  intro e he
  unfold fillEvents at he
  obtain ⟨r, _, hr⟩ := List.mem_filterMap.mp he
  split at hr
  · split at hr
    · cases hr; rfl
    · cases hr
  · cases hr

/-! ### the oracle end-blocker and the ledger -/

theorem rewardOne_bank (cl : List (Nat × Nat)) (vals : List Val) (W : Nat) (d : Str) (pool : Nat) (acc : RewardRes × Nat) (c : Nat × Nat) :
    (rewardOne cl vals W d pool acc c).1.bank = acc.1.bank := by
  unfold rewardOne
  simp only
  split <;> rfl

theorem rewardFold_bank (cl : List (Nat × Nat)) (vals : List Val) (W : Nat) (d : Str) (pool : Nat) (ws : List (Nat × Nat)) :
    ∀ acc : RewardRes × Nat, (ws.foldl (rewardOne cl vals W d pool) acc).1.bank = acc.1.bank := by
  induction ws with
  | nil => intro acc; rfl
  | cons c r ih => intro acc; simp only [List.foldl_cons]; rw [ih, rewardOne_bank]

theorem rewardDenom_treasury (winners : List (Nat × Nat)) (vals : List Val) (W : Nat) (rr : RewardRes) (d : Str) (k : Nat) (d' : Str) :
    (rewardDenom winners vals W rr d).bank (.treasury k) d' = rr.bank (.treasury k) d' := by
  unfold rewardDenom
  simp only
  split
  · rfl
  · split
    · rename_i b hb
      unfold Bank.send at hb
      split at hb
      · cases hb
      · cases hb
        simp [Bank.credit, Bank.debit, rewardFold_bank]
    · rw [rewardFold_bank]

theorem rewardWinners_treasury (s : State) (cl : List (Nat × Nat)) (ms : List Nat) (k : Nat) (d : Str) :
    (rewardWinners s cl ms).bank (.treasury k) d = s.bank (.treasury k) d := by
  unfold rewardWinners
  simp only
  split
  · rfl
  · have : ∀ (ds : List Str) (rr : RewardRes), (ds.foldl (rewardDenom (cl.filter (fun c => !ms.contains c.1)) s.vals (totalPower (cl.filter (fun c => !ms.contains c.1)))) rr).bank (.treasury k) d = rr.bank (.treasury k) d := by
      intro ds
      induction ds with
      | nil => intro rr; rfl
      | cons x xs ih => intro rr; simp only [List.foldl_cons]; rw [ih, rewardDenom_treasury]
    exact this s.poolDenoms ⟨s.bank, s.distr⟩

/-- the oracle end-blocker appends only `filled` events, moves no treasury balance, leaves the id counters alone and keeps the
ids of the pending records -/
theorem oracleEndBlock_ledger (s : State) :
    (∃ evs, (oracleEndBlock s).st.log = s.log ++ evs ∧ ∀ e ∈ evs, isNeutral e = true) ∧
    (∀ k d, (oracleEndBlock s).st.bank (.treasury k) d = s.bank (.treasury k) d) ∧
    (∀ t, ((oracleEndBlock s).st.st.recs t).map (·.id) = (s.st.recs t).map (·.id)) := by
  have hn : ∀ (acc : List (Nft × Str)) (u : Nat) (ts : List Nat) (st : SState),
      ∀ e ∈ ts.flatMap (fun t => fillEvents acc u s.h t (st.recs t)), isNeutral e = true := by
    intro acc u ts st e he
    obtain ⟨t, _, ht⟩ := List.mem_flatMap.mp he
    exact fillEvents_neutral _ _ _ _ _ e ht
  have hids : ∀ (acc : List (Nft × Str)) (u t : Nat), ((setRecipients s.st acc u).recs t).map (·.id) = (s.st.recs t).map (·.id) := by
    intro acc u t
    simp only [setRecipients, List.map_map]
    apply List.map_congr_left
    intro r _
    exact (fillRec_ids acc u r).1
  unfold oracleEndBlock
  by_cases ht : (s.h : Int) = voteEnd s.h s.os.params.votePeriod
  · by_cases hc : slashWindowClosing s.h s.os.params.votePeriod s.os.params.slashWindow = true
    · by_cases h0 : roundStart s.h s.os.params.votePeriod = 0
      · simp only [ht, hc, h0, bne_self_eq_false, Bool.false_eq_true, if_false, if_true]
        exact ⟨⟨[], by simp, by simp⟩, fun k d => rewardWinners_treasury _ _ _ k d, fun t => trivial⟩
      · simp only [ht, hc, h0, bne_self_eq_false, Bool.false_eq_true, if_false, if_true]
        exact ⟨⟨_, rfl, hn _ _ _ _⟩, fun k d => rewardWinners_treasury _ _ _ k d, fun t => hids _ _ t⟩
    · by_cases h0 : roundStart s.h s.os.params.votePeriod = 0
      · simp only [ht, hc, h0, bne_self_eq_false, Bool.false_eq_true, if_false, if_true]
        exact ⟨⟨[], by simp, by simp⟩, fun k d => rewardWinners_treasury _ _ _ k d, fun t => trivial⟩
      · simp only [ht, hc, h0, bne_self_eq_false, Bool.false_eq_true, if_false, if_true]
        exact ⟨⟨_, rfl, hn _ _ _ _⟩, fun k d => rewardWinners_treasury _ _ _ k d, fun t => hids _ _ t⟩
  · have : ((s.h : Int) != voteEnd s.h s.os.params.votePeriod) = true := by simpa using ht
    simp only [this, if_true]
    exact ⟨⟨[], by simp, by simp⟩, fun k d => trivial, fun t => trivial⟩

/-! ### every operation keeps the ledger invariant -/

/-- a transition that appends only neutral events, moves no treasury balance, keeps or extends the pending ids (new ones above
the old counter) and never lowers a counter keeps the ledger invariant -/
theorem linv_neutral (s s' : State) (hl : LInv s) (evs : List Event) (hlog : s'.log = s.log ++ evs) (hn : ∀ e ∈ evs, isNeutral e = true)
    (hb : ∀ k d, s'.bank (.treasury k) d = s.bank (.treasury k) d)
    (hrecs : ∀ t r, r ∈ s'.st.recs t → (∃ r0 ∈ s.st.recs t, r0.id = r.id) ∨ (∀ l, s.st.last t = some l → l < r.id))
    (hlast : ∀ t l, s.st.last t = some l → ∃ l', s'.st.last t = some l' ∧ l ≤ l') : LInv s' := by
  obtain ⟨n1, n2, n3, n4⟩ := neutral_projections evs hn
  refine ⟨?_, ?_, ?_, ?_, ?_⟩
  · intro t; rw [hlog, resolvedIds_append, n1, List.append_nil]; exact hl.nodup t
  · intro t id hid r hr
    rw [hlog, resolvedIds_append, n1, List.append_nil] at hid
    rcases hrecs t r hr with ⟨r0, hr0, e⟩ | hnew
    · rw [← e]; exact hl.gone t id hid r0 hr0
    · obtain ⟨l, hl1, hl2⟩ := hl.below t id hid
      have := hnew l hl1
      omega
  · intro t id hid
    rw [hlog, resolvedIds_append, n1, List.append_nil] at hid
    obtain ⟨l, hl1, hl2⟩ := hl.below t id hid
    obtain ⟨l', h1, h2⟩ := hlast t l hl1
    exact ⟨l', h1, by omega⟩
  · intro k d
    rw [hlog, debits_append, deposits_append, n2, n3, hb]
    simpa using hl.treasury k d
  · intro k id
    rw [hlog, paysFor_append, n4, List.append_nil]
    rcases hl.pays k id with e | ⟨tn, r, h, a1, a2, a3, a4⟩
    · left; exact e
    · right; exact ⟨tn, r, h, a1, a2, a3, by simp [a4]⟩

theorem linv_same (s s' : State) (hl : LInv s) (hlog : s'.log = s.log) (hb : ∀ k d, s'.bank (.treasury k) d = s.bank (.treasury k) d)
    (hrecs : s'.st.recs = s.st.recs) (hlast : s'.st.last = s.st.last) : LInv s' :=
  linv_neutral s s' hl [] (by simp [hlog]) (by simp) hb (fun t r hr => Or.inl ⟨r, by rw [← hrecs]; exact hr, rfl⟩)
    (fun t l h => ⟨l, by rw [hlast]; exact h, Nat.le_refl _⟩)

theorem createUtxr_linv (s : State) (hl : LInv s) (t : Nat) (req : Str) (amt : Int) (d : Str) (nft : Nft) (c : Nat) (rc : List Recipient)
    (id : Nat) (hid : (createUtxr s.st t req amt d nft c rc).id = some id) :
    LInv { s with st := (createUtxr s.st t req amt d nft c rc).st, log := s.log ++ [.recorded t id s.h] } := by
  refine linv_neutral s { s with st := (createUtxr s.st t req amt d nft c rc).st, log := s.log ++ [.recorded t id s.h] } hl [.recorded t id s.h] rfl (by simp [isNeutral]) (fun k d => rfl) ?_ ?_
  · intro t' r hr
    by_cases hh : alHas (s.st.index t) req = true
    · simp [createUtxr, hh] at hid
    · simp only [createUtxr, hh, Bool.false_eq_true, if_false] at hr
      by_cases ht : t' = t
      · subst ht
        simp only [fupd_same, List.mem_append, List.mem_singleton] at hr
        rcases hr with hr | hr
        · exact Or.inl ⟨r, hr, rfl⟩
        · right
          intro l hl1
          subst hr
          simp [nextId, hl1]
      · simp only [fupd_other _ _ _ _ ht] at hr
        exact Or.inl ⟨r, hr, rfl⟩
  · intro t' l hl1
    by_cases hh : alHas (s.st.index t) req = true
    · simp [createUtxr, hh] at hid
    · simp only [createUtxr, hh, Bool.false_eq_true, if_false]
      by_cases ht : t' = t
      · subst ht
        simp only [fupd_same]
        exact ⟨_, rfl, by simp [nextId, hl1]⟩
      · simp only [fupd_other _ _ _ _ ht]
        exact ⟨l, hl1, Nat.le_refl _⟩

theorem cancel_linv (s : State) (hs : SInv s.st) (hl : LInv s) (a : String) (t : Nat) (req : Str) : LInv (cancel s a t req).st := by
  unfold cancel
  split
  · rename_i id hp
    obtain ⟨_, hg⟩ := cancelPlan_some hp
    have hq := hs t
    rw [hq.idx, alGet_map_entry] at hg
    -- the cancelled id is pending
    have hpend : ∃ r ∈ s.st.recs t, r.id = id := by
      cases hf : (s.st.recs t).find? (fun r => r.req == req) with
      | none => simp [hf] at hg
      | some r =>
        simp only [hf, Option.map_some, Option.some.injEq] at hg
        exact ⟨r, List.mem_of_find?_eq_some hf, hg⟩
    obtain ⟨r0, hr0, hr0id⟩ := hpend
    have hfresh : id ∉ resolvedIds s.log t := fun hin => hl.gone t id hin r0 hr0 hr0id
    have e1 : ∀ k, resolvedIds [Event.cancelled t id s.h] k = if t = k then [id] else [] := by
      intro k; by_cases hk : t = k <;> simp [resolvedIds, resOf, hk]
    refine ⟨?_, ?_, ?_, ?_, ?_⟩
    · intro k
      simp only [resolvedIds_append, e1]
      split
      · rename_i hk; subst hk
        rw [List.nodup_append]
        exact ⟨hl.nodup _, by simp, by intro a ha b hb hab; simp at hb; subst hb; subst hab; exact hfresh ha⟩
      · rw [List.append_nil]; exact hl.nodup k
    · intro k id' hid r hr
      simp only [resolvedIds_append, e1] at hid
      by_cases hk : k = t
      · subst hk
        simp only [fupd_same, List.mem_filter, bne_iff_ne, ne_eq] at hr
        simp only [if_true, List.mem_append, List.mem_singleton] at hid
        rcases hid with h1 | h1
        · exact hl.gone _ _ h1 r hr.1
        · subst h1; exact hr.2
      · simp only [fupd_other _ _ _ _ hk] at hr
        have : ¬ t = k := fun e => hk e.symm
        simp only [this, if_false, List.append_nil] at hid
        exact hl.gone _ _ hid r hr
    · intro k id' hid
      simp only [resolvedIds_append, e1] at hid
      by_cases hk : k = t
      · subst hk
        simp only [if_true, List.mem_append, List.mem_singleton] at hid
        rcases hid with h1 | h1
        · exact hl.below _ _ h1
        · subst h1; rw [← hr0id]; exact hq.below r0 hr0
      · have : ¬ t = k := fun e => hk e.symm
        simp only [this, if_false, List.append_nil] at hid
        exact hl.below _ _ hid
    · intro k d
      simp only [debits_append, deposits_append]
      have : debits [Event.cancelled t id s.h] k d = 0 ∧ deposits [Event.cancelled t id s.h] k d = 0 := by
        simp [debits, deposits, debitOf, depositOf]
      rw [this.1, this.2]
      simpa using hl.treasury k d
    · intro k id'
      simp only [paysFor_append]
      have : paysFor [Event.cancelled t id s.h] k id' = [] := by simp [paysFor, isPayFor]
      rw [this, List.append_nil]
      rcases hl.pays k id' with e | ⟨tn, r, h, a1, a2, a3, a4⟩
      · left; exact e
      · right; exact ⟨tn, r, h, a1, a2, a3, by simp [a4]⟩
  · exact hl

theorem send_to_treasury (b b' : Bank) (src : Holder) (t : Nat) (d : Str) (amt : Nat) (hw : ∀ j, src ≠ .treasury j)
    (h : b.send src (.treasury t) d amt = some b') (k : Nat) (d' : Str) :
    b' (.treasury k) d' = b (.treasury k) d' + (if t = k ∧ d = d' then amt else 0) := by
  unfold Bank.send at h
  split at h
  · cases h
  · cases h
    have e1 : (Holder.treasury k = src) = False := by simp; exact fun e => hw k e.symm
    simp only [Bank.credit, Bank.debit, e1, false_and, if_false, Holder.treasury.injEq]
    by_cases hk : t = k ∧ d = d'
    · obtain ⟨rfl, rfl⟩ := hk; simp
    · have : ¬ (k = t ∧ d' = d) := fun ⟨a, b⟩ => hk ⟨a.symm, b.symm⟩
      simp [hk, this]

theorem deposit_linv (s : State) (hl : LInv s) (a : String) (t : Nat) (amt : Option Int) (d : Str) : LInv (deposit s a t amt d).st := by
  unfold deposit
  split
  · rename_i p hp
    obtain ⟨acc, x, tn, _, _, _, _, _, _, hsend, hp1⟩ := depositPlan_some hp
    have hb := send_to_treasury _ _ _ _ _ _ (by intro j; simp) hsend
    have e1 : ∀ k, resolvedIds [Event.deposited t d p.1] k = [] := by intro k; simp [resolvedIds, resOf]
    refine ⟨?_, ?_, ?_, ?_, ?_⟩
    · intro k; simp only [resolvedIds_append, e1, List.append_nil]; exact hl.nodup k
    · intro k id hid r hr
      simp only [resolvedIds_append, e1, List.append_nil] at hid
      exact hl.gone k id hid r hr
    · intro k id hid
      simp only [resolvedIds_append, e1, List.append_nil] at hid
      exact hl.below k id hid
    · intro k d'
      simp only [debits_append, deposits_append]
      have e2 : debits [Event.deposited t d p.1] k d' = 0 := by simp [debits, debitOf]
      have e3 : deposits [Event.deposited t d p.1] k d' = if t = k ∧ d = d' then p.1 else 0 := by simp [deposits, depositOf]
      rw [e2, e3, hb k d', hp1]
      have := hl.treasury k d'
      omega
    · intro k id
      simp only [paysFor_append]
      have : paysFor [Event.deposited t d p.1] k id = [] := by simp [paysFor, isPayFor]
      rw [this, List.append_nil]
      rcases hl.pays k id with e | ⟨tn, r, h, a1, a2, a3, a4⟩
      · left; exact e
      · right; exact ⟨tn, r, h, a1, a2, a3, by simp [a4]⟩
  · exact hl

theorem blockStep_linv (s : State) (hs : SInv s.st) (hl : LInv s) : LInv (blockStep s).st := by
  obtain ⟨⟨evs, h1, h2⟩, h3, h4⟩ := oracleEndBlock_ledger s
  have hlast := (oracleEndBlock_tenants s).2.2.1
  have hl1 : LInv (oracleEndBlock s).st := by
    apply linv_neutral s _ hl evs h1 h2 h3
    · intro t r hr
      left
      have : r.id ∈ ((oracleEndBlock s).st.st.recs t).map (·.id) := List.mem_map.mpr ⟨r, hr, rfl⟩
      rw [h4 t] at this
      obtain ⟨r0, hr0, e⟩ := List.mem_map.mp this
      exact ⟨r0, hr0, e⟩
    · intro t l hh
      exact ⟨l, by rw [hlast]; exact hh, Nat.le_refl _⟩
  have hl2 := settleAll_inv s.h s.faultAt (oracleEndBlock s).st.st.tenants (oracleEndBlock s).st 0 (oracleEndBlock_sinv s hs) hl1
  unfold blockStep
  exact ⟨hl2.nodup, hl2.gone, hl2.below, hl2.treasury, hl2.pays⟩

/-- every operation keeps the ledger invariant -/
theorem step_linv (H : Str → Str) (s : State) (op : Op) (hs : SInv s.st) (hl : LInv s) : LInv (step H s op).st := by
  cases op
  case createTenant a d p mc => simp only [step, ofS, createTenant]; split <;> first | exact hl | exact linv_same s _ hl rfl (fun _ _ => rfl) rfl rfl
  case deposit a t amt d => exact deposit_linv s hl a t amt d
  case record a t r amt d ch c tok =>
    simp only [step, ofS, record]
    split
    · rename_i p hp
      obtain ⟨_, amount, _, _, _, _, _, _, _, _, _, _, hid, hst⟩ := recordPlan_some hp
      simp only [hst]
      exact createUtxr_linv s hl _ _ _ _ _ _ _ _ hid
    · exact hl
  case cancel a t r => exact cancel_linv s hs hl a t r
  case addAdmin a t n => simp only [step, ofS, addAdmin]; split <;> first | exact hl | exact linv_same s _ hl rfl (fun _ _ => rfl) rfl rfl
  case removeAdmin a t n => simp only [step, ofS, removeAdmin]; split <;> first | exact hl | exact linv_same s _ hl rfl (fun _ _ => rfl) rfl rfl
  case setPeriod a t p => simp only [step, ofS, setPeriod]; split <;> first | exact hl | exact linv_same s _ hl rfl (fun _ _ => rfl) rfl rfl
  case inject t req amt d nft created rc =>
    simp only [step]
    split
    · rename_i id hid
      exact createUtxr_linv s hl _ _ _ _ _ _ _ _ hid
    · exact hl
  case fund a amt d =>
    simp only [step]
    split
    · exact hl
    · split
      · rename_i acc _
        exact linv_same s _ hl rfl (fun k d' => credit_treasury s.bank (.acct acc) d amt.toNat (by intro j; simp) k d') rfl rfl
      · exact hl
  case fundPool amt d =>
    simp only [step]
    split
    · exact hl
    · exact linv_same s _ hl rfl (fun k d' => credit_treasury s.bank .pool d amt.toNat (by intro j; simp) k d') rfl rfl
  case setOwner c t o => exact linv_same s _ hl rfl (fun _ _ => rfl) rfl rfl
  case prevote f v hh r =>
    simp only [step, ofS, prevote]
    repeat' split
    all_goals first | exact hl | exact linv_same s _ hl rfl (fun _ _ => rfl) rfl rfl
  case vote f v salt r vds =>
    simp only [step, ofS, vote]
    repeat' split
    all_goals first | exact hl | exact linv_same s _ hl rfl (fun _ _ => rfl) rfl rfl
  case consent v f =>
    simp only [step, ofS, consent]
    repeat' split
    all_goals first | exact hl | exact linv_same s _ hl rfl (fun _ _ => rfl) rfl rfl
  case setOParams vp thr frac w m => simp only [step]; split <;> first | exact hl | exact linv_same s _ hl rfl (fun _ _ => rfl) rfl rfl
  case setSParams fee chains => simp only [step]; split <;> first | exact hl | exact linv_same s _ hl rfl (fun _ _ => rfl) rfl rfl
  case setVal i power b j pb => simp only [step]; split <;> first | exact hl | exact linv_same s _ hl rfl (fun _ _ => rfl) rfl rfl
  case failAt k => exact linv_same s _ hl rfl (fun _ _ => rfl) rfl rfl
  case block => exact blockStep_linv s hs hl
  case dump => exact hl

theorem init_linv (pr : Nat) (c : Bool) : LInv (initState pr c) := by
  refine ⟨?_, ?_, ?_, ?_, ?_⟩ <;> simp [initState]

/-- the ledger invariant holds in every state reachable from genesis -/
theorem reachable_linv (H : Str → Str) (pr : Nat) (c : Bool) (ops : List Op) : LInv (run H (initState pr c) ops) := by
  have gen : ∀ (s : State), SInv s.st → LInv s → LInv (run H s ops) := by
    induction ops with
    | nil => intro s _ h; exact h
    | cons op r ih => intro s hs hl; exact ih _ (step_sinv H s op hs) (step_linv H s op hs hl)
  exact gen _ (init_sinv pr c) (init_linv pr c)

/-! ### no record is lost: every id handed out is pending or resolved -/

/-- ids are handed out contiguously from 0, and every id at or below the counter is either pending or has a resolution event -/
def CInv (s : State) : Prop :=
  ∀ t l, s.st.last t = some l → ∀ id, id ≤ l → (∃ r ∈ s.st.recs t, r.id = id) ∨ id ∈ resolvedIds s.log t

theorem cinv_same (s s' : State) (hc : CInv s) (hlog : s'.log = s.log) (hrecs : s'.st.recs = s.st.recs) (hlast : s'.st.last = s.st.last) : CInv s' := by
  intro t l hl id hid
  rw [hlog, hrecs]
  rw [hlast] at hl
  exact hc t l hl id hid

theorem createUtxr_cinv (s : State) (hc : CInv s) (t : Nat) (req : Str) (amt : Int) (d : Str) (nft : Nft) (c : Nat) (rc : List Recipient)
    (id : Nat) (hid : (createUtxr s.st t req amt d nft c rc).id = some id) :
    CInv { s with st := (createUtxr s.st t req amt d nft c rc).st, log := s.log ++ [.recorded t id s.h] } := by
  have e1 : ∀ k, resolvedIds [Event.recorded t id s.h] k = [] := by intro k; simp [resolvedIds, resOf]
  by_cases hh : alHas (s.st.index t) req = true
  · simp [createUtxr, hh] at hid
  · intro t' l hl id' hid'
    simp only [createUtxr, hh, Bool.false_eq_true, if_false, resolvedIds_append, e1, List.append_nil] at hl ⊢
    by_cases ht : t' = t
    · subst ht
      simp only [fupd_same, Option.some.injEq] at hl ⊢
      cases hlast : s.st.last t' with
      | none =>
        simp only [nextId, hlast] at hl ⊢
        subst hl
        left
        exact ⟨{ id := 0, req := req, amount := amt, denom := d, nft := nft, created := c, rcpt := rc }, by simp, by simp; omega⟩
      | some l0 =>
        simp only [nextId, hlast] at hl ⊢
        subst hl
        by_cases hle : id' ≤ l0
        · rcases hc t' l0 hlast id' hle with ⟨r, hr, hri⟩ | hres
          · left; exact ⟨r, by simp [hr], hri⟩
          · right; exact hres
        · left
          exact ⟨{ id := l0 + 1, req := req, amount := amt, denom := d, nft := nft, created := c, rcpt := rc }, by simp, by simp; omega⟩
    · simp only [fupd_other _ _ _ _ ht] at hl ⊢
      exact hc t' l hl id' hid'

theorem cancel_cinv (s : State) (hc : CInv s) (a : String) (t : Nat) (req : Str) : CInv (cancel s a t req).st := by
  unfold cancel
  split
  · rename_i id hp
    intro t' l hl id' hid'
    simp only at hl
    rcases hc t' l hl id' hid' with ⟨r, hr, hri⟩ | hres
    · by_cases ht : t' = t
      · subst ht
        by_cases he : id' = id
        · right
          subst he
          simp [resolvedIds, resOf]
        · left
          simp only [fupd_same]
          exact ⟨r, by simp [hr, hri, he], hri⟩
      · left
        simp only [fupd_other _ _ _ _ ht]
        exact ⟨r, hr, hri⟩
    · right; simp [hres]
  · exact hc

theorem afterQ_cinv (h : Nat) (f : Option Nat) (t : Tenant) (s : State) (c : Nat) (hc : CInv s) :
    CInv (afterQ s t (settleQ h t f (s.st.recs t.id) s.bank c (s.st.index t.id))) := by
  obtain ⟨pre, p1, p2, p3, _⟩ := settleQ_ledger h t f (s.st.recs t.id) s.bank c (s.st.index t.id)
  intro t' l hl id hid
  simp only [afterQ] at hl ⊢
  rcases hc t' l hl id hid with ⟨r, hr, hri⟩ | hres
  · by_cases ht : t' = t.id
    · subst ht
      simp only [fupd_same, resolvedIds_append, p2]
      rw [p1] at hr
      rcases List.mem_append.mp hr with h1 | h1
      · right
        exact List.mem_append.mpr (Or.inr (List.mem_map.mpr ⟨r, h1, hri⟩))
      · left; exact ⟨r, h1, hri⟩
    · left
      simp only [fupd_other _ _ _ _ ht]
      exact ⟨r, hr, hri⟩
  · right; simp [hres]

theorem settleAll_cinv (h : Nat) (f : Option Nat) (ts : List Tenant) :
    ∀ (s : State) (c : Nat), CInv s → CInv (settleAll h f ts s c).st := by
  induction ts with
  | nil => intro s c hc; simpa [settleAll] using hc
  | cons t r ih =>
    intro s c hc
    rw [settleAll_cons]
    split
    · exact afterQ_cinv h f t s c hc
    · exact ih _ _ (afterQ_cinv h f t s c hc)

theorem blockStep_cinv (s : State) (hc : CInv s) : CInv (blockStep s).st := by
  obtain ⟨⟨evs, h1, h2⟩, _, h4⟩ := oracleEndBlock_ledger s
  have hlast := (oracleEndBlock_tenants s).2.2.1
  have hc1 : CInv (oracleEndBlock s).st := by
    intro t l hl id hid
    rw [hlast] at hl
    rcases hc t l hl id hid with ⟨r, hr, hri⟩ | hres
    · left
      have : id ∈ (s.st.recs t).map (·.id) := List.mem_map.mpr ⟨r, hr, hri⟩
      rw [← h4 t] at this
      obtain ⟨r', hr', e⟩ := List.mem_map.mp this
      exact ⟨r', hr', e⟩
    · right; rw [h1]; simp [hres]
  have hc2 := settleAll_cinv s.h s.faultAt (oracleEndBlock s).st.st.tenants (oracleEndBlock s).st 0 hc1
  unfold blockStep
  exact hc2

theorem step_cinv (H : Str → Str) (s : State) (op : Op) (hc : CInv s) : CInv (step H s op).st := by
  cases op
  case createTenant a d p mc => simp only [step, ofS, createTenant]; split <;> first | exact hc | exact cinv_same s _ hc rfl rfl rfl
  case deposit a t amt d =>
    simp only [step, ofS, deposit]
    split
    · intro t' l hl id hid
      rcases hc t' l hl id hid with h1 | h1
      · left; exact h1
      · right; simp [h1]
    · exact hc
  case record a t r amt d ch c tok =>
    simp only [step, ofS, record]
    split
    · rename_i p hp
      obtain ⟨_, amount, _, _, _, _, _, _, _, _, _, _, hid, hst⟩ := recordPlan_some hp
      simp only [hst]
      exact createUtxr_cinv s hc _ _ _ _ _ _ _ _ hid
    · exact hc
  case cancel a t r => exact cancel_cinv s hc a t r
  case addAdmin a t n => simp only [step, ofS, addAdmin]; split <;> first | exact hc | exact cinv_same s _ hc rfl rfl rfl
  case removeAdmin a t n => simp only [step, ofS, removeAdmin]; split <;> first | exact hc | exact cinv_same s _ hc rfl rfl rfl
  case setPeriod a t p => simp only [step, ofS, setPeriod]; split <;> first | exact hc | exact cinv_same s _ hc rfl rfl rfl
  case inject t req amt d nft created rc =>
    simp only [step]
    split
    · rename_i id hid
      exact createUtxr_cinv s hc _ _ _ _ _ _ _ _ hid
    · exact hc
  case fund a amt d =>
    simp only [step]
    split
    · exact hc
    · split
      · exact cinv_same s _ hc rfl rfl rfl
      · exact hc
  case fundPool amt d => simp only [step]; split <;> first | exact hc | exact cinv_same s _ hc rfl rfl rfl
  case setOwner c t o => exact cinv_same s _ hc rfl rfl rfl
  case prevote f v hh r =>
    simp only [step, ofS, prevote]
    repeat' split
    all_goals first | exact hc | exact cinv_same s _ hc rfl rfl rfl
  case vote f v salt r vds =>
    simp only [step, ofS, vote]
    repeat' split
    all_goals first | exact hc | exact cinv_same s _ hc rfl rfl rfl
  case consent v f =>
    simp only [step, ofS, consent]
    repeat' split
    all_goals first | exact hc | exact cinv_same s _ hc rfl rfl rfl
  case setOParams vp thr frac w m => simp only [step]; split <;> first | exact hc | exact cinv_same s _ hc rfl rfl rfl
  case setSParams fee chains => simp only [step]; split <;> first | exact hc | exact cinv_same s _ hc rfl rfl rfl
  case setVal i power b j pb => simp only [step]; split <;> first | exact hc | exact cinv_same s _ hc rfl rfl rfl
  case failAt k => exact cinv_same s _ hc rfl rfl rfl
  case block => exact blockStep_cinv s hc
  case dump => exact hc

theorem run_cinv (H : Str → Str) (ops : List Op) : ∀ s, CInv s → CInv (run H s ops) := by
  induction ops with
  | nil => intro s h; exact h
  | cons op r ih => intro s h; exact ih _ (step_cinv H s op h)

theorem reachable_cinv (H : Str → Str) (pr : Nat) (c : Bool) (ops : List Op) : CInv (run H (initState pr c) ops) :=
  run_cinv H ops _ (by intro t l hl; simp [initState] at hl)

/-! ### what a batch adds up to -/

def evAmount : Event → Nat
  | .paid _ _ _ _ a => a
  | .minted _ _ _ _ a => a
  | _ => 0

/-- the true (unwrapped) weight sum -/
def weightTotal (rs : List Recipient) : Nat := (rs.map (·.weight)).sum

theorem weightSum_eq (rs : List Recipient) : weightSum rs = weightTotal rs % 4294967296 := by
  unfold weightSum weightTotal
  have : ∀ (l : List Recipient) (a : Nat), l.foldl (fun acc x => acc + x.weight) a = a + (l.map (·.weight)).sum := by
    intro l
    induction l with
    | nil => intro a; simp
    | cons x xs ih => intro a; simp only [List.foldl_cons, List.map_cons, List.sum_cons]; rw [ih]; omega
  rw [this]; simp

theorem evAmount_payEv (t : Tenant) (r : Rec) (n W : Nat) (x : Recipient) : evAmount (payEv t r n W x) = (share r.amount n W x.weight).toNat := by
  unfold payEv; split <;> rfl

/-- **the recipients of a paid record together receive at most the recorded amount**, each floor(amount * w / W) (an equal split
when every weight is 0), provided the 32-bit weight sum did not wrap -/
theorem batch_total_le (t : Tenant) (r : Rec) (amount : Nat) (ha : r.amount = (amount : Int)) (hw : weightTotal (validRcpts r) < 4294967296) :
    ((payBatch t r).map evAmount).sum ≤ amount := by
  unfold payBatch
  rw [List.map_map]
  have hW : weightSum (validRcpts r) = weightTotal (validRcpts r) := by rw [weightSum_eq]; exact Nat.mod_eq_of_lt hw
  have e : (evAmount ∘ payEv t r (validRcpts r).length (weightSum (validRcpts r))) =
      fun x => if weightTotal (validRcpts r) = 0 then amount / (validRcpts r).length else amount * x.weight / weightTotal (validRcpts r) := by
    funext x
    simp only [Function.comp, evAmount_payEv, ha, share_toNat, hW]
  rw [e]
  by_cases h0 : weightTotal (validRcpts r) = 0
  · simp only [h0, if_true]
    have : ∀ (l : List Recipient) (c : Nat), (l.map (fun _ => c)).sum = l.length * c := by
      intro l c
      induction l with
      | nil => simp
      | cons x xs ih => simp only [List.map_cons, List.sum_cons, List.length_cons, ih, Nat.add_mul]; omega
    rw [this]
    exact equal_shares_le amount (validRcpts r).length
  · simp only [h0, if_false]
    have := weighted_shares_le amount (weightTotal (validRcpts r)) ((validRcpts r).map (·.weight)) (by omega) (Nat.le_refl _)
    rw [List.map_map] at this
    exact this

/-! ### what the recipients receive -/

def creditOf (w : Holder) (d : Str) : Event → Nat
  | .paid _ _ who d' amt => if who = w ∧ d' = d then amt else 0
  | .minted _ _ who d' amt => if who = w ∧ d' = d then amt else 0
  | _ => 0

def credits (log : List Event) (w : Holder) (d : Str) : Nat := (log.map (creditOf w d)).sum

theorem send_from_treasury_other (b b' : Bank) (k : Nat) (who : Holder) (d : Str) (amt : Nat)
    (h : b.send (.treasury k) who d amt = some b') (w : Holder) (hw : ∀ j, w ≠ .treasury j) (d' : Str) :
    b' w d' = b w d' + (if who = w ∧ d = d' then amt else 0) := by
  unfold Bank.send at h
  split at h
  · cases h
  · cases h
    have e1 : (w = Holder.treasury k) = False := by simp; exact hw k
    simp only [Bank.credit, Bank.debit, e1, false_and, if_false]
    by_cases hk : who = w ∧ d = d'
    · obtain ⟨rfl, rfl⟩ := hk; simp
    · have : ¬ (w = who ∧ d' = d) := fun ⟨a, b⟩ => hk ⟨a.symm, b.symm⟩
      simp [hk, this]

/-- every holder that is not a treasury ends a payout with exactly its balance plus the events addressed to it -/
theorem payRcpts_credits (t : Tenant) (r : Rec) (f : Option Nat) (n W : Nat) :
    ∀ (vs : List Recipient) (b : Bank) (c : Nat) (ev : List Event) (b' : Bank) (c' : Nat) (ev' : List Event),
      payRcpts t r f n W vs b c ev = .paid b' c' ev' →
      ∀ w d, (∀ j, w ≠ .treasury j) → b' w d = b w d + credits (vs.map (payEv t r n W)) w d := by
  intro vs
  induction vs with
  | nil =>
    intro b c ev b' c' ev' h w d _
    simp only [payRcpts, PayOutcome.paid.injEq] at h
    obtain ⟨rfl, _, _⟩ := h
    simp [credits]
  | cons x xs ih =>
    intro b c ev b' c' ev' h w d hw
    unfold payRcpts at h
    simp only at h
    by_cases hm : t.mint = true
    · simp only [hm, if_true] at h
      split at h
      · cases h
      · split at h
        · cases h
        · have := ih _ _ _ _ _ _ h w d hw
          rw [this]
          simp only [credits, List.map_cons, List.sum_cons, payEv, hm, if_true, creditOf, Bank.credit]
          by_cases hk : holderOfHex x.addr = w ∧ mintDenom t = d
          · obtain ⟨rfl, rfl⟩ := hk; simp; omega
          · have : ¬ (w = holderOfHex x.addr ∧ d = mintDenom t) := fun ⟨a, b⟩ => hk ⟨a.symm, b.symm⟩
            simp [hk, this]
    · simp only [hm, Bool.false_eq_true, if_false] at h
      split at h
      · split at h
        · cases h
        · split at h
          · cases h
          · split at h
            · cases h
            · rename_i bb hs
              have h1 := ih _ _ _ _ _ _ h w d hw
              have h2 := send_from_treasury_other _ _ _ _ _ _ hs w hw d
              rw [h1, h2]
              simp only [credits, List.map_cons, List.sum_cons, payEv, hm, Bool.false_eq_true, if_false, creditOf]
              omega
      · split at h
        · cases h
        · split at h
          · cases h
          · split at h
            · cases h
            · rename_i bb hs
              have h1 := ih _ _ _ _ _ _ h w d hw
              have h2 := send_from_treasury_other _ _ _ _ _ _ hs w hw d
              rw [h1, h2]
              simp only [credits, List.map_cons, List.sum_cons, payEv, hm, Bool.false_eq_true, if_false, creditOf]
              omega

theorem tryPayout_credits (t : Tenant) (r : Rec) (f : Option Nat) (b b' : Bank) (c c' : Nat) (ev : List Event)
    (h : tryPayout t r f b c = .paid b' c' ev) (w : Holder) (d : Str) (hw : ∀ j, w ≠ .treasury j) :
    b' w d = b w d + credits (payBatch t r) w d := by
  unfold tryPayout at h
  split at h
  · cases h
  · exact payRcpts_credits _ _ _ _ _ _ _ _ _ _ _ _ h w d hw

/-- for a native-currency tenant the treasury debit of a batch is exactly the sum of the amounts in its events -/
theorem native_batch_debit (t : Tenant) (r : Rec) (hm : t.mint = false) :
    debits (payBatch t r) t.id r.denom = ((payBatch t r).map evAmount).sum := by
  unfold payBatch debits
  generalize validRcpts r = vs
  generalize List.length vs = n
  generalize weightSum vs = W
  induction vs with
  | nil => rfl
  | cons x xs ih =>
    simp only [List.map_cons, List.sum_cons, ih]
    simp [payEv, hm, debitOf, evAmount]

end Settlus
