/- membership in the de-duplicated list of NFTs to verify -/
import SettlusModel.Oracle
namespace Settlus

theorem mem_dedupNfts (l acc : List Nft) (n : Nft) : n ∈ dedupNfts l acc ↔ n ∈ l ∨ n ∈ acc := by
  induction l generalizing acc with
  | nil => simp [dedupNfts]
  | cons a r ih =>
    unfold dedupNfts
    by_cases hc : acc.contains a = true
    · simp only [hc, if_true]
      rw [ih]
      have ha : a ∈ acc := by simpa using hc
      constructor
      · rintro (h | h)
        · exact Or.inl (List.mem_cons_of_mem _ h)
        · exact Or.inr h
      · rintro (h | h)
        · rcases List.mem_cons.mp h with e | e
          · subst e; exact Or.inr ha
          · exact Or.inl e
        · exact Or.inr h
    · simp only [hc, Bool.false_eq_true, if_false]
      rw [ih]
      constructor
      · rintro (h | h)
        · exact Or.inl (List.mem_cons_of_mem _ h)
        · rcases List.mem_cons.mp h with e | e
          · subst e; exact Or.inl (List.mem_cons_self)
          · exact Or.inr e
      · rintro (h | h)
        · rcases List.mem_cons.mp h with e | e
          · subst e; exact Or.inr (List.mem_cons_self)
          · exact Or.inl e
        · exact Or.inr (List.mem_cons_of_mem _ h)

end Settlus
