/-
  Arithmetic lemmas: maturity test, round grid, slash-window closing, and their agreement with the
  expressions translated from the Go source (Generated/Arith.lean).
-/
import SettlusModel.Oracle
import SettlusModel.Generated.Arith
namespace Settlus

/-! ### maturity -/

theorem mature_iff (c p h : Nat) (hc : c < two64) (hp : p < two64) :
    mature c p h = true ↔ c + p ≤ h ∧ c + p < two64 := by
  unfold mature u64 two64 at *
  simp only [Bool.and_eq_true, Bool.not_eq_true', decide_eq_false_iff_not, Nat.not_lt]
  constructor
  · intro ⟨h1, h2⟩; omega
  · intro ⟨h1, h2⟩; omega

/-- a record is never treated as mature before `created + period`, also when the 64-bit sum wraps -/
theorem mature_sound (c p h : Nat) (hc : c < two64) (hp : p < two64) (hm : mature c p h = true) : c + p ≤ h :=
  ((mature_iff c p h hc hp).mp hm).1

/-- the model's maturity test is the negation of the translated stop condition of settleUTXRs -/
theorem mature_eq_translated (c p h : Nat) : mature c p h = !(Gen.immature c p h) := by
  unfold mature Gen.immature
  simp

/-! ### round grid -/

theorem roundStart_le (h p : Nat) : roundStart h p ≤ h := by unfold roundStart; omega

theorem roundStart_dvd (h p : Nat) : (p * 2) ∣ roundStart h p := by
  unfold roundStart
  exact Nat.dvd_sub_mod h

theorem roundStart_translated (h p : Nat) (hh : h < two64 / 2) (hp : p * 2 < two64) (hp0 : 0 < p) :
    Gen.roundStart (h : Int) p = roundStart h p := by
  unfold Gen.roundStart roundStart Gen.toU64 u64
  have h1 : ((h : Int) % (two64 : Int)).toNat = h := by
    have : (h : Int) % (two64 : Int) = (h : Int) := Int.emod_eq_of_lt (by omega) (by unfold two64 at *; omega)
    rw [this]; simp
  simp only [h1]
  have h2 : p * 2 % two64 = p * 2 := Nat.mod_eq_of_lt hp
  rw [h2]
  have h3 : h % (p * 2) ≤ h := Nat.mod_le _ _
  unfold two64 at *
  omega

theorem prevoteEnd_eq (h p : Nat) : prevoteEnd h p = (roundStart h p : Int) + p - 1 := by
  unfold prevoteEnd roundStart
  have : ((h - h % (p * 2) : Nat) : Int) = (h : Int) - ((h % (p * 2) : Nat) : Int) := by
    have := Nat.mod_le h (p * 2); omega
  rw [this]
  rw [Int.natCast_emod]; push_cast; rfl

theorem voteEnd_eq (h p : Nat) : voteEnd h p = (roundStart h p : Int) + p * 2 - 1 := by
  unfold voteEnd roundStart
  have : ((h - h % (p * 2) : Nat) : Int) = (h : Int) - ((h % (p * 2) : Nat) : Int) := by
    have := Nat.mod_le h (p * 2); omega
  rw [this]
  rw [Int.natCast_emod]; push_cast; rfl

/-- the tally gate `height == voteEnd` holds exactly at the last block of a round -/
theorem tally_height_iff (h p : Nat) (hp : 0 < p) : ((h : Int) = voteEnd h p) ↔ h % (p * 2) = p * 2 - 1 := by
  rw [voteEnd_eq]
  unfold roundStart
  have h1 := Nat.mod_le h (p * 2)
  have h2 : h % (p * 2) < p * 2 := Nat.mod_lt _ (by omega)
  omega

/-- the prevote window test `height <= prevoteEnd` is `height mod 2p < p` -/
theorem prevote_window_iff (h p : Nat) (hp : 0 < p) : ((h : Int) ≤ prevoteEnd h p) ↔ h % (p * 2) < p := by
  rw [prevoteEnd_eq]
  unfold roundStart
  have h1 := Nat.mod_le h (p * 2)
  omega

end Settlus

namespace Settlus

/-! ### slash windows -/

/-- a tally at height `h` closes a window iff some window end `i * w` (i ≥ 1) lies in `(h - 2p, h]` -/
theorem closing_iff (h p w : Nat) (hp : 0 < p) (hw : 0 < w) :
    slashWindowClosing h p w = true ↔ ∃ i, 1 ≤ i ∧ i * w ≤ h ∧ h < i * w + p * 2 := by
  unfold slashWindowClosing
  have hw0 : ¬ (w = 0 ∨ p = 0) := by omega
  simp only [hw0, if_false]
  by_cases hlt : h < p * 2
  · simp only [hlt, if_true, decide_eq_true_eq]
    constructor
    · intro hd
      refine ⟨h / w, hd, ?_, ?_⟩
      · exact Nat.div_mul_le_self h w
      · omega
    · intro ⟨i, hi1, hi2, _⟩
      have : i ≤ h / w := (Nat.le_div_iff_mul_le hw).mpr hi2
      omega
  · simp only [hlt, if_false, decide_eq_true_eq]
    constructor
    · intro hd
      have hge : 1 ≤ h / w := by
        have : 0 ≤ (h - p * 2) / w := Nat.zero_le _
        omega
      refine ⟨h / w, hge, Nat.div_mul_le_self h w, ?_⟩
      have : h - p * 2 < h / w * w := (Nat.div_lt_iff_lt_mul hw).mp hd
      omega
    · intro ⟨i, _, hi2, hi3⟩
      have h1 : i ≤ h / w := (Nat.le_div_iff_mul_le hw).mpr hi2
      have h2 : (h - p * 2) / w < i := (Nat.div_lt_iff_lt_mul hw).mpr (by omega)
      omega

/-- between any height `b` and `b + 2p` there is exactly one tally height; this is the first tally at or after `b` -/
theorem tally_exists_in_round (b p : Nat) (hp : 0 < p) : ∃ h, b ≤ h ∧ h < b + p * 2 ∧ h % (p * 2) = p * 2 - 1 := by
  refine ⟨p * 2 * (b / (p * 2)) + (p * 2 - 1), ?_, ?_, ?_⟩
  · have := Nat.div_add_mod b (p * 2)
    have := Nat.mod_lt b (show 0 < p * 2 by omega)
    omega
  · have := Nat.div_add_mod b (p * 2)
    omega
  · rw [Nat.mul_add_mod]
    exact Nat.mod_eq_of_lt (by omega)

theorem tally_unique_in_round (b p h1 h2 : Nat) (hp : 0 < p)
    (a1 : b ≤ h1) (a2 : h1 < b + p * 2) (a3 : h1 % (p * 2) = p * 2 - 1)
    (b1 : b ≤ h2) (b2 : h2 < b + p * 2) (b3 : h2 % (p * 2) = p * 2 - 1) : h1 = h2 := by
  have e1 := Nat.div_add_mod h1 (p * 2)
  have e2 := Nat.div_add_mod h2 (p * 2)
  rw [a3] at e1
  rw [b3] at e2
  have : h1 / (p * 2) = h2 / (p * 2) := by
    rcases Nat.lt_trichotomy (h1 / (p * 2)) (h2 / (p * 2)) with hlt | heq | hgt
    · have : p * 2 * (h1 / (p * 2) + 1) ≤ p * 2 * (h2 / (p * 2)) := Nat.mul_le_mul_left _ hlt
      rw [Nat.mul_add] at this
      omega
    · exact heq
    · have : p * 2 * (h2 / (p * 2) + 1) ≤ p * 2 * (h1 / (p * 2)) := Nat.mul_le_mul_left _ hgt
      rw [Nat.mul_add] at this
      omega
  rw [this] at e1
  omega

theorem slashWindowClosing_translated (h p w : Nat) (hh : h < two64 / 2) (hp : p * 2 < two64) :
    Gen.slashWindowClosing (h : Int) p w = slashWindowClosing h p w := by
  unfold Gen.slashWindowClosing slashWindowClosing Gen.toU64 u64
  have h1 : ((h : Int) % (two64 : Int)).toNat = h := by
    have : (h : Int) % (two64 : Int) = (h : Int) := Int.emod_eq_of_lt (by omega) (by unfold two64 at *; omega)
    rw [this]; simp
  have h2 : p * 2 % two64 = p * 2 := Nat.mod_eq_of_lt hp
  have h0 : ¬ ((h : Int) < 0) := by omega
  simp only [h1, h2, h0, decide_false, Bool.or_false]
  by_cases c : w = 0 ∨ p = 0
  · rcases c with c | c <;> simp [c]
  · have cw : ¬ w = 0 := by omega
    have cp : ¬ p = 0 := by omega
    simp only [c, cw, cp, decide_false, Bool.or_false, if_false, Bool.false_eq_true]
    by_cases hl : h < p * 2
    · simp [hl]
    · simp only [hl, decide_false, if_false, Bool.false_eq_true]
      have : (h + two64 - p * 2) % two64 = h - p * 2 := by unfold two64 at *; omega
      rw [this]
      simp

end Settlus
