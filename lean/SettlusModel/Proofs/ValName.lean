/- the canonical spelling of a validator's address decodes to that validator -/
import SettlusModel.Types
namespace Settlus

theorem digitsVal_eq_ofDigitChars (cs : List Char) : digitsVal cs = Nat.ofDigitChars 10 cs 0 := by
  unfold digitsVal Nat.ofDigitChars
  congr 1
  funext acc c
  simp [Nat.mul_comm]

theorem allDigits_toDigits (i : Nat) : allDigits (Nat.toDigits 10 i) = true := by
  unfold allDigits
  simp only [Bool.and_eq_true, Bool.not_eq_true', List.all_eq_true]
  refine ⟨?_, fun c hc => Nat.isDigit_of_mem_toDigits (by decide) (by decide) hc⟩
  cases h : Nat.toDigits 10 i with
  | nil => exact absurd h Nat.toDigits_ne_nil
  | cons a b => rfl

/-- the canonical name of validator `i` decodes to `i` -/
theorem decodeVal_valName (i : Nat) : decodeVal (valName i) = some i := by
  unfold decodeVal valName
  have : ("v" ++ toString i).toList = 'v' :: Nat.toDigits 10 i := by
    rw [String.toList_append, Nat.toString_eq_repr, Nat.toList_repr]; rfl
  rw [this]
  simp only [allDigits_toDigits, if_true, digitsVal_eq_ofDigitChars, Nat.ofDigitChars_ten_toDigits]

end Settlus
