/-
  The model's arithmetic is the code's: every fixed-point expression the extractor translates from /repo (Generated/Dec.lean, in
  terms of the cosmos-sdk operations of DecLib.lean) equals the corresponding definition of the model.
-/
import SettlusModel.Generated.Dec
import SettlusModel.Oracle
import SettlusModel.Ante
namespace Settlus
open Settlus.SDK

theorem E_eq : SDK.E = ((one18 : Nat) : Int) := rfl

/-- an exact multiple of the unit is chopped without rounding -/
theorem chopRoundBy_mul (e : Nat) (he : 0 < e) (x : Nat) : chopRoundBy e (((x * e : Nat) : Int)) = (x : Int) := by
  unfold chopRoundBy
  have h2 : ¬ (((x * e : Nat) : Int) < 0) := by omega
  simp only [Int.natAbs_natCast, Nat.mul_mod_left, Nat.mul_div_cancel _ he, if_true, h2, if_false]

theorem chopRound_mul (x : Nat) : chopRound (((x * one18 : Nat) : Int)) = (x : Int) :=
  chopRoundBy_mul one18 one18_pos x

theorem tdiv_nat (a b : Nat) : Int.tdiv (a : Int) (b : Int) = ((a / b : Nat) : Int) := by
  rw [Int.tdiv_eq_ediv_of_nonneg (Int.natCast_nonneg a)]
  norm_cast

theorem tmod_nat (a b : Nat) : Int.tmod (a : Int) (b : Int) = ((a % b : Nat) : Int) := by
  rw [Int.tmod_eq_emod_of_nonneg (Int.natCast_nonneg a)]
  norm_cast

/-- ceiling division two ways -/
theorem ceil_div (a e : Nat) (he : 0 < e) : (if a % e = 0 then a / e else a / e + 1) = (a + e - 1) / e := by
  have h1 := Nat.div_add_mod a e
  have h3 : a % e < e := Nat.mod_lt _ he
  by_cases hr : a % e = 0
  · simp only [hr, if_true]
    have h2 : a + e - 1 = e * (a / e) + (e - 1) := by omega
    rw [h2, Nat.mul_add_div he, Nat.div_eq_of_lt (show e - 1 < e by omega)]
    rfl
  · simp only [hr, if_false]
    have h2 : a + e - 1 = e * (a / e + 1) + (a % e - 1) := by rw [Nat.mul_add]; omega
    rw [h2, Nat.mul_add_div he, Nat.div_eq_of_lt (show a % e - 1 < e by omega)]

/-- **the tally threshold** of `EndBlocker`, `VoteThreshold.MulInt64(total).Ceil().TruncateInt()`, is the model's ceiling -/
theorem thresholdVotes_translated (thr total : Nat) :
    GenDec.thresholdVotes (thr : Int) (total : Int) = ((thresholdVotes thr total : Nat) : Int) := by
  unfold GenDec.thresholdVotes decTruncateInt decCeil decMulInt64 thresholdVotes
  have hm : ((thr : Int) * (total : Int)) = ((thr * total : Nat) : Int) := by norm_cast
  rw [hm]
  generalize thr * total = a
  rw [E_eq, tmod_nat, tdiv_nat, ← ceil_div a one18 one18_pos]
  by_cases hr : a % one18 = 0
  · have hr' : ((a % one18 : Nat) : Int) = 0 := by exact_mod_cast hr
    simp only [hr, hr', if_true]
    exact tdiv_nat a one18
  · have hr' : ¬ ((a % one18 : Nat) : Int) = 0 := by exact_mod_cast hr
    have hneg : ¬ ((a : Int) < 0) := by omega
    simp only [hr, hr', hneg, if_false]
    have : (((a / one18 : Nat) : Int) + 1) * ((one18 : Nat) : Int) = (((a / one18 + 1) * one18 : Nat) : Int) := by norm_cast
    rw [this, tdiv_nat, Nat.mul_div_cancel _ one18_pos]

/-- **the fee split** of `CalculateFees` is the model's: collector part floor(f (1 - q)), oracle part floor(f q) -/
theorem fee_split_translated (q f : Nat) (hq : q ≤ one18) :
    GenDec.gasFee (q : Int) (f : Int) = ((collectorPart q f : Nat) : Int) ∧ GenDec.oracleFee (q : Int) (f : Int) = ((oraclePart q f : Nat) : Int) := by
  unfold GenDec.gasFee GenDec.oracleFee decTruncateInt decMul decOfInt decSub collectorPart oraclePart
  constructor
  · have h0 : (1 * SDK.E - (q : Int)) = ((one18 - q : Nat) : Int) := by rw [E_eq]; omega
    have h1 : ((f : Int) * SDK.E) * (1 * SDK.E - (q : Int)) = ((f * (one18 - q) * one18 : Nat) : Int) := by
      rw [h0, E_eq]; norm_cast
      simp only [Nat.mul_comm, Nat.mul_left_comm, Nat.mul_assoc]
    rw [h1, chopRound_mul, E_eq, tdiv_nat]
  · have h1 : ((f : Int) * SDK.E) * (q : Int) = ((f * q * one18 : Nat) : Int) := by
      rw [E_eq]; norm_cast
      simp only [Nat.mul_comm, Nat.mul_left_comm, Nat.mul_assoc]
    rw [h1, chopRound_mul, E_eq, tdiv_nat]

/-- **the split of a payout** in `tryPayout` is the model's `share`, operation for operation -/
theorem share_translated (amount : Int) (n W w : Nat) :
    share amount n W w = if W = 0 then GenDec.shareEqual amount (n : Int) else GenDec.shareWeighted amount (w : Int) (W : Int) := rfl

/-- **one validator's reward** in `RewardBallotWinners`, `rewards.MulDec(NewDec(w).QuoInt64(W)).TruncateDecimal()`, is the model's
`rewardOf` -/
theorem reward_translated (pool w W : Nat) :
    GenDec.rewardCoin (decOfInt (pool : Int)) (w : Int) (W : Int) = ((rewardOf pool w W : Nat) : Int) := by
  unfold GenDec.rewardCoin decTruncateInt decMul decQuoInt64 decOfInt rewardOf
  have h0 : ((w : Int) * SDK.E) = ((w * one18 : Nat) : Int) := by rw [E_eq]; norm_cast
  rw [h0, tdiv_nat]
  have h1 : ((pool : Int) * SDK.E) * ((w * one18 / W : Nat) : Int) = ((pool * (w * one18 / W) * one18 : Nat) : Int) := by
    rw [E_eq]; norm_cast
    simp only [Nat.mul_comm, Nat.mul_left_comm, Nat.mul_assoc]
  rw [h1, chopRound_mul, E_eq, tdiv_nat]

/-- **the pro-bono contribution and the credited remainder** are the two amounts the model's `rewardOne` uses -/
theorem probono_translated (r rate : Nat) (hr : rate ≤ one18) :
    GenDec.probonoContribution (r : Int) (rate : Int) = ((r * rate : Nat) : Int) ∧
    GenDec.finalReward (r : Int) (GenDec.probonoContribution (r : Int) (rate : Int)) = ((r * one18 - r * rate : Nat) : Int) := by
  have h1 : GenDec.probonoContribution (r : Int) (rate : Int) = ((r * rate : Nat) : Int) := by
    unfold GenDec.probonoContribution decMulTruncate decOfInt
    have : ((r : Int) * SDK.E) * (rate : Int) = ((r * rate * one18 : Nat) : Int) := by
      rw [E_eq]; norm_cast
      simp only [Nat.mul_comm, Nat.mul_left_comm, Nat.mul_assoc]
    rw [this, E_eq, tdiv_nat, Nat.mul_div_cancel _ one18_pos]
  refine ⟨h1, ?_⟩
  rw [h1]
  unfold GenDec.finalReward decSub decOfInt
  rw [E_eq]
  have hle : r * rate ≤ r * one18 := Nat.mul_le_mul_left r hr
  have : ((r : Int) * ((one18 : Nat) : Int)) = ((r * one18 : Nat) : Int) := by norm_cast
  rw [this]
  omega

end Settlus
