/-
  The reference feeder's block cache (tools/interop-node/subscriber/cache.go): a tree map keyed by timestamp with a
  capacity; insertion evicts the minimum when the capacity is exceeded; a query returns the ceiling entry.
-/
import SettlusModel.Basic
namespace Settlus

structure Block where
  hash : List Char
  number : Int
deriving DecidableEq, Repr

structure Cache where
  cap : Int
  items : List (Nat × Block)      -- ascending timestamps, no timestamp twice

/-- insert keeping the list sorted; an equal timestamp replaces the block -/
def insertTs (ts : Nat) (b : Block) : List (Nat × Block) → List (Nat × Block)
  | [] => [(ts, b)]
  | (t, x) :: r => if ts < t then (ts, b) :: (t, x) :: r else if ts = t then (ts, b) :: r else (t, x) :: insertTs ts b r

/-- `PutBlockData` -/
def Cache.put (c : Cache) (hash : List Char) (number : Int) (ts : Nat) : Cache :=
  let items := insertTs ts ⟨hash, number⟩ c.items
  if (items.length : Int) > c.cap then { c with items := items.tail } else { c with items := items }

/-- `GetOldestBlock`: the retained block with the smallest timestamp not below the query -/
def Cache.get (c : Cache) (q : Nat) : Option Block :=
  match c.items.find? (fun p => q ≤ p.1) with
  | some p => some p.2
  | none => none

end Settlus
