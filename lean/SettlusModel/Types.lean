/-
  State of the model: settlement module, oracle module, the interfaces of bank / staking / distribution / EVM
  that the two modules use, and the ghost event log.
-/
import SettlusModel.Nft
namespace Settlus

/-! ### accounts and validators as the line protocol names them -/

/-- the chain id of the application under test -/
def thisChain : Str := "settlus_5371-1".toList

/-- `a3`, `A3` (upper-case bech32 spelling), `o1`, `O1` decode to the account `a3` / `o1`; anything else is not bech32 -/
def decodeAcc (tok : String) : Option String :=
  match tok.toList with
  | 'a' :: r => if !r.isEmpty && r.all Char.isDigit then some tok else none
  | 'o' :: r => if !r.isEmpty && r.all Char.isDigit then some tok else none
  | 'A' :: r => if !r.isEmpty && r.all Char.isDigit then some (String.ofList ('a' :: r)) else none
  | 'O' :: r => if !r.isEmpty && r.all Char.isDigit then some (String.ofList ('o' :: r)) else none
  | _ => none

/-- `v2` / `V2` decode to validator index 2 -/
def decodeVal (tok : String) : Option Nat :=
  match tok.toList with
  | 'v' :: r => if !r.isEmpty && r.all Char.isDigit then (String.ofList r).toNat? else none
  | 'V' :: r => if !r.isEmpty && r.all Char.isDigit then (String.ofList r).toNat? else none
  | _ => none

def valName (i : Nat) : String := "v" ++ toString i

/-- the account of validator i's operator -/
def opAcc (i : Nat) : String := "o" ++ toString i

/-- the 20-byte address of account `a<i>`: byte i+1 repeated (the harness uses the same pattern) -/
def accHex (acc : String) : Str :=
  match acc.toList with
  | 'a' :: r => match (String.ofList r).toNat? with
    | some i => '0' :: 'x' :: bytesHex (List.replicate 20 (i + 1))
    | none => []
  | _ => ("0xop" ++ acc).toList

/-- the bank holder name of a 20-byte address: `a<i>` for the pattern addresses, else the address itself -/
def holderOfHex (h : Str) : String :=
  match (List.range 10).find? (fun i => accHex ("a" ++ toString i) == h) with
  | some i => "a" ++ toString i
  | none => String.ofList h

def treasuryName (t : Nat) : String := "t" ++ toString t

/-! ### settlement -/

structure Recipient where
  addr : Str
  weight : Nat
deriving DecidableEq, Repr

/-- a pending payment record (UTXR) together with its id -/
structure Rec where
  id : Nat
  req : Str
  amount : Int
  denom : Str
  nft : Nft
  created : Nat
  rcpt : List Recipient
deriving DecidableEq, Repr

structure Tenant where
  id : Nat
  admins : List String     -- canonical account names
  denom : Str
  period : Nat
  mint : Bool              -- payout method: false = native, true = mintable contract
  contract : Str           -- "" when none; "auto" for a contract deployed by the chain
deriving DecidableEq, Repr

structure SParams where
  oracleFee : Nat          -- numerator over 10^18
  chains : List Str
deriving Repr

/-- settlement module store. Records, request-id index and id counter are kept per tenant id. -/
structure SState where
  params : SParams
  tenants : List Tenant               -- ascending id (ids are handed out as largest + 1)
  recs : Nat → List Rec               -- ascending id per tenant
  index : Nat → List (Str × Nat)      -- request id -> record id, per tenant
  last : Nat → Option Nat             -- last id handed out, per tenant
  recTenants : List Nat               -- ascending: tenant ids that have, or had, an entry in `recs`/`index`/`last`

/-! ### oracle -/

structure OParams where
  votePeriod : Nat
  threshold : Nat          -- numerator over 10^18
  slashFraction : Nat      -- numerator over 10^18
  slashWindow : Nat
  maxMiss : Nat
deriving Repr

structure RoundInfo where
  id : Nat
  prevoteEnd : Int
  voteEnd : Int
  sources : List Str       -- ownership topic sources (formatted NFTs)
deriving Repr

structure OState where
  params : OParams
  round : Option RoundInfo
  prevotes : List (String × Str)            -- keyed by the validator string of the message (spelling kept)
  votes : List (String × List VoteData)
  miss : List (String × Nat)
  feeders : List (String × String)          -- validator string -> feeder account

/-! ### interfaces -/

/-- bank balances by holder name and denomination -/
abbrev Bank := String → Str → Nat

structure Val where
  tokens : Nat
  bonded : Bool
  jailed : Bool
  probono : Option Nat     -- commission rate numerator when the validator is pro bono
deriving Repr

structure Distr where
  outstanding : Nat → Str → Nat     -- validator index, denom -> Dec18 numerator
  community : Str → Nat             -- Dec18 numerator

/-- ghost log of what happened to payment records and of payments made -/
inductive Event
  | recorded (t id : Nat) (h : Nat)
  | settled (t id : Nat) (h : Nat)
  | cancelled (t id : Nat) (h : Nat)
  | dropped (t id : Nat) (h : Nat)
  | filled (t id : Nat) (owner : Str) (h : Nat)
  | paid (t id : Nat) (holder : String) (denom : Str) (amt : Nat)
  | deposited (t : Nat) (denom : Str) (amt : Nat)
deriving DecidableEq, Repr

structure State where
  h : Nat                                   -- height of the block being built
  powerReduction : Nat
  constantPower : Bool                       -- sdk.ConstantReward: every validator with tokens >= reduction has power 1
  bank : Bank
  st : SState
  os : OState
  vals : List Val
  distr : Distr
  owners : List ((Str × Nat) × Option Str)   -- (contract, token value) -> owner (none = zero address); absent = call reverts
  poolDenoms : List Str
  faultAt : Option Nat                        -- fail the k-th payout backend call of the next block
  log : List Event

end Settlus
