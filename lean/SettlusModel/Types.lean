/-
  State of the model: settlement module, oracle module, the interfaces of bank / staking / distribution / EVM
  that the two modules use, and the ghost event log.
-/
import SettlusModel.Nft
import SettlusModel.Generated.Facts
namespace Settlus

/-! ### accounts and validators as the line protocol names them -/

/-- the chain id of the application under test -/
def thisChain : Str := "settlus_5371-1".toList

/-- accounts the protocol can name: `a<i>` ordinary accounts, `o<i>` the operator account of validator i -/
inductive Acct
  | a (i : Nat)
  | o (i : Nat)
deriving DecidableEq, Repr

def digitsVal (cs : List Char) : Nat := cs.foldl (fun acc c => acc * 10 + (c.toNat - 48)) 0

def allDigits (cs : List Char) : Bool := !cs.isEmpty && cs.all Char.isDigit

/-- `a3`, `A3` (upper-case bech32 spelling), `o1`, `O1` decode to the account; anything else is not bech32 -/
def decodeAcc (tok : String) : Option Acct :=
  match tok.toList with
  | 'a' :: r => if allDigits r then some (.a (digitsVal r)) else none
  | 'A' :: r => if allDigits r then some (.a (digitsVal r)) else none
  | 'o' :: r => if allDigits r then some (.o (digitsVal r)) else none
  | 'O' :: r => if allDigits r then some (.o (digitsVal r)) else none
  | _ => none

/-- `v2` / `V2` decode to validator index 2 -/
def decodeVal (tok : String) : Option Nat :=
  match tok.toList with
  | 'v' :: r => if allDigits r then some (digitsVal r) else none
  | 'V' :: r => if allDigits r then some (digitsVal r) else none
  | _ => none

def valName (i : Nat) : String := "v" ++ toString i

/-- the account of validator i's operator -/
def opAcc (i : Nat) : Acct := .o i

/-- the 20-byte address of account `a<i>`: byte i+1 repeated (the harness uses the same pattern); operator accounts have
addresses the model never needs (a placeholder outside the hex alphabet) -/
def accHex : Acct → Str
  | .a i => '0' :: 'x' :: bytesHex (List.replicate 20 (i + 1))
  | .o i => 'o' :: 'p' :: (toString i).toList

/-- who can hold a balance -/
inductive Holder
  | acct (x : Acct)
  | treasury (t : Nat)
  | addr (h : Str)        -- any other 20-byte address, by its hex form
  | pool                  -- oracle module account (reward pool)
  | distr                 -- distribution module account
  | collector             -- fee collector
deriving DecidableEq, Repr

/-- the module account behind a hex address, if it is one of the three a history can name -/
def moduleOfHex (h : Str) : Option Holder :=
  match Facts.moduleAddrs.find? (fun p => p.2 == h) with
  | some p => if p.1 == "mdistr" then some .distr else if p.1 == "mpool" then some .pool else if p.1 == "mcollector" then some .collector else none
  | none => none

/-- the bank holder of a 20-byte address: a module account, `a<i>` for the pattern addresses, else the address itself -/
def holderOfHex (h : Str) : Holder :=
  match moduleOfHex h with
  | some m => m
  | none =>
    match (List.range 10).find? (fun i => accHex (.a i) == h) with
    | some i => .acct (.a i)
    | none => .addr h

def treasuryName (t : Nat) : Holder := .treasury t

/-! ### settlement -/

structure Recipient where
  addr : Str
  weight : Nat
deriving DecidableEq, Repr

/-- a pending payment record (UTXR) together with its id -/
structure Rec where
  id : Nat
  req : Str
  amount : Int
  denom : Str
  nft : Nft
  created : Nat
  rcpt : List Recipient
deriving DecidableEq, Repr

structure Tenant where
  id : Nat
  admins : List Acct
  denom : Str
  period : Nat
  mint : Bool              -- payout method: false = native, true = mintable contract
  contract : Str           -- "" when none; "auto" for a contract deployed by the chain
deriving DecidableEq, Repr

structure SParams where
  oracleFee : Nat          -- numerator over 10^18
  chains : List Str
deriving Repr

/-- settlement module store. Records, request-id index and id counter are kept per tenant id. -/
structure SState where
  params : SParams
  tenants : List Tenant               -- ascending id (ids are handed out as largest + 1)
  recs : Nat → List Rec               -- ascending id per tenant
  index : Nat → List (Str × Nat)      -- request id -> record id, per tenant
  last : Nat → Option Nat             -- last id handed out, per tenant
  recTenants : List Nat               -- ascending: tenant ids that have, or had, an entry in `recs`/`index`/`last`

/-! ### oracle -/

structure OParams where
  votePeriod : Nat
  threshold : Nat          -- numerator over 10^18
  slashFraction : Nat      -- numerator over 10^18
  slashWindow : Nat
  maxMiss : Nat
deriving Repr

structure RoundInfo where
  id : Nat
  prevoteEnd : Int
  voteEnd : Int
  sources : List Str       -- ownership topic sources (formatted NFTs)
deriving Repr

structure OState where
  params : OParams
  round : Option RoundInfo
  prevotes : List (String × Str)            -- keyed by the validator string of the message (spelling kept)
  votes : List (String × List VoteData)
  miss : List (String × Nat)
  feeders : List (String × Acct)            -- validator string -> feeder account

/-! ### interfaces -/

/-- bank balances by holder and denomination -/
abbrev Bank := Holder → Str → Nat

structure Val where
  tokens : Nat
  bonded : Bool
  jailed : Bool
  probono : Option Nat     -- commission rate numerator when the validator is pro bono
deriving Repr

structure Distr where
  outstanding : Nat → Str → Nat     -- validator index, denom -> Dec18 numerator
  community : Str → Nat             -- Dec18 numerator

/-- ghost log of what happened to payment records and of payments made -/
inductive Event
  | recorded (t id : Nat) (h : Nat)
  | settled (t id : Nat) (h : Nat)
  | cancelled (t id : Nat) (h : Nat)
  | dropped (t id : Nat) (h : Nat)
  | filled (t id : Nat) (owner : Str) (h : Nat)
  | paid (t id : Nat) (holder : Holder) (denom : Str) (amt : Nat)      -- transfer out of the treasury
  | minted (t id : Nat) (holder : Holder) (denom : Str) (amt : Nat)    -- mint by the tenant's contract (treasury untouched)
  | deposited (t : Nat) (denom : Str) (amt : Nat)
deriving DecidableEq, Repr

structure State where
  h : Nat                                   -- height of the block being built
  powerReduction : Nat
  constantPower : Bool                       -- sdk.ConstantReward: every validator with tokens >= reduction has power 1
  bank : Bank
  st : SState
  os : OState
  vals : List Val
  distr : Distr
  owners : List ((Str × Nat) × Option Str)   -- (contract, token value) -> owner (none = zero address); absent = call reverts
  poolDenoms : List Str
  faultAt : Option Nat                        -- fail the k-th payout backend call of the next block
  log : List Event

end Settlus
