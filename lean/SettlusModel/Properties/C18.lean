/-
  C18 - A prevote binds its validator to one vote (commitment is unambiguous).
  The pinned code violates the statement (known finding F15): the negation is proved here with an explicit witness that is
  valid for every hash function, together with the part of the statement that does hold.
-/
import SettlusModel.Proofs.Hex
import SettlusModel.Oracle
namespace Settlus.C18
open Settlus

/-- the chain accepts `(salt, vds)` as the reveal of `hash` (the two checks of the vote handler that involve the opening) -/
def Accepts (H : Str → Str) (chains : List Str) (hash salt : Str) (vds : List VoteData) : Prop :=
  validateVoteData chains vds = true ∧ hashOf H salt vds = hash

/-- the property as stated: at most one accepted (salt, vote data) per prevote hash -/
def Statement : Prop :=
  ∀ (H : Str → Str) (chains : List Str) (hash salt₁ salt₂ : Str) (vds₁ vds₂ : List VoteData),
    Accepts H chains hash salt₁ vds₁ → Accepts H chains hash salt₂ vds₂ → salt₁ = salt₂ ∧ vds₁ = vds₂

def e₁ : Str := "1/0x01/0x01:0x0a".toList
def e₂ : Str := "1/0x01/0x02:0x0b".toList

/-- moving the first entry into the salt gives a different opening with the same committed string - for every hash function -/
theorem commitment_ambiguous (H : Str → Str) (salt : Str) :
    hashOf H salt [⟨.ownership, [e₁, e₂]⟩] = hashOf H (salt ++ e₁) [⟨.ownership, [e₂]⟩] := by
  unfold hashOf commitString
  simp

/-- regrouping entries across vote-data items does not change the commitment either -/
theorem regrouping_ambiguous (H : Str → Str) (salt : Str) (a b : List Str) :
    hashOf H salt [⟨.ownership, a ++ b⟩] = hashOf H salt [⟨.ownership, a⟩, ⟨.ownership, b⟩] := by
  unfold hashOf commitString
  simp

theorem both_openings_valid :
    validateVoteData ["1".toList] [⟨.ownership, [e₁, e₂]⟩] = true ∧ validateVoteData ["1".toList] [⟨.ownership, [e₂]⟩] = true := by
  decide

/-- **the statement is false of the pinned code** (recorded as a known finding) -/
theorem statement_false : ¬ Statement := by
  intro h
  have h1 : Accepts id ["1".toList] (hashOf id [] [⟨.ownership, [e₁, e₂]⟩]) [] [⟨.ownership, [e₁, e₂]⟩] := ⟨both_openings_valid.1, rfl⟩
  have h2 : Accepts id ["1".toList] (hashOf id [] [⟨.ownership, [e₁, e₂]⟩]) ([] ++ e₁) [⟨.ownership, [e₂]⟩] :=
    ⟨both_openings_valid.2, (commitment_ambiguous id []).symm⟩
  have := (h id _ _ _ _ _ _ h1 h2).1
  exact absurd this (by decide)

/-- entries of a vote, flattened -/
def entries (vds : List VoteData) : List Str := vds.flatMap (·.data)

theorem flatten_inj_of_lengths : ∀ (a b : List Str), a.map List.length = b.map List.length → a.flatten = b.flatten → a = b
  | [], [], _, _ => rfl
  | [], _ :: _, h, _ => by simp at h
  | _ :: _, [], h, _ => by simp at h
  | x :: xs, y :: ys, hl, hf => by
    simp only [List.map_cons, List.cons.injEq] at hl
    simp only [List.flatten_cons] at hf
    obtain ⟨hxy, hrest⟩ := List.append_inj hf hl.1
    rw [hxy, flatten_inj_of_lengths xs ys hl.2 hrest]

theorem commit_entries (vds : List VoteData) : vds.flatMap (fun vd => vd.data.flatten) = (entries vds).flatten := by
  unfold entries
  induction vds with
  | nil => rfl
  | cons v r ih => simp [List.flatMap_cons, ih]

/-- **the part that holds**: for an injective hash, two openings of one commitment whose salts have the same length and whose
entries have the same lengths position by position carry the same salt and the same entries -/
theorem binding_partial (H : Str → Str) (hinj : Function.Injective H) (salt₁ salt₂ : Str) (vds₁ vds₂ : List VoteData)
    (hs : salt₁.length = salt₂.length) (hl : (entries vds₁).map List.length = (entries vds₂).map List.length)
    (hh : hashOf H salt₁ vds₁ = hashOf H salt₂ vds₂) :
    salt₁ = salt₂ ∧ entries vds₁ = entries vds₂ := by
  unfold hashOf commitString at hh
  have hc := hinj hh
  obtain ⟨h1, h2⟩ := List.append_inj hc hs
  refine ⟨h1, flatten_inj_of_lengths _ _ hl ?_⟩
  rw [commit_entries, commit_entries] at h2
  exact h2

end Settlus.C18
