/-
  C06 - Block processing never panics; message handling is total.

  The model's only sources of `Out.panic` are the ones the code has: `sdk.NewCoins` on an invalid coin inside `tryPayout` and the
  deliberate panic of `Settle` on an error of the settle loop. The theorems show that no message handler ever yields `panic`, that
  histories of transactions only ever store records whose coins are valid, and that with such records no block panics whatever
  the payout backends do; and that every vote entry kept in the oracle store parses, so the tally's second parse cannot fail.
-/
import SettlusModel.Proofs.RecWf
import SettlusModel.Properties.C11
import SettlusModel.Generated.Facts
namespace Settlus.C06
open Settlus

/-! ### messages -/

/-- **message handling is total**: every operation other than a block boundary - every message of both modules with any field
values, and every set-up action - ends in `ok` or in an ordinary error, never in a panic -/
theorem messages_never_panic (H : Str → Str) (s : State) (op : Op) (hnb : op ≠ .block) : (step H s op).out ≠ .panic := by
  cases op
  case block => exact absurd rfl hnb
  case createTenant a d p mc => simp only [step, ofS, createTenant]; split <;> (intro h; cases h)
  case deposit a t amt d => simp only [step, ofS, deposit]; split <;> (intro h; cases h)
  case record a t r amt d ch c tok => simp only [step, ofS, record]; split <;> (intro h; cases h)
  case cancel a t r => simp only [step, ofS, cancel]; split <;> (intro h; cases h)
  case addAdmin a t n => simp only [step, ofS, addAdmin]; split <;> (intro h; cases h)
  case removeAdmin a t n => simp only [step, ofS, removeAdmin]; split <;> (intro h; cases h)
  case setPeriod a t p => simp only [step, ofS, setPeriod]; split <;> (intro h; cases h)
  case inject t req amt d nft created rc => simp only [step]; split <;> (intro h; cases h)
  case fund a amt d =>
    simp only [step]
    split
    · intro h; cases h
    · split <;> (intro h; cases h)
  case fundPool amt d => simp only [step]; split <;> (intro h; cases h)
  case setOwner c t o => intro h; cases h
  case prevote f v hh r =>
    simp only [step, ofS, prevote]
    repeat' split
    all_goals (intro h; cases h)
  case vote f v salt r vds =>
    simp only [step, ofS, vote]
    repeat' split
    all_goals (intro h; cases h)
  case consent v f =>
    simp only [step, ofS, consent]
    repeat' split
    all_goals (intro h; cases h)
  case setOParams vp thr frac w m => simp only [step]; split <;> (intro h; cases h)
  case setSParams fee chains => simp only [step]; split <;> (intro h; cases h)
  case setVal i power b j pb => simp only [step]; split <;> (intro h; cases h)
  case failAt k => intro h; cases h
  case dump => intro h; cases h

/-- the adversarial field values of the property are refused by basic validation: a missing, zero or negative amount and a
malformed denomination never reach the store -/
theorem bad_coins_refused (s : State) (a : String) (t : Nat) (req : Str) (amt : Option Int) (d ch c tok : Str)
    (hbad : amt = none ∨ (∃ x, amt = some x ∧ x ≤ 0) ∨ validDenom d = false) :
    isOk (record s a t req amt d ch c tok).out = false ∧ (record s a t req amt d ch c tok).st = s := by
  have hf : isOk (record s a t req amt d ch c tok).out = false := by
    unfold record
    split
    · rename_i p hp
      obtain ⟨_, amount, _, _, ham, hb, _⟩ := recordPlan_some hp
      exfalso
      subst ham
      simp only [recordBasic, Bool.and_eq_true, decide_eq_true_eq] at hb
      rcases hbad with h | ⟨x, hx, hle⟩ | h
      · cases h
      · cases hx; omega
      · rw [hb.1.1.1.1] at h; cases h
    · rfl
  exact ⟨hf, record_err s a t req amt d ch c tok hf⟩

/-! ### blocks -/

theorem recOk_coinOk (r : Rec) (h : RecOk r) : C11.CoinOk r := ⟨h.2.1, by have := h.1; omega⟩

theorem settleAll_no_panic (h : Nat) (f : Option Nat) (ts : List Tenant) :
    ∀ (s : State) (c : Nat), (∀ t, ∀ r ∈ s.st.recs t, C11.CoinOk r) → (settleAll h f ts s c).panic = false := by
  induction ts with
  | nil => intro s c _; rfl
  | cons tn rest ih =>
    intro s c hok
    have hq := C11.block_completes h tn f (s.st.recs tn.id) s.bank c (s.st.index tn.id) (hok tn.id)
    obtain ⟨pre, p1, _⟩ := settleQ_ledger h tn f (s.st.recs tn.id) s.bank c (s.st.index tn.id)
    rw [settleAll_cons]
    simp only [hq, Bool.false_eq_true, if_false]
    apply ih
    intro t r hr
    simp only [afterQ] at hr
    by_cases ht : t = tn.id
    · subst ht
      simp only [fupd_same] at hr
      exact hok _ r (by rw [p1]; simp [hr])
    · simp only [fupd_other _ _ _ _ ht] at hr
      exact hok t r hr

/-- a block completes from every state whose pending records are well-formed - whatever backend call fails, whatever the tally
fills in, for all tenants, periods and payout methods -/
theorem block_completes_on_wellformed_store (s : State) (h : AllRecOk s) : (blockStep s).out ≠ .panic := by
  have hp : (settleAll s.h s.faultAt (oracleEndBlock s).st.st.tenants (oracleEndBlock s).st 0).panic = false := by
    apply settleAll_no_panic
    intro t r hr
    rcases oracleEndBlock_recs s t with e | ⟨acc, u, e⟩
    · rw [e] at hr; exact recOk_coinOk r (h t r hr)
    · rw [e] at hr
      obtain ⟨r0, hr0, rfl⟩ := List.mem_map.mp hr
      exact recOk_coinOk _ (fillRec_ok acc u r0 (h t r0 hr0))
  unfold blockStep
  simp only [hp, Bool.false_eq_true, if_false]
  intro hh; cases hh

/-- the outputs of a run, one per operation -/
def outs (H : Str → Str) : State → List Op → List Out
  | _, [] => []
  | s, op :: ops => (step H s op).out :: outs H (step H s op).st ops

/-- **no transaction history can halt the chain**: in every history of messages, set-up actions and block boundaries (no direct
store injection), from genesis, no step panics - neither a message nor any later block in which its consequences play out -/
theorem no_history_panics (H : Str → Str) (pr : Nat) (c : Bool) (ops : List Op) (htx : ∀ op ∈ ops, IsTx op) :
    ∀ o ∈ outs H (initState pr c) ops, o ≠ .panic := by
  have gen : ∀ (ops : List Op) (s : State), (∀ op ∈ ops, IsTx op) → AllRecOk s → ∀ o ∈ outs H s ops, o ≠ .panic := by
    intro ops
    induction ops with
    | nil => intro s _ _ o ho; simp [outs] at ho
    | cons op r ih =>
      intro s htx hok o ho
      simp only [outs, List.mem_cons] at ho
      rcases ho with rfl | ho
      · by_cases hb : op = .block
        · subst hb; exact block_completes_on_wellformed_store s hok
        · exact messages_never_panic H s op hb
      · exact ih _ (fun x hx => htx x (by simp [hx])) (step_allRecOk H s op (htx op (by simp)) hok) o ho
  apply gen ops _ htx
  intro t r hr
  simp [initState] at hr

/-! ### the oracle store holds only entries that parse -/

/-- every stored vote item is an ownership item whose entries all parse -/
def VotesOk (s : State) : Prop :=
  ∀ p ∈ s.os.votes, ∀ vd ∈ p.2, vd.topic = .ownership ∧ ∀ d ∈ vd.data, (parseEntry d).isSome = true

theorem validate_parses (chains : List Str) (vds : List VoteData) (h : validateVoteData chains vds = true) :
    ∀ vd ∈ vds, vd.topic = .ownership ∧ ∀ d ∈ vd.data, (parseEntry d).isSome = true := by
  intro vd hvd
  simp only [validateVoteData, List.all_eq_true] at h
  have := h vd hvd
  unfold validVoteItem at this
  split at this
  · rename_i ht
    refine ⟨ht, ?_⟩
    intro d hd
    simp only [List.all_eq_true] at this
    have := this d hd
    split at this
    · rename_i e he; simp [he]
    · cases this
  · cases this

theorem mem_alSet {α β} [DecidableEq α] (l : List (α × β)) (a : α) (b : β) (p : α × β) (h : p ∈ alSet l a b) : p = (a, b) ∨ p ∈ l := by
  induction l with
  | nil => simp only [alSet, List.mem_singleton] at h; exact Or.inl h
  | cons x r ih =>
    obtain ⟨k, v⟩ := x
    simp only [alSet] at h
    split at h
    · rename_i hk
      simp only [List.mem_cons] at h
      rcases h with h | h
      · left; rw [h, hk]
      · right; simp [h]
    · simp only [List.mem_cons] at h
      rcases h with h | h
      · right; simp [h]
      · rcases ih h with h' | h'
        · exact Or.inl h'
        · right; simp [h']

theorem oracleEndBlock_votes (s : State) : (oracleEndBlock s).st.os.votes = s.os.votes ∨ (oracleEndBlock s).st.os.votes = [] := by
  unfold oracleEndBlock
  by_cases ht : (s.h : Int) = voteEnd s.h s.os.params.votePeriod
  · by_cases hc : slashWindowClosing s.h s.os.params.votePeriod s.os.params.slashWindow = true
    · right; simp [ht, hc]
    · right; simp [ht, hc]
  · left; simp [ht]

theorem step_votesOk (H : Str → Str) (s : State) (op : Op) (h : VotesOk s) : VotesOk (step H s op).st := by
  cases op
  case createTenant a d p mc => simp only [step, ofS, createTenant]; split <;> exact h
  case deposit a t amt d => simp only [step, ofS, deposit]; split <;> exact h
  case record a t r amt d ch c tok => simp only [step, ofS, record]; split <;> exact h
  case cancel a t r => simp only [step, ofS, cancel]; split <;> exact h
  case addAdmin a t n => simp only [step, ofS, addAdmin]; split <;> exact h
  case removeAdmin a t n => simp only [step, ofS, removeAdmin]; split <;> exact h
  case setPeriod a t p => simp only [step, ofS, setPeriod]; split <;> exact h
  case inject t req amt d nft created rc => simp only [step]; split <;> exact h
  case fund a amt d =>
    simp only [step]
    split
    · exact h
    · split <;> exact h
  case fundPool amt d => simp only [step]; split <;> exact h
  case setOwner c t o => exact h
  case prevote f v hh r =>
    simp only [step, ofS, prevote]
    repeat' split
    all_goals exact h
  case vote f v salt r vds =>
    simp only [step, ofS, vote]
    repeat' split
    all_goals first | exact h | skip
    rename_i hcond
    intro p hp
    rcases mem_alSet _ _ _ _ hp with e | hm
    · subst e; exact validate_parses _ _ hcond.2.2.1
    · exact h p hm
  case consent v f =>
    simp only [step, ofS, consent]
    repeat' split
    all_goals exact h
  case setOParams vp thr frac w m => simp only [step]; split <;> exact h
  case setSParams fee chains => simp only [step]; split <;> exact h
  case setVal i power b j pb => simp only [step]; split <;> exact h
  case failAt k => exact h
  case block =>
    simp only [step, blockStep]
    intro p hp
    rw [(settleAll_tenants _ _ _ _ _).2.1] at hp
    rcases oracleEndBlock_votes s with e | e
    · rw [e] at hp; exact h p hp
    · rw [e] at hp; cases hp
  case dump => exact h

/-- **every vote entry in the store parses**, in every reachable state: what `MsgVote` accepts is validated entry by entry, whatever
its topic, so the tally's second parse of the stored strings cannot fail -/
theorem stored_votes_always_parse (H : Str → Str) (pr : Nat) (c : Bool) (ops : List Op) : VotesOk (run H (initState pr c) ops) := by
  have gen : ∀ (s : State), VotesOk s → VotesOk (run H s ops) := by
    induction ops with
    | nil => intro s h; exact h
    | cons op r ih => intro s h; exact ih _ (step_votesOk H s op h)
  apply gen
  intro p hp
  simp [initState] at hp

/-- so the tally counts every stored entry: the parse filter of `rawBallots` drops nothing -/
theorem tally_sees_every_entry (s : State) (h : VotesOk s) (p : String × List VoteData) (hp : p ∈ s.os.votes) (vd : VoteData) (hvd : vd ∈ p.2)
    (d : Str) (hd : d ∈ vd.data) : ∃ e, parseEntry d = some e :=
  Option.isSome_iff_exists.mp ((h p hp vd hvd).2 d hd)

/-- a vote with a deprecated (`BLOCK`) or unknown topic, or with an entry that does not parse, is refused -/
theorem malformed_vote_refused (H : Str → Str) (s : State) (f v : String) (salt : Str) (r : Nat) (vds : List VoteData)
    (hbad : ∃ vd ∈ vds, vd.topic ≠ .ownership ∨ ∃ d ∈ vd.data, parseEntry d = none) :
    isOk (vote H s f v salt r vds).out = false ∧ (vote H s f v salt r vds).st = s := by
  have hv : validateVoteData s.st.params.chains vds = false := by
    cases hc : validateVoteData s.st.params.chains vds
    · rfl
    · exfalso
      obtain ⟨vd, hvd, hb⟩ := hbad
      obtain ⟨h1, h2⟩ := validate_parses _ _ hc vd hvd
      rcases hb with hb | ⟨d, hd, hn⟩
      · exact hb h1
      · have := h2 d hd; rw [hn] at this; cases this
  unfold vote
  repeat' split
  all_goals first | exact ⟨rfl, rfl⟩ | skip
  rename_i hcond
  rw [hv] at hcond
  exact absurd hcond.2.2.1 (by simp)

/-! ### inventory of data-dependent panic sites -/

/-- the constructs of the two modules that can panic on a data-dependent condition are exactly these: the literal indexing of the two
parsers (guarded by the length checks the model reproduces), the deliberate panics of genesis import, of `Settle`, of the slash
loop and of `GetRewardPool`, the `GetSigners` panics on an address `ValidateBasic` rejects, and the two `sdk.NewCoins` calls. In
particular no range-checked integer conversion (`Int64` / `Uint64` of a `math.Int`) is applied to a message field. A new site
makes this theorem fail, and the check then looks for an input that reaches it. -/
theorem panic_site_inventory : Facts.panicSites =
    ["types/nft.go:ParseNftId:index[0]",
     "types/nft.go:ParseNftId:index[1]",
     "types/nft.go:ParseNftId:index[2]",
     "x/oracle/genesis.go:InitGenesis:panic",
     "x/oracle/genesis.go:InitGenesis:panic",
     "x/oracle/keeper/feeder.go:GetRewardPool:panic",
     "x/oracle/keeper/feeder.go:SlashValidatorsAndResetMissCount:panic",
     "x/oracle/keeper/feeder.go:SlashValidatorsAndResetMissCount:panic",
     "x/oracle/keeper/keeper.go:NewKeeper:panic",
     "x/oracle/types/messages.go:GetSigners:panic",
     "x/oracle/types/messages.go:GetSigners:panic",
     "x/oracle/types/messages.go:GetSigners:panic",
     "x/oracle/types/vote_data.go:StringToOwnershipData:index[0]",
     "x/oracle/types/vote_data.go:StringToOwnershipData:index[0]",
     "x/oracle/types/vote_data.go:StringToOwnershipData:index[1]",
     "x/settlement/genesis.go:InitGenesis:panic",
     "x/settlement/keeper/msg_server.go:DepositToTreasury:NewCoins",
     "x/settlement/keeper/settle.go:Settle:panic",
     "x/settlement/keeper/settle.go:tryPayout:NewCoins",
     "x/settlement/types/msg.go:GetSigners:panic",
     "x/settlement/types/msg.go:GetSigners:panic",
     "x/settlement/types/msg.go:GetSigners:panic",
     "x/settlement/types/msg.go:GetSigners:panic",
     "x/settlement/types/msg.go:GetSigners:panic",
     "x/settlement/types/msg.go:GetSigners:panic",
     "x/settlement/types/msg.go:GetSigners:panic",
     "x/settlement/types/msg.go:GetSigners:panic"] := by decide

/-! ### non-vacuity -/

/-- the entry `1/0x1/0x1` (no colon) does not parse, so a vote carrying it under either topic is refused; amounts -5 and
denomination `!` are refused -/
example : parseEntry "1/0x1/0x1".toList = none ∧
    recordBasic (some (-5)) "uusdc".toList "0x00000000000000000000000000000000000000c1".toList "0x1".toList = false ∧
    recordBasic (some 5) "!".toList "0x00000000000000000000000000000000000000c1".toList "0x1".toList = false ∧
    recordBasic none "uusdc".toList "0x00000000000000000000000000000000000000c1".toList "0x1".toList = false ∧
    recordBasic (some (2^256)) "uusdc".toList "0x00000000000000000000000000000000000000c1".toList "0x1".toList = true := by decide

/-- a history with a record of 2^200 whose tenant's treasury is empty: the payout fails, no block panics -/
example :
    let c1 : Str := "0x00000000000000000000000000000000000000c1".toList
    let ops : List Op := [
      .createTenant "a1" "uusdc".toList 1 none,
      .setOwner c1 "0x1".toList (some (some (accHex (.a 3)))),
      .record "a1" 1 "r".toList (some (2^200)) "uusdc".toList thisChain c1 "0x1".toList, .block, .block]
    (outs (fun x => x) (initState 1000000 true) ops).map isOk = [true, true, true, true, true] ∧
    ((run (fun x => x) (initState 1000000 true) ops).st.recs 1).length = 1 := by
  decide +kernel

end Settlus.C06
