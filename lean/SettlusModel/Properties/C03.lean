/-
  C03 - Only a validator or its consented feeder can change that validator's ballot.
  Signature verification is modelled as: the accounts that signed are exactly the signers the transaction requires.
-/
import SettlusModel.Proofs.OracleAuth
import SettlusModel.Query
import SettlusModel.Proofs.ValName
namespace Settlus.C03
open Settlus

/-- the validator check decorator reads the validator from exactly the three oracle message types -/
theorem validator_check_covers_all_oracle_kinds : Facts.validatorCheckKinds = ["MsgVote", "MsgPrevote", "MsgFeederDelegationConsent"] ∧
    Facts.oracleUrls.length = 3 := by decide

/-- the validator check sits before signature verification in the settlus chain, after fee deduction -/
theorem settlus_chain_has_validator_check : "NewSettlusValidatorCheckDecorator" ∈ Facts.settlusChain := by decide

theorem finishSettlus_keeps_or_runs (H : Str → Str) (a1 : AState) (ch : Option (Str × Nat)) (oracle : Bool) (tx : Tx) :
    (finishSettlus H a1 ch oracle tx).a.s.os = a1.s.os ∨
    ∃ a2, runMsgs H a1 tx.msgs = some a2 ∧ (finishSettlus H a1 ch oracle tx).a.s.os = a2.s.os := by
  unfold finishSettlus
  cases hm : runMsgs H a1 tx.msgs with
  | none => exact Or.inl rfl
  | some a2 =>
    simp only
    split
    · exact Or.inl rfl
    · exact Or.inr ⟨a2, rfl, (burn_keeps a2 tx.fee).2.1⟩

theorem feeStep_keeps_os (a a1 : AState) (ch : Str × Nat) (tx : Tx) (h : feeStep a tx = some (a1, ch)) : a1.s.os = a.s.os := by
  unfold feeStep at h
  split at h
  · cases h
  · split at h
    · split at h
      · cases h
      · split at h
        · cases h
        · simp only [Option.some.injEq, Prod.mk.injEq] at h; rw [← h.1]
    · cases h

/-- **a validator's prevote, vote or feeder delegation - under whichever spelling `k` of its address it is stored - changes only
through a transaction signed by its operator account or, for prevotes and votes, by the feeder account delegated to under the
canonical spelling of the validator's address** - for every transaction shape: message lists of any length over all message
kinds, authz exec nested to any depth, explicit fee payers -/
theorem ballot_change_authorised (H : Str → Str) (a : AState) (tx : Tx) (k : String) (hh : a.s.h ≠ 0)
    (hchg : ballotOf (deliverTx H a tx).a.s k ≠ ballotOf a.s k ∨ delegationOf (deliverTx H a tx).a.s k ≠ delegationOf a.s k) :
    ∃ i, decodeVal k = some i ∧
      (opAcc i ∈ tx.signers ∨
       (delegationOf (deliverTx H a tx).a.s k = delegationOf a.s k ∧ ∃ f, delegationOf a.s (valName i) = some f ∧ f ∈ tx.signers)) := by
  have unchanged : ∀ os', os' = a.s.os → ¬ ((alGet os'.prevotes k, alGet os'.votes k) ≠ ballotOf a.s k ∨ alGet os'.feeders k ≠ delegationOf a.s k) := by
    intro os' e; subst e; unfold ballotOf delegationOf; simp
  unfold deliverTx at hchg ⊢
  by_cases hb : (tx.msgs.isEmpty || !basicAll tx.msgs) = true
  · exfalso; simp only [hb, if_true, rejected] at hchg; exact unchanged _ rfl hchg
  · simp only [hb, Bool.false_eq_true, if_false] at hchg ⊢
    cases hr : route tx with
    | generic =>
      exfalso
      simp only [hr] at hchg
      have := (generic_route_leaves_modules_alone H a tx hr hh).1
      unfold deliverTx at this
      simp only [hb, Bool.false_eq_true, if_false, hr] at this
      exact unchanged _ this hchg
    | settlus =>
      simp only [hr] at hchg ⊢
      unfold deliverSettlus at hchg ⊢
      by_cases ho : isOracleTx tx.msgs = true
      · simp only [ho, if_true] at hchg ⊢
        by_cases hc : (oracleValOk a tx && sigsOk tx) = true
        · simp only [hc, if_true] at hchg ⊢
          simp only [Bool.and_eq_true] at hc
          obtain ⟨hval, hsig⟩ := hc
          -- exactly one message, naming validator v, and the fee payer may act for v
          unfold oracleValOk at hval
          split at hval
          · rename_i m p hmsgs hpay
            cases hv : validatorOfOracleMsg m with
            | none => simp [hv] at hval
            | some v =>
              simp only [hv] at hval
              unfold sigsOk at hsig
              have hreq : requiredSigners tx = some tx.signers := by simpa using hsig
              obtain ⟨hms, hfp⟩ := required_contains tx tx.signers hreq
              have hpin : p ∈ tx.signers := hfp p hpay
              -- the run
              rcases finishSettlus_keeps_or_runs H a none true tx with hk | ⟨a2, hrun, hk⟩
              · exfalso
                unfold ballotOf delegationOf at hchg
                rw [hk] at hchg
                exact unchanged _ rfl hchg
              · rw [hmsgs] at hrun
                unfold runMsgs at hrun
                cases he : execMsg H a m with
                | none => simp [he] at hrun
                | some a1 =>
                  simp only [he, runMsgs, Option.some.injEq] at hrun
                  subst hrun
                  obtain ⟨eff1, eff2⟩ := oracle_msg_effect H a a1 m v hv he
                  have hkv : k = v := by
                    by_cases e : k = v
                    · exact e
                    · exfalso
                      have := eff1 k e
                      unfold ballotOf delegationOf at hchg this
                      rw [hk] at hchg
                      rcases hchg with h | h
                      · exact h this.1
                      · exact h this.2
                  subst hkv
                  unfold validateFeeder at hval
                  cases hd : decodeVal k with
                  | none => simp [hd] at hval
                  | some i =>
                    simp only [hd] at hval
                    refine ⟨i, rfl, ?_⟩
                    cases hgv : getVal a.s.vals i with
                    | none => simp [hgv] at hval
                    | some vv =>
                      simp only [hgv, Bool.and_eq_true, Bool.or_eq_true, beq_iff_eq] at hval
                      -- a consent is signed by the operator itself
                      by_cases hcons : ∃ f, m = .op .consent (.consent k f)
                      · obtain ⟨f, hmf⟩ := hcons
                        left
                        have : m.signer = some (opAcc i) := by
                          subst hmf; simp [Msg.signer, hd]
                        exact hms m (by rw [hmsgs]; simp) _ this
                      · have hfe : a1.s.os.feeders = a.s.os.feeders := eff2 (fun f e => hcons ⟨f, e⟩)
                        rcases hval.2 with hop | hdel
                        · left; rw [← hop]; exact hpin
                        · cases hf : alGet a.s.os.feeders (valName i) with
                          | none =>
                            left
                            simp only [hf, Option.getD_none] at hdel
                            rw [hdel]; exact hpin
                          | some f =>
                            right
                            simp only [hf, Option.getD_some] at hdel
                            refine ⟨?_, f, hf, by rw [hdel]; exact hpin⟩
                            unfold delegationOf
                            rw [hk, hfe]
          · simp at hval
        · exfalso
          simp only [hc, Bool.false_eq_true, if_false, rejected] at hchg
          exact unchanged _ rfl hchg
      · -- a settlement-only transaction: its messages are settlement operations, which never touch the oracle state
        exfalso
        simp only [ho, Bool.false_eq_true, if_false] at hchg
        have hs : isSettlementTx tx.msgs = true := by
          unfold route at hr
          by_cases hx : (isOracleTx tx.msgs || isSettlementTx tx.msgs) = true
          · simp only [Bool.or_eq_true] at hx
            rcases hx with h | h
            · exact absurd h ho
            · exact h
          · simp [hx] at hr
        have hall : ∀ m ∈ tx.msgs, isSettlementUrl m.url = true := by
          unfold isSettlementTx at hs
          simp only [Bool.and_eq_true, List.all_eq_true] at hs
          exact hs.2
        cases hf : feeStep a tx with
        | none => simp only [hf, rejected] at hchg; exact unchanged _ rfl hchg
        | some p =>
          obtain ⟨a1, ch⟩ := p
          simp only [hf] at hchg
          have h1 := feeStep_keeps_os a a1 ch tx hf
          by_cases hsg : sigsOk tx = true
          · simp only [hsg, if_true] at hchg
            rcases finishSettlus_keeps_or_runs H a1 (some ch) false tx with hk | ⟨a2, hrun, hk⟩
            · unfold ballotOf delegationOf at hchg
              rw [hk, h1] at hchg
              exact unchanged _ rfl hchg
            · have := (runMsgs_settlement_keeps_os H tx.msgs a1 a2 hall hrun).1
              unfold ballotOf delegationOf at hchg
              rw [hk, this, h1] at hchg
              exact unchanged _ rfl hchg
          · simp only [hsg, Bool.false_eq_true, if_false, rejected] at hchg
            exact unchanged _ rfl hchg

/-- corollary: a stranger - neither the operator nor the feeder delegated to under the canonical spelling - changes nothing,
under any spelling; in particular an account named only by a consent stored under the upper-case spelling is a stranger -/
theorem stranger_changes_nothing (H : Str → Str) (a : AState) (tx : Tx) (k : String) (i : Nat) (hh : a.s.h ≠ 0)
    (hk : decodeVal k = some i) (hop : opAcc i ∉ tx.signers) (hfe : ∀ f, delegationOf a.s (valName i) = some f → f ∉ tx.signers) :
    ballotOf (deliverTx H a tx).a.s k = ballotOf a.s k ∧ delegationOf (deliverTx H a tx).a.s k = delegationOf a.s k := by
  by_cases hb : ballotOf (deliverTx H a tx).a.s k = ballotOf a.s k
  · by_cases hd : delegationOf (deliverTx H a tx).a.s k = delegationOf a.s k
    · exact ⟨hb, hd⟩
    · exfalso
      obtain ⟨j, hj, hauth⟩ := ballot_change_authorised H a tx k hh (Or.inr hd)
      rw [hk] at hj; cases hj
      rcases hauth with h | ⟨_, f, hf, hfs⟩
      · exact hop h
      · exact hfe f hf hfs
  · exfalso
    obtain ⟨j, hj, hauth⟩ := ballot_change_authorised H a tx k hh (Or.inl hb)
    rw [hk] at hj; cases hj
    rcases hauth with h | ⟨_, f, hf, hfs⟩
    · exact hop h
    · exact hfe f hf hfs

/-- **the FeederDelegation query names the one account, besides the operator, that the admission check lets vote for a validator** -/
theorem feeder_query_is_the_authorised_account (s : State) (f : Acct) (v : String) (i : Nat) (val : Val)
    (hv : decodeVal v = some i) (hval : getVal s.vals i = some val) (hb : val.bonded = true) :
    validateFeeder s f v = true ↔ (f = opAcc i ∨ qFeeder s (valName i) = some f) := by
  unfold validateFeeder qFeeder
  simp only [hv, hval, hb, Bool.true_and, decodeVal_valName, Option.map_some, Bool.or_eq_true, beq_iff_eq, Option.some.injEq]


/-- **a delegation stored under any spelling other than the canonical one authorises nobody**: the admission check answers the same
whatever is stored under such a key (this is what a consent sent under the upper-case spelling of the validator's address leaves behind) -/
theorem noncanonical_delegation_is_inert (s : State) (k : String) (x : Acct) (hk : ∀ i, valName i ≠ k) (f : Acct) (v : String) :
    validateFeeder { s with os := { s.os with feeders := alSet s.os.feeders k x } } f v = validateFeeder s f v := by
  unfold validateFeeder
  cases hd : decodeVal v with
  | none => rfl
  | some i =>
    simp only
    rw [alGet_alSet_ne _ _ _ _ (hk i)]

example : ∀ i, valName i ≠ "V3" := by
  intro i h
  have := congrArg decodeVal h
  rw [decodeVal_valName] at this
  have h2 : ("v" ++ toString i).toList = "V3".toList := congrArg String.toList h
  rw [String.toList_append] at h2
  exact absurd (List.head_eq_of_cons_eq h2) (by decide)

end Settlus.C03
