/-
  C17 - Genesis export then import reproduces settlement and oracle state.
  The document travels as JSON: free-form strings (request ids, prevote hashes) pass through `jsonStr`, which replaces whatever
  is not UTF-8; the round trip is the identity because transactions only ever store valid UTF-8 there (Proofs/Utf8).
  The bech32 and hex codecs are exercised by the genesis engine, not modelled.
-/
import SettlusModel.Proofs.GenesisLemmas
import SettlusModel.Proofs.Utf8
import SettlusModel.Generated.Facts
namespace Settlus.C17
open Settlus

/-- what a reachable state guarantees to the exporter -/
structure Exportable (s : State) : Prop where
  inv : SInv s.st
  cov : Covers s.st
  par : OParamsOk s
  utf : Utf8Ok s

theorem default_oparams_valid :
    oparamsValid defaultOParams.votePeriod defaultOParams.threshold defaultOParams.slashFraction defaultOParams.slashWindow defaultOParams.maxMiss = true := by
  decide

theorem reachable_oparams (H : Str → Str) (ops : List Op) (hp : ∀ o ∈ ops, opParamsOk o) : ∀ (s : State), OParamsOk s → OParamsOk (run H s ops) := by
  induction ops with
  | nil => intro s h; exact h
  | cons op r ih =>
    intro s h
    exact ih (fun o ho => hp o (List.mem_cons_of_mem _ ho)) _ (step_oparams H s op (hp op List.mem_cons_self) h)

theorem reachable_exportable (H : Str → Str) (pr : Nat) (c : Bool) (ops : List Op) (hops : ∀ o ∈ ops, opUtf8 o)
    (hp : ∀ o ∈ ops, opParamsOk o) :
    Exportable (run H (initState pr c) ops) := by
  obtain ⟨h1, h2⟩ := reachable_covers H pr c ops
  refine ⟨h1, h2, reachable_oparams H ops hp _ ?_, reachable_utf8 H pr c ops hops⟩
  unfold OParamsOk
  exact default_oparams_valid

theorem allRecs_mem (st : SState) (p : Nat × Rec) (h : p ∈ allRecs st) : p.2 ∈ st.recs p.1 := by
  unfold allRecs at h
  simp only [List.mem_flatMap, List.mem_map] at h
  obtain ⟨t, _, r, hr, e⟩ := h
  rw [← e]; exact hr

/-- **the JSON step changes nothing in a document exported from a reachable state** -/
theorem json_is_identity_on_exports (s : State) (h : Utf8Ok s) : jsonG (exportG s) = exportG s := by
  unfold jsonG exportG
  simp only
  congr 1
  · conv => rhs; rw [← List.map_id (allRecs s.st)]
    apply List.map_congr_left
    intro p hp
    have := h.reqs p.1 p.2 (allRecs_mem _ p hp)
    rw [jsonStr_of_valid _ this]; rfl
  · conv => rhs; rw [← List.map_id s.os.prevotes]
    apply List.map_congr_left
    intro p hp
    rw [jsonStr_of_valid _ (h.hashes p hp)]; rfl

/-- without the validation the JSON step is not the identity: a request id of the two bytes FF FE comes back as two U+FFFD -/
theorem json_replaces_what_is_not_utf8 :
    jsonStr [Char.ofNat 0xFF, Char.ofNat 0xFE] = fffd ++ fffd ∧ validUtf8 [Char.ofNat 0xFF, Char.ofNat 0xFE] = false := by
  constructor
  · simp [jsonStr, u8, fffd]
  · simp [validUtf8, u8]

theorem allRecs_eq_blocks (st : SState) : allRecs st = blocks st.recs st.recTenants := rfl

/-- the side of the tie that is read off the code on every run: both `ValidateBasic` functions accept an ordinary string and refuse one
that is not UTF-8 in the field that reaches the genesis document (observed by the extractor by calling them) -/
theorem utf8_guards_in_place : Facts.utf8Guards =
    ["MsgRecord.RequestId: ascii accepted=true non-utf8 refused=true", "MsgPrevote.Hash: ascii accepted=true non-utf8 refused=true"] := by
  decide


/-- **import of an export succeeds and reproduces the state**: parameters, tenants, every pending record with its id, request id,
amount, recipients, NFT and creation height in the same per-tenant order, the request-id index, feeder delegations, miss
counters and ballots -/
theorem import_export_reproduces (base s : State) (he : Exportable s) :
    ∃ s', importG base (jsonG (exportG s)) = some s' ∧
      s'.st.params = s.st.params ∧ s'.st.tenants = s.st.tenants ∧
      (∀ t, s'.st.recs t = s.st.recs t ∧ s'.st.index t = s.st.index t) ∧
      s'.os.params = s.os.params ∧ s'.os.prevotes = s.os.prevotes ∧ s'.os.votes = s.os.votes ∧
      s'.os.miss = s.os.miss ∧ s'.os.feeders = s.os.feeders ∧
      allRecs s'.st = allRecs s.st := by
  have hreq : ∀ t, ((s.st.recs t).map (·.req)).Nodup := fun t => (he.inv t).reqs
  have hid : ∀ t, ((s.st.recs t).map (·.id)).Nodup := fun t => pairwise_lt_nodup _ (he.inv t).asc
  let st0 : SState := { params := s.st.params, tenants := [], recs := fun _ => [], index := fun _ => [], last := fun _ => none, recTenants := [] }
  obtain ⟨st1, i1, i2, i3, i4, i5, i6⟩ := importUtxrs_all s.st.recs hreq hid s.st.recTenants he.cov.1 st0
    (fun _ _ => ⟨rfl, rfl⟩) (fun x hx => by simp [st0] at hx)
  have hpar := he.par
  unfold OParamsOk at hpar
  have hrecs : ∀ t, st1.recs t = s.st.recs t ∧ st1.index t = s.st.index t := by
    intro t
    by_cases hm : t ∈ s.st.recTenants
    · exact ⟨(i2 t hm).1, by rw [(i2 t hm).2, (he.inv t).idx]⟩
    · have hnil : s.st.recs t = [] := by
        cases hr : s.st.recs t with
        | nil => rfl
        | cons x r => exact absurd (he.cov.2 t (by rw [hr]; simp)) hm
      rw [(i3 t hm).1, (i3 t hm).2]
      refine ⟨by simp [st0, hnil], ?_⟩
      rw [(he.inv t).idx, hnil]; rfl
  let os' : OState := { params := s.os.params, round := none, prevotes := s.os.prevotes, votes := s.os.votes, miss := s.os.miss, feeders := s.os.feeders }
  let sA : State := { base with st := { st1 with tenants := s.st.tenants }, os := os' }
  let s' : State := { sA with os := { sA.os with round := some (nextRoundInfo { sA with h := sA.h - 1 }) } }
  refine ⟨s', ?_, ?_, rfl, hrecs, rfl, rfl, rfl, rfl, rfl, ?_⟩
  · rw [json_is_identity_on_exports s he.utf]
    unfold importG exportG
    simp only [allRecs_eq_blocks]
    show (match importUtxrs (blocks s.st.recs s.st.recTenants) st0 with
      | none => none
      | some st1 => _) = some _
    rw [i1]
    simp only [hpar, Bool.not_true, Bool.false_eq_true, if_false]
    rfl
  · show st1.params = s.st.params
    rw [i4]
  · show allRecs { st1 with tenants := s.st.tenants } = allRecs s.st
    simp only [allRecs_eq_blocks]
    rw [i6]
    simp only [st0, List.nil_append]
    have e : blocks st1.recs (s.st.recTenants.filter (fun t => !(s.st.recs t).isEmpty)) =
        blocks s.st.recs (s.st.recTenants.filter (fun t => !(s.st.recs t).isEmpty)) := by
      unfold blocks
      generalize (s.st.recTenants.filter (fun t => !(s.st.recs t).isEmpty)) = l
      induction l with
      | nil => rfl
      | cons t l ih => simp only [List.flatMap_cons, ih, (hrecs t).1]
    rw [e, flatMap_filter_nonempty]

/-- **exporting again from the new chain yields the same genesis document** -/
theorem reexport_is_identical (base s : State) (he : Exportable s) :
    ∃ s', importG base (jsonG (exportG s)) = some s' ∧ exportG s' = exportG s := by
  obtain ⟨s', h1, h2, h3, _, h5, h6, h7, h8, h9, h10⟩ := import_export_reproduces base s he
  refine ⟨s', h1, ?_⟩
  unfold exportG
  rw [h2, h3, h5, h6, h7, h8, h9, h10]

/-- the full statement of the property: for EVERY state reachable by a transaction history the round trip succeeds and is the
identity on the export. It is **false of the code** (known finding, below): governance can store oracle parameters that fit one by one
and not together, and the import refuses them. -/
def RoundTripAlways : Prop :=
  ∀ (H : Str → Str) (pr : Nat) (c : Bool) (ops : List Op), (∀ o ∈ ops, opUtf8 o) → ∀ base : State,
    ∃ s', importG base (jsonG (exportG (run H (initState pr c) ops))) = some s' ∧ exportG s' = exportG (run H (initState pr c) ops)

/-- **the part that holds**: for every state reachable by a transaction history whose oracle parameter changes fit together (every
change made through the module's own `SetParams`, and every governance proposal that `Params.Validate` would pass) the round trip
succeeds (no panic) and is the identity on the export -/
theorem roundtrip_on_reachable_partial (H : Str → Str) (pr : Nat) (c : Bool) (ops : List Op) (hops : ∀ o ∈ ops, opUtf8 o)
    (hp : ∀ o ∈ ops, opParamsOk o) (base : State) :
    ∃ s', importG base (jsonG (exportG (run H (initState pr c) ops))) = some s' ∧ exportG s' = exportG (run H (initState pr c) ops) :=
  reexport_is_identical base _ (reachable_exportable H pr c ops hops hp)

/-- a governance proposal is held to less than the import: vote period 7 with a slash window of 8 passes every single-value check -/
theorem governance_accepts_what_import_refuses :
    oparamsKeyValid 7 (one18 / 2 : Nat) 0 8 3 = true ∧ oparamsValid 7 (one18 / 2 : Nat) 0 8 3 = false := by decide

/-- the import of a document whose oracle parameters do not fit together panics, whatever else it holds -/
theorem import_refuses_inconsistent_params (base : State) (g : Genesis)
    (h : oparamsValid g.oparams.votePeriod g.oparams.threshold g.oparams.slashFraction g.oparams.slashWindow g.oparams.maxMiss = false) :
    importG base g = none := by
  unfold importG
  simp only [h, Bool.not_false, if_true]
  split <;> rfl

/-- **the full statement is false of the code** (recorded as a known finding): one accepted governance proposal, then export and import -/
theorem roundtrip_always_false : ¬ RoundTripAlways := by
  intro h
  obtain ⟨s', hs, _⟩ := h (fun x => x) 1000000 true [Op.setOParams 7 (one18 / 2 : Nat) 0 8 3]
    (by intro o ho; simp only [List.mem_cons, List.mem_nil_iff, or_false] at ho; subst ho; trivial) (initState 1000000 true)
  rw [import_refuses_inconsistent_params] at hs
  · cases hs
  · decide

/-- the side condition is met by every history of transactions: only `inject` (a record written by an earlier import) carries it -/
example : ∀ o ∈ [Op.record "a1" 1 [Char.ofNat 0xFF] (some 5) [] [] [] [], Op.prevote "o1" "v1" [Char.ofNat 0xFF] 0, Op.block], opUtf8 o := by
  intro o ho
  simp only [List.mem_cons, List.mem_nil_iff, or_false] at ho
  rcases ho with h | h | h <;> subst h <;> trivial

end Settlus.C17
