/-
  C13 - Tenants are isolated from one another.

  Two executions are compared: a history, and the same history with the messages addressed to other tenants left out. The relation
  `Sim t F` says that the two states agree on everything tenant `t`'s messages and settle loop read: its tenant entry, its pending
  records, request-id index and id counter, its treasury, the accounts it deposits from, the oracle's ballots and parameters, the
  validator set, the NFT owners. `F` marks the bank holders only the other tenants move - their treasuries, the accounts they deposit
  from, the recipients of their records - whose balances are allowed to differ.
-/
import SettlusModel.Proofs.IsolationRun
namespace Settlus.C13
open Settlus

/-! ### one operation -/

/-- **a message addressed to another tenant changes nothing tenant `t` can observe** - whether it succeeds or fails -/
theorem foreign_message_invisible (H : Str → Str) (t : Nat) (F : Holder → Prop) (hF3 : ∀ t', t' ≠ t → F (.treasury t')) (a b : State) (hs : Sim t F a b)
    (op : Op) (t' : Nat) (hne : t' ≠ t) (haddr : addressee op = some t')
    (hdep : ∀ sender amt d, op = .deposit sender t' amt d → ∀ acc, decodeAcc sender = some acc → F (.acct acc)) :
    Sim t F (step H a op).st b :=
  foreign_sim H t F hF3 a b hs op t' hne haddr hdep

/-- a message addressed to `t` itself: which branch it takes, what it answers and what it leaves behind for `t` are the same in both runs -/
def OwnMsg (t : Nat) (F : Holder → Prop) (op : Op) : Prop :=
  addressee op = some t ∧ ∀ sender amt d, op = .deposit sender t amt d → ∀ acc, decodeAcc sender = some acc → ¬ F (.acct acc)

theorem own_message_same (H : Str → Str) (t : Nat) (F : Holder → Prop) (hF1 : ¬ F (.treasury t)) (a b : State) (hs : Sim t F a b) (op : Op) (hown : OwnMsg t F op) :
    (step H a op).out = (step H b op).out ∧ Sim t F (step H a op).st (step H b op).st := by
  obtain ⟨haddr, hdep⟩ := hown
  cases op <;> simp only [addressee, Option.some.injEq, reduceCtorEq] at haddr
  case deposit sender t' amt d => subst haddr; exact deposit_sim t' F hF1 a b hs sender amt d (hdep sender amt d rfl)
  case record sender t' req amt d ch c tok => subst haddr; exact record_sim t' F a b hs sender req amt d ch c tok
  case cancel sender t' req => subst haddr; exact cancel_sim t' F a b hs sender req
  case addAdmin sender t' n => subst haddr; exact addAdmin_sim t' F a b hs sender n
  case removeAdmin sender t' n => subst haddr; exact removeAdmin_sim t' F a b hs sender n
  case setPeriod sender t' p => subst haddr; exact setPeriod_sim t' F a b hs sender p

/-! ### the settle loop -/

/-- **the settle loop of a tenant depends on the bank only through that tenant's treasury** -/
theorem settle_loop_reads_only_own_treasury (h : Nat) (t : Tenant) (l : List Rec) (b₁ b₂ : Bank) (c₁ c₂ : Nat) (idx : List (Str × Nat))
    (hb : ∀ d, b₁ (.treasury t.id) d = b₂ (.treasury t.id) d) :
    (settleQ h t none l b₁ c₁ idx).remaining = (settleQ h t none l b₂ c₂ idx).remaining ∧
    (settleQ h t none l b₁ c₁ idx).events = (settleQ h t none l b₂ c₂ idx).events ∧
    (settleQ h t none l b₁ c₁ idx).settled = (settleQ h t none l b₂ c₂ idx).settled ∧
    (∀ d, (settleQ h t none l b₁ c₁ idx).bank (.treasury t.id) d = (settleQ h t none l b₂ c₂ idx).bank (.treasury t.id) d) := by
  obtain ⟨i1, _, i3, i4, _, _, i7, _⟩ := settleQ_congr h t l b₁ b₂ c₁ c₂ idx hb
  exact ⟨i1, i3, i4, i7⟩

/-- **a tenant's settle loop - failing, short of funds or not - writes only its own treasury and its own recipients** -/
theorem settle_loop_writes_only_own (h : Nat) (t : Tenant) (f : Option Nat) (w : Holder) (hw : w ≠ .treasury t.id) (l : List Rec) (b : Bank) (c : Nat)
    (idx : List (Str × Nat)) (hn : ∀ r ∈ l, ∀ x ∈ validRcpts r, holderOfHex x.addr ≠ w) (d : Str) :
    (settleQ h t f l b c idx).bank w d = b w d :=
  settleQ_bank_frame h t f w hw l b c idx hn d

/-! ### whole histories -/

/-- an operation of the full history: `true` marks a message addressed to another tenant (absent from the reduced history) -/
abbrev Marked := Op × Bool

def keep (l : List Marked) : List Op := (l.filter (fun p => !p.2)).map (·.1)

/-- what a history may contain: set-up actions and oracle messages, messages addressed to `t`, block boundaries - and, marked,
messages addressed to other tenants whose depositors are accounts `t` does not use -/
def Admissible (t : Nat) (F : Holder → Prop) (p : Marked) : Prop :=
  if p.2 then ∃ t', t' ≠ t ∧ addressee p.1 = some t' ∧ (∀ sender amt d, p.1 = .deposit sender t' amt d → ∀ acc, decodeAcc sender = some acc → F (.acct acc))
  else isSetup p.1 = true ∨ p.1 = .block ∨ OwnMsg t F p.1

/-- at every block boundary of a run, the recipients of the other tenants' records are holders `t` does not use -/
def RcptsApart (H : Str → Str) (t : Nat) (F : Holder → Prop) : State → List Op → Prop
  | _, [] => True
  | s, op :: r => (op = .block → ForeignRcpts t F (oracleEndBlock s).st) ∧ RcptsApart H t F (step H s op).st r

/-- the outputs of the operations both histories contain, as the full history produces them -/
def outsKept (H : Str → Str) : State → List Marked → List Out
  | _, [] => []
  | s, p :: r => if p.2 then outsKept H (step H s p.1).st r else (step H s p.1).out :: outsKept H (step H s p.1).st r

def outs (H : Str → Str) : State → List Op → List Out
  | _, [] => []
  | s, op :: r => (step H s op).out :: outs H (step H s op).st r

theorem admissible_isTx (t : Nat) (F : Holder → Prop) (p : Marked) (h : Admissible t F p) : IsTx p.1 := by
  unfold Admissible at h
  obtain ⟨op, m⟩ := p
  cases op <;> simp only [IsTx]
  cases m
  · simp only [Bool.false_eq_true, if_false, isSetup, OwnMsg, addressee, reduceCtorEq, false_and, or_self] at h
  · simp only [if_true, addressee, reduceCtorEq, false_and, and_false, exists_false] at h

theorem coinsOk_after_oracle (s : State) (h : AllRecOk s) : CoinsOk (oracleEndBlock s).st := by
  intro k r hr
  rcases oracleEndBlock_recs s k with e | ⟨acc, u, e⟩
  · rw [e] at hr
    exact ⟨(h k r hr).2.1, by have := (h k r hr).1; omega⟩
  · rw [e] at hr
    obtain ⟨r0, hr0, rfl⟩ := List.mem_map.mp hr
    have := fillRec_ok acc u r0 (h k r0 hr0)
    exact ⟨this.2.1, by have := this.1; omega⟩

theorem isolation_gen (H : Str → Str) (t : Nat) (F : Holder → Prop) (hF1 : ¬ F (.treasury t)) (hF3 : ∀ t', t' ≠ t → F (.treasury t')) (hp : ¬ F .pool) :
    ∀ (l : List Marked) (a b : State), (∀ p ∈ l, Admissible t F p) → Sim t F a b → AllRecOk a → AllRecOk b → TenantsAsc a → TenantsAsc b →
      RcptsApart H t F a (l.map (·.1)) → RcptsApart H t F b (keep l) →
      outs H b (keep l) = outsKept H a l ∧ Sim t F (run H a (l.map (·.1))) (run H b (keep l)) := by
  intro l
  induction l with
  | nil => intro a b _ hs _ _ _ _ _ _; exact ⟨rfl, hs⟩
  | cons p r ih =>
    intro a b hadm hs hra hrb hta htb hfa hfb
    have hp0 := hadm p (by simp)
    have hadm' : ∀ q ∈ r, Admissible t F q := fun q hq => hadm q (by simp [hq])
    have htx := admissible_isTx t F p hp0
    obtain ⟨op, m⟩ := p
    cases m
    · -- an operation of both histories
      have hk : keep ((op, false) :: r) = op :: keep r := by simp [keep]
      rw [hk] at hfb ⊢
      simp only [List.map_cons, run, outs, outsKept, Bool.false_eq_true, if_false]
      simp only [List.map_cons, RcptsApart] at hfa hfb
      have key : (step H a op).out = (step H b op).out ∧ Sim t F (step H a op).st (step H b op).st := by
        simp only [Admissible, Bool.false_eq_true, if_false] at hp0
        rcases hp0 with h1 | h1 | h1
        · exact setup_sim H t F a b hs op h1
        · subst h1
          simp only [step]
          exact blockStep_sim t F hF1 hF3 hp a b hs (pairwise_lt_nodup _ hta) (pairwise_lt_nodup _ htb)
            (coinsOk_after_oracle a hra) (coinsOk_after_oracle b hrb) (hfa.1 rfl) (hfb.1 rfl)
        · exact own_message_same H t F hF1 a b hs op h1
      obtain ⟨i1, i2⟩ := ih (step H a op).st (step H b op).st hadm' key.2 (step_allRecOk H a op htx hra) (step_allRecOk H b op htx hrb)
        (step_tenantsAsc H a op hta) (step_tenantsAsc H b op htb) hfa.2 hfb.2
      exact ⟨by rw [i1, key.1], i2⟩
    · -- a message addressed to another tenant: only the full history executes it
      have hk : keep ((op, true) :: r) = keep r := by simp [keep]
      rw [hk] at hfb ⊢
      simp only [List.map_cons, run, outsKept, if_true]
      simp only [List.map_cons, RcptsApart] at hfa
      simp only [Admissible, if_true] at hp0
      obtain ⟨t', hne, haddr, hdep⟩ := hp0
      have hs' := foreign_sim H t F hF3 a b hs op t' hne haddr hdep
      exact ih (step H a op).st b hadm' hs' (step_allRecOk H a op htx hra) hrb (step_tenantsAsc H a op hta) htb hfa.2 hfb

theorem sim_refl (t : Nat) (F : Holder → Prop) (s : State) (hf : s.faultAt = none) : Sim t F s s :=
  ⟨rfl, rfl, rfl, rfl, rfl, rfl, rfl, rfl, rfl, rfl, rfl, rfl, rfl, hf, hf, rfl, rfl, rfl, rfl, rfl, rfl, fun _ _ _ => rfl⟩

/-- **tenant isolation over whole histories**: take any history from genesis - messages of both modules, set-up actions, block
boundaries, in any interleaving - and remove from it the messages addressed to tenants other than `t`. If the other tenants'
depositors and recipients are accounts `t` does not deposit from, then every operation that remains answers exactly as it did in
the full history, and at the end `t`'s tenant entry, pending records, request-id index, id counter and treasury balance (and every
balance outside `F`) are the same - whether or not the other tenants transacted, ran out of funds or had failing payouts -/
theorem tenants_are_isolated (H : Str → Str) (pr : Nat) (c : Bool) (t : Nat) (F : Holder → Prop)
    (hF1 : ¬ F (.treasury t)) (hF3 : ∀ t', t' ≠ t → F (.treasury t')) (hp : ¬ F .pool)
    (l : List Marked) (hadm : ∀ p ∈ l, Admissible t F p)
    (hfa : RcptsApart H t F (initState pr c) (l.map (·.1))) (hfb : RcptsApart H t F (initState pr c) (keep l)) :
    outs H (initState pr c) (keep l) = outsKept H (initState pr c) l ∧
    Sim t F (run H (initState pr c) (l.map (·.1))) (run H (initState pr c) (keep l)) := by
  apply isolation_gen H t F hF1 hF3 hp l _ _ hadm (sim_refl t F _ rfl) _ _ _ _ hfa hfb
  · intro k r hr; simp [initState] at hr
  · intro k r hr; simp [initState] at hr
  · simp [TenantsAsc, initState]
  · simp [TenantsAsc, initState]

/-- what the relation gives the tenant at the end: the same entry, records, index, counter and treasury -/
theorem sim_view (t : Nat) (F : Holder → Prop) (hF1 : ¬ F (.treasury t)) (a b : State) (hs : Sim t F a b) :
    findTenant a.st.tenants t = findTenant b.st.tenants t ∧ a.st.recs t = b.st.recs t ∧ a.st.index t = b.st.index t ∧
    a.st.last t = b.st.last t ∧ ∀ d, a.bank (.treasury t) d = b.bank (.treasury t) d :=
  ⟨hs.ten, hs.recs, hs.index, hs.last, fun d => hs.bank _ d hF1⟩

/-! ### non-vacuity -/

/-- tenant 1 (a1, NFT 0x1 owned by a3) and tenant 2 (a2, NFT 0x2 owned by a4, treasury empty: its payout fails every block):
tenant 1's record is paid in both histories, with the same outputs -/
example :
    let c1 : Str := "0x00000000000000000000000000000000000000c1".toList
    let l : List Marked := [
      (.createTenant "a1" "uusdc".toList 1 none, false), (.createTenant "a2" "uusdc".toList 1 none, false),
      (.fund "a1" 1000 "uusdc".toList, false), (.deposit "a1" 1 (some 100) "uusdc".toList, false),
      (.setOwner c1 "0x1".toList (some (some (accHex (.a 3)))), false), (.setOwner c1 "0x2".toList (some (some (accHex (.a 4)))), false),
      (.record "a2" 2 "x".toList (some 50) "uusdc".toList thisChain c1 "0x2".toList, true),
      (.record "a1" 1 "r".toList (some 40) "uusdc".toList thisChain c1 "0x1".toList, false),
      (.block, false), (.block, false)]
    let full := run (fun x => x) (initState 1000000 true) (l.map (·.1))
    let alone := run (fun x => x) (initState 1000000 true) (keep l)
    full.bank (.treasury 1) "uusdc".toList = 60 ∧ alone.bank (.treasury 1) "uusdc".toList = 60 ∧
    (full.st.recs 2).length = 1 ∧ (alone.st.recs 2).length = 0 ∧ full.st.recs 1 = [] ∧ alone.st.recs 1 = [] ∧
    outs (fun x => x) (initState 1000000 true) (keep l) = outsKept (fun x => x) (initState 1000000 true) l := by
  decide +kernel

end Settlus.C13
