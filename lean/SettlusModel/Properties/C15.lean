/-
  C15 - Oracle misses are evaluated and reset at the close of every slash window.
-/
import SettlusModel.Proofs.Arith
import SettlusModel.Chain
namespace Settlus.C15
open Settlus

/-- parameter sets accepted by the oracle's `Params.Validate` (the clauses this property needs) -/
def ValidParams (p w m : Nat) : Prop := 0 < p ∧ 0 < w ∧ p ≤ w ∧ w % p = 0 ∧ 0 < m ∧ m < w

theorem validParams_of_oparamsValid (vp : Nat) (thr frac : Int) (w m : Nat) (h : oparamsValid vp thr frac w m = true) :
    ValidParams vp w m := by
  unfold oparamsValid at h
  simp only [Bool.and_eq_true, bne_iff_ne, ne_eq, decide_eq_true_eq, beq_iff_eq] at h
  unfold ValidParams
  omega

/-- a height at which the oracle tallies: the last block of a round -/
def IsTally (h p : Nat) : Prop := h % (p * 2) = p * 2 - 1

/-- **Every slash window is closed at the first tally at or after its last block.**
For every valid parameter set and every window index `i ≥ 1` there is exactly one tally height in
`[i·w, i·w + 2p)` - the first tally at or after the window's last block `i·w` - and the closing test fires there.
Windows shorter than a round fall into the same interval and share that tally. -/
theorem window_closed_at_first_tally (p w m i : Nat) (hv : ValidParams p w m) (hi : 1 ≤ i) :
    ∃ h, IsTally h p ∧ i * w ≤ h ∧ h < i * w + p * 2 ∧ slashWindowClosing h p w = true ∧
      (∀ h', IsTally h' p → i * w ≤ h' → h ≤ h') := by
  obtain ⟨hp, hw, _⟩ := hv
  obtain ⟨h, h1, h2, h3⟩ := tally_exists_in_round (i * w) p hp
  refine ⟨h, h3, h1, h2, (closing_iff h p w hp hw).mpr ⟨i, hi, h1, h2⟩, ?_⟩
  intro h' t' ge'
  by_cases c : h' < i * w + p * 2
  · have := tally_unique_in_round (i * w) p h h' hp h1 h2 h3 ge' c t'
    omega
  · omega

/-- **The oracle closes a window at no other time**: if the closing test fires at a tally height, that height is the
first tally at or after some window's last block. -/
theorem closes_only_at_first_tally (p w m h : Nat) (hv : ValidParams p w m) (ht : IsTally h p)
    (hc : slashWindowClosing h p w = true) :
    ∃ i, 1 ≤ i ∧ i * w ≤ h ∧ (∀ h', IsTally h' p → i * w ≤ h' → h ≤ h') := by
  obtain ⟨hp, hw, _⟩ := hv
  obtain ⟨i, hi, h1, h2⟩ := (closing_iff h p w hp hw).mp hc
  refine ⟨i, hi, h1, ?_⟩
  intro h' t' ge'
  by_cases c : h' < i * w + p * 2
  · have := tally_unique_in_round (i * w) p h h' hp h1 h2 ht ge' c t'
    omega
  · omega

/-- the closing test the model uses is the function translated from the Go source -/
theorem closing_is_the_code (h p w : Nat) (hh : h < two64 / 2) (hp : p * 2 < two64) :
    Gen.slashWindowClosing (h : Int) p w = slashWindowClosing h p w := slashWindowClosing_translated h p w hh hp

/-! ### the end-blocker -/

/-- outside a closing tally the oracle slashes and jails nobody -/
theorem no_slash_unless_closing (s : State)
    (hn : ¬ ((s.h : Int) = voteEnd s.h s.os.params.votePeriod ∧ slashWindowClosing s.h s.os.params.votePeriod s.os.params.slashWindow = true)) :
    (oracleEndBlock s).st.vals = s.vals ∧ (oracleEndBlock s).jailed = [] := by
  unfold oracleEndBlock
  by_cases ht : (s.h : Int) = voteEnd s.h s.os.params.votePeriod
  · have hc : slashWindowClosing s.h s.os.params.votePeriod s.os.params.slashWindow = false := by
      cases h : slashWindowClosing s.h s.os.params.votePeriod s.os.params.slashWindow <;> simp_all
    simp [ht, hc]
  · simp [ht]

/-- at a closing tally every miss counter restarts from zero -/
theorem counters_reset_at_close (s : State) (ht : (s.h : Int) = voteEnd s.h s.os.params.votePeriod)
    (hc : slashWindowClosing s.h s.os.params.votePeriod s.os.params.slashWindow = true) :
    (oracleEndBlock s).st.os.miss = [] := by
  unfold oracleEndBlock
  simp [ht, hc]

/-- at a non-tally height miss counters are untouched -/
theorem counters_untouched_off_tally (s : State) (ht : ¬ (s.h : Int) = voteEnd s.h s.os.params.votePeriod) :
    (oracleEndBlock s).st.os.miss = s.os.miss := by
  unfold oracleEndBlock
  simp [ht]

/-- one validator's treatment when a window closes: slashed by the configured fraction and jailed exactly when its
counter exceeds the maximum and it is bonded and not jailed -/
theorem slash_one (s : State) (vals : List Val) (key : String) (cnt i : Nat) (v : Val)
    (hk : decodeVal key = some i) (hv : getVal vals i = some v) :
    (slashAll { s with vals := vals } [(key, cnt)]) =
      if cnt > s.os.params.maxMiss ∧ v.bonded = true ∧ v.jailed = false
      then vals.set i (slashVal s.powerReduction s.constantPower s.os.params.slashFraction v) else vals := by
  unfold slashAll
  simp only [List.foldl_cons, List.foldl_nil, hk, hv]
  by_cases c1 : cnt > s.os.params.maxMiss <;> cases hb : v.bonded <;> cases hj : v.jailed <;> simp [c1, hb, hj]

/-- a slashed validator is jailed and loses at most the configured fraction of its counted stake -/
theorem slashVal_effect (pr : Nat) (c : Bool) (frac : Nat) (v : Val) :
    (slashVal pr c frac v).jailed = true ∧ (slashVal pr c frac v).tokens ≤ v.tokens ∧
    v.tokens - (slashVal pr c frac v).tokens = min (powerOf pr c v * pr * frac / one18) v.tokens := by
  unfold slashVal
  simp only [true_and]
  generalize powerOf pr c v * pr * frac / one18 = amt
  omega

/-- non-vacuity: the default parameters (10, 100000, 60) are valid, and window 1 closes at height 100019 -/
example : ValidParams 10 100000 60 := by unfold ValidParams; decide
example : slashWindowClosing 100019 10 100000 = true ∧ IsTally 100019 10 := by unfold IsTally; decide

end Settlus.C15
