/-
  C19 - The NFT identity recorded is the NFT identity submitted.
  Contract addresses: preserved. Token ids: preserved below 2^160 (partial); above, the pinned code collapses ids that are
  congruent modulo 2^160 (known finding F16) - proved here for all such pairs, with a concrete accepted witness.
-/
import SettlusModel.Proofs.Hex
import SettlusModel.Settlement
namespace Settlus.C19
open Settlus

/-- the identity stored, shown in queries and events, and published to feeders for a submitted hex string (the model stores
`normalizeHex` of the contract address and of the token id): its 40 digits as a number -/
def storedValue (submitted : Str) : Nat := hexStrVal ((normalizeHex submitted).drop 2)

/-- a contract address the record message accepts (40 hex digits behind "0x") keeps its value: any casing, no information lost -/
theorem contract_identity_preserved (digits : Str) (hd : allHex digits) (hl : digits.length = 40) :
    storedValue ('0' :: 'x' :: digits) = hexStrVal digits := by
  unfold storedValue
  rw [(normalizeHex_val digits hd).1]
  apply Nat.mod_eq_of_lt
  have : hexStrVal digits < 16 ^ digits.length := by
    clear hl
    induction digits with
    | nil => simp [hexStrVal]
    | cons c r ih =>
      rw [hexStrVal_cons]
      have := hexVal_lt c
      have hr := ih (fun x hx => hd x (by simp [hx]))
      simp only [List.length_cons, Nat.pow_succ]
      have : hexVal c * 16 ^ r.length ≤ 15 * 16 ^ r.length := Nat.mul_le_mul_right _ (by omega)
      omega
  rw [hl] at this
  have e : (16 : Nat) ^ 40 = 2 ^ 160 := by decide
  omega

/-- distinct contract addresses stay distinct -/
theorem contract_identity_injective (d₁ d₂ : Str) (h₁ : allHex d₁) (h₂ : allHex d₂) (l₁ : d₁.length = 40) (l₂ : d₂.length = 40)
    (hne : hexStrVal d₁ ≠ hexStrVal d₂) : normalizeHex ('0' :: 'x' :: d₁) ≠ normalizeHex ('0' :: 'x' :: d₂) := by
  intro h
  have a := contract_identity_preserved d₁ h₁ l₁
  have b := contract_identity_preserved d₂ h₂ l₂
  unfold storedValue at a b
  rw [h] at a
  omega

/-- **token identity, the part that holds**: a token id below 2^160 - whatever its casing or number of leading zeros - is
stored with its value -/
theorem token_identity_partial (digits : Str) (hd : allHex digits) (hv : hexStrVal digits < 2 ^ 160) :
    storedValue ('0' :: 'x' :: digits) = hexStrVal digits := by
  unfold storedValue
  rw [(normalizeHex_val digits hd).1, Nat.mod_eq_of_lt hv]

/-- below 2^160 two different accepted token ids never share a stored identity -/
theorem token_identity_injective_partial (d₁ d₂ : Str) (h₁ : allHex d₁) (h₂ : allHex d₂)
    (v₁ : hexStrVal d₁ < 2 ^ 160) (v₂ : hexStrVal d₂ < 2 ^ 160) (hne : hexStrVal d₁ ≠ hexStrVal d₂) :
    normalizeHex ('0' :: 'x' :: d₁) ≠ normalizeHex ('0' :: 'x' :: d₂) := by
  intro h
  have := (normalizeHex_eq_iff d₁ d₂ h₁ h₂).mp h
  rw [Nat.mod_eq_of_lt v₁, Nat.mod_eq_of_lt v₂] at this
  exact hne this

/-- the property's second sentence -/
def NoCollapse : Prop :=
  ∀ (d₁ d₂ : Str), allHex d₁ → allHex d₂ → d₁.length ≤ 64 → d₂.length ≤ 64 → hexStrVal d₁ ≠ hexStrVal d₂ →
    normalizeHex ('0' :: 'x' :: d₁) ≠ normalizeHex ('0' :: 'x' :: d₂)

/-- **every** pair of token ids congruent modulo 2^160 collapses into one stored identity -/
theorem token_identity_collapse (d₁ d₂ : Str) (h₁ : allHex d₁) (h₂ : allHex d₂)
    (hc : hexStrVal d₁ % 2 ^ 160 = hexStrVal d₂ % 2 ^ 160) :
    normalizeHex ('0' :: 'x' :: d₁) = normalizeHex ('0' :: 'x' :: d₂) := (normalizeHex_eq_iff d₁ d₂ h₁ h₂).mpr hc

def w₁ : Str := "fffffffffffffffffffffffffffffffffffffffffffffffffffffffffffffff0".toList
def w₂ : Str := "1ffffffffffffffffffffffffffffffffffffffffffffffffffffffffffffff0".toList

/-- both witnesses pass the record message's token-id validation, and they are different numbers -/
theorem witnesses_accepted :
    recordBasic (some 1) "uusdc".toList ('0' :: 'x' :: "00000000000000000000000000000000000000c1".toList) ('0' :: 'x' :: w₁) = true ∧
    recordBasic (some 1) "uusdc".toList ('0' :: 'x' :: "00000000000000000000000000000000000000c1".toList) ('0' :: 'x' :: w₂) = true ∧
    hexStrVal w₁ ≠ hexStrVal w₂ := by decide +kernel

/-- **the second sentence is false of the pinned code** (recorded as a known finding) -/
theorem no_collapse_false : ¬ NoCollapse := by
  intro h
  have hw1 : allHex w₁ := allHex_of_all _ (by decide)
  have hw2 : allHex w₂ := allHex_of_all _ (by decide)
  exact h w₁ w₂ hw1 hw2 (by decide) (by decide) witnesses_accepted.2.2 (token_identity_collapse w₁ w₂ hw1 hw2 (by decide +kernel))


/-! ### the feeder asks the external chain about the recorded token -/

/-- **the owner lookup carries the token id unchanged**: the `eth_call` data is the `ownerOf` selector followed by a 32-byte word whose
value is the 256-bit value of the token id string it was given - the same value `tokenValue` the chain itself uses when it asks its
own EVM (so for a recorded id - 40 digits, below 2^160 - it is the recorded NFT, and no other, that is looked up) -/
theorem feeder_lookup_is_the_given_token (contract tok : Str) :
    ∃ bs, (ownerOfCall contract tok).2 = "0x6352211e".toList ++ bytesHex bs ∧ bs.length = 32 ∧ bytesVal bs = tokenValue tok :=
  ⟨fixBytes 32 (fromHex tok), rfl, fixBytes_length 32 _, rfl⟩

/-- non-vacuity: token 0xa is looked up as ...0a (not as decimal 10 read as hex) -/
example : (ownerOfCall "0x00000000000000000000000000000000000000c1".toList "0xa".toList).2 =
    "0x6352211e000000000000000000000000000000000000000000000000000000000000000a".toList := by decide

end Settlus.C19
