/-
  C19 - The NFT identity recorded is the NFT identity submitted.
  Contract addresses: preserved. Token ids: preserved below 2^160 (partial); above, the pinned code collapses ids that are
  congruent modulo 2^160 (known finding F16) - proved here for all such pairs, with a concrete accepted witness.
-/
import SettlusModel.Proofs.Hex
import SettlusModel.Settlement
import SettlusModel.Proofs.Sources
namespace Settlus.C19
open Settlus

/-- the identity stored, shown in queries and events, and published to feeders for a submitted hex string (the model stores
`normalizeHex` of the contract address and of the token id): its 40 digits as a number -/
def storedValue (submitted : Str) : Nat := hexStrVal ((normalizeHex submitted).drop 2)

/-- a contract address the record message accepts (40 hex digits behind "0x") keeps its value: any casing, no information lost -/
theorem contract_identity_preserved (digits : Str) (hd : allHex digits) (hl : digits.length = 40) :
    storedValue ('0' :: 'x' :: digits) = hexStrVal digits := by
  unfold storedValue
  rw [(normalizeHex_val digits hd).1]
  apply Nat.mod_eq_of_lt
  have : hexStrVal digits < 16 ^ digits.length := by
    clear hl
    induction digits with
    | nil => simp [hexStrVal]
    | cons c r ih =>
      rw [hexStrVal_cons]
      have := hexVal_lt c
      have hr := ih (fun x hx => hd x (by simp [hx]))
      simp only [List.length_cons, Nat.pow_succ]
      have : hexVal c * 16 ^ r.length ≤ 15 * 16 ^ r.length := Nat.mul_le_mul_right _ (by omega)
      omega
  rw [hl] at this
  have e : (16 : Nat) ^ 40 = 2 ^ 160 := by decide
  omega

/-- distinct contract addresses stay distinct -/
theorem contract_identity_injective (d₁ d₂ : Str) (h₁ : allHex d₁) (h₂ : allHex d₂) (l₁ : d₁.length = 40) (l₂ : d₂.length = 40)
    (hne : hexStrVal d₁ ≠ hexStrVal d₂) : normalizeHex ('0' :: 'x' :: d₁) ≠ normalizeHex ('0' :: 'x' :: d₂) := by
  intro h
  have a := contract_identity_preserved d₁ h₁ l₁
  have b := contract_identity_preserved d₂ h₂ l₂
  unfold storedValue at a b
  rw [h] at a
  omega

/-- **token identity, the part that holds**: a token id below 2^160 - whatever its casing or number of leading zeros - is
stored with its value -/
theorem token_identity_partial (digits : Str) (hd : allHex digits) (hv : hexStrVal digits < 2 ^ 160) :
    storedValue ('0' :: 'x' :: digits) = hexStrVal digits := by
  unfold storedValue
  rw [(normalizeHex_val digits hd).1, Nat.mod_eq_of_lt hv]

/-- **what the record message accepts as a token id is "0x" and hex digits, nothing else** - no sign, no blank, no underscore
(before the repair of F22 a sign was accepted, and `0x+1`, `0x+2`, `0x-1` were all stored as token 0) -/
theorem accepted_token_is_hex (amount : Option Int) (denom contract token : Str) (h : recordBasic amount denom contract token = true) :
    ∃ digits, token = '0' :: 'x' :: digits ∧ digits ≠ [] ∧ allHex digits := by
  unfold recordBasic at h
  cases amount with
  | none => simp at h
  | some a =>
    simp only [Bool.and_eq_true] at h
    obtain ⟨_, ht⟩ := h
    split at ht
    · rename_i r
      simp only [Bool.and_eq_true, Bool.not_eq_true'] at ht
      unfold isBigHex at ht
      simp only [Bool.and_eq_true, Bool.not_eq_true'] at ht
      exact ⟨r, rfl, by intro e; subst e; simp at ht, allHex_of_all r ht.2.2⟩
    · simp at ht

/-- so every accepted token id below 2^160 is stored with its value (the hypothesis on the digits is what acceptance gives) -/
theorem accepted_token_identity_partial (amount : Option Int) (denom contract token : Str)
    (h : recordBasic amount denom contract token = true) (hv : hexStrVal (token.drop 2) < 2 ^ 160) :
    storedValue token = hexStrVal (token.drop 2) := by
  obtain ⟨d, e, _, hd⟩ := accepted_token_is_hex amount denom contract token h
  subst e
  exact token_identity_partial d hd (by simpa using hv)

example : recordBasic (some 5) "uusdc".toList "0x00000000000000000000000000000000000000c1".toList "0x+1".toList = false := by decide
example : recordBasic (some 5) "uusdc".toList "0x00000000000000000000000000000000000000c1".toList "0x0A".toList = true := by decide

/-- below 2^160 two different accepted token ids never share a stored identity -/
theorem token_identity_injective_partial (d₁ d₂ : Str) (h₁ : allHex d₁) (h₂ : allHex d₂)
    (v₁ : hexStrVal d₁ < 2 ^ 160) (v₂ : hexStrVal d₂ < 2 ^ 160) (hne : hexStrVal d₁ ≠ hexStrVal d₂) :
    normalizeHex ('0' :: 'x' :: d₁) ≠ normalizeHex ('0' :: 'x' :: d₂) := by
  intro h
  have := (normalizeHex_eq_iff d₁ d₂ h₁ h₂).mp h
  rw [Nat.mod_eq_of_lt v₁, Nat.mod_eq_of_lt v₂] at this
  exact hne this

/-- the property's second sentence -/
def NoCollapse : Prop :=
  ∀ (d₁ d₂ : Str), allHex d₁ → allHex d₂ → d₁.length ≤ 64 → d₂.length ≤ 64 → hexStrVal d₁ ≠ hexStrVal d₂ →
    normalizeHex ('0' :: 'x' :: d₁) ≠ normalizeHex ('0' :: 'x' :: d₂)

/-- **every** pair of token ids congruent modulo 2^160 collapses into one stored identity -/
theorem token_identity_collapse (d₁ d₂ : Str) (h₁ : allHex d₁) (h₂ : allHex d₂)
    (hc : hexStrVal d₁ % 2 ^ 160 = hexStrVal d₂ % 2 ^ 160) :
    normalizeHex ('0' :: 'x' :: d₁) = normalizeHex ('0' :: 'x' :: d₂) := (normalizeHex_eq_iff d₁ d₂ h₁ h₂).mpr hc

def w₁ : Str := "fffffffffffffffffffffffffffffffffffffffffffffffffffffffffffffff0".toList
def w₂ : Str := "1ffffffffffffffffffffffffffffffffffffffffffffffffffffffffffffff0".toList

/-- both witnesses pass the record message's token-id validation, and they are different numbers -/
theorem witnesses_accepted :
    recordBasic (some 1) "uusdc".toList ('0' :: 'x' :: "00000000000000000000000000000000000000c1".toList) ('0' :: 'x' :: w₁) = true ∧
    recordBasic (some 1) "uusdc".toList ('0' :: 'x' :: "00000000000000000000000000000000000000c1".toList) ('0' :: 'x' :: w₂) = true ∧
    hexStrVal w₁ ≠ hexStrVal w₂ := by decide +kernel

/-- **the second sentence is false of the pinned code** (recorded as a known finding) -/
theorem no_collapse_false : ¬ NoCollapse := by
  intro h
  have hw1 : allHex w₁ := allHex_of_all _ (by decide)
  have hw2 : allHex w₂ := allHex_of_all _ (by decide)
  exact h w₁ w₂ hw1 hw2 (by decide) (by decide) witnesses_accepted.2.2 (token_identity_collapse w₁ w₂ hw1 hw2 (by decide +kernel))


/-! ### the feeder asks the external chain about the recorded token -/

/-- **the owner lookup carries the token id unchanged**: the `eth_call` data is the `ownerOf` selector followed by a 32-byte word whose
value is the 256-bit value of the token id string it was given - the same value `tokenValue` the chain itself uses when it asks its
own EVM (so for a recorded id - 40 digits, below 2^160 - it is the recorded NFT, and no other, that is looked up) -/
theorem feeder_lookup_is_the_given_token (contract tok : Str) :
    ∃ bs, (ownerOfCall contract tok).2 = "0x6352211e".toList ++ bytesHex bs ∧ bs.length = 32 ∧ bytesVal bs = tokenValue tok :=
  ⟨fixBytes 32 (fromHex tok), rfl, fixBytes_length 32 _, rfl⟩

/-- non-vacuity: token 0xa is looked up as ...0a (not as decimal 10 read as hex) -/
example : (ownerOfCall "0x00000000000000000000000000000000000000c1".toList "0xa".toList).2 =
    "0x6352211e000000000000000000000000000000000000000000000000000000000000000a".toList := by decide
/-- **what is presented to the feeders is exactly what is recorded and waits**: an NFT is among the sources computed for `until` iff
some tenant with records holds a record for that very NFT - chain, contract and token - without recipients, created by `until` -/
theorem presented_iff_waiting (st : SState) (until_ : Nat) (n : Nft) :
    n ∈ nftsToVerify st until_ ↔ ∃ t ∈ st.recTenants, ∃ r ∈ st.recs t, r.nft = n ∧ r.rcpt = [] ∧ r.created ≤ until_ := by
  unfold nftsToVerify
  rw [mem_dedupNfts]
  simp only [List.not_mem_nil, or_false, List.mem_map, List.mem_filter, Bool.and_eq_true, List.isEmpty_iff, decide_eq_true_eq]
  unfold allRecs
  constructor
  · rintro ⟨p, ⟨hp, he, hc⟩, hn⟩
    obtain ⟨t, ht, hpt⟩ := List.mem_flatMap.mp hp
    obtain ⟨r, hr, e⟩ := List.mem_map.mp hpt
    subst e
    exact ⟨t, ht, r, hr, hn, he, hc⟩
  · rintro ⟨t, ht, r, hr, hn, he, hc⟩
    exact ⟨(t, r), ⟨List.mem_flatMap.mpr ⟨t, ht, List.mem_map.mpr ⟨r, hr, rfl⟩⟩, he, hc⟩, hn⟩

/-- the round description published at the end of a block lists, for every record that waits for its owner and was created before
the start of that block's round, that record's own NFT -/
theorem round_description_presents_waiting (s : State) (t : Nat) (r : Rec) (ht : t ∈ s.st.recTenants) (hr : r ∈ s.st.recs t)
    (he : r.rcpt = []) (hs : 0 < roundStart s.h s.os.params.votePeriod) (hc : r.created ≤ roundStart s.h s.os.params.votePeriod - 1) :
    formatNft r.nft ∈ (nextRoundInfo s).sources := by
  unfold nextRoundInfo
  simp only [hs, if_true]
  exact List.mem_map.mpr ⟨r.nft, (presented_iff_waiting s.st _ r.nft).mpr ⟨t, ht, r, hr, rfl, he, hc⟩, rfl⟩

/-- and it lists nothing else: every published source is the NFT of a waiting record -/
theorem round_description_presents_only_recorded (s : State) (x : Str) (hx : x ∈ (nextRoundInfo s).sources) :
    ∃ t ∈ s.st.recTenants, ∃ r ∈ s.st.recs t, formatNft r.nft = x ∧ r.rcpt = [] := by
  unfold nextRoundInfo at hx
  simp only at hx
  split at hx
  · obtain ⟨n, hn, e⟩ := List.mem_map.mp hx
    obtain ⟨t, ht, r, hr, hnr, he, _⟩ := (presented_iff_waiting s.st _ n).mp hn
    exact ⟨t, ht, r, hr, by rw [hnr]; exact e, he⟩
  · simp at hx


end Settlus.C19
