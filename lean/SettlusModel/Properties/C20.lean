/-
  C20 - Reference feeder: the chain accepts what it produces; its block cache is correct.
  Data-race freedom of the cache is a property of the Go memory model: it is covered by the regenerated lock-discipline fact
  and the race-detector run, not by a theorem (partial for that clause).
-/
import SettlusModel.Proofs.Hex
import SettlusModel.Chain
import SettlusModel.Cache
import SettlusModel.Generated.Facts
namespace Settlus.C20
open Settlus

/-! ### the commitment -/

/-- both implementations hash `salt ‖ entries` (in the model there is one definition; that the two Go functions agree is what
the pure engine checks op by op: `hash` vs `fhash`) -/
theorem feeder_hash_eq_chain_hash (H : Str → Str) (salt : Str) (vds : List VoteData) :
    H (commitString salt vds) = hashOf H salt vds := rfl

/-! ### entries -/

theorem dropZeros_val (t : Str) : hexStrVal (dropZeros t) = hexStrVal t := by
  induction t with
  | nil => rfl
  | cons c r ih =>
    by_cases hc : c = '0'
    · subst hc
      rw [dropZeros, ih, hexStrVal_zero_cons]
    · unfold dropZeros
      split
      · rename_i heq; simp only [List.cons.injEq] at heq; exact absurd heq.1 hc
      · rfl

theorem dropZeros_allHex (t : Str) (h : allHex t) : allHex (dropZeros t) := by
  induction t with
  | nil => exact h
  | cons c r ih =>
    unfold dropZeros
    split
    · rename_i heq; simp only [List.cons.injEq] at heq
      obtain ⟨_, h2⟩ := heq
      subst h2
      exact ih (fun x hx => h x (List.mem_cons_of_mem _ hx))
    · exact h

/-- the owner answer of an external chain: hex digits with or without "0x", any casing, any number of leading zeros -/
def ownerDigits (owner : Str) : Str := stripLower0x owner

/-- trimming leading zeros does not change what the chain's normaliser makes of the owner -/
theorem trim_preserves_owner (owner : Str) (hd : allHex (ownerDigits owner)) :
    normalizeHex (trimHexZeroes owner) = normalizeHex ('0' :: 'x' :: ownerDigits owner) := by
  unfold trimHexZeroes ownerDigits at *
  have key : ∀ t : Str, allHex t →
      normalizeHex (if (dropZeros t).isEmpty then ['0', 'x', '0'] else '0' :: 'x' :: dropZeros t) = normalizeHex ('0' :: 'x' :: t) := by
    intro t ht
    by_cases he : (dropZeros t).isEmpty
    · simp only [he, if_true]
      have h0 : allHex ['0'] := allHex_of_all _ (by decide)
      apply (normalizeHex_eq_iff ['0'] t h0 ht).mpr
      have : hexStrVal t = 0 := by
        rw [← dropZeros_val t]
        have : dropZeros t = [] := List.isEmpty_iff.mp he
        rw [this]; rfl
      rw [this]; rfl
    · simp only [he, if_false, Bool.false_eq_true]
      apply (normalizeHex_eq_iff _ t (dropZeros_allHex t ht) ht).mpr
      rw [dropZeros_val]
  exact key (stripLower0x owner) hd

/-- **every entry the feeder formats parses on the chain to the same NFT and the same owner address**, for every source
string the chain can publish (it parses as an NFT id and contains no ':' - chain ids with separators are refused by
parameter validation) and every owner answer -/
theorem entry_roundtrip (src owner : Str) (nft : Nft) (hsrc : parseNftId src = some nft) (hc : ':' ∉ src)
    (hd : allHex (ownerDigits owner)) (ent : Str) (he : feederEntry src owner = some ent) :
    parseEntry ent = some { nft := nft, owner := normalizeHex ('0' :: 'x' :: ownerDigits owner) } := by
  unfold feederEntry at he
  simp only [hsrc] at he
  have he' : ent = src ++ ':' :: trimHexZeroes owner := by simpa using he.symm
  subst he'
  have hnc : ':' ∉ trimHexZeroes owner := by
    unfold trimHexZeroes
    have hz : ':' ∉ dropZeros (ownerDigits owner) := by
      intro hm
      have := dropZeros_allHex _ hd ':' hm
      have hh : isHexChar ':' = false := by decide
      rw [hh] at this; cases this
    show ':' ∉ (if (dropZeros (stripLower0x owner)).isEmpty then ['0', 'x', '0'] else '0' :: 'x' :: dropZeros (stripLower0x owner))
    unfold ownerDigits at hz
    split
    · simp
    · intro hm
      simp only [List.mem_cons] at hm
      rcases hm with h | h | h
      · exact absurd h (by decide)
      · exact absurd h (by decide)
      · exact hz h
  unfold parseEntry
  rw [splitOn_append_sep ':' src _ hc, splitOn_no_sep ':' _ hnc]
  simp only [hsrc, trim_preserves_owner owner hd]

/-- chain ids the parameter validation accepts contain neither separator, so published sources meet `':' ∉ src` on the chain-id part -/
theorem valid_chain_ids_have_no_separator (fee : Int) (chains : List Str) (h : sparamsValid fee chains = true) :
    ∀ c ∈ chains, '/' ∉ c ∧ ':' ∉ c := by
  intro c hc
  unfold sparamsValid at h
  simp only [Bool.and_eq_true, List.all_eq_true, decide_eq_true_eq] at h
  have := h.1.2 c hc
  simp only [Bool.and_eq_true, Bool.not_eq_true', List.contains_eq_mem, decide_eq_false_iff_not] at this
  exact ⟨this.1.2, this.2⟩

/-! ### the block cache -/

/-- timestamps strictly ascending -/
def Sorted : List (Nat × Block) → Prop
  | [] => True
  | [_] => True
  | a :: b :: r => a.1 < b.1 ∧ Sorted (b :: r)

theorem sorted_tail {a : Nat × Block} {r : List (Nat × Block)} (h : Sorted (a :: r)) : Sorted r := by
  cases r with
  | nil => trivial
  | cons b r' => exact h.2

theorem insertTs_head_ge (ts : Nat) (b : Block) (l : List (Nat × Block)) (lo : Nat)
    (hl : ∀ p ∈ l, lo ≤ p.1) (ht : lo ≤ ts) : ∀ p ∈ insertTs ts b l, lo ≤ p.1 := by
  induction l with
  | nil => intro p hp; simp [insertTs] at hp; subst hp; exact ht
  | cons x r ih =>
    intro p hp
    unfold insertTs at hp
    split at hp
    · rcases List.mem_cons.mp hp with rfl | hp
      · exact ht
      · exact hl p hp
    · split at hp
      · rcases List.mem_cons.mp hp with rfl | hp
        · exact ht
        · exact hl p (by simp [hp])
      · rcases List.mem_cons.mp hp with rfl | hp
        · exact hl _ (by simp)
        · exact ih (fun q hq => hl q (by simp [hq])) p hp

theorem sorted_cons_iff (a : Nat × Block) (r : List (Nat × Block)) : Sorted (a :: r) ↔ (∀ p ∈ r, a.1 < p.1) ∧ Sorted r := by
  induction r generalizing a with
  | nil => simp [Sorted]
  | cons b r' ih =>
    constructor
    · intro ⟨h1, h2⟩
      refine ⟨?_, h2⟩
      intro p hp
      rcases List.mem_cons.mp hp with rfl | hp
      · exact h1
      · have := ((ih b).mp h2).1 p hp; omega
    · intro ⟨h1, h2⟩
      exact ⟨h1 b (by simp), h2⟩

/-- insertion keeps the timestamps strictly ascending -/
theorem insertTs_sorted (ts : Nat) (b : Block) (l : List (Nat × Block)) (h : Sorted l) : Sorted (insertTs ts b l) := by
  induction l with
  | nil => trivial
  | cons x r ih =>
    unfold insertTs
    split
    · rename_i hlt
      exact ⟨hlt, h⟩
    · split
      · rename_i _ heq
        rw [sorted_cons_iff] at h ⊢
        exact ⟨fun p hp => by have := h.1 p hp; omega, h.2⟩
      · rename_i hnlt hne
        rw [sorted_cons_iff] at h ⊢
        refine ⟨?_, ih h.2⟩
        intro p hp
        have := insertTs_head_ge ts b r (x.1 + 1) (fun q hq => by have := h.1 q hq; omega) (by omega) p hp
        omega

/-- every put keeps the cache sorted and within its capacity (for a capacity of at least one block) -/
theorem put_invariant (c : Cache) (hash : List Char) (n : Int) (ts : Nat)
    (hs : Sorted c.items) (hc : (c.items.length : Int) ≤ c.cap) (hcap : 1 ≤ c.cap) :
    Sorted (c.put hash n ts).items ∧ ((c.put hash n ts).items.length : Int) ≤ (c.put hash n ts).cap ∧ (c.put hash n ts).cap = c.cap := by
  unfold Cache.put
  have hs' := insertTs_sorted ts ⟨hash, n⟩ c.items hs
  have hlen : (insertTs ts ⟨hash, n⟩ c.items).length ≤ c.items.length + 1 := by
    clear hs hs' hc
    induction c.items with
    | nil => simp [insertTs]
    | cons x r ih =>
      unfold insertTs
      split
      · simp
      · split
        · simp
        · simp only [List.length_cons]; omega
  by_cases hgt : ((insertTs ts ⟨hash, n⟩ c.items).length : Int) > c.cap
  · simp only [hgt, if_true]
    refine ⟨?_, ?_, trivial⟩
    · cases hi : insertTs ts ⟨hash, n⟩ c.items with
      | nil => trivial
      | cons a r => rw [hi] at hs'; exact sorted_tail hs'
    · simp only [List.length_tail]
      omega
  · simp only [hgt, if_false]
    exact ⟨hs', by omega, trivial⟩

/-- a query is answered with the retained block that has the smallest timestamp not below the query, or a miss when
no retained timestamp reaches it -/
theorem get_is_ceiling (c : Cache) (hs : Sorted c.items) (q : Nat) :
    (∀ b, c.get q = some b → ∃ ts, (ts, b) ∈ c.items ∧ q ≤ ts ∧ ∀ p ∈ c.items, q ≤ p.1 → ts ≤ p.1) ∧
    (c.get q = none → ∀ p ∈ c.items, p.1 < q) := by
  unfold Cache.get
  generalize c.items = l at hs
  induction l with
  | nil => simp
  | cons x r ih =>
    have hx := (sorted_cons_iff x r).mp hs
    simp only [List.find?_cons]
    by_cases hq : q ≤ x.1
    · simp only [hq, decide_true]
      constructor
      · intro b hb
        simp only [Option.some.injEq] at hb
        refine ⟨x.1, by simp [← hb], hq, ?_⟩
        intro p hp _
        rcases List.mem_cons.mp hp with rfl | hp
        · omega
        · have := hx.1 p hp; omega
      · intro h; cases h
    · simp only [hq, decide_false]
      obtain ⟨i1, i2⟩ := ih hx.2
      constructor
      · intro b hb
        obtain ⟨ts, m, h1, h2⟩ := i1 b hb
        refine ⟨ts, by simp [m], h1, ?_⟩
        intro p hp hqp
        rcases List.mem_cons.mp hp with rfl | hp
        · omega
        · exact h2 p hp hqp
      · intro hn p hp
        rcases List.mem_cons.mp hp with rfl | hp
        · omega
        · exact i2 hn p hp

/-- when the capacity is exceeded it is the block with the smallest timestamp that goes: every retained timestamp is at
least as high as the evicted one -/
theorem eviction_removes_minimum (c : Cache) (hash : List Char) (n : Int) (ts : Nat) (hs : Sorted c.items) (hcap : 0 ≤ c.cap)
    (hfull : ((insertTs ts ⟨hash, n⟩ c.items).length : Int) > c.cap) :
    ∃ ev, insertTs ts ⟨hash, n⟩ c.items = ev :: (c.put hash n ts).items ∧ ∀ p ∈ (c.put hash n ts).items, ev.1 < p.1 := by
  unfold Cache.put
  simp only [hfull, if_true]
  have hs' := insertTs_sorted ts ⟨hash, n⟩ c.items hs
  cases hi : insertTs ts ⟨hash, n⟩ c.items with
  | nil => rw [hi] at hfull; simp at hfull; omega
  | cons a r =>
    rw [hi] at hs'
    exact ⟨a, rfl, ((sorted_cons_iff a r).mp hs').1⟩

/-- the lock discipline the linearizability argument needs, as extracted from the current source: every method that touches
the tree map takes the mutex first and releases it by defer -/
theorem cache_methods_locked : Facts.cacheAllLocked = true ∧ Facts.cacheMethods = ["GetOldestBlock:true", "PutBlockData:true"] := by
  decide

/-- non-vacuity: a cache of capacity 2 after three puts holds the two highest timestamps and answers the ceiling -/
example : let c := (((⟨2, []⟩ : Cache).put ['a'] 1 10).put ['b'] 2 30).put ['c'] 3 20
    c.items.map (·.1) = [20, 30] ∧ c.get 15 = some ⟨['c'], 3⟩ ∧ c.get 31 = none := by decide

end Settlus.C20
