/-
  C08 - Commit-reveal rounds: prevote in window, vote must open it, tally once per round.
  The theorems fix the vote period `p` of the stored parameters over the history (see DESIGN.md).
-/
import SettlusModel.Proofs.Arith
import SettlusModel.Chain
namespace Settlus.C08
open Settlus

/-! ### round arithmetic (about the functions translated from the Go source) -/

theorem roundStart_is_the_code (h p : Nat) (hh : h < two64 / 2) (hp : p * 2 < two64) (hp0 : 0 < p) :
    Gen.roundStart (h : Int) p = roundStart h p := roundStart_translated h p hh hp hp0

/-- **every vote period the chain accepts - by a governance proposal or at genesis - keeps the round arithmetic in range**: positive,
and two periods fit an int64 (before the repair of F26 a period of 2^63 was accepted and the end-blocker divided by zero) -/
theorem accepted_vote_period_in_range (vp : Nat) (thr frac : Int) (w m : Nat) (h : oparamsKeyValid vp thr frac w m = true) :
    0 < vp ∧ vp * 2 < 2 ^ 63 := by
  unfold oparamsKeyValid maxVotePeriod at h
  simp only [Bool.and_eq_true, bne_iff_ne, ne_eq, decide_eq_true_eq] at h
  omega

/-- rounds are 2·p blocks long: the round start is the height rounded down to a multiple of 2p -/
theorem round_grid (h p : Nat) : roundStart h p = h - h % (p * 2) ∧ (p * 2) ∣ roundStart h p ∧ roundStart h p ≤ h :=
  ⟨rfl, roundStart_dvd h p, roundStart_le h p⟩

theorem window_ends (h p : Nat) :
    prevoteEnd h p = (roundStart h p : Int) + p - 1 ∧ voteEnd h p = (roundStart h p : Int) + p * 2 - 1 :=
  ⟨prevoteEnd_eq h p, voteEnd_eq h p⟩

/-- the tally gate fires exactly at the last block of each round: once per round -/
theorem tally_exactly_at_round_end (h p : Nat) (hp : 0 < p) : ((h : Int) = voteEnd h p) ↔ h % (p * 2) = p * 2 - 1 :=
  tally_height_iff h p hp

/-- the description published by block `h` (for block `h+1`) is the description of the round containing `h+1` -/
theorem published_round_is_next_blocks_round (s : State) :
    ((oracleEndBlock s).st.os.round.map (·.id)) = some (roundStart (s.h + 1) s.os.params.votePeriod) ∧
    ((oracleEndBlock s).st.os.round.map (·.prevoteEnd)) = some (prevoteEnd (s.h + 1) s.os.params.votePeriod) ∧
    ((oracleEndBlock s).st.os.round.map (·.voteEnd)) = some (voteEnd (s.h + 1) s.os.params.votePeriod) := by
  unfold oracleEndBlock
  by_cases ht : (s.h : Int) = voteEnd s.h s.os.params.votePeriod
  · by_cases hc : slashWindowClosing s.h s.os.params.votePeriod s.os.params.slashWindow = true
    · simp [ht, hc, nextRoundInfo]
    · simp [ht, hc, nextRoundInfo]
  · simp [ht, nextRoundInfo]

/-! ### handlers -/

/-- a well-formed prevote is accepted exactly when it names the published round and arrives by the end of the prevote window -/
theorem prevote_accept_iff (s : State) (f v : String) (hash : Str) (r : Nat) (ri : RoundInfo)
    (hf : (decodeAcc f).isSome) (hv : (decodeVal v).isSome) (hu : validUtf8 hash = true) (hr : s.os.round = some ri) :
    isOk (prevote s f v hash r).out = true ↔ (ri.id = r ∧ (s.h : Int) ≤ ri.prevoteEnd) := by
  unfold prevote
  obtain ⟨a, ha⟩ := Option.isSome_iff_exists.mp hf
  obtain ⟨i, hi⟩ := Option.isSome_iff_exists.mp hv
  simp only [ha, hi, hr]
  split <;> simp_all [isOk]

/-- with the description published for the current block, that is: current round id and height within the first p blocks of the round -/
theorem prevote_window (s : State) (f v : String) (hash : Str) (r : Nat)
    (hf : (decodeAcc f).isSome) (hv : (decodeVal v).isSome) (hu : validUtf8 hash = true) (hp : 0 < s.os.params.votePeriod)
    (hr : s.os.round = some { id := roundStart s.h s.os.params.votePeriod, prevoteEnd := prevoteEnd s.h s.os.params.votePeriod,
                              voteEnd := voteEnd s.h s.os.params.votePeriod, sources := src }) :
    isOk (prevote s f v hash r).out = true ↔ (roundStart s.h s.os.params.votePeriod = r ∧ s.h % (s.os.params.votePeriod * 2) < s.os.params.votePeriod) := by
  rw [prevote_accept_iff s f v hash r _ hf hv hu hr]
  simp only
  rw [prevote_window_iff s.h _ hp]

/-- an accepted prevote stores exactly that hash under the validator, and changes nothing else of the oracle state -/
theorem prevote_effect (s : State) (f v : String) (hash : Str) (r : Nat) (h : isOk (prevote s f v hash r).out = true) :
    (prevote s f v hash r).st.os.prevotes = alSet s.os.prevotes v hash ∧ (prevote s f v hash r).st.os.votes = s.os.votes := by
  unfold prevote at h ⊢
  repeat' split at h
  all_goals simp_all [isOk]

/-- a well-formed vote is accepted exactly when it names the published round (and arrives by its end), its entries are
well formed for supported chains, and salt and entries hash to the prevote stored for the same validator -/
theorem vote_accept_iff (H : Str → Str) (s : State) (f v : String) (salt : Str) (r : Nat) (vds : List VoteData) (ri : RoundInfo)
    (hf : (decodeAcc f).isSome) (hv : (decodeVal v).isSome) (hr : s.os.round = some ri) :
    isOk (vote H s f v salt r vds).out = true ↔
      (ri.id = r ∧ (s.h : Int) ≤ ri.voteEnd ∧ validateVoteData s.st.params.chains vds = true ∧
       alGet s.os.prevotes v = some (hashOf H salt vds)) := by
  unfold vote
  obtain ⟨a, ha⟩ := Option.isSome_iff_exists.mp hf
  obtain ⟨i, hi⟩ := Option.isSome_iff_exists.mp hv
  simp only [ha, hi, hr]
  split <;> simp_all [isOk]

/-- an accepted vote consumes the prevote: none is left for that validator -/
theorem vote_consumes_prevote (H : Str → Str) (s : State) (f v : String) (salt : Str) (r : Nat) (vds : List VoteData)
    (h : isOk (vote H s f v salt r vds).out = true) :
    (vote H s f v salt r vds).st.os.prevotes = alErase s.os.prevotes v ∧ (vote H s f v salt r vds).st.os.votes = alSet s.os.votes v vds := by
  unfold vote at h ⊢
  repeat' split at h
  all_goals simp_all [isOk]

/-- the tally leaves no prevote and no vote behind for the next round -/
theorem ballots_empty_after_tally (s : State) (ht : (s.h : Int) = voteEnd s.h s.os.params.votePeriod) :
    (oracleEndBlock s).st.os.prevotes = [] ∧ (oracleEndBlock s).st.os.votes = [] := by
  unfold oracleEndBlock
  by_cases hc : slashWindowClosing s.h s.os.params.votePeriod s.os.params.slashWindow = true <;> simp [ht, hc]

/-- off the tally height the end-blocker touches no ballot, fills nothing and counts nothing -/
theorem end_block_inert_off_tally (s : State) (ht : ¬ (s.h : Int) = voteEnd s.h s.os.params.votePeriod) :
    (oracleEndBlock s).st.os.prevotes = s.os.prevotes ∧ (oracleEndBlock s).st.os.votes = s.os.votes ∧
    (oracleEndBlock s).st.st.recs = s.st.recs ∧ (oracleEndBlock s).filled = [] ∧ (oracleEndBlock s).st.bank = s.bank := by
  unfold oracleEndBlock
  simp [ht]

/-- non-vacuity: with period 10, height 19 is a tally height and height 7 is inside the prevote window of round 0 -/
example : ((19 : Nat) : Int) = voteEnd 19 10 ∧ ((7 : Nat) : Int) ≤ prevoteEnd 7 10 ∧ roundStart 7 10 = 0 := by decide

end Settlus.C08
