/-
  C02 - No payout before the payout period ends; cancel works only while pending.
-/
import SettlusModel.Proofs.Pay
namespace Settlus.C02
open Settlus

/-- the maturity test the model uses is the negation of the stop condition translated from settleUTXRs -/
theorem maturity_is_the_code (c p h : Nat) : mature c p h = !(Gen.immature c p h) := mature_eq_translated c p h

/-- **no early payout, in ℕ**: a record treated as mature satisfies created + period ≤ height for every period in
[0, 2^64), including periods whose 64-bit sum with the creation height wraps around -/
theorem no_early_maturity (created period h : Nat) (hc : created < two64) (hp : period < two64)
    (hm : mature created period h = true) : created + period ≤ h := mature_sound created period h hc hp hm

/-- every record a tenant's settle loop pays in the block at height `h` was created at least `period` blocks earlier,
`period` being the tenant's payout period in force at that block -/
theorem settled_records_are_due (h : Nat) (t : Tenant) (f : Option Nat) (l : List Rec) (b : Bank) (c : Nat) (idx : List (Str × Nat))
    (hp : t.period < two64) (hc : ∀ r ∈ l, r.created < two64) :
    ∀ id ∈ (settleQ h t f l b c idx).settled, ∃ r ∈ l, r.id = id ∧ r.created + t.period ≤ h := by
  intro id hid
  obtain ⟨r, hr, hri, hm, _⟩ := (settleQ_resolved_mature h t f l b c idx).1 id hid
  exact ⟨r, hr, hri, mature_sound _ _ _ (hc r hr) hp hm⟩

/-- validation keeps payout periods non-zero: creating a tenant or updating its period with 0 is refused -/
theorem period_zero_refused (s : State) (a : String) (d : Str) (mc : Option Str) (t : Nat) :
    isOk (createTenant s a d 0 mc).out = false ∧ isOk (setPeriod s a t 0).out = false := by
  constructor
  · unfold createTenant
    split
    · rename_i tn hp; obtain ⟨_, _, _, hne, _⟩ := createTenantPlan_some hp; exact absurd rfl hne
    · rfl
  · unfold setPeriod
    split
    · rename_i tn hp; obtain ⟨_, hne, _⟩ := setPeriodPlan_some hp; exact absurd rfl hne
    · rfl

/-! ### cancel -/

/-- a successful cancel names a record that is pending: it removes exactly that record and its index entry and moves no funds -/
theorem cancel_only_pending (s : State) (hinv : SInv s.st) (a : String) (t : Nat) (req : Str) (h : isOk (cancel s a t req).out = true) :
    ∃ r ∈ s.st.recs t, r.req = req ∧
      (cancel s a t req).st.st.recs t = (s.st.recs t).filter (fun x => x.id != r.id) ∧
      r ∉ (cancel s a t req).st.st.recs t ∧
      (cancel s a t req).st.bank = s.bank := by
  unfold cancel at h ⊢
  split at h
  · rename_i id hp
    obtain ⟨_, hg⟩ := cancelPlan_some hp
    rw [(hinv t).idx, alGet_map_entry] at hg
    simp only [Option.map_eq_some_iff] at hg
    obtain ⟨r, hf, hid⟩ := hg
    have hr := List.mem_of_find?_eq_some hf
    have hreq : r.req = req := by simpa using List.find?_some hf
    refine ⟨r, hr, hreq, ?_, ?_, ?_⟩
    · simp [hp, hid]
    · simp only [hp, fupd_same]
      intro hm
      have := (List.mem_filter.mp hm).2
      simp [hid] at this
    · simp [hp]
  · simp [isOk] at h

/-- for an admin, cancel succeeds exactly when a record with that request id is pending -/
theorem cancel_succeeds_iff_pending (s : State) (hinv : SInv s.st) (a : String) (t : Nat) (req : Str)
    (hadm : isAdmin s.st.tenants t a = true) :
    isOk (cancel s a t req).out = true ↔ ∃ r ∈ s.st.recs t, r.req = req := by
  constructor
  · intro h
    obtain ⟨r, hr, hreq, _⟩ := cancel_only_pending s hinv a t req h
    exact ⟨r, hr, hreq⟩
  · intro hp
    obtain ⟨tn, acc, h1, h2, h3⟩ := (isAdmin_iff _ _ _).mp hadm
    have hh : alHas (s.st.index t) req = true := by rw [(hinv t).idx, alHas_map_entry]; exact hp
    unfold alHas at hh
    obtain ⟨id, hid⟩ := Option.isSome_iff_exists.mp hh
    unfold cancel cancelPlan
    simp [bind, h1, h2, hadm, hid, check, isOk]

/-- **once a record has been paid (or resolved in any other way) a cancel for its request id fails and reports nothing as
cancelled**: with no pending record of that request id the message is refused and the state - log included - is unchanged -/
theorem cancel_after_resolution_fails (s : State) (hinv : SInv s.st) (a : String) (t : Nat) (req : Str)
    (hgone : ¬ ∃ r ∈ s.st.recs t, r.req = req) :
    isOk (cancel s a t req).out = false ∧ (cancel s a t req).st = s := by
  have hf : isOk (cancel s a t req).out = false := by
    cases hc : isOk (cancel s a t req).out
    · rfl
    · obtain ⟨r, hr, hreq, _⟩ := cancel_only_pending s hinv a t req hc
      exact absurd ⟨r, hr, hreq⟩ hgone
  exact ⟨hf, cancel_err s a t req hf⟩

/-- the settle loop removes what it resolves from the pending list and from the index: combined with the previous theorem,
a paid record can no longer be cancelled -/
theorem resolved_records_leave_the_store (h : Nat) (t : Tenant) (f : Option Nat) (last : Option Nat) (l : List Rec) (b : Bank) (c : Nat)
    (hq : QInv l (l.map entryOf) last) :
    ∀ r ∈ l, (r.id ∈ (settleQ h t f l b c (l.map entryOf)).settled ∨ r.id ∈ (settleQ h t f l b c (l.map entryOf)).droppedIds) →
      r ∉ (settleQ h t f l b c (l.map entryOf)).remaining ∧
      alGet (settleQ h t f l b c (l.map entryOf)).index r.req = none := by
  intro r hr hres
  obtain ⟨q1, q2, pre, hsplit, hids⟩ := settleQ_qinv h t f last l b c hq
  have hpre : r.id ∈ pre.map (·.id) := (hids r.id).mp hres
  have hidn := pairwise_lt_nodup _ hq.asc
  rw [hsplit, List.map_append, List.nodup_append] at hidn
  have hnot : r ∉ (settleQ h t f l b c (l.map entryOf)).remaining := by
    intro hm
    exact hidn.2.2 r.id hpre r.id (List.mem_map.mpr ⟨r, hm, rfl⟩) rfl
  refine ⟨hnot, ?_⟩
  rw [q2, alGet_map_entry]
  have hreqs := hq.reqs
  rw [hsplit, List.map_append, List.nodup_append] at hreqs
  cases hfind : List.find? (fun x => x.req == r.req) (settleQ h t f l b c (l.map entryOf)).remaining with
  | none => rfl
  | some x =>
    exfalso
    have hx := List.mem_of_find?_eq_some hfind
    have hxr : x.req = r.req := by simpa using List.find?_some hfind
    -- r is in the popped prefix (its id is, and ids are unique in l)
    have hrpre : r ∈ pre := by
      rw [hsplit] at hr
      rcases List.mem_append.mp hr with h1 | h1
      · exact h1
      · exact absurd h1 hnot
    exact hreqs.2.2 r.req (List.mem_map.mpr ⟨r, hrpre, rfl⟩) x.req (List.mem_map.mpr ⟨x, hx, rfl⟩) hxr.symm

/-- non-vacuity: period 2^64-1, created at height 10: not mature at 10 (the sum wraps), while period 3 is mature at 13 -/
example : mature 10 (two64 - 1) 10 = false ∧ mature 10 3 13 = true ∧ mature 10 3 12 = false := by decide

end Settlus.C02
