/-
  C12 - One pending record per request id; record ids strictly increase and are never reused.
-/
import SettlusModel.Proofs.Inv
import SettlusModel.Query
namespace Settlus.C12
open Settlus

/-- **at most one pending record per request id**, in every reachable state -/
theorem one_pending_per_request (H : Str → Str) (pr : Nat) (c : Bool) (ops : List Op) (t : Nat) :
    (((run H (initState pr c) ops).st.recs t).map (·.req)).Nodup :=
  (reachable_sinv H pr c ops t).reqs

/-- recording a request id that is still pending is rejected -/
theorem dup_pending_rejected (s : State) (hinv : SInv s.st) (a : String) (t : Nat) (req : Str) (amt : Option Int) (d ch c tok : Str)
    (hp : ∃ r ∈ s.st.recs t, r.req = req) : isOk (record s a t req amt d ch c tok).out = false := by
  unfold record
  split
  · rename_i p hpl
    obtain ⟨_, amount, _, _, _, _, _, _, _, _, _, _, hid, _⟩ := recordPlan_some hpl
    have : alHas (s.st.index t) req = true := by
      rw [(hinv t).idx, alHas_map_entry]; exact hp
    simp [createUtxr, this] at hid
  · rfl

/-- looking a pending record up by request id returns exactly that record -/
theorem lookup_returns_the_record (st : SState) (hinv : SInv st) (t : Nat) (r : Rec) (hr : r ∈ st.recs t) :
    lookup st t r.req = some r := by
  unfold lookup
  have hq := hinv t
  rw [hq.idx, alGet_map_entry]
  have hreq := hq.reqs
  have hids := pairwise_lt_nodup _ hq.asc
  have h1 : (st.recs t).find? (fun x => x.req == r.req) = some r := by
    generalize st.recs t = l at hr hreq
    induction l with
    | nil => cases hr
    | cons x rest ih =>
      simp only [List.map_cons, List.nodup_cons] at hreq
      rcases List.mem_cons.mp hr with rfl | hm
      · simp
      · have : x.req ≠ r.req := fun e => hreq.1 (List.mem_map.mpr ⟨r, hm, e.symm⟩)
        simp only [List.find?_cons]
        have : (x.req == r.req) = false := by simp [this]
        rw [this]
        exact ih hm hreq.2
  simp only [h1, Option.map_some]
  generalize st.recs t = l at hr hids
  induction l with
  | nil => cases hr
  | cons x rest ih =>
    simp only [List.map_cons, List.nodup_cons] at hids
    rcases List.mem_cons.mp hr with rfl | hm
    · simp
    · have : x.id ≠ r.id := fun e => hids.1 (List.mem_map.mpr ⟨r, hm, e.symm⟩)
      simp only [List.find?_cons]
      have : (x.id == r.id) = false := by simp [this]
      rw [this]
      exact ih hm hids.2

/-- the by-request-id lookup and the list of pending records describe the same set -/
theorem lookup_set_eq_pending_set (st : SState) (hinv : SInv st) (t : Nat) (req : Str) :
    (lookup st t req).isSome ↔ ∃ r ∈ st.recs t, r.req = req := by
  constructor
  · intro h
    unfold lookup at h
    have hq := hinv t
    rw [hq.idx, alGet_map_entry] at h
    cases hf : (st.recs t).find? (fun r => r.req == req) with
    | none => simp [hf] at h
    | some r => exact ⟨r, List.mem_of_find?_eq_some hf, by simpa using List.find?_some hf⟩
  · rintro ⟨r, hr, rfl⟩
    rw [lookup_returns_the_record st hinv t r hr]; rfl

/-- a successful record hands out an id above every id handed out before for the tenant, and moves the counter to it -/
theorem issued_id_above_all_earlier (s : State) (a : String) (t : Nat) (req : Str) (amt : Option Int) (d ch c tok : Str) (p : RecordPlan)
    (h : recordPlan s a t req amt d ch c tok = some p) :
    (record s a t req amt d ch c tok).st.st.last t = some p.id ∧ (∀ l, s.st.last t = some l → l < p.id) := by
  obtain ⟨_, amount, _, _, _, _, _, _, _, _, _, _, hid, hst⟩ := recordPlan_some h
  unfold record
  simp only [h, hst]
  unfold createUtxr at hid ⊢
  split at hid
  · cases hid
  · rename_i hn
    simp only [hn, Bool.false_eq_true, if_false] at hid ⊢
    simp only [Option.some.injEq] at hid
    rw [← hid]
    refine ⟨by simp, ?_⟩
    intro l hl
    simp [nextId, hl]

/-- the id counter of a tenant never moves backwards, whatever the operation -/
theorem counter_monotone (H : Str → Str) (s : State) (op : Op) (t l : Nat) (hl : s.st.last t = some l) :
    ∃ l', (step H s op).st.st.last t = some l' ∧ l ≤ l' := by
  have cu : ∀ (t' : Nat) (req : Str) (amt : Int) (d : Str) (nft : Nft) (c : Nat) (rc : List Recipient),
      ∃ l', (createUtxr s.st t' req amt d nft c rc).st.last t = some l' ∧ l ≤ l' := by
    intro t' req amt d nft c rc
    unfold createUtxr
    split
    · exact ⟨l, hl, Nat.le_refl _⟩
    · by_cases e : t = t'
      · subst e
        exact ⟨nextId s.st t, by simp, by simp [nextId, hl]⟩
      · exact ⟨l, by simp [fupd_other _ _ _ _ e, hl], Nat.le_refl _⟩
  cases op
  case record a t' r amt d ch c tok =>
    simp only [step, ofS, record]
    split
    · rename_i p hp
      obtain ⟨_, amount, _, _, _, _, _, _, _, _, _, _, _, hst⟩ := recordPlan_some hp
      simp only [hst]
      exact cu _ _ _ _ _ _ _
    · exact ⟨l, hl, Nat.le_refl _⟩
  case inject t' req amt d nft created rc =>
    simp only [step]
    split
    · exact cu _ _ _ _ _ _ _
    · exact ⟨l, hl, Nat.le_refl _⟩
  case block =>
    refine ⟨l, ?_, Nat.le_refl _⟩
    simp only [step, blockStep]
    rw [(settleAll_tenants _ _ _ _ _).2.2.2.2, (oracleEndBlock_tenants s).2.2.1]
    exact hl
  case createTenant a d p mc => exact ⟨l, by simp only [step, ofS, createTenant]; split <;> exact hl, Nat.le_refl _⟩
  case deposit a t' amt d => exact ⟨l, by simp only [step, ofS, deposit]; split <;> exact hl, Nat.le_refl _⟩
  case cancel a t' r => exact ⟨l, by simp only [step, ofS, cancel]; split <;> exact hl, Nat.le_refl _⟩
  case addAdmin a t' n => exact ⟨l, by simp only [step, ofS, addAdmin]; split <;> exact hl, Nat.le_refl _⟩
  case removeAdmin a t' n => exact ⟨l, by simp only [step, ofS, removeAdmin]; split <;> exact hl, Nat.le_refl _⟩
  case setPeriod a t' p => exact ⟨l, by simp only [step, ofS, setPeriod]; split <;> exact hl, Nat.le_refl _⟩
  case fund a amt d =>
    refine ⟨l, ?_, Nat.le_refl _⟩
    simp only [step]
    split
    · exact hl
    · split <;> exact hl
  case fundPool amt d => exact ⟨l, by simp only [step]; split <;> exact hl, Nat.le_refl _⟩
  case setOwner c' t' o => exact ⟨l, hl, Nat.le_refl _⟩
  case prevote f v hh r =>
    refine ⟨l, ?_, Nat.le_refl _⟩
    simp only [step, ofS, prevote]
    repeat' split
    all_goals exact hl
  case vote f v salt r vds =>
    refine ⟨l, ?_, Nat.le_refl _⟩
    simp only [step, ofS, vote]
    repeat' split
    all_goals exact hl
  case consent v f =>
    refine ⟨l, ?_, Nat.le_refl _⟩
    simp only [step, ofS, consent]
    repeat' split
    all_goals exact hl
  case setOParams vp thr frac w m => exact ⟨l, by simp only [step]; split <;> exact hl, Nat.le_refl _⟩
  case setSParams fee chains => exact ⟨l, by simp only [step]; split <;> exact hl, Nat.le_refl _⟩
  case setVal i power b j pb => exact ⟨l, by simp only [step]; split <;> exact hl, Nat.le_refl _⟩
  case failAt k => exact ⟨l, hl, Nat.le_refl _⟩
  case dump => exact ⟨l, hl, Nat.le_refl _⟩

/-- over any further history the counter stays at or above where it was: an id handed out is never handed out again -/
theorem ids_never_reused (H : Str → Str) (ops : List Op) : ∀ (s : State) (t l : Nat), s.st.last t = some l →
    ∃ l', (run H s ops).st.last t = some l' ∧ l ≤ l' := by
  induction ops with
  | nil => intro s t l hl; exact ⟨l, hl, Nat.le_refl _⟩
  | cons op r ih =>
    intro s t l hl
    obtain ⟨l1, h1, le1⟩ := counter_monotone H s op t l hl
    obtain ⟨l2, h2, le2⟩ := ih (step H s op).st t l1 h1
    exact ⟨l2, h2, Nat.le_trans le1 le2⟩

/-- every pending record's id is at most the counter, so a later record (id above the counter) differs from all of them -/
theorem pending_ids_below_counter (H : Str → Str) (pr : Nat) (c : Bool) (ops : List Op) (t : Nat) :
    ∀ r ∈ (run H (initState pr c) ops).st.recs t, ∃ l, (run H (initState pr c) ops).st.last t = some l ∧ r.id ≤ l :=
  (reachable_sinv H pr c ops t).below

/-- request-id keys are injective in (tenant, request id): the 8-byte big-endian tenant id has fixed length -/
theorem request_key_injective (t₁ t₂ : List Nat) (r₁ r₂ : List Nat) (h1 : t₁.length = 8) (h2 : t₂.length = 8)
    (h : (1 :: t₁) ++ r₁ = (1 :: t₂) ++ r₂) : t₁ = t₂ ∧ r₁ = r₂ := by
  simp only [List.cons_append, List.cons.injEq, true_and] at h
  exact List.append_inj h (by omega)

/-- non-vacuity: after two records for one tenant the second id is above the first and a repeated request id is refused -/
example :
    let s0 := (createTenant (initState 1000000 true) "a1" "uusdc".toList 3 none).st
    let c1 : Str := "0x00000000000000000000000000000000000000c1".toList
    let r1 := record s0 "a1" 1 "r".toList (some 5) "uusdc".toList "1".toList c1 "0x1".toList
    let r2 := record r1.st "a1" 1 "q".toList (some 5) "uusdc".toList "1".toList c1 "0x1".toList
    let r3 := record r2.st "a1" 1 "r".toList (some 5) "uusdc".toList "1".toList c1 "0x1".toList
    isOk r1.out = true ∧ r1.st.st.last 1 = some 0 ∧ r2.st.st.last 1 = some 1 ∧ isOk r3.out = false := by decide

end Settlus.C12
