/-
  C14 - Accounting invariants hold after every block; oracle rewards are conserved.
  The invariants registered by the SDK modules themselves (bank supply, staking, distribution, ...) are evaluated at run time after
  every real block by the ante engine (`crisis` keeper, partial for those); the theorems cover the oracle's reward distribution
  as `RewardBallotWinners` computes it - per denomination and, as an invariant, over every history.
-/
import SettlusModel.Proofs.DistrInv
import SettlusModel.Generated.Facts
namespace Settlus.C14
open Settlus

/-- **the pool gives exactly what is credited**: for one denomination, what leaves the reward pool is what arrives at the
distribution account, it is at most the pool, and the distribution module's liabilities (outstanding rewards of all validators plus
the community pool, in 10^-18 units) grow by exactly that amount - for every winner set, all powers, all pro-bono rates up to 1 -/
theorem pool_gives_exactly_what_is_credited (winners : List (Nat × Nat)) (vals : List Val) (d : Str) (rr : RewardRes) (n : Nat)
    (hW : 0 < totalPower winners) (hn : ∀ c ∈ winners, c.1 < n) (hrate : ∀ i, rateOf vals i ≤ one18) :
    let res := rewardDenom winners vals (totalPower winners) rr d
    let moved := rr.bank .pool d - res.bank .pool d
    moved ≤ rr.bank .pool d ∧ res.bank .distr d = rr.bank .distr d + moved ∧ res.bank .pool d = rr.bank .pool d - moved ∧
    liabilities res.distr d n = liabilities rr.distr d n + moved * one18 :=
  transfer_equals_credit winners vals d rr n hW hn hrate

/-- **never more than the pool holds** -/
theorem rewards_never_exceed_pool (pool W : Nat) (ws : List Nat) (hW : 0 < W) (hs : ws.sum ≤ W) :
    (ws.map (fun w => rewardOf pool w W)).sum ≤ pool := rewards_le_pool pool W ws hW hs

/-- **in proportion to voting power, rounded down**: a reward is at most the exact proportional share, and grows with the weight -/
theorem reward_at_most_proportional (pool w W : Nat) (hW : 0 < W) : rewardOf pool w W * W ≤ pool * w := reward_proportional pool w W hW

theorem reward_grows_with_power (pool w₁ w₂ W : Nat) (h : w₁ ≤ w₂) : rewardOf pool w₁ W ≤ rewardOf pool w₂ W := reward_monotone pool w₁ w₂ W h

/-- **the distribution account covers what the module owes, after every operation of every history**: in every state reachable
from genesis (set-up actions giving pro-bono rates of at most 1), for every denomination, the distribution module account holds
exactly the outstanding rewards of all validators plus the community pool that the oracle credited (numerators over 10^18) -
whatever tallies, misses, slashes, settlements and failing payouts happened on the way -/
theorem distribution_account_covers_liabilities (H : Str → Str) (pr : Nat) (c : Bool) (ops : List Op) (hops : ∀ op ∈ ops, RateOp op) (d : Str) :
    (run H (initState pr c) ops).bank .distr d * one18 =
      liabilities (run H (initState pr c) ops).distr d (run H (initState pr c) ops).vals.length :=
  reachable_distrInv H pr c ops hops d

/-- no settlement payout, deposit or fee of the model ever touches the distribution account or its books: only the oracle's
reward distribution does -/
theorem settlement_leaves_distribution_alone (h : Nat) (f : Option Nat) (ts : List Tenant) (s : State) (c : Nat) :
    (∀ d, (settleAll h f ts s c).st.bank .distr d = s.bank .distr d) ∧ (settleAll h f ts s c).st.distr = s.distr :=
  settleAll_distr_frame h f ts s c

/-! ### the amounts the code computes -/

/-- the reward expression of `RewardBallotWinners`, translated from the source on every run, is the model's `rewardOf`
(proportional share, the power ratio truncated at 18 digits, the product truncated to an integer) -/
theorem reward_is_the_code (pool w W : Nat) :
    GenDec.rewardCoin (SDK.decOfInt (pool : Int)) (w : Int) (W : Int) = ((rewardOf pool w W : Nat) : Int) := reward_translated pool w W

/-- the pro-bono contribution (`MulDecTruncate`) and the credited remainder, translated from the source, are the amounts the
model's `rewardOne` credits to the community pool and to the validator -/
theorem probono_is_the_code (r rate : Nat) (hr : rate ≤ one18) :
    GenDec.probonoContribution (r : Int) (rate : Int) = ((r * rate : Nat) : Int) ∧
    GenDec.finalReward (r : Int) (GenDec.probonoContribution (r : Int) (rate : Int)) = ((r * one18 - r * rate : Nat) : Int) :=
  probono_translated r rate hr

/-- non-vacuity: a history with a funded pool, unequal pro-bono rates and a tally: the invariant's two sides are 5 * 10^18 -/
example :
    let ops : List Op := [.setOParams 1 500000000000000000 0 2 1, .fundPool 5 "uusdc".toList, .setVal 0 1 true false (some 500000000000000000),
      .block, .block, .block]
    let s := run (fun x => x) (initState 1000000 true) ops
    s.bank .distr "uusdc".toList = 5 ∧ liabilities s.distr "uusdc".toList s.vals.length = 5000000000000000000 ∧ s.bank .pool "uusdc".toList = 0 := by
  decide +kernel

/-- no bank send can put coins into a module account behind the accounting of the modules: every module account is on the bank's blocked
list (read off `BlockedModuleAccountAddrs` on every run); the ante model's `send` to a module account accordingly fails in the handler -/
theorem module_accounts_receive_no_sends : Facts.moduleAccountsBlocked = true := by decide


end Settlus.C14
