/-
  C04 - Admission rules bind every executed message, however it is wrapped.
  Governance executes messages outside the ante chain by design; no other message-executing module is wired into the
  application (fact below). Signature verification and authz dispatch are modelled.
-/
import SettlusModel.Proofs.OracleAuth
import SettlusModel.Properties.C16
namespace Settlus.C04
open Settlus

/-- the limiter list extracted from the current source contains every restricted kind (settlement and oracle messages,
MsgCreateValidator): the tie between this file's theorems and handler_options.go -/
theorem limiter_covers_restricted_kinds : ∀ k : Kind, restricted k = true → isDisabled (urlOf k) = true := restricted_kinds_disabled

/-- the modules of the application that execute messages on behalf of accounts are authz and governance, nothing else -/
theorem message_executing_modules : Facts.messageExecutingModules = ["authz", "gov"] := by decide

/-- the generic chain starts with the reject decorator, then Evmos' reject decorator, then the authz limiter -/
theorem generic_chain_starts_with_filters :
    Facts.cosmosChain.take 3 = ["RejectMessagesDecorator", "cosmosante.RejectMessagesDecorator", "cosmosante.NewAuthzLimiterDecorator"] := by decide

/-- **no restricted message is executed from a transaction the generic chain admits, at any nesting depth** -/
theorem no_restricted_leaf_admitted (h : Nat) (hh : h ≠ 0) (ms : List Msg)
    (hrej : rejectTopLevel h ms = false) (hlim : limiterOk false 1 ms = true) : ∀ x ∈ leavesOfList ms, leafAllowed x := by
  have hlim' : limiterList false 1 ms = true := by unfold limiterOk at hlim; simpa using hlim
  exact generic_admits_no_restricted_leaf h hh ms 1 hrej hlim'

/-- **after genesis no transaction creates a validator, and a settlement message takes effect only in the settlus route**:
a transaction that takes the generic route leaves the validator set and the whole settlement store exactly as they were -/
theorem generic_route_changes_no_validator_and_no_settlement_state (H : Str → Str) (a : AState) (tx : Tx)
    (hr : route tx = .generic) (hh : a.s.h ≠ 0) :
    (deliverTx H a tx).a.s.vals = a.s.vals ∧ (deliverTx H a tx).a.s.st = a.s.st := by
  have := generic_route_leaves_modules_alone H a tx hr hh
  exact ⟨this.2.2, this.2.1⟩

/-- the model never executes MsgCreateValidator: the message handler it would reach is not part of the model, and by the
theorems above it is unreachable from an admitted transaction after genesis -/
theorem create_validator_never_executes (H : Str → Str) (a : AState) (x : String) : execMsg H a (.createVal x) = none := by
  unfold execMsg; rfl

/-- a transaction is routed to the settlus chain exactly when all its messages are settlement messages or all are oracle messages -/
theorem route_settlus_iff (tx : Tx) : route tx = .settlus ↔ (isOracleTx tx.msgs = true ∨ isSettlementTx tx.msgs = true) := by
  unfold route
  by_cases h : (isOracleTx tx.msgs || isSettlementTx tx.msgs) = true
  · simp only [h, if_true, true_iff]; simpa using h
  · simp only [h, if_false]
    simp only [Bool.or_eq_true, not_or] at h
    constructor
    · intro e; cases e
    · rintro (e | e)
      · exact absurd e h.1
      · exact absurd e h.2

/-- **a settlement message that takes effect was charged under the fixed-fee rules**: if a transaction changes the settlement
store then it is made only of top-level settlement messages, and (C16) it was charged the fixed fee of its messages -/
theorem settlement_effect_implies_fixed_fee (H : Str → Str) (a : AState) (tx : Tx) (hh : a.s.h ≠ 0)
    (hchg : (deliverTx H a tx).a.s.st.tenants ≠ a.s.st.tenants ∨ (deliverTx H a tx).a.s.st.recs ≠ a.s.st.recs ∨
            (deliverTx H a tx).a.s.st.index ≠ a.s.st.index) :
    isSettlementTx tx.msgs = true ∧ ((deliverTx H a tx).anteOk = true → isOracleTx tx.msgs = false →
      ∃ d f, requiredFee a.prices tx.fee (fixedGas tx.msgs) = some (d, f) ∧ (deliverTx H a tx).charged = some (d, f)) := by
  have hset : isSettlementTx tx.msgs = true := by
    cases hr : route tx with
    | generic =>
      have := (generic_route_leaves_modules_alone H a tx hr hh).2.1
      rw [this] at hchg
      rcases hchg with h | h | h <;> exact absurd rfl h
    | settlus =>
      rcases (route_settlus_iff tx).mp hr with ho | hs
      · -- an oracle-only transaction runs oracle messages only: it cannot touch the settlement store
        exfalso
        rw [oracle_tx_keeps_st H a tx ho] at hchg
        rcases hchg with h | h | h <;> exact absurd rfl h
      · exact hs
  refine ⟨hset, ?_⟩
  intro hante ho
  exact C16.settlement_tx_charged_fixed_fee H a tx hset ho hante

end Settlus.C04
