/-
  C10 - Recipients come from the NFT's owner: on-chain at record time, else the oracle only.
  ERC-721 `ownerOf` is a parameter of the model (the `owners` table; an absent entry is a reverting call).
-/
import SettlusModel.Proofs.Pay
namespace Settlus.C10
open Settlus

/-- a payment for an NFT on this chain gets the current owner as its only recipient -/
theorem internal_record_uses_owner_now (s : State) (contract token : Str) (rc : List Recipient)
    (h : getRecipients s thisChain contract token = some rc) :
    ∃ o, alGet s.owners (normalizeHex contract, tokenValue token) = some (some o) ∧ rc = [{ addr := o, weight := 1 }] := by
  unfold getRecipients at h
  have e : (thisChain != thisChain) = false := by simp
  simp only [e, Bool.and_false, Bool.false_eq_true, if_false] at h
  split at h
  · rename_i o ho; exact ⟨o, ho, by simpa using h.symm⟩
  · cases h

/-- recording fails if the NFT has no owner (the call reverts, or returns the zero address) -/
theorem internal_record_fails_without_owner (s : State) (a : String) (t : Nat) (req : Str) (amt : Option Int) (d contract token : Str)
    (hno : ∀ o, alGet s.owners (normalizeHex contract, tokenValue token) ≠ some (some o)) :
    isOk (record s a t req amt d thisChain contract token).out = false := by
  unfold record
  split
  · rename_i p hp
    obtain ⟨_, _, _, _, _, _, _, _, _, _, hrc, _⟩ := recordPlan_some hp
    obtain ⟨o, ho, _⟩ := internal_record_uses_owner_now s contract token p.rcpt hrc
    exact absurd ho (hno o)
  · rfl

/-- a payment for an NFT on a supported external chain starts without recipients -/
theorem external_record_starts_empty (s : State) (chain contract token : Str) (hs : s.st.params.chains.contains chain = true)
    (hne : chain ≠ thisChain) : getRecipients s chain contract token = some [] := by
  unfold getRecipients
  have : (chain != thisChain) = true := by simp [hne]
  have hm : chain ∈ s.st.params.chains := by simpa using hs
  simp [hm, this]

/-- payments for any other chain id are rejected -/
theorem other_chain_rejected (s : State) (a : String) (t : Nat) (req : Str) (amt : Option Int) (d chain contract token : Str)
    (hs : s.st.params.chains.contains chain = false) (hne : chain ≠ thisChain) :
    isOk (record s a t req amt d chain contract token).out = false := by
  unfold record
  split
  · rename_i p hp
    obtain ⟨_, _, _, _, _, _, _, _, _, _, hrc, _⟩ := recordPlan_some hp
    unfold getRecipients at hrc
    have : (chain != thisChain) = true := by simp [hne]
    have hm : chain ∉ s.st.params.chains := by simpa using hs
    simp [hm, this] at hrc
  · rfl

/-- the record that is stored carries exactly the recipients `GetRecipients` returned -/
theorem record_stores_those_recipients (s : State) (a : String) (t : Nat) (req : Str) (amt : Option Int) (d ch c tok : Str) (p : RecordPlan)
    (h : recordPlan s a t req amt d ch c tok = some p) :
    getRecipients s ch c tok = some p.rcpt ∧ ∃ r ∈ (record s a t req amt d ch c tok).st.st.recs t, r.id = p.id ∧ r.rcpt = p.rcpt ∧ r.nft = p.nft := by
  obtain ⟨_, amount, _, _, _, _, _, _, _, _, hrc, _, hid, hst⟩ := recordPlan_some h
  refine ⟨hrc, ?_⟩
  unfold record
  simp only [h, hst]
  unfold createUtxr at hid ⊢
  split at hid
  · cases hid
  · rename_i hn
    simp only [hn, Bool.false_eq_true, if_false, fupd_same] at hid ⊢
    simp only [Option.some.injEq] at hid
    exact ⟨{ id := nextId s.st t, req := req, amount := amount, denom := d, nft := p.nft, created := s.h, rcpt := p.rcpt }, by simp, hid, rfl, rfl⟩

/-! ### recipients can only come from a tally -/

/-- the fill of one record: recipients change only if there were none, the record was created by the cut-off, and an owner was
accepted for this record's own NFT; they become exactly that owner with weight 1 -/
theorem fill_changes_only_empty_own_nft (acc : List (Nft × Str)) (cutoff : Nat) (r : Rec)
    (h : (fillRec acc cutoff r).rcpt ≠ r.rcpt) :
    r.rcpt = [] ∧ r.created ≤ cutoff ∧ ∃ o, alGet acc r.nft = some o ∧ (fillRec acc cutoff r).rcpt = [{ addr := o, weight := 1 }] := by
  unfold fillRec at h ⊢
  split at h
  · rename_i hc
    simp only [Bool.and_eq_true, List.isEmpty_iff, decide_eq_true_eq] at hc
    split at h
    · rename_i o ho
      refine ⟨hc.1, hc.2, o, ho, ?_⟩
      simp [hc, ho]
    · exact absurd rfl h
  · exact absurd rfl h

/-- recipients once set are never overwritten -/
theorem recipients_never_overwritten (acc : List (Nft × Str)) (cutoff : Nat) (r : Rec) (h : r.rcpt ≠ []) : fillRec acc cutoff r = r := by
  unfold fillRec
  have : r.rcpt.isEmpty = false := by cases hr : r.rcpt <;> simp_all
  simp [this]

/-- the fill touches nothing but recipients -/
theorem fill_keeps_everything_else (acc : List (Nft × Str)) (cutoff : Nat) (r : Rec) :
    (fillRec acc cutoff r).id = r.id ∧ (fillRec acc cutoff r).req = r.req ∧ (fillRec acc cutoff r).amount = r.amount ∧
    (fillRec acc cutoff r).denom = r.denom ∧ (fillRec acc cutoff r).nft = r.nft ∧ (fillRec acc cutoff r).created = r.created := by
  unfold fillRec
  split
  · split <;> simp
  · simp

/-- **only records created before the tallied round began are filled, and nothing is filled in the chain's first round**:
the end-blocker at height `h` fills with cut-off `roundStart h - 1`, and only when `roundStart h > 0` -/
theorem tally_fill_cutoff (s : State) (t : Nat) :
    (oracleEndBlock s).st.st.recs t = s.st.recs t ∨
    (0 < roundStart s.h s.os.params.votePeriod ∧ (s.h : Int) = voteEnd s.h s.os.params.votePeriod ∧
      (oracleEndBlock s).st.st.recs t = (s.st.recs t).map (fillRec (tallyAccepted s) (roundStart s.h s.os.params.votePeriod - 1))) := by
  unfold oracleEndBlock
  by_cases ht : (s.h : Int) = voteEnd s.h s.os.params.votePeriod
  · by_cases h0 : roundStart s.h s.os.params.votePeriod = 0
    · left
      by_cases hc : slashWindowClosing s.h s.os.params.votePeriod s.os.params.slashWindow = true <;> simp [ht, hc, h0]
    · right
      refine ⟨by omega, ht, ?_⟩
      by_cases hc : slashWindowClosing s.h s.os.params.votePeriod s.os.params.slashWindow = true
      · simp [ht, hc, h0, setRecipients]
      · simp [ht, hc, h0, setRecipients]
  · left; simp [ht]

/-- a record filled by the tally at height `h` was created strictly before the round containing `h` began -/
theorem filled_record_predates_round (s : State) (acc : List (Nft × Str)) (r : Rec) (h0 : 0 < roundStart s.h s.os.params.votePeriod)
    (h : (fillRec acc (roundStart s.h s.os.params.votePeriod - 1) r).rcpt ≠ r.rcpt) : r.created < roundStart s.h s.os.params.votePeriod := by
  obtain ⟨_, hc, _⟩ := fill_changes_only_empty_own_nft acc _ r h
  omega

/-- **no message changes the recipients of an existing record**: an operation other than a block boundary leaves a tenant's
pending list as it was, or appends one new record, or removes one record by id - existing records are never modified -/
theorem messages_never_touch_recipients (H : Str → Str) (s : State) (op : Op) (hnb : op ≠ .block) (t : Nat) :
    (step H s op).st.st.recs t = s.st.recs t ∨
    (∃ r, (step H s op).st.st.recs t = s.st.recs t ++ [r]) ∨
    (∃ id, (step H s op).st.st.recs t = (s.st.recs t).filter (fun x => x.id != id)) := by
  have cu : ∀ (t' : Nat) (req : Str) (amt : Int) (d : Str) (nft : Nft) (c : Nat) (rc : List Recipient),
      (createUtxr s.st t' req amt d nft c rc).st.recs t = s.st.recs t ∨
      ∃ r, (createUtxr s.st t' req amt d nft c rc).st.recs t = s.st.recs t ++ [r] := by
    intro t' req amt d nft c rc
    unfold createUtxr
    split
    · exact Or.inl rfl
    · by_cases e : t = t'
      · subst e
        exact Or.inr ⟨{ id := nextId s.st t, req := req, amount := amt, denom := d, nft := nft, created := c, rcpt := rc }, by simp⟩
      · exact Or.inl (by simp [fupd_other _ _ _ _ e])
  cases op
  case block => exact absurd rfl hnb
  case record a t' r amt d ch c tok =>
    simp only [step, ofS, record]
    split
    · rename_i p hp
      obtain ⟨_, amount, _, _, _, _, _, _, _, _, _, _, _, hst⟩ := recordPlan_some hp
      simp only [hst]
      rcases cu t' r amount d p.nft s.h p.rcpt with h | h
      · exact Or.inl h
      · exact Or.inr (Or.inl h)
    · exact Or.inl rfl
  case inject t' req amt d nft created rc =>
    simp only [step]
    split
    · rcases cu t' req amt d nft created rc with h | h
      · exact Or.inl h
      · exact Or.inr (Or.inl h)
    · exact Or.inl rfl
  case cancel a t' r =>
    simp only [step, ofS, cancel]
    split
    · rename_i id _
      by_cases e : t = t'
      · subst e; exact Or.inr (Or.inr ⟨id, by simp⟩)
      · exact Or.inl (by simp [fupd_other _ _ _ _ e])
    · exact Or.inl rfl
  case createTenant a d p mc => left; simp only [step, ofS, createTenant]; split <;> rfl
  case deposit a t' amt d => left; simp only [step, ofS, deposit]; split <;> rfl
  case addAdmin a t' n => left; simp only [step, ofS, addAdmin]; split <;> rfl
  case removeAdmin a t' n => left; simp only [step, ofS, removeAdmin]; split <;> rfl
  case setPeriod a t' p => left; simp only [step, ofS, setPeriod]; split <;> rfl
  case fund a amt d =>
    left
    simp only [step]
    split
    · rfl
    · split <;> rfl
  case fundPool amt d => left; simp only [step]; split <;> rfl
  case setOwner c' t' o => left; rfl
  case prevote f v hh r =>
    left
    simp only [step, ofS, prevote]
    repeat' split
    all_goals rfl
  case vote f v salt r vds =>
    left
    simp only [step, ofS, vote]
    repeat' split
    all_goals rfl
  case consent v f =>
    left
    simp only [step, ofS, consent]
    repeat' split
    all_goals rfl
  case setOParams vp thr frac w m => left; simp only [step]; split <;> rfl
  case setSParams fee chains => left; simp only [step]; split <;> rfl
  case setVal i power b j pb => left; simp only [step]; split <;> rfl
  case failAt k => left; rfl
  case dump => left; rfl

/-- the settle loop never writes recipients either: what stays pending after it is a suffix of what was pending, unchanged -/
theorem settle_keeps_pending_unchanged (h : Nat) (t : Tenant) (f : Option Nat) (last : Option Nat) (l : List Rec) (b : Bank) (c : Nat)
    (hq : QInv l (l.map entryOf) last) : ∃ pre, l = pre ++ (settleQ h t f l b c (l.map entryOf)).remaining := by
  obtain ⟨_, _, pre, hs, _⟩ := settleQ_qinv h t f last l b c hq
  exact ⟨pre, hs⟩

/-- non-vacuity: a record for this chain's NFT owned by a3 gets a3 as its recipient; for chain "1" it starts empty; chain "999" is refused -/
example :
    let s0 := (createTenant (initState 1000000 true) "a1" "uusdc".toList 3 none).st
    let c1 : Str := "0x00000000000000000000000000000000000000c1".toList
    let o : Str := "0x0404040404040404040404040404040404040404".toList
    let s1 := (step id s0 (.setOwner c1 "0x1".toList (some (some o)))).st
    getRecipients s1 thisChain c1 "0x01".toList = some [{ addr := o, weight := 1 }] ∧
    getRecipients s1 "1".toList c1 "0x01".toList = some [] ∧
    isOk (record s1 "a1" 1 "r".toList (some 5) "uusdc".toList "999".toList c1 "0x1".toList).out = false := by decide

end Settlus.C10
