/-
  C09 - Only tenant admins act for a tenant; rejected messages change nothing.
-/
import SettlusModel.Proofs.Frame
import SettlusModel.Query
namespace Settlus.C09
open Settlus

/-- the account `a` (decoded from any accepted spelling) is in the admin list of tenant `t` -/
def IsAdminOf (s : State) (t : Nat) (sender : String) : Prop :=
  ∃ tn acc, findTenant s.st.tenants t = some tn ∧ decodeAcc sender = some acc ∧ acc ∈ tn.admins

theorem isAdminOf_iff (s : State) (t : Nat) (a : String) : IsAdminOf s t a ↔ isAdmin s.st.tenants t a = true :=
  (isAdmin_iff s.st.tenants t a).symm

/-! ### success implies membership -/

theorem record_requires_admin (s : State) (a : String) (t : Nat) (r : Str) (amt : Option Int) (d ch c tok : Str)
    (h : isOk (record s a t r amt d ch c tok).out = true) : IsAdminOf s t a := by
  rw [isAdminOf_iff]
  unfold record at h
  split at h
  · rename_i p hp; obtain ⟨_, _, _, _, _, _, hadm, _⟩ := recordPlan_some hp; exact hadm
  · simp [isOk] at h

theorem cancel_requires_admin (s : State) (a : String) (t : Nat) (r : Str) (h : isOk (cancel s a t r).out = true) : IsAdminOf s t a := by
  rw [isAdminOf_iff]
  unfold cancel at h
  split at h
  · rename_i id hp; exact (cancelPlan_some hp).1
  · simp [isOk] at h

theorem addAdmin_requires_admin (s : State) (a : String) (t : Nat) (n : String) (h : isOk (addAdmin s a t n).out = true) : IsAdminOf s t a := by
  rw [isAdminOf_iff]
  unfold addAdmin at h
  split at h
  · rename_i tn hp; obtain ⟨_, _, _, hadm, _⟩ := addAdminPlan_some hp; exact hadm
  · simp [isOk] at h

theorem removeAdmin_requires_admin (s : State) (a : String) (t : Nat) (n : String) (h : isOk (removeAdmin s a t n).out = true) : IsAdminOf s t a := by
  rw [isAdminOf_iff]
  unfold removeAdmin at h
  split at h
  · rename_i tn hp; obtain ⟨_, _, _, hadm, _⟩ := removeAdminPlan_some hp; exact hadm
  · simp [isOk] at h

theorem setPeriod_requires_admin (s : State) (a : String) (t p : Nat) (h : isOk (setPeriod s a t p).out = true) : IsAdminOf s t a := by
  rw [isAdminOf_iff]
  unfold setPeriod at h
  split at h
  · rename_i tn hp; obtain ⟨_, _, hadm, _⟩ := setPeriodPlan_some hp; exact hadm
  · simp [isOk] at h

/-! ### membership suffices (the other stated preconditions holding) -/

theorem admin_can_set_period (s : State) (a : String) (t p : Nat) (hadm : IsAdminOf s t a) (hp : p ≠ 0) :
    isOk (setPeriod s a t p).out = true := by
  obtain ⟨tn, acc, h1, h2, h3⟩ := hadm
  have hadm' : isAdmin s.st.tenants t a = true := (isAdmin_iff _ _ _).mpr ⟨tn, acc, h1, h2, h3⟩
  unfold setPeriod setPeriodPlan
  simp [bind, h2, h1, hadm', hp, check, isOk]

theorem admin_can_add_admin (s : State) (a : String) (t : Nat) (n : String) (na : Acct) (hadm : IsAdminOf s t a)
    (hn : decodeAcc n = some na) (hnew : ∀ tn, findTenant s.st.tenants t = some tn → na ∉ tn.admins) :
    isOk (addAdmin s a t n).out = true := by
  obtain ⟨tn, acc, h1, h2, h3⟩ := hadm
  have hadm' : isAdmin s.st.tenants t a = true := (isAdmin_iff _ _ _).mpr ⟨tn, acc, h1, h2, h3⟩
  have := hnew tn h1
  unfold addAdmin addAdminPlan
  simp [bind, h2, h1, hn, hadm', check, isOk, this]

theorem admin_can_remove_admin (s : State) (a : String) (t : Nat) (n : String) (ta : Acct) (hadm : IsAdminOf s t a)
    (hn : decodeAcc n = some ta) (hin : ∀ tn, findTenant s.st.tenants t = some tn → ta ∈ tn.admins ∧ tn.admins.length ≠ 1) :
    isOk (removeAdmin s a t n).out = true := by
  obtain ⟨tn, acc, h1, h2, h3⟩ := hadm
  have hadm' : isAdmin s.st.tenants t a = true := (isAdmin_iff _ _ _).mpr ⟨tn, acc, h1, h2, h3⟩
  have := hin tn h1
  unfold removeAdmin removeAdminPlan
  simp [bind, h2, h1, hn, hadm', check, isOk, this]

theorem admin_can_cancel_pending (s : State) (a : String) (t : Nat) (r : Str) (id : Nat) (hadm : IsAdminOf s t a)
    (hp : alGet (s.st.index t) r = some id) : isOk (cancel s a t r).out = true := by
  obtain ⟨tn, acc, h1, h2, h3⟩ := hadm
  have hadm' : isAdmin s.st.tenants t a = true := (isAdmin_iff _ _ _).mpr ⟨tn, acc, h1, h2, h3⟩
  unfold cancel cancelPlan
  simp [bind, h2, h1, hp, hadm', check, isOk]

/-! ### a rejected settlement message leaves everything exactly as it was -/

/-- the settlement messages of the protocol -/
def IsSettlementMsg : Op → Prop
  | .createTenant .. | .deposit .. | .record .. | .cancel .. | .addAdmin .. | .removeAdmin .. | .setPeriod .. => True
  | _ => False

theorem rejected_changes_nothing (H : Str → Str) (s : State) (op : Op) (hm : IsSettlementMsg op)
    (hrej : isOk (step H s op).out = false) : (step H s op).st = s := by
  cases op <;> simp only [IsSettlementMsg] at hm
  case createTenant a d p mc => exact createTenant_err s a d p mc hrej
  case deposit a t amt d => exact deposit_err s a t amt d hrej
  case record a t r amt d ch c tok => exact record_err s a t r amt d ch c tok hrej
  case cancel a t r => exact cancel_err s a t r hrej
  case addAdmin a t n => exact addAdmin_err s a t n hrej
  case removeAdmin a t n => exact removeAdmin_err s a t n hrej
  case setPeriod a t p => exact setPeriod_err s a t p hrej

/-! ### the admin list is never empty and never holds an account twice -/

def AdminsOk (s : State) : Prop := ∀ tn ∈ s.st.tenants, tn.admins ≠ [] ∧ tn.admins.Nodup

theorem setTenant_adminsOk (ts : List Tenant) (t : Tenant) (h : ∀ tn ∈ ts, tn.admins ≠ [] ∧ tn.admins.Nodup)
    (ht : t.admins ≠ [] ∧ t.admins.Nodup) : ∀ tn ∈ setTenant ts t, tn.admins ≠ [] ∧ tn.admins.Nodup := by
  intro tn hm
  unfold setTenant at hm
  obtain ⟨x, hx, hxe⟩ := List.mem_map.mp hm
  split at hxe
  · subst hxe; exact ht
  · subst hxe; exact h x hx

theorem step_preserves_adminsOk (H : Str → Str) (s : State) (op : Op) (h : AdminsOk s) : AdminsOk (step H s op).st := by
  unfold AdminsOk at *
  cases op
  case createTenant a d p mc =>
    simp only [step, ofS, createTenant]
    split
    · rename_i t hp
      obtain ⟨acc, _, _, _, _, hadm, _⟩ := createTenantPlan_some hp
      intro tn hm
      simp only [List.mem_append, List.mem_singleton] at hm
      rcases hm with hm | hm
      · exact h tn hm
      · subst hm; rw [hadm]; simp
    · exact h
  case addAdmin a t n =>
    simp only [step, ofS, addAdmin]
    split
    · rename_i tn hp
      obtain ⟨na, old, _, _, hold, hc, htn⟩ := addAdminPlan_some hp
      apply setTenant_adminsOk _ _ h
      subst htn
      have ho := h old (findTenant_some_mem hold).1
      refine ⟨by simp, ?_⟩
      simp only
      rw [List.nodup_append]
      refine ⟨ho.2, by simp, ?_⟩
      intro x hx y hy
      simp only [List.mem_singleton] at hy
      subst hy
      intro e; subst e
      simp [hx] at hc
    · exact h
  case removeAdmin a t n =>
    simp only [step, ofS, removeAdmin]
    split
    · rename_i tn hp
      obtain ⟨ta, old, _, _, hold, hc, hl, htn⟩ := removeAdminPlan_some hp
      apply setTenant_adminsOk _ _ h
      subst htn
      have ho := h old (findTenant_some_mem hold).1
      constructor
      · simp only
        intro he
        have hlen := List.length_erase_of_mem (List.contains_iff_mem.mp hc)
        rw [he] at hlen
        simp at hlen
        have := List.length_pos_of_mem (List.contains_iff_mem.mp hc)
        omega
      · exact ho.2.erase _
    · exact h
  case setPeriod a t p =>
    simp only [step, ofS, setPeriod]
    split
    · rename_i tn hp
      obtain ⟨old, _, _, hold, htn⟩ := setPeriodPlan_some hp
      apply setTenant_adminsOk _ _ h
      subst htn
      exact h old (findTenant_some_mem hold).1
    · exact h
  all_goals (rw [step_tenants H s _ (by trivial)]; exact h)

/-- in every state reachable from genesis by any sequence of operations every tenant has a non-empty, duplicate-free admin list -/
theorem admins_ok_always (H : Str → Str) (pr : Nat) (c : Bool) (ops : List Op) : AdminsOk (run H (initState pr c) ops) := by
  have gen : ∀ (s : State), AdminsOk s → AdminsOk (run H s ops) := by
    induction ops with
    | nil => intro s h; exact h
    | cons op r ih => intro s h; exact ih _ (step_preserves_adminsOk H s op h)
  apply gen
  intro tn hm
  simp [initState] at hm

/-- a removed admin is locked out: after a successful removal the account is no longer in the list -/
theorem removed_admin_locked_out (s : State) (a : String) (t : Nat) (n : String) (ta : Acct) (hn : decodeAcc n = some ta) (hok : AdminsOk s)
    (h : isOk (removeAdmin s a t n).out = true) : ¬ IsAdminOf (removeAdmin s a t n).st t n := by
  unfold removeAdmin at h ⊢
  split at h
  · rename_i tn hp
    obtain ⟨ta', old, hta, _, hold, hc, hl, htn⟩ := removeAdminPlan_some hp
    rw [hn] at hta; cases hta
    simp only [hp]
    intro ⟨tn', acc, h1, h2, h3⟩
    rw [hn] at h2; cases h2
    have hid := (findTenant_some_mem hold).2
    have hmem := findTenant_some_mem h1
    simp only [setTenant] at hmem
    obtain ⟨x, hx, hxe⟩ := List.mem_map.mp hmem.1
    have hnd := (hok old (findTenant_some_mem hold).1).2
    split at hxe
    · subst hxe; subst htn
      simp only at h3
      exact absurd h3 (List.Nodup.not_mem_erase hnd)
    · rename_i hne
      subst hxe
      have : x.id = t := hmem.2
      subst htn
      simp at hne
      omega
  · simp [isOk] at h

/-- non-vacuity: a state with a tenant whose admin list is [a1] where a1 sets the period and a stranger is refused -/
example :
    let s := (createTenant (initState 1000000 true) "a1" "uusdc".toList 3 none).st
    isOk (setPeriod s "a1" 1 5).out = true ∧ isOk (setPeriod s "A1" 1 5).out = true ∧ isOk (setPeriod s "a2" 1 5).out = false := by decide

/-- **what the query servers answer is the same before and after a rejected message**: the Tenant and Tenants queries (with treasury
balances), the UTXRs list and the by-request-id lookup of every tenant -/
theorem rejected_leaves_every_query (H : Str → Str) (s : State) (op : Op) (hm : IsSettlementMsg op)
    (hrej : isOk (step H s op).out = false) (t : Nat) (req : Str) :
    qTenant (step H s op).st t = qTenant s t ∧ qTenants (step H s op).st = qTenants s ∧
    qUtxrs (step H s op).st t = qUtxrs s t ∧ lookup (step H s op).st.st t req = lookup s.st t req := by
  rw [rejected_changes_nothing H s op hm hrej]
  exact ⟨rfl, rfl, rfl, rfl⟩


/-! ### transactions of several messages (baseapp: one branch, written only when every message succeeded) -/

/-- a transaction all of whose messages succeed has exactly the effect of its messages one after the other -/
theorem batch_success_is_sequential (H : Str → Str) : ∀ (ops : List Op) (s s' : State), runBatch H s ops = some s' → s' = run H s ops := by
  intro ops
  induction ops with
  | nil => intro s s' h; simp [runBatch] at h; simp [run, h]
  | cons op r ih =>
    intro s s' h
    unfold runBatch at h
    split at h
    · simp only [run]; exact ih _ _ h
    · cases h

/-- **a transaction in which some message is rejected changes nothing at all** - not the tenants, records, indexes, counters, ballots,
balances or the event log: the state afterwards is the state before -/
theorem rejected_transaction_changes_nothing (H : Str → Str) (s : State) (ops : List Op) (h : runBatch H s ops = none) :
    atomicStep H s ops = s := by
  simp [atomicStep, h]

/-- a transaction is all or nothing -/
theorem transaction_all_or_nothing (H : Str → Str) (s : State) (ops : List Op) :
    atomicStep H s ops = run H s ops ∨ atomicStep H s ops = s := by
  unfold atomicStep
  cases h : runBatch H s ops with
  | none => right; rfl
  | some s' => left; simp only [Option.getD_some]; exact batch_success_is_sequential H ops s s' h

theorem run_append (H : Str → Str) : ∀ (a b : List Op) (s : State), run H s (a ++ b) = run H (run H s a) b := by
  intro a
  induction a with
  | nil => intro b s; rfl
  | cons op r ih => intro b s; simp only [List.cons_append, run]; exact ih b _

/-- **every state reached by a history of transactions (single messages, harness actions, blocks, and multi-message transactions
with their all-or-nothing rule) is reached by a plain history of operations** - so every theorem of this development about
"all states reachable by operation lists" is a theorem about transaction histories -/
theorem transaction_histories_add_no_states (H : Str → Str) : ∀ (items : List HistItem) (s : State), ∃ ops, runEntries H s items = run H s ops := by
  intro items
  induction items with
  | nil => intro s; exact ⟨[], rfl⟩
  | cons it r ih =>
    intro s
    cases it with
    | single op =>
      obtain ⟨ops, h⟩ := ih (step H s op).st
      exact ⟨op :: ops, by simp only [runEntries, stepEntry, run]; exact h⟩
    | atomic b =>
      rcases transaction_all_or_nothing H s b with e | e
      · obtain ⟨ops, h⟩ := ih (atomicStep H s b)
        refine ⟨b ++ ops, ?_⟩
        simp only [runEntries, stepEntry]
        rw [h, run_append, e]
      · obtain ⟨ops, h⟩ := ih (atomicStep H s b)
        refine ⟨ops, ?_⟩
        simp only [runEntries, stepEntry]
        rw [h, e]

/-- non-vacuity: an admin's transaction [set the period to 9, cancel a request id that does not exist] is rejected as a whole and
the period stays 3; the same first message alone takes effect -/
example :
    let s := (createTenant (initState 1000000 true) "a1" "uusdc".toList 3 none).st
    (findTenant (atomicStep (fun x => x) s [.setPeriod "a1" 1 9, .cancel "a1" 1 "nosuch".toList]).st.tenants 1).map (·.period) = some 3 ∧
    (findTenant (atomicStep (fun x => x) s [.setPeriod "a1" 1 9]).st.tenants 1).map (·.period) = some 9 := by decide


end Settlus.C09
