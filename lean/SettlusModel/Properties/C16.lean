/-
  C16 - Settlement transactions pay exactly the fixed fee, split with the oracle pool.
-/
import SettlusModel.Ante
import SettlusModel.Proofs.Dec
namespace Settlus.C16
open Settlus

/-- the amount the fee rule asks in the denomination priced `price`: fixed gas times price, truncated -/
def feeIn (price gas : Nat) : Nat := price * gas / one18

/-- **required fee = price × fixed gas, in the first configured denomination the offer covers** -/
theorem required_fee_is_first_covered (prices fee : List (Str × Nat)) (gas : Nat) (d : Str) (f : Nat)
    (h : requiredFee prices fee gas = some (d, f)) :
    ∃ pre price post, prices = pre ++ (d, price) :: post ∧ f = feeIn price gas ∧ feeOffered fee d ≥ f ∧
      ∀ p ∈ pre, feeOffered fee p.1 < feeIn p.2 gas := by
  unfold requiredFee at h
  cases hf : prices.find? (fun p => feeOffered fee p.1 ≥ p.2 * gas / one18) with
  | none => simp [hf] at h
  | some p =>
    simp only [hf, Option.some.injEq, Prod.mk.injEq] at h
    obtain ⟨hd, hfe⟩ := h
    obtain ⟨pre, post, hsplit, hpre⟩ := List.find?_eq_some_iff_append.mp hf |>.2
    refine ⟨pre, p.2, post, ?_, hfe.symm, ?_, ?_⟩
    · rw [hsplit, ← hd]
    · have := (List.find?_eq_some_iff_append.mp hf).1
      simp only [ge_iff_le, decide_eq_true_eq] at this
      rw [← hd, ← hfe]; exact this
    · intro q hq
      have := hpre q hq
      simp only [ge_iff_le, decide_eq_true_eq, Bool.not_eq_true', decide_eq_false_iff_not, Nat.not_le] at this
      exact this

/-- **independent of how much more the transaction offers**: two offers that cover the same configured denominations are
charged the same -/
theorem fee_independent_of_surplus (prices fee fee' : List (Str × Nat)) (gas : Nat)
    (hsame : ∀ p ∈ prices, (feeOffered fee p.1 ≥ feeIn p.2 gas ↔ feeOffered fee' p.1 ≥ feeIn p.2 gas)) :
    requiredFee prices fee gas = requiredFee prices fee' gas := by
  unfold requiredFee
  have : prices.find? (fun p => feeOffered fee p.1 ≥ p.2 * gas / one18) = prices.find? (fun p => feeOffered fee' p.1 ≥ p.2 * gas / one18) := by
    induction prices with
    | nil => rfl
    | cons p r ih =>
      have hp := hsame p (by simp)
      have ihr := ih (fun q hq => hsame q (by simp [hq]))
      unfold feeIn at hp
      simp only [List.find?_cons]
      by_cases c : feeOffered fee p.1 ≥ p.2 * gas / one18
      · have c' := hp.mp c
        simp [c, c']
      · have c' : ¬ feeOffered fee' p.1 ≥ p.2 * gas / one18 := fun h => c (hp.mpr h)
        simp only [c, c', decide_false]
        exact ihr
  rw [this]

/-- the fixed gas of a message list does not depend on the transaction's gas limit, fee, signers or the chain state:
it is a function of the message kinds alone -/
theorem fixed_gas_is_a_function_of_kinds (ms ms' : List Msg) (h : ms.map (·.kind) = ms'.map (·.kind)) : fixedGas ms = fixedGas ms' := by
  unfold fixedGas
  have e : ∀ l : List Msg, l.map msgGas = (l.map (·.kind)).map kindGas := by
    intro l; simp [List.map_map, Function.comp_def, msgGas]
  rw [e ms, e ms', h]

/-- the fixed costs as extracted from the current source: 10^4 per message, 10^12 more for the two create-tenant kinds -/
theorem fixed_costs :
    msgGas (.op .deposit (.deposit "a1" 1 (some 1) [])) = 10000 ∧ msgGas (.op .record (.cancel "a1" 1 [])) = 10000 ∧
    msgGas (.op .createTenant (.createTenant "a1" [] 1 none)) = 1000000010000 ∧
    msgGas (.op .createTenantMc (.createTenant "a1" [] 1 (some []))) = 1000000010000 := by decide

/-- **the split creates nothing and loses at most one unit**: for a percentage in [0,1] -/
theorem split_conservation (q f : Nat) (hq : q ≤ one18) :
    collectorPart q f + oraclePart q f ≤ f ∧ f ≤ collectorPart q f + oraclePart q f + 1 := by
  unfold collectorPart oraclePart
  have h1 : f * (one18 - q) = f * one18 - f * q := Nat.mul_sub f one18 q
  have h2 : f * q ≤ f * one18 := Nat.mul_le_mul_left f hq
  rw [h1]
  generalize f * q = x at *
  unfold one18 at *
  omega

theorem split_exact_shares (q f : Nat) : oraclePart q f = f * q / one18 ∧ collectorPart q f = f * (one18 - q) / one18 := ⟨rfl, rfl⟩

/-- the split as the code computes it agrees with `CalculateFees` (checked op by op by the pure engine: `calcfees`);
with q = 1 everything goes to the oracle pool, with q = 0 everything to the fee collector -/
theorem split_extremes (f : Nat) : oraclePart one18 f = f ∧ collectorPart one18 f = 0 ∧ oraclePart 0 f = 0 ∧ collectorPart 0 f = f := by
  unfold oraclePart collectorPart
  refine ⟨Nat.mul_div_cancel f one18_pos, by simp, by simp, ?_⟩
  simp [Nat.mul_div_cancel f one18_pos]

/-! ### the transaction level -/

/-- **charged whether or not its messages succeed, and independent of the gas limit**: a transaction made only of settlement
messages that passes admission is charged exactly `requiredFee` of its fixed gas -/
theorem settlement_tx_charged_fixed_fee (H : Str → Str) (a : AState) (tx : Tx) (hs : isSettlementTx tx.msgs = true) (ho : isOracleTx tx.msgs = false)
    (hante : (deliverTx H a tx).anteOk = true) :
    ∃ d f, requiredFee a.prices tx.fee (fixedGas tx.msgs) = some (d, f) ∧ (deliverTx H a tx).charged = some (d, f) := by
  have hr : route tx = .settlus := by unfold route; simp [hs]
  unfold deliverTx at hante ⊢
  by_cases hb : (tx.msgs.isEmpty || !basicAll tx.msgs) = true
  · simp [hb, rejected] at hante
  · simp only [hb, hr, Bool.false_eq_true, if_false] at hante ⊢
    unfold deliverSettlus at hante ⊢
    simp only [ho, Bool.false_eq_true, if_false] at hante ⊢
    cases hf : feeStep a tx with
    | none => simp [hf, rejected] at hante
    | some p =>
      obtain ⟨a1, ch⟩ := p
      simp only [hf] at hante ⊢
      by_cases hsg : sigsOk tx = true
      · simp only [hsg, if_true] at hante ⊢
        -- what feeStep charged is requiredFee
        have hch : requiredFee a.prices tx.fee (fixedGas tx.msgs) = some ch := by
          unfold feeStep at hf
          split at hf
          · cases hf
          · split at hf
            · rename_i d f p' hreq _
              split at hf
              · cases hf
              · split at hf
                · cases hf
                · simp only [Option.some.injEq, Prod.mk.injEq] at hf
                  rw [← hf.2]; exact hreq
            · cases hf
        refine ⟨ch.1, ch.2, hch, ?_⟩
        unfold finishSettlus
        cases hm : runMsgs H a1 tx.msgs with
        | none => rfl
        | some a2 => simp only; split <;> rfl
      · simp [hsg, rejected] at hante

/-- non-vacuity (the experiment of DESIGN.md): fixed cost 10 000 at price 1 uusdc and q = 1/3 charges 6 666 + 3 333 = 9 999 -/
example : requiredFee Facts.defaultGasPrices [("uusdc".toList, 77777)] 10000 = some ("uusdc".toList, 10000) ∧
    collectorPart 333333333333333333 10000 = 6666 ∧ oraclePart 333333333333333333 10000 = 3333 ∧
    requiredFee Facts.defaultGasPrices [("uusdc".toList, 9999)] 10000 = none := by decide


/-! ### the split the code computes -/

/-- the two expressions of `CalculateFees`, translated from the source on every run, are the floor split of the model -/
theorem fee_split_is_the_code (q f : Nat) (hq : q ≤ one18) :
    GenDec.gasFee (q : Int) (f : Int) = ((collectorPart q f : Nat) : Int) ∧ GenDec.oracleFee (q : Int) (f : Int) = ((oraclePart q f : Nat) : Int) :=
  fee_split_translated q f hq

end Settlus.C16
