/-
  C01 - Every recorded payment is resolved exactly once and funds are conserved.

  The ghost log of the model records one event per store transition (recorded / settled / cancelled / dropped / paid / minted /
  deposited). The theorems are about every state reachable from genesis by any list of operations - messages of both modules,
  harness set-up actions and block boundaries in any interleaving - and about every tenant, amount, recipient set, payout period
  and payout method.
-/
import SettlusModel.Proofs.RecWf
import SettlusModel.Query
import SettlusModel.Properties.C12
import SettlusModel.Properties.C10
import SettlusModel.Proofs.Dec
namespace Settlus.C01
open Settlus

/-! ### resolved at most once -/

/-- **at most one resolution event per record**: over the whole history a record id of a tenant is paid out, cancelled or
dropped at most once in total -/
theorem resolved_at_most_once (H : Str → Str) (pr : Nat) (c : Bool) (ops : List Op) (t : Nat) :
    (resolvedIds (run H (initState pr c) ops).log t).Nodup :=
  (reachable_linv H pr c ops).nodup t

/-- a resolved record is not pending any more, and its id lies at or below the tenant's id counter - and the counter never goes
down (`C12.ids_never_reused`), so the id is never handed out again -/
theorem resolved_stays_resolved (H : Str → Str) (pr : Nat) (c : Bool) (ops : List Op) (t id : Nat)
    (hres : id ∈ resolvedIds (run H (initState pr c) ops).log t) :
    (∀ r ∈ (run H (initState pr c) ops).st.recs t, r.id ≠ id) ∧
    ∃ l, (run H (initState pr c) ops).st.last t = some l ∧ id ≤ l :=
  ⟨(reachable_linv H pr c ops).gone t id hres, (reachable_linv H pr c ops).below t id hres⟩

theorem two_resolutions_not_nodup (log : List Event) (t id : Nat) (e1 e2 : Event) (hne : e1 ≠ e2) (h1 : e1 ∈ log) (h2 : e2 ∈ log)
    (r1 : resOf t e1 = some id) (r2 : resOf t e2 = some id) : ¬ (resolvedIds log t).Nodup := by
  intro hnd
  obtain ⟨l1, l2, rfl⟩ := List.append_of_mem h1
  have hin : e2 ∈ l1 ∨ e2 ∈ l2 := by
    simp only [List.mem_append, List.mem_cons] at h2
    rcases h2 with h | h | h
    · exact Or.inl h
    · exact absurd h.symm hne
    · exact Or.inr h
  have e : resolvedIds (l1 ++ e1 :: l2) t = resolvedIds l1 t ++ id :: resolvedIds l2 t := by
    simp [resolvedIds, List.filterMap_append, List.filterMap_cons, r1]
  rw [e, List.nodup_append] at hnd
  rcases hin with h | h
  · have : id ∈ resolvedIds l1 t := List.mem_filterMap.mpr ⟨e2, h, r2⟩
    exact hnd.2.2 id this id (by simp) rfl
  · have : id ∈ resolvedIds l2 t := List.mem_filterMap.mpr ⟨e2, h, r2⟩
    exact (List.nodup_cons.mp hnd.2.1).1 this

/-- **never paid after it was cancelled, never cancelled or dropped after it was paid, never paid twice**: two different resolution
events for the same record never both occur in a history -/
theorem no_two_resolutions (H : Str → Str) (pr : Nat) (c : Bool) (ops : List Op) (t id : Nat) (e1 e2 : Event)
    (h1 : e1 ∈ (run H (initState pr c) ops).log) (h2 : e2 ∈ (run H (initState pr c) ops).log)
    (r1 : resOf t e1 = some id) (r2 : resOf t e2 = some id) : e1 = e2 := by
  by_cases he : e1 = e2
  · exact he
  · exact absurd (resolved_at_most_once H pr c ops t) (two_resolutions_not_nodup _ t id e1 e2 he h1 h2 r1 r2)

theorem never_paid_after_cancel (H : Str → Str) (pr : Nat) (c : Bool) (ops : List Op) (t id h1 h2 : Nat)
    (hc : Event.cancelled t id h1 ∈ (run H (initState pr c) ops).log) : Event.settled t id h2 ∉ (run H (initState pr c) ops).log := by
  intro hs
  have := no_two_resolutions H pr c ops t id _ _ hc hs (by simp [resOf]) (by simp [resOf])
  cases this

theorem never_paid_twice (H : Str → Str) (pr : Nat) (c : Bool) (ops : List Op) (t id h1 h2 : Nat)
    (ha : Event.settled t id h1 ∈ (run H (initState pr c) ops).log) (hb : Event.settled t id h2 ∈ (run H (initState pr c) ops).log) : h1 = h2 := by
  have := no_two_resolutions H pr c ops t id _ _ ha hb (by simp [resOf]) (by simp [resOf])
  cases this; rfl

/-! ### pending until resolved -/

/-- **exactly one status**: every record id a tenant has been handed (ids are contiguous from 0 up to the counter) is pending or
has a resolution event, and never both -/
theorem every_record_pending_xor_resolved (H : Str → Str) (pr : Nat) (c : Bool) (ops : List Op) (t l id : Nat)
    (hl : (run H (initState pr c) ops).st.last t = some l) (hid : id ≤ l) :
    ((∃ r ∈ (run H (initState pr c) ops).st.recs t, r.id = id) ∨ id ∈ resolvedIds (run H (initState pr c) ops).log t) ∧
    ¬ ((∃ r ∈ (run H (initState pr c) ops).st.recs t, r.id = id) ∧ id ∈ resolvedIds (run H (initState pr c) ops).log t) := by
  refine ⟨reachable_cinv H pr c ops t l hl id hid, ?_⟩
  rintro ⟨⟨r, hr, hri⟩, hres⟩
  exact (reachable_linv H pr c ops).gone t id hres r hr hri

theorem run_append (H : Str → Str) (a b : List Op) : ∀ s, run H s (a ++ b) = run H (run H s a) b := by
  induction a with
  | nil => intro s; rfl
  | cons op r ih => intro s; simp only [List.cons_append, run]; exact ih _

/-- **a recorded payment stays pending until it is resolved**: a record pending after some history is, after any continuation of
that history, either still pending or resolved by an event the continuation appended -/
theorem pending_until_resolved (H : Str → Str) (pr : Nat) (c : Bool) (ops more : List Op) (t : Nat) (r : Rec)
    (hr : r ∈ (run H (initState pr c) ops).st.recs t) :
    (∃ r' ∈ (run H (initState pr c) (ops ++ more)).st.recs t, r'.id = r.id) ∨
    (r.id ∈ resolvedIds (run H (initState pr c) (ops ++ more)).log t ∧ r.id ∉ resolvedIds (run H (initState pr c) ops).log t) := by
  obtain ⟨l, hl, hle⟩ := (reachable_sinv H pr c ops t).below r hr
  have hmono := C12.ids_never_reused H more (run H (initState pr c) ops) t l hl
  rw [← run_append] at hmono
  obtain ⟨l', hl', hle'⟩ := hmono
  rcases reachable_cinv H pr c (ops ++ more) t l' hl' r.id (by omega) with h | h
  · exact Or.inl h
  · right
    refine ⟨h, ?_⟩
    intro hold
    exact (reachable_linv H pr c ops).gone t r.id hold r hr rfl

/-- a successful `Record` makes the record pending -/
theorem record_makes_pending (s : State) (a : String) (t : Nat) (req : Str) (amt : Option Int) (d ch c tok : Str) (p : RecordPlan)
    (h : recordPlan s a t req amt d ch c tok = some p) :
    ∃ r ∈ (record s a t req amt d ch c tok).st.st.recs t, r.id = p.id := by
  obtain ⟨_, r, hr, hid, _⟩ := C10.record_stores_those_recipients s a t req amt d ch c tok p h
  exact ⟨r, hr, hid⟩

/-! ### payments -/

/-- **payment events come in one batch per record, only together with its `settled` event**: in every reachable state the
payment events (bank transfers and mints) logged for a record are either none, or exactly the batch of one payout - one event
per valid recipient - and the record's `settled` event is in the log (so by `no_two_resolutions` it was neither cancelled nor
dropped, and no second batch exists) -/
theorem payments_are_one_batch (H : Str → Str) (pr : Nat) (c : Bool) (ops : List Op) (k id : Nat) :
    paysFor (run H (initState pr c) ops).log k id = [] ∨
    ∃ tn r h, tn.id = k ∧ r.id = id ∧ paysFor (run H (initState pr c) ops).log k id = payBatch tn r ∧
      Event.settled k id h ∈ (run H (initState pr c) ops).log :=
  (reachable_linv H pr c ops).pays k id

/-- each recipient's share is floor(amount * w / W), or floor(amount / n) when the total weight is 0 -/
theorem share_is_floor (t : Tenant) (r : Rec) (amount : Nat) (ha : r.amount = (amount : Int)) (n W : Nat) (x : Recipient) :
    evAmount (payEv t r n W x) = if W = 0 then amount / n else amount * x.weight / W := by
  rw [evAmount_payEv, ha, share_toNat]

/-- **the recipients together receive at most the recorded amount** (the remainder of the floor divisions stays with the tenant) -
for every recipient list whose 32-bit weight sum does not wrap -/
theorem recipients_receive_at_most_amount (t : Tenant) (r : Rec) (amount : Nat) (ha : r.amount = (amount : Int))
    (hw : weightTotal (validRcpts r) < 4294967296) : ((payBatch t r).map evAmount).sum ≤ amount :=
  batch_total_le t r amount ha hw

/-- in histories of transactions every pending record has a positive amount, a valid denomination and at most one recipient, of
weight 1 - so the side conditions above hold for every record a message created -/
theorem tx_records_well_formed (H : Str → Str) (pr : Nat) (c : Bool) (ops : List Op) (htx : ∀ op ∈ ops, IsTx op) (t : Nat) :
    ∀ r ∈ (run H (initState pr c) ops).st.recs t, 0 < r.amount ∧ weightTotal (validRcpts r) < 4294967296 := by
  intro r hr
  obtain ⟨h1, _, h3⟩ := reachable_allRecOk H pr c ops htx t r hr
  refine ⟨h1, ?_⟩
  unfold validRcpts weightTotal
  rcases h3 with e | ⟨o, e⟩
  · simp [e]
  · rw [e]
    simp only [List.filter_cons, List.filter_nil]
    split <;> simp

/-- a record with its single recipient of weight 1 pays that recipient the whole amount -/
theorem single_recipient_gets_everything (t : Tenant) (r : Rec) (o : Str) (amount : Nat) (ha : r.amount = (amount : Int))
    (hr : r.rcpt = [{ addr := o, weight := 1 }]) (hv : payable o = true) :
    (payBatch t r).map evAmount = [amount] := by
  have hvr : validRcpts r = [{ addr := o, weight := 1 }] := by simp [validRcpts, hr, hv]
  unfold payBatch
  rw [hvr]
  simp only [List.map_cons, List.map_nil, evAmount_payEv, ha, share_toNat]
  simp [weightSum]

/-- **a payout that goes through debits the treasury by exactly the logged transfers and credits every other holder by exactly the
events addressed to it**; for a native-currency tenant the debit is the sum of all amounts of the batch, for a minting tenant
no treasury balance moves at all -/
theorem payout_moves_exactly_the_batch (t : Tenant) (r : Rec) (f : Option Nat) (b b' : Bank) (c c' : Nat) (ev : List Event)
    (h : tryPayout t r f b c = .paid b' c' ev) :
    ev = payBatch t r ∧
    (∀ j d, b' (.treasury j) d + debits (payBatch t r) j d = b (.treasury j) d) ∧
    (∀ w d, (∀ j, w ≠ .treasury j) → b' w d = b w d + credits (payBatch t r) w d) ∧
    (t.mint = false → debits (payBatch t r) t.id r.denom = ((payBatch t r).map evAmount).sum) ∧
    (t.mint = true → ∀ j d, b' (.treasury j) d = b (.treasury j) d) := by
  obtain ⟨h1, h2⟩ := tryPayout_paid t r f b b' c c' ev h
  refine ⟨h1, h2, fun w d hw => tryPayout_credits t r f b b' c c' ev h w d hw, native_batch_debit t r, ?_⟩
  intro hm j d
  have := h2 j d
  have e : debits (payBatch t r) j d = 0 := by
    unfold payBatch debits
    generalize validRcpts r = vs
    generalize List.length vs = n
    generalize weightSum vs = W
    induction vs with
    | nil => rfl
    | cons x xs ih => simp only [List.map_cons, List.sum_cons, ih]; simp [payEv, hm, debitOf]
  omega

/-- a failed or panicking payout leaves every balance as it was (the attempt runs on a branch that is discarded) -/
theorem failed_payout_moves_nothing (h : Nat) (t : Tenant) (f : Option Nat) (r : Rec) (rest : List Rec) (b : Bank) (c : Nat) (idx : List (Str × Nat))
    (hf : ∃ c', tryPayout t r f b c = .failed c') :
    (settleQ h t f (r :: rest) b c idx).bank = b ∧ (settleQ h t f (r :: rest) b c idx).remaining = r :: rest :=
  ⟨(settleQ_stop h t f r rest b c idx (Or.inr hf)).2.1, (settleQ_stop h t f r rest b c idx (Or.inr hf)).1⟩

/-! ### the treasury -/

/-- **a treasury balance changes through nothing except deposits and payouts**: in every reachable state, for every tenant and
denomination, balance = (sum of successful deposits) - (sum of transfers paid out of it) -/
theorem treasury_is_deposits_minus_payouts (H : Str → Str) (pr : Nat) (c : Bool) (ops : List Op) (k : Nat) (d : Str) :
    (run H (initState pr c) ops).bank (.treasury k) d + debits (run H (initState pr c) ops).log k d =
      deposits (run H (initState pr c) ops).log k d :=
  (reachable_linv H pr c ops).treasury k d

/-- the same at the query server: for a native-currency tenant the Tenant query reports exactly deposits minus payouts, after any history -/
theorem tenant_query_reports_the_ledger (H : Str → Str) (pr : Nat) (c : Bool) (ops : List Op) (k : Nat) (v : TenantView)
    (hq : qTenant (run H (initState pr c) ops) k = some v) (hn : v.tenant.mint = false) :
    ∃ b, v.balance = some b ∧ b + debits (run H (initState pr c) ops).log v.tenant.id v.tenant.denom = deposits (run H (initState pr c) ops).log v.tenant.id v.tenant.denom := by
  unfold qTenant at hq
  cases hf : findTenant (run H (initState pr c) ops).st.tenants k with
  | none => rw [hf] at hq; cases hq
  | some t =>
    rw [hf] at hq
    simp only [Option.map_some, Option.some.injEq] at hq
    subst hq
    simp only [tenantView] at hn ⊢
    simp only [hn]
    exact ⟨_, rfl, treasury_is_deposits_minus_payouts H pr c ops t.id t.denom⟩


/-- the per-operation form: whatever one operation does to a treasury balance is accounted for by the events it appends -/
theorem step_keeps_ledger (H : Str → Str) (s : State) (op : Op) (hs : SInv s.st) (hl : LInv s) :
    ∀ k d, (step H s op).st.bank (.treasury k) d + debits (step H s op).st.log k d = deposits (step H s op).st.log k d :=
  (step_linv H s op hs hl).treasury

/-- cancelling moves no funds -/
theorem cancel_moves_no_funds (s : State) (a : String) (t : Nat) (req : Str) : (cancel s a t req).st.bank = s.bank := by
  unfold cancel; split <;> rfl

/-! ### non-vacuity -/

/-- a tenant (period 2) deposits 100, records 40 for an NFT owned by a3, and two blocks later the record is paid: resolved
once, treasury 60, a3 credited 40; a second record is cancelled and shows up as the second resolution -/
example :
    let c1 : Str := "0x00000000000000000000000000000000000000c1".toList
    let ops : List Op := [
      .createTenant "a1" "uusdc".toList 2 none, .fund "a1" 1000 "uusdc".toList, .deposit "a1" 1 (some 100) "uusdc".toList,
      .setOwner c1 "0x1".toList (some (some (accHex (.a 3)))),
      .record "a1" 1 "r".toList (some 40) "uusdc".toList thisChain c1 "0x1".toList,
      .record "a1" 1 "q".toList (some 7) "uusdc".toList thisChain c1 "0x1".toList,
      .cancel "a1" 1 "q".toList, .block, .block, .block]
    let s := run (fun x => x) (initState 1000000 true) ops
    resolvedIds s.log 1 = [1, 0] ∧ s.bank (.treasury 1) "uusdc".toList = 60 ∧ s.bank (.acct (.a 3)) "uusdc".toList = 40 ∧
    debits s.log 1 "uusdc".toList = 40 ∧ deposits s.log 1 "uusdc".toList = 100 ∧ s.st.recs 1 = [] ∧ (paysFor s.log 1 0).length = 1 := by
  decide +kernel


/-! ### the split the code computes -/

/-- the two expressions of `tryPayout`, translated from the source on every run (`Amount.Quo(n)` and `Amount.Mul(w).Quo(W)` on
`math.Int`), are the model's `share` -/
theorem share_is_the_code (amount : Int) (n W w : Nat) :
    share amount n W w = if W = 0 then GenDec.shareEqual amount (n : Int) else GenDec.shareWeighted amount (w : Int) (W : Int) :=
  share_translated amount n W w

end Settlus.C01
