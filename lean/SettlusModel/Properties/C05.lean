/-
  C05 - NFT owner accepted only with threshold voting power; one validator, one voice.
-/
import SettlusModel.Proofs.Tally
import SettlusModel.Properties.C10
import SettlusModel.Proofs.Dec
namespace Settlus.C05
open Settlus

/-- the validators that revealed owner `o` for NFT `n` in the ballots the tally counts (each once) -/
def revealers (bs : List Ballot) (n : Nft) (o : Str) : List Nat := (bs.filter (fun b => b.nft == n && b.owner == o)).map (·.voter)

/-- **each validator counts once**: the ballots behind (nft, owner) come from pairwise different validators, however often
an entry was repeated and whatever spellings of its operator address a validator voted under -/
theorem each_validator_once (votes : List (String × List VoteData)) (n : Nft) (o : Str) : (revealers (ballots votes) n o).Nodup := by
  unfold revealers
  have hn := ballots_nodup votes
  generalize ballots votes = bs at hn
  induction bs with
  | nil => exact List.nodup_nil
  | cons b r ih =>
    rw [List.nodup_cons] at hn
    by_cases c : (b.nft == n && b.owner == o) = true
    · simp only [List.filter_cons, c, if_true, List.map_cons, List.nodup_cons]
      refine ⟨?_, ih hn.2⟩
      intro hm
      obtain ⟨x, hx, hxv⟩ := List.mem_map.mp hm
      have hxr := (List.mem_filter.mp hx)
      simp only [Bool.and_eq_true, beq_iff_eq] at hxr c
      have : x = b := by
        cases x; cases b
        simp_all
      exact hn.1 (this ▸ hxr.1)
    · simp only [List.filter_cons, c, Bool.false_eq_true, if_false]
      exact ih hn.2

/-- the power behind (nft, owner) is the sum of the claim-map weights of those validators -/
theorem power_is_sum_over_revealers (cl : List (Nat × Nat)) (bs : List Ballot) (n : Nft) (o : Str) :
    powerFor cl bs n o = ((revealers bs n o).map (weightOfVoter cl)).sum := by
  unfold powerFor revealers
  simp [List.map_map, Function.comp_def]

/-- a validator outside the claim map (not bonded, jailed, or unknown) carries no weight -/
theorem nonactive_weightless (cl : List (Nat × Nat)) (i : Nat) (h : alGet cl i = none) : weightOfVoter cl i = 0 := by
  unfold weightOfVoter; simp [h]

/-- **repeating an entry changes nothing**: a vote list in which an entry already revealed by the same validator occurs again
yields exactly the same ballots -/
theorem repeat_irrelevant (xs ys : List Ballot) (b : Ballot) (h : b ∈ xs) :
    dedupBallots (xs ++ b :: ys) [] = dedupBallots (xs ++ ys) [] := dedupBallots_repeat xs ys [] b (Or.inl h)

/-- **accepted exactly when threshold power revealed that owner and no other owner reached the threshold** -/
theorem accepted_iff (cl : List (Nat × Nat)) (bs : List Ballot) (thr : Nat) (n : Nft) (o : Str) :
    alGet (acceptedOwners cl bs thr) n = some o ↔
      (o ∈ ownersOf bs n ∧ thr ≤ powerFor cl bs n o ∧ ∀ o' ∈ ownersOf bs n, o' ≠ o → powerFor cl bs n o' < thr) := by
  unfold acceptedOwners
  rw [alGet_accepted cl bs thr n (nftsOf bs)]
  have hp : pickOwner cl bs thr n = some o ↔
      (o ∈ ownersOf bs n ∧ thr ≤ powerFor cl bs n o ∧ ∀ o' ∈ ownersOf bs n, o' ≠ o → powerFor cl bs n o' < thr) := by
    unfold pickOwner
    have key := filter_eq_singleton_iff (fun o => decide (powerFor cl bs n o ≥ thr)) (ownersOf bs n) (ownersOf_nodup bs n) o
    constructor
    · intro h
      have hf : (ownersOf bs n).filter (fun o => decide (powerFor cl bs n o ≥ thr)) = [o] := by
        split at h
        · rename_i o' heq; simp only [Option.some.injEq] at h; subst h; exact heq
        · cases h
      obtain ⟨h1, h2, h3⟩ := key.mp hf
      refine ⟨h1, by simpa using h2, ?_⟩
      intro o' ho' hne
      have := h3 o' ho' hne
      simpa using this
    · rintro ⟨h1, h2, h3⟩
      have hf := key.mpr ⟨h1, by simpa using h2, fun x hx hne => by simpa using h3 x hx hne⟩
      simp only [ge_iff_le] at hf ⊢
      rw [hf]
  by_cases hm : n ∈ nftsOf bs
  · simp only [hm, if_true]; exact hp
  · simp only [hm, if_false]
    constructor
    · intro h; cases h
    · rintro ⟨h1, _⟩
      exfalso
      obtain ⟨b, hb, hbn, _⟩ := (mem_ownersOf bs n o).mp h1
      apply hm
      unfold nftsOf
      have : ∀ (l acc : List Nft), (∀ x, x ∈ dedupNfts l acc ↔ x ∈ acc ∨ x ∈ l) := by
        intro l
        induction l with
        | nil => intro acc x; simp [dedupNfts]
        | cons y r ih =>
          intro acc x
          unfold dedupNfts
          by_cases c : acc.contains y = true
          · simp only [c, if_true]
            rw [ih acc x]
            have : y ∈ acc := List.contains_iff_mem.mp c
            constructor
            · rintro (h | h); exact Or.inl h; exact Or.inr (by simp [h])
            · rintro (h | h)
              · exact Or.inl h
              · rcases List.mem_cons.mp h with rfl | h
                · exact Or.inl this
                · exact Or.inr h
          · simp only [c, if_false, Bool.false_eq_true]
            rw [ih (y :: acc) x]
            simp only [List.mem_cons]
            constructor
            · rintro ((h | h) | h)
              · exact Or.inr (Or.inl h)
              · exact Or.inl h
              · exact Or.inr (Or.inr h)
            · rintro (h | h | h)
              · exact Or.inl (Or.inr h)
              · exact Or.inl (Or.inl h)
              · exact Or.inr h
      rw [this]
      exact Or.inr (List.mem_map.mpr ⟨b, hb, hbn⟩)

/-- the threshold is a ceiling: power reaches it exactly when power / total ≥ the configured fraction, as exact rationals -/
theorem threshold_exact (thr total p : Nat) : thresholdVotes thr total ≤ p ↔ thr * total ≤ p * one18 := threshold_le_iff thr total p

/-- the total the threshold is taken of is the summed weight of the claim map - the bonded, unjailed validators -/
theorem tally_uses_summed_active_power (s : State) :
    tallyAccepted s = acceptedOwners (claims s) (ballots s.os.votes) (thresholdVotes s.os.params.threshold (totalPower (claims s))) := rfl

/-- **written into the records exactly when accepted**: at a tally the pending records of an NFT without recipients that were
created before the round get the accepted owner; every other record is untouched (from C10's fill lemmas) -/
theorem fill_iff_accepted (acc : List (Nft × Str)) (cutoff : Nat) (r : Rec) :
    ((fillRec acc cutoff r).rcpt ≠ r.rcpt → r.rcpt = [] ∧ r.created ≤ cutoff ∧ ∃ o, alGet acc r.nft = some o ∧ (fillRec acc cutoff r).rcpt = [{ addr := o, weight := 1 }]) ∧
    (r.rcpt = [] → r.created ≤ cutoff → ∀ o, alGet acc r.nft = some o → (fillRec acc cutoff r).rcpt = [{ addr := o, weight := 1 }]) ∧
    (alGet acc r.nft = none → fillRec acc cutoff r = r) := by
  refine ⟨C10.fill_changes_only_empty_own_nft acc cutoff r, ?_, ?_⟩
  · intro h1 h2 o ho
    unfold fillRec
    simp [h1, h2, ho]
  · intro hn
    unfold fillRec
    split
    · simp [hn]
    · rfl

/-- non-vacuity: three validators of weight 1 out of five, threshold 0.5: two agreeing votes do not reach ceil(2.5) = 3, three do;
a validator repeating its entry three times still counts once -/
example :
    let n : Nft := ⟨"1".toList, "c".toList, "t".toList⟩
    let cl : List (Nat × Nat) := [(0, 1), (1, 1), (2, 1), (3, 1), (4, 1)]
    let b (i : Nat) (o : String) : Ballot := ⟨i, n, o.toList⟩
    thresholdVotes (one18 / 2) 5 = 3 ∧
    alGet (acceptedOwners cl [b 0 "x", b 1 "x"] 3) n = none ∧
    alGet (acceptedOwners cl [b 0 "x", b 1 "x", b 2 "x", b 3 "y"] 3) n = some "x".toList ∧
    dedupBallots [b 0 "x", b 0 "x", b 0 "x"] [] = [b 0 "x"] := by decide


/-! ### the threshold the code computes -/

/-- the expression of `EndBlocker`, translated from the source on every run (`VoteThreshold.MulInt64(total).Ceil().TruncateInt()`
over the cosmos-sdk fixed-point operations), is the ceiling the theorems above are about -/
theorem threshold_is_the_code (thr total : Nat) :
    GenDec.thresholdVotes (thr : Int) (total : Int) = ((thresholdVotes thr total : Nat) : Int) := thresholdVotes_translated thr total

end Settlus.C05
