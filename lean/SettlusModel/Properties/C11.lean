/-
  C11 - Per-tenant FIFO payout; shortage or backend failure defers, never loses or doubles.
  The payout backends (bank transfer, ERC-20 conversion, token mint) are modelled as a sequence of calls of which an
  arbitrary one - `fault : Option Nat`, counted across the block - fails; insufficient funds fail the transfer itself.
-/
import SettlusModel.Proofs.Pay
namespace Settlus.C11
open Settlus

/-- **strictly in recording order**: whatever fails, the records a tenant's loop resolves in a block are a prefix of its
queue (ascending ids), and what stays pending is the rest of the queue, unchanged and in the same order -/
theorem fifo_prefix (h : Nat) (t : Tenant) (fault : Option Nat) (last : Option Nat) (l : List Rec) (b : Bank) (c : Nat)
    (hq : QInv l (l.map entryOf) last) :
    ∃ pre, l = pre ++ (settleQ h t fault l b c (l.map entryOf)).remaining ∧
      (∀ id, (id ∈ (settleQ h t fault l b c (l.map entryOf)).settled ∨ id ∈ (settleQ h t fault l b c (l.map entryOf)).droppedIds) ↔ id ∈ pre.map (·.id)) ∧
      (∀ x ∈ pre, ∀ y ∈ (settleQ h t fault l b c (l.map entryOf)).remaining, x.id < y.id) := by
  obtain ⟨_, _, pre, hs, hids⟩ := settleQ_qinv h t fault last l b c hq
  refine ⟨pre, hs, hids, ?_⟩
  intro x hx y hy
  have hasc := hq.asc
  rw [hs, List.map_append, List.pairwise_append] at hasc
  exact hasc.2.2 x.id (List.mem_map.mpr ⟨x, hx, rfl⟩) y.id (List.mem_map.mpr ⟨y, hy, rfl⟩)

/-- a record is paid in the first block in which it is at the head of the queue, mature, and its payout goes through -/
theorem head_paid_when_eligible (h : Nat) (t : Tenant) (fault : Option Nat) (r : Rec) (rest : List Rec) (b b' : Bank) (c c' : Nat)
    (ev : List Event) (idx : List (Str × Nat)) (hm : mature r.created t.period h = true) (hp : tryPayout t r fault b c = .paid b' c' ev) :
    r.id ∈ (settleQ h t fault (r :: rest) b c idx).settled := by
  unfold settleQ
  simp [hm, hp]

/-- **a failure is atomic and defers the whole rest of the queue**: if the payout of the head fails at any backend call - or the
treasury cannot cover it - the head and every later record stay pending, the index is untouched, no balance has moved,
nothing is reported as settled, and the block goes on (no panic) -/
theorem failure_defers_everything (h : Nat) (t : Tenant) (fault : Option Nat) (r : Rec) (rest : List Rec) (b : Bank) (c c' : Nat)
    (idx : List (Str × Nat)) (hf : tryPayout t r fault b c = .failed c') :
    (settleQ h t fault (r :: rest) b c idx).remaining = r :: rest ∧ (settleQ h t fault (r :: rest) b c idx).bank = b ∧
    (settleQ h t fault (r :: rest) b c idx).index = idx ∧ (settleQ h t fault (r :: rest) b c idx).settled = [] ∧
    (settleQ h t fault (r :: rest) b c idx).events = [] ∧ (settleQ h t fault (r :: rest) b c idx).panic = false := by
  obtain ⟨a1, a2, a3, a4, _, a6, a7⟩ := settleQ_stop h t fault r rest b c idx (Or.inr ⟨c', hf⟩)
  exact ⟨a1, a2, a3, a4, a6, a7⟩

/-- a payout attempt never half-happens: whatever position fails, the outcome carries either the bank after all transfers
or no bank at all -/
theorem payout_all_or_nothing (t : Tenant) (r : Rec) (fault : Option Nat) (b : Bank) (c : Nat) :
    (∃ b' c' ev, tryPayout t r fault b c = .paid b' c' ev) ∨ tryPayout t r fault b c = .dropped ∨
    (∃ c', tryPayout t r fault b c = .failed c') ∨ tryPayout t r fault b c = .panicked := by
  cases h : tryPayout t r fault b c with
  | paid b' c' ev => exact Or.inl ⟨b', c', ev, rfl⟩
  | dropped => exact Or.inr (Or.inl rfl)
  | failed c' => exact Or.inr (Or.inr (Or.inl ⟨c', rfl⟩))
  | panicked => exact Or.inr (Or.inr (Or.inr rfl))

/-- records whose coin is valid never make the payout panic: well-formedness of what a transaction can record -/
def CoinOk (r : Rec) : Prop := validDenom r.denom = true ∧ 0 ≤ r.amount

theorem payRcpts_no_panic (t : Tenant) (r : Rec) (fault : Option Nat) (n W : Nat) (hc : CoinOk r) :
    ∀ (vs : List Recipient) (b : Bank) (c : Nat) (ev : List Event), payRcpts t r fault n W vs b c ev ≠ .panicked := by
  intro vs
  induction vs with
  | nil => intro b c ev; simp [payRcpts]
  | cons x xs ih =>
    intro b c ev
    have hs : ¬ (share r.amount n W x.weight < 0) := by have := share_nonneg r.amount n W x.weight hc.2; omega
    unfold payRcpts
    simp only [hs, hc.1, Bool.not_true, Bool.false_or, decide_false, Bool.false_eq_true, if_false]
    repeat' split
    all_goals first | (intro hh; cases hh) | exact ih _ _ _

/-- **the block still completes**: with valid coins the loop never panics, whatever backend call fails -/
theorem block_completes (h : Nat) (t : Tenant) (fault : Option Nat) :
    ∀ (l : List Rec) (b : Bank) (c : Nat) (idx : List (Str × Nat)), (∀ r ∈ l, CoinOk r) → (settleQ h t fault l b c idx).panic = false := by
  intro l
  induction l with
  | nil => intro b c idx _; rfl
  | cons r rest ih =>
    intro b c idx hc
    have hr := hc r (by simp)
    have hrest : ∀ x ∈ rest, CoinOk x := fun x hx => hc x (by simp [hx])
    unfold settleQ
    split
    · rfl
    · split
      · rename_i hp
        exfalso
        unfold tryPayout at hp
        split at hp
        · cases hp
        · exact payRcpts_no_panic t r fault _ _ hr _ _ _ _ hp
      · rfl
      · exact ih _ _ _ hrest
      · exact ih _ _ _ hrest

/-- **recovery**: once no backend call fails, the only reason a mature head is not paid is a treasury that cannot cover it -/
theorem no_fault_failure_is_shortage (t : Tenant) (r : Rec) (n W : Nat) (hc : CoinOk r) :
    ∀ (vs : List Recipient) (b : Bank) (c : Nat) (ev : List Event) (c' : Nat),
      payRcpts t r none n W vs b c ev = .failed c' → t.mint = false ∧
        ∃ x ∈ vs, ∃ b₀ : Bank, b₀ (treasuryName t.id) r.denom < (share r.amount n W x.weight).toNat := by
  intro vs
  induction vs with
  | nil => intro b c ev c' h; simp [payRcpts] at h
  | cons x xs ih =>
    intro b c ev c' h
    have hs : ¬ (share r.amount n W x.weight < 0) := by have := share_nonneg r.amount n W x.weight hc.2; omega
    unfold payRcpts at h
    simp only [hs, hc.1, Bool.not_true, Bool.false_or, decide_false, Bool.false_eq_true, if_false] at h
    by_cases hm : t.mint = true
    · simp only [hm, if_true] at h
      have hn : ((none : Option Nat) == some c) = false := rfl
      simp only [hn, Bool.false_eq_true, if_false] at h
      obtain ⟨hm', _⟩ := ih _ _ _ _ h
      rw [hm] at hm'; cases hm'
    · have hm' : t.mint = false := by cases hx : t.mint <;> simp_all
      refine ⟨hm', ?_⟩
      simp only [hm', Bool.false_eq_true, if_false] at h
      have hn : ((none : Option Nat) == some c) = false := rfl
      simp only [hn, Bool.false_eq_true, if_false] at h
      have key : ∀ (o : PayOutcome),
          (match b.send (treasuryName t.id) (holderOfHex x.addr) r.denom (share r.amount n W x.weight).toNat with
            | none => PayOutcome.failed (c + 1)
            | some b' => payRcpts t r none n W xs b' (c + 1) (ev ++ [Event.paid t.id r.id (holderOfHex x.addr) r.denom (share r.amount n W x.weight).toNat])) = o →
          o = PayOutcome.failed c' →
          ∃ y, y ∈ x :: xs ∧ ∃ b₀ : Bank, b₀ (treasuryName t.id) r.denom < (share r.amount n W y.weight).toNat := by
        intro o ho hof
        subst hof
        split at ho
        · rename_i hsend
          refine ⟨x, by simp, b, ?_⟩
          unfold Bank.send at hsend
          split at hsend
          · assumption
          · cases hsend
        · obtain ⟨_, y, hy, b0, hb0⟩ := ih _ _ _ _ ho
          exact ⟨y, by simp [hy], b0, hb0⟩
      split at h
      · exact key _ rfl h
      · exact key _ rfl h

/-- non-vacuity: a two-recipient record whose second transfer is made to fail leaves the bank untouched and the record pending -/
example :
    let t : Tenant := { id := 1, admins := [.a 1], denom := "uusdc".toList, period := 1, mint := false, contract := [] }
    let r : Rec := { id := 0, req := "r".toList, amount := 10, denom := "uusdc".toList, nft := ⟨"1".toList, [], []⟩, created := 1,
                     rcpt := [⟨"0x0101010101010101010101010101010101010101".toList, 1⟩, ⟨"0x0202020202020202020202020202020202020202".toList, 1⟩] }
    let b : Bank := fun h d => if h = Holder.treasury 1 ∧ d = "uusdc".toList then 100 else 0
    (settleQ 5 t (some 1) [r] b 0 []).remaining = [r] ∧ (settleQ 5 t (some 1) [r] b 0 []).settled = [] ∧
    (settleQ 5 t none [r] b 0 []).settled = [0] ∧ (settleQ 5 t none [r] b 0 []).bank (.treasury 1) "uusdc".toList = 90 := by decide

end Settlus.C11
