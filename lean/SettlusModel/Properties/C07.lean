/-
  C07 - The state transition is deterministic.

  The model is a function, so "same block, same state, same result" holds of it by construction; what has to be shown is that the
  code it models may be read as a function at all, although it iterates over Go maps. The extractor lists every `range` over a map,
  every `time.Now`, every `rand` import and every `go` statement in the state-machine packages (`Facts`). The inventory theorems
  pin that list; the order theorems show, for each listed site, that the value the loop computes is the same for every order in
  which the map can be walked - so the model's fixed order loses nothing.
-/
import SettlusModel.Chain
namespace Settlus.C07
open Settlus

/-! ### inventory -/

/-- the map iterations of the state-machine packages are exactly these seven loops -/
theorem map_range_inventory : Facts.mapRanges =
    ["x/oracle/abci.go:EndBlocker:validatorClaimMap",
     "x/oracle/keeper/feeder.go:RewardBallotWinners:validatorClaimMap",
     "x/oracle/keeper/feeder.go:RewardBallotWinners:validatorClaimMap",
     "x/oracle/voteprocessor/voteprocessor.go:TallyVotes:votes",
     "x/oracle/voteprocessor/voteprocessor.go:TallyVotes:votes",
     "x/oracle/voteprocessor/voteprocessor.go:pickMostVoted:voteCount",
     "x/oracle/voteprocessor/voteprocessor.go:pickMostVoted:voteCountAboveThreshold"] := by decide

/-- wall-clock time is read only as the argument of a telemetry call; nothing imports a random source; nothing starts a goroutine -/
theorem no_clock_no_randomness_no_goroutines :
    Facts.clocksOnlyTelemetry = true ∧ Facts.randImports = [] ∧ Facts.goStatements = [] := by decide

/-! ### site 1: `EndBlocker`, miss counting over the claim map -/

/-- the counter of key `k` after bumping the validators of `l`, in any order: the old value plus the number of them named `k` -/
theorem alGet_bump (l : List Nat) : ∀ (m : List (String × Nat)) (k : String),
    alGet (l.foldl bumpMiss m) k =
      if l.countP (fun i => valName i == k) = 0 then alGet m k
      else some ((alGet m k).getD 0 + l.countP (fun i => valName i == k)) := by
  induction l with
  | nil => intro m k; simp
  | cons i r ih =>
    intro m k
    simp only [List.foldl_cons, ih, List.countP_cons]
    by_cases hk : valName i = k
    · subst hk
      simp only [beq_self_eq_true, if_true, bumpMiss, alGet_alSet_same]
      by_cases h0 : List.countP (fun j => valName j == valName i) r = 0
      · simp [h0]
      · simp only [h0, if_false, Option.getD_some]
        have : List.countP (fun j => valName j == valName i) r + 1 ≠ 0 := by omega
        simp only [this, if_false]
        congr 1; omega
    · have hb : (valName i == k) = false := by simp [hk]
      simp only [hb, Bool.false_eq_true, if_false, Nat.add_zero, bumpMiss]
      rw [alGet_alSet_ne _ _ _ _ (fun e => hk e.symm)]

/-- **the miss counters do not depend on the order in which the claim map is walked** -/
theorem miss_count_order_independent (l₁ l₂ : List Nat) (hp : l₁.Perm l₂) (m : List (String × Nat)) (k : String) :
    alGet (l₁.foldl bumpMiss m) k = alGet (l₂.foldl bumpMiss m) k := by
  rw [alGet_bump, alGet_bump, hp.countP_eq]

/-! ### sites 2 and 3: `RewardBallotWinners` -/

/-- the weight sum of the winners is the same in every order -/
theorem reward_weight_sum_order_independent (w₁ w₂ : List (Nat × Nat)) (hp : w₁.Perm w₂) : totalPower w₁ = totalPower w₂ := by
  unfold totalPower
  exact (hp.map _).sum_nat

theorem upd2_comm (f : Nat → Str → Nat) (a b : Nat) (d : Str) (u v : Nat) :
    (fun i d' => if i = b ∧ d' = d then (if i = a ∧ d' = d then f i d' + u else f i d') + v else (if i = a ∧ d' = d then f i d' + u else f i d')) =
    (fun i d' => if i = a ∧ d' = d then (if i = b ∧ d' = d then f i d' + v else f i d') + u else (if i = b ∧ d' = d then f i d' + v else f i d')) := by
  funext i d'
  by_cases h1 : i = b ∧ d' = d
  · by_cases h2 : i = a ∧ d' = d
    · simp only [if_pos h1, if_pos h2]; omega
    · simp only [if_pos h1, if_neg h2]
  · by_cases h2 : i = a ∧ d' = d
    · simp only [if_neg h1, if_pos h2]
    · simp only [if_neg h1, if_neg h2]

theorem upd1_comm (f : Str → Nat) (d : Str) (u v : Nat) :
    (fun d' => if d' = d then (if d' = d then f d' + u else f d') + v else (if d' = d then f d' + u else f d')) =
    (fun d' => if d' = d then (if d' = d then f d' + v else f d') + u else (if d' = d then f d' + v else f d')) := by
  funext d'
  by_cases h1 : d' = d
  · simp only [if_pos h1]; omega
  · simp only [if_neg h1]

/-- the allocation of one reward: validator `i` is credited `final`, the community pool `contribution` -/
def bumpDistr (dd : Distr) (i : Nat) (d : Str) (final contribution : Nat) : Distr :=
  { outstanding := fun j d' => if j = i ∧ d' = d then dd.outstanding j d' + final else dd.outstanding j d',
    community := fun d' => if d' = d then dd.community d' + contribution else dd.community d' }

theorem bumpDistr_comm (dd : Distr) (i j : Nat) (d : Str) (f1 c1 f2 c2 : Nat) :
    bumpDistr (bumpDistr dd i d f1 c1) j d f2 c2 = bumpDistr (bumpDistr dd j d f2 c2) i d f1 c1 := by
  unfold bumpDistr
  simp only [Distr.mk.injEq]
  exact ⟨upd2_comm _ _ _ _ _ _, upd1_comm _ _ _ _⟩

def rewardStep (d : Str) (acc : RewardRes × Nat) (i r f c : Nat) : RewardRes × Nat :=
  if r = 0 then acc else (⟨acc.1.bank, bumpDistr acc.1.distr i d f c⟩, acc.2 + r)

theorem rewardStep_comm (d : Str) (acc : RewardRes × Nat) (i r f c j r' f' c' : Nat) :
    rewardStep d (rewardStep d acc i r f c) j r' f' c' = rewardStep d (rewardStep d acc j r' f' c') i r f c := by
  unfold rewardStep
  by_cases hx : r = 0
  · by_cases hy : r' = 0
    · simp only [if_pos hx, if_pos hy]
    · simp only [if_pos hx, if_neg hy]
  · by_cases hy : r' = 0
    · simp only [if_neg hx, if_pos hy]
    · simp only [if_neg hx, if_neg hy, bumpDistr_comm _ i j]
      rw [Nat.add_right_comm]

theorem rewardOne_eq (cl : List (Nat × Nat)) (vals : List Val) (W : Nat) (d : Str) (pool : Nat) (acc : RewardRes × Nat) (c : Nat × Nat) :
    rewardOne cl vals W d pool acc c =
      rewardStep d acc c.1 (rewardOf pool c.2 W) (rewardOf pool c.2 W * one18 - rewardOf pool c.2 W * rateOf vals c.1) (rewardOf pool c.2 W * rateOf vals c.1) := by
  simp only [rewardOne, rewardStep, bumpDistr]

theorem rewardOne_comm (cl : List (Nat × Nat)) (vals : List Val) (W : Nat) (d : Str) (pool : Nat) (acc : RewardRes × Nat) (x y : Nat × Nat) :
    rewardOne cl vals W d pool (rewardOne cl vals W d pool acc x) y = rewardOne cl vals W d pool (rewardOne cl vals W d pool acc y) x := by
  simp only [rewardOne_eq]
  exact rewardStep_comm d acc _ _ _ _ _ _ _ _

/-- **the allocation to validators, the community-pool contribution and the amount moved out of the pool are the same for every
order in which the claim map is walked** - the full result, not a projection -/
theorem reward_allocation_order_independent (cl : List (Nat × Nat)) (vals : List Val) (W : Nat) (d : Str) (pool : Nat)
    (w₁ w₂ : List (Nat × Nat)) (hp : w₁.Perm w₂) (acc : RewardRes × Nat) :
    w₁.foldl (rewardOne cl vals W d pool) acc = w₂.foldl (rewardOne cl vals W d pool) acc :=
  hp.foldl_eq' (fun x _ y _ z => rewardOne_comm cl vals W d pool z x y) acc

/-! ### sites 4 and 5: `TallyVotes` -/

/-- the tally result as a map: the entry of a source depends only on whether the source was visited -/
theorem alGet_accepted (cl : List (Nat × Nat)) (bs : List Ballot) (thr : Nat) (srcs : List Nft) (n : Nft) :
    alGet (srcs.filterMap (acceptedEntry cl bs thr)) n = if n ∈ srcs then pickOwner cl bs thr n else none := by
  induction srcs with
  | nil => simp [alGet]
  | cons x r ih =>
    simp only [List.filterMap_cons, List.mem_cons]
    cases hp : pickOwner cl bs thr x with
    | none =>
      have e : acceptedEntry cl bs thr x = none := by simp [acceptedEntry, hp]
      simp only [e]
      rw [ih]
      by_cases hx : n = x
      · subst hx
        simp only [true_or, if_true, hp]
        split <;> simp [*]
      · simp [hx]
    | some o =>
      have e : acceptedEntry cl bs thr x = some (x, o) := by simp [acceptedEntry, hp]
      simp only [e, alGet]
      by_cases hx : x = n
      · subst hx; simp [hp]
      · have : ¬ n = x := fun e => hx e.symm
        simp only [hx, if_false, this, false_or]
        exact ih

/-- **the accepted owners are the same map for every order in which the grouped votes are walked** -/
theorem tally_results_order_independent (cl : List (Nat × Nat)) (bs : List Ballot) (thr : Nat) (s₁ s₂ : List Nft) (hp : s₁.Perm s₂) (n : Nft) :
    alGet (s₁.filterMap (acceptedEntry cl bs thr)) n = alGet (s₂.filterMap (acceptedEntry cl bs thr)) n := by
  rw [alGet_accepted, alGet_accepted]
  simp only [hp.mem_iff]

/-- the second loop of `TallyVotes` as the code runs it: one ballot at a time, setting the voter's miss flag -/
def markOne (cl : List (Nat × Nat)) (accepted : List (Nft × Str)) (m : Nat → Bool) (b : Ballot) : Nat → Bool :=
  if alHas cl b.voter && alGet accepted b.nft != some b.owner then fun i => if i = b.voter then true else m i else m

theorem markLoop_eq (cl : List (Nat × Nat)) (accepted : List (Nft × Str)) (bs : List Ballot) : ∀ (m : Nat → Bool) (i : Nat),
    bs.foldl (markOne cl accepted) m i = (m i || (alHas cl i && bs.any (fun b => b.voter == i && alGet accepted b.nft != some b.owner))) := by
  induction bs with
  | nil => intro m i; simp
  | cons b r ih =>
    intro m i
    simp only [List.foldl_cons, ih, List.any_cons]
    unfold markOne
    by_cases hc : (alHas cl b.voter && alGet accepted b.nft != some b.owner) = true
    · simp only [hc, if_true]
      by_cases hi : i = b.voter
      · subst hi
        simp only [Bool.and_eq_true] at hc
        simp [hc.1, hc.2]
      · have : (b.voter == i) = false := by simp; exact fun e => hi e.symm
        simp [hi, this]
    · simp only [hc, Bool.false_eq_true, if_false]
      by_cases hi : b.voter = i
      · subst hi
        have hc' : (alHas cl b.voter && alGet accepted b.nft != some b.owner) = false := by simpa using hc
        cases h1 : alHas cl b.voter
        · simp
        · rw [h1] at hc'
          simp only [Bool.true_and] at hc'
          simp [hc']
      · have : (b.voter == i) = false := by simp [hi]
        simp [this]

/-- **the miss flags are the same for every order in which sources and ballots are walked**, and they are the predicate `missed` -/
theorem miss_marks_order_independent (cl : List (Nat × Nat)) (accepted : List (Nft × Str)) (b₁ b₂ : List Ballot) (hp : b₁.Perm b₂) (i : Nat) :
    b₁.foldl (markOne cl accepted) (fun _ => false) i = b₂.foldl (markOne cl accepted) (fun _ => false) i ∧
    b₁.foldl (markOne cl accepted) (fun _ => false) i = missed cl b₁ accepted i := by
  rw [markLoop_eq, markLoop_eq]
  refine ⟨?_, by simp [missed]⟩
  congr 2
  have : ∀ (p : Ballot → Bool) (l₁ l₂ : List Ballot), l₁.Perm l₂ → l₁.any p = l₂.any p := by
    intro p l₁ l₂ h
    rw [Bool.eq_iff_iff]
    simp only [List.any_eq_true]
    exact ⟨fun ⟨x, hx, hpx⟩ => ⟨x, h.mem_iff.mp hx, hpx⟩, fun ⟨x, hx, hpx⟩ => ⟨x, h.mem_iff.mpr hx, hpx⟩⟩
  exact this _ _ _ hp

/-! ### sites 6 and 7: `pickMostVoted` -/

/-- the weight behind a value is a sum: any order of accumulation gives the same count -/
theorem vote_count_order_independent (cl : List (Nat × Nat)) (b₁ b₂ : List Ballot) (hp : b₁.Perm b₂) (n : Nft) (o : Str) :
    powerFor cl b₁ n o = powerFor cl b₂ n o := by
  unfold powerFor
  exact ((hp.filter _).map _).sum_nat

/-- **the picked value is the same for every order in which the count map is walked**: one value at or above the threshold is
returned whichever comes first, two or more give no result, none gives no result -/
theorem pick_order_independent (p : Str → Bool) (o₁ o₂ : List Str) (hp : o₁.Perm o₂) :
    (match o₁.filter p with | [o] => some o | _ => none) = (match o₂.filter p with | [o] => some o | _ => none) := by
  have hf := hp.filter p
  cases h1 : o₁.filter p with
  | nil =>
    rw [h1] at hf
    have : o₂.filter p = [] := by simpa using hf.symm.eq_nil
    rw [this]
  | cons a r =>
    cases r with
    | nil =>
      rw [h1] at hf
      have : o₂.filter p = [a] := List.perm_singleton.mp hf.symm
      rw [this]
    | cons b r' =>
      rw [h1] at hf
      have hl := hf.length_eq
      simp only [List.length_cons] at hl
      cases h2 : o₂.filter p with
      | nil => rfl
      | cons a' r2 =>
        cases r2 with
        | nil => rw [h2] at hl; simp at hl
        | cons b' r2' => rfl

/-! ### the claim map as a whole: every lookup, the total and the threshold are the same for every order of its entries -/

theorem alGet_perm {β} (l₁ l₂ : List (Nat × β)) (hp : l₁.Perm l₂) (hn : (l₁.map (·.1)).Nodup) (k : Nat) : alGet l₁ k = alGet l₂ k := by
  induction hp with
  | nil => rfl
  | cons x _ ih =>
    obtain ⟨a, b⟩ := x
    simp only [List.map_cons, List.nodup_cons] at hn
    simp only [alGet, ih hn.2]
  | swap x y l =>
    obtain ⟨a, b⟩ := x
    obtain ⟨c, d⟩ := y
    simp only [List.map_cons, List.nodup_cons, List.mem_cons, not_or] at hn
    simp only [alGet]
    by_cases h1 : c = k <;> by_cases h2 : a = k <;> simp only [h1, h2, if_true, if_false]
    exact absurd (h1.trans h2.symm) hn.1.1
  | trans p1 _ ih1 ih2 =>
    rw [ih1 hn]
    exact ih2 ((p1.map _).nodup_iff.mp hn)

theorem filterMap_keys_nodup (f : Nat → Option (Nat × Nat)) (hf : ∀ j p, f j = some p → p.1 = j) (l : List Nat) (hl : l.Nodup) :
    ((l.filterMap f).map (·.1)).Nodup := by
  induction l with
  | nil => simp
  | cons i r ih =>
    simp only [List.nodup_cons] at hl
    have hsub : ∀ x ∈ (r.filterMap f).map (·.1), x ∈ r := by
      intro x hx
      obtain ⟨p, hp, rfl⟩ := List.mem_map.mp hx
      obtain ⟨j, hj, hjp⟩ := List.mem_filterMap.mp hp
      rw [hf j p hjp]; exact hj
    simp only [List.filterMap_cons]
    cases hfi : f i with
    | none => exact ih hl.2
    | some p =>
      simp only [List.map_cons, List.nodup_cons, hf i p hfi]
      exact ⟨fun hin => hl.1 (hsub i hin), ih hl.2⟩

/-- the claim map has one entry per validator index -/
theorem claims_keys_nodup (s : State) : ((claims s).map (·.1)).Nodup := by
  unfold claims
  apply filterMap_keys_nodup _ _ _ List.nodup_range
  intro j p hjp
  split at hjp
  · split at hjp
    · cases hjp; rfl
    · cases hjp
  · cases hjp

/-- **weights, total power and threshold do not depend on the order of the claim map** -/
theorem claim_map_order_independent (cl₁ cl₂ : List (Nat × Nat)) (hp : cl₁.Perm cl₂) (hn : (cl₁.map (·.1)).Nodup) (thr : Nat) :
    (∀ i, weightOfVoter cl₁ i = weightOfVoter cl₂ i) ∧ (∀ i, alHas cl₁ i = alHas cl₂ i) ∧ totalPower cl₁ = totalPower cl₂ ∧
    thresholdVotes thr (totalPower cl₁) = thresholdVotes thr (totalPower cl₂) := by
  have ht := reward_weight_sum_order_independent cl₁ cl₂ hp
  refine ⟨fun i => ?_, fun i => ?_, ht, by rw [ht]⟩
  · unfold weightOfVoter; rw [alGet_perm cl₁ cl₂ hp hn i]
  · unfold alHas; rw [alGet_perm cl₁ cl₂ hp hn i]

/-- **the whole tally - accepted owner of every NFT and the set of validators charged a miss - is the same whichever way the claim map
and the grouped votes are walked** -/
theorem tally_order_independent (cl₁ cl₂ : List (Nat × Nat)) (hp : cl₁.Perm cl₂) (hn : (cl₁.map (·.1)).Nodup) (bs : List Ballot) (thr : Nat)
    (s₁ s₂ : List Nft) (hs : s₁.Perm s₂) :
    (∀ n, alGet (s₁.filterMap (acceptedEntry cl₁ bs thr)) n = alGet (s₂.filterMap (acceptedEntry cl₂ bs thr)) n) ∧
    (∀ acc i, missed cl₁ bs acc i = missed cl₂ bs acc i) := by
  obtain ⟨hw, hh, _, _⟩ := claim_map_order_independent cl₁ cl₂ hp hn thr
  have hpow : ∀ n o, powerFor cl₁ bs n o = powerFor cl₂ bs n o := by
    intro n o
    unfold powerFor
    congr 1
    apply List.map_congr_left
    intro b _
    exact hw b.voter
  have hpick : ∀ n, pickOwner cl₁ bs thr n = pickOwner cl₂ bs thr n := by
    intro n
    unfold pickOwner
    have : (fun o => decide (powerFor cl₁ bs n o ≥ thr)) = (fun o => decide (powerFor cl₂ bs n o ≥ thr)) := by
      funext o; rw [hpow n o]
    rw [this]
  constructor
  · intro n
    rw [alGet_accepted, alGet_accepted, hpick n]
    simp only [hs.mem_iff]
  · intro acc i
    unfold missed
    rw [hh i]

/-! ### the published NFT list is a function of the store -/

/-- the list of NFTs to verify is computed from the ordered store walk alone (no map): two states with the same settlement store
publish the same list -/
theorem nft_list_canonical (s₁ s₂ : State) (h : s₁.st.recs = s₂.st.recs) (ht : s₁.st.recTenants = s₂.st.recTenants) (u : Nat) :
    nftsToVerify s₁.st u = nftsToVerify s₂.st u := by
  unfold nftsToVerify allRecs
  rw [h, ht]

/-! ### non-vacuity -/

example : [3, 1, 2].Perm [1, 2, 3] ∧
    alGet ([3, 1, 2].foldl bumpMiss [("v1", 4)]) "v1" = some 5 ∧ alGet ([1, 2, 3].foldl bumpMiss [("v1", 4)]) "v1" = some 5 := by
  refine ⟨by decide, by decide, by decide⟩

end Settlus.C07
