/-
  C07 - The state transition is deterministic.

  The model is a function, so "same block, same state, same result" holds of it by construction; what has to be shown is that the
  code it models may be read as a function at all, although it iterates over Go maps. The extractor lists every `range` over a map,
  every `time.Now`, every `rand` import and every `go` statement in the state-machine packages (`Facts`). The inventory theorems
  pin that list; the order theorems show, for each listed site, that the value the loop computes is the same for every order in
  which the map can be walked - so the model's fixed order loses nothing.
-/
import SettlusModel.Chain
namespace Settlus.C07
open Settlus

/-! ### inventory -/

/-- the map iterations of the state-machine packages are exactly these seven loops -/
theorem map_range_inventory : Facts.mapRanges =
    ["x/oracle/abci.go:EndBlocker:validatorClaimMap",
     "x/oracle/keeper/feeder.go:RewardBallotWinners:validatorClaimMap",
     "x/oracle/keeper/feeder.go:RewardBallotWinners:validatorClaimMap",
     "x/oracle/voteprocessor/voteprocessor.go:TallyVotes:votes",
     "x/oracle/voteprocessor/voteprocessor.go:TallyVotes:votes",
     "x/oracle/voteprocessor/voteprocessor.go:pickMostVoted:voteCount",
     "x/oracle/voteprocessor/voteprocessor.go:pickMostVoted:voteCountAboveThreshold"] := by decide

/-- wall-clock time is read only as the argument of a telemetry call; nothing imports a random source; nothing starts a goroutine -/
theorem no_clock_no_randomness_no_goroutines :
    Facts.clocksOnlyTelemetry = true ∧ Facts.randImports = [] ∧ Facts.goStatements = [] := by decide

/-! ### site 1: `EndBlocker`, miss counting over the claim map -/

/-- the counter of key `k` after bumping the validators of `l`, in any order: the old value plus the number of them named `k` -/
theorem alGet_bump (l : List Nat) : ∀ (m : List (String × Nat)) (k : String),
    alGet (l.foldl bumpMiss m) k =
      if l.countP (fun i => valName i == k) = 0 then alGet m k
      else some ((alGet m k).getD 0 + l.countP (fun i => valName i == k)) := by
  induction l with
  | nil => intro m k; simp
  | cons i r ih =>
    intro m k
    simp only [List.foldl_cons, ih, List.countP_cons]
    by_cases hk : valName i = k
    · subst hk
      simp only [beq_self_eq_true, if_true, bumpMiss, alGet_alSet_same]
      by_cases h0 : List.countP (fun j => valName j == valName i) r = 0
      · simp [h0]
      · simp only [h0, if_false, Option.getD_some]
        have : List.countP (fun j => valName j == valName i) r + 1 ≠ 0 := by omega
        simp only [this, if_false]
        congr 1; omega
    · have hb : (valName i == k) = false := by simp [hk]
      simp only [hb, Bool.false_eq_true, if_false, Nat.add_zero, bumpMiss]
      rw [alGet_alSet_ne _ _ _ _ (fun e => hk e.symm)]

/-- **the miss counters do not depend on the order in which the claim map is walked** -/
theorem miss_count_order_independent (l₁ l₂ : List Nat) (hp : l₁.Perm l₂) (m : List (String × Nat)) (k : String) :
    alGet (l₁.foldl bumpMiss m) k = alGet (l₂.foldl bumpMiss m) k := by
  rw [alGet_bump, alGet_bump, hp.countP_eq]

/-! ### sites 2 and 3: `RewardBallotWinners` -/

/-- the weight sum of the winners is the same in every order -/
theorem reward_weight_sum_order_independent (w₁ w₂ : List (Nat × Nat)) (hp : w₁.Perm w₂) : totalPower w₁ = totalPower w₂ := by
  unfold totalPower
  exact (hp.map _).sum_nat

theorem upd2_comm (f : Nat → Str → Nat) (a b : Nat) (d : Str) (u v : Nat) :
    (fun i d' => if i = b ∧ d' = d then (if i = a ∧ d' = d then f i d' + u else f i d') + v else (if i = a ∧ d' = d then f i d' + u else f i d')) =
    (fun i d' => if i = a ∧ d' = d then (if i = b ∧ d' = d then f i d' + v else f i d') + u else (if i = b ∧ d' = d then f i d' + v else f i d')) := by
  funext i d'
  by_cases h1 : i = b ∧ d' = d
  · by_cases h2 : i = a ∧ d' = d
    · simp only [if_pos h1, if_pos h2]; omega
    · simp only [if_pos h1, if_neg h2]
  · by_cases h2 : i = a ∧ d' = d
    · simp only [if_neg h1, if_pos h2]
    · simp only [if_neg h1, if_neg h2]

theorem upd1_comm (f : Str → Nat) (d : Str) (u v : Nat) :
    (fun d' => if d' = d then (if d' = d then f d' + u else f d') + v else (if d' = d then f d' + u else f d')) =
    (fun d' => if d' = d then (if d' = d then f d' + v else f d') + u else (if d' = d then f d' + v else f d')) := by
  funext d'
  by_cases h1 : d' = d
  · simp only [if_pos h1]; omega
  · simp only [if_neg h1]

/-- the allocation of one reward: validator `i` is credited `final`, the community pool `contribution` -/
def bumpDistr (dd : Distr) (i : Nat) (d : Str) (final contribution : Nat) : Distr :=
  { outstanding := fun j d' => if j = i ∧ d' = d then dd.outstanding j d' + final else dd.outstanding j d',
    community := fun d' => if d' = d then dd.community d' + contribution else dd.community d' }

theorem bumpDistr_comm (dd : Distr) (i j : Nat) (d : Str) (f1 c1 f2 c2 : Nat) :
    bumpDistr (bumpDistr dd i d f1 c1) j d f2 c2 = bumpDistr (bumpDistr dd j d f2 c2) i d f1 c1 := by
  unfold bumpDistr
  simp only [Distr.mk.injEq]
  exact ⟨upd2_comm _ _ _ _ _ _, upd1_comm _ _ _ _⟩

def rewardStep (d : Str) (acc : RewardRes × Nat) (i r f c : Nat) : RewardRes × Nat :=
  if r = 0 then acc else (⟨acc.1.bank, bumpDistr acc.1.distr i d f c⟩, acc.2 + r)

theorem rewardStep_comm (d : Str) (acc : RewardRes × Nat) (i r f c j r' f' c' : Nat) :
    rewardStep d (rewardStep d acc i r f c) j r' f' c' = rewardStep d (rewardStep d acc j r' f' c') i r f c := by
  unfold rewardStep
  by_cases hx : r = 0
  · by_cases hy : r' = 0
    · simp only [if_pos hx, if_pos hy]
    · simp only [if_pos hx, if_neg hy]
  · by_cases hy : r' = 0
    · simp only [if_neg hx, if_pos hy]
    · simp only [if_neg hx, if_neg hy, bumpDistr_comm _ i j]
      rw [Nat.add_right_comm]

theorem rewardOne_eq (cl : List (Nat × Nat)) (vals : List Val) (W : Nat) (d : Str) (pool : Nat) (acc : RewardRes × Nat) (c : Nat × Nat) :
    rewardOne cl vals W d pool acc c =
      rewardStep d acc c.1 (rewardOf pool c.2 W) (rewardOf pool c.2 W * one18 - rewardOf pool c.2 W * rateOf vals c.1) (rewardOf pool c.2 W * rateOf vals c.1) := by
  simp only [rewardOne, rewardStep, bumpDistr]

theorem rewardOne_comm (cl : List (Nat × Nat)) (vals : List Val) (W : Nat) (d : Str) (pool : Nat) (acc : RewardRes × Nat) (x y : Nat × Nat) :
    rewardOne cl vals W d pool (rewardOne cl vals W d pool acc x) y = rewardOne cl vals W d pool (rewardOne cl vals W d pool acc y) x := by
  simp only [rewardOne_eq]
  exact rewardStep_comm d acc _ _ _ _ _ _ _ _

/-- **the allocation to validators, the community-pool contribution and the amount moved out of the pool are the same for every
order in which the claim map is walked** - the full result, not a projection -/
theorem reward_allocation_order_independent (cl : List (Nat × Nat)) (vals : List Val) (W : Nat) (d : Str) (pool : Nat)
    (w₁ w₂ : List (Nat × Nat)) (hp : w₁.Perm w₂) (acc : RewardRes × Nat) :
    w₁.foldl (rewardOne cl vals W d pool) acc = w₂.foldl (rewardOne cl vals W d pool) acc :=
  hp.foldl_eq' (fun x _ y _ z => rewardOne_comm cl vals W d pool z x y) acc

/-! ### sites 4 and 5: `TallyVotes` -/

/-- the tally result as a map: the entry of a source depends only on whether the source was visited -/
theorem alGet_accepted (cl : List (Nat × Nat)) (bs : List Ballot) (thr : Nat) (srcs : List Nft) (n : Nft) :
    alGet (srcs.filterMap (acceptedEntry cl bs thr)) n = if n ∈ srcs then pickOwner cl bs thr n else none := by
  induction srcs with
  | nil => simp [alGet]
  | cons x r ih =>
    simp only [List.filterMap_cons, List.mem_cons]
    cases hp : pickOwner cl bs thr x with
    | none =>
      have e : acceptedEntry cl bs thr x = none := by simp [acceptedEntry, hp]
      simp only [e]
      rw [ih]
      by_cases hx : n = x
      · subst hx
        simp only [true_or, if_true, hp]
        split <;> simp [*]
      · simp [hx]
    | some o =>
      have e : acceptedEntry cl bs thr x = some (x, o) := by simp [acceptedEntry, hp]
      simp only [e, alGet]
      by_cases hx : x = n
      · subst hx; simp [hp]
      · have : ¬ n = x := fun e => hx e.symm
        simp only [hx, if_false, this, false_or]
        exact ih

/-- **the accepted owners are the same map for every order in which the grouped votes are walked** -/
theorem tally_results_order_independent (cl : List (Nat × Nat)) (bs : List Ballot) (thr : Nat) (s₁ s₂ : List Nft) (hp : s₁.Perm s₂) (n : Nft) :
    alGet (s₁.filterMap (acceptedEntry cl bs thr)) n = alGet (s₂.filterMap (acceptedEntry cl bs thr)) n := by
  rw [alGet_accepted, alGet_accepted]
  simp only [hp.mem_iff]

/-- the second loop of `TallyVotes` as the code runs it: one ballot at a time, setting the voter's miss flag -/
def markOne (cl : List (Nat × Nat)) (accepted : List (Nft × Str)) (m : Nat → Bool) (b : Ballot) : Nat → Bool :=
  if alHas cl b.voter && alGet accepted b.nft != some b.owner then fun i => if i = b.voter then true else m i else m

theorem markLoop_eq (cl : List (Nat × Nat)) (accepted : List (Nft × Str)) (bs : List Ballot) : ∀ (m : Nat → Bool) (i : Nat),
    bs.foldl (markOne cl accepted) m i = (m i || (alHas cl i && bs.any (fun b => b.voter == i && alGet accepted b.nft != some b.owner))) := by
  induction bs with
  | nil => intro m i; simp
  | cons b r ih =>
    intro m i
    simp only [List.foldl_cons, ih, List.any_cons]
    unfold markOne
    by_cases hc : (alHas cl b.voter && alGet accepted b.nft != some b.owner) = true
    · simp only [hc, if_true]
      by_cases hi : i = b.voter
      · subst hi
        simp only [Bool.and_eq_true] at hc
        simp [hc.1, hc.2]
      · have : (b.voter == i) = false := by simp; exact fun e => hi e.symm
        simp [hi, this]
    · simp only [hc, Bool.false_eq_true, if_false]
      by_cases hi : b.voter = i
      · subst hi
        have hc' : (alHas cl b.voter && alGet accepted b.nft != some b.owner) = false := by simpa using hc
        cases h1 : alHas cl b.voter
        · simp
        · rw [h1] at hc'
          simp only [Bool.true_and] at hc'
          simp [hc']
      · have : (b.voter == i) = false := by simp [hi]
        simp [this]

/-- **the miss flags are the same for every order in which sources and ballots are walked**, and they are the predicate `missed` -/
theorem miss_marks_order_independent (cl : List (Nat × Nat)) (accepted : List (Nft × Str)) (b₁ b₂ : List Ballot) (hp : b₁.Perm b₂) (i : Nat) :
    b₁.foldl (markOne cl accepted) (fun _ => false) i = b₂.foldl (markOne cl accepted) (fun _ => false) i ∧
    b₁.foldl (markOne cl accepted) (fun _ => false) i = missed cl b₁ accepted i := by
  rw [markLoop_eq, markLoop_eq]
  refine ⟨?_, by simp [missed]⟩
  congr 2
  have : ∀ (p : Ballot → Bool) (l₁ l₂ : List Ballot), l₁.Perm l₂ → l₁.any p = l₂.any p := by
    intro p l₁ l₂ h
    rw [Bool.eq_iff_iff]
    simp only [List.any_eq_true]
    exact ⟨fun ⟨x, hx, hpx⟩ => ⟨x, h.mem_iff.mp hx, hpx⟩, fun ⟨x, hx, hpx⟩ => ⟨x, h.mem_iff.mpr hx, hpx⟩⟩
  exact this _ _ _ hp

/-! ### sites 6 and 7: `pickMostVoted` -/

/-- the weight behind a value is a sum: any order of accumulation gives the same count -/
theorem vote_count_order_independent (cl : List (Nat × Nat)) (b₁ b₂ : List Ballot) (hp : b₁.Perm b₂) (n : Nft) (o : Str) :
    powerFor cl b₁ n o = powerFor cl b₂ n o := by
  unfold powerFor
  exact ((hp.filter _).map _).sum_nat

/-- **the picked value is the same for every order in which the count map is walked**: one value at or above the threshold is
returned whichever comes first, two or more give no result, none gives no result -/
theorem pick_order_independent (p : Str → Bool) (o₁ o₂ : List Str) (hp : o₁.Perm o₂) :
    (match o₁.filter p with | [o] => some o | _ => none) = (match o₂.filter p with | [o] => some o | _ => none) := by
  have hf := hp.filter p
  cases h1 : o₁.filter p with
  | nil =>
    rw [h1] at hf
    have : o₂.filter p = [] := by simpa using hf.symm.eq_nil
    rw [this]
  | cons a r =>
    cases r with
    | nil =>
      rw [h1] at hf
      have : o₂.filter p = [a] := List.perm_singleton.mp hf.symm
      rw [this]
    | cons b r' =>
      rw [h1] at hf
      have hl := hf.length_eq
      simp only [List.length_cons] at hl
      cases h2 : o₂.filter p with
      | nil => rfl
      | cons a' r2 =>
        cases r2 with
        | nil => rw [h2] at hl; simp at hl
        | cons b' r2' => rfl

/-! ### the claim map as a whole: every lookup, the total and the threshold are the same for every order of its entries -/

theorem alGet_perm {β} (l₁ l₂ : List (Nat × β)) (hp : l₁.Perm l₂) (hn : (l₁.map (·.1)).Nodup) (k : Nat) : alGet l₁ k = alGet l₂ k := by
  induction hp with
  | nil => rfl
  | cons x _ ih =>
    obtain ⟨a, b⟩ := x
    simp only [List.map_cons, List.nodup_cons] at hn
    simp only [alGet, ih hn.2]
  | swap x y l =>
    obtain ⟨a, b⟩ := x
    obtain ⟨c, d⟩ := y
    simp only [List.map_cons, List.nodup_cons, List.mem_cons, not_or] at hn
    simp only [alGet]
    by_cases h1 : c = k <;> by_cases h2 : a = k <;> simp only [h1, h2, if_true, if_false]
    exact absurd (h1.trans h2.symm) hn.1.1
  | trans p1 _ ih1 ih2 =>
    rw [ih1 hn]
    exact ih2 ((p1.map _).nodup_iff.mp hn)

theorem filterMap_keys_nodup (f : Nat → Option (Nat × Nat)) (hf : ∀ j p, f j = some p → p.1 = j) (l : List Nat) (hl : l.Nodup) :
    ((l.filterMap f).map (·.1)).Nodup := by
  induction l with
  | nil => simp
  | cons i r ih =>
    simp only [List.nodup_cons] at hl
    have hsub : ∀ x ∈ (r.filterMap f).map (·.1), x ∈ r := by
      intro x hx
      obtain ⟨p, hp, rfl⟩ := List.mem_map.mp hx
      obtain ⟨j, hj, hjp⟩ := List.mem_filterMap.mp hp
      rw [hf j p hjp]; exact hj
    simp only [List.filterMap_cons]
    cases hfi : f i with
    | none => exact ih hl.2
    | some p =>
      simp only [List.map_cons, List.nodup_cons, hf i p hfi]
      exact ⟨fun hin => hl.1 (hsub i hin), ih hl.2⟩

/-- the claim map has one entry per validator index -/
theorem claims_keys_nodup (s : State) : ((claims s).map (·.1)).Nodup := by
  unfold claims
  apply filterMap_keys_nodup _ _ _ List.nodup_range
  intro j p hjp
  split at hjp
  · split at hjp
    · cases hjp; rfl
    · cases hjp
  · cases hjp

/-- **weights, total power and threshold do not depend on the order of the claim map** -/
theorem claim_map_order_independent (cl₁ cl₂ : List (Nat × Nat)) (hp : cl₁.Perm cl₂) (hn : (cl₁.map (·.1)).Nodup) (thr : Nat) :
    (∀ i, weightOfVoter cl₁ i = weightOfVoter cl₂ i) ∧ (∀ i, alHas cl₁ i = alHas cl₂ i) ∧ totalPower cl₁ = totalPower cl₂ ∧
    thresholdVotes thr (totalPower cl₁) = thresholdVotes thr (totalPower cl₂) := by
  have ht := reward_weight_sum_order_independent cl₁ cl₂ hp
  refine ⟨fun i => ?_, fun i => ?_, ht, by rw [ht]⟩
  · unfold weightOfVoter; rw [alGet_perm cl₁ cl₂ hp hn i]
  · unfold alHas; rw [alGet_perm cl₁ cl₂ hp hn i]

/-- **the whole tally - accepted owner of every NFT and the set of validators charged a miss - is the same whichever way the claim map
and the grouped votes are walked** -/
theorem tally_order_independent (cl₁ cl₂ : List (Nat × Nat)) (hp : cl₁.Perm cl₂) (hn : (cl₁.map (·.1)).Nodup) (bs : List Ballot) (thr : Nat)
    (s₁ s₂ : List Nft) (hs : s₁.Perm s₂) :
    (∀ n, alGet (s₁.filterMap (acceptedEntry cl₁ bs thr)) n = alGet (s₂.filterMap (acceptedEntry cl₂ bs thr)) n) ∧
    (∀ acc i, missed cl₁ bs acc i = missed cl₂ bs acc i) := by
  obtain ⟨hw, hh, _, _⟩ := claim_map_order_independent cl₁ cl₂ hp hn thr
  have hpow : ∀ n o, powerFor cl₁ bs n o = powerFor cl₂ bs n o := by
    intro n o
    unfold powerFor
    congr 1
    apply List.map_congr_left
    intro b _
    exact hw b.voter
  have hpick : ∀ n, pickOwner cl₁ bs thr n = pickOwner cl₂ bs thr n := by
    intro n
    unfold pickOwner
    have : (fun o => decide (powerFor cl₁ bs n o ≥ thr)) = (fun o => decide (powerFor cl₂ bs n o ≥ thr)) := by
      funext o; rw [hpow n o]
    rw [this]
  constructor
  · intro n
    rw [alGet_accepted, alGet_accepted, hpick n]
    simp only [hs.mem_iff]
  · intro acc i
    unfold missed
    rw [hh i]

/-! ### the pieces put together: what the end-blocker takes from the tally -/

theorem fillRec_congr (a₁ a₂ : List (Nft × Str)) (h : ∀ n, alGet a₁ n = alGet a₂ n) (u : Nat) (r : Rec) : fillRec a₁ u r = fillRec a₂ u r := by
  unfold fillRec; rw [h r.nft]

theorem missed_congr (cl : List (Nat × Nat)) (bs : List Ballot) (a₁ a₂ : List (Nft × Str)) (h : ∀ n, alGet a₁ n = alGet a₂ n) (i : Nat) :
    missed cl bs a₁ i = missed cl bs a₂ i := by
  unfold missed
  congr 2
  funext b
  rw [h b.nft]

theorem rewardDenom_order_independent (w₁ w₂ : List (Nat × Nat)) (hp : w₁.Perm w₂) (vals : List Val) (W : Nat) (rr : RewardRes) (d : Str) :
    rewardDenom w₁ vals W rr d = rewardDenom w₂ vals W rr d := by
  unfold rewardDenom
  simp only
  split
  · rfl
  · have e : w₁.foldl (rewardOne w₁ vals W d (rr.bank .pool d)) (rr, 0) = w₂.foldl (rewardOne w₂ vals W d (rr.bank .pool d)) (rr, 0) := by
      have : rewardOne w₁ vals W d (rr.bank .pool d) = rewardOne w₂ vals W d (rr.bank .pool d) := rfl
      rw [this]
      exact reward_allocation_order_independent w₂ vals W d (rr.bank .pool d) w₁ w₂ hp (rr, 0)
    rw [e]

/-- **the rewards of a round are the same state change for every order of the claim map and every order in which the set of validators
charged a miss was collected**: the winners are the same set, their weight sum is the same, and the whole result - every validator's
allocation, the community pool, the pool and distribution balances - is equal -/
theorem reward_round_order_independent (s : State) (cl₁ cl₂ : List (Nat × Nat)) (hp : cl₁.Perm cl₂) (m₁ m₂ : List Nat)
    (hm : ∀ i, m₁.contains i = m₂.contains i) : rewardWinners s cl₁ m₁ = rewardWinners s cl₂ m₂ := by
  unfold rewardWinners
  have hf : (fun c : Nat × Nat => !m₁.contains c.1) = (fun c => !m₂.contains c.1) := by funext c; rw [hm c.1]
  have hw : (cl₁.filter (fun c => !m₁.contains c.1)).Perm (cl₂.filter (fun c => !m₂.contains c.1)) := by
    rw [hf]; exact hp.filter _
  simp only
  rw [reward_weight_sum_order_independent _ _ hw]
  split
  · rfl
  · have : rewardDenom (cl₁.filter (fun c => !m₁.contains c.1)) s.vals (totalPower (cl₂.filter (fun c => !m₂.contains c.1))) =
        rewardDenom (cl₂.filter (fun c => !m₂.contains c.1)) s.vals (totalPower (cl₂.filter (fun c => !m₂.contains c.1))) := by
      funext rr d
      exact rewardDenom_order_independent _ _ hw s.vals _ rr d
    rw [this]

/-- **what the end-blocker takes from the tally is independent of every iteration order involved**: for two walks of the claim map
(`cl₁`, `cl₂`) and of the grouped votes (`srcs₁`, `srcs₂`), (1) the recipients written into any record are the same, (2) the same
validators are charged a miss, and (3) with the charged validators collected in either order, the reward step is the same state change.
Together with `miss_count_order_independent` (the counters) this covers every effect of a tally height except the order of entries in
the model's counter list, which the chain keeps in a keyed store. -/
theorem tally_effects_order_independent (s : State) (cl₁ cl₂ : List (Nat × Nat)) (hp : cl₁.Perm cl₂) (hn : (cl₁.map (·.1)).Nodup)
    (bs : List Ballot) (thr : Nat) (srcs₁ srcs₂ : List Nft) (hs : srcs₁.Perm srcs₂) :
    (∀ u r, fillRec (srcs₁.filterMap (acceptedEntry cl₁ bs thr)) u r = fillRec (srcs₂.filterMap (acceptedEntry cl₂ bs thr)) u r) ∧
    (∀ i, missed cl₁ bs (srcs₁.filterMap (acceptedEntry cl₁ bs thr)) i = missed cl₂ bs (srcs₂.filterMap (acceptedEntry cl₂ bs thr)) i) ∧
    rewardWinners s cl₁ ((cl₁.map (·.1)).filter (missed cl₁ bs (srcs₁.filterMap (acceptedEntry cl₁ bs thr)))) =
      rewardWinners s cl₂ ((cl₂.map (·.1)).filter (missed cl₂ bs (srcs₂.filterMap (acceptedEntry cl₂ bs thr)))) := by
  obtain ⟨hacc, hmiss⟩ := tally_order_independent cl₁ cl₂ hp hn bs thr srcs₁ srcs₂ hs
  have hm : ∀ i, missed cl₁ bs (srcs₁.filterMap (acceptedEntry cl₁ bs thr)) i = missed cl₂ bs (srcs₂.filterMap (acceptedEntry cl₂ bs thr)) i := by
    intro i
    rw [hmiss _ i]
    exact missed_congr cl₂ bs _ _ hacc i
  refine ⟨fun u r => fillRec_congr _ _ hacc u r, hm, ?_⟩
  apply reward_round_order_independent s cl₁ cl₂ hp
  intro i
  have hmem : ∀ (cl : List (Nat × Nat)) (p : Nat → Bool), ((cl.map (·.1)).filter p).contains i = (decide (i ∈ cl.map (·.1)) && p i) := by
    intro cl p
    by_cases h1 : i ∈ cl.map (·.1)
    · by_cases h2 : p i = true
      · simp [List.contains_iff_mem, List.mem_filter, h1, h2]
      · simp [List.contains_iff_mem, List.mem_filter, h1, h2]
    · simp [List.contains_iff_mem, List.mem_filter, h1]
  rw [hmem, hmem, hm i]
  have : (i ∈ cl₁.map (·.1)) ↔ (i ∈ cl₂.map (·.1)) := (hp.map _).mem_iff
  simp only [this]


/-! ### site 7: `SlashValidatorsAndResetMissCount` walks the miss counters -/

/-- what closing a window does to one validator: slash and jail it if it is bonded and not jailed -/
def punish (s : State) (v : Val) : Val :=
  if v.bonded && !v.jailed then slashVal s.powerReduction s.constantPower s.os.params.slashFraction v else v

/-- one step of `SlashValidatorsAndResetMissCount` -/
def slashStep (s : State) (vals : List Val) (p : String × Nat) : List Val :=
  if p.2 > s.os.params.maxMiss then
    match decodeVal p.1 with
    | some i => vals.modify i (punish s)
    | none => vals
  else vals

theorem slashAll_eq (s : State) (miss : List (String × Nat)) : slashAll s miss = miss.foldl (slashStep s) s.vals := by
  unfold slashAll
  congr 1
  funext vals p
  unfold slashStep
  split
  · cases hd : decodeVal p.1 with
    | none => rfl
    | some i =>
      simp only
      apply List.ext_getElem?
      intro k
      rw [List.getElem?_modify]
      unfold getVal
      cases hv : vals[i]? with
      | none =>
        simp only
        by_cases e : i = k
        · subst e; simp [hv]
        · simp [e]
      | some v =>
        simp only
        unfold punish
        by_cases ha : (v.bonded && !v.jailed) = true
        · simp only [ha, if_true]
          rw [List.getElem?_set]
          by_cases e : i = k
          · subst e
            have hl : i < vals.length := by
              rcases Nat.lt_or_ge i vals.length with h | h
              · exact h
              · rw [List.getElem?_eq_none h] at hv; cases hv
            have hvi : vals[i] = v := by
              have := List.getElem?_eq_getElem hl
              rw [this] at hv; exact Option.some.inj hv
            simp only [Bool.and_eq_true, Bool.not_eq_true'] at ha
            simp [hl, hvi, ha]
          · simp [e]
        · simp only [ha, Bool.false_eq_true, if_false]
          by_cases e : i = k
          · subst e
            simp only [hv, Option.map_eq_map, Option.map_some, if_true]
            congr 1
            simp only [Bool.and_eq_true, Bool.not_eq_true', not_and, Bool.not_eq_false] at ha
            split
            · rename_i hc
              simp only [Bool.and_eq_true, Bool.not_eq_true'] at hc
              have := ha hc.1
              rw [hc.2] at this; cases this
            · rfl
          · simp [e]
  · rfl

theorem modify_comm (l : List Val) (i j : Nat) (f : Val → Val) (h : i ≠ j) : (l.modify i f).modify j f = (l.modify j f).modify i f := by
  apply List.ext_getElem?
  intro k
  simp only [List.getElem?_modify]
  cases l[k]? with
  | none => rfl
  | some v =>
    simp only [Option.map_eq_map, Option.map_some]
    by_cases e1 : i = k <;> by_cases e2 : j = k <;> simp [e1, e2]

theorem slashStep_comm (s : State) (vals : List Val) (p q : String × Nat) (h : decodeVal p.1 ≠ decodeVal q.1) :
    slashStep s (slashStep s vals p) q = slashStep s (slashStep s vals q) p := by
  unfold slashStep
  by_cases hp : p.2 > s.os.params.maxMiss <;> by_cases hq : q.2 > s.os.params.maxMiss <;> simp only [hp, hq, if_true, if_false]
  cases hi : decodeVal p.1 with
  | none => simp only
  | some i =>
    cases hj : decodeVal q.1 with
    | none => simp only
    | some j =>
      simp only
      exact modify_comm vals i j _ (fun e => h (by rw [hi, hj, e]))

theorem distinct_of_pairwise : ∀ (l : List (String × Nat)), l.Pairwise (fun p q => decodeVal p.1 ≠ decodeVal q.1) →
    ∀ a ∈ l, ∀ b ∈ l, a ≠ b → decodeVal a.1 ≠ decodeVal b.1
  | [], _, a, ha, _, _, _ => by cases ha
  | c :: r, hd, a, ha, b, hb, hab => by
    rw [List.pairwise_cons] at hd
    rcases List.mem_cons.mp ha with h1 | h1 <;> rcases List.mem_cons.mp hb with h2 | h2
    · exact absurd (h1.trans h2.symm) hab
    · rw [h1]; exact hd.1 b h2
    · rw [h2]; exact fun e => hd.1 a h1 e.symm
    · exact distinct_of_pairwise r hd.2 a h1 b h2 hab

/-- **slashing at the close of a window does not depend on the order in which the miss counters are walked**: the validator table
afterwards is equal, provided no two counters belong to one validator (the tally files every counter under the validator's canonical name) -/
theorem slash_order_independent (s : State) (m₁ m₂ : List (String × Nat)) (hp : m₁.Perm m₂)
    (hd : m₁.Pairwise (fun p q => decodeVal p.1 ≠ decodeVal q.1)) : slashAll s m₁ = slashAll s m₂ := by
  rw [slashAll_eq, slashAll_eq]
  apply hp.foldl_eq'
  intro x hx y hy z
  by_cases e : x = y
  · subst e; rfl
  · exact slashStep_comm s z x y (distinct_of_pairwise m₁ hd x hx y hy e)

/-! ### slashing depends on the counters only, not on how the counter list came about -/

theorem punish_idem (s : State) (v : Val) : punish s (punish s v) = punish s v := by
  unfold punish
  by_cases h : (v.bonded && !v.jailed) = true
  · simp only [h, if_true]
    simp [slashVal]
  · simp only [h, Bool.false_eq_true, if_false]

/-- validator `i` has a counter above the maximum in `m` -/
def overMax (s : State) (m : List (String × Nat)) (i : Nat) : Bool :=
  m.any (fun p => decide (p.2 > s.os.params.maxMiss) && decodeVal p.1 == some i)

/-- the validator table after the slashing loop, entry by entry: punished once if some counter of the validator is above the maximum -/
theorem slash_pointwise (s : State) : ∀ (m : List (String × Nat)) (vals : List Val) (i : Nat),
    (m.foldl (slashStep s) vals)[i]? = (if overMax s m i then punish s <$> vals[i]? else vals[i]?) := by
  intro m vals i
  induction m generalizing vals with
  | nil => simp [overMax]
  | cons p r ih =>
    simp only [List.foldl_cons]
    rw [ih]
    unfold slashStep overMax
    simp only [List.any_cons]
    by_cases hp : p.2 > s.os.params.maxMiss
    · simp only [hp, if_true, decide_true, Bool.true_and]
      cases hd : decodeVal p.1 with
      | none => simp only [Bool.false_or, Option.map_eq_map]; rfl
      | some j =>
        simp only
        rw [List.getElem?_modify]
        by_cases e : j = i
        · subst e
          simp only [beq_self_eq_true, Bool.true_or, if_true]
          cases vals[j]? with
          | none => simp
          | some v =>
            simp only [Option.map_eq_map, Option.map_some, if_true]
            split
            · simp [punish_idem]
            · rfl
        · have : (some j == some i) = false := by simp [e]
          simp only [this, Bool.false_or, e, if_false]
          cases vals[i]? <;> simp
    · have hdec : decide (p.2 > s.os.params.maxMiss) = false := by simp [hp]
      simp only [hp, if_false, decide_false, Bool.false_and, Bool.false_or]

/-- **the slashing of a window is determined by the counters as a map**: two counter lists that hold the same count under every key,
each key at most once, produce the same validator table - whatever order their entries are in -/
theorem slash_depends_on_counters_only (s : State) (m₁ m₂ : List (String × Nat))
    (h1 : (m₁.map (·.1)).Nodup) (h2 : (m₂.map (·.1)).Nodup) (h : ∀ k, alGet m₁ k = alGet m₂ k) : slashAll s m₁ = slashAll s m₂ := by
  rw [slashAll_eq, slashAll_eq]
  apply List.ext_getElem?
  intro i
  rw [slash_pointwise s m₁ s.vals i, slash_pointwise s m₂ s.vals i]
  have : overMax s m₁ i = overMax s m₂ i := by
    have mem : ∀ (m : List (String × Nat)), (m.map (·.1)).Nodup → ∀ k c, (k, c) ∈ m ↔ alGet m k = some c := by
      intro m hm k c
      induction m with
      | nil => simp [alGet]
      | cons x r ih =>
        obtain ⟨k', c'⟩ := x
        simp only [List.map_cons, List.nodup_cons] at hm
        simp only [List.mem_cons, alGet]
        by_cases e : k' = k
        · subst e
          simp only [if_true, Prod.mk.injEq, true_and, Option.some.injEq]
          constructor
          · rintro (h | h)
            · exact h.symm
            · exact absurd (List.mem_map_of_mem (f := (·.1)) h) hm.1
          · intro h; left; exact h.symm
        · simp only [e, if_false, Prod.mk.injEq]
          rw [← ih hm.2]
          constructor
          · rintro (h | h)
            · exact absurd h.1.symm e
            · exact h
          · intro h; right; exact h
    unfold overMax
    rw [Bool.eq_iff_iff]
    simp only [List.any_eq_true]
    constructor
    · rintro ⟨p, hp, hc⟩
      exact ⟨p, (mem m₂ h2 p.1 p.2).mpr (by rw [← h]; exact (mem m₁ h1 p.1 p.2).mp hp), hc⟩
    · rintro ⟨p, hp, hc⟩
      exact ⟨p, (mem m₁ h1 p.1 p.2).mpr (by rw [h]; exact (mem m₂ h2 p.1 p.2).mp hp), hc⟩
  rw [this]

theorem alSet_keys {β} (l : List (String × β)) (k : String) (v : β) :
    (alSet l k v).map (·.1) = if k ∈ l.map (·.1) then l.map (·.1) else l.map (·.1) ++ [k] := by
  induction l with
  | nil => simp [alSet]
  | cons x r ih =>
    obtain ⟨k', v'⟩ := x
    unfold alSet
    by_cases e : k' = k
    · subst e; simp
    · simp only [e, if_false, List.map_cons, ih, List.mem_cons]
      have : ¬ k = k' := fun h => e h.symm
      by_cases hm : k ∈ r.map (·.1)
      · simp [hm]
      · simp [hm, this]

theorem alSet_keys_nodup {β} (l : List (String × β)) (k : String) (v : β) (h : (l.map (·.1)).Nodup) : ((alSet l k v).map (·.1)).Nodup := by
  rw [alSet_keys]
  split
  · exact h
  · rename_i hk
    rw [List.nodup_append]
    exact ⟨h, by simp, by intro a ha b hb; simp at hb; subst hb; intro e; subst e; exact hk ha⟩

theorem bump_keys_nodup (l : List Nat) : ∀ (m : List (String × Nat)), (m.map (·.1)).Nodup → ((l.foldl bumpMiss m).map (·.1)).Nodup := by
  induction l with
  | nil => intro m h; exact h
  | cons i r ih => intro m h; exact ih _ (alSet_keys_nodup m _ _ h)

/-- **closing a slash window does not depend on the order in which the validators charged a miss were collected**: the counters are the
same map (`miss_count_order_independent`), every key occurs once, hence the same validators are slashed and jailed and the validator
table afterwards is equal -/
theorem window_close_order_independent (s : State) (ms₁ ms₂ : List Nat) (hp : ms₁.Perm ms₂) (m : List (String × Nat))
    (hm : (m.map (·.1)).Nodup) : slashAll s (ms₁.foldl bumpMiss m) = slashAll s (ms₂.foldl bumpMiss m) :=
  slash_depends_on_counters_only s _ _ (bump_keys_nodup ms₁ m hm) (bump_keys_nodup ms₂ m hm)
    (fun k => miss_count_order_independent ms₁ ms₂ hp m k)

/-! ### the published NFT list is a function of the store -/

/-- the list of NFTs to verify is computed from the ordered store walk alone (no map): two states with the same settlement store
publish the same list -/
theorem nft_list_canonical (s₁ s₂ : State) (h : s₁.st.recs = s₂.st.recs) (ht : s₁.st.recTenants = s₂.st.recTenants) (u : Nat) :
    nftsToVerify s₁.st u = nftsToVerify s₂.st u := by
  unfold nftsToVerify allRecs
  rw [h, ht]

/-! ### non-vacuity -/

example : [3, 1, 2].Perm [1, 2, 3] ∧
    alGet ([3, 1, 2].foldl bumpMiss [("v1", 4)]) "v1" = some 5 ∧ alGet ([1, 2, 3].foldl bumpMiss [("v1", 4)]) "v1" = some 5 := by
  refine ⟨by decide, by decide, by decide⟩

end Settlus.C07
