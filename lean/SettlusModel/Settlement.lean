/-
  Model of x/settlement: message handlers (keeper/msg_server.go, keeper/tenant.go, keeper/utxr.go,
  types/msg.go ValidateBasic) and the end-block settle loop (keeper/settle.go, abci.go) of the current tree.
-/
import SettlusModel.Types
namespace Settlus

/-- outcome of handling one operation -/
inductive Out
  | ok (info : String)
  | err
  | panic
deriving DecidableEq, Repr

def isOk : Out → Bool
  | .ok _ => true
  | _ => false

/-! ### bank interface -/

def Bank.credit (b : Bank) (who : Holder) (d : Str) (amt : Nat) : Bank :=
  fun w d' => if w = who ∧ d' = d then b w d' + amt else b w d'

def Bank.debit (b : Bank) (who : Holder) (d : Str) (amt : Nat) : Bank :=
  fun w d' => if w = who ∧ d' = d then b w d' - amt else b w d'

/-- `SendCoins` of one positive coin: fails without effect when the sender's balance is short -/
def Bank.send (b : Bank) (src dst : Holder) (d : Str) (amt : Nat) : Option Bank :=
  if b src d < amt then none else some ((b.debit src d amt).credit dst d amt)

/-- `sdk.ValidateDenom`: [a-zA-Z][a-zA-Z0-9/:._-]{2,127} -/
def denomChar (c : Char) : Bool :=
  c.isAlpha || c.isDigit || c == '/' || c == ':' || c == '.' || c == '_' || c == '-'

def validDenom (d : Str) : Bool :=
  match d with
  | c :: r => c.isAlpha && r.all denomChar && 2 ≤ r.length && r.length ≤ 127
  | [] => false

/-! ### tenants -/

def findTenant (ts : List Tenant) (id : Nat) : Option Tenant := ts.find? (fun t => t.id == id)

def setTenant (ts : List Tenant) (t : Tenant) : List Tenant := ts.map (fun x => if x.id == t.id then t else x)

def largestTenantId (ts : List Tenant) : Nat :=
  match ts.getLast? with
  | some t => t.id
  | none => 0

/-- `CheckAdminPermission`: the tenant exists and the sender, decoded, is one of its admins -/
def isAdmin (ts : List Tenant) (tenant : Nat) (sender : String) : Bool :=
  match findTenant ts tenant, decodeAcc sender with
  | some t, some a => t.admins.contains a
  | _, _ => false

def insertSorted (n : Nat) : List Nat → List Nat
  | [] => [n]
  | x :: r => if n < x then n :: x :: r else if n = x then x :: r else x :: insertSorted n r

structure SRes where
  st : State
  out : Out

/-- `Option` guard -/
def check (b : Bool) : Option Unit := if b then some () else none

@[simp] theorem check_eq_some (b : Bool) (u : Unit) : check b = some u ↔ b = true := by
  unfold check; cases b <;> simp

/-- `MsgCreateTenant` / `MsgCreateTenantWithMintableContract`: the tenant to append, or none when the message is refused -/
def createTenantPlan (s : State) (sender : String) (denom : Str) (period : Nat) (mc : Option Str) : Option Tenant := do
  let acc ← decodeAcc sender
  check (!denom.isEmpty && validDenom denom && period != 0)
  check (match mc with | some c => c.isEmpty || isHexAddress c | none => true)
  let contract : Str := match mc with
    | some c => if c.isEmpty then "auto".toList else c
    | none => []
  pure { id := largestTenantId s.st.tenants + 1, admins := [acc], denom := denom, period := period, mint := mc.isSome, contract := contract }

def createTenant (s : State) (sender : String) (denom : Str) (period : Nat) (mc : Option Str) : SRes :=
  match createTenantPlan s sender denom period mc with
  | some t => ⟨{ s with st := { s.st with tenants := s.st.tenants ++ [t] } }, .ok ("tenant=" ++ toString t.id)⟩
  | none => ⟨s, .err⟩

/-- `MsgDepositToTreasury`: the amount and the bank after the transfer, or none -/
def depositPlan (s : State) (sender : String) (tenant : Nat) (amount : Option Int) (denom : Str) : Option (Nat × Bank) := do
  let acc ← decodeAcc sender
  let a ← amount
  check (validDenom denom && decide (0 < a))
  let t ← findTenant s.st.tenants tenant
  check (!t.mint)
  let b ← s.bank.send (.acct acc) (treasuryName tenant) denom a.toNat
  pure (a.toNat, b)

def deposit (s : State) (sender : String) (tenant : Nat) (amount : Option Int) (denom : Str) : SRes :=
  match depositPlan s sender tenant amount denom with
  | some p => ⟨{ s with bank := p.2, log := s.log ++ [.deposited tenant denom p.1] }, .ok ""⟩
  | none => ⟨s, .err⟩

/-- the 256-bit value `common.HexToHash(tokenIdHex).Big()` passed to `ownerOf` -/
def tokenValue (tok : Str) : Nat := bytesVal (fixBytes 32 (fromHex tok))

/-- `GetRecipients`: supported external chain -> none yet; this chain -> current ERC-721 owner; else rejected -/
def getRecipients (s : State) (chain contract token : Str) : Option (List Recipient) :=
  if s.st.params.chains.contains chain && chain != thisChain then some []
  else if chain != thisChain then none
  else match alGet s.owners (normalizeHex contract, tokenValue token) with
    | some (some o) => some [{ addr := o, weight := 1 }]
    | _ => none

/-- `MsgRecord.ValidateBasic` (fields other than the sender) -/
def recordBasic (amount : Option Int) (denom contract token : Str) : Bool :=
  match amount with
  | none => false
  | some a =>
    validDenom denom && 0 < a && isHexAddress contract && normalizeHex contract != normalizeHex [] &&
    (match token with
     | '0' :: 'x' :: r => !r.isEmpty && isBigHex r
     | _ => false)

/-- `CreateUTXR`: duplicate check on the request-id index, next id from the counter, both entries written -/
structure CreateRes where
  st : SState
  id : Option Nat

def nextId (st : SState) (tenant : Nat) : Nat :=
  match st.last tenant with
  | some l => l + 1
  | none => 0

def createUtxr (st : SState) (tenant : Nat) (req : Str) (amount : Int) (denom : Str) (nft : Nft) (created : Nat) (rcpt : List Recipient) : CreateRes :=
  if alHas (st.index tenant) req then ⟨st, none⟩
  else
    let id := nextId st tenant
    let r : Rec := { id := id, req := req, amount := amount, denom := denom, nft := nft, created := created, rcpt := rcpt }
    ⟨{ st with
        recs := fupd st.recs tenant (st.recs tenant ++ [r]),
        index := fupd st.index tenant (st.index tenant ++ [(req, id)]),
        last := fupd st.last tenant (some id),
        recTenants := insertSorted tenant st.recTenants }, some id⟩

def rcptStr (rs : List Recipient) : String :=
  if rs.isEmpty then "-" else "+".intercalate (rs.map (fun r => String.ofList r.addr ++ "*" ++ toString r.weight))

/-- the protocol spelling of a string: "=raw" when every byte is harmless, else "x" + hex -/
def encStr (s : Str) : String :=
  let safe (c : Char) : Bool := c.isAlphanum || c == '.' || c == '_' || c == '-' || c == '/' || c == ':'
  if s.all safe then "=" ++ String.ofList s
  else "x" ++ String.ofList (s.flatMap (fun c => byteHex (c.toNat % 256)))

def nftStr (n : Nft) : String := encStr n.chain ++ "/" ++ String.ofList n.contract ++ "/" ++ String.ofList n.token

structure RecordPlan where
  id : Nat
  rcpt : List Recipient
  nft : Nft
  st : SState

/-- `MsgRecord` -/
def recordPlan (s : State) (sender : String) (tenant : Nat) (req : Str) (amount : Option Int) (denom chain contract token : Str) : Option RecordPlan := do
  let _ ← decodeAcc sender
  let a ← amount
  check (recordBasic amount denom contract token && validUtf8 req)
  check (isAdmin s.st.tenants tenant sender)
  let t ← findTenant s.st.tenants tenant
  check (t.denom == denom && t.period != 0)
  let rc ← getRecipients s chain contract token
  let nft : Nft := { chain := chain, contract := normalizeHex contract, token := normalizeHex token }
  let cr := createUtxr s.st tenant req a denom nft s.h rc
  let id ← cr.id
  pure { id := id, rcpt := rc, nft := nft, st := cr.st }

def record (s : State) (sender : String) (tenant : Nat) (req : Str) (amount : Option Int) (denom chain contract token : Str) : SRes :=
  match recordPlan s sender tenant req amount denom chain contract token with
  | some p => ⟨{ s with st := p.st, log := s.log ++ [.recorded tenant p.id s.h] },
               .ok ("id=" ++ toString p.id ++ " nft=" ++ nftStr p.nft ++ " rcpt=" ++ rcptStr p.rcpt)⟩
  | none => ⟨s, .err⟩

/-- `MsgCancel`: admin check, then delete by request id (record and index entry); the id cancelled, or none -/
def cancelPlan (s : State) (sender : String) (tenant : Nat) (req : Str) : Option Nat := do
  let _ ← decodeAcc sender
  let _ ← findTenant s.st.tenants tenant
  check (isAdmin s.st.tenants tenant sender)
  alGet (s.st.index tenant) req

def cancel (s : State) (sender : String) (tenant : Nat) (req : Str) : SRes :=
  match cancelPlan s sender tenant req with
  | some id =>
    let st' : SState := { s.st with
      recs := fupd s.st.recs tenant ((s.st.recs tenant).filter (fun r => r.id != id)),
      index := fupd s.st.index tenant (alErase (s.st.index tenant) req) }
    ⟨{ s with st := st', log := s.log ++ [.cancelled tenant id s.h] }, .ok ("id=" ++ toString id)⟩
  | none => ⟨s, .err⟩

/-- `MsgAddTenantAdmin`: the updated tenant, or none -/
def addAdminPlan (s : State) (sender : String) (tenant : Nat) (newAdmin : String) : Option Tenant := do
  let _ ← decodeAcc sender
  let na ← decodeAcc newAdmin
  check (isAdmin s.st.tenants tenant sender)
  let t ← findTenant s.st.tenants tenant
  check (!t.admins.contains na)
  pure { t with admins := t.admins ++ [na] }

def addAdmin (s : State) (sender : String) (tenant : Nat) (newAdmin : String) : SRes :=
  match addAdminPlan s sender tenant newAdmin with
  | some t => ⟨{ s with st := { s.st with tenants := setTenant s.st.tenants t } }, .ok ""⟩
  | none => ⟨s, .err⟩

/-- `MsgRemoveTenantAdmin` -/
def removeAdminPlan (s : State) (sender : String) (tenant : Nat) (target : String) : Option Tenant := do
  let _ ← decodeAcc sender
  let ta ← decodeAcc target
  check (isAdmin s.st.tenants tenant sender)
  let t ← findTenant s.st.tenants tenant
  check (t.admins.contains ta && t.admins.length != 1)
  pure { t with admins := t.admins.erase ta }

def removeAdmin (s : State) (sender : String) (tenant : Nat) (target : String) : SRes :=
  match removeAdminPlan s sender tenant target with
  | some t => ⟨{ s with st := { s.st with tenants := setTenant s.st.tenants t } }, .ok ""⟩
  | none => ⟨s, .err⟩

/-- `MsgUpdateTenantPayoutPeriod` -/
def setPeriodPlan (s : State) (sender : String) (tenant : Nat) (period : Nat) : Option Tenant := do
  let _ ← decodeAcc sender
  check (period != 0 && isAdmin s.st.tenants tenant sender)
  let t ← findTenant s.st.tenants tenant
  pure { t with period := period }

def setPeriod (s : State) (sender : String) (tenant : Nat) (period : Nat) : SRes :=
  match setPeriodPlan s sender tenant period with
  | some t => ⟨{ s with st := { s.st with tenants := setTenant s.st.tenants t } }, .ok ""⟩
  | none => ⟨s, .err⟩

/-! ### payout -/

/-- an address a payout can go to: not the zero address, and not a module account (the bank refuses those as receivers; `tryPayout`
leaves them out like the zero address) -/
def payable (a : Str) : Bool := !hexAddrIsNull a && (moduleOfHex a).isNone

/-- recipients that can be paid -/
def validRcpts (r : Rec) : List Recipient := r.rcpt.filter (fun x => payable x.addr)

/-- the weight sum is accumulated in a `uint32` -/
def weightSum (rs : List Recipient) : Nat := (rs.foldl (fun acc x => acc + x.weight) 0) % 4294967296

/-- one recipient's share: amount * w / W truncated, or an equal split when W = 0 -/
def share (amount : Int) (n W w : Nat) : Int :=
  if W = 0 then amount.tdiv (n : Int) else (amount * (w : Int)).tdiv (W : Int)

inductive PayOutcome
  | paid (b : Bank) (calls : Nat) (events : List Event)
  | dropped
  | failed (calls : Nat)
  | panicked

/-- the denomination a mint-contract tenant pays in (the harness realises the mint as a bank mint of this denom) -/
def mintDenom (t : Tenant) : Str :=
  if t.contract == "auto".toList then ("sbt/auto." ++ toString t.id).toList
  else "sbt/".toList ++ (normalizeHex t.contract).drop 2

/-- pays the recipients one after the other on a branch of the state; `calls` counts backend calls of the block -/
def payRcpts (t : Tenant) (r : Rec) (fault : Option Nat) (n W : Nat) : List Recipient → Bank → Nat → List Event → PayOutcome
  | [], b, calls, ev => .paid b calls ev
  | x :: rest, b, calls, ev =>
    let amt := share r.amount n W x.weight
    let who := holderOfHex x.addr
    if t.mint then
      if fault == some calls then .failed (calls + 1)
      else if amt < 0 then .panicked
      else payRcpts t r fault n W rest (b.credit who (mintDenom t) amt.toNat) (calls + 1) (ev ++ [.minted t.id r.id who (mintDenom t) amt.toNat])
    else if r.denom == "uerc".toList then
      -- registered ERC-20 denomination: conversion backend
      if fault == some calls then .failed (calls + 1)
      else if amt < 0 then .panicked
      else match b.send (treasuryName t.id) who r.denom amt.toNat with
        | none => .failed (calls + 1)
        | some b' => payRcpts t r fault n W rest b' (calls + 1) (ev ++ [.paid t.id r.id who r.denom amt.toNat])
    else
      -- plain bank transfer; sdk.NewCoins panics on an invalid coin before the keeper is called
      if !validDenom r.denom || amt < 0 then .panicked
      else if fault == some calls then .failed (calls + 1)
      else match b.send (treasuryName t.id) who r.denom amt.toNat with
        | none => .failed (calls + 1)
        | some b' => payRcpts t r fault n W rest b' (calls + 1) (ev ++ [.paid t.id r.id who r.denom amt.toNat])

/-- `tryPayout` on a cache context: nothing of a failed attempt survives except the consumed backend calls -/
def tryPayout (t : Tenant) (r : Rec) (fault : Option Nat) (b : Bank) (calls : Nat) : PayOutcome :=
  if (validRcpts r).isEmpty then .dropped
  else payRcpts t r fault (validRcpts r).length (weightSum (validRcpts r)) (validRcpts r) b calls []

/-- the maturity test of `settleUTXRs`: `created + period` in uint64, a wrapped sum counts as not mature -/
def mature (created period h : Nat) : Bool :=
  let due := u64 (created + period)
  !(due < created) && !(due > h)

structure SettleRes where
  bank : Bank
  calls : Nat
  remaining : List Rec
  index : List (Str × Nat)
  events : List Event
  settled : List Nat
  droppedIds : List Nat
  panic : Bool

/-- `settleUTXRs` for one tenant: ascending ids, stop at the first immature record or failed payout -/
def settleQ (h : Nat) (t : Tenant) (fault : Option Nat) : List Rec → Bank → Nat → List (Str × Nat) → SettleRes
  | [], b, calls, idx => ⟨b, calls, [], idx, [], [], [], false⟩
  | r :: rest, b, calls, idx =>
    if !mature r.created t.period h then ⟨b, calls, r :: rest, idx, [], [], [], false⟩
    else match tryPayout t r fault b calls with
      | .panicked => ⟨b, calls, r :: rest, idx, [], [], [], true⟩
      | .failed c => ⟨b, c, r :: rest, idx, [], [], [], false⟩
      | .dropped =>
        let res := settleQ h t fault rest b calls (alErase idx r.req)
        { res with events := .dropped t.id r.id h :: res.events, droppedIds := r.id :: res.droppedIds }
      | .paid b' c ev =>
        let res := settleQ h t fault rest b' c (alErase idx r.req)
        { res with events := ev ++ .settled t.id r.id h :: res.events, settled := r.id :: res.settled }

structure BlockSettle where
  st : State
  calls : Nat
  settled : List (Nat × Nat)
  dropped : List (Nat × Nat)
  panic : Bool

/-- settlement `EndBlock`: tenant by tenant, in ascending tenant id -/
def settleAll (h : Nat) (fault : Option Nat) : List Tenant → State → Nat → BlockSettle
  | [], s, calls => ⟨s, calls, [], [], false⟩
  | t :: ts, s, calls =>
    let r := settleQ h t fault (s.st.recs t.id) s.bank calls (s.st.index t.id)
    let s' : State := { s with
      bank := r.bank,
      st := { s.st with recs := fupd s.st.recs t.id r.remaining, index := fupd s.st.index t.id r.index },
      log := s.log ++ r.events }
    let here := r.settled.map (fun i => (t.id, i))
    let dr := r.droppedIds.map (fun i => (t.id, i))
    if r.panic then ⟨s', r.calls, here, dr, true⟩
    else
      let rest := settleAll h fault ts s' r.calls
      { rest with settled := here ++ rest.settled, dropped := dr ++ rest.dropped }

end Settlus
