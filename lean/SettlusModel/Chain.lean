/-
  Composition: the operations of the line protocol, one step of the chain (a message, a harness set-up action,
  or a block boundary running the oracle and settlement end-blockers in the application's order), and runs.
-/
import SettlusModel.Oracle
import SettlusModel.Generated.Facts
namespace Settlus

inductive Op
  | createTenant (sender : String) (denom : Str) (period : Nat) (mc : Option Str)
  | deposit (sender : String) (tenant : Nat) (amount : Option Int) (denom : Str)
  | record (sender : String) (tenant : Nat) (req : Str) (amount : Option Int) (denom chain contract token : Str)
  | cancel (sender : String) (tenant : Nat) (req : Str)
  | addAdmin (sender : String) (tenant : Nat) (newAdmin : String)
  | removeAdmin (sender : String) (tenant : Nat) (target : String)
  | setPeriod (sender : String) (tenant : Nat) (period : Nat)
  | inject (tenant : Nat) (req : Str) (amount : Int) (denom : Str) (nft : Nft) (created : Nat) (rcpt : List Recipient)
  | fund (acct : String) (amount : Int) (denom : Str)
  | fundPool (amount : Int) (denom : Str)
  | setOwner (contract : Str) (token : Str) (owner : Option (Option Str))   -- none: reverts; some none: zero address
  | prevote (feeder validator : String) (hash : Str) (round : Nat)
  | vote (feeder validator : String) (salt : Str) (round : Nat) (vds : List VoteData)
  | consent (validator feeder : String)
  | setOParams (vp : Nat) (thr frac : Int) (window maxMiss : Nat)
  | setSParams (fee : Int) (chains : List Str)
  | setVal (i : Nat) (power : Nat) (bonded jailed : Bool) (probono : Option Nat)
  | failAt (k : Option Nat)
  | block
  | dump

/-- the largest vote period the parameter validator lets through: `math.MaxInt64 / 2` (a round is two periods, computed in int64) -/
def maxVotePeriod : Nat := (2 ^ 63 - 1) / 2

/-- `oracle Params.Validate` -/
def oparamsValid (vp : Nat) (thr frac : Int) (w m : Nat) : Bool :=
  vp != 0 && vp ≤ maxVotePeriod && thr ≥ (one18 / 2 : Nat) && thr ≤ (one18 : Nat) && frac ≥ 0 && frac ≤ (one18 : Nat) &&
  w != 0 && vp ≤ w && w % vp == 0 && m != 0 && m < w

/-- what a governance parameter-change proposal checks: every value on its own (the validator functions of the parameter table).
The relations between the values (`vp ≤ w`, `vp ∣ w`, `m < w`) are checked only by `Params.Validate`, which the proposal path does
not run. -/
def oparamsKeyValid (vp : Nat) (thr frac : Int) (w m : Nat) : Bool :=
  vp != 0 && vp ≤ maxVotePeriod && thr ≥ (one18 / 2 : Nat) && thr ≤ (one18 : Nat) && frac ≥ 0 && frac ≤ (one18 : Nat) && w != 0 && m != 0

def isBlank (s : Str) : Bool := s.all (fun c => c == ' ' || c == '\t' || c == '\n' || c == '\r' || c.toNat == 11 || c.toNat == 12 || c.toNat == 0x85 || c.toNat == 0xA0)

/-- `settlement Params.Validate`: fee in [0,1]; chain ids non-blank, free of the NFT-id separators, and distinct -/
def sparamsValid (fee : Int) (chains : List Str) : Bool :=
  fee ≥ 0 && fee ≤ (one18 : Nat) && chains.all (fun c => !isBlank c && !c.contains '/' && !c.contains ':') && chains.Nodup

instance : DecidablePred (fun (l : List Str) => l.Nodup) := fun _ => inferInstance

structure StepRes where
  st : State
  out : Out
  settled : List (Nat × Nat) := []
  dropped : List (Nat × Nat) := []
  filled : List Event := []
  jailed : List Nat := []

def ofS (r : SRes) : StepRes := { st := r.st, out := r.out }

/-- block boundary: oracle end-blocker, then settlement end-blocker, then the height advances -/
def blockStep (s : State) : StepRes :=
  let ob := oracleEndBlock s
  let bs := settleAll s.h s.faultAt ob.st.st.tenants ob.st 0
  let s' : State := { bs.st with h := s.h + 1, faultAt := none }
  { st := s', out := if bs.panic then .panic else .ok "", settled := bs.settled, dropped := bs.dropped, filled := ob.filled, jailed := ob.jailed }

def step (H : Str → Str) (s : State) : Op → StepRes
  | .createTenant a d p mc => ofS (createTenant s a d p mc)
  | .deposit a t amt d => ofS (deposit s a t amt d)
  | .record a t r amt d ch c tok => ofS (record s a t r amt d ch c tok)
  | .cancel a t r => ofS (cancel s a t r)
  | .addAdmin a t n => ofS (addAdmin s a t n)
  | .removeAdmin a t n => ofS (removeAdmin s a t n)
  | .setPeriod a t p => ofS (setPeriod s a t p)
  | .inject t req amt d nft created rc =>
    let cr := createUtxr s.st t req amt d nft created rc
    match cr.id with
    | some id => { st := { s with st := cr.st, log := s.log ++ [.recorded t id s.h] }, out := .ok ("id=" ++ toString id) }
    | none => { st := s, out := .err }
  | .fund a amt d =>
    if !validDenom d || amt ≤ 0 then { st := s, out := .err }
    else match decodeAcc a with
      | some acc => { st := { s with bank := s.bank.credit (.acct acc) d amt.toNat }, out := .ok "" }
      | none => { st := s, out := .err }
  | .fundPool amt d =>
    if !validDenom d || amt ≤ 0 then { st := s, out := .err }
    else { st := { s with bank := s.bank.credit .pool d amt.toNat, poolDenoms := if s.poolDenoms.contains d then s.poolDenoms else s.poolDenoms ++ [d] }, out := .ok "" }
  | .setOwner c t o =>
    let k := (normalizeHex c, tokenValue t)
    let owners := match o with
      | none => alErase s.owners k
      | some x => alSet s.owners k x
    { st := { s with owners := owners }, out := .ok "" }
  | .prevote f v h r => ofS (prevote s f v h r)
  | .vote f v salt r vds => ofS (vote H s f v salt r vds)
  | .consent v f => ofS (consent s v f)
  | .setOParams vp thr frac w m =>
    if oparamsKeyValid vp thr frac w m then
      { st := { s with os := { s.os with params := { votePeriod := vp, threshold := thr.toNat, slashFraction := frac.toNat, slashWindow := w, maxMiss := m } } }, out := .ok "" }
    else { st := s, out := .err }
  | .setSParams fee chains =>
    if sparamsValid fee chains then { st := { s with st := { s.st with params := { oracleFee := fee.toNat, chains := chains } } }, out := .ok "" }
    else { st := s, out := .err }
  | .setVal i power bonded jailed pb =>
    match getVal s.vals i with
    | some _ => { st := { s with vals := s.vals.set i { tokens := power * s.powerReduction, bonded := bonded, jailed := jailed, probono := pb } }, out := .ok "" }
    | none => { st := s, out := .err }
  | .failAt k => { st := { s with faultAt := k }, out := .ok "" }
  | .block => blockStep s
  | .dump => { st := s, out := .ok "" }

def run (H : Str → Str) : State → List Op → State
  | s, [] => s
  | s, op :: ops => run H (step H s op).st ops

/-! ### transactions of several messages -/

/-- the messages of one transaction, run one after the other on a branch of the state; `none` as soon as one is refused -/
def runBatch (H : Str → Str) : State → List Op → Option State
  | s, [] => some s
  | s, op :: ops => if isOk (step H s op).out then runBatch H (step H s op).st ops else none

/-- position of the first refused message -/
def batchFailIndex (H : Str → Str) : State → List Op → Nat
  | _, [] => 0
  | s, op :: ops => if isOk (step H s op).out then batchFailIndex H (step H s op).st ops + 1 else 0

/-- baseapp's rule: the branch is written only when every message succeeded -/
def atomicStep (H : Str → Str) (s : State) (ops : List Op) : State := (runBatch H s ops).getD s

inductive HistItem
  | single (op : Op)
  | atomic (ops : List Op)

def stepEntry (H : Str → Str) (s : State) : HistItem → State
  | .single op => (step H s op).st
  | .atomic ops => atomicStep H s ops

def runEntries (H : Str → Str) : State → List HistItem → State
  | s, [] => s
  | s, tx :: txs => runEntries H (stepEntry H s tx) txs

/-- the state after `InitGenesis` of the default genesis used by the harness: five bonded validators of one unit each,
    default parameters, and the round description for the first block already published -/
def defaultOParams : OParams :=
  { votePeriod := Facts.defaultOracleParams.getD 0 0, threshold := Facts.defaultOracleParams.getD 1 0, slashFraction := Facts.defaultOracleParams.getD 2 0,
    slashWindow := Facts.defaultOracleParams.getD 3 0, maxMiss := Facts.defaultOracleParams.getD 4 0 }

def initState (pr : Nat) (constant : Bool) : State :=
  let s0 : State := {
    h := 0, powerReduction := pr, constantPower := constant,
    bank := fun _ _ => 0,
    st := { params := { oracleFee := one18, chains := ["1".toList] }, tenants := [], recs := fun _ => [], index := fun _ => [], last := fun _ => none, recTenants := [] },
    os := { params := defaultOParams, round := none, prevotes := [], votes := [], miss := [], feeders := [] },
    vals := List.replicate 5 { tokens := pr, bonded := true, jailed := false, probono := none },
    distr := { outstanding := fun _ _ => 0, community := fun _ => 0 },
    owners := [], poolDenoms := [], faultAt := none, log := [] }
  -- InitGenesis of the oracle module runs at height 0 and publishes the description of block 1
  { s0 with os := { s0.os with round := some (nextRoundInfo s0) }, h := 1 }

end Settlus
