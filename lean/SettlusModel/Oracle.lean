/-
  Model of x/oracle: message handlers (keeper/msg_server.go), round arithmetic (types/params.go),
  the end-blocker (abci.go), the tally (voteprocessor), rewards and slashing (keeper/feeder.go),
  and the two calls into x/settlement (GetAllUniqueNftToVerify, SetRecipients).
-/
import SettlusModel.Settlement
import SettlusModel.Sha256
namespace Settlus

/-! ### round arithmetic -/

/-- `CalculateRoundStartHeight` (uint64 arithmetic; heights are non-negative and far below 2^63) -/
def roundStart (h p : Nat) : Nat := h - h % (p * 2)

/-- `CalculateVotePeriod`: (prevoteEnd, voteEnd) in int64 arithmetic -/
def prevoteEnd (h p : Nat) : Int := (h : Int) - (h : Int) % ((p : Int) * 2) + (p : Int) - 1
def voteEnd (h p : Nat) : Int := (h : Int) - (h : Int) % ((p : Int) * 2) + (p : Int) * 2 - 1

/-- `IsSlashWindowClosing`: a window boundary lies in (height - round length, height] -/
def slashWindowClosing (h p w : Nat) : Bool :=
  if w = 0 ∨ p = 0 then false
  else if h < p * 2 then h / w > 0
  else h / w > (h - p * 2) / w

/-! ### message handlers -/

def hashOf (H : Str → Str) (salt : Str) (vds : List VoteData) : Str := H (commitString salt vds)

/-- `MsgPrevote` (ValidateBasic then the handler) -/
def prevote (s : State) (feeder validator : String) (hash : Str) (round : Nat) : SRes :=
  match decodeAcc feeder, decodeVal validator with
  | some _, some _ =>
    match s.os.round with
    | none => ⟨s, .err⟩
    | some ri =>
      if ri.id = round ∧ (s.h : Int) ≤ ri.prevoteEnd ∧ validUtf8 hash = true then
        ⟨{ s with os := { s.os with prevotes := alSet s.os.prevotes validator hash } }, .ok ""⟩
      else ⟨s, .err⟩
  | _, _ => ⟨s, .err⟩

/-- `MsgVote` -/
def vote (H : Str → Str) (s : State) (feeder validator : String) (salt : Str) (round : Nat) (vds : List VoteData) : SRes :=
  match decodeAcc feeder, decodeVal validator with
  | some _, some _ =>
    match s.os.round with
    | none => ⟨s, .err⟩
    | some ri =>
      if ri.id = round ∧ (s.h : Int) ≤ ri.voteEnd ∧ validateVoteData s.st.params.chains vds = true ∧
         alGet s.os.prevotes validator = some (hashOf H salt vds) then
        ⟨{ s with os := { s.os with votes := alSet s.os.votes validator vds, prevotes := alErase s.os.prevotes validator } }, .ok ""⟩
      else ⟨s, .err⟩
  | _, _ => ⟨s, .err⟩

def getVal (vals : List Val) (i : Nat) : Option Val := vals[i]?

/-- `MsgFeederDelegationConsent`: the validator must exist and be bonded -/
def consent (s : State) (validator feeder : String) : SRes :=
  match decodeVal validator, decodeAcc feeder with
  | some i, some f =>
    match getVal s.vals i with
    | some v => if v.bonded then ⟨{ s with os := { s.os with feeders := alSet s.os.feeders validator f } }, .ok ""⟩ else ⟨s, .err⟩
    | none => ⟨s, .err⟩
  | _, _ => ⟨s, .err⟩

/-! ### what the oracle reads from and writes to settlement -/

/-- all pending records in store order: ascending tenant id, ascending record id -/
def allRecs (st : SState) : List (Nat × Rec) := st.recTenants.flatMap (fun t => (st.recs t).map (fun r => (t, r)))

def dedupNfts : List Nft → List Nft → List Nft
  | [], acc => acc.reverse
  | n :: r, acc => if acc.contains n then dedupNfts r acc else dedupNfts r (n :: acc)

/-- `GetAllUniqueNftToVerify`: first occurrences, in store order, of the NFTs of records without recipients created by `until` -/
def nftsToVerify (st : SState) (until_ : Nat) : List Nft :=
  dedupNfts (((allRecs st).filter (fun p => p.2.rcpt.isEmpty && p.2.created ≤ until_)).map (fun p => p.2.nft)) []

/-- the round description published at the end of block `h` (for block `h + 1`) -/
def nextRoundInfo (s : State) : RoundInfo :=
  let p := s.os.params.votePeriod
  let start := roundStart s.h p
  let nfts := if start > 0 then nftsToVerify s.st (start - 1) else []
  { id := roundStart (s.h + 1) p, prevoteEnd := prevoteEnd (s.h + 1) p, voteEnd := voteEnd (s.h + 1) p, sources := nfts.map formatNft }

/-- `SetRecipients`: every record without recipients created by `until` whose NFT has an accepted owner gets it -/
def fillRec (accepted : List (Nft × Str)) (until_ : Nat) (r : Rec) : Rec :=
  if r.rcpt.isEmpty && r.created ≤ until_ then
    match alGet accepted r.nft with
    | some o => { r with rcpt := [{ addr := o, weight := 1 }] }
    | none => r
  else r

def fillEvents (accepted : List (Nft × Str)) (until_ h : Nat) (t : Nat) (rs : List Rec) : List Event :=
  rs.filterMap (fun r => if r.rcpt.isEmpty && r.created ≤ until_ then
      match alGet accepted r.nft with
      | some o => some (.filled t r.id o h)
      | none => none
    else none)

def setRecipients (st : SState) (accepted : List (Nft × Str)) (until_ : Nat) : SState :=
  { st with recs := fun t => (st.recs t).map (fillRec accepted until_) }

/-! ### tally -/

/-- consensus power of a validator as the staking keeper reports it -/
def powerOf (pr : Nat) (constant : Bool) (v : Val) : Nat :=
  if !v.bonded then 0
  else
    let p := v.tokens / pr
    if constant && p > 0 then 1 else p

/-- the claim map: one entry (validator index, weight) per bonded, unjailed validator -/
def claims (s : State) : List (Nat × Nat) :=
  (List.range s.vals.length).filterMap (fun i => match getVal s.vals i with
    | some v => if v.bonded && !v.jailed then some (i, powerOf s.powerReduction s.constantPower v) else none
    | none => none)

def totalPower (cl : List (Nat × Nat)) : Nat := (cl.map (·.2)).sum

/-- ceil(threshold * total) with an 18-digit threshold -/
def thresholdVotes (thr total : Nat) : Nat := (thr * total + one18 - 1) / one18

structure Ballot where
  voter : Nat       -- decoded validator index
  nft : Nft
  owner : Str
deriving DecidableEq, Repr

/-- `groupVotes` flattened: one ballot per parsable entry, de-duplicated on (decoded validator, source, value) -/
def rawBallots (votes : List (String × List VoteData)) : List Ballot :=
  votes.flatMap (fun p => match decodeVal p.1 with
    | none => []
    | some i => p.2.flatMap (fun vd => vd.data.filterMap (fun d => match parseEntry d with
        | some e => some { voter := i, nft := e.nft, owner := e.owner }
        | none => none)))

def dedupBallots : List Ballot → List Ballot → List Ballot
  | [], acc => acc.reverse
  | b :: r, acc => if acc.contains b then dedupBallots r acc else dedupBallots r (b :: acc)

def ballots (votes : List (String × List VoteData)) : List Ballot := dedupBallots (rawBallots votes) []

def weightOfVoter (cl : List (Nat × Nat)) (i : Nat) : Nat := (alGet cl i).getD 0

/-- power behind (nft, owner) -/
def powerFor (cl : List (Nat × Nat)) (bs : List Ballot) (n : Nft) (o : Str) : Nat :=
  ((bs.filter (fun b => b.nft == n && b.owner == o)).map (fun b => weightOfVoter cl b.voter)).sum

def nftsOf (bs : List Ballot) : List Nft := dedupNfts (bs.map (·.nft)) []

def dedupStr : List Str → List Str → List Str
  | [], acc => acc.reverse
  | x :: r, acc => if acc.contains x then dedupStr r acc else dedupStr r (x :: acc)

def ownersOf (bs : List Ballot) (n : Nft) : List Str := dedupStr ((bs.filter (fun b => b.nft == n)).map (·.owner)) []

/-- `pickMostVoted`: the unique owner at or above the threshold, if there is exactly one -/
def pickOwner (cl : List (Nat × Nat)) (bs : List Ballot) (thr : Nat) (n : Nft) : Option Str :=
  match (ownersOf bs n).filter (fun o => powerFor cl bs n o ≥ thr) with
  | [o] => some o
  | _ => none

/-- the accepted owners of a tally -/
def acceptedEntry (cl : List (Nat × Nat)) (bs : List Ballot) (thr : Nat) (n : Nft) : Option (Nft × Str) :=
  (pickOwner cl bs thr n).map (fun o => (n, o))

def acceptedOwners (cl : List (Nat × Nat)) (bs : List Ballot) (thr : Nat) : List (Nft × Str) :=
  (nftsOf bs).filterMap (acceptedEntry cl bs thr)

/-- a validator in the claim map is charged a miss when one of its ballots differs from the accepted value (or none was accepted) -/
def missed (cl : List (Nat × Nat)) (bs : List Ballot) (accepted : List (Nft × Str)) (i : Nat) : Bool :=
  alHas cl i && bs.any (fun b => b.voter == i && alGet accepted b.nft != some b.owner)

/-! ### rewards -/

structure RewardRes where
  bank : Bank
  distr : Distr

/-- per-validator integer reward of one denomination: floor(P * floor(w * 10^18 / W) / 10^18) -/
def rewardOf (pool w W : Nat) : Nat := pool * (w * one18 / W) / one18

/-- pro-bono rate of validator i (0 when it is not pro bono) -/
def rateOf (vals : List Val) (i : Nat) : Nat :=
  match getVal vals i with
  | some v => v.probono.getD 0
  | none => 0

def rewardOne (cl : List (Nat × Nat)) (vals : List Val) (W : Nat) (d : Str) (pool : Nat) (acc : RewardRes × Nat) (c : Nat × Nat) : RewardRes × Nat :=
  let r := rewardOf pool c.2 W
  if r = 0 then acc
  else
    let rate := rateOf vals c.1
    let contribution := r * rate            -- Dec18 numerator of r * rate
    let final := r * one18 - contribution
    let dd : Distr := { outstanding := fun i d' => if i = c.1 ∧ d' = d then acc.1.distr.outstanding i d' + final else acc.1.distr.outstanding i d',
                        community := fun d' => if d' = d then acc.1.distr.community d' + contribution else acc.1.distr.community d' }
    (⟨acc.1.bank, dd⟩, acc.2 + r)

/-- `RewardBallotWinners` for one denomination of the pool -/
def rewardDenom (winners : List (Nat × Nat)) (vals : List Val) (W : Nat) (rr : RewardRes) (d : Str) : RewardRes :=
  let pool := rr.bank .pool d
  if pool = 0 then rr
  else
    let res := winners.foldl (rewardOne winners vals W d pool) (rr, 0)
    match res.1.bank.send .pool .distr d res.2 with
    | some b => ⟨b, res.1.distr⟩
    | none => res.1

def rewardWinners (s : State) (cl : List (Nat × Nat)) (missedSet : List Nat) : RewardRes :=
  let winners := cl.filter (fun c => !missedSet.contains c.1)
  let W := totalPower winners
  if W = 0 then ⟨s.bank, s.distr⟩
  else s.poolDenoms.foldl (rewardDenom winners s.vals W) ⟨s.bank, s.distr⟩

/-! ### slashing -/

/-- `Slash` + `Jail` of a bonded, unjailed validator: burn min(tokens, floor(power * reduction * fraction)) and jail -/
def slashVal (pr : Nat) (constant : Bool) (frac : Nat) (v : Val) : Val :=
  let amt := powerOf pr constant v * pr * frac / one18
  { v with tokens := v.tokens - min amt v.tokens, jailed := true }

/-- `SlashValidatorsAndResetMissCount`: every counter above the maximum slashes its validator if active; all counters are deleted -/
def slashAll (s : State) (miss : List (String × Nat)) : List Val :=
  miss.foldl (fun vals p =>
    if p.2 > s.os.params.maxMiss then
      match decodeVal p.1 with
      | some i => match getVal vals i with
        | some v => if v.bonded && !v.jailed then vals.set i (slashVal s.powerReduction s.constantPower s.os.params.slashFraction v) else vals
        | none => vals
      | none => vals
    else vals) s.vals

/-! ### end-blocker -/

structure OracleBlock where
  st : State
  filled : List Event
  jailed : List Nat

def bumpMiss (miss : List (String × Nat)) (i : Nat) : List (String × Nat) :=
  alSet miss (valName i) ((alGet miss (valName i)).getD 0 + 1)

/-- the owners the tally of the current ballots accepts -/
def tallyAccepted (s : State) : List (Nft × Str) :=
  acceptedOwners (claims s) (ballots s.os.votes) (thresholdVotes s.os.params.threshold (totalPower (claims s)))

/-- oracle `EndBlocker` at height `s.h` -/
def oracleEndBlock (s : State) : OracleBlock :=
  let ri := nextRoundInfo s
  let s1 : State := { s with os := { s.os with round := some ri } }
  let p := s.os.params.votePeriod
  if (s.h : Int) != voteEnd s.h p then ⟨s1, [], []⟩
  else
    let cl := claims s
    let bs := ballots s.os.votes
    let accepted := tallyAccepted s
    -- fill settlement recipients
    let start := roundStart s.h p
    let evs := if start = 0 then [] else s1.st.recTenants.flatMap (fun t => fillEvents accepted (start - 1) s.h t (s1.st.recs t))
    let st2 := if start = 0 then s1.st else setRecipients s1.st accepted (start - 1)
    -- misses
    let missedSet := (cl.map (·.1)).filter (missed cl bs accepted)
    let miss2 := missedSet.foldl bumpMiss s1.os.miss
    -- rewards
    let rr := rewardWinners s1 cl missedSet
    -- clear ballots, then the slash window
    let closing := slashWindowClosing s.h p s.os.params.slashWindow
    let s3 : State := { s1 with st := st2, bank := rr.bank, distr := rr.distr,
                                os := { s1.os with miss := miss2, prevotes := [], votes := [] }, log := s1.log ++ evs }
    if closing then
      let vals' := slashAll s3 miss2
      let jailedNow := (List.range s3.vals.length).filter (fun i => match getVal s3.vals i, getVal vals' i with
        | some a, some b => !a.jailed && b.jailed
        | _, _ => false)
      ⟨{ s3 with vals := vals', os := { s3.os with miss := [] } }, evs, jailedNow⟩
    else ⟨s3, evs, []⟩

end Settlus
