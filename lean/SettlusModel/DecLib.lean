/-
  The cosmos-sdk fixed-point and integer operations the two modules use, as functions on integers.
  A `sdk.Dec` is its numerator over 10^18 (`Int`); a `math.Int` is an `Int`. These definitions follow cosmossdk.io/math
  (`LegacyDec`): `Mul` and `RoundInt` round half to even on the 19th digit, `MulTruncate`, `QuoInt64`, `TruncateInt` and
  `Int.Quo` truncate toward zero, `Ceil` rounds toward +infinity. The generated file `Generated/Dec.lean` is written in terms of
  these names; `Proofs/Dec.lean` relates the generated expressions to the model's arithmetic.
-/
import SettlusModel.Basic
namespace Settlus.SDK

def E : Int := 1000000000000000000

/-- `chopPrecisionAndRound` with precision unit `e`: divide by `e`, round half to even (on the absolute value, sign restored) -/
def chopRoundBy (e : Nat) (d : Int) : Int :=
  let a := d.natAbs
  let q := a / e
  let r := a % e
  let up : Nat := if r = 0 then q else if 2 * r < e then q else if 2 * r > e then q + 1 else if q % 2 = 0 then q else q + 1
  if d < 0 then -(up : Int) else (up : Int)

def chopRound (d : Int) : Int := chopRoundBy 1000000000000000000 d

def decOfInt (n : Int) : Int := n * E                 -- NewDec, NewDecFromInt, NewDecCoinsFromCoins (per coin)
def decMul (a b : Int) : Int := chopRound (a * b)     -- Dec.Mul, DecCoins.MulDec (per coin)
def decMulTruncate (a b : Int) : Int := Int.tdiv (a * b) E   -- Dec.MulTruncate, DecCoins.MulDecTruncate
def decSub (a b : Int) : Int := a - b
def decAdd (a b : Int) : Int := a + b
def decMulInt64 (a n : Int) : Int := a * n
def decQuoInt64 (a n : Int) : Int := Int.tdiv a n
/-- `Dec.Quo`: two extra digits of precision, then rounded half to even -/
def decQuo (a b : Int) : Int := chopRound (Int.tdiv (a * E * E) b)
def decQuoTruncate (a b : Int) : Int := Int.tdiv (a * E) b
def decTruncateInt (a : Int) : Int := Int.tdiv a E    -- TruncateInt, TruncateDecimal (per coin)
def decRoundInt (a : Int) : Int := chopRound a
/-- `Dec.Ceil`: the least multiple of 10^18 that is not below `a` -/
def decCeil (a : Int) : Int :=
  let q := Int.tdiv a E
  let r := Int.tmod a E
  if r = 0 then a else if a < 0 then q * E else (q + 1) * E
def intMul (a b : Int) : Int := a * b
def intQuo (a b : Int) : Int := Int.tdiv a b
def intOfInt64 (n : Int) : Int := n

end Settlus.SDK
