/-
  The query layer of the two modules (x/settlement/keeper/grpc_query.go, x/oracle/keeper/query.go): what a client of the chain
  observes. Pagination is followed to the end by the harness, so a list query is the whole list in store order.
-/
import SettlusModel.Chain
namespace Settlus

/-- Query/UTXR (`GetUTXRByRequestId`): the request-id entry, then the record it names -/
def lookup (st : SState) (t : Nat) (req : Str) : Option Rec :=
  match alGet (st.index t) req with
  | some id => (st.recs t).find? (fun r => r.id == id)
  | none => none

/-- Query/UTXRs: refused for an unknown tenant, else the pending records of the tenant in id order -/
def qUtxrs (s : State) (t : Nat) : Option (List Rec) :=
  if (findTenant s.st.tenants t).isSome then some (s.st.recs t) else none

/-- `TenantWithTreasury`: the balance is reported for native-currency tenants only -/
structure TenantView where
  tenant : Tenant
  balance : Option Nat

def tenantView (s : State) (t : Tenant) : TenantView :=
  { tenant := t, balance := if t.mint then none else some (s.bank (treasuryName t.id) t.denom) }

/-- Query/Tenant -/
def qTenant (s : State) (id : Nat) : Option TenantView := (findTenant s.st.tenants id).map (tenantView s)

/-- Query/Tenants -/
def qTenants (s : State) : List TenantView := s.st.tenants.map (tenantView s)

/-- Query/AggregatePrevote, Query/AggregateVote, Query/MissCount, Query/FeederDelegation for the validator spelled `v` -/
def qPrevote (s : State) (v : String) : Option Str := alGet s.os.prevotes v
def qVote (s : State) (v : String) : Option (List VoteData) := alGet s.os.votes v
def qMiss (s : State) (v : String) : Nat := (alGet s.os.miss v).getD 0
def qFeeder (s : State) (v : String) : Option Acct := (decodeVal v).map (fun i => (alGet s.os.feeders v).getD (opAcc i))

/-- Query/RewardPool -/
def qRewardPool (s : State) (d : Str) : Nat := s.bank .pool d

end Settlus
