/-
  NFT identifiers and vote entries: models of `types.ParseNftId`, `Nft.FormatString`,
  `oracle/types.StringToOwnershipData`, `ValidateVoteData`, the commitment string, and of the reference
  feeder's `TrimHexZeroes` and entry formatter.
-/
import SettlusModel.Hex
namespace Settlus

structure Nft where
  chain : Str
  contract : Str   -- normalised: 0x + 40 lower-case digits
  token : Str      -- normalised the same way (the address normaliser is applied to token ids)
deriving DecidableEq, Repr

/-- `ParseNftId`: exactly three '/'-separated parts -/
def parseNftId (s : Str) : Option Nft :=
  match splitOn '/' s with
  | [a, b, c] => some { chain := a, contract := normalizeHex b, token := normalizeHex c }
  | _ => none

/-- `Nft.FormatString` (hex parts in canonical lower case) -/
def formatNft (n : Nft) : Str := n.chain ++ '/' :: n.contract ++ '/' :: n.token

structure Entry where
  nft : Nft
  owner : Str
deriving DecidableEq, Repr

/-- `StringToOwnershipData` of the current tree: exactly one ':'; the NFT part must parse. -/
def parseEntry (s : Str) : Option Entry :=
  match splitOn ':' s with
  | [a, b] =>
    match parseNftId a with
    | some n => some { nft := n, owner := normalizeHex b }
    | none => none
  | _ => none

inductive Topic | block | ownership | other
deriving DecidableEq, Repr

structure VoteData where
  topic : Topic
  data : List Str
deriving DecidableEq, Repr

/-- `ValidateVoteData`: every item is an ownership item whose entries parse and name a supported chain. -/
def validVoteItem (chains : List Str) (vd : VoteData) : Bool :=
  match vd.topic with
  | .ownership => vd.data.all (fun d => match parseEntry d with
      | some e => chains.contains e.nft.chain
      | none => false)
  | _ => false

def validateVoteData (chains : List Str) (vds : List VoteData) : Bool := vds.all (validVoteItem chains)

/-- the committed byte string: salt followed by every entry, no delimiters -/
def commitString (salt : Str) (vds : List VoteData) : Str :=
  salt ++ (vds.flatMap (fun vd => vd.data.flatten))

/-- `TrimHexZeroes` of the reference feeder -/
def dropZeros : Str → Str
  | '0' :: r => dropZeros r
  | s => s

def trimHexZeroes (s : Str) : Str :=
  let t := dropZeros (stripLower0x s)
  if t.isEmpty then ['0', 'x', '0'] else '0' :: 'x' :: t

/-- the feeder's entry for a published source string and an owner answer; fails when the source does not parse -/
def feederEntry (src owner : Str) : Option Str :=
  match parseNftId src with
  | some _ => some (src ++ ':' :: trimHexZeroes owner)
  | none => none

/-! ### the feeder's owner lookup -/

def lowerStr (s : Str) : Str := s.map Char.toLower

/-- the `eth_call` the reference feeder's Ethereum subscriber sends for `ownerOf(token)`: the contract with a `0x` prefix, and the
selector 0x6352211e followed by the token id as a 32-byte big-endian word (`common.HexToHash`) -/
def ownerOfCall (contract token : Str) : Str × Str :=
  let to := match contract with
    | '0' :: 'x' :: _ => contract
    | _ => '0' :: 'x' :: contract
  (lowerStr to, "0x6352211e".toList ++ bytesHex (fixBytes 32 (fromHex token)))

end Settlus
