/-
  Genesis export / import of the two modules (x/settlement/genesis.go, x/oracle/genesis.go of the current tree).
-/
import SettlusModel.Chain
namespace Settlus

structure Genesis where
  sparams : SParams
  utxrs : List (Nat × Rec)          -- (tenant id, record with its id), in store order
  tenants : List Tenant
  oparams : OParams
  votes : List (String × List VoteData)
  prevotes : List (String × Str)
  miss : List (String × Nat)
  feeders : List (String × Acct)

/-- `ExportGenesis` of both modules -/
def exportG (s : State) : Genesis :=
  { sparams := s.st.params, utxrs := allRecs s.st, tenants := s.st.tenants,
    oparams := s.os.params, votes := s.os.votes, prevotes := s.os.prevotes, miss := s.os.miss, feeders := s.os.feeders }

/-- the document on its way from `ExportGenesis` to `InitGenesis` is JSON: a free-form string (request id, prevote hash) comes back
with every byte that is not part of a well-formed UTF-8 sequence replaced by U+FFFD. The other strings of the document are bech32
addresses, normalised hex, validated denominations, vote entries over hex digits and configured chain ids, or set by governance. -/
def jsonG (g : Genesis) : Genesis :=
  { g with utxrs := g.utxrs.map (fun p => (p.1, { p.2 with req := jsonStr p.2.req })),
           prevotes := g.prevotes.map (fun p => (p.1, jsonStr p.2)) }

/-- `ImportUTXR`: refuses a duplicate request id or record id (InitGenesis then panics), keeps the counter ahead -/
def importUtxr (st : SState) (t : Nat) (r : Rec) : Option SState :=
  if alHas (st.index t) r.req || (st.recs t).any (fun x => x.id == r.id) then none
  else some { st with
    recs := fupd st.recs t (st.recs t ++ [r]),
    index := fupd st.index t (st.index t ++ [(r.req, r.id)]),
    last := fupd st.last t (match st.last t with
      | some l => some (max l r.id)
      | none => some r.id),
    recTenants := insertSorted t st.recTenants }

def importUtxrs : List (Nat × Rec) → SState → Option SState
  | [], st => some st
  | (t, r) :: rest, st => match importUtxr st t r with
    | some st' => importUtxrs rest st'
    | none => none

/-- `InitGenesis` of both modules on empty stores, at height `h`; `none` stands for a panic -/
def importG (base : State) (g : Genesis) : Option State :=
  let st0 : SState := { params := g.sparams, tenants := [], recs := fun _ => [], index := fun _ => [], last := fun _ => none, recTenants := [] }
  match importUtxrs g.utxrs st0 with
  | none => none
  | some st1 =>
    let st2 : SState := { st1 with tenants := g.tenants }
    if !oparamsValid g.oparams.votePeriod g.oparams.threshold g.oparams.slashFraction g.oparams.slashWindow g.oparams.maxMiss then none
    else
      let os : OState := { params := g.oparams, round := none, prevotes := g.prevotes, votes := g.votes, miss := g.miss, feeders := g.feeders }
      let s : State := { base with st := st2, os := os }
      -- the description of the first block to be processed: the block at `base.h` itself (InitChain of an export runs at that height)
      some { s with os := { s.os with round := some (nextRoundInfo { s with h := s.h - 1 }) } }

end Settlus
