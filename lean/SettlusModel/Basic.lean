/-
  Basic helpers of the model: association lists, fixed-point decimals (18 digits), character classes.
  Core Lean only: everything here is also compiled into the driver executable.
-/
namespace Settlus

/-- 10^18, the denominator of `sdk.Dec`. -/
def one18 : Nat := 1000000000000000000

theorem one18_pos : 0 < one18 := by decide

/-- 2^64, the range of `uint64`. -/
def two64 : Nat := 18446744073709551616

/-- `uint64` wrap-around. -/
def u64 (n : Nat) : Nat := n % two64

/-! ### association lists keyed by a type with decidable equality (insertion order is kept) -/

def alGet {α β} [DecidableEq α] : List (α × β) → α → Option β
  | [], _ => none
  | (k, v) :: r, a => if k = a then some v else alGet r a

def alErase {α β} [DecidableEq α] : List (α × β) → α → List (α × β)
  | [], _ => []
  | (k, v) :: r, a => if k = a then alErase r a else (k, v) :: alErase r a

/-- set keeps the position of an existing key and appends a new one at the end -/
def alSet {α β} [DecidableEq α] : List (α × β) → α → β → List (α × β)
  | [], a, b => [(a, b)]
  | (k, v) :: r, a, b => if k = a then (k, b) :: r else (k, v) :: alSet r a b

def alHas {α β} [DecidableEq α] (l : List (α × β)) (a : α) : Bool := (alGet l a).isSome

/-! ### functions updated at a point -/

def fupd {α β} [DecidableEq α] (f : α → β) (a : α) (b : β) : α → β := fun x => if x = a then b else f x

@[simp] theorem fupd_same {α β} [DecidableEq α] (f : α → β) (a : α) (b : β) : fupd f a b a = b := by simp [fupd]

@[simp] theorem fupd_other {α β} [DecidableEq α] (f : α → β) (a x : α) (b : β) (h : x ≠ a) : fupd f a b x = f x := by simp [fupd, h]

/-! ### characters -/

def isHexChar (c : Char) : Bool :=
  ('0' ≤ c && c ≤ '9') || ('a' ≤ c && c ≤ 'f') || ('A' ≤ c && c ≤ 'F')

def hexVal (c : Char) : Nat :=
  if '0' ≤ c && c ≤ '9' then c.toNat - '0'.toNat
  else if 'a' ≤ c && c ≤ 'f' then c.toNat - 'a'.toNat + 10
  else if 'A' ≤ c && c ≤ 'F' then c.toNat - 'A'.toNat + 10
  else 0

def hexDigit (n : Nat) : Char :=
  if n < 10 then Char.ofNat ('0'.toNat + n) else Char.ofNat ('a'.toNat + (n - 10))

def upperHexDigit (n : Nat) : Char :=
  if n < 10 then Char.ofNat ('0'.toNat + n) else Char.ofNat ('A'.toNat + (n - 10))

/-- ASCII lower-casing, as `strings.ToLower` acts on the byte strings the harness canonicalises. -/
def lowerChar (c : Char) : Char := if 'A' ≤ c && c ≤ 'Z' then Char.ofNat (c.toNat + 32) else c

def upperChar (c : Char) : Char := if 'a' ≤ c && c ≤ 'z' then Char.ofNat (c.toNat - 32) else c

/-- splitting on a separator character, as Go's `strings.Split` does for a one-byte separator -/
def splitOn (sep : Char) : List Char → List (List Char)
  | [] => [[]]
  | c :: r =>
    if c = sep then [] :: splitOn sep r
    else match splitOn sep r with
      | [] => [[c]]
      | h :: t => (c :: h) :: t

/-- joining with a separator character -/
def joinWith (sep : Char) : List (List Char) → List Char
  | [] => []
  | [x] => x
  | x :: y :: r => x ++ sep :: joinWith sep (y :: r)

def natToDigits (n : Nat) : List Char := (toString n).toList

/-! ### UTF-8 (one `Char` per byte) -/

def u8 (c : Char) : Nat := c.toNat % 256
def fffd : List Char := [Char.ofNat 0xEF, Char.ofNat 0xBF, Char.ofNat 0xBD]
def cont (c : Char) : Bool := 0x80 ≤ u8 c && u8 c ≤ 0xBF
/-- second byte of a three-byte sequence led by `b` (no overlongs, no surrogates) -/
def second3 (b c : Char) : Bool :=
  if u8 b = 0xE0 then 0xA0 ≤ u8 c && u8 c ≤ 0xBF else if u8 b = 0xED then 0x80 ≤ u8 c && u8 c ≤ 0x9F else cont c
/-- second byte of a four-byte sequence led by `b` (no overlongs, nothing above U+10FFFF) -/
def second4 (b c : Char) : Bool :=
  if u8 b = 0xF0 then 0x90 ≤ u8 c && u8 c ≤ 0xBF else if u8 b = 0xF4 then 0x80 ≤ u8 c && u8 c ≤ 0x8F else cont c

def validUtf8 : List Char → Bool
  | [] => true
  | b :: r =>
    if u8 b < 0x80 then validUtf8 r
    else if 0xC2 ≤ u8 b && u8 b ≤ 0xDF then
      match r with
      | c1 :: r1 => cont c1 && validUtf8 r1
      | _ => false
    else if 0xE0 ≤ u8 b && u8 b ≤ 0xEF then
      match r with
      | c1 :: c2 :: r2 => second3 b c1 && cont c2 && validUtf8 r2
      | _ => false
    else if 0xF0 ≤ u8 b && u8 b ≤ 0xF4 then
      match r with
      | c1 :: c2 :: c3 :: r3 => second4 b c1 && cont c2 && cont c3 && validUtf8 r3
      | _ => false
    else false

/-- what a Go string becomes after `encoding/json` encoding and decoding: every byte that does not start a well-formed UTF-8
sequence is replaced by U+FFFD -/
def jsonStr : List Char → List Char
  | [] => []
  | b :: r =>
    if u8 b < 0x80 then b :: jsonStr r
    else if 0xC2 ≤ u8 b && u8 b ≤ 0xDF then
      match r with
      | c1 :: r1 => if cont c1 then b :: c1 :: jsonStr r1 else fffd ++ jsonStr (c1 :: r1)
      | [] => fffd
    else if 0xE0 ≤ u8 b && u8 b ≤ 0xEF then
      match r with
      | c1 :: c2 :: r2 => if second3 b c1 && cont c2 then b :: c1 :: c2 :: jsonStr r2 else fffd ++ jsonStr (c1 :: c2 :: r2)
      | [c1] => fffd ++ jsonStr [c1]
      | [] => fffd
    else if 0xF0 ≤ u8 b && u8 b ≤ 0xF4 then
      match r with
      | c1 :: c2 :: c3 :: r3 => if second4 b c1 && cont c2 && cont c3 then b :: c1 :: c2 :: c3 :: jsonStr r3 else fffd ++ jsonStr (c1 :: c2 :: c3 :: r3)
      | [c1, c2] => fffd ++ jsonStr [c1, c2]
      | [c1] => fffd ++ jsonStr [c1]
      | [] => fffd
    else fffd ++ jsonStr r
termination_by l => l.length
decreasing_by all_goals (simp only [List.length_cons]; omega)

theorem jsonStr_of_valid (l : List Char) : validUtf8 l = true → jsonStr l = l := by
  fun_induction validUtf8 l
  case case1 => intro _; simp [jsonStr]
  case case2 b r hb ih => intro h; rw [jsonStr.eq_def]; simp only [hb, if_true]; rw [ih h]
  case case3 b h1 h2 c1 r1 ih =>
    intro h; simp only [Bool.and_eq_true] at h
    rw [jsonStr]; simp only [h1, h2, h.1, if_true, if_false]; rw [ih h.2]
  case case5 b h1 h2 h3 c1 c2 r2 ih =>
    intro h; simp only [Bool.and_eq_true] at h
    rw [jsonStr]; simp only [h1, h2, h3, h.1.1, h.1.2, Bool.and_self, Bool.false_eq_true, if_true, if_false]; rw [ih h.2]
  case case7 b h1 h2 h3 h4 c1 c2 c3 r3 ih =>
    intro h; simp only [Bool.and_eq_true] at h
    rw [jsonStr]; simp only [h1, h2, h3, h4, h.1.1.1, h.1.1.2, h.1.2, Bool.and_self, Bool.false_eq_true, if_true, if_false]; rw [ih h.2]
  all_goals (intro h; cases h)

end Settlus

namespace Settlus

theorem alGet_alSet_ne {α β} [DecidableEq α] (l : List (α × β)) (a k : α) (b : β) (h : k ≠ a) : alGet (alSet l a b) k = alGet l k := by
  induction l with
  | nil => simp [alSet, alGet, Ne.symm h]
  | cons x r ih =>
    obtain ⟨x1, x2⟩ := x
    unfold alSet
    by_cases c : x1 = a
    · subst c
      simp [alGet, Ne.symm h]
    · simp only [c, if_false]
      unfold alGet
      by_cases c2 : x1 = k
      · simp [c2]
      · simp only [c2, if_false]; exact ih

theorem alGet_alSet_same {α β} [DecidableEq α] (l : List (α × β)) (a : α) (b : β) : alGet (alSet l a b) a = some b := by
  induction l with
  | nil => simp [alSet, alGet]
  | cons x r ih =>
    obtain ⟨x1, x2⟩ := x
    unfold alSet
    by_cases c : x1 = a
    · subst c; simp [alGet]
    · simp only [c, if_false]
      unfold alGet
      simp only [c, if_false]; exact ih

theorem alGet_alErase_ne {α β} [DecidableEq α] (l : List (α × β)) (a k : α) (h : k ≠ a) : alGet (alErase l a) k = alGet l k := by
  induction l with
  | nil => rfl
  | cons x r ih =>
    obtain ⟨x1, x2⟩ := x
    unfold alErase
    by_cases c : x1 = a
    · subst c
      simp only [if_true]
      rw [ih]
      simp [alGet, Ne.symm h]
    · simp only [c, if_false]
      unfold alGet
      by_cases c2 : x1 = k
      · simp [c2]
      · simp only [c2, if_false]; exact ih

end Settlus
