/-
  Hex / address normalisation: models of go-ethereum's `common.FromHex`, `Hex2Bytes`, `BytesToAddress`,
  `HexToAddress(..).Hex()` (checksum casing canonicalised to lower case), `IsHexAddress`, and of
  `types.HexAddressString.{Bytes,IsNull}` and `types.NormalizeHexAddress`.
  A Go string is a `List Char` whose characters are bytes.
-/
import SettlusModel.Basic
namespace Settlus

abbrev Str := List Char

def has0x : Str → Bool
  | '0' :: 'x' :: _ => true
  | '0' :: 'X' :: _ => true
  | _ => false

def strip0x (s : Str) : Str := if has0x s then s.drop 2 else s

/-- `encoding/hex.DecodeString` with the error dropped: the bytes decoded before the first bad pair. -/
def decodePairs : Str → List Nat
  | a :: b :: r => if isHexChar a && isHexChar b then (hexVal a * 16 + hexVal b) :: decodePairs r else []
  | _ => []

/-- `common.FromHex`: optional 0x/0X prefix, odd length padded with a leading zero digit. -/
def fromHex (s : Str) : List Nat :=
  let t := strip0x s
  let t := if t.length % 2 = 1 then '0' :: t else t
  decodePairs t

/-- keep the last `n` bytes, left-pad with zeros: `BytesToAddress` / `Hex2BytesFixed` -/
def fixBytes (n : Nat) (b : List Nat) : List Nat :=
  if b.length ≥ n then b.drop (b.length - n) else List.replicate (n - b.length) 0 ++ b

def byteHex (b : Nat) : Str := [hexDigit (b / 16), hexDigit (b % 16)]

def bytesHex (bs : List Nat) : Str := bs.flatMap byteHex

/-- `NormalizeHexAddress` up to checksum casing: "0x" and 40 lower-case digits of the low 20 bytes. -/
def normalizeHex (s : Str) : Str := '0' :: 'x' :: bytesHex (fixBytes 20 (fromHex s))

/-- `strings.TrimPrefix(s, "0x")` -/
def stripLower0x : Str → Str
  | '0' :: 'x' :: r => r
  | s => s

/-- `HexAddressString.Bytes()`: only a lower-case "0x" is trimmed. -/
def hexAddrBytes (s : Str) : List Nat :=
  let t := stripLower0x s
  let t := if t.length % 2 = 1 then '0' :: t else t
  fixBytes 20 (decodePairs t)

def hexAddrIsNull (s : Str) : Bool := (hexAddrBytes s).all (· == 0)

/-- `common.IsHexAddress` -/
def isHexAddress (s : Str) : Bool :=
  let t := strip0x s
  t.length == 40 && t.all isHexChar

/-- numeric value of a big-endian byte list -/
def bytesVal (bs : List Nat) : Nat := bs.foldl (fun acc b => acc * 256 + b) 0

/-- value of a hex digit string (no prefix), most significant first -/
def hexStrVal (s : Str) : Nat := s.foldl (fun acc c => acc * 16 + hexVal c) 0

/-- what `MsgRecord.ValidateBasic` accepts behind the "0x" of a token id: one or more hex digits and nothing else
(`big.Int.SetString(s, 16)` alone would also take a sign, which every later reader of the string ignores - finding F22). -/
def isBigHex (s : Str) : Bool := !s.isEmpty && s.all isHexChar

end Settlus
