/-
  Line-protocol driver: reads the operation lines the harness wrote, runs the model, prints the same
  transcript format (`> op`, `< result`, `| dump line`) so that the two files can be compared line by line.
  Usage: drv chain|ante|pure < ops
-/
import SettlusModel
open Settlus

/-! ### token decoding -/

def hexNib (c : Char) : Nat := hexVal c

def decodeHexChars : List Char → List Char
  | a :: b :: r => Char.ofNat (hexNib a * 16 + hexNib b) :: decodeHexChars r
  | _ => []

/-- "=raw" or "x<hex>" -/
def strTok (t : String) : Str :=
  match t.toList with
  | '=' :: r => r
  | 'x' :: r => decodeHexChars r
  | r => r

def natTok (t : String) : Nat := t.toNat?.getD 0

def intTok (t : String) : Option Int :=
  if t == "nil" then none
  else match t.toList with
    | '-' :: r => (String.ofList r).toNat?.map (fun n => -(n : Int))
    | _ => t.toNat?.map (fun n => (n : Int))

/-- decimal string with up to 18 fractional digits -> numerator over 10^18 -/
def decTok (t : String) : Int :=
  let neg := t.startsWith "-"
  let body := if neg then (t.drop 1).toString else t
  let parts := body.splitOn "."
  let ip := (parts.getD 0 "0").toNat?.getD 0
  let fp := parts.getD 1 ""
  let fpad := fp ++ String.ofList (List.replicate (18 - fp.length) '0')
  let v : Int := ((ip * one18 + (fpad.toNat?.getD 0) : Nat) : Int)
  if neg then -v else v

def parseVD (tok : String) : List VoteData :=
  if tok == "-" then []
  else (tok.splitOn ";").map (fun part =>
    let cs := part.toList
    let topic := match cs.head? with
      | some 'B' => Topic.block
      | some 'U' => Topic.other
      | _ => Topic.ownership
    let rest := String.ofList (cs.drop 2)
    let data := if rest.isEmpty then [] else (rest.splitOn ",").map strTok
    { topic := topic, data := data })

def encVD (vds : List VoteData) : String :=
  if vds.isEmpty then "-"
  else ";".intercalate (vds.map (fun vd =>
    let t := match vd.topic with
      | .block => "B"
      | .ownership => "O"
      | .other => "U"
    t ++ ":" ++ ",".intercalate (vd.data.map encStr)))

def acctName : Acct → String
  | .a i => "a" ++ toString i
  | .o i => "o" ++ toString i

def holderName : Holder → String
  | .acct x => acctName x
  | .treasury t => "t" ++ toString t
  | .addr h => String.ofList h
  | .pool => "pool"
  | .distr => "distr"
  | .collector => "collector"

def parseRcpts (tok : String) : List Recipient :=
  if tok == "-" then []
  else (tok.splitOn "+").map (fun p =>
    let aw := p.splitOn "*"
    let a := aw.getD 0 ""
    let addr : Str := if a.startsWith "0x" then a.toList else match decodeAcc a with
      | some x => accHex x
      | none => a.toList
    { addr := addr, weight := natTok (aw.getD 1 "0") })

def parseOp (line : String) : Option Op :=
  let f := (line.splitOn " ").filter (· != "")
  let g (i : Nat) : String := f.getD i ""
  match g 0 with
  | "createtenant" => some (.createTenant (g 1) (strTok (g 2)) (natTok (g 3)) (if f.length ≥ 5 then some (strTok (g 4)) else none))
  | "deposit" => some (.deposit (g 1) (natTok (g 2)) (intTok (g 3)) (strTok (g 4)))
  | "record" => some (.record (g 1) (natTok (g 2)) (strTok (g 3)) (intTok (g 4)) (strTok (g 5)) (strTok (g 6)) (strTok (g 7)) (strTok (g 8)))
  | "cancel" => some (.cancel (g 1) (natTok (g 2)) (strTok (g 3)))
  | "addadmin" => some (.addAdmin (g 1) (natTok (g 2)) (g 3))
  | "rmadmin" => some (.removeAdmin (g 1) (natTok (g 2)) (g 3))
  | "setperiod" => some (.setPeriod (g 1) (natTok (g 2)) (natTok (g 3)))
  | "inject" => some (.inject (natTok (g 1)) (strTok (g 2)) ((intTok (g 3)).getD 0) (strTok (g 4))
      { chain := strTok (g 5), contract := normalizeHex (strTok (g 6)), token := normalizeHex (strTok (g 7)) } (natTok (g 8)) (parseRcpts (g 9)))
  | "fund" => some (.fund (g 1) ((intTok (g 2)).getD 0) (strTok (g 3)))
  | "fundpool" => some (.fundPool ((intTok (g 1)).getD 0) (strTok (g 2)))
  | "setowner" => some (.setOwner (strTok (g 1)) (strTok (g 2)) (match g 3 with
      | "none" => none
      | "zero" => some none
      | a => some (some (match decodeAcc a with
          | some x => accHex x
          | none => match Facts.moduleAddrs.find? (fun p => p.1 == a) with
            | some p => p.2          -- a module account as the owner of an NFT
            | none => a.toList))))
  | "prevote" => some (.prevote (g 1) (g 2) (strTok (g 3)) (natTok (g 4)))
  | "vote" => some (.vote (g 1) (g 2) (strTok (g 3)) (natTok (g 4)) (parseVD (g 5)))
  | "consent" => some (.consent (g 1) (g 2))
  | "setoparams" => some (.setOParams (natTok (g 1)) (decTok (g 2)) (decTok (g 3)) (natTok (g 4)) (natTok (g 5)))
  | "setsparams" => some (.setSParams (decTok (g 1)) (if g 2 == "-" then [] else ((g 2).splitOn ",").map strTok))
  | "setval" => some (.setVal (natTok ((g 1).drop 1).toString) (natTok (g 2)) (g 3 == "1") (g 4 == "1") (if g 5 == "-" then none else some (decTok (g 5)).toNat))
  | "failat" => some (.failAt (if (g 1).startsWith "-" then none else some (natTok (g 1))))
  | "block" => some .block
  | "dump" => some .dump
  | _ => none

def atomicKinds : List String := ["createtenant", "deposit", "record", "cancel", "addadmin", "rmadmin", "setperiod", "prevote", "vote", "consent"]

/-- "atomic msg ;; msg ;; ..." -/
def parseAtomic (line : String) : Option (List Op) :=
  let body := (line.drop 7).toString
  let parts := body.splitOn " ;; "
  parts.foldr (fun p acc =>
    let kind := ((p.splitOn " ").filter (· != "")).getD 0 ""
    match acc, (if atomicKinds.contains kind then parseOp p else none) with
    | some l, some op => some (op :: l)
    | _, _ => none) (some [])

/-! ### printing -/

def joinOrDash (xs : List String) : String := if xs.isEmpty then "-" else ",".intercalate xs

def trackedDenoms : List Str := ["uusdc".toList, "asetl".toList, "uerc".toList]

def strLt (a b : Str) : Bool := (a.map Char.toNat) < (b.map Char.toNat)

def insertBy {α} (lt : α → α → Bool) (x : α) : List α → List α
  | [] => [x]
  | y :: r => if lt x y then x :: y :: r else y :: insertBy lt x r

def sortBy {α} (lt : α → α → Bool) (l : List α) : List α := l.foldl (fun acc x => insertBy lt x acc) []

/-- orders validator-keyed lines by index, lower-case spelling first -/
def valKeyLt (a b : String) : Bool :=
  let k (s : String) : Nat × Nat := ((decodeVal s).getD 1000000, if s.startsWith "V" then 1 else 0)
  let ka := k a
  let kb := k b
  ka.1 < kb.1 || (ka.1 == kb.1 && ka.2 < kb.2)

def tenantLine (t : Tenant) : String :=
  let contract := if t.contract.isEmpty then "-" else if t.contract == "auto".toList then "auto" else String.ofList (normalizeHex t.contract)
  toString t.id ++ " admins=" ++ joinOrDash (t.admins.map acctName) ++ " denom=" ++ encStr t.denom ++ " period=" ++ toString t.period ++
    " method=" ++ (if t.mint then "mintable_contract" else "native") ++ " contract=" ++ contract

def roundLine : Option RoundInfo → String
  | none => "R none"
  | some ri => "R id=" ++ toString ri.id ++ " pe=" ++ toString ri.prevoteEnd ++ " ve=" ++ toString ri.voteEnd ++ " src=" ++
      joinOrDash (ri.sources.map (fun x => "1:" ++ encStr x))

def dumpModules (s : State) : List String :=
  let sp := "SP fee=" ++ toString s.st.params.oracleFee ++ " chains=" ++ joinOrDash (s.st.params.chains.map encStr)
  let ts := s.st.tenants.map (fun t => "T " ++ tenantLine t)
  let us := (allRecs s.st).map (fun p =>
    "U " ++ toString p.1 ++ " " ++ toString p.2.id ++ " req=" ++ encStr p.2.req ++ " amt=" ++ toString p.2.amount ++ " denom=" ++ encStr p.2.denom ++
      " nft=" ++ nftStr p.2.nft ++ " created=" ++ toString p.2.created ++ " rcpt=" ++ rcptStr p.2.rcpt)
  let is := s.st.recTenants.flatMap (fun t =>
    (sortBy (fun a b => strLt a.1 b.1) (s.st.index t)).map (fun e => "I " ++ toString t ++ " " ++ encStr e.1 ++ " " ++ toString e.2))
  let ls := s.st.recTenants.filterMap (fun t => (s.st.last t).map (fun l => "L " ++ toString t ++ " " ++ toString l))
  let op := "OP period=" ++ toString s.os.params.votePeriod ++ " thr=" ++ toString s.os.params.threshold ++ " frac=" ++ toString s.os.params.slashFraction ++
    " window=" ++ toString s.os.params.slashWindow ++ " max=" ++ toString s.os.params.maxMiss
  let r := roundLine s.os.round
  let ps := (sortBy (fun a b => valKeyLt a.1 b.1) s.os.prevotes).map (fun p => "P " ++ p.1 ++ " " ++ encStr p.2)
  let vs := (sortBy (fun a b => valKeyLt a.1 b.1) s.os.votes).map (fun p => "V " ++ p.1 ++ " " ++ encVD p.2)
  let ms := (sortBy (fun a b => valKeyLt a.1 b.1) s.os.miss).map (fun p => "M " ++ p.1 ++ " " ++ toString p.2)
  let fs := (sortBy (fun a b => valKeyLt a.1 b.1) s.os.feeders).map (fun p => "F " ++ p.1 ++ " " ++ acctName p.2)
  [sp] ++ ts ++ us ++ is ++ ls ++ [op, r] ++ ps ++ vs ++ ms ++ fs

/-- recipients seen so far that are not named accounts (kept across dumps, as the harness does) -/
def updateSeen (seen : List Str) (s : State) : List Str :=
  (allRecs s.st).foldl (fun acc p => p.2.rcpt.foldl (fun a r =>
    if (match holderOfHex r.addr with | .acct _ => true | .addr _ => false | _ => true) || a.contains r.addr then a else a ++ [r.addr]) acc) seen

def dumpBalances (s : State) (seen : List Str) : List String :=
  let extras := sortBy strLt ((s.st.tenants.filter (·.mint)).map mintDenom).eraseDups
  let denoms := trackedDenoms ++ extras
  let holders : List Holder := (List.range 10).map (fun i => Holder.acct (.a i)) ++ s.st.tenants.map (fun t => treasuryName t.id) ++
    (sortBy strLt seen).map Holder.addr ++ [.pool, .distr]
  let bs := holders.flatMap (fun h => denoms.filterMap (fun d => if s.bank h d = 0 then none else some ("B " ++ holderName h ++ " " ++ encStr d ++ " " ++ toString (s.bank h d))))
  let sortedDenoms := sortBy strLt denoms
  let ss := (List.range s.vals.length).flatMap (fun i => match getVal s.vals i with
    | some v =>
      ["S v" ++ toString i ++ " tokens=" ++ toString v.tokens ++ " bonded=" ++ (if v.bonded then "1" else "0") ++ " jailed=" ++ (if v.jailed then "1" else "0") ++
        " probono=" ++ (match v.probono with | some r => toString r | none => "-")] ++
      sortedDenoms.filterMap (fun d => if s.distr.outstanding i d = 0 then none else some ("O v" ++ toString i ++ " " ++ encStr d ++ " " ++ toString (s.distr.outstanding i d)))
    | none => [])
  let cs := sortedDenoms.filterMap (fun d => if s.distr.community d = 0 then none else some ("C " ++ encStr d ++ " " ++ toString (s.distr.community d)))
  bs ++ ss ++ cs

/-! ### the query layer -/

def namedMax : Nat := 8

/-- the (tenant token, request-id token) pairs the history has named, latest last, at most `namedMax` -/
def noteNamed1 (named : List (String × String)) (l : String) : List (String × String) :=
  let f := (l.splitOn " ").filter (· != "")
  let g (i : Nat) : String := f.getD i ""
  let k : Option (String × String) := match g 0 with
    | "record" => if f.length < 4 then none else some (g 2, g 3)
    | "cancel" => if f.length < 4 then none else some (g 2, g 3)
    | "inject" => if f.length < 3 then none else some (g 1, g 2)
    | _ => none
  match k with
  | none => named
  | some k =>
    let n := (named.filter (· != k)) ++ [k]
    n.drop (n.length - namedMax)

def noteNamed (named : List (String × String)) (l : String) : List (String × String) :=
  if l.startsWith "atomic " then ((l.drop 7).toString.splitOn " ;; ").foldl noteNamed1 named else noteNamed1 named l

def viewLine (v : TenantView) : String :=
  tenantLine v.tenant ++ " treasury=" ++ (match v.balance with | some b => toString b | none => "-") ++ " addr=ok"

def dumpQueries (s : State) (named : List (String × String)) : List String :=
  let maxId := (s.st.tenants.map (·.id)).foldl max 0
  let ids := List.range (maxId + 2)
  let extras := sortBy strLt ((s.st.tenants.filter (·.mint)).map mintDenom).eraseDups
  let denoms := trackedDenoms ++ extras
  ["QSP fee=" ++ toString s.st.params.oracleFee ++ " chains=" ++ joinOrDash (s.st.params.chains.map encStr)] ++
  (qTenants s).map (fun v => "QT " ++ viewLine v) ++
  ids.map (fun id => match qTenant s id with
    | some v => "Qt " ++ viewLine v
    | none => "Qt " ++ toString id ++ " notfound") ++
  ids.map (fun id => match qUtxrs s id with
    | some rs => "QU " ++ toString id ++ " " ++ joinOrDash (rs.map (fun r => encStr r.req ++ "*" ++ toString r.amount ++ "*" ++ nftStr r.nft ++ "*" ++
        toString r.created ++ "*" ++ (rcptStr r.rcpt).replace "*" "^"))
    | none => "QU " ++ toString id ++ " err") ++
  named.map (fun k => match lookup s.st (natTok k.1) (strTok k.2) with
    | some r => "Qu " ++ k.1 ++ " " ++ k.2 ++ " req=" ++ encStr r.req ++ " amt=" ++ toString r.amount ++ " denom=" ++ encStr r.denom ++
        " nft=" ++ nftStr r.nft ++ " created=" ++ toString r.created ++ " rcpt=" ++ rcptStr r.rcpt
    | none => "Qu " ++ k.1 ++ " " ++ k.2 ++ " notfound") ++
  ["QOP period=" ++ toString s.os.params.votePeriod ++ " thr=" ++ toString s.os.params.threshold ++ " frac=" ++ toString s.os.params.slashFraction ++
    " window=" ++ toString s.os.params.slashWindow ++ " max=" ++ toString s.os.params.maxMiss,
   "Q" ++ roundLine s.os.round] ++
  (sortBy (fun a b => valKeyLt a.1 b.1) s.os.prevotes).map (fun p => "QP " ++ p.1 ++ " " ++ encStr p.2) ++
  (sortBy (fun a b => valKeyLt a.1 b.1) s.os.votes).map (fun p => "QV " ++ p.1 ++ " " ++ encVD p.2) ++
  (List.range s.vals.length).flatMap (fun i => ["v" ++ toString i, "V" ++ toString i].map (fun name =>
    "Qv " ++ name ++ " p=" ++ (match qPrevote s name with | some h => encStr h | none => "-") ++
      " v=" ++ (match qVote s name with | some vd => encVD vd | none => "-") ++
      " m=" ++ toString (qMiss s name) ++
      " f=" ++ (match qFeeder s name with | some a => acctName a | none => "err"))) ++
  ["QRP " ++ joinOrDash (denoms.filterMap (fun d => if qRewardPool s d = 0 then none else some (encStr d ++ "*" ++ toString (qRewardPool s d))))]

def dumpChain (s : State) (seen : List Str) : List String :=
  ["H " ++ toString s.h ++ " pr=" ++ toString s.powerReduction ++ " cr=" ++ (if s.constantPower then "1" else "0")] ++ dumpModules s ++ dumpBalances s seen

/-- a rendering of a genesis document, used to compare two exports -/
def dumpGenesis (g : Genesis) : List String :=
  ["SP " ++ toString g.sparams.oracleFee ++ " " ++ joinOrDash (g.sparams.chains.map encStr)] ++
  g.utxrs.map (fun p => "U " ++ toString p.1 ++ " " ++ toString p.2.id ++ " " ++ encStr p.2.req ++ " " ++ toString p.2.amount ++ " " ++ encStr p.2.denom ++ " " ++
    nftStr p.2.nft ++ " " ++ toString p.2.created ++ " " ++ rcptStr p.2.rcpt) ++
  g.tenants.map (fun t => "T " ++ toString t.id ++ " " ++ joinOrDash (t.admins.map acctName) ++ " " ++ encStr t.denom ++ " " ++ toString t.period ++ " " ++ toString t.mint ++ " " ++ encStr t.contract) ++
  ["OP " ++ toString g.oparams.votePeriod ++ " " ++ toString g.oparams.threshold ++ " " ++ toString g.oparams.slashFraction ++ " " ++ toString g.oparams.slashWindow ++ " " ++ toString g.oparams.maxMiss] ++
  (sortBy (fun a b => valKeyLt a.1 b.1) g.votes).map (fun p => "V " ++ p.1 ++ " " ++ encVD p.2) ++
  (sortBy (fun a b => valKeyLt a.1 b.1) g.prevotes).map (fun p => "P " ++ p.1 ++ " " ++ encStr p.2) ++
  (sortBy (fun a b => valKeyLt a.1 b.1) g.miss).map (fun p => "M " ++ p.1 ++ " " ++ toString p.2) ++
  (sortBy (fun a b => valKeyLt a.1 b.1) g.feeders).map (fun p => "F " ++ p.1 ++ " " ++ acctName p.2)

def pairStr (p : Nat × Nat) : String := toString p.1 ++ ":" ++ toString p.2

def filledStr : Event → String
  | .filled t id o _ => toString t ++ ":" ++ toString id ++ ">" ++ String.ofList o ++ "*1"
  | _ => "?"

def resultLine (op : Op) (hBefore : Nat) (r : StepRes) : String :=
  match r.out with
  | .err => "err"
  | .panic => "panic"
  | .ok info =>
    match op with
    | .block => "ok h=" ++ toString hBefore ++ " settled=" ++ joinOrDash (r.settled.map pairStr) ++ " dropped=" ++ joinOrDash (r.dropped.map pairStr) ++
        " filled=" ++ joinOrDash (r.filled.map filledStr) ++ " jailed=" ++ joinOrDash (r.jailed.map (fun i => "v" ++ toString i))
    | _ => if info.isEmpty then "ok" else "ok " ++ info

def sha (s : Str) : Str := Sha256.hashHexUpper s

partial def chainLoop (stdin : IO.FS.Stream) (s : State) (seen : List Str) (named : List (String × String)) : IO Unit := do
  let line ← stdin.getLine
  if line.isEmpty then return ()
  let l := line.trimAscii.toString
  if l.isEmpty || l.startsWith "#" then chainLoop stdin s seen named
  else if l == "genesis" then
    IO.println ("> " ++ l)
    -- export, import into empty module stores at the current height, export again
    match importG s (jsonG (exportG s)) with
    | none =>
      IO.println "< panic"
      for d in dumpChain s seen ++ dumpQueries s named do
        IO.println ("| " ++ d)
      chainLoop stdin s seen named
    | some s2 =>
      let same := dumpGenesis (exportG s2) == dumpGenesis (exportG s)
      IO.println ("< ok " ++ (if same then "same" else "differs"))
      for d in dumpModules s2 do
        IO.println ("| " ++ d)
      chainLoop stdin s seen named
  else if l == "reimport" then
    IO.println ("> " ++ l)
    -- the two modules restarted from their own export, in place; the history continues on the imported state
    match importG s (jsonG (exportG s)) with
    | none =>
      IO.println "< panic"
      for d in dumpChain s seen ++ dumpQueries s named do
        IO.println ("| " ++ d)
      chainLoop stdin s seen named
    | some s2 =>
      IO.println "< ok"
      for d in dumpChain s2 seen ++ dumpQueries s2 named do
        IO.println ("| " ++ d)
      chainLoop stdin s2 seen named
  else if l.startsWith "atomic " then
    IO.println ("> " ++ l)
    match parseAtomic l with
    | none =>
      IO.println "< bad-op"
      chainLoop stdin s seen named
    | some ops =>
      let s' := atomicStep sha s ops
      IO.println (match runBatch sha s ops with
        | some _ => "< ok " ++ toString ops.length
        | none => "< err " ++ toString (batchFailIndex sha s ops))
      let seen' := updateSeen seen s'
      let named' := noteNamed named l
      for d in dumpChain s' seen' ++ dumpQueries s' named' do
        IO.println ("| " ++ d)
      chainLoop stdin s' seen' named'
  else
    IO.println ("> " ++ l)
    match parseOp l with
    | none =>
      IO.println "< bad-op"
      chainLoop stdin s seen named
    | some op =>
      let r := step sha s op
      IO.println ("< " ++ resultLine op s.h r)
      -- a record filled and paid within one end-block never shows its recipients in a dump: the tally's events name them
      let seenF := r.filled.foldl (fun a ev => match ev with
        | .filled _ _ o _ => if (match holderOfHex o with | .acct _ => true | .addr _ => false | _ => true) || a.contains o then a else a ++ [o]
        | _ => a) seen
      let seen' := updateSeen seenF r.st
      let named' := noteNamed named l
      for d in dumpChain r.st seen' ++ dumpQueries r.st named' do
        IO.println ("| " ++ d)
      chainLoop stdin r.st seen' named'

/-! ### pure mode -/

def be8 (n : Nat) : List Nat := (List.range 8).map (fun i => (n / 256 ^ (7 - i)) % 256)

def coinsStr (cs : List (Str × Nat)) : String :=
  let nz := cs.filter (fun c => c.2 != 0)
  if nz.isEmpty then "-" else ",".intercalate ((sortBy (fun a b => strLt a.1 b.1) nz).map (fun c => toString c.2 ++ ":" ++ String.ofList c.1))

def parseCoins (tok : String) : List (Str × Nat) :=
  if tok == "-" || tok.isEmpty then []
  else (tok.splitOn ",").map (fun c =>
    let ad := c.splitOn ":"
    ((ad.getD 1 "").toList, natTok (ad.getD 0 "0")))

def pureStep (c : Cache) (l : String) : Cache × String :=
  let f := (l.splitOn " ").filter (· != "")
  let g (i : Nat) : String := f.getD i ""
  match g 0 with
  | "normhex" => (c, "ok " ++ String.ofList (normalizeHex (strTok (g 1))))
  | "hexbytes" =>
    let s := strTok (g 1)
    (c, "ok " ++ String.ofList (bytesHex (hexAddrBytes s)) ++ " null=" ++ (if hexAddrIsNull s then "1" else "0"))
  | "parsenft" => (c, match parseNftId (strTok (g 1)) with
      | some n => "ok " ++ nftStr n
      | none => "err")
  | "fmtnft" => (c, "ok " ++ encStr (formatNft { chain := strTok (g 1), contract := normalizeHex (strTok (g 2)), token := normalizeHex (strTok (g 3)) }))
  | "parseentry" => (c, match parseEntry (strTok (g 1)) with
      | some e => "ok " ++ nftStr e.nft ++ " " ++ String.ofList e.owner
      | none => "err")
  | "validvd" =>
    let chains := if g 2 == "-" then [] else ((g 2).splitOn ",").map strTok
    (c, "ok " ++ (if validateVoteData chains (parseVD (g 1)) then "true" else "false"))
  | "hash" => (c, "ok " ++ String.ofList (hashOf sha (strTok (g 1)) (parseVD (g 2))))
  | "fhash" => (c, "ok " ++ String.ofList (hashOf sha (strTok (g 1)) (parseVD (g 2))))
  | "trim" => (c, "ok " ++ encStr (trimHexZeroes (strTok (g 1))))
  | "utf8" => (c, "ok " ++ (if validUtf8 (strTok (g 1)) then "true" else "false") ++ " " ++ encStr (jsonStr (strTok (g 1))))
  | "ownerof" =>
    let r := ownerOfCall (strTok (g 1)) (strTok (g 2))
    (c, "ok to=" ++ encStr r.1 ++ " data=" ++ encStr r.2)
  | "fmtentry" => (c, match feederEntry (strTok (g 1)) (strTok (g 2)) with
      | some e => "ok " ++ encStr e
      | none => "err")
  | "fmtentries" =>
    let ids := ((g 1).splitOn ",").map strTok
    let owners := ((g 2).splitOn ",").map strTok
    -- the answer of each chain: the owner given with the first NFT that names the chain
    let table : List (Str × Str) := (ids.zip owners).foldl (fun acc p => match parseNftId p.1 with
      | some n => if alHas acc n.chain then acc else acc ++ [(n.chain, p.2)]
      | none => acc) []
    let es := ids.map (fun id => match parseNftId id with
      | some n => feederEntry id ((alGet table n.chain).getD [])
      | none => none)
    (c, if es.all (·.isSome) then "ok " ++ ",".intercalate (es.map (fun e => encStr (e.getD []))) else "err")
  | "calcfees" =>
    let q := (decTok (g 1)).toNat
    let fees := parseCoins (g 2)
    (c, "ok gas=" ++ coinsStr (fees.map (fun x => (x.1, collectorPart q x.2))) ++ " oracle=" ++ coinsStr (fees.map (fun x => (x.1, oraclePart q x.2))))
  | "roundstart" => (c, "ok " ++ toString (roundStart (natTok (g 1)) (natTok (g 2))))
  | "voteperiod" => (c, "ok " ++ toString (prevoteEnd (natTok (g 1)) (natTok (g 2))) ++ " " ++ toString (voteEnd (natTok (g 1)) (natTok (g 2))))
  | "utxrkey" => (c, "ok " ++ String.ofList (bytesHex ([Facts.utxrPrefix] ++ be8 (natTok (g 1)) ++ be8 (natTok (g 2)))))
  | "reqkey" => (c, "ok " ++ String.ofList (bytesHex ([Facts.utxrRequestIdPrefix] ++ be8 (natTok (g 1)) ++ (strTok (g 2)).map (fun ch => ch.toNat % 256))))
  | "oparams" => (c, if oparamsValid (natTok (g 1)) (decTok (g 2)) (decTok (g 3)) (natTok (g 4)) (natTok (g 5)) then "ok" else "err")
  | "sparams" => (c, if sparamsValid (one18 : Nat) (if g 1 == "-" then [] else ((g 1).splitOn ",").map strTok) then "ok" else "err")
  | "cnew" => ({ cap := (natTok (g 1) : Int), items := [] }, "ok")
  | "cput" => (c.put (strTok (g 1)) ((intTok (g 2)).getD 0) (natTok (g 3)), "ok")
  | "cget" => (c, match c.get (natTok (g 1)) with
      | some b => if b.hash.isEmpty && b.number == 0 then "miss" else "ok " ++ encStr b.hash ++ " " ++ toString b.number
      | none => "miss")
  | _ => (c, "bad-op")

partial def pureLoop (stdin : IO.FS.Stream) (c : Cache) : IO Unit := do
  let line ← stdin.getLine
  if line.isEmpty then return ()
  let l := line.trimAscii.toString
  if l.isEmpty || l.startsWith "#" then pureLoop stdin c
  else
    let r := pureStep c l
    IO.println ("> " ++ l)
    IO.println ("< " ++ r.2)
    pureLoop stdin r.1

/-! ### ante mode -/

def kindOfName : String → Kind
  | "prevote" => .prevote | "vote" => .vote | "consent" => .consent
  | "createtenant" => .createTenant | "createtenantmc" => .createTenantMc | "deposit" => .deposit | "record" => .record
  | "cancel" => .cancel | "addadmin" => .addAdmin | "rmadmin" => .removeAdmin | "setperiod" => .setPeriod
  | "send" => .send | "exec" => .exec | "grant" => .grant | "createval" => .createVal | "delegate" => .delegate
  | "ethtx" => .ethTx | _ => .vesting

instance : Inhabited Msg := ⟨.createVal "bad"⟩

/-- recursive-descent parser of message expressions: name(arg~arg~[msg|msg]) -/
partial def parseMsgs (cs : List Char) : List Msg × List Char :=
  match cs with
  | [] => ([], [])
  | ']' :: _ => ([], cs)
  | _ =>
    let (m, rest) := parseMsg cs
    let rest := match rest with
      | '|' :: r => r
      | r => r
    let (ms, rest2) := parseMsgs rest
    (m :: ms, rest2)
where
  parseMsg (cs : List Char) : Msg × List Char :=
    let name := String.ofList (cs.takeWhile (· != '('))
    let rest := (cs.dropWhile (· != '(')).drop 1
    let (args, inner, rest) := parseArgs rest [] []
    let a (i : Nat) : String := args.getD i ""
    let m : Msg := match name with
      | "prevote" => .op .prevote (.prevote (a 0) (a 1) (strTok (a 2)) (natTok (a 3)))
      | "vote" => .op .vote (.vote (a 0) (a 1) (strTok (a 2)) (natTok (a 3)) (parseVD (a 4)))
      | "consent" => .op .consent (.consent (a 0) (a 1))
      | "createtenant" => .op .createTenant (.createTenant (a 0) (strTok (a 1)) (natTok (a 2)) none)
      | "createtenantmc" => .op .createTenantMc (.createTenant (a 0) (strTok (a 1)) (natTok (a 2)) (some (strTok (a 3))))
      | "deposit" => .op .deposit (.deposit (a 0) (natTok (a 1)) (intTok (a 2)) (strTok (a 3)))
      | "record" => .op .record (.record (a 0) (natTok (a 1)) (strTok (a 2)) (intTok (a 3)) (strTok (a 4)) (strTok (a 5)) (strTok (a 6)) (strTok (a 7)))
      | "cancel" => .op .cancel (.cancel (a 0) (natTok (a 1)) (strTok (a 2)))
      | "addadmin" => .op .addAdmin (.addAdmin (a 0) (natTok (a 1)) (a 2))
      | "rmadmin" => .op .removeAdmin (.removeAdmin (a 0) (natTok (a 1)) (a 2))
      | "setperiod" => .op .setPeriod (.setPeriod (a 0) (natTok (a 1)) (natTok (a 2)))
      | "send" => .send (a 0) (a 1) ((intTok (a 2)).getD 0) (strTok (a 3))
      | "exec" => .exec (a 0) inner
      | "grant" => .grant (a 0) (a 1) (kindOfName (a 2))
      | "createval" => .createVal (a 0)
      | "delegate" => .delegate (a 0) (natTok ((a 1).drop 1).toString) ((intTok (a 2)).getD 0)
      | _ => .createVal "bad"
    (m, rest)
  parseArgs (cs : List Char) (args : List String) (inner : List Msg) : List String × List Msg × List Char :=
    match cs with
    | [] => (args, inner, [])
    | ')' :: r => (args, inner, r)
    | '~' :: r => parseArgs r args inner
    | '[' :: r =>
      let (ms, rest) := parseMsgs r
      parseArgs (rest.drop 1) args ms
    | _ =>
      let tok := cs.takeWhile (fun c => c != '~' && c != ')')
      parseArgs (cs.dropWhile (fun c => c != '~' && c != ')')) (args ++ [String.ofList tok]) inner

def parseTx (l : String) : Tx :=
  let f := (l.splitOn " ").filter (· != "")
  let kv (k : String) : String := match f.find? (fun t => t.startsWith (k ++ "=")) with
    | some t => (t.drop (k.length + 1)).toString
    | none => ""
  let msgs := (parseMsgs (kv "msgs").toList).1
  let payer := if kv "payer" == "-" || kv "payer" == "" then none else some (kv "payer")
  let fee := if kv "fee" == "-" then [] else (parseCoins (kv "fee"))
  let granter := if kv "granter" == "-" || kv "granter" == "" then none else some (kv "granter")
  let tx0 : Tx := { msgs := msgs, signers := [], payer := payer, fee := fee, gas := natTok (kv "gas"), granter := granter }
  let signers := if kv "signers" == "auto" then (requiredSigners tx0).getD []
    else ((kv "signers").splitOn ",").filterMap decodeAcc
  { tx0 with signers := signers }

def dumpAnte (a : AState) : List String :=
  let s := a.s
  let holders : List Holder := (List.range 10).map (fun i => Holder.acct (.a i)) ++ (List.range 5).map (fun i => Holder.acct (.o i)) ++
    s.st.tenants.map (fun t => treasuryName t.id) ++ [.pool, .collector]
  let denoms : List Str := ["uusdc".toList, "setl".toList]
  ["H " ++ toString s.h] ++ dumpModules s ++
  holders.flatMap (fun h => denoms.filterMap (fun d => if s.bank h d = 0 then none else some ("B " ++ holderName h ++ " " ++ encStr d ++ " " ++ toString (s.bank h d)))) ++
  ["SUP =uusdc " ++ toString (a.supply "uusdc".toList), "NV " ++ toString s.vals.length, "NG " ++ toString a.grants.length]

/-- a real block: end-blockers, then the next block's begin-blocker sweeps the fee collector into distribution -/
def realBlock (a : AState) : AState × StepRes :=
  let r := blockStep a.s
  let s' := { r.st with bank := fun h d => if h = Holder.collector then 0 else r.st.bank h d }
  ({ a with s := s' }, r)

def anteInit (pr : Nat) (cr : Bool) : AState :=
  let s0 := initState pr cr
  let funded : Bank := fun h d => if d = "uusdc".toList && (match h with
    | .acct (.a i) => decide (i < 10)
    | .acct (.o i) => decide (i < 5)
    | _ => false) then 1000000000000000 else 0
  let a0 : AState := { s := { s0 with bank := funded }, grants := [], supply := fun d => if d = "uusdc".toList then 16000000000000000 else 0, prices := Facts.defaultGasPrices }
  a0

partial def anteLoop (stdin : IO.FS.Stream) (a : AState) : IO Unit := do
  let line ← stdin.getLine
  if line.isEmpty then return ()
  let l := line.trimAscii.toString
  if l.isEmpty || l.startsWith "#" then anteLoop stdin a
  else
    IO.println ("> " ++ l)
    if l.startsWith "tx " then
      let tx := parseTx l
      let r := deliverTx sha a tx
      IO.println ("< " ++ (if r.ok then "ok" ++ (match r.gasUsed with | some g => " gas=" ++ toString g | none => "") else "err"))
      for d in dumpAnte r.a do
        IO.println ("| " ++ d)
      anteLoop stdin r.a
    else if l.startsWith "sim " then
      -- a simulated transaction (gas estimation): no trace
      IO.println "< done"
      for d in dumpAnte a do
        IO.println ("| " ++ d)
      anteLoop stdin a
    else if l == "genesis" then
      -- the application exported and a fresh one initialised from the document: the two modules' part of it
      match importG a.s (jsonG (exportG a.s)) with
      | none =>
        IO.println "< panic"
        for d in dumpAnte a do
          IO.println ("| " ++ d)
        anteLoop stdin a
      | some s2 =>
        let same := dumpGenesis (exportG s2) == dumpGenesis (exportG a.s)
        IO.println ("< ok " ++ (if same then "same" else "differs"))
        for d in dumpModules s2 do
          IO.println ("| " ++ d)
        anteLoop stdin a
    else if l == "block" then
      let hb := a.s.h
      let (a', r) := realBlock a
      IO.println ("< " ++ (match r.out with
        | .panic => "panic"
        | _ => "ok h=" ++ toString hb ++ " settled=" ++ joinOrDash (r.settled.map pairStr) ++ " dropped=" ++ joinOrDash (r.dropped.map pairStr) ++
            " filled=" ++ joinOrDash (r.filled.map filledStr) ++ " inv=ok"))
      for d in dumpAnte a' do
        IO.println ("| " ++ d)
      anteLoop stdin a'
    else if l.startsWith "jail " then
      -- the staking module jails a validator: not bonded, jailed, tokens as they are (a history item of the application-level engine)
      let i := natTok (((l.drop 5).trimAscii.toString).drop 1).toString
      match getVal a.s.vals i with
      | some v =>
        if v.jailed then
          IO.println "< err"
          for d in dumpAnte a do
            IO.println ("| " ++ d)
          anteLoop stdin a
        else
          let a' : AState := { a with s := { a.s with vals := a.s.vals.set i { v with bonded := false, jailed := true } } }
          IO.println "< ok"
          for d in dumpAnte a' do
            IO.println ("| " ++ d)
          anteLoop stdin a'
      | none =>
        IO.println "< err"
        for d in dumpAnte a do
          IO.println ("| " ++ d)
        anteLoop stdin a
    else if l.startsWith "setprices " then
      -- governance sets the settlement gas prices: "denom:price,denom:price"; the list is stored as given, and the first configured
      -- denomination is the first one listed
      let raw := (((l.drop 10).trimAscii.toString.splitOn ",").filter (fun x => x != "" && x != "-")).map (fun p =>
        let kv := p.splitOn ":"
        let d := kv.getD 0 ""
        ((if d.startsWith "=" then (d.drop 1).toString else d).toList, decTok (kv.getD 1 "0")))
      if !pricesValid raw then
        -- the parameter's validator refuses the proposal: nothing changes
        IO.println "< err"
        for d in dumpAnte a do
          IO.println ("| " ++ d)
        anteLoop stdin a
      else
      let ps := raw.map (fun p => (p.1, p.2.toNat))
      -- an empty list ("-") is stored as such; whoever reads the parameters then gets the default prices in its place - and the
      -- other parameters as they are stored
      let a' : AState := { a with prices := if ps.isEmpty || l.trimAscii.toString == "setprices -" then Facts.defaultGasPrices else ps }
      IO.println "< ok"
      for d in dumpAnte a' do
        IO.println ("| " ++ d)
      anteLoop stdin a'
    else match parseOp l with
      | none =>
        IO.println "< bad-op"
        anteLoop stdin a
      | some op =>
        let r := step sha a.s op
        let a' : AState := { a with s := r.st, supply := match op, r.out with
          | .fund _ amt d, .ok _ => fupd a.supply d (a.supply d + amt.toNat)
          | .fundPool amt d, .ok _ => fupd a.supply d (a.supply d + amt.toNat)
          | _, _ => a.supply }
        IO.println ("< " ++ resultLine op a.s.h r)
        for d in dumpAnte a' do
          IO.println ("| " ++ d)
        anteLoop stdin a'

def main (args : List String) : IO Unit := do
  let stdin ← IO.getStdin
  match args with
  | ["chain", pr, cr] =>
    let s := initState (natTok pr) (cr == "1")
    for d in dumpChain s [] ++ dumpQueries s [] do
      IO.println ("| " ++ d)
    chainLoop stdin s [] []
  | ["pure"] => pureLoop stdin { cap := 0, items := [] }
  | ["ante"] =>
    let a := anteInit 1000000 true
    for d in dumpAnte a do
      IO.println ("| " ++ d)
    anteLoop stdin a
  | _ => IO.eprintln "usage: drv chain <powerReduction> <constantPower> | pure | ante"
