"""Regenerates the facts from /repo, rebuilds the property's Lean modules and audits the axioms."""
import json, os, re, subprocess, time

TRUSTED = [
    "Lean 4.33.0 kernel (lake build; thorough tier re-checks with leanchecker)",
    "axioms: propext, Classical.choice, Quot.sound only",
    "fact extractor harness/cmd/extract (go/ast + go/types over /repo's working tree) and its expression translator",
    "correspondence harness (harness/cmd/vharness) and its canonicaliser and generators",
    "Lean compiler for the driver executable (its output is compared with the real code)",
]

def run(pid, tier, ROOT, REPO, CACHE, skip=False):
    res = {"obligations": 0, "discharged": 0, "theorems": [], "axioms": [], "problems": [], "checker_cmd": "lake build SettlusModel.Properties.%s SettlusModel.Audit.%s" % (pid, pid),
           "trusted_base": TRUSTED, "facts": {}}
    if skip:
        return res
    import leanimpl
    return leanimpl.run(pid, tier, ROOT, REPO, CACHE, res)
