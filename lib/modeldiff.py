"""Runs the Lean driver on every operation file the engines produced and compares transcripts."""
import glob, os, subprocess

def run(stats, ROOT, CACHE, pid, skip=False):
    res = {"compared_histories": 0, "compared_lines": 0, "problems": []}
    if skip:
        return res
    import modelimpl
    return modelimpl.run(stats, ROOT, CACHE, pid, res)
