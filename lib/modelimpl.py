def run(stats, ROOT, CACHE, pid, res):
    return res
