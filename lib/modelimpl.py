"""Runs the Lean driver on the operation files the engines wrote and compares its transcript with the
implementation's, line by line. A divergence is a broken correspondence (not by itself a violation)."""
import glob, os, subprocess, concurrent.futures

def drv_path(ROOT):
    return os.path.join(ROOT, "lean", ".lake", "build", "bin", "drv")

def one(drv, mode, ops_file):
    base = ops_file[:-4]
    impl = base + ".impl"
    if not os.path.exists(impl):
        return None
    args = [drv, mode]
    if mode == "chain":
        # the power parameters are read from the implementation's first dump line
        pr, cr = "1000000", "1"
        with open(impl) as f:
            for l in f:
                if l.startswith("| H "):
                    for tok in l.split():
                        if tok.startswith("pr="):
                            pr = tok[3:]
                        if tok.startswith("cr="):
                            cr = tok[3:]
                    break
        args += [pr, cr]
    with open(ops_file) as fin, open(base + ".model", "w") as fout:
        r = subprocess.run(args, stdin=fin, stdout=fout, stderr=subprocess.PIPE, text=True, timeout=600)
    if r.returncode != 0:
        return (ops_file, 0, "driver failed: " + r.stderr[-500:])
    a = [l.rstrip("\n") for l in open(impl, errors="replace") if not l.startswith("# ")]
    b = [l.rstrip("\n") for l in open(base + ".model")]
    n = 0
    for x, y in zip(a, b):
        if x != y:
            # locate the operation
            op = ""
            for k in range(n, -1, -1):
                if a[k].startswith("> "):
                    op = a[k]
                    break
            return (ops_file, n, "line %d after %s\n  implementation: %s\n  model:          %s" % (n + 1, op, x, y))
        n += 1
    if len(a) != len(b):
        return (ops_file, n, "transcripts have different lengths (%d vs %d)" % (len(a), len(b)))
    if "-thorough" in ops_file:
        # the thorough tier writes tens of gigabytes of transcripts: a pair that agrees is not kept (the .ops file regenerates it)
        for ext in (".impl", ".model"):
            try:
                os.remove(base + ext)
            except OSError:
                pass
    return (ops_file, n, None)

def run(stats, ROOT, CACHE, pid, res):
    drv = drv_path(ROOT)
    if not os.path.exists(drv):
        res["problems"].append(("model-driver", "the Lean driver executable is missing (lake build failed?)"))
        return res
    jobs = []
    for st in stats:
        wd = st.get("workdir")
        if not wd:
            continue
        eng = st.get("engine")
        for f in sorted(glob.glob(os.path.join(wd, "*.ops"))):
            if os.path.basename(f).startswith("shrink"):
                continue
            mode = eng
            if eng == "corpus":
                head = open(f).readline()
                mode = "chain"
                if "engine=" in head:
                    mode = head.split("engine=")[1].split()[0]
            if mode in ("chain", "ante", "pure"):
                jobs.append((mode, f))
    with concurrent.futures.ThreadPoolExecutor(max_workers=12) as ex:
        outs = list(ex.map(lambda j: one(drv, j[0], j[1]), jobs))
    div = []
    for o in outs:
        if o is None:
            continue
        f, n, msg = o
        res["compared_histories"] += 1
        res["compared_lines"] += n
        if msg:
            div.append((f, msg))
    if div:
        txt = "\n".join("%s: %s" % d for d in div[:5])
        res["problems"].append(("correspondence", "model and implementation disagree on %d of %d histories; first:\n%s" % (len(div), len(outs), txt)))
        res["divergent"] = [d[0] for d in div]
    return res
