"""Proof step of a check: regenerate facts, rebuild the property's Lean module and the driver, audit axioms."""
import glob, json, os, re, subprocess, time

ALLOWED = {"propext", "Classical.choice", "Quot.sound"}
FORBIDDEN = re.compile(r"\bsorry\b|\badmit\b|^\s*axiom\s|native_decide|bv_decide|implemented_by|\bunsafe\s|maxHeartbeats\s+0")

def sh(cmd, cwd=None, timeout=3000):
    r = subprocess.run(cmd, cwd=cwd, stdout=subprocess.PIPE, stderr=subprocess.STDOUT, text=True, timeout=timeout)
    return r.returncode, r.stdout

def strip_comments(src):
    src = re.sub(r"/-.*?-/", "", src, flags=re.S)
    return "\n".join(l.split("--")[0] for l in src.splitlines())

def theorems_of(path, pid):
    src = strip_comments(open(path).read())
    names = re.findall(r"^\s*theorem\s+([A-Za-z0-9_'.]+)", src, flags=re.M)
    return ["Settlus.%s.%s" % (pid, n) for n in names]

def run(pid, tier, ROOT, REPO, CACHE, res):
    import fcntl
    lean = os.path.join(ROOT, "lean")
    lock = open(os.path.join(CACHE, "lean.lock"), "w")
    fcntl.flock(lock, fcntl.LOCK_EX)
    try:
        # 1. regenerate the facts from /repo's working tree
        gen = os.path.join(lean, "SettlusModel", "Generated")
        rc, out = sh([os.path.join(CACHE, "extract"), "-repo", REPO, "-out", gen], timeout=900)
        if rc != 0:
            res["problems"].append(("facts", "the fact extractor no longer recognises the source:\n" + out[-3000:]))
        try:
            fj = json.load(open(os.path.join(gen, "facts.json")))
            res["facts"] = {k: (len(v) if isinstance(v, list) else v) for k, v in fj.items()}
        except Exception:
            pass
        # 2. prove: the property module, its dependencies, and the driver
        prop = os.path.join(lean, "SettlusModel", "Properties", pid + ".lean")
        if not os.path.exists(prop):
            res["problems"].append(("proof", "no property module for " + pid))
            return res
        if tier == "thorough":
            # rebuild the property module from clean
            for ext in ("olean", "ilean", "c", "trace", "hash"):
                for f in glob.glob(os.path.join(lean, ".lake", "build", "**", "Properties", pid + "." + ext), recursive=True):
                    os.remove(f)
        rc, out = sh(["lake", "build", "SettlusModel.Properties." + pid, "drv"], cwd=lean, timeout=3000)
        thms = theorems_of(prop, pid)
        res["theorems"] = thms
        res["obligations"] = len(thms)
        if rc != 0:
            errs = "\n".join(l for l in out.splitlines() if "error" in l.lower() or l.startswith("  "))[-3000:]
            res["problems"].append(("proof", "lake build SettlusModel.Properties.%s failed:\n%s" % (pid, errs)))
            return res
        # 3. audit
        ad = os.path.join(CACHE, "audit")
        os.makedirs(ad, exist_ok=True)
        af = os.path.join(ad, pid + ".lean")
        with open(af, "w") as f:
            f.write("import SettlusModel.Properties.%s\n" % pid)
            for t in thms:
                f.write("#print axioms %s\n" % t)
        rc, out = sh(["lake", "env", "lean", af], cwd=lean, timeout=900)
        axioms = set()
        ok = 0
        for t in thms:
            m = re.search(r"'%s' (depends on axioms: \[([^\]]*)\]|does not depend on any axioms)" % re.escape(t), out.replace("\n", " "))
            if not m:
                res["problems"].append(("audit", "no axiom report for " + t + ":\n" + out[-1500:]))
                continue
            used = set(x.strip() for x in (m.group(2) or "").split(",") if x.strip())
            axioms |= used
            if used - ALLOWED:
                res["problems"].append(("audit", "%s depends on axioms outside the allowed set: %s" % (t, sorted(used - ALLOWED))))
            else:
                ok += 1
        res["discharged"] = ok
        res["axioms"] = sorted(axioms)
        # 4. source scan
        bad = []
        for f in glob.glob(os.path.join(lean, "SettlusModel", "**", "*.lean"), recursive=True) + [os.path.join(lean, "Driver.lean")]:
            for i, l in enumerate(strip_comments(open(f).read()).splitlines()):
                if FORBIDDEN.search(l):
                    bad.append("%s:%d: %s" % (os.path.relpath(f, lean), i + 1, l.strip()))
        if bad:
            res["problems"].append(("audit", "forbidden constructs in the Lean sources:\n" + "\n".join(bad[:20])))
            res["discharged"] = 0
        # 5. independent re-check (thorough)
        if tier == "thorough":
            rc, out = sh(["lake", "env", "leanchecker", "SettlusModel.Properties." + pid], cwd=lean, timeout=3000)
            res["leanchecker"] = "ok" if rc == 0 else out[-800:]
            if rc != 0:
                res["problems"].append(("audit", "leanchecker rejects the compiled module:\n" + out[-1500:]))
        res["checker_cmd"] = "cd lean && lake build SettlusModel.Properties.%s && lake env lean <#print axioms of every theorem>%s" % (pid, " && lake env leanchecker SettlusModel.Properties.%s" % pid if tier == "thorough" else "")
    finally:
        fcntl.flock(lock, fcntl.LOCK_UN)
        lock.close()
    return res
