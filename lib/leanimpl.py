def run(pid, tier, ROOT, REPO, CACHE, res):
    return res
