"""Per-property configuration of the check: which engines run, with which generator profile and how many
histories (quick, thorough), what makes a case non-trivial, and what is assumed."""

def chain(profile, q, t, **kw):
    return dict(engine="chain", profile=profile, n=(q, t), **kw)

def ante(q, t, **kw):
    return dict(engine="ante", n=(q, t), **kw)

def pure(q, t, **kw):
    return dict(engine="pure", n=(q, t), **kw)

CORPUS = dict(engine="corpus", n=(1, 1))

NONTRIVIAL = ("seeded, structured histories from the repo's own message types plus a malformed stream (harness/internal/gen); "
              "a history counts as distinct when its canonical transcript differs and as non-trivial when it contains at least one accepted "
              "state-changing message and at least one block; property_branches shows how often the property's own branches were reached")

BASE_ASSUME = [
    "Lean 4 kernel; axioms limited to propext, Classical.choice, Quot.sound (audited by #print axioms on every run)",
    "the hand-written Lean model corresponds to /repo only as far as the correspondence engines and the regenerated facts reach",
    "cosmos-sdk bank/auth/staking/distribution/authz, baseapp atomicity and signature checks, IAVL ordering, Evmos decorators are modelled at their interface, not verified",
]

PROPS = {
 "C01": dict(jobs=[CORPUS, chain("settle", 40, 600), chain("fault", 30, 400), chain("mixed", 10, 200)], rule=NONTRIVIAL,
             assumptions=BASE_ASSUME + ["ERC-20 conversion and contract mint are stub backends in the harness; the debit-equality clause is proved for the native bank path"]),
 "C02": dict(jobs=[CORPUS, chain("settle", 50, 800), chain("admin", 15, 200)], rule=NONTRIVIAL, assumptions=BASE_ASSUME),
 "C03": dict(jobs=[CORPUS, ante(40, 600)], rule=NONTRIVIAL + "; transactions are signed and delivered through the real DeliverTx",
             assumptions=BASE_ASSUME + ["signature verification and authz dispatch are modelled"]),
 "C04": dict(jobs=[CORPUS, ante(40, 600)], rule=NONTRIVIAL + "; transactions are signed and delivered through the real DeliverTx",
             assumptions=BASE_ASSUME + ["governance execution is outside the statement; no other message-executing module is wired into the app (extractor checks the module list)"]),
 "C05": dict(jobs=[CORPUS, chain("oracle", 50, 800), chain("mixed", 10, 200), chain("settle", 15, 300), chain("oracle", 15, 300, cr=0)], rule=NONTRIVIAL, assumptions=BASE_ASSUME),
 "C06": dict(jobs=[CORPUS, chain("malformed", 40, 600), chain("mixed", 15, 300), chain("fault", 15, 300), ante(10, 150), pure(1500, 30000)], rule=NONTRIVIAL,
             assumptions=BASE_ASSUME + ["panics inside dependencies on inputs satisfying their documented preconditions are outside the model"]),
 "C07": dict(jobs=[CORPUS, chain("settle", 30, 400, twin=True), chain("oracle", 25, 400, twin=True), ante(6, 100, twin=True)],
             rule=NONTRIVIAL + "; every history is executed twice on fresh applications and the transcripts (and app hashes in the ante engine) compared",
             assumptions=BASE_ASSUME + ["goroutine timing and allocation addresses inside dependencies are not expressible in the model; the twin run is the only evidence there"]),
 "C08": dict(jobs=[CORPUS, chain("oracle", 50, 800), chain("mixed", 10, 200), pure(800, 20000)], rule=NONTRIVIAL,
             assumptions=BASE_ASSUME + ["each theorem fixes the vote period over the history; parameter changes in mid-round are outside the statement"]),
 "C09": dict(jobs=[CORPUS, chain("admin", 40, 600), chain("settle", 20, 300), ante(10, 150)], rule=NONTRIVIAL, assumptions=BASE_ASSUME),
 "C10": dict(jobs=[CORPUS, chain("settle", 40, 600), chain("oracle", 25, 400), ante(6, 100)], rule=NONTRIVIAL,
             assumptions=BASE_ASSUME + ["ERC-721 ownerOf is a parameter of the model; the harness answers it from a table"]),
 "C11": dict(jobs=[CORPUS, chain("fault", 50, 800), chain("settle", 20, 300)], rule=NONTRIVIAL + "; fault histories fail the k-th backend call of a block",
             assumptions=BASE_ASSUME + ["real ERC-20 internals are replaced by a stub that fails at the injected position"]),
 "C12": dict(jobs=[CORPUS, chain("settle", 40, 600), chain("admin", 15, 200), pure(600, 15000)], rule=NONTRIVIAL, assumptions=BASE_ASSUME),
 "C13": dict(jobs=[CORPUS, chain("isolate", 25, 400, isolate=True), chain("fault", 10, 200), ante(8, 120, isolate=True)],
             rule=NONTRIVIAL + "; every history is re-executed once per tenant with the other tenants' activity removed and the tenant's projection compared",
             assumptions=BASE_ASSUME + ["treasury addresses of distinct tenants are assumed distinct (truncated SHA-256)"]),
 "C14": dict(jobs=[CORPUS, chain("oracle", 40, 600), chain("settle", 15, 300), ante(15, 250), chain("oracle", 25, 400, cr=0)], rule=NONTRIVIAL + "; the ante engine evaluates every invariant registered with the crisis keeper after each real block",
             assumptions=BASE_ASSUME + ["the SDK modules' own invariants are evaluated at run time, not modelled"]),
 "C15": dict(jobs=[CORPUS, chain("oracle", 60, 900), chain("mixed", 10, 200), chain("oracle", 15, 300, cr=0)], rule=NONTRIVIAL, assumptions=BASE_ASSUME),
 "C16": dict(jobs=[CORPUS, ante(40, 600), pure(800, 20000)], rule=NONTRIVIAL, assumptions=BASE_ASSUME + ["sdk.NormalizeDecCoin is the identity for denominations without a registered unit"]),
 "C17": dict(jobs=[CORPUS, chain("genesis", 40, 600), ante(8, 120)], rule=NONTRIVIAL + "; every history ends with an export -> JSON -> import -> export round trip, and about one step in six is followed by one in mid-history; the ante engine exports the whole application (app/export.go) from committed state and starts a fresh application from the document",
             assumptions=BASE_ASSUME + ["of the JSON codec only the treatment of free-form strings (request ids, prevote hashes) is modelled (jsonStr); bech32 and hex codecs are exercised, not modelled"]),
 "C18": dict(jobs=[CORPUS, pure(1500, 30000), chain("oracle", 15, 300)], rule=NONTRIVIAL, assumptions=BASE_ASSUME + ["SHA-256 enters the theorems as an arbitrary function"]),
 "C19": dict(jobs=[CORPUS, pure(1500, 30000), chain("settle", 25, 400)], rule=NONTRIVIAL, assumptions=BASE_ASSUME + ["EIP-55 checksum casing is canonicalised away (a bijection on the lower-case form)"]),
 "C20": dict(jobs=[CORPUS, pure(2000, 40000), chain("settle", 10, 150), dict(engine="cacherace", n=(20000, 200000))], rule=NONTRIVIAL + "; one writer and four readers run under the Go race detector",
             assumptions=BASE_ASSUME + ["data-race freedom is a property of the Go memory model: covered by the lock-discipline fact and the race detector, not by a theorem"]),
}
