#!/bin/bash
# tools/sweepseeds.sh <workers> <seed>... : every quick check on the unchanged tree under each of the given VERIF_SEED values, <workers> at a
# time, each worker in its own copy of /verif and worktree of /repo (so nothing here or in /repo is touched). Prints every run that is not OK.
N=${1:-4}; shift
SEEDS="$@"
cd /verif
jobs=$(for s in $SEEDS; do for i in 01 02 03 04 05 06 07 08 09 10 11 12 13 14 15 16 17 18 19 20; do echo "$s C$i"; done; done)
for i in $(seq 1 $N); do
  rm -rf /tmp/ss$i; mkdir -p /tmp/ss$i
  git -C /repo worktree add --detach /tmp/ss$i/repo HEAD > /dev/null 2>&1
  rsync -a --exclude .cache/run --exclude .git --exclude seeded /verif/ /tmp/ss$i/verif/
  sed -i "s#replace github.com/settlus/chain => /repo#replace github.com/settlus/chain => /tmp/ss$i/repo#" /tmp/ss$i/verif/harness/go.mod
done
worker() {
  i=$1
  echo "$jobs" | awk -v n=$N -v k=$i 'NR % n == k % n' | while read s id; do
    out=$(cd /tmp/ss$i/verif && VERIF_SEED=$s VERIF_REPO=/tmp/ss$i/repo ./check $id --tier quick 2>&1 | grep -v KNOWN-FINDING | tail -1 | cut -c1-220)
    case "$out" in OK*) echo "seed=$s $id ok";; *) echo "seed=$s $id NOT-OK: $out"; cp /tmp/ss$i/verif/replays/$id-*.replay /tmp/sweep-fail-$s-$id.replay 2>/dev/null;; esac
  done
}
for i in $(seq 1 $N); do worker $i & done
wait
for i in $(seq 1 $N); do git -C /repo worktree remove --force /tmp/ss$i/repo 2>/dev/null; rm -rf /tmp/ss$i; done
echo SWEEPDONE
