#!/bin/bash
# tools/seedpar.sh <workers> [name-pattern] : runs every seeded mutation against its own property's quick check, <workers> at a time. Each worker has its own
# worktree of /repo (/tmp/sw<i>/repo) and its own copy of /verif (/tmp/sw<i>/verif, harness go.mod pointed at that worktree), so /repo itself
# is never touched. Results go to /verif/seeded/<ID>/m<i>/checks.json. The copies are removed at the end.
N=${1:-4}
PAT=${2:-m}   # optional: only seeds whose "ID mN" line matches this extended regular expression (e.g. m7, or "C15 m7|C03 m7")
cd /verif
seeds=$(for d in seeded/*/m*; do [ -f $d/patch.diff ] && echo "$(echo $d | cut -d/ -f2) $(echo $d | cut -d/ -f3)"; done | grep -E "$PAT")
for i in $(seq 1 $N); do
  rm -rf /tmp/sw$i; mkdir -p /tmp/sw$i
  git -C /repo worktree add --detach /tmp/sw$i/repo HEAD > /dev/null 2>&1
  rsync -a --exclude .cache/run --exclude .git --exclude seeded /verif/ /tmp/sw$i/verif/
  sed -i "s#replace github.com/settlus/chain => /repo#replace github.com/settlus/chain => /tmp/sw$i/repo#" /tmp/sw$i/verif/harness/go.mod
done
worker() {
  i=$1
  echo "$seeds" | awk -v n=$N -v k=$i 'NR % n == k % n' | while read id m; do
    rm -f seeded/$id/$m/checks.json
    git -C /tmp/sw$i/repo checkout -- . 2>/dev/null
    SEED_REPO=/tmp/sw$i/repo SEED_VERIF=/tmp/sw$i/verif tools/seed.py run $id $m $id | cut -c1-300
  done
}
for i in $(seq 1 $N); do worker $i & done
wait
for i in $(seq 1 $N); do git -C /repo worktree remove --force /tmp/sw$i/repo 2>/dev/null; rm -rf /tmp/sw$i; done
echo PARDONE
