#!/usr/bin/env python3
"""Prints the markdown table of seeded mutations: what each changes, whether my re-run confirmed it, which check caught it."""
import json, os, glob
rows = []
for d in sorted(glob.glob('/verif/seeded/*/m*')):
    pid, m = d.split('/')[-2:]
    meta = json.load(open(d + '/meta.json')) if os.path.exists(d + '/meta.json') else {}
    conf = json.load(open(d + '/confirm.json')) if os.path.exists(d + '/confirm.json') else {}
    chk = json.load(open(d + '/checks.json')) if os.path.exists(d + '/checks.json') else {}
    caught = []
    for cid, r in chk.items():
        if r['rc'] != 0:
            keys = []
            for l in r['lines']:
                if 'replay=' in l:
                    k = l.split('replay=')[1].split()[0].split('/')[-1].replace('.replay', '')
                    if 'no-failing-input-found' in l: k += ' (no-failing-input-found)'
                    keys.append(k)
            caught.append('%s: %s' % (cid, ', '.join(keys)))
    missed = [cid for cid, r in chk.items() if r['rc'] == 0]
    summ = (meta.get('summary') or '').replace('|', '/').replace('\n', ' ')
    if len(summ) > 230: summ = summ[:227] + '...'
    files = ', '.join(os.path.basename(f) for f in (meta.get('files') or []))
    rows.append('| %s/%s | %s | %s | %s | %s | %s |' % (pid, m, files, summ, 'yes' if conf.get('confirmed') else ('no' if conf else '-'),
                                                      '; '.join(caught) or '-', ', '.join(missed) or '-'))
print('| seed | files | change | demo confirmed | caught by (replay keys) | passed (missed) |')
print('|---|---|---|---|---|---|')
print('\n'.join(rows))
