#!/usr/bin/env python3
"""Seeded-mutation bookkeeping.
  seed.py import <ID> [dir]      copy <dir>/m* (default /tmp/seed-<ID>) into /verif/seeded/<ID>/
  seed.py confirm <ID> <m>       re-run the demonstration in a scratch worktree (original: pass, mutant: fail)
  seed.py run <ID> <m> [ids...]  apply the patch to /repo, run ./check for the property (and any further ids), undo, record result
"""
import json, os, re, shutil, subprocess, sys, time
ENV = dict(os.environ, GOFLAGS='-mod=mod', GOPROXY='off', GOSUMDB='off', GOTOOLCHAIN='local', DBUS_SESSION_BUS_ADDRESS='unix:path=/nonexistent')
ROOT = '/verif/seeded'
# a worker may run against its own copies (tools/seedpar.sh): SEED_REPO is a worktree of /repo, SEED_VERIF a copy of /verif whose harness
# go.mod replaces github.com/settlus/chain with that worktree; results always go to /verif/seeded
REPO = os.environ.get('SEED_REPO', '/repo')
VERIF = os.environ.get('SEED_VERIF', '/verif')

def sh(cmd, cwd=None, timeout=3600):
    p = subprocess.run(cmd, shell=True, cwd=cwd, env=ENV, stdout=subprocess.PIPE, stderr=subprocess.STDOUT, text=True, timeout=timeout)
    return p.returncode, p.stdout

def imp(pid, src=None):
    src = src or f'/tmp/seed-{pid}'
    for m in sorted(os.listdir(src)):
        if not os.path.isdir(f'{src}/{m}'): continue
        dst = f'{ROOT}/{pid}/{m}'
        os.makedirs(dst, exist_ok=True)
        for f in os.listdir(f'{src}/{m}'):
            if os.path.isfile(f'{src}/{m}/{f}') and os.path.getsize(f'{src}/{m}/{f}') < 400000:
                shutil.copy(f'{src}/{m}/{f}', dst)
        print('imported', dst)

def demo_files(d):
    out = []
    for f in sorted(os.listdir(d)):
        if f.endswith('.go.txt'):
            txt = open(f'{d}/{f}').read()
            m = re.search(r'place in\s+([\w./\-]+)', txt)
            if m: out.append((f, m.group(1).strip().rstrip('/'), txt))
    return out

def confirm(pid, m):
    d = f'{ROOT}/{pid}/{m}'
    wt = f'/tmp/wtc-{pid}-{m}'
    sh(f'git -C /repo worktree remove --force {wt}')
    rc, o = sh(f'git -C /repo worktree add --detach {wt} HEAD')
    res = {}
    try:
        demos = demo_files(d)
        if not demos:
            res = dict(error='no demo test with a "place in" line'); return res
        for stage in ('original', 'mutant'):
            if stage == 'mutant':
                rc, o = sh(f'git apply {d}/patch.diff', cwd=wt)
                if rc != 0: res['apply_error'] = o[-2000:]; break
            oks = []
            for i, (f, pkg, txt) in enumerate(demos):
                names = re.findall(r'^func (Test\w+)', txt, re.M)
                tgt = f'{wt}/{pkg}/zz_seed_demo{i}_test.go'
                open(tgt, 'w').write(txt)
                pat = '|'.join(f'^{n}$' for n in names) or '.'
                rc, o = sh(f"go test -vet=off -count=1 -run '{pat}' ./{pkg}/", cwd=wt, timeout=1800)
                oks.append(rc == 0)
                res[f'{stage}_{f}'] = dict(rc=rc, tail=o[-1500:])
            res[f'{stage}_all_pass'] = all(oks)
            res[f'{stage}_any_fail'] = not all(oks)
        res['confirmed'] = bool(res.get('original_all_pass')) and bool(res.get('mutant_any_fail'))
    finally:
        sh(f'git -C /repo worktree remove --force {wt}')
        json.dump(res, open(f'{d}/confirm.json', 'w'), indent=1)
    return res

def run(pid, m, ids):
    d = f'{ROOT}/{pid}/{m}'
    rc, o = sh(f'git -C {REPO} status --porcelain')
    if o.strip(): print('refusing: /repo is dirty:\n' + o); sys.exit(2)
    rc, o = sh(f'git -C {REPO} apply {d}/patch.diff')
    if rc != 0: print('apply failed', o); sys.exit(2)
    results = {}
    # a run against a mutated tree must not leave its evidence behind: evidence files describe the unchanged tree
    saved = {}
    for cid in ids:
        ev = f'{VERIF}/evidence/{cid}.json'
        if os.path.exists(ev):
            saved[ev] = open(ev).read()
    try:
        for cid in ids:
            t0 = time.time()
            rc, o = sh(f'VERIF_REPO={REPO} ./check {cid} --tier quick', cwd=VERIF, timeout=7200)
            lines = [l for l in o.splitlines() if l.startswith(('VIOLATION', 'OK ', 'KNOWN-FINDING', 'ERROR'))]
            results[cid] = dict(rc=rc, lines=lines[:8], wall=round(time.time() - t0, 1))
            # keep the replay next to the seed
            for l in lines:
                mm = re.search(r'replay=(\S+)', l)
                if mm and os.path.exists(VERIF + '/' + mm.group(1)) or (mm and os.path.exists(mm.group(1))):
                    pth = mm.group(1) if os.path.isabs(mm.group(1)) else VERIF + '/' + mm.group(1)
                    shutil.copy(pth, f'{d}/caught-by-{cid}.replay')
                    break
    finally:
        sh(f'git -C {REPO} checkout -- .')
        sh(f'git -C {REPO} clean -fdq -- . ')
        for ev, body in saved.items():
            open(ev, 'w').write(body)
    prev = {}
    if os.path.exists(f'{d}/checks.json'): prev = json.load(open(f'{d}/checks.json'))
    prev.update(results)
    json.dump(prev, open(f'{d}/checks.json', 'w'), indent=1)
    for cid, r in results.items():
        print(pid, m, cid, 'rc=%d' % r['rc'], r['lines'][:2], '%ss' % r['wall'])

if __name__ == '__main__':
    a = sys.argv[1:]
    if a[0] == 'import': imp(a[1], a[2] if len(a) > 2 else None)
    elif a[0] == 'confirm': print(json.dumps(confirm(a[1], a[2]), indent=1)[:1500])
    elif a[0] == 'run': run(a[1], a[2], a[3:] or [a[1]])
