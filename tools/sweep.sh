#!/bin/sh
# tools/sweep.sh <seed> <n>: runs every engine/profile on the unchanged tree, compares with the model, lists monitor failures.
# Development aid (not a registered check). Needs .cache/vharness and the built driver.
cd "$(dirname "$0")/.."
export DBUS_SESSION_BUS_ADDRESS=${DBUS_SESSION_BUS_ADDRESS:-unix:path=/nonexistent}
SEED=${1:-1}; N=${2:-100}
D=.cache/sweep/$SEED
rm -rf $D; mkdir -p $D
for p in settle admin oracle fault malformed genesis mixed isolate; do
  .cache/vharness chain -profile $p -seed $SEED -n $N -dir $D/$p > $D/$p.out 2>&1 &
done
.cache/vharness ante -seed $SEED -n $((N/2)) -dir $D/ante > $D/ante.out 2>&1 &
.cache/vharness pure -seed $SEED -n $((N*50)) -dir $D/pure > $D/pure.out 2>&1 &
wait
bad=0; tot=0
for f in $D/*/*.ops; do
  b=${f%.ops}; tot=$((tot+1))
  case $f in
    */ante/*) mode="ante";;
    */pure/*) mode="pure";;
    *) mode="chain 1000000 1";;
  esac
  lean/.lake/build/bin/drv $mode < $f > $b.model 2>/dev/null
  grep -v "^# " $b.impl > $b.impl2
  if ! cmp -s $b.impl2 $b.model; then bad=$((bad+1)); echo "DIVERGENCE $f"; diff $b.impl2 $b.model | head -4 | cut -c1-300; fi
  rm -f $b.impl2
done
echo "histories=$tot divergent=$bad"
python3 - $D <<'PY'
import json,glob,sys,collections
c=collections.Counter()
for f in glob.glob(sys.argv[1]+'/*/*.stats.json'):
    st=json.load(open(f))
    for v in st.get('violations') or []:
        c[(st['profile'],v['property'],v['key'])]+=1
for k,v in sorted(c.items()): print('MONITOR',k,v)
PY
