#!/usr/bin/env python3
"""Copies the minimised histories that exposed seeded mutations into the corpus (corpus/<ID>/seed-<m>-<key>.ops), so that they run
first on every check. Only replays that carry a concrete history are taken (not the `unproved` ones); existing files are kept."""
import glob, os, re, sys
made = 0
for f in sorted(glob.glob('/verif/seeded/*/m*/caught-by-*.replay')):
    pid, m = f.split('/')[-3], f.split('/')[-2]
    if os.path.basename(f) != 'caught-by-%s.replay' % pid:
        continue
    lines = open(f, errors='replace').read().split('\n')
    if not lines or not lines[0].startswith('# property='):
        continue
    mk = re.search(r'key=(\S+)', lines[0]); me = re.search(r'engine=(\S+)', lines[0])
    if not mk or not me:
        continue
    key, eng = mk.group(1), me.group(1)
    if eng not in ("chain", "ante"):
        continue  # a pure transcript embeds answers of the tree it was made on (the entry the feeder produced is fed back): not a history
    ops = [l for l in lines[1:] if l.strip() and not l.startswith('#')]
    if not ops:
        continue
    d = '/verif/corpus/%s' % pid
    os.makedirs(d, exist_ok=True)
    if glob.glob('%s/seed-%s-*.ops' % (d, m)):
        continue
    out = '%s/seed-%s-%s.ops' % (d, m, key)
    notes = [l[:300] for l in lines[1:4] if l.startswith('#')]
    open(out, 'w').write('\n'.join(['# engine=%s minimised history that exposed seeded mutation %s/%s (%s)' % (eng, pid, m, key)] + notes + ops) + '\n')
    made += 1
    print('wrote', out)
print(made, 'corpus files written')
