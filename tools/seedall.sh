#!/bin/bash
# usage: tools/seedall.sh ID...   (confirm + run own property check for every imported mutation of the ids)
cd /verif
for id in "$@"; do
  for m in $(ls seeded/$id); do
    [ -f seeded/$id/$m/patch.diff ] || continue
    tools/seed.py confirm $id $m > /dev/null 2>&1
    python3 -c "import json;print('$id $m confirmed=',json.load(open('seeded/$id/$m/confirm.json')).get('confirmed'))"
    tools/seed.py run $id $m $id
  done
done
